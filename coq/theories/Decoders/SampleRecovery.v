(* Decoders/SampleRecovery.v — the recovery construction of the tensor-network (MPS) decoders.

   PlanarMPSDecoder.sample_recovery (planar/_planarmpsdecoder.py:126-148; reused by PlanarRMPSDecoder):
     for every plaquette flagged by the syndrome apply path(index, virtual_plaquette_index(index)).
   RotatedPlanarMPSDecoder.sample_recovery (rotatedplanar/_rotatedplanarmpsdecoder.py:129-164; reused by
   RotatedPlanarRMPSDecoder): a straight X string from every flagged Z-plaquette to the left boundary, a straight
   Z string from every flagged X-plaquette to the bottom boundary.
   decode() of the four decoders returns one of  sample, sample.logical_x(), sample.logical_x().logical_z(),
   sample.logical_z()  — which one is decided by tensor-network contraction values.  Here that choice is an
   arbitrary oracle (`coset`): the theorems hold for each of the four.

   Theorems (ALL sizes accepted by the constructors, EVERY bit vector of syndrome length, EVERY iteration order of
   the Python set of flagged plaquettes, EVERY coset choice): the returned operator has exactly the given syndrome.
     planar_sample_syndrome_all, planar_mps_decode_syndrome_all          (rows, cols >= 2)
     rotplanar_sample_syndrome_all, rotplanar_mps_decode_syndrome_all    (rows, cols >= 3)
   The colour-code decoder's construction is in Decoders/SampleRecoveryColor.v. *)
From Coq Require Import ZArith List Bool Lia ZifyBool Permutation.
From QV Require Import Core.Bits Core.Pauli Core.Symp Core.Code App.RunOnce Generated.LatticeArith
  Lattice.Planar Lattice.PlanarAll Decoders.Checker Decoders.MwpmRel Decoders.PlanarMwpm
  Lattice.RotPlanar Lattice.RotPlanarAll Lattice.RotPlanarValidAll.
Import ListNotations.
Open Scope Z_scope.
Ltac Zify.zify_post_hook ::= Z.to_euclidean_division_equations.

(* which of the four sample Paulis (I, X, Y, Z order of _coset_probabilities) decode returns *)
Inductive coset := CI | CX | CY | CZ.

(* ------------------------------------------------------------------ *)
(** * generic                                                          *)
(* ------------------------------------------------------------------ *)
Lemma xsumb_perm {A} (f : A -> bool) (l l' : list A) : Permutation l l' -> xsumb f l = xsumb f l'.
Proof.
  induction 1 as [|x l l' P IH|x y l|l1 l2 l3 P1 IH1 P2 IH2]; cbn [xsumb]; auto.
  - now rewrite IH.
  - now destruct (f x), (f y), (xsumb f l).
  - congruence.
Qed.
Lemma syndrome_zero_of_commute (S : list bsf) (l : bsf) :
  (forall s, In s S -> bsp l s = false) -> syndrome_of S l = zeros (length S).
Proof.
  intros H. unfold syndrome_of. induction S as [|s S IH]; [reflexivity|]. cbn [map length].
  rewrite H by (cbn; auto). rewrite IH by (intros; apply H; cbn; auto). reflexivity.
Qed.
Lemma syndrome_shift (S : list bsf) (f l : bsf) : length f = length l ->
  (forall s, In s S -> bsp l s = false) -> syndrome_of S (xorv f l) = syndrome_of S f.
Proof.
  intros HL H. rewrite syndrome_xorv by auto. rewrite (syndrome_zero_of_commute S l H).
  rewrite <- (syndrome_length S f). apply xorv_zeros_r.
Qed.

(* ------------------------------------------------------------------ *)
(** * planar                                                           *)
(* ------------------------------------------------------------------ *)
Section PlanarSample.
Variables rows cols : Z.

(* for index in plaquette_indices: sample_recovery.path(index, code.virtual_plaquette_index(index))
   None = IndexError (virtual_plaquette_index of a non-plaquette, path between different lattices) *)
Fixpoint planar_sample_paths (L : list idx) (p : pauli) : option pauli :=
  match L with
  | [] => Some p
  | q :: L' =>
      match planar_virtual_plaquette_index rows cols q with
      | None => None
      | Some v => match path rows cols q v p with Some p' => planar_sample_paths L' p' | None => None end
      end
  end.
(* the loop in a given iteration order of the set syndrome_to_plaquette_indices(syndrome) *)
Definition planar_sample_recovery_ord (L : list idx) : option pauli := planar_sample_paths L (new_pauli rows cols).
(* ... in the order of _plaquette_indices *)
Definition planar_sample_recovery (syn : bsf) : option pauli :=
  planar_sample_recovery_ord (syndrome_to_plaquette_indices rows cols syn).
(* sample_pauli, .copy().logical_x(), .copy().logical_x().logical_z(), .copy().logical_z() *)
Definition planar_apply_coset (c : coset) (p : pauli) : pauli :=
  match c with
  | CI => p
  | CX => logical_x rows cols p
  | CY => logical_z rows cols (logical_x rows cols p)
  | CZ => logical_z rows cols p
  end.
(* decode: max over the four cosets; the winner is the oracle's choice c *)
Definition planar_mps_recovery (c : coset) (syn : bsf) : option bsf :=
  option_map (fun p => p_to_bsf (planar_apply_coset c p)) (planar_sample_recovery syn).
(* the operator the sample is multiplied with *)
Definition planar_coset_op (c : coset) : bsf :=
  match c with
  | CI => zeros (planar_n rows cols + planar_n rows cols)
  | CX => lxop rows cols
  | CY => xorv (lxop rows cols) (lzop rows cols)
  | CZ => lzop rows cols
  end.

Hypothesis Hr : 2 <= rows.
Hypothesis Hc : 2 <= cols.
Notation inb := (planar_is_in_bounds rows cols).
Notation N := (planar_n rows cols).
Notation PI := (plaquette_indices rows cols).
Notation S := (stabs (planar_code rows cols)).
Notation vn := (vnode rows cols).

Definition sample_mates (L : list idx) : list (idx * idx) := map (fun q => (q, vn q)) L.

Lemma planar_sample_paths_apply : forall L p, (forall q, In q L -> In q PI) ->
  planar_sample_paths L p = apply_paths rows cols (sample_mates L) p.
Proof.
  induction L as [|q L IH]; intros p HL; [reflexivity|]. cbn [planar_sample_paths sample_mates map apply_paths].
  destruct (planar_virtual_props rows cols Hr Hc q (HL q (or_introl eq_refl))) as (v & Hv & _).
  unfold vnode. rewrite Hv. destruct (path rows cols q v p) as [p'|]; [|reflexivity].
  apply IH. intros; apply HL; cbn; auto.
Qed.
Lemma apply_paths_lengths : forall m p q, apply_paths rows cols m p = Some q ->
  length (pxs q) = length (pxs p) /\ length (pzs q) = length (pzs p).
Proof.
  induction m as [|[a b] m IHm]; intros p q H; cbn in H; [injection H as <-; auto|].
  unfold path in H. destruct (planar_translation rows cols a b) as [[rs cs]|]; [|discriminate].
  apply IHm in H. destruct (sites_lengths rows cols (path_op a) (path_sites a rs cs) p) as [E1 E2]. lia.
Qed.
Lemma sample_mates_ok L : (forall q, In q L -> In q PI) -> forall m, In m (sample_mates L) -> ok rows cols (fst m) (snd m).
Proof.
  intros HL m Hm. apply in_map_iff in Hm. destruct Hm as (q & <- & Hq). cbn [fst snd].
  destruct (defect_facts rows cols Hr Hc q (HL q Hq)) as (H1 & H2 & H3 & H4 & H5 & H6 & H7).
  split; auto. split; auto. split; [unfold same_type in *; lia|]. left. auto.
Qed.
Lemma xsumb_sample_mates q L : In q PI -> (forall d, In d L -> In d PI) ->
  xsumb (zeqb2 q) (ends2 (sample_mates L)) = xsumb (zeqb2 q) L.
Proof.
  intros Hq. apply in_plaquette_indices in Hq; auto. destruct Hq as [_ Hq].
  induction L as [|d L IH]; intros HL; [reflexivity|].
  change (ends2 (sample_mates (d :: L))) with (d :: vn d :: ends2 (sample_mates L)). cbn [xsumb].
  destruct (defect_facts rows cols Hr Hc d (HL d (or_introl eq_refl))) as (_ & _ & _ & _ & _ & _ & H7).
  rewrite (zeqb2_inb_neq rows cols q (vn d) Hq H7), IH by (intros; apply HL; cbn; auto).
  now rewrite xorb_false_l.
Qed.

(* the sample: for every order of the flagged plaquettes *)
Theorem planar_sample_syndrome (syn : bsf) (L : list idx) :
  length syn = length PI -> Permutation L (syndrome_to_plaquette_indices rows cols syn) ->
  exists p, planar_sample_recovery_ord L = Some p /\ length (pxs p) = N /\ length (pzs p) = N /\
    p_to_bsf p = xsum (N + N) (pair_ops idx (pathop rows cols) (sample_mates L)) /\
    syndrome_of S (p_to_bsf p) = syn.
Proof.
  intros HLs P.
  assert (HL : forall q, In q L -> In q PI).
  { intros q Hq. apply (Permutation_in _ P) in Hq. eapply defect_in_PI; eauto. }
  pose proof (sample_mates_ok L HL) as Hok.
  destruct (apply_paths_xsum rows cols Hr Hc (sample_mates L) (new_pauli rows cols) Hok) as (p' & Hp' & Hbsf);
    [unfold new_pauli, pzero; cbn; apply zeros_length|unfold new_pauli, pzero; cbn; apply zeros_length|].
  exists p'. unfold planar_sample_recovery_ord. rewrite planar_sample_paths_apply by auto. split; [exact Hp'|].
  pose proof (pair_ops_rowlen idx (N + N) (pathop rows cols) (ok rows cols) (ok_len rows cols Hr Hc) (sample_mates L) Hok) as Hrow.
  rewrite new_pauli_bsf, xorv_zeros_l in Hbsf by (apply xsum_len; exact Hrow).
  destruct (apply_paths_lengths _ _ _ Hp') as [Hx Hz]. unfold new_pauli, pzero in Hx, Hz. cbn [pxs pzs] in Hx, Hz.
  rewrite zeros_length in Hx, Hz.
 split; [exact Hx|]. split; [exact Hz|]. split; [exact Hbsf|].
  rewrite Hbsf.
  rewrite (rel_recovery_syndrome idx S (N + N) (ind rows cols) (pathop rows cols) (ok rows cols) (ind_len rows cols)
             (ok_len rows cols Hr Hc) (ok_syn rows cols Hr Hc) (sample_mates L) (ends2 (sample_mates L)) Hok (Permutation_refl _)).
  rewrite stabs_len. unfold ind. rewrite xsum_indv.
  transitivity (map (fun q => xsumb (zeqb2 q) (defects rows cols syn)) PI);
    [|apply (select_indicator zeqb2 (zeqb2_eq) PI syn (NoDup_PI rows cols) HLs)].
  apply map_ext_in. intros q Hq. rewrite xsumb_sample_mates by auto. apply xsumb_perm. exact P.
Qed.

(* ---- the logical operators: multiplying is XOR-ing lxop / lzop, which commute with every stabilizer ---- *)
Lemma logical_x_xor p : length (pxs p) = N -> length (pzs p) = N ->
  p_to_bsf (logical_x rows cols p) = xorv (p_to_bsf p) (lxop rows cols).
Proof.
  intros Hx Hz. unfold logical_x. rewrite sites_gsites.
  apply (gsites_xor inb (fl rows cols) N); auto. apply klt_sites; auto. apply lx_sites_sites; auto.
Qed.
Lemma logical_z_xor p : length (pxs p) = N -> length (pzs p) = N ->
  p_to_bsf (logical_z rows cols p) = xorv (p_to_bsf p) (lzop rows cols).
Proof.
  intros Hx Hz. unfold logical_z. rewrite sites_gsites.
  apply (gsites_xor inb (fl rows cols) N); auto. apply klt_sites; auto. apply lz_sites_sites; auto.
Qed.
Lemma lxop_commutes s : In s S -> bsp (lxop rows cols) s = false.
Proof.
  rewrite code_eq. cbn [stabs]. intros Hs. apply in_map_iff in Hs. destruct Hs as (q & <- & Hq).
  unfold lxop, stab. rewrite bsp_sop_sym. now apply planar_stabilizer_logical_x.
Qed.
Lemma lzop_commutes s : In s S -> bsp (lzop rows cols) s = false.
Proof.
  rewrite code_eq. cbn [stabs]. intros Hs. apply in_map_iff in Hs. destruct Hs as (q & <- & Hq).
  unfold lzop, stab. rewrite bsp_sop_sym. now apply planar_stabilizer_logical_z.
Qed.
Lemma lxop_length : length (lxop rows cols) = (N + N)%nat. Proof. apply sop_length. Qed.
Lemma lzop_length : length (lzop rows cols) = (N + N)%nat. Proof. apply sop_length. Qed.

(* applying a coset representative = XOR with the coset operator; lengths are kept *)
Lemma planar_apply_coset_xor c p : length (pxs p) = N -> length (pzs p) = N ->
  p_to_bsf (planar_apply_coset c p) = xorv (p_to_bsf p) (planar_coset_op c).
Proof.
  intros Hx Hz. destruct c; cbn [planar_apply_coset planar_coset_op].
  - rewrite <- (xorv_zeros_r (p_to_bsf p)) at 1. f_equal. unfold p_to_bsf. rewrite app_length, Hx, Hz. reflexivity.
  - now apply logical_x_xor.
  - destruct (sites_lengths rows cols pX (logical_x_sites rows cols) p) as [E1 E2].
    rewrite logical_z_xor by (unfold logical_x; lia). rewrite logical_x_xor by auto. apply xorv_assoc.
  - now apply logical_z_xor.
Qed.
Lemma planar_coset_op_length c : length (planar_coset_op c) = (N + N)%nat.
Proof.
  destruct c; cbn [planar_coset_op]; rewrite ?zeros_length, ?xorv_length; auto using lxop_length, lzop_length.
  now rewrite lxop_length, lzop_length.
Qed.
Lemma planar_coset_op_commutes c s : In s S -> bsp (planar_coset_op c) s = false.
Proof.
  intros Hs. destruct c; cbn [planar_coset_op].
  - apply bsp_zeros_l; [|apply even_NN].
    rewrite code_eq in Hs. cbn [stabs] in Hs. apply in_map_iff in Hs. destruct Hs as (q & <- & _). apply stab_length.
  - now apply lxop_commutes.
  - rewrite bsp_linear_l by (now rewrite lxop_length, lzop_length). now rewrite lxop_commutes, lzop_commutes.
  - now apply lzop_commutes.
Qed.

(* C02 for PlanarMPSDecoder / PlanarRMPSDecoder.decode: whichever coset the contraction prefers *)
Theorem planar_mps_decode_syndrome (c : coset) (syn : bsf) (L : list idx) :
  length syn = length PI -> Permutation L (syndrome_to_plaquette_indices rows cols syn) ->
  exists p, planar_sample_recovery_ord L = Some p /\
    p_to_bsf (planar_apply_coset c p) = xorv (p_to_bsf p) (planar_coset_op c) /\
    length (p_to_bsf (planar_apply_coset c p)) = (N + N)%nat /\
    syndrome_of S (p_to_bsf (planar_apply_coset c p)) = syn.
Proof.
  intros HLs P. destruct (planar_sample_syndrome syn L HLs P) as (p & Hp & Hx & Hz & _ & Hsyn).
  exists p. split; [exact Hp|]. pose proof (planar_apply_coset_xor c p Hx Hz) as E. split; [exact E|].
  assert (Hlen : length (p_to_bsf p) = (N + N)%nat) by (unfold p_to_bsf; rewrite app_length; lia).
  rewrite E. split.
  - rewrite xorv_length; [exact Hlen|now rewrite planar_coset_op_length].
  - rewrite syndrome_shift; [exact Hsyn|now rewrite planar_coset_op_length|apply planar_coset_op_commutes].
Qed.
End PlanarSample.

(* ---- the all-sizes statements ---- *)
(* C02, PlanarMPSDecoder.sample_recovery: every size, every syndrome-length bit vector, every iteration order *)
Theorem planar_sample_syndrome_all : forall rows cols, 2 <= rows -> 2 <= cols ->
  forall (syn : bsf) (L : list idx),
  length syn = length (stabs (planar_code rows cols)) ->
  Permutation L (syndrome_to_plaquette_indices rows cols syn) ->
  exists p, planar_sample_recovery_ord rows cols L = Some p /\
    length (p_to_bsf p) = (planar_n rows cols + planar_n rows cols)%nat /\
    syndrome_of (stabs (planar_code rows cols)) (p_to_bsf p) = syn.
Proof.
  intros rows cols Hr Hc syn L HL P. rewrite stabs_len in HL.
  destruct (planar_sample_syndrome rows cols Hr Hc syn L HL P) as (p & Hp & Hx & Hz & _ & Hs).
  exists p. split; [exact Hp|]. split; [unfold p_to_bsf; rewrite app_length; lia|exact Hs].
Qed.
(* C02, PlanarMPSDecoder.decode / PlanarRMPSDecoder.decode: recovery = sample xor L for L in {I, X, XZ, Z}-logical,
   whichever the tensor-network values select *)
Theorem planar_mps_decode_syndrome_all : forall rows cols, 2 <= rows -> 2 <= cols ->
  forall (c : coset) (syn : bsf) (L : list idx),
  length syn = length (stabs (planar_code rows cols)) ->
  Permutation L (syndrome_to_plaquette_indices rows cols syn) ->
  exists p, planar_sample_recovery_ord rows cols L = Some p /\
    let r := p_to_bsf (planar_apply_coset rows cols c p) in
    r = xorv (p_to_bsf p) (planar_coset_op rows cols c) /\
    length r = (planar_n rows cols + planar_n rows cols)%nat /\
    syndrome_of (stabs (planar_code rows cols)) r = syn.
Proof.
  intros rows cols Hr Hc c syn L HL P. rewrite stabs_len in HL.
  exact (planar_mps_decode_syndrome rows cols Hr Hc c syn L HL P).
Qed.
(* in the order of _plaquette_indices (the extracted engine's order), as a function *)
Corollary planar_mps_recovery_syndrome_all : forall rows cols, 2 <= rows -> 2 <= cols ->
  forall (c : coset) (syn : bsf), length syn = length (stabs (planar_code rows cols)) ->
  exists r, planar_mps_recovery rows cols c syn = Some r /\
    length r = (planar_n rows cols + planar_n rows cols)%nat /\
    syndrome_of (stabs (planar_code rows cols)) r = syn.
Proof.
  intros rows cols Hr Hc c syn HL.
  destruct (planar_mps_decode_syndrome_all rows cols Hr Hc c syn _ HL (Permutation_refl _)) as (p & Hp & _ & H2 & H3).
  exists (p_to_bsf (planar_apply_coset rows cols c p)). unfold planar_mps_recovery, planar_sample_recovery.
  rewrite Hp. auto.
Qed.
(* ... in particular for the syndrome of any error *)
Corollary planar_mps_recovery_of_error_all : forall rows cols, 2 <= rows -> 2 <= cols -> forall (c : coset) (e : bsf),
  let S := stabs (planar_code rows cols) in
  exists r, planar_mps_recovery rows cols c (syndrome_of S e) = Some r /\ syndrome_of S r = syndrome_of S e.
Proof.
  intros rows cols Hr Hc c e S.
  destruct (planar_mps_recovery_syndrome_all rows cols Hr Hc c (syndrome_of S e)) as (r & H1 & _ & H3);
    [apply syndrome_length|]. exists r. auto.
Qed.
(* the iteration order of the Python set does not matter *)
Corollary planar_sample_order_irrelevant : forall rows cols, 2 <= rows -> 2 <= cols -> forall (syn : bsf) (L : list idx),
  length syn = length (stabs (planar_code rows cols)) ->
  Permutation L (syndrome_to_plaquette_indices rows cols syn) ->
  option_map p_to_bsf (planar_sample_recovery_ord rows cols L) = option_map p_to_bsf (planar_sample_recovery rows cols syn).
Proof.
  intros rows cols Hr Hc syn L HL P. rewrite stabs_len in HL.
  destruct (planar_sample_syndrome rows cols Hr Hc syn L HL P) as (p & Hp & _ & _ & Hb & _).
  destruct (planar_sample_syndrome rows cols Hr Hc syn _ HL (Permutation_refl _)) as (p2 & Hp2 & _ & _ & Hb2 & _).
  unfold planar_sample_recovery. rewrite Hp, Hp2. cbn [option_map]. f_equal. rewrite Hb, Hb2.
  apply xsum_perm.
  - apply (pair_ops_rowlen idx _ (pathop rows cols) (ok rows cols) (ok_len rows cols Hr Hc)).
    apply sample_mates_ok; auto. intros q Hq. apply (Permutation_in _ P) in Hq. eapply defect_in_PI; eauto.
  - unfold pair_ops, sample_mates. now apply Permutation_map, Permutation_map.
Qed.

(* ------------------------------------------------------------------ *)
(** * rotated planar                                                   *)
(* ------------------------------------------------------------------ *)
(* the rc_ dense machinery is the planar one under other names *)
Lemma rc_flip_at_flipn k : forall u, rc_flip_at k u = flipn k u.
Proof. induction k as [|k IH]; intros [|x u]; cbn; auto; now rewrite IH. Qed.
Lemma rc_flips_flips ks : forall u, rc_flips ks u = flips ks u.
Proof.
  induction ks as [|k ks IH]; intros u; [reflexivity|]. cbn [rc_flips flips fold_left].
  rewrite rc_flip_at_flipn. apply IH.
Qed.
Lemma rc_select_select {A} : forall (s : bsf) (l : list A), rc_select s l = select s l.
Proof. induction s as [|b s IH]; intros [|a l]; cbn; auto; try (destruct b; now rewrite IH). Qed.
Lemma rc_apply_flips_xor n op ks p : length (rc_xs p) = n -> length (rc_zs p) = n -> rc_klt n ks ->
  rc_to_bsf (rc_apply_flips op ks p) = xorv (rc_to_bsf p) (rc_gop n op ks).
Proof.
  intros Hx Hz Hk. rewrite rc_gop_parts. unfold rc_to_bsf, rc_apply_flips, rc_xpart, rc_zpart. cbn [rc_xs rc_zs].
  rewrite xorv_app by (destruct (xbit op); rewrite ?rc_flips_length, ?zeros_length; auto). f_equal.
  - destruct (xbit op); [rewrite !rc_flips_flips; now apply flips_xor|now rewrite <- Hx, xorv_zeros_r].
  - destruct (zbit op); [rewrite !rc_flips_flips; now apply flips_xor|now rewrite <- Hz, xorv_zeros_r].
Qed.
Lemma rc_apply_flips_lengths op ks p :
  length (rc_xs (rc_apply_flips op ks p)) = length (rc_xs p) /\ length (rc_zs (rc_apply_flips op ks p)) = length (rc_zs p).
Proof. unfold rc_apply_flips. cbn [rc_xs rc_zs]. destruct (xbit op), (zbit op); rewrite ?rc_flips_length; auto. Qed.

Section RotPlanarSample.
Variables rows cols : Z.

(* the straight string of one flagged plaquette (plaq_x, plaq_y):
     Z-plaquette: X on (site_x, max(0, plaq_y)) for site_x in range(0, plaq_x + 1)      -- to the left boundary
     X-plaquette: Z on (max(0, plaq_x), site_y) for site_y in range(0, plaq_y + 1)      -- to the bottom boundary *)
Definition rp_string_op (q : ridx) : pl := if rotplanar_is_z_plaquette q then pX else pZ.
Definition rp_string_sites (q : ridx) : list ridx :=
  if rotplanar_is_z_plaquette q
  then map (fun x => (x, Z.max 0 (snd q))) (rc_range 0 (fst q + 1))
  else map (fun y => (Z.max 0 (fst q), y)) (rc_range 0 (snd q + 1)).
(* the loop in a given iteration order of the set syndrome_to_plaquette_indices(syndrome) *)
Definition rotplanar_sample_recovery_ord (L : list ridx) : rc_pauli :=
  fold_left (fun p q => rp_sites rows cols (rp_string_op q) (rp_string_sites q) p) L (rp_identity rows cols).
Definition rotplanar_sample_recovery (syn : bsf) : rc_pauli :=
  rotplanar_sample_recovery_ord (rp_syndrome_to_plaquette_indices rows cols syn).
Definition rotplanar_apply_coset (c : coset) (p : rc_pauli) : rc_pauli :=
  match c with
  | CI => p
  | CX => rp_logical_x rows cols p
  | CY => rp_logical_z rows cols (rp_logical_x rows cols p)
  | CZ => rp_logical_z rows cols p
  end.
Definition rotplanar_mps_recovery (c : coset) (syn : bsf) : bsf :=
  rc_to_bsf (rotplanar_apply_coset c (rotplanar_sample_recovery syn)).
Definition rotplanar_coset_op (c : coset) : bsf :=
  match c with
  | CI => zeros (rp_n rows cols + rp_n rows cols)
  | CX => rp_lxop rows cols
  | CY => xorv (rp_lxop rows cols) (rp_lzop rows cols)
  | CZ => rp_lzop rows cols
  end.

Hypothesis Hr : 3 <= rows.
Hypothesis Hc : 3 <= cols.
Notation insb := (rotplanar_is_in_site_bounds rows cols).
Notation inpb := (rotplanar_is_in_plaquette_bounds rows cols).
Notation RN := (rp_n rows cols).
Notation RPI := (rp_plaquette_indices rows cols).
Notation RS := (stabs (rotplanar_code rows cols)).
Notation sop := (rp_sop rows cols).

Definition rp_string (q : ridx) : bsf := sop (rp_string_op q) (rp_string_sites q).

(* ---- one string against one stabilizer ---- *)
Lemma rp_hstring_overlap q p :
  rotplanar_is_x_plaquette q = false -> rotplanar_is_x_plaquette p = false -> inpb q = true -> inpb p = true ->
  Z.odd (rc_pairs (filter insb (rp_corners p))
                  (filter insb (map (fun x => (x, Z.max 0 (snd q))) (rc_range 0 (fst q + 1))))) = rc_idx_eqb p q.
Proof.
  intros Tq Tp Hq Hp. destruct q as [qx qy], p as [x y]. cbn [fst snd].
  pose proof (rp_z_inpb rows cols qx qy Tq Hq) as Bq. pose proof (rp_z_inpb rows cols x y Tp Hp) as Bp. clear Hq Hp.
  rewrite rp_xplaq_unfold in Tq, Tp. cbn [fst snd] in Tq, Tp. apply Z.eqb_neq in Tq, Tp.
  rewrite rc_pairs_filter. unfold rc_range.
  change (rp_corners (x, y)) with [(x, y); (x, y + 1); (x + 1, y + 1); (x + 1, y)]. cbn [fold_right].
  rewrite !rc_cnt_filter, !rc_cnt_hline, !rc_b2z_mul, !andb_assoc, !andb_diag. cbn [fst snd].
  rewrite !rp_insb_unfold. cbn [fst snd].
  unfold rc_idx_eqb. cbn [fst snd].
  assert (Hd : x = qx \/ x < qx \/ qx < x) by lia.
  assert (Hd2 : y = qy \/ y = qy - 1 \/ y = qy + 1 \/ y < qy - 1 \/ qy + 1 < y) by lia.
  destruct Hd as [-> | [Hd | Hd]]; destruct Hd2 as [-> | [-> | [-> | [Hd2 | Hd2]]]];
    try (exfalso; clear Bp Bq; lia);
    match goal with |- Z.odd ?z = ?b => assert (E : z mod 2 = Z.b2z b) by (clear Tp Tq; lia) end;
    match goal with |- Z.odd ?z = ?b => destruct b; [apply rc_odd_of_mod2_1|apply rc_odd_of_mod2_0]; exact E end.
Qed.

Lemma rp_vstring_overlap q p :
  rotplanar_is_x_plaquette q = true -> rotplanar_is_x_plaquette p = true -> inpb q = true -> inpb p = true ->
  Z.odd (rc_pairs (filter insb (rp_corners p))
                  (filter insb (map (fun y => (Z.max 0 (fst q), y)) (rc_range 0 (snd q + 1))))) = rc_idx_eqb p q.
Proof.
  intros Tq Tp Hq Hp. destruct q as [qx qy], p as [x y]. cbn [fst snd].
  pose proof (rp_x_inpb rows cols qx qy Tq Hq) as Bq. pose proof (rp_x_inpb rows cols x y Tp Hp) as Bp. clear Hq Hp.
  rewrite rp_xplaq_unfold in Tq, Tp. cbn [fst snd] in Tq, Tp. apply Z.eqb_eq in Tq, Tp.
  rewrite rc_pairs_filter. unfold rc_range.
  change (rp_corners (x, y)) with [(x, y); (x, y + 1); (x + 1, y + 1); (x + 1, y)]. cbn [fold_right].
  rewrite !rc_cnt_filter, !rc_cnt_vline, !rc_b2z_mul, !andb_assoc, !andb_diag. cbn [fst snd].
  rewrite !rp_insb_unfold. cbn [fst snd].
  unfold rc_idx_eqb. cbn [fst snd].
  assert (Hd : y = qy \/ y < qy \/ qy < y) by lia.
  assert (Hd2 : x = qx \/ x = qx - 1 \/ x = qx + 1 \/ x < qx - 1 \/ qx + 1 < x) by lia.
  destruct Hd as [-> | [Hd | Hd]]; destruct Hd2 as [-> | [-> | [-> | [Hd2 | Hd2]]]];
    try (exfalso; clear Bp Bq; lia);
    match goal with |- Z.odd ?z = ?b => assert (E : z mod 2 = Z.b2z b) by (clear Tp Tq; lia) end;
    match goal with |- Z.odd ?z = ?b => destruct b; [apply rc_odd_of_mod2_1|apply rc_odd_of_mod2_0]; exact E end.
Qed.

Lemma rp_xz_distinct p q : rotplanar_is_x_plaquette p = true -> rotplanar_is_x_plaquette q = false -> rc_idx_eqb p q = false.
Proof.
  intros Tp Tq. destruct (rc_idx_eqb p q) eqn:E; [|reflexivity]. apply rc_idx_eqb_spec in E. congruence.
Qed.
(* the string of plaquette q anticommutes with the stabilizer of plaquette p exactly when p = q *)
Theorem rp_string_syndrome_bit q p : In q RPI -> In p RPI -> bsp (rp_string q) (rp_stab rows cols p) = rc_idx_eqb p q.
Proof.
  intros Hq Hp. apply rp_in_plaquette_indices in Hq, Hp.
  unfold rp_string, rp_stab, rp_string_op, rp_string_sites, rp_plaq_op, rotplanar_is_z_plaquette.
  destruct (rotplanar_is_x_plaquette q) eqn:Tq, (rotplanar_is_x_plaquette p) eqn:Tp; cbn [negb].
  - rewrite rp_bsp_sop_sym, rp_bsp_sop. cbv zeta. cbn [xbit zbit andb]. rewrite xorb_false_l. now apply rp_vstring_overlap.
  - rewrite rp_bsp_sop. cbv zeta. cbn [xbit zbit andb]. symmetry.
    destruct (rc_idx_eqb p q) eqn:E; [|reflexivity]. apply rc_idx_eqb_spec in E. congruence.
  - rewrite rp_bsp_sop. cbv zeta. cbn [xbit zbit andb]. symmetry. now apply rp_xz_distinct.
  - rewrite rp_bsp_sop_sym, rp_bsp_sop. cbv zeta. cbn [xbit zbit andb]. rewrite xorb_false_r. now apply rp_hstring_overlap.
Qed.

Lemma rp_stabs_len : length RS = length RPI.
Proof. rewrite (rp_code_eq rows cols Hr Hc). cbn [stabs]. apply map_length. Qed.
Lemma rp_sop_length op L : length (sop op L) = (RN + RN)%nat.
Proof. rewrite rp_sop_gop. apply rc_gop_length. Qed.
Lemma rp_string_length q : length (rp_string q) = (RN + RN)%nat.
Proof. apply rp_sop_length. Qed.
Definition rp_ind (x : ridx) : bsf := indv rc_idx_eqb RPI x.
Theorem rp_string_syndrome q : In q RPI -> syndrome_of RS (rp_string q) = rp_ind q.
Proof.
  intros Hq. rewrite (rp_code_eq rows cols Hr Hc). cbn [stabs]. unfold syndrome_of, rp_ind, indv. rewrite map_map.
  apply map_ext_in. intros p Hp. now apply rp_string_syndrome_bit.
Qed.

(* laying sites on a Pauli = XOR with the sparse operator *)
Lemma rp_sites_xor op L p : length (rc_xs p) = RN -> length (rc_zs p) = RN ->
  rc_to_bsf (rp_sites rows cols op L p) = xorv (rc_to_bsf p) (sop op L) /\
  length (rc_xs (rp_sites rows cols op L p)) = RN /\ length (rc_zs (rp_sites rows cols op L p)) = RN.
Proof.
  intros Hx Hz. rewrite rp_sites_keys, rp_sop_gop.
  destruct (rc_apply_flips_lengths op (rp_keys rows cols L) p) as [E1 E2].
  split; [apply rc_apply_flips_xor; auto; apply rp_keys_klt|lia].
Qed.
Lemma rp_identity_lengths : length (rc_xs (rp_identity rows cols)) = RN /\ length (rc_zs (rp_identity rows cols)) = RN.
Proof. unfold rp_identity, rc_identity. cbn [rc_xs rc_zs]. now rewrite zeros_length. Qed.
Lemma rp_identity_bsf : rc_to_bsf (rp_identity rows cols) = zeros (RN + RN).
Proof. unfold rp_identity, rc_identity, rc_to_bsf. cbn [rc_xs rc_zs]. apply zeros_app. Qed.

(* the loop computes the XOR of the strings *)
Lemma rp_sample_fold : forall L p, length (rc_xs p) = RN -> length (rc_zs p) = RN ->
  let r := fold_left (fun p q => rp_sites rows cols (rp_string_op q) (rp_string_sites q) p) L p in
  rc_to_bsf r = xorv (rc_to_bsf p) (xsum (RN + RN) (map rp_string L)) /\ length (rc_xs r) = RN /\ length (rc_zs r) = RN.
Proof.
  induction L as [|q L IH]; intros p Hx Hz; cbn [fold_left map].
  - split; auto. change (xsum (RN + RN) []) with (zeros (RN + RN)).
    replace (RN + RN)%nat with (length (rc_to_bsf p)) by (unfold rc_to_bsf; rewrite app_length; lia).
    symmetry. apply xorv_zeros_r.
  - destruct (rp_sites_xor (rp_string_op q) (rp_string_sites q) p Hx Hz) as (E & Hx' & Hz').
    destruct (IH _ Hx' Hz') as (E2 & Hx2 & Hz2). cbv zeta. split; auto.
    rewrite E2, E, xsum_cons. fold (rp_string q). apply xorv_assoc.
Qed.

Lemma rp_scan_NoDup : NoDup (rp_scan rows cols).
Proof.
  unfold rp_scan. cbn [rotplanar_site_bounds]. apply NoDup_flat_map; [apply rc_range_NoDup| |].
  - intros y _. apply rc_NoDup_map_inj; [|apply rc_range_NoDup]. intros a b _ _ H. congruence.
  - intros y y' b _ _ Hy Hy'. apply in_map_iff in Hy, Hy'. destruct Hy as (x & <- & _), Hy' as (x' & E & _). congruence.
Qed.
Lemma rp_PI_NoDup : NoDup RPI.
Proof.
  unfold rp_plaquette_indices.
  assert (Hall : NoDup (filter inpb (rp_scan rows cols))) by (apply NoDup_filter, rp_scan_NoDup).
  apply NoDup_app_disj; try now apply NoDup_filter.
  intros x H1 H2. apply filter_In in H1, H2. destruct H1 as [_ H1], H2 as [_ H2]. rewrite H1 in H2. discriminate.
Qed.

(* the sample: every order of the flagged plaquettes *)
Theorem rotplanar_sample_syndrome (syn : bsf) (L : list ridx) :
  length syn = length RPI -> Permutation L (rp_syndrome_to_plaquette_indices rows cols syn) ->
  let p := rotplanar_sample_recovery_ord L in
  length (rc_xs p) = RN /\ length (rc_zs p) = RN /\
  rc_to_bsf p = xsum (RN + RN) (map rp_string L) /\
  syndrome_of RS (rc_to_bsf p) = syn.
Proof.
  intros HLs P p.
  assert (HL : forall q, In q L -> In q RPI).
  { intros q Hq. apply (Permutation_in _ P) in Hq. unfold rp_syndrome_to_plaquette_indices in Hq.
    rewrite rc_select_select in Hq. eapply select_incl; eauto. }
  destruct rp_identity_lengths as [Ix Iz].
  destruct (rp_sample_fold L (rp_identity rows cols) Ix Iz) as (E & Hx & Hz). fold (rotplanar_sample_recovery_ord L) in E, Hx, Hz. fold p in E, Hx, Hz.
  assert (Hrow : rowlen (RN + RN) (map rp_string L)).
  { unfold rowlen. apply Forall_map. apply Forall_forall. intros q _. apply rp_string_length. }
  rewrite rp_identity_bsf, xorv_zeros_l in E by (apply xsum_len; exact Hrow).
  split; [exact Hx|]. split; [exact Hz|]. split; [exact E|].
  rewrite E, product_syndrome by exact Hrow. rewrite map_map.
  rewrite (map_ext_in _ rp_ind) by (intros q Hq; apply rp_string_syndrome; auto).
  rewrite rp_stabs_len. unfold rp_ind. rewrite xsum_indv.
  transitivity (map (fun q => xsumb (rc_idx_eqb q) (select syn RPI)) RPI);
    [|apply (select_indicator rc_idx_eqb rc_idx_eqb_spec RPI syn rp_PI_NoDup HLs)].
  apply map_ext_in. intros q Hq. apply xsumb_perm. unfold rp_syndrome_to_plaquette_indices in P.
  now rewrite rc_select_select in P.
Qed.

(* ---- the logical operators ---- *)
Lemma rp_lxop_commutes s : In s RS -> bsp (rp_lxop rows cols) s = false.
Proof.
  rewrite (rp_code_eq rows cols Hr Hc). cbn [stabs]. intros Hs. apply in_map_iff in Hs. destruct Hs as (q & <- & Hq).
  unfold rp_lxop, rp_stab. rewrite rp_bsp_sop_sym. now apply rotplanar_stabilizer_logical_x_all.
Qed.
Lemma rp_lzop_commutes s : In s RS -> bsp (rp_lzop rows cols) s = false.
Proof.
  rewrite (rp_code_eq rows cols Hr Hc). cbn [stabs]. intros Hs. apply in_map_iff in Hs. destruct Hs as (q & <- & Hq).
  unfold rp_lzop, rp_stab. rewrite rp_bsp_sop_sym. now apply rotplanar_stabilizer_logical_z_all.
Qed.
Lemma rotplanar_apply_coset_xor c p : length (rc_xs p) = RN -> length (rc_zs p) = RN ->
  rc_to_bsf (rotplanar_apply_coset c p) = xorv (rc_to_bsf p) (rotplanar_coset_op c).
Proof.
  intros Hx Hz. destruct c; cbn [rotplanar_apply_coset rotplanar_coset_op].
  - rewrite <- (xorv_zeros_r (rc_to_bsf p)) at 1. f_equal. unfold rc_to_bsf. rewrite app_length, Hx, Hz. reflexivity.
  - rewrite rp_logical_x_eq by auto. now apply rp_sites_xor.
  - rewrite rp_logical_x_eq, rp_logical_z_eq by auto.
    destruct (rp_sites_xor pX (rp_lx_sites cols) p Hx Hz) as (E & Hx' & Hz').
    destruct (rp_sites_xor pZ (rp_lz_sites rows cols) _ Hx' Hz') as (E2 & _). rewrite E2, E. apply xorv_assoc.
  - rewrite rp_logical_z_eq by auto. now apply rp_sites_xor.
Qed.
Lemma rotplanar_coset_op_length c : length (rotplanar_coset_op c) = (RN + RN)%nat.
Proof.
  destruct c; cbn [rotplanar_coset_op]; unfold rp_lxop, rp_lzop.
  - apply zeros_length.
  - apply rp_sop_length.
  - rewrite xorv_length; rewrite !rp_sop_length; reflexivity.
  - apply rp_sop_length.
Qed.
Lemma rotplanar_coset_op_commutes c s : In s RS -> bsp (rotplanar_coset_op c) s = false.
Proof.
  intros Hs. destruct c; cbn [rotplanar_coset_op].
  - apply bsp_zeros_l; [|replace (RN + RN)%nat with (2 * RN)%nat by lia; apply Nat.even_spec; now exists RN].
    rewrite (rp_code_eq rows cols Hr Hc) in Hs. cbn [stabs] in Hs. apply in_map_iff in Hs. destruct Hs as (q & <- & _). apply rp_sop_length.
  - now apply rp_lxop_commutes.
  - rewrite bsp_linear_l by (unfold rp_lxop, rp_lzop; now rewrite !rp_sop_length). now rewrite rp_lxop_commutes, rp_lzop_commutes.
  - now apply rp_lzop_commutes.
Qed.

(* C02 for RotatedPlanarMPSDecoder / RotatedPlanarRMPSDecoder.decode: whichever coset the contraction prefers *)
Theorem rotplanar_mps_decode_syndrome (c : coset) (syn : bsf) (L : list ridx) :
  length syn = length RPI -> Permutation L (rp_syndrome_to_plaquette_indices rows cols syn) ->
  let p := rotplanar_sample_recovery_ord L in
  let r := rc_to_bsf (rotplanar_apply_coset c p) in
  r = xorv (rc_to_bsf p) (rotplanar_coset_op c) /\ length r = (RN + RN)%nat /\ syndrome_of RS r = syn.
Proof.
  intros HLs P p r. destruct (rotplanar_sample_syndrome syn L HLs P) as (Hx & Hz & _ & Hsyn). fold p in Hx, Hz, Hsyn.
  pose proof (rotplanar_apply_coset_xor c p Hx Hz) as E. fold r in E. split; [exact E|].
  assert (Hlen : length (rc_to_bsf p) = (RN + RN)%nat) by (unfold rc_to_bsf; rewrite app_length; lia).
  rewrite E. split.
  - rewrite xorv_length; [exact Hlen|now rewrite rotplanar_coset_op_length].
  - rewrite syndrome_shift; [exact Hsyn|now rewrite rotplanar_coset_op_length|apply rotplanar_coset_op_commutes].
Qed.
End RotPlanarSample.

(* ---- the all-sizes statements ---- *)
(* C02, RotatedPlanarMPSDecoder.sample_recovery: every size, every syndrome-length bit vector, every iteration order *)
Theorem rotplanar_sample_syndrome_all : forall rows cols, 3 <= rows -> 3 <= cols ->
  forall (syn : bsf) (L : list ridx),
  length syn = length (stabs (rotplanar_code rows cols)) ->
  Permutation L (rp_syndrome_to_plaquette_indices rows cols syn) ->
  let r := rc_to_bsf (rotplanar_sample_recovery_ord rows cols L) in
  length r = (rp_n rows cols + rp_n rows cols)%nat /\ syndrome_of (stabs (rotplanar_code rows cols)) r = syn.
Proof.
  intros rows cols Hr Hc syn L HL P. rewrite (rp_stabs_len rows cols Hr Hc) in HL.
  destruct (rotplanar_sample_syndrome rows cols Hr Hc syn L HL P) as (Hx & Hz & _ & Hs).
  cbv zeta. split; [unfold rc_to_bsf; rewrite app_length; lia|exact Hs].
Qed.
(* C02, RotatedPlanarMPSDecoder.decode / RotatedPlanarRMPSDecoder.decode: recovery = sample xor L for L in
   {I, X, XZ, Z}-logical, whichever the tensor-network values select *)
Theorem rotplanar_mps_decode_syndrome_all : forall rows cols, 3 <= rows -> 3 <= cols ->
  forall (c : coset) (syn : bsf) (L : list ridx),
  length syn = length (stabs (rotplanar_code rows cols)) ->
  Permutation L (rp_syndrome_to_plaquette_indices rows cols syn) ->
  let p := rotplanar_sample_recovery_ord rows cols L in
  let r := rc_to_bsf (rotplanar_apply_coset rows cols c p) in
  r = xorv (rc_to_bsf p) (rotplanar_coset_op rows cols c) /\
  length r = (rp_n rows cols + rp_n rows cols)%nat /\
  syndrome_of (stabs (rotplanar_code rows cols)) r = syn.
Proof.
  intros rows cols Hr Hc c syn L HL P. rewrite (rp_stabs_len rows cols Hr Hc) in HL.
  exact (rotplanar_mps_decode_syndrome rows cols Hr Hc c syn L HL P).
Qed.
Corollary rotplanar_mps_recovery_syndrome_all : forall rows cols, 3 <= rows -> 3 <= cols ->
  forall (c : coset) (syn : bsf), length syn = length (stabs (rotplanar_code rows cols)) ->
  length (rotplanar_mps_recovery rows cols c syn) = (rp_n rows cols + rp_n rows cols)%nat /\
  syndrome_of (stabs (rotplanar_code rows cols)) (rotplanar_mps_recovery rows cols c syn) = syn.
Proof.
  intros rows cols Hr Hc c syn HL.
  destruct (rotplanar_mps_decode_syndrome_all rows cols Hr Hc c syn _ HL (Permutation_refl _)) as (_ & H2 & H3).
  split; [exact H2|exact H3].
Qed.
Corollary rotplanar_mps_recovery_of_error_all : forall rows cols, 3 <= rows -> 3 <= cols -> forall (c : coset) (e : bsf),
  let S := stabs (rotplanar_code rows cols) in
  syndrome_of S (rotplanar_mps_recovery rows cols c (syndrome_of S e)) = syndrome_of S e.
Proof.
  intros rows cols Hr Hc c e S. apply (rotplanar_mps_recovery_syndrome_all rows cols Hr Hc c). apply syndrome_length.
Qed.
(* the iteration order of the Python set does not matter *)
Corollary rotplanar_sample_order_irrelevant : forall rows cols, 3 <= rows -> 3 <= cols -> forall (syn : bsf) (L : list ridx),
  length syn = length (stabs (rotplanar_code rows cols)) ->
  Permutation L (rp_syndrome_to_plaquette_indices rows cols syn) ->
  rc_to_bsf (rotplanar_sample_recovery_ord rows cols L) = rc_to_bsf (rotplanar_sample_recovery rows cols syn).
Proof.
  intros rows cols Hr Hc syn L HL P. rewrite (rp_stabs_len rows cols Hr Hc) in HL.
  destruct (rotplanar_sample_syndrome rows cols Hr Hc syn L HL P) as (_ & _ & Hb & _).
  destruct (rotplanar_sample_syndrome rows cols Hr Hc syn _ HL (Permutation_refl _)) as (_ & _ & Hb2 & _).
  unfold rotplanar_sample_recovery. rewrite Hb, Hb2. apply xsum_perm.
  - unfold rowlen. apply Forall_map. apply Forall_forall. intros q _. apply rp_string_length.
  - now apply Permutation_map.
Qed.

(* Color666MPSDecoder.sample_recovery / decode: Decoders/SampleRecoveryColor.v (color_sample_syndrome_all,
   color_mps_decode_syndrome_all) *)

(* ---- non-vacuity: closed instances, all syndromes of small lattices, all four cosets ---- *)
Fixpoint all_bits (k : nat) : list bsf :=
  match k with O => [[]] | S k' => map (cons false) (all_bits k') ++ map (cons true) (all_bits k') end.
Definition cosets := [CI; CX; CY; CZ].
Example planar_mps_recovery_ex :
  forallb (fun sz : Z * Z => let '(r, c) := sz in
    let St := stabs (planar_code r c) in
    forallb (fun syn => forallb (fun co =>
      match planar_mps_recovery r c co syn with Some rec => beqv (syndrome_of St rec) syn | None => false end) cosets)
      (all_bits (length St))) [(2, 2); (2, 3); (3, 2); (3, 3)] = true.
Proof. vm_compute. reflexivity. Qed.
Example rotplanar_mps_recovery_ex :
  forallb (fun sz : Z * Z => let '(r, c) := sz in
    let St := stabs (rotplanar_code r c) in
    forallb (fun syn => forallb (fun co => beqv (syndrome_of St (rotplanar_mps_recovery r c co syn)) syn) cosets)
      (all_bits (length St))) [(3, 3); (3, 4); (4, 3)] = true.
Proof. vm_compute. reflexivity. Qed.
(* concrete shapes: a 3x4 planar lattice with one primal and one dual defect; a 4x5 rotated planar lattice with a
   boundary Z-plaquette (y = -1), a bulk Z-plaquette and an X-plaquette on the left boundary (x = -1) *)
Example planar_sample_ex :
  syndrome_to_plaquette_indices 3 4 (syndrome_of (stabs (planar_code 3 4)) (p_to_bsf (site 3 4 pY (2, 4) (new_pauli 3 4))))
    = [(1, 4); (3, 4); (2, 3); (2, 5)] /\
  option_map (fun p => of_bsf (p_to_bsf p)) (planar_sample_recovery_ord 3 4 [(3, 4); (2, 5)]) =
    Some [pI; pI; pI; pI; pI; pI; pI; pZ; pI; pI; pX; pI; pI; pI; pI; pI; pI; pI].
Proof. vm_compute. split; reflexivity. Qed.
Example rotplanar_sample_ex :
  rp_string_sites (1, -1) = [(0, 0); (1, 0)] /\ rp_string_op (1, -1) = pX /\
  rp_string_sites (1, 1) = [(0, 1); (1, 1)] /\
  rp_string_sites (-1, 2) = [(0, 0); (0, 1); (0, 2)] /\ rp_string_op (-1, 2) = pZ /\
  In (1, -1) (rp_plaquette_indices 4 5) /\ In (1, 1) (rp_plaquette_indices 4 5) /\ In (-1, 2) (rp_plaquette_indices 4 5).
Proof. vm_compute. intuition. Qed.

Print Assumptions planar_sample_syndrome_all.
Print Assumptions planar_mps_decode_syndrome_all.
Print Assumptions planar_sample_order_irrelevant.
Print Assumptions rotplanar_sample_syndrome_all.
Print Assumptions rotplanar_mps_decode_syndrome_all.
Print Assumptions rotplanar_sample_order_irrelevant.
