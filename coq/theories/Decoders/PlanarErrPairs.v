(* Decoders/PlanarErrPairs.v — the two lattice facts behind "the planar MWPM decoder corrects every error of weight
   <= (d-1)/2 per Pauli type", for ALL sizes:
   1. [part_pairs]: the X part (Z part) of any operator is a product of single-site X (Z) operators, one per qubit
      in its support; each flips the two primal (dual) plaquette positions next to that site — both in the lattice,
      or one in the lattice and one just outside it.  So the primal (dual) syndrome of the operator is the parity of
      a list of as many "elementary pairs" as the part has qubits.
   2. [light_commuting_in_span]: an operator that commutes with every stabilizer and whose X part and Z part each
      have fewer than min(rows, cols) qubits is a product of stabilizers (from PlanarDistAll: anticommuting with
      logical Z needs an X component in every row, with logical X a Z component in every column; completeness of
      the logical pair). *)
From Coq Require Import ZArith List Bool Lia ZifyBool Permutation.
From QV Require Import Core.Bits Core.Pauli Core.Symp Core.Code Core.Span Core.Dist Core.DistCSS App.RunOnce
  Generated.LatticeArith Lattice.Planar Lattice.PlanarAll Lattice.PlanarRankAll Lattice.PlanarDistAll Decoders.MwpmRel.
Import ListNotations.
Open Scope Z_scope.
Ltac Zify.zify_post_hook ::= Z.to_euclidean_division_equations.

(* ---- generic bit-vector facts ---- *)
Lemma count_true_zero_zeros v : count_true v = 0%nat -> v = zeros (length v).
Proof. unfold zeros. induction v as [|x v IH]; cbn; auto. destruct x; cbn; [discriminate|]. intros H. now rewrite <- IH. Qed.
Lemma count_true_pos_nth v : (0 < count_true v)%nat -> exists k, nth k v false = true.
Proof.
  induction v as [|x v IH]; cbn; [lia|]. destruct x; cbn; intros H; [exists 0%nat; reflexivity|].
  destruct (IH H) as (k & Hk). now exists (S k).
Qed.
Lemma flipn_flipn k : forall v, flipn k (flipn k v) = v.
Proof. induction k as [|k IH]; intros [|x v]; cbn; auto; [now rewrite negb_involutive|now rewrite IH]. Qed.
Lemma count_true_xorv a : forall b, (count_true (xorv a b) <= count_true a + count_true b)%nat.
Proof. induction a as [|x a IH]; intros [|y b]; cbn; try lia. specialize (IH b). destruct x, y; cbn; lia. Qed.
Lemma firstn_xorv n : forall a b, firstn n (xorv a b) = xorv (firstn n a) (firstn n b).
Proof. induction n as [|n IH]; intros [|x a] [|y b]; cbn; auto. now rewrite IH. Qed.
Lemma skipn_xorv n : forall a b, length a = length b -> skipn n (xorv a b) = xorv (skipn n a) (skipn n b).
Proof.
  induction n as [|n IH]; intros [|x a] [|y b] H; cbn in *; auto; try lia.
Qed.

Section ErrPairs.
Variables rows cols : Z.
Hypothesis Hr : 2 <= rows.
Hypothesis Hc : 2 <= cols.
Notation N := (planar_n rows cols).
Notation PI := (plaquette_indices rows cols).
Notation inb := (planar_is_in_bounds rows cols).
Notation fl := (PlanarAll.fl rows cols).
Notation STABS := (stabs (planar_code rows cols)).
Notation stabq := (stab rows cols).

(* pr = true: X components, primal plaquettes; pr = false: Z components, dual plaquettes *)
Definition eop (pr : bool) : pl := if pr then pX else pZ.
Definition embed (pr : bool) (v : bsf) : bsf := if pr then v ++ zeros N else zeros N ++ v.
Definition part (pr : bool) (e : bsf) : bsf := if pr then firstn N e else skipn N e.
Definition vpair (s : idx) : idx * idx := ((fst s - 1, snd s), (fst s + 1, snd s)).
Definition hpair (s : idx) : idx * idx := ((fst s, snd s - 1), (fst s, snd s + 1)).
(* the two plaquette positions of lattice pr next to site s *)
Definition sends (pr : bool) (s : idx) : idx * idx :=
  if pr then (if fst s mod 2 =? 0 then vpair s else hpair s) else (if fst s mod 2 =? 0 then hpair s else vpair s).
Definition pairpar (q : idx) (L : list (idx * idx)) : bool := xsumb (fun p => xorb (zeqb2 q (fst p)) (zeqb2 q (snd p))) L.

Lemma embed_length pr v : length v = N -> length (embed pr v) = (N + N)%nat.
Proof. intros H. unfold embed. destruct pr; rewrite app_length, zeros_length; lia. Qed.
Lemma embed_zeros pr : embed pr (zeros N) = zeros (N + N).
Proof. unfold embed. destruct pr; apply zeros_app. Qed.
Lemma embed_xorv pr a b : length a = N -> length b = N -> embed pr (xorv a b) = xorv (embed pr a) (embed pr b).
Proof.
  intros Ha Hb. unfold embed. destruct pr.
  - rewrite xorv_app by lia. now rewrite xorv_zz.
  - rewrite xorv_app by now rewrite !zeros_length. now rewrite xorv_zz.
Qed.

(* a single flipped bit is the single-site operator *)
Lemma single_op pr k : (k < N)%nat -> embed pr (flipn k (zeros N)) = sop rows cols (eop pr) [unflatten rows cols (Z.of_nat k)].
Proof.
  intros Hk. destruct (planar_flatten_surjective rows cols Hr Hc (Z.of_nat k) ltac:(lia)) as [[Hs Hi] Hf].
  rewrite sop_gop, gop_parts. unfold PlanarAll.xpart, PlanarAll.zpart, keys. cbn [filter]. rewrite Hi. cbn [map].
  unfold PlanarAll.fl at 1 2. rewrite Hf, Nat2Z.id. unfold flips. cbn [fold_left]. unfold embed, eop. now destruct pr.
Qed.

(* ... whose syndrome on the plaquettes of lattice pr is the indicator of the two positions next to the site *)
Lemma single_syndrome pr s q : isite rows cols s -> In q PI -> planar_is_primal q = pr ->
  bsp (sop rows cols (eop pr) [s]) (stabq q) = xorb (zeqb2 q (fst (sends pr s))) (zeqb2 q (snd (sends pr s))).
Proof.
  intros [Hs Hi] Hq Hp. apply in_plaquette_indices in Hq; auto. destruct Hq as [Hq1 Hq2].
  rewrite (reader_stab rows cols Hr Hc) by auto. rewrite Hi. cbn [andb].
  unfold plaq_op. rewrite Hp. unfold eop, sends.
  rewrite primal_unfold in Hp. rewrite plaq_unfold in Hq1. rewrite site_unfold in Hs.
  destruct s as [sr sc], q as [qr qc]. unfold adj, zeqb2, vpair, hpair. cbn [fst snd] in *.
  destruct pr; cbn [xbit zbit andb]; rewrite ?xorb_false_l, ?xorb_false_r;
    destruct (sr mod 2 =? 0) eqn:E; cbn [fst snd];
    (assert (Hd : qr = sr \/ qr <> sr) by lia); (assert (Hd2 : qc = sc \/ qc <> sc) by lia);
    destruct Hd as [->|Hd], Hd2 as [->|Hd2]; lia.
Qed.

(* 1. every part of weight n is a product of n single-site operators *)
Lemma part_pairs pr : forall (n : nat) v, length v = N -> count_true v = n -> exists L : list (idx * idx),
  length L = n /\ (forall p, In p L -> exists s, isite rows cols s /\ p = sends pr s) /\
  forall q, In q PI -> planar_is_primal q = pr -> bsp (embed pr v) (stabq q) = pairpar q L.
Proof.
  induction n as [|n IH]; intros v Hl Hc'.
  - exists []. split; [reflexivity|]. split; [intros p []|]. intros q _ _.
    rewrite (count_true_zero_zeros v Hc'), Hl, embed_zeros. apply RunOnce.bsp_zeros_l.
  - destruct (count_true_pos_nth v ltac:(lia)) as (k & Hk).
    pose proof (nth_true_lt k v Hk) as Hkl.
    pose proof (count_true_flipn_clear k v Hk) as Hcnt.
    set (v' := flipn k v) in *.
    assert (Hl' : length v' = N) by (unfold v'; now rewrite flipn_length).
    destruct (IH v' Hl' ltac:(lia)) as (L & HL1 & HL2 & HL3).
    destruct (planar_flatten_surjective rows cols Hr Hc (Z.of_nat k) ltac:(lia)) as [Hs Hf].
    set (s := unflatten rows cols (Z.of_nat k)) in *.
    exists (sends pr s :: L). split; [cbn; lia|]. split.
    + intros p [<-|Hp]; [exists s; auto|auto].
    + intros q Hq Hp.
      assert (Ev : v = xorv v' (flipn k (zeros N))).
      { rewrite <- (flipn_xor k v' N Hl' ltac:(lia)). unfold v'. now rewrite flipn_flipn. }
      rewrite Ev, embed_xorv by (rewrite ?flipn_length, ?zeros_length; auto).
      rewrite bsp_linear_l by (rewrite !embed_length; rewrite ?flipn_length, ?zeros_length; auto).
      rewrite (HL3 q Hq Hp), single_op by lia. fold s. rewrite (single_syndrome pr s q Hs Hq Hp).
      unfold pairpar. cbn [xsumb]. apply xorb_comm.
Qed.

(* the syndrome on the plaquettes of lattice pr only sees the corresponding part *)
Lemma firstn_N_app (a b : bsf) : length a = N -> firstn N (a ++ b) = a.
Proof. intros H. rewrite firstn_app, H, Nat.sub_diag. cbn. rewrite app_nil_r. rewrite <- H. apply firstn_all. Qed.
Lemma skipn_N_app (a b : bsf) : length a = N -> skipn N (a ++ b) = b.
Proof. intros H. rewrite skipn_app, H, Nat.sub_diag. cbn. rewrite <- H. now rewrite skipn_all. Qed.
Lemma part_embed pr v : length v = N -> part pr (embed pr v) = v.
Proof. intros H. unfold part, embed. destruct pr; [now apply firstn_N_app|apply skipn_N_app, zeros_length]. Qed.
Lemma part_embed_other pr v : length v = N -> part (negb pr) (embed pr v) = zeros N.
Proof. intros H. unfold part, embed. destruct pr; cbn [negb]; [now apply skipn_N_app|apply firstn_N_app, zeros_length]. Qed.
Lemma part_length pr e : length e = (N + N)%nat -> length (part pr e) = N.
Proof. intros H. unfold part. destruct pr; [rewrite firstn_length|rewrite skipn_length]; lia. Qed.

Lemma xat_part e e' s : firstn N e = firstn N e' -> xat rows cols e s = xat rows cols e' s.
Proof. intros H. unfold xat. now rewrite H. Qed.
Lemma zat_part e e' s : skipn N e = skipn N e' -> zat rows cols e s = zat rows cols e' s.
Proof. intros H. unfold zat. now rewrite H. Qed.

Lemma stab_sees_part pr e e' q : length e = (N + N)%nat -> length e' = (N + N)%nat -> part pr e = part pr e' ->
  In q PI -> planar_is_primal q = pr -> bsp e (stabq q) = bsp e' (stabq q).
Proof.
  intros He He' Hp Hq Hpr. apply in_plaquette_indices in Hq; auto. destruct Hq as [Hq1 Hq2]. destruct q as [r c].
  destruct pr; unfold part in Hp.
  - destruct (pp_of_primal (r, c) Hq1 Hpr) as [P1 P2]. cbn [fst snd] in *.
    rewrite !(stab_primal_four rows cols Hr Hc) by auto. unfold four. now rewrite !(xat_part e e' _ Hp).
  - destruct (dp_of_dual (r, c) Hq1 Hpr) as [P1 P2]. cbn [fst snd] in *.
    rewrite !(stab_dual_four rows cols Hr Hc) by auto. unfold four. now rewrite !(zat_part e e' _ Hp).
Qed.

Theorem error_pairs pr e : length e = (N + N)%nat -> exists L : list (idx * idx),
  length L = count_true (part pr e) /\ (forall p, In p L -> exists s, isite rows cols s /\ p = sends pr s) /\
  forall q, In q PI -> planar_is_primal q = pr -> bsp e (stabq q) = pairpar q L.
Proof.
  intros He. destruct (part_pairs pr (count_true (part pr e)) (part pr e) (part_length pr e He) eq_refl) as (L & H1 & H2 & H3).
  exists L. split; [exact H1|]. split; [exact H2|]. intros q Hq Hp. rewrite <- (H3 q Hq Hp).
  apply (stab_sees_part pr); auto.
  - apply embed_length, part_length, He.
  - symmetry. apply part_embed, part_length, He.
Qed.

(* ---- 2. light operators commuting with every stabilizer are products of stabilizers ---- *)
Lemma restrict_normal pr f : length f = (N + N)%nat -> normal rows cols f -> normal rows cols (embed pr (part pr f)).
Proof.
  intros Hf Hn q Hq. pose proof (part_length pr f Hf) as Lp. pose proof (embed_length pr _ Lp) as Le.
  destruct (Bool.bool_dec (planar_is_primal q) pr) as [E|E].
  - rewrite <- (Hn q Hq). apply (stab_sees_part pr); auto. now apply part_embed.
  - assert (E' : planar_is_primal q = negb pr) by (destruct (planar_is_primal q), pr; cbn; congruence).
    rewrite (stab_sees_part (negb pr) _ (zeros (N + N)) q Le (zeros_length _)); auto; [apply RunOnce.bsp_zeros_l|].
    rewrite (part_embed_other pr _ Lp). rewrite <- (embed_zeros (negb pr)). symmetry. apply part_embed, zeros_length.
Qed.

Lemma x_rows_bound f : length f = (N + N)%nat -> normal rows cols f -> bsp f (lzop rows cols) = true ->
  rows <= Z.of_nat (count_true (firstn N f)).
Proof.
  intros Hf Hn Hb. set (fx := embed true (part true f)).
  assert (Lx : length fx = (N + N)%nat) by (apply embed_length, part_length, Hf).
  assert (Px : firstn N fx = firstn N f) by (apply (part_embed true), (part_length true), Hf).
  assert (Hb' : bsp fx (lzop rows cols) = true).
  { rewrite <- Hb. rewrite !(bsp_lz_rowpar rows cols Hr Hc) by auto. unfold rowpar. apply xsumb_ext. intros j _.
    now apply xat_part. }
  pose proof (planar_anticommute_z_weight rows cols Hr Hc fx Lx (restrict_normal true f Hf Hn) Hb') as W.
  assert (L2 : length f = (2 * N)%nat) by lia.
  destruct (parts_weight N f L2) as (W1 & _). unfold DistCSS.xpart in W1. unfold fx, embed, part in W. rewrite W1 in W. exact W.
Qed.
Lemma z_cols_bound f : length f = (N + N)%nat -> normal rows cols f -> bsp f (lxop rows cols) = true ->
  cols <= Z.of_nat (count_true (skipn N f)).
Proof.
  intros Hf Hn Hb. set (fz := embed false (part false f)).
  assert (Lz : length fz = (N + N)%nat) by (apply embed_length, part_length, Hf).
  assert (Pz : skipn N fz = skipn N f) by (apply (part_embed false), (part_length false), Hf).
  assert (Hb' : bsp fz (lxop rows cols) = true).
  { rewrite <- Hb. rewrite !(bsp_lx_colpar rows cols Hr Hc) by auto. unfold colpar. apply xsumb_ext. intros j _.
    now apply zat_part. }
  pose proof (planar_anticommute_x_weight rows cols Hr Hc fz Lz (restrict_normal false f Hf Hn) Hb') as W.
  assert (L2 : length f = (2 * N)%nat) by lia.
  destruct (parts_weight N f L2) as (_ & W1 & _). unfold DistCSS.zpart in W1. unfold fz, embed, part in W. rewrite W1 in W. exact W.
Qed.

Theorem light_commuting_in_span f : length f = (N + N)%nat -> (forall s, In s STABS -> bsp f s = false) ->
  Z.of_nat (count_true (firstn N f)) < rows -> Z.of_nat (count_true (skipn N f)) < cols ->
  in_spanP (N + N) STABS f.
Proof.
  intros Hf Hn Wx Wz. assert (Hn' : normal rows cols f) by now apply normal_normalizer.
  apply (planar_centralizer rows cols Hr Hc f Hf Hn).
  - destruct (bsp f (lxop rows cols)) eqn:E; [|reflexivity]. pose proof (z_cols_bound f Hf Hn' E). lia.
  - destruct (bsp f (lzop rows cols)) eqn:E; [|reflexivity]. pose proof (x_rows_bound f Hf Hn' E). lia.
Qed.
End ErrPairs.
