(* Decoders/SmwpmPath.v — the recovery construction of RotatedPlanarSMWPMDecoder on the rotated planar lattice model:
   _path_operator, _cluster_to_paths_and_defect, _recovery
   (src/qecsim/models/rotatedplanar/_rotatedplanarsmwpmdecoder.py:681-809).  The walk itself (smwpm_path_sites), the
   sufficiency of its fuel and the telescoping lemma are in Decoders/SmwpmWalk.v; see the header there. *)
From Coq Require Import ZArith List Bool Lia ZifyBool.
From QV Require Import Core.Bits Core.Pauli Core.Symp Core.Code App.RunOnce Generated.LatticeArith
  Lattice.PlanarAll Decoders.Checker Decoders.MwpmRel
  Lattice.RotPlanar Lattice.RotPlanarAll Lattice.RotPlanarValidAll Decoders.SampleRecovery Decoders.SmwpmWalk.
Import ListNotations.
Open Scope Z_scope.
Ltac Zify.zify_post_hook ::= Z.to_euclidean_division_equations.

(* ------------------------------------------------------------------ *)
(** * the path operator on the lattice                                 *)
(* ------------------------------------------------------------------ *)
Notation tidx := (Z * Z * Z)%type.
(* (t, x, y) -> (x, y) *)
Definition smwpm_xy (i : tidx) : ridx := let '(_, x, y) := i in (x, y).
(* l[::2] *)
Fixpoint smwpm_stride2 {A} (l : list A) : list A :=
  match l with
  | [] => []
  | a :: r => a :: match r with [] => [] | _ :: r' => smwpm_stride2 r' end
  end.
(* zip(l[::2], l[1::2]) *)
Definition smwpm_pairs {A} (l : list A) : list (A * A) := combine (smwpm_stride2 l) (smwpm_stride2 (tl l)).
(* ... is: consecutive pairs, a left-over last element dropped *)
Fixpoint smwpm_pairs_rec {A} (l : list A) : list (A * A) :=
  match l with
  | a :: r => match r with b :: r' => (a, b) :: smwpm_pairs_rec r' | [] => [] end
  | [] => []
  end.
Lemma smwpm_pairs_eq {A} : forall (l : list A), smwpm_pairs l = smwpm_pairs_rec l.
Proof.
  assert (H : forall n (l : list A), (length l <= n)%nat -> smwpm_pairs l = smwpm_pairs_rec l).
  { induction n as [|n IH]; intros [|a [|b l]] Hl; cbn in Hl; try lia; try reflexivity.
    unfold smwpm_pairs. cbn [smwpm_stride2 tl combine smwpm_pairs_rec]. f_equal.
    rewrite <- (IH l) by lia. unfold smwpm_pairs. destruct l as [|x l]; reflexivity. }
  intros l. now apply (H (length l)).
Qed.
Lemma smwpm_pairs_rec_In {A} : forall n (l : list A) a b, (length l <= n)%nat -> In (a, b) (smwpm_pairs_rec l) -> In a l /\ In b l.
Proof.
  induction n as [|n IH]; intros [|x [|y l]] a b Hl H; cbn in Hl, H; try lia; try tauto.
  destruct H as [H|H]; [injection H as -> ->; cbn; auto|]. apply IH in H; [|lia]. cbn. tauto.
Qed.
Lemma smwpm_pairs_In {A} (l : list A) a b : In (a, b) (smwpm_pairs l) -> In a l /\ In b l.
Proof. rewrite smwpm_pairs_eq. now apply (smwpm_pairs_rec_In (length l)). Qed.

Section SmwpmPath.
Variables rows cols : Z.
Notation insb := (rotplanar_is_in_site_bounds rows cols).
Notation inpb := (rotplanar_is_in_plaquette_bounds rows cols).
Notation RN := (rp_n rows cols).
Notation RPI := (rp_plaquette_indices rows cols).
Notation RS := (stabs (rotplanar_code rows cols)).
Notation sop := (rp_sop rows cols).
Notation ind := (rp_ind rows cols).

(* the two assertions of _path_operator *)
Definition smwpm_assert_ok (i : ridx) : bool := inpb i || rotplanar_is_virtual_plaquette rows cols i.
(* _path_operator: None = ValueError (plaquettes of different types) *)
Definition smwpm_path_op (a : ridx) : pl := if rotplanar_is_z_plaquette a then pX else pZ.
Definition smwpm_path_operator (a_index b_index : ridx) : option bsf :=
  if negb (Bool.eqb (rotplanar_is_z_plaquette a_index) (rotplanar_is_z_plaquette b_index)) then None
  else if rc_idx_eqb a_index b_index then Some (rc_to_bsf (rp_identity rows cols))
  else Some (rc_to_bsf (rp_sites rows cols (smwpm_path_op a_index) (smwpm_path_sites a_index b_index) (rp_identity rows cols))).

(* the indices the decoder works with: in plaquette bounds, or virtual and at most one step outside the lattice
   (is_virtual_plaquette itself does not bound the other coordinate) *)
Definition smwpm_in_box (i : ridx) : bool :=
  (-1 <=? fst i) && (fst i <=? cols - 1) && (-1 <=? snd i) && (snd i <=? rows - 1).
Definition smwpm_node_ok (i : ridx) : bool := smwpm_assert_ok i && smwpm_in_box i.

(* _cluster_to_paths_and_defect: None = QecsimError('Cluster has non-fused non-Y defect.') *)
Definition smwpm_cluster_split (cluster : list tidx) : option (list tidx * list tidx * option (tidx * tidx)) :=
  let x_indices := filter (fun i => rotplanar_is_x_plaquette (smwpm_xy i)) cluster in
  let z_indices := filter (fun i => rotplanar_is_z_plaquette (smwpm_xy i)) cluster in
  if negb (Nat.eqb (length x_indices mod 2) (length z_indices mod 2)) then None
  else if negb (Nat.eqb (length x_indices mod 2) 0)
  then Some (removelast x_indices, removelast z_indices, Some (last x_indices (0, 0, 0), last z_indices (0, 0, 0)))
  else Some (x_indices, z_indices, None).

(* for (_, a_x, a_y), (_, b_x, b_y) in zip(path[::2], path[1::2]): recovery_operator ^= _path_operator(...) *)
Definition smwpm_apply_pairs (ps : list (tidx * tidx)) (acc : option bsf) : option bsf :=
  fold_left (fun acc ab =>
    match acc with
    | None => None
    | Some r => match smwpm_path_operator (smwpm_xy (fst ab)) (smwpm_xy (snd ab)) with
                | None => None
                | Some o => Some (xorv r o)
                end
    end) ps acc.
(* _recovery: None = an exception of _cluster_to_paths_and_defect / _path_operator *)
Definition smwpm_recovery (clusters : list (list tidx)) : option bsf :=
  fold_left (fun acc cluster =>
    match acc with
    | None => None
    | Some r => match smwpm_cluster_split cluster with
                | None => None
                | Some (x_path, z_path, _) =>
                    smwpm_apply_pairs (smwpm_pairs z_path) (smwpm_apply_pairs (smwpm_pairs x_path) (Some r))
                end
    end) clusters (Some (rc_to_bsf (rp_identity rows cols))).

(* the pairs fused by _recovery, cluster by cluster *)
Definition smwpm_cluster_pairs (cluster : list tidx) : list (ridx * ridx) :=
  match smwpm_cluster_split cluster with
  | None => []
  | Some (x_path, z_path, _) =>
      map (fun ab => (smwpm_xy (fst ab), smwpm_xy (snd ab))) (smwpm_pairs x_path ++ smwpm_pairs z_path)
  end.
Definition smwpm_all_pairs (clusters : list (list tidx)) : list (ridx * ridx) := flat_map smwpm_cluster_pairs clusters.
Definition smwpm_pair_ind (ab : ridx * ridx) : bsf := xorv (ind (fst ab)) (ind (snd ab)).

Hypothesis Hr : 3 <= rows.
Hypothesis Hc : 3 <= cols.

Lemma smwpm_in_box_of_inpb i : inpb i = true -> smwpm_in_box i = true.
Proof. destruct i as [x y]. intros H. apply (rp_inpb_iff rows cols) in H. unfold smwpm_in_box. cbn [fst snd]. lia. Qed.
Lemma smwpm_node_ok_box i : smwpm_node_ok i = true ->
  -1 <= fst i <= cols - 1 /\ -1 <= snd i <= rows - 1.
Proof. unfold smwpm_node_ok, smwpm_in_box. lia. Qed.
Lemma smwpm_node_ok_real i : In i RPI -> smwpm_node_ok i = true.
Proof.
  intros H. apply rp_in_plaquette_indices in H. unfold smwpm_node_ok, smwpm_assert_ok.
  now rewrite H, (smwpm_in_box_of_inpb i H).
Qed.

(* every walked site is inside the site bounds: RotatedPlanarPauli.site drops nothing *)
Lemma smwpm_path_sites_insb a b : smwpm_node_ok a = true -> smwpm_node_ok b = true ->
  Forall (fun v => insb v = true) (smwpm_path_sites a b).
Proof.
  intros Ha Hb. apply smwpm_node_ok_box in Ha, Hb. rewrite smwpm_path_sites_eq.
  eapply Forall_impl; [|apply (smwpm_walk_box 0 (cols - 1) 0 (rows - 1))].
  - intros [x y] H. cbn [fst snd] in H. apply rp_in_site_bounds_iff. lia.
  - destruct a, b. unfold smwpm_start, smwpm_start_end. cbn [fst snd] in *. repeat match goal with |- context [?a <? ?b] => destruct (Z.ltb_spec a b) end; cbn [fst]; lia.
  - destruct a, b. unfold smwpm_end, smwpm_start_end. cbn [fst snd] in *. repeat match goal with |- context [?a <? ?b] => destruct (Z.ltb_spec a b) end; cbn [fst snd]; lia.
  - destruct a, b. unfold smwpm_start, smwpm_start_end. cbn [fst snd] in *. repeat match goal with |- context [?a <? ?b] => destruct (Z.ltb_spec a b) end; cbn [fst snd]; lia.
  - destruct a, b. unfold smwpm_end, smwpm_start_end. cbn [fst snd] in *. repeat match goal with |- context [?a <? ?b] => destruct (Z.ltb_spec a b) end; cbn [fst snd]; lia.
Qed.

(* overlap parity of in-bounds sites with the corners of a plaquette *)
Lemma smwpm_pairs_corners L p : Forall (fun v => insb v = true) L ->
  Z.odd (rc_pairs (filter insb L) (filter insb (rp_corners p))) = rc_xsumb (fun v => rp_corner v p) L.
Proof.
  induction 1 as [|v L Hv HL IH]; [reflexivity|]. cbn [filter rc_xsumb]. rewrite Hv, rc_pairs_cons, Z.odd_add, IH. f_equal.
  rewrite rc_cnt_filter, Hv, rp_cnt_corners. now destruct (rp_corner v p).
Qed.

Lemma smwpm_same_type_of_z p a : rotplanar_is_z_plaquette p = rotplanar_is_z_plaquette a -> smwpm_same_type p a.
Proof.
  destruct p as [px py], a as [ax ay]. unfold rotplanar_is_z_plaquette, rotplanar_is_x_plaquette, smwpm_same_type. cbn [fst snd].
  destruct (Z.eqb_spec ((px - py) mod 2) 1), (Z.eqb_spec ((ax - ay) mod 2) 1); cbn; intros; try discriminate; lia.
Qed.
Lemma smwpm_diff_type_neq p a : rotplanar_is_z_plaquette p <> rotplanar_is_z_plaquette a -> rc_idx_eqb p a = false.
Proof. intros H. destruct (rc_idx_eqb p a) eqn:E; [|reflexivity]. apply rc_idx_eqb_spec in E. now subst. Qed.

(* one path against one stabilizer *)
Theorem smwpm_path_syndrome_bit a b p : smwpm_node_ok a = true -> smwpm_node_ok b = true ->
  rotplanar_is_z_plaquette a = rotplanar_is_z_plaquette b -> a <> b -> In p RPI ->
  bsp (sop (smwpm_path_op a) (smwpm_path_sites a b)) (rp_stab rows cols p) = xorb (rc_idx_eqb p a) (rc_idx_eqb p b).
Proof.
  intros Ha Hb T Hne Hp. unfold rp_stab. rewrite rp_bsp_sop. cbv zeta.
  rewrite smwpm_pairs_corners by now apply smwpm_path_sites_insb.
  pose proof (smwpm_node_ok_box a Ha) as Ba. pose proof (smwpm_node_ok_box b Hb) as Bb.
  destruct (Bool.bool_dec (rotplanar_is_z_plaquette p) (rotplanar_is_z_plaquette a)) as [Tp|Tp].
  - rewrite smwpm_path_tele; try lia; auto using smwpm_same_type_of_z.
    unfold smwpm_path_op, rp_plaq_op. rewrite Tp.
    destruct (rotplanar_is_z_plaquette a); cbn [xbit zbit andb]; now destruct (xorb (rc_idx_eqb p a) (rc_idx_eqb p b)).
  - rewrite (smwpm_diff_type_neq p a Tp), (smwpm_diff_type_neq p b) by congruence.
    unfold smwpm_path_op, rp_plaq_op.
    destruct (rotplanar_is_z_plaquette a), (rotplanar_is_z_plaquette p); try congruence; reflexivity.
Qed.

Lemma smwpm_ind_length x : length (ind x) = length RPI.
Proof. unfold rp_ind. apply indv_len. Qed.
Lemma smwpm_zero_syndrome : syndrome_of RS (zeros (RN + RN)) = zeros (length RPI).
Proof.
  rewrite <- (rp_stabs_len rows cols Hr Hc). apply syndrome_zero_of_commute. intros s Hs.
  rewrite (rp_code_eq rows cols Hr Hc) in Hs. cbn [stabs] in Hs. apply in_map_iff in Hs. destruct Hs as (q & <- & _).
  replace (zeros (RN + RN)) with (sop pX []).
  - unfold rp_stab. rewrite rp_bsp_sop. cbv zeta. cbn. now rewrite !andb_false_r.
  - unfold rp_sop. cbn. apply rp_identity_bsf.
Qed.

(* C03, _path_operator *)
Theorem smwpm_path_syndrome a b : smwpm_node_ok a = true -> smwpm_node_ok b = true ->
  rotplanar_is_z_plaquette a = rotplanar_is_z_plaquette b ->
  exists o, smwpm_path_operator a b = Some o /\ length o = (RN + RN)%nat /\
            syndrome_of RS o = xorv (ind a) (ind b).
Proof.
  intros Ha Hb T. unfold smwpm_path_operator. rewrite T, eqb_reflx. cbn [negb].
  destruct (rc_idx_eqb a b) eqn:E.
  - apply rc_idx_eqb_spec in E. subst b. eexists. split; [reflexivity|]. rewrite rp_identity_bsf. split; [apply zeros_length|].
    rewrite smwpm_zero_syndrome, xorv_self. now rewrite smwpm_ind_length.
  - apply smwpm_idx_eqb_false in E. eexists. split; [reflexivity|].
    change (rc_to_bsf (rp_sites rows cols (smwpm_path_op a) (smwpm_path_sites a b) (rp_identity rows cols)))
      with (sop (smwpm_path_op a) (smwpm_path_sites a b)).
    split; [apply rp_sop_length|].
    rewrite (rp_code_eq rows cols Hr Hc). cbn [stabs]. unfold syndrome_of, rp_ind, indv. rewrite map_map, xorv_map2.
    apply map_ext_in. intros p Hp. now apply smwpm_path_syndrome_bit.
Qed.

(* ---- _recovery ---- *)
Definition smwpm_pair_ok (ab : ridx * ridx) : Prop :=
  smwpm_node_ok (fst ab) = true /\ smwpm_node_ok (snd ab) = true /\
  rotplanar_is_z_plaquette (fst ab) = rotplanar_is_z_plaquette (snd ab).
Definition smwpm_pathop_tot (ab : ridx * ridx) : bsf :=
  match smwpm_path_operator (fst ab) (snd ab) with Some o => o | None => zeros (RN + RN) end.
Definition smwpm_xy2 (ab : tidx * tidx) : ridx * ridx := (smwpm_xy (fst ab), smwpm_xy (snd ab)).

Lemma smwpm_pathop_tot_ok ab : smwpm_pair_ok ab ->
  smwpm_path_operator (fst ab) (snd ab) = Some (smwpm_pathop_tot ab) /\ length (smwpm_pathop_tot ab) = (RN + RN)%nat /\
  syndrome_of RS (smwpm_pathop_tot ab) = smwpm_pair_ind ab.
Proof.
  intros (Ha & Hb & T). destruct (smwpm_path_syndrome _ _ Ha Hb T) as (o & Ho & Hl & Hs).
  unfold smwpm_pathop_tot. rewrite Ho. auto.
Qed.
Lemma smwpm_tot_rowlen L : Forall smwpm_pair_ok L -> Forall (fun r => length r = (RN + RN)%nat) (map smwpm_pathop_tot L).
Proof. intros H. apply Forall_map. eapply Forall_impl; [|exact H]. intros ab Hab. now apply smwpm_pathop_tot_ok. Qed.

Lemma smwpm_apply_pairs_xor : forall ps r, length r = (RN + RN)%nat -> Forall smwpm_pair_ok (map smwpm_xy2 ps) ->
  smwpm_apply_pairs ps (Some r) = Some (xorv r (xsum (RN + RN) (map smwpm_pathop_tot (map smwpm_xy2 ps)))).
Proof.
  induction ps as [|ab ps IH]; intros r Hl H; cbn [map].
  - unfold smwpm_apply_pairs. cbn [fold_left map]. change (xsum (RN + RN) []) with (zeros (RN + RN)). rewrite <- Hl. now rewrite xorv_zeros_r.
  - inversion H as [|? ? Hab Hps]; subst. destruct (smwpm_pathop_tot_ok _ Hab) as (Ho & Hlo & _). cbn [smwpm_xy2 fst snd] in Ho.
    unfold smwpm_apply_pairs in *. cbn [fold_left]. rewrite Ho. rewrite IH; auto.
    + now rewrite xsum_cons, xorv_assoc.
    + rewrite xorv_length; congruence.
Qed.

Lemma smwpm_In_removelast {A} : forall (l : list A) x, In x (removelast l) -> In x l.
Proof. induction l as [|a [|b l] IH]; intros x H; cbn in *; try tauto. destruct H as [H|H]; auto. Qed.

Definition smwpm_cluster_ok (cluster : list tidx) : Prop := Forall (fun i => smwpm_node_ok (smwpm_xy i) = true) cluster.

Lemma smwpm_pairs_sub_ok (z : bool) cluster l :
  smwpm_cluster_ok cluster -> (forall i, In i l -> In i cluster /\ rotplanar_is_z_plaquette (smwpm_xy i) = z) ->
  Forall smwpm_pair_ok (map smwpm_xy2 (smwpm_pairs l)).
Proof.
  intros Hc' Hl. apply Forall_map. apply Forall_forall. intros [a b] Hab. apply smwpm_pairs_In in Hab.
  destruct Hab as [Ha Hb]. apply Hl in Ha, Hb. unfold smwpm_cluster_ok in Hc'. rewrite Forall_forall in Hc'.
  unfold smwpm_pair_ok, smwpm_xy2. cbn [fst snd]. repeat split; try (apply Hc'; tauto). destruct Ha as [_ ->], Hb as [_ ->]. reflexivity.
Qed.
Lemma smwpm_split_paths cluster xp zp d : smwpm_cluster_split cluster = Some (xp, zp, d) ->
  (forall i, In i xp -> In i cluster /\ rotplanar_is_z_plaquette (smwpm_xy i) = false) /\
  (forall i, In i zp -> In i cluster /\ rotplanar_is_z_plaquette (smwpm_xy i) = true).
Proof.
  unfold smwpm_cluster_split. destruct (negb (Nat.eqb _ _)); [discriminate|].
  destruct (negb (Nat.eqb _ 0)); intros H; injection H as <- <- _; split; intros i Hi;
    try apply smwpm_In_removelast in Hi; apply filter_In in Hi; destruct Hi as [Hi Ht]; split; auto.
  - unfold rotplanar_is_z_plaquette. now rewrite Ht.
  - unfold rotplanar_is_z_plaquette. now rewrite Ht.
Qed.
Lemma smwpm_cluster_pairs_ok cluster : smwpm_cluster_ok cluster -> Forall smwpm_pair_ok (smwpm_cluster_pairs cluster).
Proof.
  intros Hc'. unfold smwpm_cluster_pairs. destruct (smwpm_cluster_split cluster) as [[[xp zp] d]|] eqn:E; [|constructor].
  destruct (smwpm_split_paths _ _ _ _ E) as [Hx Hz].
  change (fun ab : tidx * tidx => (smwpm_xy (fst ab), smwpm_xy (snd ab))) with smwpm_xy2.
  rewrite map_app. apply Forall_app. split; [apply (smwpm_pairs_sub_ok false cluster)|apply (smwpm_pairs_sub_ok true cluster)]; auto.
Qed.
Lemma smwpm_all_pairs_ok clusters : Forall smwpm_cluster_ok clusters -> Forall smwpm_pair_ok (smwpm_all_pairs clusters).
Proof.
  induction 1 as [|cl cls H1 H2 IH]; [constructor|]. unfold smwpm_all_pairs. cbn [flat_map]. apply Forall_app. split; auto.
  now apply smwpm_cluster_pairs_ok.
Qed.

Lemma smwpm_recovery_fold : forall clusters r, length r = (RN + RN)%nat ->
  Forall smwpm_cluster_ok clusters -> Forall (fun cl => smwpm_cluster_split cl <> None) clusters ->
  fold_left (fun acc cluster =>
    match acc with
    | None => None
    | Some r => match smwpm_cluster_split cluster with
                | None => None
                | Some (x_path, z_path, _) =>
                    smwpm_apply_pairs (smwpm_pairs z_path) (smwpm_apply_pairs (smwpm_pairs x_path) (Some r))
                end
    end) clusters (Some r) = Some (xorv r (xsum (RN + RN) (map smwpm_pathop_tot (smwpm_all_pairs clusters)))).
Proof.
  induction clusters as [|cl cls IH]; intros r Hl Hok Hsp.
  - cbn [fold_left smwpm_all_pairs flat_map map]. change (xsum (RN + RN) []) with (zeros (RN + RN)). rewrite <- Hl. now rewrite xorv_zeros_r.
  - inversion Hok as [|? ? Hcl Hcls]; subst. inversion Hsp as [|? ? Scl Scls]; subst.
    pose proof (smwpm_cluster_pairs_ok cl Hcl) as Hpo. pose proof (smwpm_all_pairs_ok cls Hcls) as Hao.
    cbn [fold_left]. unfold smwpm_all_pairs. cbn [flat_map]. fold (smwpm_all_pairs cls).
    unfold smwpm_cluster_pairs in *. destruct (smwpm_cluster_split cl) as [[[xp zp] d]|] eqn:E; [|congruence].
    change (fun ab : tidx * tidx => (smwpm_xy (fst ab), smwpm_xy (snd ab))) with smwpm_xy2 in *.
    rewrite map_app in Hpo. apply Forall_app in Hpo. destruct Hpo as [Hxo Hzo].
    pose proof (smwpm_tot_rowlen _ Hxo) as Rx. pose proof (smwpm_tot_rowlen _ Hzo) as Rz. pose proof (smwpm_tot_rowlen _ Hao) as Ra.
    rewrite smwpm_apply_pairs_xor by auto.
    rewrite smwpm_apply_pairs_xor; auto; [|rewrite xorv_length; rewrite ?xsum_len; auto].
    rewrite IH; auto.
    + f_equal. rewrite !map_app, !xsum_app; auto; [|apply Forall_app; split; auto].
      now rewrite !xorv_assoc.
    + rewrite !xorv_length; rewrite ?xorv_length, ?xsum_len; auto; rewrite ?xsum_len; auto.
Qed.

(* C03, _recovery *)
Theorem smwpm_recovery_syndrome clusters :
  Forall smwpm_cluster_ok clusters -> Forall (fun cl => smwpm_cluster_split cl <> None) clusters ->
  exists r, smwpm_recovery clusters = Some r /\ length r = (RN + RN)%nat /\
    r = xsum (RN + RN) (map smwpm_pathop_tot (smwpm_all_pairs clusters)) /\
    syndrome_of RS r = xsum (length RPI) (map smwpm_pair_ind (smwpm_all_pairs clusters)).
Proof.
  intros Hok Hsp. pose proof (smwpm_all_pairs_ok clusters Hok) as Hao. pose proof (smwpm_tot_rowlen _ Hao) as Ra.
  exists (xsum (RN + RN) (map smwpm_pathop_tot (smwpm_all_pairs clusters))).
  split; [|split; [now apply xsum_len|split; [reflexivity|]]].
  - unfold smwpm_recovery. rewrite smwpm_recovery_fold; auto.
    + rewrite rp_identity_bsf, xorv_zeros_l; auto. now apply xsum_len.
    + rewrite rp_identity_bsf. apply zeros_length.
  - rewrite product_syndrome by exact Ra. rewrite (rp_stabs_len rows cols Hr Hc), map_map. f_equal.
    apply map_ext_in. intros ab Hab. rewrite Forall_forall in Hao. now apply smwpm_pathop_tot_ok, Hao.
Qed.
End SmwpmPath.

(* ------------------------------------------------------------------ *)
(** * the all-sizes statements                                         *)
(* ------------------------------------------------------------------ *)
(* C03, RotatedPlanarSMWPMDecoder._path_operator: every size, every pair of same-type plaquette indices that are in
   plaquette bounds or virtual (at most one step outside the lattice): the operator is defined, has the length of the
   code's operators and anticommutes with exactly the real plaquettes among {a, b} (rp_ind of a virtual index is the
   zero vector; a = b gives zeros) *)
Theorem smwpm_path_syndrome_all : forall rows cols, 3 <= rows -> 3 <= cols -> forall a b : ridx,
  smwpm_node_ok rows cols a = true -> smwpm_node_ok rows cols b = true ->
  rotplanar_is_z_plaquette a = rotplanar_is_z_plaquette b ->
  exists o, smwpm_path_operator rows cols a b = Some o /\
    length o = (rp_n rows cols + rp_n rows cols)%nat /\
    syndrome_of (stabs (rotplanar_code rows cols)) o = xorv (rp_ind rows cols a) (rp_ind rows cols b).
Proof. exact smwpm_path_syndrome. Qed.
(* ... and ValueError exactly for different types *)
Theorem smwpm_path_defined_iff : forall rows cols (a b : ridx),
  smwpm_path_operator rows cols a b <> None <-> rotplanar_is_z_plaquette a = rotplanar_is_z_plaquette b.
Proof.
  intros rows cols a b. unfold smwpm_path_operator.
  destruct (rotplanar_is_z_plaquette a), (rotplanar_is_z_plaquette b); cbn; split; intros H; try congruence;
    destruct (rc_idx_eqb a b); discriminate.
Qed.
(* every real plaquette index is an admissible end point; rp_ind of an index outside _plaquette_indices is zero *)
Theorem smwpm_node_ok_real_all : forall rows cols a,
  In a (rp_plaquette_indices rows cols) -> smwpm_node_ok rows cols a = true.
Proof. exact smwpm_node_ok_real. Qed.
Theorem smwpm_ind_virtual_zero : forall rows cols a, ~ In a (rp_plaquette_indices rows cols) ->
  rp_ind rows cols a = zeros (length (rp_plaquette_indices rows cols)).
Proof.
  intros rows cols a H. unfold rp_ind, indv. rewrite <- (map_false (rp_plaquette_indices rows cols)).
  apply map_ext_in. intros q Hq. destruct (rc_idx_eqb q a) eqn:E; [|reflexivity]. apply rc_idx_eqb_spec in E. now subst.
Qed.
(* C03, RotatedPlanarSMWPMDecoder._recovery: every size, every list of clusters whose indices are admissible and whose
   X- and Z-index counts have equal parity (otherwise _cluster_to_paths_and_defect raises): the recovery is the XOR of the
   path operators of the fused pairs and its syndrome is the XOR of the indicators of the paired indices *)
Theorem smwpm_recovery_syndrome_all : forall rows cols, 3 <= rows -> 3 <= cols -> forall clusters : list (list tidx),
  Forall (smwpm_cluster_ok rows cols) clusters -> Forall (fun cl => smwpm_cluster_split cl <> None) clusters ->
  exists r, smwpm_recovery rows cols clusters = Some r /\
    length r = (rp_n rows cols + rp_n rows cols)%nat /\
    r = xsum (rp_n rows cols + rp_n rows cols) (map (smwpm_pathop_tot rows cols) (smwpm_all_pairs clusters)) /\
    syndrome_of (stabs (rotplanar_code rows cols)) r =
      xsum (length (rp_plaquette_indices rows cols)) (map (smwpm_pair_ind rows cols) (smwpm_all_pairs clusters)).
Proof. exact smwpm_recovery_syndrome. Qed.

(* ---- every cluster with an even number of X-indices and of Z-indices: parity of occurrences ---- *)
Definition smwpm_cluster_even (cl : list tidx) : Prop :=
  Nat.even (length (filter (fun i => rotplanar_is_x_plaquette (smwpm_xy i)) cl)) = true /\
  Nat.even (length (filter (fun i => rotplanar_is_z_plaquette (smwpm_xy i)) cl)) = true.
Definition smwpm_pairpar (q : ridx) (ab : ridx * ridx) : bool := xorb (rc_idx_eqb q (fst ab)) (rc_idx_eqb q (snd ab)).
Lemma smwpm_even_mod2 n : Nat.even n = true -> (n mod 2 = 0)%nat.
Proof. intros H. apply Nat.even_spec in H. destruct H as [k ->]. rewrite Nat.mul_comm. apply Nat.mod_mul. lia. Qed.
Lemma smwpm_xsum_pair_ind rows cols L :
  xsum (length (rp_plaquette_indices rows cols)) (map (smwpm_pair_ind rows cols) L) =
  map (fun q => xsumb (smwpm_pairpar q) L) (rp_plaquette_indices rows cols).
Proof.
  induction L as [|ab L IH]; cbn [map xsumb].
  - unfold xsum. cbn [fold_right]. symmetry. apply map_false.
  - rewrite xsum_cons, IH. unfold smwpm_pair_ind, rp_ind, indv. now rewrite !xorv_map2.
Qed.
Lemma smwpm_pairs_even_par q : forall n (l : list tidx), (length l <= n)%nat -> Nat.even (length l) = true ->
  xsumb (smwpm_pairpar q) (map smwpm_xy2 (smwpm_pairs_rec l)) = xsumb (rc_idx_eqb q) (map smwpm_xy l).
Proof.
  induction n as [|n IH]; intros [|a [|b l]] Hl He; cbn [length] in *; try lia; try reflexivity; try discriminate.
  cbn [smwpm_pairs_rec map xsumb]. rewrite IH by (auto; lia). unfold smwpm_pairpar, smwpm_xy2. cbn [fst snd].
  now destruct (rc_idx_eqb q (smwpm_xy a)), (rc_idx_eqb q (smwpm_xy b)), (xsumb _ _).
Qed.
Lemma smwpm_cluster_even_par q cl : smwpm_cluster_even cl ->
  smwpm_cluster_split cl <> None /\
  xsumb (smwpm_pairpar q) (smwpm_cluster_pairs cl) = xsumb (rc_idx_eqb q) (map smwpm_xy cl).
Proof.
  intros [Hx Hz]. unfold smwpm_cluster_pairs, smwpm_cluster_split.
  rewrite (smwpm_even_mod2 _ Hx), (smwpm_even_mod2 _ Hz). cbn [Nat.eqb negb]. split; [discriminate|].
  change (fun ab : tidx * tidx => (smwpm_xy (fst ab), smwpm_xy (snd ab))) with smwpm_xy2.
  rewrite map_app, xsumb_app, !smwpm_pairs_eq.
  rewrite (smwpm_pairs_even_par q _ _ (le_n _) Hx), (smwpm_pairs_even_par q _ _ (le_n _) Hz).
  rewrite !xsumb_map. apply (xsumb_filter_split (fun i => rc_idx_eqb q (smwpm_xy i)) (fun i => rotplanar_is_x_plaquette (smwpm_xy i))).
Qed.
Lemma smwpm_all_even_par q clusters : Forall smwpm_cluster_even clusters ->
  Forall (fun cl => smwpm_cluster_split cl <> None) clusters /\
  xsumb (smwpm_pairpar q) (smwpm_all_pairs clusters) = xsumb (rc_idx_eqb q) (map smwpm_xy (concat clusters)).
Proof.
  induction 1 as [|cl cls H1 H2 [IH1 IH2]]; [split; [constructor|reflexivity]|].
  destruct (smwpm_cluster_even_par q cl H1) as [S1 P1]. split; [constructor; auto|].
  unfold smwpm_all_pairs in *. cbn [flat_map concat]. now rewrite map_app, !xsumb_app, P1, IH2.
Qed.
(* C03, _recovery on clusters whose X- and Z-index counts are even (every defect fused inside its cluster): the syndrome
   of the recovery is, on every real plaquette, the parity of the number of its occurrences in the clusters *)
Theorem smwpm_recovery_even_all : forall rows cols, 3 <= rows -> 3 <= cols -> forall clusters : list (list tidx),
  Forall (smwpm_cluster_ok rows cols) clusters -> Forall smwpm_cluster_even clusters ->
  exists r, smwpm_recovery rows cols clusters = Some r /\
    length r = (rp_n rows cols + rp_n rows cols)%nat /\
    syndrome_of (stabs (rotplanar_code rows cols)) r =
      map (fun q => xsumb (rc_idx_eqb q) (map smwpm_xy (concat clusters))) (rp_plaquette_indices rows cols).
Proof.
  intros rows cols Hr Hc clusters Hok Hev.
  destruct (smwpm_all_even_par (0, 0) clusters Hev) as [Hsp _].
  destruct (smwpm_recovery_syndrome_all rows cols Hr Hc clusters Hok Hsp) as (r & H1 & H2 & _ & H4).
  exists r. split; [exact H1|]. split; [exact H2|]. rewrite H4, smwpm_xsum_pair_ind.
  apply map_ext. intros q. now apply smwpm_all_even_par.
Qed.

(* ---- non-vacuity: closed instances ---- *)
Definition smwpm_nodes (rows cols : Z) : list ridx := filter (smwpm_node_ok rows cols) (rp_scan rows cols).
Definition smwpm_path_check (rows cols : Z) : bool :=
  let S := stabs (rotplanar_code rows cols) in
  forallb (fun a => forallb (fun b =>
    match smwpm_path_operator rows cols a b with
    | Some o => Bool.eqb (rotplanar_is_z_plaquette a) (rotplanar_is_z_plaquette b) &&
                beqv (syndrome_of S o) (xorv (rp_ind rows cols a) (rp_ind rows cols b))
    | None => negb (Bool.eqb (rotplanar_is_z_plaquette a) (rotplanar_is_z_plaquette b))
    end) (smwpm_nodes rows cols)) (smwpm_nodes rows cols).
(* all ordered pairs of admissible indices (real and virtual) on 3x3, 3x4, 4x5 *)
Example smwpm_path_ex : forallb (fun sz : Z * Z => smwpm_path_check (fst sz) (snd sz)) [(3, 3); (3, 4); (4, 5)] = true.
Proof. vm_compute. reflexivity. Qed.
Example smwpm_nodes_ex :
  length (smwpm_nodes 4 5) = 30%nat /\ length (rp_plaquette_indices 4 5) = 19%nat /\
  existsb (rc_idx_eqb (-1, -1)) (smwpm_nodes 4 5) = true /\ existsb (rc_idx_eqb (4, 3)) (smwpm_nodes 4 5) = true.
Proof. vm_compute. repeat split; reflexivity. Qed.
(* the clamp: in line along the bottom boundary the walk runs through row 0; diagonal then straight *)
Example smwpm_sites_ex :
  smwpm_path_sites (1, -1) (3, -1) = [(2, 0); (3, 0)] /\
  smwpm_path_sites (-1, 2) (-1, 0) = [(0, 2); (0, 1)] /\
  smwpm_path_sites (0, 0) (3, 1) = [(1, 1); (2, 1); (3, 1)] /\
  smwpm_path_sites (3, 3) (0, -1) = [(3, 3); (2, 2); (1, 1); (1, 0)].
Proof. vm_compute. repeat split; reflexivity. Qed.
(* a recovery: two clusters with repeated plaquettes at different times, one with a left-over Y-defect *)
Example smwpm_recovery_ex :
  let clusters := [[(0, 1, 1); (2, 1, 1); (1, 0, 1); (1, 2, 1)]; [(0, 3, 1); (0, 2, 1); (1, -1, 1); (1, 1, -1); (2, 2, 2); (0, 3, 2)]] in
  match smwpm_recovery 4 5 clusters with
  | Some r => beqv (syndrome_of (stabs (rotplanar_code 4 5)) r)
                   (xsum (length (rp_plaquette_indices 4 5)) (map (smwpm_pair_ind 4 5) (smwpm_all_pairs clusters)))
              && negb (beqv r (zeros 40))
  | None => false
  end = true /\
  smwpm_recovery 4 5 [[(0, 1, 1); (0, 0, 1); (1, 2, 1)]] = None.
Proof. vm_compute. split; reflexivity. Qed.

Print Assumptions smwpm_path_syndrome_all.
Print Assumptions smwpm_recovery_syndrome_all.
Print Assumptions smwpm_recovery_even_all.
Print Assumptions smwpm_walk_fuel_stable.
