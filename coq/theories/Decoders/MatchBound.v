(* Decoders/MatchBound.v — the combinatorial core of "minimum-weight matching is no heavier than the error":
   a list of (possibly repeated) pairs of nodes, each node a real vertex (Some a) or THE boundary (None), can
   be turned into a proper matching of the vertices that occur an odd number of times — pairs of distinct
   vertices and single vertices matched to the boundary, no vertex used twice, no two boundary-matched
   vertices with the same boundary key — whose cost is no larger, provided the cost satisfies the triangle
   inequality through every real vertex and two vertices sharing a boundary key are no further apart than
   via the boundary.  Pure list/Z reasoning; instantiated for the planar lattices in PlanarMwpmCorrect.v. *)
From Coq Require Import ZArith List Bool Lia Permutation.
From QV Require Import Core.Bits Lattice.Planar Lattice.PlanarAll Decoders.MwpmRel.
Import ListNotations.
Open Scope Z_scope.

Section MatchBound.
Variable V : Type.
Variable eqb : V -> V -> bool.
Hypothesis eqb_eq : forall a b, eqb a b = true <-> a = b.
Variable d : option V -> option V -> Z.
Hypothesis d_nonneg : forall x y, 0 <= d x y.
Hypothesis d_sym : forall x y, d x y = d y x.
Hypothesis d_tri : forall x a y, d x y <= d x (Some a) + d (Some a) y.

Notation opair := (option V * option V)%type.

Definition rend (x : option V) : list V := match x with Some a => [a] | None => [] end.
Definition rends (M : list opair) : list V := flat_map (fun p => rend (fst p) ++ rend (snd p)) M.
Definition cost (M : list opair) : Z := fold_right (fun p acc => d (fst p) (snd p) + acc) 0 M.
(* q occurs an odd number of times *)
Definition par (q : V) (l : list V) : bool := xsumb (eqb q) l.

Lemma eqb_refl' a : eqb a a = true. Proof. now apply eqb_eq. Qed.
Lemma eqb_neq a b : a <> b -> eqb a b = false.
Proof. intros H. destruct (eqb a b) eqn:E; [apply eqb_eq in E; contradiction|reflexivity]. Qed.
Lemma par_app q l1 l2 : par q (l1 ++ l2) = xorb (par q l1) (par q l2).
Proof. apply xsumb_app. Qed.
Lemma par_cons q a l : par q (a :: l) = xorb (eqb q a) (par q l).
Proof. reflexivity. Qed.
Lemma par_perm q l l' : Permutation l l' -> par q l = par q l'.
Proof.
  induction 1 as [|x l l' _ IH|x y l|l1 l2 l3 _ IH1 _ IH2]; [reflexivity| | |congruence].
  - now rewrite !par_cons, IH.
  - rewrite !par_cons. now destruct (eqb q x), (eqb q y), (par q l).
Qed.
Lemma par_notin q l : ~ In q l -> par q l = false.
Proof. apply (xsumb_notin eqb eqb_eq). Qed.
Lemma par_nodup q l : NoDup l -> (par q l = true <-> In q l).
Proof.
  induction 1 as [|a l Ha Hl IH]; [cbn; split; [discriminate|tauto]|].
  rewrite par_cons. destruct (eqb q a) eqn:E.
  - apply eqb_eq in E. subst a. rewrite (par_notin q l Ha). cbn. split; auto.
  - rewrite xorb_false_l, IH. split; [cbn; auto|]. intros [H|H]; [|exact H]. subst a. now rewrite eqb_refl' in E.
Qed.
Lemma par_true_in q l : par q l = true -> In q l.
Proof.
  induction l as [|a l IH]; [discriminate|]. rewrite par_cons. destruct (eqb q a) eqn:E.
  - apply eqb_eq in E. subst. cbn; auto.
  - rewrite xorb_false_l. cbn; auto.
Qed.
Lemma rends_cons p M : rends (p :: M) = (rend (fst p) ++ rend (snd p)) ++ rends M.
Proof. reflexivity. Qed.
Lemma cost_cons p M : cost (p :: M) = d (fst p) (snd p) + cost M.
Proof. reflexivity. Qed.
Lemma cost_nonneg M : 0 <= cost M.
Proof. induction M as [|p M IH]; [cbn; lia|]. rewrite cost_cons. pose proof (d_nonneg (fst p) (snd p)). lia. Qed.

(* ---- taking the pair that contains a given vertex out of a matching ---- *)
Definition is_some (p : option V) (a : V) : bool := match p with Some b => eqb b a | None => false end.
Lemma is_some_true p a : is_some p a = true -> p = Some a.
Proof. destruct p as [b|]; cbn; [|discriminate]. intros H. apply eqb_eq in H. now subst. Qed.
Lemma is_some_false p a : is_some p a = false -> ~ In a (rend p).
Proof. destruct p as [b|]; cbn; [|tauto]. intros H [E|[]]. subst. now rewrite eqb_refl' in H. Qed.

Fixpoint extract (a : V) (M : list opair) : option (option V * list opair) :=
  match M with
  | [] => None
  | (p, q) :: M' =>
      if is_some p a then Some (q, M')
      else if is_some q a then Some (p, M')
      else match extract a M' with Some (x, M1) => Some (x, (p, q) :: M1) | None => None end
  end.

Lemma extract_some a : forall M x M1, extract a M = Some (x, M1) ->
  cost M = d (Some a) x + cost M1 /\ Permutation (rends M) (a :: rend x ++ rends M1).
Proof.
  induction M as [|[p q] M IH]; intros x M1 H; [discriminate|]. cbn [extract] in H.
  destruct (is_some p a) eqn:E1.
  - apply is_some_true in E1. subst p. injection H as <- <-. rewrite cost_cons, rends_cons. cbn [fst snd rend app].
    split; reflexivity.
  - destruct (is_some q a) eqn:E2.
    + apply is_some_true in E2. subst q. injection H as <- <-. rewrite cost_cons, rends_cons. cbn [fst snd rend].
      split; [now rewrite d_sym|]. rewrite <- app_assoc. cbn [app]. symmetry. apply Permutation_middle.
    + destruct (extract a M) as [[x' M1']|] eqn:E3; [|discriminate]. injection H as <- <-.
      destruct (IH x' M1' eq_refl) as [C P]. rewrite !cost_cons, !rends_cons, C. cbn [fst snd]. split; [lia|].
      rewrite P. set (A := rend p ++ rend q). set (B := rend x' ++ rends M1').
      change (Permutation (A ++ a :: B) (a :: rend x' ++ A ++ rends M1')).
      rewrite <- Permutation_middle. apply perm_skip. unfold B. rewrite !app_assoc.
      apply Permutation_app_tail. apply Permutation_app_comm.
Qed.
Lemma extract_none a : forall M, extract a M = None -> ~ In a (rends M).
Proof.
  induction M as [|[p q] M IH]; intros H; [cbn; tauto|]. cbn [extract] in H.
  destruct (is_some p a) eqn:E1; [discriminate|]. destruct (is_some q a) eqn:E2; [discriminate|].
  destruct (extract a M) as [[x' M1']|] eqn:E3; [discriminate|].
  rewrite rends_cons. cbn [fst snd]. rewrite !in_app_iff. intros [[H1|H1]|H1].
  - now apply (is_some_false p a).
  - now apply (is_some_false q a).
  - now apply IH.
Qed.

(* ---- one end of a new pair meets the matching: it is replaced by its partner, if it has one ---- *)
Definition resolve (u : option V) (M : list opair) : option V * list opair :=
  match u with
  | None => (None, M)
  | Some a => match extract a M with Some (x, M1) => (x, M1) | None => (Some a, M) end
  end.

Lemma NoDup_app_l {A} (l1 l2 : list A) : NoDup (l1 ++ l2) -> NoDup l1.
Proof. induction l1 as [|a l1 IH]; cbn; [constructor|]. intros H. inversion H as [|? ? Hn Hd]; subst.
  constructor; [rewrite in_app_iff in Hn; tauto|auto]. Qed.
Lemma NoDup_app_r {A} (l1 l2 : list A) : NoDup (l1 ++ l2) -> NoDup l2.
Proof. induction l1 as [|a l1 IH]; cbn; auto. intros H. inversion H; auto. Qed.

Lemma resolve_spec u M u' M1 : resolve u M = (u', M1) -> NoDup (rends M) ->
  (forall v, cost M1 + d u' v <= cost M + d u v) /\
  NoDup (rend u' ++ rends M1) /\
  incl (rend u' ++ rends M1) (rend u ++ rends M) /\
  (forall q, par q (rend u' ++ rends M1) = xorb (par q (rend u)) (par q (rends M))).
Proof.
  intros H Hnd. destruct u as [a|]; cbn [resolve] in H.
  - destruct (extract a M) as [[x M1']|] eqn:E.
    + injection H as <- <-. destruct (extract_some a M x M1' E) as [C P].
      assert (Hnd' : NoDup (a :: rend x ++ rends M1')) by (eapply Permutation_NoDup; eauto).
      split; [intros v; pose proof (d_tri x a v); rewrite (d_sym x (Some a)) in *; lia|].
      split; [now inversion Hnd'|]. split.
      * intros y Hy. cbn [rend app]. right. eapply Permutation_in; [apply Permutation_sym; exact P|]. cbn. auto.
      * intros q. rewrite (par_perm q _ _ P), par_cons. cbn [rend]. rewrite par_cons. cbn [par xsumb].
        now destruct (eqb q a), (par q (rend x ++ rends M1')).
    + injection H as <- <-. pose proof (extract_none a M E) as Hn.
      split; [intros v; lia|]. split; [cbn [rend app]; now constructor|]. split; [apply incl_refl|].
      intros q. now rewrite par_app.
  - injection H as <- <-. split; [intros v; lia|]. split; [exact Hnd|]. split; [apply incl_refl|]. intros q. cbn [rend app par xsumb]. now rewrite xorb_false_l.
Qed.

(* ---- inserting one more pair into a proper matching ---- *)
Definition same (x y : option V) : bool := match x, y with Some a, Some b => eqb a b | _, _ => false end.
Definition insert (u v : option V) (M : list opair) : list opair :=
  let '(u', M1) := resolve u M in
  if same u' v then M1 else let '(v', M2) := resolve v M1 in (u', v') :: M2.

Lemma insert_spec u v M : NoDup (rends M) ->
  NoDup (rends (insert u v M)) /\ cost (insert u v M) <= cost M + d u v /\
  forall q, par q (rends (insert u v M)) = xorb (xorb (par q (rend u)) (par q (rend v))) (par q (rends M)).
Proof.
  intros Hnd. unfold insert. destruct (resolve u M) as [u' M1] eqn:R1.
  destruct (resolve_spec u M u' M1 R1 Hnd) as (A1 & A2 & A3 & A4).
  pose proof (NoDup_app_r _ _ A2) as Hnd1.
  destruct (same u' v) eqn:Es.
  - destruct u' as [a|], v as [b|]; cbn [same] in Es; try discriminate. apply eqb_eq in Es. subst b.
    split; [exact Hnd1|]. split; [pose proof (A1 (Some a)); pose proof (d_nonneg (Some a) (Some a)); lia|].
    intros q. specialize (A4 q). rewrite par_app in A4. cbn [rend] in *. rewrite par_cons in *. cbn [par xsumb] in *.
    destruct (eqb q a), (par q (rends M1)), (par q (rend u)), (par q (rends M)); cbn in *; congruence.
  - destruct (resolve v M1) as [v' M2] eqn:R2.
    destruct (resolve_spec v M1 v' M2 R2 Hnd1) as (B1 & B2 & B3 & B4).
    rewrite rends_cons, cost_cons. cbn [fst snd]. split; [|split].
    + rewrite <- app_assoc. apply NoDup_app_disj; [destruct u'; cbn; repeat constructor; auto|exact B2|].
      intros x Hx1 Hx2. destruct u' as [a|]; [|destruct Hx1]. destruct Hx1 as [<-|[]].
      apply B3 in Hx2. apply in_app_iff in Hx2. destruct Hx2 as [Hx2|Hx2].
      * destruct v as [b|]; [|destruct Hx2]. destruct Hx2 as [->|[]]. cbn [same] in Es. now rewrite eqb_refl' in Es.
      * cbn [rend app] in A2. inversion A2; contradiction.
    + specialize (B1 u'). specialize (A1 v). rewrite (d_sym u' v') . rewrite (d_sym v u') in B1. lia.
    + intros q. rewrite <- app_assoc, par_app, B4. specialize (A4 q). rewrite par_app in A4.
      destruct (par q (rend u')), (par q (rend v)), (par q (rends M1)), (par q (rend u)), (par q (rends M)); cbn in *; congruence.
Qed.

Definition build (L : list opair) : list opair := fold_right (fun p M => insert (fst p) (snd p) M) [] L.
Lemma build_spec L : NoDup (rends (build L)) /\ cost (build L) <= cost L /\
  forall q, par q (rends (build L)) = par q (rends L).
Proof.
  induction L as [|p L (I1 & I2 & I3)]; [cbn; repeat split; [constructor|lia]|].
  cbn [build fold_right]. fold (build L). destruct (insert_spec (fst p) (snd p) (build L) I1) as (J1 & J2 & J3).
  split; [exact J1|]. split; [rewrite cost_cons; lia|]. intros q. rewrite J3, I3, rends_cons, !par_app. reflexivity.
Qed.

(* ---- splitting a proper matching into vertex pairs and boundary-matched vertices ---- *)
Definition vpairs (M : list opair) : list (V * V) :=
  flat_map (fun p => match p with (Some a, Some b) => [(a, b)] | _ => [] end) M.
Definition vsingles (M : list opair) : list V :=
  flat_map (fun p => match p with (Some a, None) => [a] | (None, Some a) => [a] | _ => [] end) M.
Definition pcost (P : list (V * V)) : Z := fold_right (fun p acc => d (Some (fst p)) (Some (snd p)) + acc) 0 P.
Definition scost (S : list V) : Z := fold_right (fun a acc => d (Some a) None + acc) 0 S.

Lemma pcost_cons p P : pcost (p :: P) = d (Some (fst p)) (Some (snd p)) + pcost P.
Proof. reflexivity. Qed.
Lemma pcost_app P1 P2 : pcost (P1 ++ P2) = pcost P1 + pcost P2.
Proof. induction P1 as [|p l IH]; [reflexivity|]. rewrite <- app_comm_cons, !pcost_cons, IH. lia. Qed.
Lemma scost_cons a S : scost (a :: S) = d (Some a) None + scost S.
Proof. reflexivity. Qed.

Lemma split_spec M : Permutation (rends M) (ends2 (vpairs M) ++ vsingles M) /\ pcost (vpairs M) + scost (vsingles M) <= cost M.
Proof.
  induction M as [|[[a|] [b|]] M (IH1 & IH2)]; [cbn; split; [constructor|lia]| | | |];
    rewrite rends_cons, cost_cons; cbn [fst snd rend app vpairs vsingles flat_map];
    fold (vpairs M); fold (vsingles M).
  - split; [cbn [ends2 flat_map fst snd app]; fold (ends2 (vpairs M)); now rewrite IH1|].
    cbn [pcost fold_right fst snd]. fold (pcost (vpairs M)). lia.
  - split; [rewrite IH1; apply Permutation_middle|]. cbn [scost fold_right]. fold (scost (vsingles M)). lia.
  - split; [rewrite IH1; apply Permutation_middle|]. cbn [scost fold_right]. fold (scost (vsingles M)).
    rewrite (d_sym None (Some b)). lia.
  - split; [exact IH1|]. pose proof (d_nonneg None None). lia.
Qed.

(* ---- no two boundary-matched vertices with the same key ---- *)
Variable K : Type.
Variable keqb : K -> K -> bool.
Hypothesis keqb_eq : forall a b, keqb a b = true <-> a = b.
Variable key : V -> K.
Hypothesis key_merge : forall a b, key a = key b -> d (Some a) (Some b) <= d (Some a) None + d (Some b) None.

Fixpoint findk (k : K) (S : list V) : option (V * list V) :=
  match S with
  | [] => None
  | b :: S' => if keqb (key b) k then Some (b, S')
               else match findk k S' with Some (c, S1) => Some (c, b :: S1) | None => None end
  end.
Lemma findk_some k : forall S c S1, findk k S = Some (c, S1) -> key c = k /\ Permutation S (c :: S1) /\ scost S = d (Some c) None + scost S1.
Proof.
  induction S as [|b S IH]; intros c S1 H; [discriminate|]. cbn [findk] in H. destruct (keqb (key b) k) eqn:E.
  - injection H as <- <-. apply keqb_eq in E. repeat split; auto.
  - destruct (findk k S) as [[c' S1']|] eqn:F; [|discriminate]. injection H as <- <-.
    destruct (IH c' S1' eq_refl) as (H1 & H2 & H3). split; [exact H1|]. split.
    + rewrite H2. apply perm_swap.
    + cbn [scost fold_right]. fold (scost S). fold (scost S1'). lia.
Qed.
Lemma findk_none k : forall S, findk k S = None -> ~ In k (map key S).
Proof.
  induction S as [|b S IH]; intros H; [cbn; tauto|]. cbn [findk] in H. destruct (keqb (key b) k) eqn:E; [discriminate|].
  destruct (findk k S) as [[c' S1']|] eqn:F; [discriminate|]. cbn [map]. intros [H1|H1].
  - apply keqb_eq in H1. congruence.
  - now apply IH.
Qed.

Fixpoint merge_keys (S : list V) : list (V * V) * list V :=
  match S with
  | [] => ([], [])
  | a :: S' => let '(P, T) := merge_keys S' in
               match findk (key a) T with Some (b, T1) => ((a, b) :: P, T1) | None => (P, a :: T) end
  end.
Lemma merge_keys_spec S : let '(P, T) := merge_keys S in
  Permutation S (ends2 P ++ T) /\ pcost P + scost T <= scost S /\ NoDup (map key T).
Proof.
  induction S as [|a S IH]; [cbn; repeat split; [constructor|lia|constructor]|].
  cbn [merge_keys]. destruct (merge_keys S) as [P T]. destruct IH as (I1 & I2 & I3).
  destruct (findk (key a) T) as [[b T1]|] eqn:F.
  - destruct (findk_some _ _ _ _ F) as (F1 & F2 & F3). split; [|split].
    + cbn [ends2 flat_map fst snd app]. fold (ends2 P). apply perm_skip. rewrite I1. rewrite F2. symmetry. apply Permutation_middle.
    + cbn [pcost scost fold_right fst snd]. fold (pcost P). fold (scost S). pose proof (key_merge a b (eq_sym F1)). lia.
    + apply (Permutation_map key) in F2. eapply Permutation_NoDup in I3; [|exact F2]. now inversion I3.
  - pose proof (findk_none _ _ F) as Hn. split; [|split].
    + rewrite I1. apply Permutation_middle.
    + cbn [scost fold_right]. fold (scost S). fold (scost T). lia.
    + cbn [map]. now constructor.
Qed.

(* ---- the result ---- *)
Theorem matching_from_pairs (L : list opair) : exists (P : list (V * V)) (S : list V),
  NoDup (ends2 P ++ S) /\ (forall q, In q (ends2 P ++ S) <-> par q (rends L) = true) /\
  NoDup (map key S) /\ pcost P + scost S <= cost L.
Proof.
  destruct (build_spec L) as (B1 & B2 & B3). destruct (split_spec (build L)) as (S1 & S2).
  pose proof (merge_keys_spec (vsingles (build L))) as Mk. destruct (merge_keys (vsingles (build L))) as [P2 T].
  destruct Mk as (M1 & M2 & M3).
  exists (vpairs (build L) ++ P2), T.
  assert (Pm : Permutation (rends (build L)) (ends2 (vpairs (build L) ++ P2) ++ T)).
  { rewrite S1, ends2_app, <- app_assoc. apply Permutation_app_head. exact M1. }
  split; [eapply Permutation_NoDup; eauto|]. split; [|split; [exact M3|]].
  - intros q. rewrite <- B3, (par_nodup q _ B1). split; apply Permutation_in; [now apply Permutation_sym|exact Pm].
  - rewrite pcost_app. lia.
Qed.
End MatchBound.
