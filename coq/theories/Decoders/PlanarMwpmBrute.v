(* Decoders/PlanarMwpmBrute.v — the matcher contract used by PlanarMwpmCorrect.planar_mwpm_decode_corrects is satisfiable:
   an exhaustive matcher (enumerate every perfect matching of the node list that uses only edges of the graph, keep one of
   least total weight) meets it, for every graph.  Hence the decoder model instantiated with the exhaustive matcher
   corrects every error with X part and Z part of at most (min(rows, cols) - 1) / 2 qubits, for ALL sizes, with no
   hypothesis left ([planar_mwpm_brute_corrects]).  The enumeration and its completeness proof follow
   Decoders/Matching.v (C13), here over lattice indices and the decoder's edge lists. *)
From Coq Require Import ZArith List Bool Lia ZifyBool Permutation.
From QV Require Import Core.Bits Core.Pauli Core.Symp Core.Code Core.Span Generated.LatticeArith
  Lattice.Planar Lattice.PlanarAll Decoders.MwpmRel Decoders.PlanarMwpm Decoders.MwpmGraph Decoders.PlanarMwpmCorrect.
Import ListNotations.
Open Scope Z_scope.

Fixpoint remove1 (x : idx) (l : list idx) : list idx :=
  match l with [] => [] | y :: r => if zeqb2 x y then r else y :: remove1 x r end.
Definition has_edge (g : list wedge) (a b : idx) : bool := existsb (joins a b) g.
Fixpoint pms (g : list wedge) (fuel : nat) (ns : list idx) : list mates :=
  match fuel with
  | O => match ns with [] => [[]] | _ => [] end
  | S f =>
    match ns with
    | [] => [[]]
    | a :: rest => flat_map (fun b => if has_edge g a b then map (cons (a, b)) (pms g f (remove1 b rest)) else []) rest
    end
  end.
Definition all_pms (g : list wedge) (ns : list idx) : list mates := pms g (length ns) ns.

Lemma zeqb2_false a b : zeqb2 a b = false -> a <> b.
Proof. intros H E. subst. now rewrite zeqb2_refl in H. Qed.
Lemma remove1_perm x l : In x l -> Permutation l (x :: remove1 x l).
Proof.
  induction l as [|y l IH]; cbn; [tauto|]. destruct (zeqb2 x y) eqn:E.
  - apply zeqb2_eq in E. subst y. intros _. reflexivity.
  - apply zeqb2_false in E. intros [->|H]; [congruence|]. rewrite (IH H) at 1. apply perm_swap.
Qed.
Lemma remove1_length x l : In x l -> S (length (remove1 x l)) = length l.
Proof. intros H. apply remove1_perm in H. apply Permutation_length in H. cbn in H. lia. Qed.

Lemma joins_spec a b t : joins a b t = true <-> exists w, t = (a, b, w) \/ t = (b, a, w).
Proof.
  destruct t as [[x y] w]. unfold joins. cbn [fst snd]. rewrite orb_true_iff, !andb_true_iff, !zeqb2_eq. split.
  - intros [[-> ->]|[-> ->]]; exists w; auto.
  - intros (w' & [E|E]); injection E as -> -> ->; auto.
Qed.
Lemma joins_sym a b t : joins a b t = joins b a t.
Proof. unfold joins. apply orb_comm. Qed.
Lemma has_edge_spec g a b : has_edge g a b = true <-> exists w, In (a, b, w) g \/ In (b, a, w) g.
Proof.
  unfold has_edge. rewrite existsb_exists. split.
  - intros (t & Ht & Hj). apply joins_spec in Hj. destruct Hj as (w & [-> | ->]); eauto.
  - intros (w & [H|H]); [exists (a, b, w)|exists (b, a, w)]; (split; [exact H|]); apply joins_spec; eauto.
Qed.
Lemma has_edge_sym g a b : has_edge g a b = has_edge g b a.
Proof. unfold has_edge. induction g as [|t g IH]; [reflexivity|]. cbn [existsb]. now rewrite IH, joins_sym. Qed.
Lemma gweight_sym g a b : gweight g a b = gweight g b a.
Proof.
  unfold gweight. replace (find (joins b a) g) with (find (joins a b) g); [reflexivity|].
  induction g as [|t g IH]; [reflexivity|]. cbn [find]. now rewrite IH, joins_sym.
Qed.

Theorem pms_sound g fuel : forall ns m, In m (pms g fuel ns) -> Permutation (ends2 m) ns /\ uses g m.
Proof.
  induction fuel as [|f IH]; intros ns m H.
  - destruct ns; cbn in H; [|tauto]. destruct H as [<-|[]]. split; [constructor|intros a b []].
  - destruct ns as [|a rest]; cbn [pms] in H.
    + destruct H as [<-|[]]. split; [constructor|intros x y []].
    + apply in_flat_map in H. destruct H as (b & Hb & H). destruct (has_edge g a b) eqn:E; [|destruct H].
      apply in_map_iff in H. destruct H as (m' & <- & Hm'). apply IH in Hm'. destruct Hm' as [P U]. split.
      * cbn [ends2 flat_map fst snd app]. fold (ends2 m'). rewrite P. apply perm_skip. symmetry. now apply remove1_perm.
      * intros x y [Exy|Hxy]; [injection Exy as <- <-; now apply has_edge_spec|auto].
Qed.

(* two listings of the same matching: reorder the pairs, flip pairs *)
Inductive meq : mates -> mates -> Prop :=
| meq_refl m : meq m m
| meq_perm m m' : Permutation m m' -> meq m m'
| meq_flip a b m : meq ((a, b) :: m) ((b, a) :: m)
| meq_cons p m m' : meq m m' -> meq (p :: m) (p :: m')
| meq_trans m1 m2 m3 : meq m1 m2 -> meq m2 m3 -> meq m1 m3.

Lemma mweight_cons g p m : mweight g (p :: m) = gweight g (fst p) (snd p) + mweight g m.
Proof. reflexivity. Qed.
Lemma mweight_perm g m m' : Permutation m m' -> mweight g m = mweight g m'.
Proof.
  induction 1 as [|p m m' _ IH|p q m|m1 m2 m3 _ IH1 _ IH2]; [reflexivity| | |congruence].
  - now rewrite !mweight_cons, IH.
  - rewrite !mweight_cons. lia.
Qed.
Lemma mweight_meq g m m' : meq m m' -> mweight g m = mweight g m'.
Proof.
  induction 1 as [m|m m' P|a b m|p m m' _ IH|m1 m2 m3 _ IH1 _ IH2]; [reflexivity|now apply mweight_perm| | |congruence].
  - rewrite !mweight_cons. cbn [fst snd]. now rewrite gweight_sym.
  - now rewrite !mweight_cons, IH.
Qed.

Theorem pms_complete g fuel : forall ns m, (length ns <= 2 * fuel)%nat ->
  Permutation (ends2 m) ns -> uses g m -> exists m', In m' (pms g fuel ns) /\ meq m m'.
Proof.
  induction fuel as [|f IH]; intros ns m Hlen P U.
  - destruct ns; cbn in Hlen; [|lia]. apply Permutation_sym, Permutation_nil in P.
    destruct m as [|p m]; [|discriminate]. exists []. split; [cbn; auto|constructor].
  - destruct ns as [|a rest].
    + apply Permutation_sym, Permutation_nil in P. destruct m as [|p m]; [|discriminate].
      exists []. split; [cbn; auto|constructor].
    + assert (Ha : In a (ends2 m)) by (eapply Permutation_in; [apply Permutation_sym; eauto|cbn; auto]).
      unfold ends2 in Ha. apply in_flat_map in Ha. destruct Ha as (p & Hp & Hap).
      apply in_split in Hp. destruct Hp as (l1 & l2 & ->).
      set (m0 := l1 ++ l2).
      assert (Hmid : Permutation (l1 ++ p :: l2) (p :: m0)) by (symmetry; apply Permutation_middle).
      assert (Hb : exists b, meq (l1 ++ p :: l2) ((a, b) :: m0) /\ (p = (a, b) \/ p = (b, a))).
      { destruct p as [x y]. cbn in Hap. destruct Hap as [<-|[<-|[]]].
        - exists y. split; auto. now apply meq_perm.
        - exists x. split; auto. eapply meq_trans; [apply meq_perm, Hmid|apply meq_flip]. }
      destruct Hb as (b & Hmeq & Hpb).
      assert (Pe : Permutation (a :: b :: ends2 m0) (a :: rest)).
      { rewrite <- P. rewrite ends2_app. cbn [ends2 flat_map]. unfold m0. rewrite ends2_app.
        destruct Hpb as [-> | ->]; cbn [fst snd app].
        - rewrite <- Permutation_middle. apply perm_skip. rewrite <- Permutation_middle. reflexivity.
        - rewrite <- Permutation_middle. rewrite <- Permutation_middle. apply perm_swap. }
      apply Permutation_cons_inv in Pe.
      assert (Hbr : In b rest) by (eapply Permutation_in; [exact Pe|cbn; auto]).
      assert (Pe' : Permutation (ends2 m0) (remove1 b rest)).
      { apply (Permutation_cons_inv (a := b)). rewrite Pe. now apply remove1_perm. }
      assert (He : has_edge g a b = true).
      { apply has_edge_spec. destruct Hpb as [-> | ->].
        - apply (U a b). apply in_or_app. right. cbn; auto.
        - destruct (U b a ltac:(apply in_or_app; right; cbn; auto)) as (w & [H|H]); eauto. }
      assert (U0 : uses g m0).
      { intros x y Hq. apply U. unfold m0 in Hq. apply in_app_or in Hq. apply in_or_app. cbn. tauto. }
      destruct (IH (remove1 b rest) m0) as (m' & Hm' & Hmeq'); auto.
      { pose proof (remove1_length _ _ Hbr). cbn in Hlen. lia. }
      exists ((a, b) :: m'). split.
      * cbn [pms]. apply in_flat_map. exists b. split; auto. rewrite He. now apply in_map.
      * eapply meq_trans; [exact Hmeq|]. now apply meq_cons.
Qed.

(* keep one of least weight *)
Definition pick_min (g : list wedge) (ms : list mates) (m0 : mates) : mates :=
  fold_left (fun acc m => if mweight g m <? mweight g acc then m else acc) ms m0.
Lemma pick_min_spec g ms : forall m0,
  (pick_min g ms m0 = m0 \/ In (pick_min g ms m0) ms) /\ mweight g (pick_min g ms m0) <= mweight g m0 /\
  forall m, In m ms -> mweight g (pick_min g ms m0) <= mweight g m.
Proof.
  induction ms as [|x ms IH]; intros m0.
  - unfold pick_min. cbn [fold_left]. split; auto. split; [lia|intros m []].
  - change (pick_min g (x :: ms) m0) with (pick_min g ms (if mweight g x <? mweight g m0 then x else m0)).
    destruct (mweight g x <? mweight g m0) eqn:E.
    + destruct (IH x) as (H1 & H2 & H3). split; [destruct H1 as [-> |H1]; cbn; auto|]. split; [lia|].
      intros m [<-|Hm]; auto.
    + destruct (IH m0) as (H1 & H2 & H3). split; [destruct H1; cbn; auto|]. split; [exact H2|].
      intros m [<-|Hm]; [lia|auto].
Qed.
Definition brute_matcher (g : list wedge) (nodes : list idx) : mates :=
  match all_pms g nodes with [] => [] | m0 :: ms => pick_min g ms m0 end.

Theorem brute_matcher_contract g nodes : (exists m, Permutation (ends2 m) nodes /\ uses g m) ->
  min_matching g nodes (brute_matcher g nodes).
Proof.
  intros (m & Pm & Um).
  destruct (pms_complete g (length nodes) nodes m ltac:(lia) Pm Um) as (m1 & Hin1 & _).
  unfold brute_matcher. fold (all_pms g nodes) in Hin1. destruct (all_pms g nodes) as [|m0 ms] eqn:E; [destruct Hin1|].
  destruct (pick_min_spec g ms m0) as (H1 & H2 & H3).
  assert (Hb : In (pick_min g ms m0) (all_pms g nodes)) by (rewrite E; destruct H1 as [-> |H1]; cbn; auto).
  destruct (pms_sound g _ _ _ Hb) as [Pb Ub]. split; [exact Pb|]. split; [exact Ub|].
  intros m' Pm' Um'. destruct (pms_complete g (length nodes) nodes m' ltac:(lia) Pm' Um') as (m'' & Hin & Heq).
  rewrite (mweight_meq g _ _ Heq). fold (all_pms g nodes) in Hin. rewrite E in Hin. destruct Hin as [<-|Hin]; auto.
Qed.

(* C14, planar part, for the decoder model with the exhaustive matcher: no hypothesis left *)
Theorem planar_mwpm_brute_corrects rows cols : 2 <= rows -> 2 <= cols -> forall e : bsf,
  let n := planar_n rows cols in let S := stabs (planar_code rows cols) in
  length e = (n + n)%nat ->
  Z.of_nat (count_true (firstn n e)) <= (Z.min rows cols - 1) / 2 ->
  Z.of_nat (count_true (skipn n e)) <= (Z.min rows cols - 1) / 2 ->
  exists r, planar_mwpm_decode brute_matcher rows cols (syndrome_of S e) = Some r /\ length r = (n + n)%nat /\
            syndrome_of S r = syndrome_of S e /\ in_spanP (n + n) S (xorv r e).
Proof. exact (planar_mwpm_decode_corrects brute_matcher brute_matcher_contract rows cols). Qed.

(* non-vacuity: the model decoder run on a 3x4 lattice (t = 1): Y in a corner; X and Z on different bulk qubits *)
Example planar_mwpm_brute_ex :
  let S := stabs (planar_code 3 4) in
  let e1 := p_to_bsf (site 3 4 pY (0, 0) (new_pauli 3 4)) in
  let e2 := p_to_bsf (site 3 4 pX (2, 2) (site 3 4 pZ (3, 3) (new_pauli 3 4))) in
  brute_matcher (primal_graph 3 4 (syndrome_of S e2)) (primal_nodes 3 4 (syndrome_of S e2)) = [((1, 2), (3, 2)); ((-1, 2), (5, 2))] /\
  planar_mwpm_decode brute_matcher 3 4 (syndrome_of S e1) = Some e1 /\
  planar_mwpm_decode brute_matcher 3 4 (syndrome_of S e2) = Some e2.
Proof. vm_compute. repeat split; reflexivity. Qed.

Print Assumptions brute_matcher_contract.
Print Assumptions planar_mwpm_brute_corrects.
