(* Decoders/PlanarMwpmCorrect.v — C14 for the planar MWPM decoder, ALL sizes:
   every error whose X part and Z part each have at most t = (min(rows, cols) - 1) / 2 qubits is corrected, up to a
   product of stabilizers, by the recovery built from ANY pair of minimum-weight perfect matchings of the decoder's
   two graphs (Decoders/MwpmGraph.planar_graph).  The matcher is not modelled: "perfect, drawn from the graph, of
   minimum total weight among such" is a hypothesis on its answer (its contract, as in C13).

   A matching is given with the weight of each of its edges ([wmates]); [drawn] says that every triple is an edge of
   the graph with exactly that weight (in either orientation), so the total is the weight the matcher minimises
   ([planar_mwpm_corrects]).  The same theorem for matchings given as bare pairs and weighed by looking the pair up in
   the graph is [planar_mwpm_corrects_mates] (the two formulations agree because every entry of the decoder's graph
   carries the decoder's symmetric distance between its ends: [graph_weights]); for the decoder as a function of an
   external matcher that meets this contract it is [planar_mwpm_decode_corrects] (the graphs always have a perfect
   matching: [planar_perfect_matching_exists]); PlanarMwpmBrute.v discharges the contract with an exhaustive matcher.

   Proof: (1) [cheap_matching]: the defects of one lattice have a perfect matching of the decoder's graph of total
   weight <= the number of qubits in the corresponding part of the error (one elementary pair per qubit —
   PlanarErrPairs.error_pairs — then MatchBound.matching_from_pairs with the taxi-cab metric, the boundary distance
   and the nearest-virtual-node key; the unused virtual nodes are paired off with weight 0);
   (2) hence the minimum-weight matching weighs <= t and so does each part of the recovery (weight of a path <= its
   distance); (3) recovery xor error commutes with every stabilizer and its X part and Z part have <= 2t < min(rows,
   cols) qubits, so it is a product of stabilizers (PlanarErrPairs.light_commuting_in_span). *)
From Coq Require Import ZArith List Bool Lia ZifyBool Permutation.
From QV Require Import Core.Bits Core.Pauli Core.Symp Core.Code Core.Span App.RunOnce Generated.LatticeArith
  Lattice.Planar Lattice.PlanarAll Lattice.PlanarDistAll Decoders.Naive Decoders.Checker Decoders.MwpmRel
  Decoders.PlanarMwpm Decoders.MwpmGraph Decoders.MatchBound Decoders.PlanarErrPairs.
Import ListNotations.
Open Scope Z_scope.
Ltac Zify.zify_post_hook ::= Z.to_euclidean_division_equations.

(* a matching with the weight of each edge *)
Notation wmates := (list (idx * idx * Z)).
Definition unw (mw : wmates) : mates := map fst mw.
Definition wtotal (mw : wmates) : Z := fold_right (fun t acc => snd t + acc) 0 mw.
(* every edge of the matching is an edge of the graph, with that weight *)
Definition drawn (g : list wedge) (mw : wmates) : Prop :=
  forall a b w, In (a, b, w) mw -> In (a, b, Some w) g \/ In (b, a, Some w) g.
Definition perfect_in (g : list wedge) (nodes : list idx) (mw : wmates) : Prop :=
  Permutation (ends2 (unw mw)) nodes /\ drawn g mw.
Definition min_perfect_in (g : list wedge) (nodes : list idx) (mw : wmates) : Prop :=
  perfect_in g nodes mw /\ forall mw', perfect_in g nodes mw' -> wtotal mw <= wtotal mw'.

(* the same contract for a matching given as bare pairs, weighed by the graph: the weight of {a, b} is that of the entry
   of the graph joining a and b, in either orientation (the decoder's graphs have exactly one such entry) *)
Definition joins (a b : idx) (t : wedge) : bool :=
  (zeqb2 (fst (fst t)) a && zeqb2 (snd (fst t)) b) || (zeqb2 (fst (fst t)) b && zeqb2 (snd (fst t)) a).
Definition gweight (g : list wedge) (a b : idx) : Z :=
  match find (joins a b) g with Some (_, _, Some w) => w | _ => 0 end.
Definition mweight (g : list wedge) (m : mates) : Z := fold_right (fun p acc => gweight g (fst p) (snd p) + acc) 0 m.
Definition min_matching (g : list wedge) (nodes : list idx) (m : mates) : Prop :=
  Permutation (ends2 m) nodes /\ uses g m /\
  forall m', Permutation (ends2 m') nodes -> uses g m' -> mweight g m <= mweight g m'.
Lemma find_ex {A} (f : A -> bool) l x : In x l -> f x = true -> exists y, find f l = Some y.
Proof.
  induction l as [|a l IH]; intros Hin Hf; [destruct Hin|]. cbn [find]. destruct (f a) eqn:E; [eauto|].
  destruct Hin as [->|Hin]; [congruence|auto].
Qed.

(* pairing off a list *)
Fixpoint pairup {A} (l : list A) : list (A * A) :=
  match l with
  | x :: r => match r with y :: r' => (x, y) :: pairup r' | [] => [] end
  | [] => []
  end.
Lemma pairup_ends {A} : forall (j : nat) (l : list A), length l = (2 * j)%nat -> ends2 (pairup l) = l.
Proof.
  induction j as [|j IH]; intros l H.
  - destruct l; [reflexivity|cbn in H; lia].
  - destruct l as [|x [|y l]]; cbn in H; try lia. cbn [pairup ends2 flat_map fst snd app]. fold (ends2 (pairup l)).
    rewrite IH by lia. reflexivity.
Qed.
Lemma pairup_in {A} : forall (n : nat) (l : list A), (length l <= n)%nat -> forall x y, In (x, y) (pairup l) ->
  In x l /\ In y l /\ (NoDup l -> x <> y).
Proof.
  induction n as [|n IH]; intros l H x y Hin.
  - destruct l; [destruct Hin|cbn in H; lia].
  - destruct l as [|a [|b l]]; try (now destruct Hin). cbn in H. cbn [pairup] in Hin. destruct Hin as [E|Hin].
    + injection E as <- <-. split; [cbn; auto|]. split; [cbn; auto|]. intros Hnd. inversion Hnd as [|? ? Hn _]; subst.
      intros ->. apply Hn. cbn; auto.
    + destruct (IH l ltac:(lia) x y Hin) as (H1 & H2 & H3). split; [cbn; auto|]. split; [cbn; auto|].
      intros Hnd. apply H3. inversion Hnd as [|? ? _ Hnd']; subst. now inversion Hnd'.
Qed.
Lemma NoDup_dedup l : NoDup (dedup l).
Proof.
  induction l as [|a l IH]; cbn; [constructor|]. destruct (existsb (zeqb2 a) l) eqn:E; [exact IH|].
  constructor; [|exact IH]. intros H. apply in_dedup' in H.
  assert (existsb (zeqb2 a) l = true) by (apply existsb_exists; exists a; split; [exact H|apply zeqb2_refl]). congruence.
Qed.
Lemma split_by_filter (u l : list idx) : NoDup l -> NoDup u -> incl u l ->
  Permutation (u ++ filter (fun v => negb (existsb (zeqb2 v) u)) l) l.
Proof.
  intros Hl Hu Hi. apply NoDup_Permutation; [| exact Hl |].
  - apply NoDup_app_disj; [exact Hu|now apply NoDup_filter|]. intros x H1 H2. apply filter_In in H2. destruct H2 as [_ H2].
    assert (existsb (zeqb2 x) u = true) by (apply existsb_exists; exists x; split; [exact H1|apply zeqb2_refl]).
    rewrite H in H2. discriminate.
  - intros x. rewrite in_app_iff, filter_In. split; [intros [H|[H _]]; auto|]. intros H.
    destruct (existsb (zeqb2 x) u) eqn:E; [|right; auto]. left. apply existsb_exists in E. destruct E as (y & Hy & E).
    apply zeqb2_eq in E. now subst.
Qed.
Lemma select_map_filter {A} (f : A -> bool) : forall l, select (map f l) l = filter f l.
Proof. induction l as [|a l IH]; cbn; auto. destruct (f a); now rewrite IH. Qed.
Lemma ends2_neq {A} (P : list (A * A)) a b : NoDup (ends2 P) -> In (a, b) P -> a <> b.
Proof.
  induction P as [|p P IH]; intros Hnd Hin; [destruct Hin|]. destruct Hin as [E|Hin].
  - subst p. cbn in Hnd. inversion Hnd as [|? ? Hn _]; subst. intros ->. apply Hn. cbn; auto.
  - apply IH; auto. cbn in Hnd. inversion Hnd as [|? ? _ Hnd']; subst. now inversion Hnd'.
Qed.
Lemma ends2_in {A} (P : list (A * A)) a b : In (a, b) P -> In a (ends2 P) /\ In b (ends2 P).
Proof. intros H. unfold ends2. rewrite !in_flat_map. split; exists (a, b); cbn; auto. Qed.
Lemma wtotal_app m1 m2 : wtotal (m1 ++ m2) = wtotal m1 + wtotal m2.
Proof. induction m1 as [|t m IH]; [reflexivity|]. cbn [app wtotal fold_right]. fold (wtotal (m ++ m2)). fold (wtotal m). lia. Qed.

Lemma drawn_uses g mw : drawn g mw -> uses g (unw mw).
Proof.
  intros Hd x y Hxy. unfold unw in Hxy. apply in_map_iff in Hxy. destruct Hxy as ([[x' y'] w'] & E & Ht). cbn [fst] in E.
  injection E as -> ->. exists (Some w'). exact (Hd x y w' Ht).
Qed.

Section Correct.
Variables rows cols : Z.
Hypothesis Hr : 2 <= rows.
Hypothesis Hc : 2 <= cols.
Notation N := (planar_n rows cols).
Notation PI := (plaquette_indices rows cols).
Notation inb := (planar_is_in_bounds rows cols).
Notation STABS := (stabs (planar_code rows cols)).
Notation stabq := (stab rows cols).
Notation vn := (vnode rows cols).

(* ------------------------------------------------------------------ *)
(** * The metric (in half-steps: twice the decoder's distance)         *)
(* ------------------------------------------------------------------ *)
Definition bd2 (pr : bool) (a : idx) : Z :=
  if pr then Z.min (Z.abs (fst a + 1)) (Z.abs (2 * rows - 1 - fst a))
  else Z.min (Z.abs (snd a + 1)) (Z.abs (2 * cols - 1 - snd a)).
Definition d2 (pr : bool) (x y : option idx) : Z :=
  match x, y with
  | Some a, Some b => Z.abs (fst a - fst b) + Z.abs (snd a - snd b)
  | Some a, None => bd2 pr a
  | None, Some b => bd2 pr b
  | None, None => 0
  end.
(* the nearest virtual plaquette, as a total function *)
Definition vk (pr : bool) (a : idx) : idx :=
  if pr then ((if fst a + 1 <=? 2 * rows - 1 - fst a then -1 else 2 * rows - 1), snd a)
  else (fst a, (if snd a + 1 <=? 2 * cols - 1 - snd a then -1 else 2 * cols - 1)).

Lemma d2_nonneg pr x y : 0 <= d2 pr x y.
Proof. destruct x as [a|], y as [b|]; unfold d2, bd2; destruct pr; lia. Qed.
Lemma d2_sym pr x y : d2 pr x y = d2 pr y x.
Proof. destruct x as [a|], y as [b|]; unfold d2; lia. Qed.
Lemma d2_tri pr x a y : d2 pr x y <= d2 pr x (Some a) + d2 pr (Some a) y.
Proof. destruct x as [x|], y as [y|]; unfold d2, bd2; destruct pr; lia. Qed.
Lemma vk_merge pr a b : vk pr a = vk pr b -> d2 pr (Some a) (Some b) <= d2 pr (Some a) None + d2 pr (Some b) None.
Proof.
  unfold vk, d2, bd2. destruct a as [ar ac], b as [br bc]. cbn [fst snd]. destruct pr.
  - destruct (ar + 1 <=? 2 * rows - 1 - ar) eqn:E1, (br + 1 <=? 2 * rows - 1 - br) eqn:E2; intros H; pose proof (f_equal fst H) as H1; pose proof (f_equal snd H) as H2; cbn [fst snd] in H1, H2; lia.
  - destruct (ac + 1 <=? 2 * cols - 1 - ac) eqn:E1, (bc + 1 <=? 2 * cols - 1 - bc) eqn:E2; intros H; pose proof (f_equal fst H) as H1; pose proof (f_equal snd H) as H2; cbn [fst snd] in H1, H2; lia.
Qed.

Lemma vn_vk pr q : In q PI -> planar_is_primal q = pr -> vn q = vk pr q.
Proof.
  intros Hq Hp. unfold vnode. rewrite (planar_virtual_nearest rows cols Hr Hc q Hq), Hp. unfold vk. destruct pr.
  - destruct ((fst q + 1) / 2 <=? (2 * rows - 1 - fst q) / 2) eqn:E1, (fst q + 1 <=? 2 * rows - 1 - fst q) eqn:E2;
      try reflexivity; lia.
  - destruct ((snd q + 1) / 2 <=? (2 * cols - 1 - snd q) / 2) eqn:E1, (snd q + 1 <=? 2 * cols - 1 - snd q) eqn:E2;
      try reflexivity; lia.
Qed.

(* the decoder's weights *)
Definition hd2 (a b : idx) : Z := Z.abs (fst b - fst a) / 2 + Z.abs (snd b - snd a) / 2.
Lemma hd2_d2 pr a b : In a PI -> planar_is_primal a = pr -> In b PI -> planar_is_primal b = pr ->
  2 * hd2 a b = d2 pr (Some a) (Some b).
Proof.
  intros Ha Pa Hb Pb. apply in_plaquette_indices in Ha, Hb; auto. destruct Ha as [Ha _], Hb as [Hb _].
  rewrite plaq_unfold in Ha, Hb. rewrite primal_unfold in Pa, Pb. unfold hd2, d2. destruct a as [ar ac], b as [br bc].
  cbn [fst snd] in *. destruct pr; lia.
Qed.
Lemma hd2_bd2 pr a : In a PI -> planar_is_primal a = pr -> 2 * hd2 a (vn a) = d2 pr (Some a) None.
Proof.
  intros Ha Pa. rewrite (vn_vk pr a Ha Pa). apply in_plaquette_indices in Ha; auto. destruct Ha as [Ha Hi].
  rewrite plaq_unfold in Ha. rewrite primal_unfold in Pa. rewrite inb_unfold in Hi. unfold hd2, d2, bd2, vk.
  destruct a as [ar ac]. cbn [fst snd] in *. destruct pr; cbn [fst snd].
  - destruct (ar + 1 <=? 2 * rows - 1 - ar) eqn:E; lia.
  - destruct (ac + 1 <=? 2 * cols - 1 - ac) eqn:E; lia.
Qed.

(* ------------------------------------------------------------------ *)
(** * Elementary pairs as pairs of abstract nodes                      *)
(* ------------------------------------------------------------------ *)
Definition nd (a : idx) : option idx := if inb a then Some a else None.
Definition npair (p : idx * idx) : option idx * option idx := (nd (fst p), nd (snd p)).

Lemma sends_facts pr s : isite rows cols s ->
  (forall x, x = fst (sends pr s) \/ x = snd (sends pr s) -> inb x = true -> In x PI /\ planar_is_primal x = pr) /\
  d2 pr (nd (fst (sends pr s))) (nd (snd (sends pr s))) <= 2.
Proof.
  intros [Hs Hi]. rewrite site_unfold in Hs. rewrite inb_unfold in Hi. destruct s as [sr sc]. cbn [fst snd] in *.
  split.
  - intros x Hx Hix. rewrite in_plaquette_indices by auto. rewrite plaq_unfold, primal_unfold.
    unfold sends, vpair, hpair in Hx. cbn [fst snd] in Hx.
    destruct pr; destruct (sr mod 2 =? 0) eqn:E; cbn [fst snd] in Hx; destruct Hx as [-> | ->]; cbn [fst snd];
      (split; [split; [lia|exact Hix]|lia]).
  - unfold nd, sends, vpair, hpair. cbn [fst snd].
    destruct pr; destruct (sr mod 2 =? 0) eqn:E; cbn [fst snd];
      match goal with |- d2 _ (if inb ?a then _ else _) (if inb ?b then _ else _) <= _ =>
        destruct (inb a) eqn:Ia, (inb b) eqn:Ib; rewrite inb_unfold in Ia, Ib; cbn [fst snd] in Ia, Ib;
        unfold d2, bd2; cbn [fst snd]; lia end.
Qed.

Lemma par_rend_nd q a : inb q = true -> par idx zeqb2 q (rend idx (nd a)) = zeqb2 q a.
Proof.
  intros Hq. unfold nd. destruct (inb a) eqn:Ia; cbn [rend par xsumb].
  - apply xorb_false_r.
  - symmetry. now apply (zeqb2_inb_neq rows cols).
Qed.
Lemma par_rends_npairs q L : inb q = true -> par idx zeqb2 q (rends idx (map npair L)) = pairpar q L.
Proof.
  intros Hq. induction L as [|p L IH]; [reflexivity|]. cbn [map]. rewrite rends_cons, !par_app, IH.
  unfold npair. cbn [fst snd]. rewrite !par_rend_nd by auto. reflexivity.
Qed.
Lemma in_rends_npairs q L : In q (rends idx (map npair L)) ->
  inb q = true /\ exists p, In p L /\ (q = fst p \/ q = snd p).
Proof.
  induction L as [|p L IH]; [intros []|]. cbn [map]. rewrite rends_cons, !in_app_iff. intros [[H|H]|H].
  - unfold npair, nd in H. cbn [fst] in H. destruct (inb (fst p)) eqn:E; [|destruct H]. destruct H as [<-|[]].
    split; auto. exists p. cbn; auto.
  - unfold npair, nd in H. cbn [snd] in H. destruct (inb (snd p)) eqn:E; [|destruct H]. destruct H as [<-|[]].
    split; auto. exists p. cbn; auto.
  - destruct (IH H) as (H1 & p' & H2 & H3). split; auto. exists p'. cbn; auto.
Qed.
Lemma cost_npairs pr L : (forall p, In p L -> exists s, isite rows cols s /\ p = sends pr s) ->
  cost idx (d2 pr) (map npair L) <= 2 * Z.of_nat (length L).
Proof.
  induction L as [|p L IH]; intros H; [cbn; lia|]. cbn [map]. rewrite cost_cons. cbn [length].
  destruct (H p ltac:(cbn; auto)) as (s & Hs & ->). destruct (sends_facts pr s Hs) as [_ Hd].
  specialize (IH ltac:(intros; apply H; cbn; auto)). unfold npair at 1 2. cbn [fst snd]. lia.
Qed.

(* ------------------------------------------------------------------ *)
(** * The X part / Z part of a product of path operators                *)
(* ------------------------------------------------------------------ *)
Notation partp := (part rows cols).
Notation pop := (pathop rows cols).
Lemma part_xorv pr a b : length a = length b -> partp pr (xorv a b) = xorv (partp pr a) (partp pr b).
Proof. intros H. unfold part. destruct pr; [apply firstn_xorv|now apply skipn_xorv]. Qed.
Lemma part_zeros pr : partp pr (zeros (N + N)) = zeros N.
Proof. rewrite <- (embed_zeros rows cols pr). apply part_embed, zeros_length. Qed.
Definition ops_weight (pr : bool) (m : mates) : nat :=
  fold_right (fun q acc => (count_true (partp pr (pop (fst q) (snd q))) + acc)%nat) 0%nat m.
Lemma xsum_part_le pr m : (forall q, In q m -> ok rows cols (fst q) (snd q)) ->
  (count_true (partp pr (xsum (N + N) (pair_ops idx pop m))) <= ops_weight pr m)%nat.
Proof.
  induction m as [|q m IH]; intros Hok.
  - cbn [pair_ops map xsum fold_right ops_weight]. now rewrite part_zeros, count_true_zeros.
  - cbn [pair_ops map ops_weight fold_right]. fold (pair_ops idx pop m). fold (ops_weight pr m). rewrite xsum_cons.
    assert (Hok' : forall q0, In q0 m -> ok rows cols (fst q0) (snd q0)) by (intros; apply Hok; cbn; auto).
    rewrite part_xorv.
    + pose proof (count_true_xorv (partp pr (pop (fst q) (snd q))) (partp pr (xsum (N + N) (pair_ops idx pop m)))).
      specialize (IH Hok'). lia.
    + rewrite (ok_len rows cols Hr Hc) by (apply Hok; cbn; auto). symmetry. apply xsum_len.
      exact (pair_ops_rowlen idx (N + N) pop (ok rows cols) (ok_len rows cols Hr Hc) m Hok').
Qed.

(* what a path operator between two nodes of lattice pr looks like *)
Lemma pathop_parts pr a b : lat a pr -> ok rows cols a b ->
  exists rs cs, planar_translation rows cols a b = Some (rs, cs) /\
    Z.of_nat (count_true (partp pr (pop a b))) <= Z.abs rs + Z.abs cs /\
    partp (negb pr) (pop a b) = zeros N.
Proof.
  intros [Ta Pa] Hok. destruct (ok_path rows cols Hr Hc a b Hok) as (rs & cs & Ht & Hp & _).
  exists rs, cs. split; [exact Ht|]. rewrite Hp, sop_gop, gop_parts. unfold path_op. rewrite Pa.
  set (L := path_sites a rs cs).
  assert (HL : Z.of_nat (length L) = Z.abs rs + Z.abs cs) by apply path_sites_length.
  assert (Hf : (count_true (flips (keys inb (PlanarAll.fl rows cols) L) (zeros N)) <= length L)%nat).
  { pose proof (count_true_flips_le (keys inb (PlanarAll.fl rows cols) L) (zeros N)) as H. rewrite count_true_zeros in H.
    unfold keys in *. rewrite map_length in H. pose proof (filter_len_le inb L). lia. }
  unfold part, PlanarAll.xpart, PlanarAll.zpart. destruct pr; cbn [negb xbit zbit].
  - rewrite firstn_N_app, skipn_N_app by (rewrite flips_length; apply zeros_length). split; [lia|reflexivity].
  - rewrite firstn_N_app, skipn_N_app by apply zeros_length. split; [lia|reflexivity].
Qed.

(* ------------------------------------------------------------------ *)
(** * From a proper matching of the defects to a perfect matching of the decoder's graph *)
(* ------------------------------------------------------------------ *)
Section OneLattice.
Variable pr : bool.
Variable ds : list idx.
Variable extra : idx.
Hypothesis Hds : forall q, In q ds -> In q PI /\ planar_is_primal q = pr.
Hypothesis Hnd : NoDup ds.
Hypothesis Hex : inb extra = false.
Hypothesis Hexs : ~ instrip rows cols extra.
Hypothesis Hexl : lat extra pr.
Notation G := (planar_graph rows cols ds extra).
Notation VN := (vnodes rows cols ds extra).

Lemma NoDup_vnodes : NoDup VN.
Proof.
  unfold vnodes. apply NoDup_app_disj; [apply NoDup_dedup| |].
  - destruct (Nat.odd _); repeat constructor. intros [].
  - intros x H1 H2. destruct (Nat.odd _); [|destruct H2]. destruct H2 as [<-|[]].
    apply in_dedup' in H1. apply in_map_iff in H1. destruct H1 as (d & E & Hd). destruct (Hds d Hd) as [HPI _].
    destruct (defect_facts rows cols Hr Hc d HPI) as (_ & _ & _ & _ & _ & S & _). rewrite E in S. contradiction.
Qed.
Lemma vnodes_parity : exists k : nat, (length ds + length VN = 2 * k)%nat.
Proof.
  unfold vnodes. rewrite app_length. set (vs := dedup (map vn ds)). destruct (Nat.odd (length ds + length vs)) eqn:E.
  - apply Nat.odd_spec in E. destruct E as (m & Hm). exists (S m). cbn [length]. lia.
  - assert (E' : Nat.even (length ds + length vs) = true) by (rewrite <- Nat.negb_odd, E; reflexivity).
    apply Nat.even_spec in E'. destruct E' as (m & Hm). exists m. cbn [length]. lia.
Qed.

Definition rest (Sg : list idx) : list idx := filter (fun v => negb (existsb (zeqb2 v) (map vn Sg))) VN.
Definition mw_pairs (P : list (idx * idx)) : wmates := map (fun p => (fst p, snd p, hd2 (fst p) (snd p))) P.
Definition mw_singles (Sg : list idx) : wmates := map (fun a => (a, vn a, hd2 a (vn a))) Sg.
Definition mw_rest (Sg : list idx) : wmates := map (fun p => (fst p, snd p, 0)) (pairup (rest Sg)).
Definition mw_of (P : list (idx * idx)) (Sg : list idx) : wmates := mw_pairs P ++ mw_singles Sg ++ mw_rest Sg.

Lemma unw_map_pairs (f : idx * idx -> Z) P : unw (map (fun p => (fst p, snd p, f p)) P) = P.
Proof. unfold unw. rewrite map_map. cbn [fst]. rewrite <- (map_id P) at 2. apply map_ext. now intros [a b]. Qed.
Lemma ends2_length {A} (P : list (A * A)) : length (ends2 P) = (2 * length P)%nat.
Proof. induction P as [|p P IH]; [reflexivity|]. cbn [ends2 flat_map app length]. fold (ends2 P). lia. Qed.
Lemma ends_singles Sg : Permutation (ends2 (unw (mw_singles Sg))) (Sg ++ map vn Sg).
Proof.
  induction Sg as [|a Sg IH]; [constructor|]. cbn [mw_singles map unw ends2 flat_map fst snd app].
  fold (mw_singles Sg). fold (unw (mw_singles Sg)). fold (ends2 (unw (mw_singles Sg))).
  apply perm_skip. rewrite IH. apply Permutation_middle.
Qed.

Theorem graph_matching_of P Sg : Permutation (ends2 P ++ Sg) ds -> NoDup (map (vk pr) Sg) ->
  perfect_in G (lattice_nodes rows cols ds extra) (mw_of P Sg) /\
  2 * wtotal (mw_of P Sg) = pcost idx (d2 pr) P + scost idx (d2 pr) Sg.
Proof.
  intros Pm Hk.
  assert (NdPS : NoDup (ends2 P ++ Sg)) by (eapply Permutation_NoDup; [apply Permutation_sym; exact Pm|exact Hnd]).
  assert (HinP : forall a b, In (a, b) P -> In a ds /\ In b ds /\ a <> b).
  { intros a b Hab. destruct (ends2_in P a b Hab) as [Ha Hb].
    split; [eapply Permutation_in; [exact Pm|apply in_app_iff; auto]|].
    split; [eapply Permutation_in; [exact Pm|apply in_app_iff; auto]|].
    apply (ends2_neq P); auto. eapply NoDup_app_l; eauto. }
  assert (HinS : forall a, In a Sg -> In a ds) by (intros a Ha; eapply Permutation_in; [exact Pm|apply in_app_iff; auto]).
  assert (Evn : map vn Sg = map (vk pr) Sg).
  { apply map_ext_in. intros a Ha. destruct (Hds a (HinS a Ha)). now apply vn_vk. }
  assert (Hu : NoDup (map vn Sg)) by now rewrite Evn.
  assert (Hi : incl (map vn Sg) VN).
  { intros v Hv. apply in_map_iff in Hv. destruct Hv as (a & <- & Ha). unfold vnodes. apply in_app_iff. left.
    apply dedup_in, in_map, HinS, Ha. }
  pose proof (split_by_filter (map vn Sg) VN NoDup_vnodes Hu Hi) as Prest. fold (rest Sg) in Prest.
  assert (Hev : exists j : nat, length (rest Sg) = (2 * j)%nat).
  { destruct vnodes_parity as (k & Hk'). pose proof (Permutation_length Pm) as L1. pose proof (Permutation_length Prest) as L2.
    rewrite app_length in L1, L2. rewrite ends2_length in L1. rewrite map_length in L2.
    exists (k - length P - length Sg)%nat. lia. }
  destruct Hev as (j & Hj).
  split; [split|].
  - rewrite lattice_nodes_vnodes. unfold mw_of, unw. rewrite !map_app, !ends2_app.
    change (map fst (mw_pairs P)) with (unw (mw_pairs P)). change (map fst (mw_singles Sg)) with (unw (mw_singles Sg)).
    change (map fst (mw_rest Sg)) with (unw (mw_rest Sg)).
    unfold mw_pairs, mw_rest. rewrite !unw_map_pairs, (pairup_ends j _ Hj), ends_singles.
    apply Permutation_trans with ((ends2 P ++ Sg) ++ (map vn Sg ++ rest Sg)); [rewrite <- !app_assoc; reflexivity|].
    now apply Permutation_app.
  - intros a b w Hin. unfold mw_of in Hin. rewrite !in_app_iff in Hin. destruct Hin as [Hin|[Hin|Hin]].
    + apply in_map_iff in Hin. destruct Hin as ([x y] & E & Hxy). cbn [fst snd] in E. injection E as <- <- <-.
      destruct (HinP x y Hxy) as (Hx & Hy & Hne). exact (graph_complete rows cols Hr Hc ds extra pr Hds x y Hx Hy Hne).
    + apply in_map_iff in Hin. destruct Hin as (x & E & Hx). injection E as <- <- <-. left.
      exact (graph_boundary_edges rows cols Hr Hc ds extra pr Hds x (HinS x Hx)).
    + apply in_map_iff in Hin. destruct Hin as ([x y] & E & Hxy). cbn [fst snd] in E. injection E as <- <- <-.
      destruct (pairup_in (length (rest Sg)) (rest Sg) (le_n _) x y Hxy) as (Hx & Hy & Hne).
      assert (Nr : NoDup (rest Sg)) by (apply NoDup_filter, NoDup_vnodes).
      apply filter_In in Hx, Hy. destruct Hx as [Hx _], Hy as [Hy _].
      unfold planar_graph.
      destruct (pairs_complete VN x y Hx Hy (Hne Nr)) as [H|H]; [left|right]; apply in_app_iff; right; apply in_app_iff; right;
        apply in_map_iff; [exists (x, y)|exists (y, x)]; auto.
  - unfold mw_of. rewrite !wtotal_app.
    assert (W1 : 2 * wtotal (mw_pairs P) = pcost idx (d2 pr) P).
    { clear Pm NdPS. induction P as [|[x y] P' IH]; [reflexivity|].
      cbn [mw_pairs map wtotal fold_right snd fst]. fold (mw_pairs P'). fold (wtotal (mw_pairs P')). rewrite pcost_cons. cbn [fst snd].
      destruct (HinP x y ltac:(cbn; auto)) as (Hx & Hy & _). destruct (Hds x Hx), (Hds y Hy).
      rewrite <- (hd2_d2 pr x y) by auto. rewrite <- IH by (intros; apply HinP; cbn; auto). lia. }
    assert (W2 : 2 * wtotal (mw_singles Sg) = scost idx (d2 pr) Sg).
    { clear Pm NdPS Hk Evn Hu Hi Prest Hj. induction Sg as [|x Sg' IH]; [reflexivity|].
      cbn [mw_singles map wtotal fold_right snd fst]. fold (mw_singles Sg'). fold (wtotal (mw_singles Sg')). rewrite scost_cons.
      destruct (Hds x (HinS x ltac:(cbn; auto))). rewrite <- (hd2_bd2 pr x) by auto.
      rewrite <- IH by (intros; apply HinS; cbn; auto). lia. }
    assert (W3 : wtotal (mw_rest Sg) = 0).
    { unfold mw_rest. induction (pairup (rest Sg)) as [|p l IH]; [reflexivity|]. cbn [map wtotal fold_right snd].
      fold (wtotal (map (fun p0 : idx * idx => (fst p0, snd p0, 0)) l)). rewrite IH. reflexivity. }
    lia.
Qed.

(* (1) the defects of the error's part of type pr have a perfect matching in the decoder's graph of total weight at most
   the number of qubits of that part *)
Theorem cheap_matching e : length e = (N + N)%nat ->
  (forall q, In q ds <-> In q PI /\ planar_is_primal q = pr /\ bsp e (stabq q) = true) ->
  exists mw, perfect_in G (lattice_nodes rows cols ds extra) mw /\ wtotal mw <= Z.of_nat (count_true (partp pr e)).
Proof.
  intros He Hchar.
  destruct (error_pairs rows cols Hr Hc pr e He) as (L & HL1 & HL2 & HL3).
  destruct (matching_from_pairs idx zeqb2 zeqb2_eq (d2 pr) (d2_nonneg pr) (d2_sym pr) (d2_tri pr)
              idx zeqb2 zeqb2_eq (vk pr) (vk_merge pr) (map npair L)) as (P & Sg & M1 & M2 & M3 & M4).
  assert (Pm : Permutation (ends2 P ++ Sg) ds).
  { apply NoDup_Permutation; auto. intros q. rewrite M2. split.
    - intros Hp. pose proof (par_true_in idx zeqb2 zeqb2_eq q _ Hp) as Hin.
      destruct (in_rends_npairs q L Hin) as (Hiq & p & HpL & Hqp).
      destruct (HL2 p HpL) as (s & Hs & ->). destruct (sends_facts pr s Hs) as [F _].
      destruct (F q Hqp Hiq) as [F1 F2]. apply Hchar. split; [exact F1|]. split; [exact F2|].
      rewrite (HL3 q F1 F2), <- (par_rends_npairs q L Hiq). exact Hp.
    - intros Hq. apply Hchar in Hq. destruct Hq as (F1 & F2 & F3).
      assert (Hiq : inb q = true) by (apply in_plaquette_indices in F1; tauto).
      now rewrite (par_rends_npairs q L Hiq), <- (HL3 q F1 F2). }
  destruct (graph_matching_of P Sg Pm M3) as [Hperf Hw].
  exists (mw_of P Sg). split; [exact Hperf|]. pose proof (cost_npairs pr L HL2). lia.
Qed.

(* (2) the part of type pr of the recovery of a matching drawn from the graph weighs no more than the matching *)
Lemma perfect_nodes mw : perfect_in G (lattice_nodes rows cols ds extra) mw ->
  forall a b w, In (a, b, w) mw -> ok rows cols a b /\ lat a pr.
Proof.
  intros [Pm Hd] a b w Hin.
  assert (Hu : uses G (unw mw)).
  { intros x y Hxy. unfold unw in Hxy. apply in_map_iff in Hxy. destruct Hxy as ([[x' y'] w'] & E & Ht). cbn [fst] in E.
    injection E as -> ->. exists (Some w'). exact (Hd x y w' Ht). }
  pose proof (graph_extra_not_with_defect rows cols Hr Hc ds extra pr (unw mw) Hds Hex Hexs Hu) as Hno.
  assert (Hab : In (a, b) (unw mw)) by (unfold unw; apply in_map_iff; exists (a, b, w); auto).
  split.
  - exact (mates_ok rows cols Hr Hc ds extra pr (unw mw) Hds Hexl Hex Pm Hno (a, b) Hab).
  - assert (Ha : In a (lattice_nodes rows cols ds extra)).
    { eapply Permutation_in; [exact Pm|]. apply (ends2_in _ a b Hab). }
    now destruct (lattice_node_facts rows cols Hr Hc ds extra pr Hds Hexl Hex a Ha) as (La & _).
Qed.

Lemma edge_weight a b w : ok rows cols a b -> lat a pr -> In (a, b, Some w) G \/ In (b, a, Some w) G ->
  Z.of_nat (count_true (partp pr (pop a b))) <= w.
Proof.
  intros Hok La Hin. destruct (pathop_parts pr a b La Hok) as (rs & cs & Ht & Hw & _).
  assert (Hd : Planar.distance rows cols a b = Some (Z.abs rs + Z.abs cs)) by (unfold Planar.distance; now rewrite Ht).
  destruct Hok as (Ta & Tb & Sab & _).
  assert (Sba : same_type b a) by (destruct Sab; split; congruence).
  enough (Z.abs rs + Z.abs cs <= w) by lia.
  assert (Hvv : In a VN -> In b VN -> Z.abs rs + Z.abs cs <= 0).
  { intros Ha Hb. pose proof (vnodes_out rows cols Hr Hc ds extra pr Hds Hex a Ha) as Ia.
    pose proof (vnodes_out rows cols Hr Hc ds extra pr Hds Hex b Hb) as Ib.
    destruct (translation_cases rows cols a b Ta Tb Sab) as (rs' & cs' & Ht' & Hcase). rewrite Ht in Ht'. injection Ht' as <- <-.
    destruct Hcase as [(_ & _ & -> & ->)|([E|E] & _)]; [lia|congruence|congruence]. }
  assert (Hinb : forall x, In x ds -> inb x = true).
  { intros x Hx. destruct (Hds x Hx) as [HP _]. apply in_plaquette_indices in HP; tauto. }
  destruct Hin as [Hin|Hin]; apply graph_edge_cases in Hin; destruct Hin as [(Ha & _ & E)|[(Ha & Hb & E)|(Ha & Hb & E)]].
  - rewrite Hd in E. injection E as ->. lia.
  - rewrite Hd in E. injection E as ->. lia.
  - injection E as ->. now apply Hvv.
  - rewrite (distance_sym rows cols b a Tb Ta Sba (or_introl (Hinb b Ha))), Hd in E. injection E as ->. lia.
  - rewrite (distance_sym rows cols b a Tb Ta Sba (or_introl (Hinb b Ha))), Hd in E. injection E as ->. lia.
  - injection E as ->. now apply Hvv.
Qed.

Theorem matching_weight mw : perfect_in G (lattice_nodes rows cols ds extra) mw ->
  (forall q, In q (unw mw) -> ok rows cols (fst q) (snd q)) /\
  Z.of_nat (ops_weight pr (unw mw)) <= wtotal mw /\ ops_weight (negb pr) (unw mw) = 0%nat.
Proof.
  intros Hperf. pose proof (perfect_nodes mw Hperf) as Hall. destruct Hperf as [_ Hd].
  split.
  - intros [a b] Hq. unfold unw in Hq. apply in_map_iff in Hq. destruct Hq as ([[a' b'] w] & E & Ht). cbn [fst] in E.
    injection E as -> ->. now destruct (Hall a b w Ht).
  - revert Hd Hall. induction mw as [|[[a b] w] mw IH]; intros Hd Hall; [cbn; split; [lia|reflexivity]|].
    destruct (Hall a b w ltac:(cbn; auto)) as [Hok La].
    pose proof (edge_weight a b w Hok La (Hd a b w ltac:(cbn; auto))) as Hw.
    destruct (pathop_parts pr a b La Hok) as (_ & _ & _ & _ & Hz).
    destruct IH as [I1 I2]; [intros x y z Hxyz; apply Hd; cbn; auto|intros x y z Hxyz; apply (Hall x y z); cbn; auto|].
    cbn [unw map fst snd ops_weight fold_right wtotal]. fold (unw mw). fold (ops_weight pr (unw mw)).
    fold (ops_weight (negb pr) (unw mw)). fold (wtotal mw). rewrite Hz, count_true_zeros, I2. split; [lia|reflexivity].
Qed.

(* every entry of the graph carries the decoder's distance between its ends, which is symmetric *)
Lemma pdist_out x y : ptype x -> ptype y -> same_type x y -> inb x = false -> inb y = false ->
  Planar.distance rows cols x y = Some 0.
Proof.
  intros Tx Ty Sxy Ix Iy. destruct (translation_cases rows cols x y Tx Ty Sxy) as (rs & cs & Ht & Hcase).
  unfold Planar.distance. rewrite Ht. destruct Hcase as [(_ & _ & -> & ->)|([E|E] & _)]; [reflexivity|congruence|congruence].
Qed.
Lemma graph_weights x y w : In (x, y, w) G ->
  exists z, w = Some z /\ Planar.distance rows cols x y = Some z /\ Planar.distance rows cols y x = Some z.
Proof.
  intros Hin.
  assert (Hsym : forall u v, same_type u v -> same_type v u) by (intros u v [A B]; split; congruence).
  assert (Hdsf : forall u, In u ds -> ptype u /\ inb u = true /\ lat u pr).
  { intros u Hu. destruct (Hds u Hu) as [HP Pu]. destruct (defect_facts rows cols Hr Hc u HP) as (Tu & _ & Iu & _).
    repeat split; auto. }
  apply graph_edge_cases in Hin. destruct Hin as [(Ha & -> & ->)|[(Ha & Hb & ->)|(Ha & Hb & ->)]].
  - destruct (Hds x Ha) as [HP _]. destruct (defect_facts rows cols Hr Hc x HP) as (Tx & _ & Ix & Tv & Sv & _).
    rewrite <- (distance_sym rows cols x (vn x) Tx Tv (Hsym _ _ Sv) (or_introl Ix)).
    rewrite (distance_taxicab rows cols x (vn x) Tx Tv (Hsym _ _ Sv) (or_introl Ix)). eauto.
  - destruct (Hdsf x Ha) as (Tx & Ix & Lx), (Hdsf y Hb) as (Ty & Iy & Ly).
    pose proof (lat_same_type x y pr Lx Ly) as Sxy.
    rewrite <- (distance_sym rows cols x y Tx Ty Sxy (or_introl Ix)).
    rewrite (distance_taxicab rows cols x y Tx Ty Sxy (or_introl Ix)). eauto.
  - assert (Hv : forall u, In u VN -> lat u pr /\ inb u = false).
    { intros u Hu. split; [|exact (vnodes_out rows cols Hr Hc ds extra pr Hds Hex u Hu)].
      assert (Hl : In u (lattice_nodes rows cols ds extra)) by (rewrite lattice_nodes_vnodes; apply in_app_iff; auto).
      now destruct (lattice_node_facts rows cols Hr Hc ds extra pr Hds Hexl Hex u Hl). }
    destruct (Hv x Ha) as [Lx Ix], (Hv y Hb) as [Ly Iy]. pose proof (lat_same_type x y pr Lx Ly) as Sxy.
    exists 0. split; [reflexivity|]. split; apply pdist_out; auto; try apply Lx; try apply Ly.
Qed.

Lemma gweight_spec a b : (exists w, In (a, b, w) G \/ In (b, a, w) G) ->
  exists z, Planar.distance rows cols a b = Some z /\ gweight G a b = z /\ (In (a, b, Some z) G \/ In (b, a, Some z) G).
Proof.
  intros (w0 & Hw0).
  assert (Hj : exists t, In t G /\ joins a b t = true).
  { destruct Hw0 as [H|H]; [exists (a, b, w0)|exists (b, a, w0)]; (split; [exact H|]); unfold joins; cbn [fst snd];
      rewrite !zeqb2_refl; cbn; auto using orb_true_r. }
  destruct Hj as (t0 & Ht0 & Hj0). destruct (find_ex _ _ _ Ht0 Hj0) as (t & Hf).
  destruct (find_some _ _ Hf) as [Hin Hj]. destruct t as [[x y] w]. unfold gweight. rewrite Hf.
  destruct (graph_weights x y w Hin) as (z & -> & D1 & D2). exists z.
  unfold joins in Hj. cbn [fst snd] in Hj. apply orb_true_iff in Hj. rewrite !andb_true_iff, !zeqb2_eq in Hj.
  destruct Hj as [[-> ->]|[-> ->]]; auto.
Qed.
Lemma drawn_gweight a b w : In (a, b, Some w) G \/ In (b, a, Some w) G -> gweight G a b = w.
Proof.
  intros H. destruct (gweight_spec a b ltac:(exists (Some w); exact H)) as (z & D & -> & _).
  destruct H as [H|H]; destruct (graph_weights _ _ _ H) as (z' & E & D1 & D2); injection E as ->; congruence.
Qed.

(* a minimum-weight perfect matching in the bare-pairs formulation is one in the weighted formulation *)
Definition with_weights (m : mates) : wmates := map (fun p => (fst p, snd p, gweight G (fst p) (snd p))) m.
Lemma wtotal_with_weights m : wtotal (with_weights m) = mweight G m.
Proof. induction m as [|p m IH]; [reflexivity|]. cbn [with_weights map wtotal mweight fold_right snd]. fold (with_weights m).
  fold (wtotal (with_weights m)). fold (mweight G m). now rewrite IH. Qed.
Lemma wtotal_drawn mw : drawn G mw -> wtotal mw = mweight G (unw mw).
Proof.
  induction mw as [|[[a b] w] mw IH]; intros Hd; [reflexivity|].
  cbn [unw map wtotal mweight fold_right fst snd]. fold (unw mw). fold (wtotal mw). fold (mweight G (unw mw)).
  rewrite (drawn_gweight a b w (Hd a b w ltac:(cbn; auto))). rewrite IH by (intros x y z H; apply Hd; cbn; auto). reflexivity.
Qed.
Theorem min_matching_weighted m : min_matching G (lattice_nodes rows cols ds extra) m ->
  min_perfect_in G (lattice_nodes rows cols ds extra) (with_weights m) /\ unw (with_weights m) = m.
Proof.
  intros (Pm & Hu & Hmin).
  assert (Eu : unw (with_weights m) = m) by apply unw_map_pairs.
  split; [|exact Eu]. split; [split|].
  - now rewrite Eu.
  - intros a b w Hin. unfold with_weights in Hin. apply in_map_iff in Hin. destruct Hin as ([x y] & E & Hxy).
    cbn [fst snd] in E. injection E as <- <- <-. destruct (gweight_spec x y (Hu x y Hxy)) as (z & _ & -> & H). exact H.
  - intros mw' [Pm' Hd']. rewrite wtotal_with_weights, (wtotal_drawn mw' Hd'). apply Hmin; [exact Pm'|now apply drawn_uses].
Qed.
End OneLattice.

(* ------------------------------------------------------------------ *)
(** * The theorem                                                       *)
(* ------------------------------------------------------------------ *)
Definition xweight (e : bsf) : nat := count_true (firstn N e).   (* qubits carrying X or Y *)
Definition zweight (e : bsf) : nat := count_true (skipn N e).    (* qubits carrying Z or Y *)
Definition tcap : Z := (Z.min rows cols - 1) / 2.

Lemma defects_filter e : defects rows cols (syndrome_of STABS e) = filter (fun q => bsp e (stabq q)) PI.
Proof.
  unfold defects, syndrome_to_plaquette_indices, syndrome_of. rewrite (code_eq rows cols). cbn [stabs].
  rewrite map_map. apply select_map_filter.
Qed.
Lemma primal_defects_char e q : In q (primal_defects rows cols (syndrome_of STABS e)) <->
  In q PI /\ planar_is_primal q = true /\ bsp e (stabq q) = true.
Proof. unfold primal_defects. rewrite defects_filter, !filter_In. tauto. Qed.
Lemma dual_defects_char e q : In q (dual_defects rows cols (syndrome_of STABS e)) <->
  In q PI /\ planar_is_primal q = false /\ bsp e (stabq q) = true.
Proof. unfold dual_defects, planar_is_dual. rewrite defects_filter, !filter_In, negb_true_iff. tauto. Qed.
Lemma NoDup_defects e : NoDup (primal_defects rows cols (syndrome_of STABS e)) /\ NoDup (dual_defects rows cols (syndrome_of STABS e)).
Proof. unfold primal_defects, dual_defects. rewrite defects_filter. split; apply NoDup_filter, NoDup_filter, NoDup_PI. Qed.

Lemma ops_weight_app pr m1 m2 : ops_weight pr (m1 ++ m2) = (ops_weight pr m1 + ops_weight pr m2)%nat.
Proof.
  induction m1 as [|q m IH]; [reflexivity|]. cbn [app ops_weight fold_right]. fold (ops_weight pr (m ++ m2)).
  fold (ops_weight pr m). lia.
Qed.

Theorem planar_mwpm_corrects (e : bsf) (mwp mwd : wmates) :
  length e = (N + N)%nat -> Z.of_nat (xweight e) <= tcap -> Z.of_nat (zweight e) <= tcap ->
  let syn := syndrome_of STABS e in
  min_perfect_in (primal_graph rows cols syn) (primal_nodes rows cols syn) mwp ->
  min_perfect_in (dual_graph rows cols syn) (dual_nodes rows cols syn) mwd ->
  exists r, mwpm_recovery rows cols (unw mwp ++ unw mwd) = Some r /\ length r = (N + N)%nat /\
            syndrome_of STABS r = syn /\ in_spanP (N + N) STABS (xorv r e).
Proof.
  intros He Wx Wz syn [Pp Mp] [Pd Md].
  assert (Hdp : forall q, In q (primal_defects rows cols syn) -> In q PI /\ planar_is_primal q = true)
    by (intros q Hq; apply primal_defects_char in Hq; tauto).
  assert (Hdd : forall q, In q (dual_defects rows cols syn) -> In q PI /\ planar_is_primal q = false)
    by (intros q Hq; apply dual_defects_char in Hq; tauto).
  destruct (NoDup_defects e) as [Np Nd].
  destruct (extra_primal_facts rows cols) as [Lep Iep]. destruct (extra_dual_facts rows cols) as [Led Ied].
  pose proof (not_instrip_extra_primal rows cols) as Sep. pose proof (not_instrip_extra_dual rows cols) as Sed.
  (* (1) cheap matchings exist, so the minimum ones are cheap *)
  destruct (cheap_matching true _ extra_primal Hdp Np Sep e He (primal_defects_char e)) as (mp' & Hp' & Wp').
  destruct (cheap_matching false _ extra_dual Hdd Nd Sed e He (dual_defects_char e)) as (md' & Hd' & Wd').
  pose proof (Mp mp' Hp') as Lp. pose proof (Md md' Hd') as Ld.
  (* (2) the recovery parts are no heavier than the matchings *)
  destruct (matching_weight true _ extra_primal Hdp Iep Sep Lep mwp Pp) as (Okp & Wmp & Zmp).
  destruct (matching_weight false _ extra_dual Hdd Ied Sed Led mwd Pd) as (Okd & Wmd & Zmd).
  cbn [negb] in Zmp, Zmd.
  set (m := unw mwp ++ unw mwd).
  assert (Hok : forall q, In q m -> ok rows cols (fst q) (snd q)).
  { intros q Hq. apply in_app_iff in Hq. destruct Hq; auto. }
  destruct (apply_paths_xsum rows cols Hr Hc m (new_pauli rows cols) Hok) as (p' & Hp1 & Hp2);
    [unfold new_pauli, pzero; cbn; apply zeros_length|unfold new_pauli, pzero; cbn; apply zeros_length|].
  pose proof (pair_ops_rowlen idx (N + N) pop (ok rows cols) (ok_len rows cols Hr Hc) m Hok) as Hrow.
  rewrite new_pauli_bsf, xorv_zeros_l in Hp2 by (apply xsum_len; exact Hrow).
  assert (HLs : length syn = length PI) by (unfold syn; now rewrite syndrome_length, stabs_len).
  destruct Pp as [PermP DrP], Pd as [PermD DrD].
  destruct (planar_mwpm_syndrome_graph rows cols Hr Hc syn (unw mwp) (unw mwd) HLs PermP PermD
              (drawn_uses _ _ DrP) (drawn_uses _ _ DrD)) as (r & R1 & R2 & R3).
  exists r. split; [exact R1|]. split; [exact R2|]. split; [exact R3|].
  assert (Er : r = xsum (N + N) (pair_ops idx pop m)).
  { fold m in R1. unfold mwpm_recovery in R1. rewrite Hp1 in R1. cbn [option_map] in R1. injection R1 as <-. exact Hp2. }
  (* (3) recovery xor error is light and commutes with every stabilizer *)
  assert (Lxe : length (xorv r e) = (N + N)%nat) by (rewrite xorv_length; lia).
  pose proof (xsum_part_le true m Hok) as Bx. pose proof (xsum_part_le false m Hok) as Bz.
  rewrite <- Er in Bx, Bz. unfold m in Bx, Bz. rewrite ops_weight_app in Bx, Bz. unfold part in Bx, Bz.
  apply (light_commuting_in_span rows cols Hr Hc); [exact Lxe| | |].
  - apply (syndrome_eq_zero STABS r e N); [lia|lia|exact R3].
  - rewrite firstn_xorv. pose proof (count_true_xorv (firstn N r) (firstn N e)). unfold xweight, part in *. unfold tcap in *. lia.
  - rewrite skipn_xorv by lia. pose proof (count_true_xorv (skipn N r) (skipn N e)). unfold zweight, part in *. unfold tcap in *. lia.
Qed.

(* the same with the matchings given as bare pairs and weighed by the graph *)
Theorem planar_mwpm_corrects_mates (e : bsf) (mp md : mates) :
  length e = (N + N)%nat -> Z.of_nat (xweight e) <= tcap -> Z.of_nat (zweight e) <= tcap ->
  let syn := syndrome_of STABS e in
  min_matching (primal_graph rows cols syn) (primal_nodes rows cols syn) mp ->
  min_matching (dual_graph rows cols syn) (dual_nodes rows cols syn) md ->
  exists r, mwpm_recovery rows cols (mp ++ md) = Some r /\ length r = (N + N)%nat /\
            syndrome_of STABS r = syn /\ in_spanP (N + N) STABS (xorv r e).
Proof.
  intros He Wx Wz syn Mp Md.
  assert (Hdp : forall q, In q (primal_defects rows cols syn) -> In q PI /\ planar_is_primal q = true)
    by (intros q Hq; apply primal_defects_char in Hq; tauto).
  assert (Hdd : forall q, In q (dual_defects rows cols syn) -> In q PI /\ planar_is_primal q = false)
    by (intros q Hq; apply dual_defects_char in Hq; tauto).
  destruct (extra_primal_facts rows cols) as [Lep Iep]. destruct (extra_dual_facts rows cols) as [Led Ied].
  destruct (min_matching_weighted true _ extra_primal Hdp Iep Lep mp Mp) as [Wp Ep].
  destruct (min_matching_weighted false _ extra_dual Hdd Ied Led md Md) as [Wd Ed].
  destruct (planar_mwpm_corrects e _ _ He Wx Wz Wp Wd) as (r & R). rewrite Ep, Ed in R. exists r. exact R.
Qed.

(* ... in particular for every error of weight <= t *)
Corollary planar_mwpm_corrects_weight (e : bsf) (mwp mwd : wmates) :
  length e = (N + N)%nat -> Z.of_nat (bsf_wt e) <= tcap ->
  let syn := syndrome_of STABS e in
  min_perfect_in (primal_graph rows cols syn) (primal_nodes rows cols syn) mwp ->
  min_perfect_in (dual_graph rows cols syn) (dual_nodes rows cols syn) mwd ->
  exists r, mwpm_recovery rows cols (unw mwp ++ unw mwd) = Some r /\ length r = (N + N)%nat /\
            syndrome_of STABS r = syn /\ in_spanP (N + N) STABS (xorv r e).
Proof.
  intros He W. destruct (DistCSS.parts_weight N e ltac:(lia)) as (_ & _ & W1 & W2).
  apply planar_mwpm_corrects; auto; unfold xweight, zweight; lia.
Qed.

(* the decoder's graphs always have a perfect matching, so a matcher that meets its contract has an answer *)
Theorem planar_perfect_matching_exists (e : bsf) : length e = (N + N)%nat ->
  let syn := syndrome_of STABS e in
  (exists m, Permutation (ends2 m) (primal_nodes rows cols syn) /\ uses (primal_graph rows cols syn) m) /\
  (exists m, Permutation (ends2 m) (dual_nodes rows cols syn) /\ uses (dual_graph rows cols syn) m).
Proof.
  intros He syn.
  assert (Hdp : forall q, In q (primal_defects rows cols syn) -> In q PI /\ planar_is_primal q = true)
    by (intros q Hq; apply primal_defects_char in Hq; tauto).
  assert (Hdd : forall q, In q (dual_defects rows cols syn) -> In q PI /\ planar_is_primal q = false)
    by (intros q Hq; apply dual_defects_char in Hq; tauto).
  destruct (NoDup_defects e) as [Np Nd].
  destruct (cheap_matching true _ extra_primal Hdp Np (not_instrip_extra_primal rows cols) e He (primal_defects_char e)) as (mp & [P1 D1] & _).
  destruct (cheap_matching false _ extra_dual Hdd Nd (not_instrip_extra_dual rows cols) e He (dual_defects_char e)) as (md & [P2 D2] & _).
  split; [exists (unw mp)|exists (unw md)]; (split; [assumption|now apply drawn_uses]).
Qed.
End Correct.

(* ------------------------------------------------------------------ *)
(** * The decoder as a function of an external matcher                  *)
(* ------------------------------------------------------------------ *)
Section WithMatcher.
(* graphtools.mwpm, not modelled: graph and node list in, mates out *)
Variable matcher : list wedge -> list idx -> mates.
(* its contract (C13): on a graph that has a perfect matching it returns a perfect matching of minimum total weight *)
Hypothesis matcher_contract : forall g nodes, (exists m, Permutation (ends2 m) nodes /\ uses g m) ->
  min_matching g nodes (matcher g nodes).
Definition planar_mwpm_decode (rows cols : Z) (syn : bsf) : option bsf :=
  mwpm_recovery rows cols (matcher (primal_graph rows cols syn) (primal_nodes rows cols syn) ++
                           matcher (dual_graph rows cols syn) (dual_nodes rows cols syn)).
Theorem planar_mwpm_decode_corrects rows cols : 2 <= rows -> 2 <= cols -> forall e : bsf,
  let n := planar_n rows cols in let S := stabs (planar_code rows cols) in
  length e = (n + n)%nat ->
  Z.of_nat (count_true (firstn n e)) <= (Z.min rows cols - 1) / 2 ->
  Z.of_nat (count_true (skipn n e)) <= (Z.min rows cols - 1) / 2 ->
  exists r, planar_mwpm_decode rows cols (syndrome_of S e) = Some r /\ length r = (n + n)%nat /\
            syndrome_of S r = syndrome_of S e /\ in_spanP (n + n) S (xorv r e).
Proof.
  intros Hr Hc e n S He Wx Wz. destruct (planar_perfect_matching_exists rows cols Hr Hc e He) as [Ep Ed].
  exact (planar_mwpm_corrects_mates rows cols Hr Hc e _ _ He Wx Wz (matcher_contract _ _ Ep) (matcher_contract _ _ Ed)).
Qed.
End WithMatcher.

(* step (1) of the classical argument under the name used in the task description *)
Definition defects_matching_le_weight := cheap_matching.

(* ------------------------------------------------------------------ *)
(** * Closed statements for all sizes (C14, planar part)                *)
(* ------------------------------------------------------------------ *)
Definition planar_mwpm_corrects_statement : Prop :=
  forall rows cols, 2 <= rows -> 2 <= cols -> forall (e : bsf) (mwp mwd : wmates),
    let n := planar_n rows cols in let S := stabs (planar_code rows cols) in
    length e = (n + n)%nat ->
    Z.of_nat (count_true (firstn n e)) <= (Z.min rows cols - 1) / 2 ->
    Z.of_nat (count_true (skipn n e)) <= (Z.min rows cols - 1) / 2 ->
    let syn := syndrome_of S e in
    min_perfect_in (primal_graph rows cols syn) (primal_nodes rows cols syn) mwp ->
    min_perfect_in (dual_graph rows cols syn) (dual_nodes rows cols syn) mwd ->
    exists r, mwpm_recovery rows cols (unw mwp ++ unw mwd) = Some r /\ in_spanP (n + n) S (xorv r e).
Theorem planar_mwpm_corrects_all : planar_mwpm_corrects_statement.
Proof.
  intros rows cols Hr Hc e mwp mwd n S He Wx Wz syn Mp Md.
  destruct (planar_mwpm_corrects rows cols Hr Hc e mwp mwd He Wx Wz Mp Md) as (r & R1 & _ & _ & R4). eauto.
Qed.

(* ------------------------------------------------------------------ *)
(** * Non-vacuity: a 3x3 lattice, X in the bulk and Z in a corner       *)
(* ------------------------------------------------------------------ *)
Lemma wtotal_member (mw : wmates) t : (forall u, In u mw -> 0 <= snd u) -> In t mw -> snd t <= wtotal mw.
Proof.
  induction mw as [|u mw IH]; intros Hp Hin; [destruct Hin|]. cbn [wtotal fold_right]. fold (wtotal mw).
  assert (0 <= wtotal mw).
  { clear IH Hin. induction mw as [|v mw IH]; [cbn; lia|]. cbn [wtotal fold_right]. fold (wtotal mw).
    pose proof (Hp v ltac:(cbn; auto)). specialize (IH ltac:(intros x [Hx|Hx]; apply Hp; cbn; auto)). lia. }
  pose proof (Hp u ltac:(cbn; auto)). destruct Hin as [->|Hin]; [lia|]. specialize (IH ltac:(intros; apply Hp; cbn; auto) Hin). lia.
Qed.
(* every perfect matching must cover node a, and every edge at a weighs at least c *)
Lemma perfect_lower_bound g nodes a c : (forall x y w, In (x, y, Some w) g -> 0 <= w) ->
  (forall x y w, In (x, y, Some w) g -> x = a \/ y = a -> c <= w) -> In a nodes ->
  forall mw, perfect_in g nodes mw -> c <= wtotal mw.
Proof.
  intros Hpos Ha Hin mw [Pm Hd].
  assert (Hnn : forall u, In u mw -> 0 <= snd u).
  { intros [[x y] w] Hu. cbn [snd]. destruct (Hd x y w Hu) as [H|H]; eapply Hpos; eauto. }
  assert (Hm : In a (ends2 (unw mw))) by (eapply Permutation_in; [apply Permutation_sym; exact Pm|exact Hin]).
  unfold ends2 in Hm. apply in_flat_map in Hm. destruct Hm as ([x y] & Hxy & Hax). unfold unw in Hxy. apply in_map_iff in Hxy.
  destruct Hxy as ([[x' y'] w] & E & Ht). cbn [fst] in E. injection E as -> ->. cbn [fst snd] in Hax.
  pose proof (wtotal_member mw _ Hnn Ht) as Hw. cbn [snd] in Hw.
  assert (c <= w); [|lia].
  destruct (Hd x y w Ht) as [H|H]; apply (Ha _ _ _ H); destruct Hax as [<-|[<-|[]]]; auto.
Qed.

Example planar_mwpm_corrects_ex :
  let e := p_to_bsf (site 3 3 pX (2, 2) (site 3 3 pZ (0, 0) (new_pauli 3 3))) in
  let S := stabs (planar_code 3 3) in
  let syn := syndrome_of S e in
  let mwp : wmates := [((1, 2), (3, 2), 1); ((-1, 2), (5, 2), 0)] in
  let mwd : wmates := [((0, 1), (0, -1), 1)] in
  primal_graph 3 3 syn = [((1, 2), (-1, 2), Some 1); ((3, 2), (5, 2), Some 1); ((1, 2), (3, 2), Some 1); ((-1, 2), (5, 2), Some 0)] /\
  dual_graph 3 3 syn = [((0, 1), (0, -1), Some 1)] /\
  length e = 26%nat /\ Z.of_nat (xweight 3 3 e) <= tcap 3 3 /\ Z.of_nat (zweight 3 3 e) <= tcap 3 3 /\
  min_perfect_in (primal_graph 3 3 syn) (primal_nodes 3 3 syn) mwp /\
  min_perfect_in (dual_graph 3 3 syn) (dual_nodes 3 3 syn) mwd /\
  (* a heavier perfect matching of the primal graph: minimality is a real constraint *)
  perfect_in (primal_graph 3 3 syn) (primal_nodes 3 3 syn) [((1, 2), (-1, 2), 1); ((3, 2), (5, 2), 1)] /\
  exists r, mwpm_recovery 3 3 (unw mwp ++ unw mwd) = Some r /\ in_spanP 26 S (xorv r e).
Proof.
  intros e S syn mwp mwd.
  assert (Egp : primal_graph 3 3 syn = [((1, 2), (-1, 2), Some 1); ((3, 2), (5, 2), Some 1); ((1, 2), (3, 2), Some 1); ((-1, 2), (5, 2), Some 0)])
    by (vm_compute; reflexivity).
  assert (Egd : dual_graph 3 3 syn = [((0, 1), (0, -1), Some 1)]) by (vm_compute; reflexivity).
  assert (Enp : primal_nodes 3 3 syn = [(1, 2); (3, 2); (-1, 2); (5, 2)]) by (vm_compute; reflexivity).
  assert (End_ : dual_nodes 3 3 syn = [(0, 1); (0, -1)]) by (vm_compute; reflexivity).
  assert (Le : length e = 26%nat) by (vm_compute; reflexivity).
  assert (Wx : Z.of_nat (xweight 3 3 e) <= tcap 3 3) by (vm_compute; discriminate).
  assert (Wz : Z.of_nat (zweight 3 3 e) <= tcap 3 3) by (vm_compute; discriminate).
  assert (Pp : perfect_in (primal_graph 3 3 syn) (primal_nodes 3 3 syn) mwp).
  { rewrite Egp, Enp. split; [apply Permutation_refl|]. intros a b w Hin. cbn in Hin.
    destruct Hin as [E|[E|[]]]; injection E as <- <- <-; cbn; auto 10. }
  assert (Pd : perfect_in (dual_graph 3 3 syn) (dual_nodes 3 3 syn) mwd).
  { rewrite Egd, End_. split; [apply Permutation_refl|]. intros a b w Hin. cbn in Hin.
    destruct Hin as [E|[]]; injection E as <- <- <-; cbn; auto 10. }
  assert (Mp : min_perfect_in (primal_graph 3 3 syn) (primal_nodes 3 3 syn) mwp).
  { split; [exact Pp|]. intros mw' H'. change (wtotal mwp) with 1.
    apply (perfect_lower_bound (primal_graph 3 3 syn) (primal_nodes 3 3 syn) (1, 2)); auto.
    - rewrite Egp. intros x y w Hin. cbn in Hin. destruct Hin as [E|[E|[E|[E|[]]]]]; injection E as <- <- <-; lia.
    - rewrite Egp. intros x y w Hin. cbn in Hin.
      destruct Hin as [E|[E|[E|[E|[]]]]]; injection E as <- <- <-; intros [D|D]; try discriminate D; lia.
    - rewrite Enp. cbn; auto. }
  assert (Md : min_perfect_in (dual_graph 3 3 syn) (dual_nodes 3 3 syn) mwd).
  { split; [exact Pd|]. intros mw' H'. change (wtotal mwd) with 1.
    apply (perfect_lower_bound (dual_graph 3 3 syn) (dual_nodes 3 3 syn) (0, 1)); auto.
    - rewrite Egd. intros x y w Hin. cbn in Hin. destruct Hin as [E|[]]; injection E as <- <- <-; lia.
    - rewrite Egd. intros x y w Hin. cbn in Hin. destruct Hin as [E|[]]; injection E as <- <- <-; intros _; lia.
    - rewrite End_. cbn; auto. }
  split; [exact Egp|]. split; [exact Egd|]. split; [exact Le|]. split; [exact Wx|]. split; [exact Wz|].
  split; [exact Mp|]. split; [exact Md|]. split.
  - rewrite Egp, Enp. split.
    + cbn. apply perm_skip. apply perm_swap.
    + intros a b w Hin. cbn in Hin. destruct Hin as [E|[E|[]]]; injection E as <- <- <-; cbn; auto 10.
  - destruct (planar_mwpm_corrects 3 3 ltac:(lia) ltac:(lia) e mwp mwd Le Wx Wz Mp Md) as (r & R1 & _ & _ & R4). eauto.
Qed.

Print Assumptions planar_mwpm_corrects.
Print Assumptions planar_mwpm_corrects_mates.
Print Assumptions planar_mwpm_corrects_all.
Print Assumptions planar_mwpm_decode_corrects.
Print Assumptions planar_mwpm_corrects_ex.
