(* Decoders/PlanarMwpmCorrect.v — C14 for the planar MWPM decoder, ALL sizes:
   every error whose X part and Z part each have at most t = (min(rows, cols) - 1) / 2 qubits is corrected, up to a
   product of stabilizers, by the recovery built from ANY pair of minimum-weight perfect matchings of the decoder's
   two graphs (Decoders/MwpmGraph.planar_graph).  The matcher is not modelled: "perfect, drawn from the graph, of
   minimum total weight among such" is a hypothesis on its answer (its contract, as in C13).

   A matching is given with the weight of each of its edges ([wmates]); [drawn] says that every triple is an edge of
   the graph with exactly that weight (in either orientation), so the total is the weight the matcher minimises.

   Proof: (1) [cheap_matching]: the defects of one lattice admit a perfect matching of the decoder's graph of total
   weight <= the number of qubits in the corresponding part of the error (one elementary pair per qubit —
   PlanarErrPairs.error_pairs — then MatchBound.matching_from_pairs with the taxi-cab metric, the boundary distance
   and the nearest-virtual-node key; the unused virtual nodes are paired off with weight 0);
   (2) hence the minimum-weight matching weighs <= t and so does each part of the recovery (weight of a path <= its
   distance); (3) recovery xor error commutes with every stabilizer and its X part and Z part have <= 2t < min(rows,
   cols) qubits, so it is a product of stabilizers (PlanarErrPairs.light_commuting_in_span). *)
From Coq Require Import ZArith List Bool Lia ZifyBool Permutation.
From QV Require Import Core.Bits Core.Pauli Core.Symp Core.Code Core.Span App.RunOnce Generated.LatticeArith
  Lattice.Planar Lattice.PlanarAll Lattice.PlanarDistAll Decoders.Naive Decoders.Checker Decoders.MwpmRel
  Decoders.PlanarMwpm Decoders.MwpmGraph Decoders.MatchBound Decoders.PlanarErrPairs.
Import ListNotations.
Open Scope Z_scope.
Ltac Zify.zify_post_hook ::= Z.to_euclidean_division_equations.

(* a matching with the weight of each edge *)
Notation wmates := (list (idx * idx * Z)).
Definition unw (mw : wmates) : mates := map fst mw.
Definition wtotal (mw : wmates) : Z := fold_right (fun t acc => snd t + acc) 0 mw.
(* every edge of the matching is an edge of the graph, with that weight *)
Definition drawn (g : list wedge) (mw : wmates) : Prop :=
  forall a b w, In (a, b, w) mw -> In (a, b, Some w) g \/ In (b, a, Some w) g.
Definition perfect_in (g : list wedge) (nodes : list idx) (mw : wmates) : Prop :=
  Permutation (ends2 (unw mw)) nodes /\ drawn g mw.
Definition min_perfect_in (g : list wedge) (nodes : list idx) (mw : wmates) : Prop :=
  perfect_in g nodes mw /\ forall mw', perfect_in g nodes mw' -> wtotal mw <= wtotal mw'.

(* pairing off a list *)
Fixpoint pairup {A} (l : list A) : list (A * A) :=
  match l with
  | x :: r => match r with y :: r' => (x, y) :: pairup r' | [] => [] end
  | [] => []
  end.
Lemma pairup_ends {A} : forall (j : nat) (l : list A), length l = (2 * j)%nat -> ends2 (pairup l) = l.
Proof.
  induction j as [|j IH]; intros l H.
  - destruct l; [reflexivity|cbn in H; lia].
  - destruct l as [|x [|y l]]; cbn in H; try lia. cbn [pairup ends2 flat_map fst snd app]. fold (ends2 (pairup l)).
    rewrite IH by lia. reflexivity.
Qed.
Lemma pairup_in {A} : forall (n : nat) (l : list A), (length l <= n)%nat -> forall x y, In (x, y) (pairup l) ->
  In x l /\ In y l /\ (NoDup l -> x <> y).
Proof.
  induction n as [|n IH]; intros l H x y Hin.
  - destruct l; [destruct Hin|cbn in H; lia].
  - destruct l as [|a [|b l]]; try (now destruct Hin). cbn in H. cbn [pairup] in Hin. destruct Hin as [E|Hin].
    + injection E as <- <-. split; [cbn; auto|]. split; [cbn; auto|]. intros Hnd. inversion Hnd as [|? ? Hn _]; subst.
      intros ->. apply Hn. cbn; auto.
    + destruct (IH l ltac:(lia) x y Hin) as (H1 & H2 & H3). split; [cbn; auto|]. split; [cbn; auto|].
      intros Hnd. apply H3. inversion Hnd as [|? ? _ Hnd']; subst. now inversion Hnd'.
Qed.
Lemma NoDup_dedup l : NoDup (dedup l).
Proof.
  induction l as [|a l IH]; cbn; [constructor|]. destruct (existsb (zeqb2 a) l) eqn:E; [exact IH|].
  constructor; [|exact IH]. intros H. apply in_dedup' in H.
  assert (existsb (zeqb2 a) l = true) by (apply existsb_exists; exists a; split; [exact H|apply zeqb2_refl]). congruence.
Qed.
Lemma split_by_filter (u l : list idx) : NoDup l -> NoDup u -> incl u l ->
  Permutation (u ++ filter (fun v => negb (existsb (zeqb2 v) u)) l) l.
Proof.
  intros Hl Hu Hi. apply NoDup_Permutation; [| exact Hl |].
  - apply NoDup_app_disj; [exact Hu|now apply NoDup_filter|]. intros x H1 H2. apply filter_In in H2. destruct H2 as [_ H2].
    assert (existsb (zeqb2 x) u = true) by (apply existsb_exists; exists x; split; [exact H1|apply zeqb2_refl]).
    rewrite H in H2. discriminate.
  - intros x. rewrite in_app_iff, filter_In. split; [intros [H|[H _]]; auto|]. intros H.
    destruct (existsb (zeqb2 x) u) eqn:E; [|right; auto]. left. apply existsb_exists in E. destruct E as (y & Hy & E).
    apply zeqb2_eq in E. now subst.
Qed.
Lemma select_map_filter {A} (f : A -> bool) : forall l, select (map f l) l = filter f l.
Proof. induction l as [|a l IH]; cbn; auto. destruct (f a); now rewrite IH. Qed.
Lemma ends2_neq {A} (P : list (A * A)) a b : NoDup (ends2 P) -> In (a, b) P -> a <> b.
Proof.
  induction P as [|p P IH]; intros Hnd Hin; [destruct Hin|]. destruct Hin as [E|Hin].
  - subst p. cbn in Hnd. inversion Hnd as [|? ? Hn _]; subst. intros ->. apply Hn. cbn; auto.
  - apply IH; auto. cbn in Hnd. inversion Hnd as [|? ? _ Hnd']; subst. now inversion Hnd'.
Qed.
Lemma ends2_in {A} (P : list (A * A)) a b : In (a, b) P -> In a (ends2 P) /\ In b (ends2 P).
Proof. intros H. unfold ends2. rewrite !in_flat_map. split; exists (a, b); cbn; auto. Qed.
Lemma wtotal_app m1 m2 : wtotal (m1 ++ m2) = wtotal m1 + wtotal m2.
Proof. induction m1 as [|t m IH]; [reflexivity|]. cbn [app wtotal fold_right]. fold (wtotal (m ++ m2)). fold (wtotal m). lia. Qed.

Section Correct.
Variables rows cols : Z.
Hypothesis Hr : 2 <= rows.
Hypothesis Hc : 2 <= cols.
Notation N := (planar_n rows cols).
Notation PI := (plaquette_indices rows cols).
Notation inb := (planar_is_in_bounds rows cols).
Notation STABS := (stabs (planar_code rows cols)).
Notation stabq := (stab rows cols).
Notation vn := (vnode rows cols).

(* ------------------------------------------------------------------ *)
(** * The metric (in half-steps: twice the decoder's distance)         *)
(* ------------------------------------------------------------------ *)
Definition bd2 (pr : bool) (a : idx) : Z :=
  if pr then Z.min (Z.abs (fst a + 1)) (Z.abs (2 * rows - 1 - fst a))
  else Z.min (Z.abs (snd a + 1)) (Z.abs (2 * cols - 1 - snd a)).
Definition d2 (pr : bool) (x y : option idx) : Z :=
  match x, y with
  | Some a, Some b => Z.abs (fst a - fst b) + Z.abs (snd a - snd b)
  | Some a, None => bd2 pr a
  | None, Some b => bd2 pr b
  | None, None => 0
  end.
(* the nearest virtual plaquette, as a total function *)
Definition vk (pr : bool) (a : idx) : idx :=
  if pr then ((if fst a + 1 <=? 2 * rows - 1 - fst a then -1 else 2 * rows - 1), snd a)
  else (fst a, (if snd a + 1 <=? 2 * cols - 1 - snd a then -1 else 2 * cols - 1)).

Lemma d2_nonneg pr x y : 0 <= d2 pr x y.
Proof. destruct x as [a|], y as [b|]; unfold d2, bd2; destruct pr; lia. Qed.
Lemma d2_sym pr x y : d2 pr x y = d2 pr y x.
Proof. destruct x as [a|], y as [b|]; unfold d2; lia. Qed.
Lemma d2_tri pr x a y : d2 pr x y <= d2 pr x (Some a) + d2 pr (Some a) y.
Proof. destruct x as [x|], y as [y|]; unfold d2, bd2; destruct pr; lia. Qed.
Lemma vk_merge pr a b : vk pr a = vk pr b -> d2 pr (Some a) (Some b) <= d2 pr (Some a) None + d2 pr (Some b) None.
Proof.
  unfold vk, d2, bd2. destruct a as [ar ac], b as [br bc]. cbn [fst snd]. destruct pr.
  - destruct (ar + 1 <=? 2 * rows - 1 - ar) eqn:E1, (br + 1 <=? 2 * rows - 1 - br) eqn:E2; intros H; pose proof (f_equal fst H) as H1; pose proof (f_equal snd H) as H2; cbn [fst snd] in H1, H2; lia.
  - destruct (ac + 1 <=? 2 * cols - 1 - ac) eqn:E1, (bc + 1 <=? 2 * cols - 1 - bc) eqn:E2; intros H; pose proof (f_equal fst H) as H1; pose proof (f_equal snd H) as H2; cbn [fst snd] in H1, H2; lia.
Qed.

Lemma vn_vk pr q : In q PI -> planar_is_primal q = pr -> vn q = vk pr q.
Proof.
  intros Hq Hp. unfold vnode. rewrite (planar_virtual_nearest rows cols Hr Hc q Hq), Hp. unfold vk. destruct pr.
  - destruct ((fst q + 1) / 2 <=? (2 * rows - 1 - fst q) / 2) eqn:E1, (fst q + 1 <=? 2 * rows - 1 - fst q) eqn:E2;
      try reflexivity; lia.
  - destruct ((snd q + 1) / 2 <=? (2 * cols - 1 - snd q) / 2) eqn:E1, (snd q + 1 <=? 2 * cols - 1 - snd q) eqn:E2;
      try reflexivity; lia.
Qed.

(* the decoder's weights *)
Definition hd2 (a b : idx) : Z := Z.abs (fst b - fst a) / 2 + Z.abs (snd b - snd a) / 2.
Lemma hd2_d2 pr a b : In a PI -> planar_is_primal a = pr -> In b PI -> planar_is_primal b = pr ->
  2 * hd2 a b = d2 pr (Some a) (Some b).
Proof.
  intros Ha Pa Hb Pb. apply in_plaquette_indices in Ha, Hb; auto. destruct Ha as [Ha _], Hb as [Hb _].
  rewrite plaq_unfold in Ha, Hb. rewrite primal_unfold in Pa, Pb. unfold hd2, d2. destruct a as [ar ac], b as [br bc].
  cbn [fst snd] in *. destruct pr; lia.
Qed.
Lemma hd2_bd2 pr a : In a PI -> planar_is_primal a = pr -> 2 * hd2 a (vn a) = d2 pr (Some a) None.
Proof.
  intros Ha Pa. rewrite (vn_vk pr a Ha Pa). apply in_plaquette_indices in Ha; auto. destruct Ha as [Ha Hi].
  rewrite plaq_unfold in Ha. rewrite primal_unfold in Pa. rewrite inb_unfold in Hi. unfold hd2, d2, bd2, vk.
  destruct a as [ar ac]. cbn [fst snd] in *. destruct pr; cbn [fst snd].
  - destruct (ar + 1 <=? 2 * rows - 1 - ar) eqn:E; lia.
  - destruct (ac + 1 <=? 2 * cols - 1 - ac) eqn:E; lia.
Qed.

(* ------------------------------------------------------------------ *)
(** * Elementary pairs as pairs of abstract nodes                      *)
(* ------------------------------------------------------------------ *)
Definition nd (a : idx) : option idx := if inb a then Some a else None.
Definition npair (p : idx * idx) : option idx * option idx := (nd (fst p), nd (snd p)).

Lemma sends_facts pr s : isite rows cols s ->
  (forall x, x = fst (sends pr s) \/ x = snd (sends pr s) -> inb x = true -> In x PI /\ planar_is_primal x = pr) /\
  d2 pr (nd (fst (sends pr s))) (nd (snd (sends pr s))) <= 2.
Proof.
  intros [Hs Hi]. rewrite site_unfold in Hs. rewrite inb_unfold in Hi. destruct s as [sr sc]. cbn [fst snd] in *.
  split.
  - intros x Hx Hix. rewrite in_plaquette_indices by auto. rewrite plaq_unfold, primal_unfold.
    unfold sends, vpair, hpair in Hx. cbn [fst snd] in Hx.
    destruct pr; destruct (sr mod 2 =? 0) eqn:E; cbn [fst snd] in Hx; destruct Hx as [-> | ->]; cbn [fst snd];
      (split; [split; [lia|exact Hix]|lia]).
  - unfold nd, sends, vpair, hpair. cbn [fst snd].
    destruct pr; destruct (sr mod 2 =? 0) eqn:E; cbn [fst snd];
      match goal with |- d2 _ (if inb ?a then _ else _) (if inb ?b then _ else _) <= _ =>
        destruct (inb a) eqn:Ia, (inb b) eqn:Ib; rewrite inb_unfold in Ia, Ib; cbn [fst snd] in Ia, Ib;
        unfold d2, bd2; cbn [fst snd]; lia end.
Qed.

Lemma par_rend_nd q a : inb q = true -> par idx zeqb2 q (rend idx (nd a)) = zeqb2 q a.
Proof.
  intros Hq. unfold nd. destruct (inb a) eqn:Ia; cbn [rend par xsumb].
  - apply xorb_false_r.
  - symmetry. now apply (zeqb2_inb_neq rows cols).
Qed.
Lemma par_rends_npairs q L : inb q = true -> par idx zeqb2 q (rends idx (map npair L)) = pairpar q L.
Proof.
  intros Hq. induction L as [|p L IH]; [reflexivity|]. cbn [map]. rewrite rends_cons, !par_app, IH.
  unfold npair. cbn [fst snd]. rewrite !par_rend_nd by auto. reflexivity.
Qed.
Lemma in_rends_npairs q L : In q (rends idx (map npair L)) ->
  inb q = true /\ exists p, In p L /\ (q = fst p \/ q = snd p).
Proof.
  induction L as [|p L IH]; [intros []|]. cbn [map]. rewrite rends_cons, !in_app_iff. intros [[H|H]|H].
  - unfold npair, nd in H. cbn [fst] in H. destruct (inb (fst p)) eqn:E; [|destruct H]. destruct H as [<-|[]].
    split; auto. exists p. cbn; auto.
  - unfold npair, nd in H. cbn [snd] in H. destruct (inb (snd p)) eqn:E; [|destruct H]. destruct H as [<-|[]].
    split; auto. exists p. cbn; auto.
  - destruct (IH H) as (H1 & p' & H2 & H3). split; auto. exists p'. cbn; auto.
Qed.
Lemma cost_npairs pr L : (forall p, In p L -> exists s, isite rows cols s /\ p = sends pr s) ->
  cost idx (d2 pr) (map npair L) <= 2 * Z.of_nat (length L).
Proof.
  induction L as [|p L IH]; intros H; [cbn; lia|]. cbn [map]. rewrite cost_cons. cbn [length].
  destruct (H p ltac:(cbn; auto)) as (s & Hs & ->). destruct (sends_facts pr s Hs) as [_ Hd].
  specialize (IH ltac:(intros; apply H; cbn; auto)). unfold npair at 1 2. cbn [fst snd]. lia.
Qed.

(* ------------------------------------------------------------------ *)
(** * From a proper matching of the defects to a perfect matching of the decoder's graph *)
(* ------------------------------------------------------------------ *)
Section OneLattice.
Variable pr : bool.
Variable ds : list idx.
Variable extra : idx.
Hypothesis Hds : forall q, In q ds -> In q PI /\ planar_is_primal q = pr.
Hypothesis Hnd : NoDup ds.
Hypothesis Hex : inb extra = false.
Hypothesis Hexs : ~ instrip rows cols extra.
Notation G := (planar_graph rows cols ds extra).
Notation VN := (vnodes rows cols ds extra).

Lemma NoDup_vnodes : NoDup VN.
Proof.
  unfold vnodes. apply NoDup_app_disj; [apply NoDup_dedup| |].
  - destruct (Nat.odd _); repeat constructor. intros [].
  - intros x H1 H2. destruct (Nat.odd _); [|destruct H2]. destruct H2 as [<-|[]].
    apply in_dedup' in H1. apply in_map_iff in H1. destruct H1 as (d & E & Hd). destruct (Hds d Hd) as [HPI _].
    destruct (defect_facts rows cols Hr Hc d HPI) as (_ & _ & _ & _ & _ & S & _). rewrite E in S. contradiction.
Qed.
Lemma vnodes_parity : exists k : nat, (length ds + length VN = 2 * k)%nat.
Proof.
  unfold vnodes. rewrite app_length. set (vs := dedup (map vn ds)). destruct (Nat.odd (length ds + length vs)) eqn:E.
  - apply Nat.odd_spec in E. destruct E as (m & Hm). exists (S m). cbn [length]. lia.
  - assert (E' : Nat.even (length ds + length vs) = true) by (rewrite <- Nat.negb_odd, E; reflexivity).
    apply Nat.even_spec in E'. destruct E' as (m & Hm). exists m. cbn [length]. lia.
Qed.

Definition rest (Sg : list idx) : list idx := filter (fun v => negb (existsb (zeqb2 v) (map vn Sg))) VN.
Definition mw_pairs (P : list (idx * idx)) : wmates := map (fun p => (fst p, snd p, hd2 (fst p) (snd p))) P.
Definition mw_singles (Sg : list idx) : wmates := map (fun a => (a, vn a, hd2 a (vn a))) Sg.
Definition mw_rest (Sg : list idx) : wmates := map (fun p => (fst p, snd p, 0)) (pairup (rest Sg)).
Definition mw_of (P : list (idx * idx)) (Sg : list idx) : wmates := mw_pairs P ++ mw_singles Sg ++ mw_rest Sg.

Lemma unw_map_pairs (f : idx * idx -> Z) P : unw (map (fun p => (fst p, snd p, f p)) P) = P.
Proof. unfold unw. rewrite map_map. cbn [fst]. rewrite <- (map_id P) at 2. apply map_ext. now intros [a b]. Qed.
Lemma ends2_length {A} (P : list (A * A)) : length (ends2 P) = (2 * length P)%nat.
Proof. induction P as [|p P IH]; [reflexivity|]. cbn [ends2 flat_map app length]. fold (ends2 P). lia. Qed.
Lemma ends_singles Sg : Permutation (ends2 (unw (mw_singles Sg))) (Sg ++ map vn Sg).
Proof.
  induction Sg as [|a Sg IH]; [constructor|]. cbn [mw_singles map unw ends2 flat_map fst snd app].
  fold (mw_singles Sg). fold (unw (mw_singles Sg)). fold (ends2 (unw (mw_singles Sg))).
  apply perm_skip. rewrite IH. apply Permutation_middle.
Qed.

Theorem graph_matching_of P Sg : Permutation (ends2 P ++ Sg) ds -> NoDup (map (vk pr) Sg) ->
  perfect_in G (lattice_nodes rows cols ds extra) (mw_of P Sg) /\
  2 * wtotal (mw_of P Sg) = pcost idx (d2 pr) P + scost idx (d2 pr) Sg.
Proof.
  intros Pm Hk.
  assert (NdPS : NoDup (ends2 P ++ Sg)) by (eapply Permutation_NoDup; [apply Permutation_sym; exact Pm|exact Hnd]).
  assert (HinP : forall a b, In (a, b) P -> In a ds /\ In b ds /\ a <> b).
  { intros a b Hab. destruct (ends2_in P a b Hab) as [Ha Hb].
    split; [eapply Permutation_in; [exact Pm|apply in_app_iff; auto]|].
    split; [eapply Permutation_in; [exact Pm|apply in_app_iff; auto]|].
    apply (ends2_neq P); auto. eapply NoDup_app_l; eauto. }
  assert (HinS : forall a, In a Sg -> In a ds) by (intros a Ha; eapply Permutation_in; [exact Pm|apply in_app_iff; auto]).
  assert (Evn : map vn Sg = map (vk pr) Sg).
  { apply map_ext_in. intros a Ha. destruct (Hds a (HinS a Ha)). now apply vn_vk. }
  assert (Hu : NoDup (map vn Sg)) by now rewrite Evn.
  assert (Hi : incl (map vn Sg) VN).
  { intros v Hv. apply in_map_iff in Hv. destruct Hv as (a & <- & Ha). unfold vnodes. apply in_app_iff. left.
    apply dedup_in, in_map, HinS, Ha. }
  pose proof (split_by_filter (map vn Sg) VN NoDup_vnodes Hu Hi) as Prest. fold (rest Sg) in Prest.
  assert (Hev : exists j : nat, length (rest Sg) = (2 * j)%nat).
  { destruct vnodes_parity as (k & Hk'). pose proof (Permutation_length Pm) as L1. pose proof (Permutation_length Prest) as L2.
    rewrite app_length in L1, L2. rewrite ends2_length in L1. rewrite map_length in L2.
    exists (k - length P - length Sg)%nat. lia. }
  destruct Hev as (j & Hj).
  split; [split|].
  - rewrite lattice_nodes_vnodes. unfold mw_of, unw. rewrite !map_app, !ends2_app.
    change (map fst (mw_pairs P)) with (unw (mw_pairs P)). change (map fst (mw_singles Sg)) with (unw (mw_singles Sg)).
    change (map fst (mw_rest Sg)) with (unw (mw_rest Sg)).
    unfold mw_pairs, mw_rest. rewrite !unw_map_pairs, (pairup_ends j _ Hj), ends_singles.
    apply Permutation_trans with ((ends2 P ++ Sg) ++ (map vn Sg ++ rest Sg)); [rewrite <- !app_assoc; reflexivity|].
    now apply Permutation_app.
  - intros a b w Hin. unfold mw_of in Hin. rewrite !in_app_iff in Hin. destruct Hin as [Hin|[Hin|Hin]].
    + apply in_map_iff in Hin. destruct Hin as ([x y] & E & Hxy). cbn [fst snd] in E. injection E as <- <- <-.
      destruct (HinP x y Hxy) as (Hx & Hy & Hne). exact (graph_complete rows cols Hr Hc ds extra pr Hds x y Hx Hy Hne).
    + apply in_map_iff in Hin. destruct Hin as (x & E & Hx). injection E as <- <- <-. left.
      exact (graph_boundary_edges rows cols Hr Hc ds extra pr Hds x (HinS x Hx)).
    + apply in_map_iff in Hin. destruct Hin as ([x y] & E & Hxy). cbn [fst snd] in E. injection E as <- <- <-.
      destruct (pairup_in (length (rest Sg)) (rest Sg) (le_n _) x y Hxy) as (Hx & Hy & Hne).
      assert (Nr : NoDup (rest Sg)) by (apply NoDup_filter, NoDup_vnodes).
      apply filter_In in Hx, Hy. destruct Hx as [Hx _], Hy as [Hy _].
      unfold planar_graph.
      destruct (pairs_complete VN x y Hx Hy (Hne Nr)) as [H|H]; [left|right]; apply in_app_iff; right; apply in_app_iff; right;
        apply in_map_iff; [exists (x, y)|exists (y, x)]; auto.
  - unfold mw_of. rewrite !wtotal_app.
    assert (W1 : 2 * wtotal (mw_pairs P) = pcost idx (d2 pr) P).
    { clear Pm NdPS. induction P as [|[x y] P' IH]; [reflexivity|].
      cbn [mw_pairs map wtotal fold_right snd fst]. fold (mw_pairs P'). fold (wtotal (mw_pairs P')). rewrite pcost_cons. cbn [fst snd].
      destruct (HinP x y ltac:(cbn; auto)) as (Hx & Hy & _). destruct (Hds x Hx), (Hds y Hy).
      rewrite <- (hd2_d2 pr x y) by auto. rewrite <- IH by (intros; apply HinP; cbn; auto). lia. }
    assert (W2 : 2 * wtotal (mw_singles Sg) = scost idx (d2 pr) Sg).
    { clear Pm NdPS Hk Evn Hu Hi Prest Hj. induction Sg as [|x Sg' IH]; [reflexivity|].
      cbn [mw_singles map wtotal fold_right snd fst]. fold (mw_singles Sg'). fold (wtotal (mw_singles Sg')). rewrite scost_cons.
      destruct (Hds x (HinS x ltac:(cbn; auto))). rewrite <- (hd2_bd2 pr x) by auto.
      rewrite <- IH by (intros; apply HinS; cbn; auto). lia. }
    assert (W3 : wtotal (mw_rest Sg) = 0).
    { unfold mw_rest. induction (pairup (rest Sg)) as [|p l IH]; [reflexivity|]. cbn [map wtotal fold_right snd].
      fold (wtotal (map (fun p0 : idx * idx => (fst p0, snd p0, 0)) l)). rewrite IH. reflexivity. }
    lia.
Qed.
End OneLattice.
End Correct.
