(* Decoders/MatchingMin.v — the minimum weight over all perfect matchings WITHOUT materialising the list of perfect
   matchings: `minw` follows the recursion of the exhaustive enumerator `pms` (Decoders/Matching.v: the first uncovered node
   is matched first) and keeps only the running minimum, `cnt` keeps only the number.  Both are proved equal to what the
   enumeration gives, so `is_min_pm_fast` decides exactly what `is_min_pm` decides (same specification, same boolean) but in
   constant space: the checker for DENSE graphs (complete graphs on 12-16 nodes, K_{8,8}) where all_pms has 10^4 - 2*10^6
   elements.  Weights are arbitrary rationals: nothing here assumes a sign. *)
From Coq Require Import Arith List Bool Lia QArith Permutation NArith.
From QV Require Import Decoders.Matching.
Import ListNotations.
Open Scope nat_scope.

Definition omin (a b : option Q) : option Q :=
  match a, b with
  | Some x, Some y => Some (qmin x y)
  | Some x, None => Some x
  | None, y => y
  end.

Fixpoint minw (g : graph) (fuel : nat) (ns : list nat) : option Q :=
  match fuel with
  | O => match ns with [] => Some 0%Q | _ => None end
  | S f =>
    match ns with
    | [] => Some 0%Q
    | a :: rest =>
        fold_left (fun acc b => omin acc (match edge g a b with
                                          | Some w => option_map (Qplus w) (minw g f (remove1 b rest))
                                          | None => None end)) rest None
    end
  end.

Fixpoint cnt (g : graph) (fuel : nat) (ns : list nat) : N :=
  match fuel with
  | O => match ns with [] => 1%N | _ => 0%N end
  | S f =>
    match ns with
    | [] => 1%N
    | a :: rest =>
        fold_left (fun acc b => (acc + match edge g a b with Some _ => cnt g f (remove1 b rest) | None => 0 end)%N) rest 0%N
    end
  end.

(* R g o ms: o is the least weight of the matchings ms (None iff there is none); attained with Leibniz equality *)
Definition R (g : graph) (o : option Q) (ms : list matching) : Prop :=
  (forall w, o = Some w -> exists m, In m ms /\ weight g m = w) /\
  (forall m, In m ms -> exists w, o = Some w /\ (w <= weight g m)%Q).

Lemma qmin_cases a b : (qmin a b = a /\ (a <= b)%Q) \/ (qmin a b = b /\ (b <= a)%Q).
Proof.
  unfold qmin. destruct (Qle_bool a b) eqn:E.
  - left. split; auto. now apply Qle_bool_iff.
  - right. split; auto. destruct (Qlt_le_dec b a) as [L|L]; [now apply Qlt_le_weak|].
    apply Qle_bool_iff in L. congruence.
Qed.

Lemma R_nil g : R g None [].
Proof. split; [discriminate|intros m []]. Qed.

Lemma R_app g o1 o2 ms1 ms2 : R g o1 ms1 -> R g o2 ms2 -> R g (omin o1 o2) (ms1 ++ ms2).
Proof.
  intros [A1 L1] [A2 L2]. split.
  - intros w Hw. destruct o1 as [x|], o2 as [y|]; cbn in Hw; try discriminate.
    + injection Hw as <-. destruct (qmin_cases x y) as [[-> _]|[-> _]].
      * destruct (A1 x eq_refl) as (m & Hm & E). exists m. split; auto. apply in_or_app. auto.
      * destruct (A2 y eq_refl) as (m & Hm & E). exists m. split; auto. apply in_or_app. auto.
    + destruct (A1 w Hw) as (m & Hm & E). exists m. split; auto. apply in_or_app. auto.
    + destruct (A2 w Hw) as (m & Hm & E). exists m. split; auto. apply in_or_app. auto.
  - intros m Hm. apply in_app_or in Hm. destruct Hm as [Hm|Hm].
    + destruct (L1 m Hm) as (x & -> & Hx). destruct o2 as [y|]; cbn.
      * exists (qmin x y). split; auto. destruct (qmin_cases x y) as [[-> _]|[-> H]]; auto. eapply Qle_trans; eauto.
      * exists x. auto.
    + destruct (L2 m Hm) as (y & -> & Hy). destruct o1 as [x|]; cbn.
      * exists (qmin x y). split; auto. destruct (qmin_cases x y) as [[-> H]|[-> _]]; auto. eapply Qle_trans; eauto.
      * exists y. auto.
Qed.

Lemma weight_cons g a b m w : edge g a b = Some w -> weight g ((a, b) :: m) = (w + weight g m)%Q.
Proof. intros H. unfold weight at 1. cbn [fold_right]. unfold wt at 1. cbn [fst snd]. rewrite H. reflexivity. Qed.

Lemma R_cons g a b w o ms : edge g a b = Some w -> R g o ms -> R g (option_map (Qplus w) o) (map (cons (a, b)) ms).
Proof.
  intros He [A L]. split.
  - intros x Hx. destruct o as [y|]; cbn in Hx; [|discriminate]. injection Hx as <-.
    destruct (A y eq_refl) as (m & Hm & E). exists ((a, b) :: m). split; [now apply in_map|].
    rewrite (weight_cons g a b m w He). now rewrite E.
  - intros m Hm. apply in_map_iff in Hm. destruct Hm as (m0 & <- & Hm0).
    destruct (L m0 Hm0) as (y & -> & Hy). exists (w + y)%Q. split; auto.
    rewrite (weight_cons g a b m0 w He). apply Qplus_le_compat; [apply Qle_refl|auto].
Qed.

Lemma R_fold g (F : nat -> option Q) (G : nat -> list matching) :
  forall l, (forall b, In b l -> R g (F b) (G b)) ->
  forall acc ms, R g acc ms -> R g (fold_left (fun acc b => omin acc (F b)) l acc) (ms ++ flat_map G l).
Proof.
  induction l as [|b l IH]; intros HF acc ms Hacc; cbn [fold_left flat_map].
  - now rewrite app_nil_r.
  - rewrite app_assoc. apply IH.
    + intros b' Hb'. apply HF. now right.
    + apply R_app; auto. apply HF. now left.
Qed.

Theorem minw_pms g fuel : forall ns, R g (minw g fuel ns) (pms g fuel ns).
Proof.
  induction fuel as [|f IH]; intros ns.
  - destruct ns; cbn.
    + split; [intros w H; injection H as <-; exists []; split; [now left|reflexivity]|].
      intros m [<-|[]]. exists 0%Q. split; auto. apply Qle_refl.
    + apply R_nil.
  - destruct ns as [|a rest]; cbn [minw pms].
    + split; [intros w H; injection H as <-; exists []; split; [now left|reflexivity]|].
      intros m [<-|[]]. exists 0%Q. split; auto. apply Qle_refl.
    + change (pms g (S f) (a :: rest)) with
        (flat_map (fun b => match edge g a b with
                            | Some _ => map (cons (a, b)) (pms g f (remove1 b rest)) | None => [] end) rest).
      rewrite <- (app_nil_l (flat_map _ rest)).
      apply (R_fold g (fun b => match edge g a b with
                                | Some w => option_map (Qplus w) (minw g f (remove1 b rest)) | None => None end)
                      (fun b => match edge g a b with
                                | Some _ => map (cons (a, b)) (pms g f (remove1 b rest)) | None => [] end)).
      * intros b _. destruct (edge g a b) as [w|] eqn:E; [|apply R_nil]. apply R_cons; auto.
      * apply R_nil.
Qed.

Lemma cnt_fold (F : nat -> N) (G : nat -> list matching) :
  forall l, (forall b, In b l -> F b = N.of_nat (length (G b))) ->
  forall acc ms, acc = N.of_nat (length ms) ->
  fold_left (fun acc b => (acc + F b)%N) l acc = N.of_nat (length (ms ++ flat_map G l)).
Proof.
  induction l as [|b l IH]; intros HF acc ms Hacc; cbn [fold_left flat_map].
  - now rewrite app_nil_r.
  - rewrite app_assoc. apply IH.
    + intros b' Hb'. apply HF. now right.
    + rewrite app_length, Nat2N.inj_add, <- Hacc, (HF b); auto. now left.
Qed.

Theorem cnt_pms g fuel : forall ns, cnt g fuel ns = N.of_nat (length (pms g fuel ns)).
Proof.
  induction fuel as [|f IH]; intros ns.
  - destruct ns; reflexivity.
  - destruct ns as [|a rest]; [reflexivity|]. cbn [cnt].
    change (pms g (S f) (a :: rest)) with
        (flat_map (fun b => match edge g a b with
                            | Some _ => map (cons (a, b)) (pms g f (remove1 b rest)) | None => [] end) rest).
    rewrite <- (app_nil_l (flat_map _ rest)).
    apply (cnt_fold (fun b => match edge g a b with Some _ => cnt g f (remove1 b rest) | None => 0%N end)
                    (fun b => match edge g a b with
                              | Some _ => map (cons (a, b)) (pms g f (remove1 b rest)) | None => [] end)).
    + intros b _. destruct (edge g a b); [|reflexivity]. now rewrite map_length.
    + reflexivity.
Qed.

(* ---------- the fast checker ---------- *)
Definition min_pm_weight_fast (g : graph) : option Q := minw g (length (nodes g)) (nodes g).
Definition npms_fast (g : graph) : N := cnt g (length (nodes g)) (nodes g).
Definition is_min_pm_fast (g : graph) (m : matching) : bool :=
  is_perfect g m && match min_pm_weight_fast g with Some w => Qle_bool (weight g m) w | None => false end.

Theorem npms_fast_spec g : npms_fast g = N.of_nat (length (all_pms g)).
Proof. apply cnt_pms. Qed.

Theorem min_pm_weight_fast_spec g w : min_pm_weight_fast g = Some w ->
  (exists m, perfect g m /\ weight g m = w) /\ forall m', perfect g m' -> (w <= weight g m')%Q.
Proof.
  intros H. destruct (minw_pms g (length (nodes g)) (nodes g)) as [A L]. fold (min_pm_weight_fast g) in A, L.
  fold (all_pms g) in A, L. split.
  - destruct (A w H) as (m & Hm & E). exists m. split; auto. now apply all_pms_sound.
  - intros m' Hm'. destruct (all_pms_complete g m' Hm') as (m'' & Hin & Heq).
    rewrite (weight_meq g _ _ Heq). destruct (L m'' Hin) as (w' & E & Hle). rewrite H in E. injection E as <-. auto.
Qed.

Theorem min_pm_weight_fast_none g : min_pm_weight_fast g = None <-> forall m, ~ perfect g m.
Proof.
  destruct (minw_pms g (length (nodes g)) (nodes g)) as [A L]. fold (min_pm_weight_fast g) in A, L.
  fold (all_pms g) in A, L. split.
  - intros H m Hm. destruct (all_pms_complete g m Hm) as (m' & Hin & _). destruct (L m' Hin) as (w & E & _). congruence.
  - intros H. destruct (min_pm_weight_fast g) as [w|]; auto. destruct (A w eq_refl) as (m & Hm & _).
    exfalso. apply (H m). now apply all_pms_sound.
Qed.

Theorem is_min_pm_fast_spec g m : is_min_pm_fast g m = true <->
  perfect g m /\ forall m', perfect g m' -> (weight g m <= weight g m')%Q.
Proof.
  unfold is_min_pm_fast. rewrite andb_true_iff, is_perfect_spec. split.
  - intros [Hp Hw]. split; auto. destruct (min_pm_weight_fast g) as [w|] eqn:E; [|discriminate].
    apply Qle_bool_iff in Hw. intros m' Hm'. eapply Qle_trans; [apply Hw|]. now apply (min_pm_weight_fast_spec g w E).
  - intros [Hp Hmin]. split; auto. destruct (min_pm_weight_fast g) as [w|] eqn:E.
    + apply Qle_bool_iff. destruct (min_pm_weight_fast_spec g w E) as [(m0 & Hm0 & <-) _]. auto.
    + exfalso. apply (proj1 (min_pm_weight_fast_none g) E m Hp).
Qed.

(* the two checkers are the same boolean function *)
Theorem is_min_pm_fast_eq g m : is_min_pm_fast g m = is_min_pm g m.
Proof.
  destruct (is_min_pm_fast g m) eqn:E1, (is_min_pm g m) eqn:E2; auto.
  - apply is_min_pm_fast_spec in E1. apply is_min_pm_spec in E1. congruence.
  - apply is_min_pm_spec in E2. apply is_min_pm_fast_spec in E2. congruence.
Qed.

(* a closed instance with negative weights: the 4-cycle 0-1-2-3 with weights -3, 5, -4, 5 has two perfect matchings,
   {01,23} of weight -7 and {12,30} of weight 10 *)
Example fast_negative :
  let g := [((0, 1), (-3)%Q); ((1, 2), 5%Q); ((2, 3), (-4)%Q); ((3, 0), 5%Q)] in
  is_min_pm_fast g [(0, 1); (2, 3)] = true /\ is_min_pm_fast g [(1, 2); (3, 0)] = false /\ npms_fast g = 2%N.
Proof. vm_compute. auto. Qed.
