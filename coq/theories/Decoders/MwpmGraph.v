(* Decoders/MwpmGraph.v — the matching GRAPH that PlanarMWPMDecoder.decode / ToricMWPMDecoder.decode hand to
   qecsim.graphtools.mwpm (planar/_planarmwpmdecoder.py:60-83, toric/_toricmwpmdecoder.py:52-61), as the list of
   add_edge calls (node_a, node_b, weight) in program order:
     planar, per lattice: (defect, nearest virtual node, distance) for every defect; (a, b, distance a b) for
       itertools.combinations(defects, 2) — the COMPLETE graph on the defects; (u, v, 0) for all pairs of virtual nodes
       (including the parity-fixing extra node);
     toric, per lattice: (a, b, distance a b) for itertools.combinations(defects, 2).
   A weight None models an IndexError raised by `distance`.
   Theorems (all sizes): the graph is complete on the defects with taxi-cab weights (half the coordinate differences,
   planar), every defect is joined to its virtual node, no edge joins the extra node to a defect; hence for EVERY
   perfect matching of the node list that uses only edges of this graph the recovery reproduces the syndrome
   (planar_mwpm_syndrome without its extra_not_with_defect hypotheses). *)
From Coq Require Import ZArith List Bool Lia ZifyBool Permutation.
From QV Require Import Core.Bits Core.Pauli Core.Symp Core.Code Generated.LatticeArith
  Lattice.Planar Lattice.PlanarAll Lattice.Toric Lattice.ToricAll Decoders.MwpmRel Decoders.PlanarMwpm Decoders.ToricMwpm.
Import ListNotations.
Open Scope Z_scope.
Ltac Zify.zify_post_hook ::= Z.to_euclidean_division_equations.

(* itertools.combinations(l, 2) *)
Fixpoint pairs {A} (l : list A) : list (A * A) :=
  match l with
  | [] => []
  | a :: r => map (fun b => (a, b)) r ++ pairs r
  end.

Lemma in_pairs {A} (l : list A) : forall a b, In (a, b) (pairs l) -> In a l /\ In b l.
Proof.
  induction l as [|x l IH]; cbn; [tauto|]. intros a b H. apply in_app_iff in H. destruct H as [H|H].
  - apply in_map_iff in H. destruct H as (y & E & Hy). injection E as <- <-. auto.
  - destruct (IH a b H). auto.
Qed.
Lemma pairs_complete {A} (l : list A) : forall a b, In a l -> In b l -> a <> b -> In (a, b) (pairs l) \/ In (b, a) (pairs l).
Proof.
  induction l as [|x l IH]; cbn; [tauto|]. intros a b [Ha|Ha] [Hb|Hb] N.
  - congruence.
  - subst x. left. apply in_app_iff. left. apply in_map_iff. eauto.
  - subst x. right. apply in_app_iff. left. apply in_map_iff. eauto.
  - destruct (IH a b Ha Hb N); [left|right]; apply in_app_iff; auto.
Qed.

Notation wedge := (idx * idx * option Z)%type.
Notation twedge := (tidx * tidx * option Z)%type.

Section PlanarGraph.
Variables rows cols : Z.
Notation vn := (vnode rows cols).
Notation pdist := (Planar.distance rows cols).

(* the virtual nodes of one lattice: the set of nearest virtual nodes, plus the extra node on odd parity *)
Definition vnodes (ds : list idx) (extra : idx) : list idx :=
  let vs := dedup (map vn ds) in vs ++ (if Nat.odd (length ds + length vs) then [extra] else []).
Definition planar_graph (ds : list idx) (extra : idx) : list wedge :=
  map (fun d => (d, vn d, pdist d (vn d))) ds
  ++ map (fun p => (fst p, snd p, pdist (fst p) (snd p))) (pairs ds)
  ++ map (fun p => (fst p, snd p, Some 0)) (pairs (vnodes ds extra)).
Definition primal_graph (syn : bsf) : list wedge := planar_graph (primal_defects rows cols syn) extra_primal.
Definition dual_graph (syn : bsf) : list wedge := planar_graph (dual_defects rows cols syn) extra_dual.

Lemma lattice_nodes_vnodes ds extra : lattice_nodes rows cols ds extra = ds ++ vnodes ds extra.
Proof. reflexivity. Qed.

(* m uses only edges of g (in either orientation) *)
Definition uses (g : list wedge) (m : mates) : Prop :=
  forall a b, In (a, b) m -> exists w, In (a, b, w) g \/ In (b, a, w) g.

Hypothesis Hr : 2 <= rows.
Hypothesis Hc : 2 <= cols.
Notation inb := (planar_is_in_bounds rows cols).
Notation PI := (plaquette_indices rows cols).

Lemma in_dedup' x l : In x (dedup l) -> In x l.
Proof.
  induction l as [|a l IH]; cbn; auto. destruct (existsb (zeqb2 a) l); cbn; intros H; [auto|destruct H; auto].
Qed.

Lemma dedup_in x l : In x l -> In x (dedup l).
Proof.
  induction l as [|a l IH]; cbn; [tauto|]. destruct (existsb (zeqb2 a) l) eqn:Ex; intros [<-|H].
  - apply IH. apply existsb_exists in Ex. destruct Ex as (y & Hy & Ey). apply zeqb2_eq in Ey. now subst y.
  - auto.
  - cbn; auto.
  - cbn; auto.
Qed.

(* the three kinds of edges *)
Lemma graph_edge_cases ds extra a b w : In (a, b, w) (planar_graph ds extra) ->
  (In a ds /\ b = vn a /\ w = pdist a b) \/ (In a ds /\ In b ds /\ w = pdist a b) \/
  (In a (vnodes ds extra) /\ In b (vnodes ds extra) /\ w = Some 0).
Proof.
  unfold planar_graph. rewrite !in_app_iff, !in_map_iff. intros [H|[H|H]].
  - destruct H as (d & E & Hd). injection E as <- <- <-. left. auto.
  - destruct H as ([x y] & E & Hp). cbn [fst snd] in E. injection E as <- <- <-. apply in_pairs in Hp. right. left. tauto.
  - destruct H as ([x y] & E & Hp). cbn [fst snd] in E. injection E as <- <- <-. apply in_pairs in Hp. right. right. tauto.
Qed.

Lemma vnodes_out ds extra pr : (forall q, In q ds -> In q PI /\ planar_is_primal q = pr) -> inb extra = false ->
  forall v, In v (vnodes ds extra) -> inb v = false.
Proof.
  intros Hds Hex v Hv. unfold vnodes in Hv. apply in_app_iff in Hv. destruct Hv as [Hv|Hv].
  - apply in_dedup', in_map_iff in Hv. destruct Hv as (d & <- & Hd). destruct (Hds d Hd) as [HPI _].
    now destruct (defect_facts rows cols Hr Hc d HPI) as (_ & _ & _ & _ & _ & _ & H).
  - destruct (Nat.odd _); [|destruct Hv]. destruct Hv as [<-|[]]. exact Hex.
Qed.

(* 1. no edge of the graph joins the extra node (or any virtual node other than its own) ... to a defect:
      an edge with an out-of-lattice endpoint x and an in-lattice endpoint d is (d, vnode d) *)
Theorem graph_virtual_edges ds extra pr : (forall q, In q ds -> In q PI /\ planar_is_primal q = pr) -> inb extra = false ->
  forall a b w, In (a, b, w) (planar_graph ds extra) ->
    (inb a = true -> inb b = false -> b = vn a) /\ (inb a = false -> inb b = false /\ w = Some 0).
Proof.
  intros Hds Hex a b w H. apply graph_edge_cases in H. destruct H as [(Ha & -> & _)|[(Ha & Hb & _)|(Ha & Hb & ->)]].
  - destruct (Hds a Ha) as [HPI _]. destruct (defect_facts rows cols Hr Hc a HPI) as (_ & _ & H3 & _).
    split; [auto|congruence].
  - destruct (Hds a Ha) as [HPa _]. destruct (Hds b Hb) as [HPb _].
    destruct (defect_facts rows cols Hr Hc a HPa) as (_ & _ & Ia & _).
    destruct (defect_facts rows cols Hr Hc b HPb) as (_ & _ & Ib & _). split; congruence.
  - pose proof (vnodes_out ds extra pr Hds Hex a Ha). pose proof (vnodes_out ds extra pr Hds Hex b Hb).
    split; [congruence|auto].
Qed.

Theorem graph_extra_not_with_defect ds extra pr m : (forall q, In q ds -> In q PI /\ planar_is_primal q = pr) ->
  inb extra = false -> ~ instrip rows cols extra ->
  uses (planar_graph ds extra) m -> extra_not_with_defect rows cols extra m.
Proof.
  intros Hds Hex Hstrip Hu a b Hab. destruct (Hu a b Hab) as (w & [H|H]).
  - destruct (graph_virtual_edges ds extra pr Hds Hex _ _ _ H) as [G1 G2]. split.
    + intros ->. now destruct (G2 Hex).
    + intros ->. destruct (inb a) eqn:Ia; [|reflexivity]. exfalso. apply Hstrip. rewrite (G1 eq_refl Hex).
      apply graph_edge_cases in H. destruct H as [(Ha & _)|[(Ha & Hb & _)|(Ha & _)]].
      * destruct (Hds a Ha) as [HPI _]. now destruct (defect_facts rows cols Hr Hc a HPI) as (_ & _ & _ & _ & _ & S & _).
      * destruct (Hds _ Hb) as [HPI _]. destruct (defect_facts rows cols Hr Hc _ HPI) as (_ & _ & I & _). congruence.
      * pose proof (vnodes_out ds extra pr Hds Hex a Ha). congruence.
  - destruct (graph_virtual_edges ds extra pr Hds Hex _ _ _ H) as [G1 G2]. split.
    + intros ->. destruct (inb b) eqn:Ib; [|reflexivity]. exfalso. apply Hstrip. rewrite (G1 eq_refl Hex).
      apply graph_edge_cases in H. destruct H as [(Hb & _)|[(Hb & Ha & _)|(Hb & _)]].
      * destruct (Hds b Hb) as [HPI _]. now destruct (defect_facts rows cols Hr Hc b HPI) as (_ & _ & _ & _ & _ & S & _).
      * destruct (Hds _ Ha) as [HPI _]. destruct (defect_facts rows cols Hr Hc _ HPI) as (_ & _ & I & _). congruence.
      * pose proof (vnodes_out ds extra pr Hds Hex b Hb). congruence.
    + intros ->. now destruct (G2 Hex).
Qed.

(* 2. taxi-cab weights: the distance between two plaquettes of one lattice, at least one of them inside the lattice,
      is half the sum of the coordinate differences (plaquettes of one lattice are 2 apart) *)
Theorem distance_taxicab a b : ptype a -> ptype b -> same_type a b -> inb a = true \/ inb b = true ->
  pdist a b = Some (Z.abs (fst b - fst a) / 2 + Z.abs (snd b - snd a) / 2).
Proof.
  intros Ha Hb Hab Hin. destruct (translation_cases rows cols a b Ha Hb Hab) as (rs & cs & Ht & Hcase).
  unfold Planar.distance. rewrite Ht. f_equal. destruct Hcase as [(Ia & Ib & _)|(_ & E1 & E2)].
  - destruct Hin; congruence.
  - rewrite E1, E2. lia.
Qed.
Corollary distance_sym a b : ptype a -> ptype b -> same_type a b -> inb a = true \/ inb b = true -> pdist a b = pdist b a.
Proof.
  intros Ha Hb Hab Hin. rewrite (distance_taxicab a b), (distance_taxicab b a); auto; try tauto.
  - f_equal. lia.
  - unfold same_type in *. lia.
Qed.

(* 3. completeness: every two defects are joined, with the taxi-cab weight; every defect is joined to its virtual node *)
Theorem graph_complete ds extra pr : (forall q, In q ds -> In q PI /\ planar_is_primal q = pr) ->
  forall a b, In a ds -> In b ds -> a <> b ->
    let w := Some (Z.abs (fst b - fst a) / 2 + Z.abs (snd b - snd a) / 2) in
    In (a, b, w) (planar_graph ds extra) \/ In (b, a, w) (planar_graph ds extra).
Proof.
  intros Hds a b Ha Hb N w.
  destruct (Hds a Ha) as [HPa Pa]. destruct (Hds b Hb) as [HPb Pb].
  destruct (defect_facts rows cols Hr Hc a HPa) as (Ta & _ & Ia & _).
  destruct (defect_facts rows cols Hr Hc b HPb) as (Tb & _ & Ib & _).
  assert (Sab : same_type a b) by (apply (lat_same_type a b pr); split; auto).
  assert (Sba : same_type b a) by (unfold same_type in *; lia).
  unfold planar_graph. destruct (pairs_complete ds a b Ha Hb N) as [H|H]; [left|right];
    apply in_app_iff; right; apply in_app_iff; left; apply in_map_iff.
  - exists (a, b). cbn [fst snd]. split; auto. rewrite (distance_taxicab a b); auto.
  - exists (b, a). cbn [fst snd]. split; auto. rewrite (distance_taxicab b a); auto. unfold w. do 3 f_equal; lia.
Qed.
Theorem graph_boundary_edges ds extra pr : (forall q, In q ds -> In q PI /\ planar_is_primal q = pr) ->
  forall d, In d ds -> In (d, vn d, Some (Z.abs (fst (vn d) - fst d) / 2 + Z.abs (snd (vn d) - snd d) / 2)) (planar_graph ds extra).
Proof.
  intros Hds d Hd. destruct (Hds d Hd) as [HPI _].
  destruct (defect_facts rows cols Hr Hc d HPI) as (T & _ & I & Tv & Sv & _).
  unfold planar_graph. apply in_app_iff. left. apply in_map_iff. exists d. split; auto.
  rewrite (distance_taxicab d (vn d)); auto. unfold same_type in *. lia.
Qed.

(* 4. the node set of the graph is the node list of the model (when there is at least one defect) *)
Theorem graph_nodes ds extra x : ds <> [] ->
  (In x (lattice_nodes rows cols ds extra) <-> exists y w, In (x, y, w) (planar_graph ds extra) \/ In (y, x, w) (planar_graph ds extra)).
Proof.
  intros Hne. split.
  - rewrite lattice_nodes_vnodes, in_app_iff. intros [Hx|Hx].
    + exists (vn x), (pdist x (vn x)). left. unfold planar_graph. apply in_app_iff. left. apply in_map_iff. eauto.
    + assert (Hv : exists d, In d ds /\ (x = vn d \/ (x <> vn d /\ In (vn d) (vnodes ds extra)))).
      { destruct ds as [|d ds']; [congruence|]. exists d. split; [cbn; auto|].
        destruct (zeqb2 x (vn d)) eqn:E; [left; now apply zeqb2_eq|right]. split.
        - intros ->. now rewrite zeqb2_refl in E.
        - unfold vnodes. apply in_app_iff. left. apply dedup_in. cbn. auto. }
      destruct Hv as (d & Hd & [->|[N Hvd]]).
      * exists d, (pdist d (vn d)). right. unfold planar_graph. apply in_app_iff. left. apply in_map_iff. eauto.
      * destruct (pairs_complete _ x (vn d) Hx Hvd N) as [H|H]; exists (vn d), (Some 0); [left|right];
          unfold planar_graph; apply in_app_iff; right; apply in_app_iff; right; apply in_map_iff;
          [exists (x, vn d)|exists (vn d, x)]; cbn [fst snd]; auto.
  - intros (y & w & [H|H]); apply graph_edge_cases in H; rewrite lattice_nodes_vnodes, in_app_iff;
      destruct H as [(Ha & Hb & _)|[(Ha & Hb & _)|(Ha & Hb & _)]]; auto.
    subst x. right. unfold vnodes. apply in_app_iff. left.
    apply dedup_in, in_map; auto.
Qed.

(* 5. planar_mwpm_syndrome for matchings drawn from the model graph: no hypothesis about the extra node is left *)
Lemma not_instrip_extra_primal : ~ instrip rows cols extra_primal.
Proof. unfold instrip, extra_primal. cbn [fst snd]. lia. Qed.
Lemma not_instrip_extra_dual : ~ instrip rows cols extra_dual.
Proof. unfold instrip, extra_dual. cbn [fst snd]. lia. Qed.

Theorem planar_mwpm_syndrome_graph (syn : bsf) (mp md : mates) :
  length syn = length PI ->
  Permutation (ends2 mp) (primal_nodes rows cols syn) -> Permutation (ends2 md) (dual_nodes rows cols syn) ->
  uses (primal_graph syn) mp -> uses (dual_graph syn) md ->
  exists r, mwpm_recovery rows cols (mp ++ md) = Some r /\ length r = (planar_n rows cols + planar_n rows cols)%nat /\
            syndrome_of (stabs (planar_code rows cols)) r = syn.
Proof.
  intros HL Pp Pd Up Ud.
  assert (Dp : forall q, In q (primal_defects rows cols syn) -> In q PI /\ planar_is_primal q = true).
  { intros q Hq. apply filter_In in Hq. destruct Hq as [Hq E]. split; auto. eapply defect_in_PI; eauto. }
  assert (Dd : forall q, In q (dual_defects rows cols syn) -> In q PI /\ planar_is_primal q = false).
  { intros q Hq. apply filter_In in Hq. destruct Hq as [Hq E]. unfold planar_is_dual in E. apply negb_true_iff in E.
    split; auto. eapply defect_in_PI; eauto. }
  destruct (extra_primal_facts rows cols) as [_ Ebp]. destruct (extra_dual_facts rows cols) as [_ Ebd].
  apply planar_mwpm_syndrome; auto.
  - exact (graph_extra_not_with_defect _ extra_primal true mp Dp Ebp not_instrip_extra_primal Up).
  - exact (graph_extra_not_with_defect _ extra_dual false md Dd Ebd not_instrip_extra_dual Ud).
Qed.
End PlanarGraph.

Section ToricGraph.
Variables rows cols : Z.
Notation tdist := (Toric.tdistance rows cols).
Definition toric_graph (lattice : Z) (syn : bsf) : list twedge :=
  map (fun p => (fst p, snd p, tdist (fst p) (snd p))) (pairs (lattice_defects rows cols lattice syn)).

Hypothesis Hr : 2 <= rows.
Hypothesis Hc : 2 <= cols.

Notation inr := (inrange rows cols).

(* the periodic taxi-cab distance: it depends on the lattice size, not only on the offset *)
Definition ptaxi (a b : tidx) : Z :=
  Z.min ((snd (fst b) - snd (fst a)) mod rows) ((snd (fst a) - snd (fst b)) mod rows)
  + Z.min ((snd b - snd a) mod cols) ((snd a - snd b) mod cols).
Theorem tdistance_periodic a b : inr a -> inr b -> fst (fst a) = fst (fst b) -> tdist a b = Some (ptaxi a b).
Proof.
  destruct a as [[al ar] ac], b as [[bl br] bc]. unfold inrange. cbn [fst snd]. intros (A1 & A2 & A3) (B1 & B2 & B3) E. subst bl.
  unfold Toric.tdistance. cbv beta iota zeta delta [toric_translation mod3].
  rewrite !(Z.mod_small al 2), !(Z.mod_small ar rows), !(Z.mod_small ac cols), !(Z.mod_small br rows), !(Z.mod_small bc cols) by lia.
  rewrite Z.eqb_refl. cbn [negb]. unfold ptaxi. cbn [fst snd]. f_equal.
  pose proof (Z.mod_pos_bound (br - ar) rows ltac:(lia)). pose proof (Z.mod_pos_bound (ar - br) rows ltac:(lia)).
  pose proof (Z.mod_pos_bound (bc - ac) cols ltac:(lia)). pose proof (Z.mod_pos_bound (ac - bc) cols ltac:(lia)).
  set (s := (br - ar) mod rows) in *. set (n := (ar - br) mod rows) in *.
  set (e := (bc - ac) mod cols) in *. set (w := (ac - bc) mod cols) in *.
  destruct (s <=? n) eqn:E1, (e <=? w) eqn:E2; lia.
Qed.
Corollary tdistance_sym a b : inr a -> inr b -> fst (fst a) = fst (fst b) -> tdist a b = tdist b a.
Proof.
  intros Ha Hb E. rewrite (tdistance_periodic a b), (tdistance_periodic b a); auto. unfold ptaxi. f_equal. lia.
Qed.
(* the distance is at most half the lattice in each direction: no edge is heavier than rows/2 + cols/2 *)
Corollary ptaxi_bound a b : 0 <= ptaxi a b <= rows / 2 + cols / 2.
Proof.
  unfold ptaxi.
  assert (G : forall x m, 2 <= m -> 0 <= Z.min (x mod m) ((- x) mod m) <= m / 2).
  { intros x m Hm. pose proof (Z.mod_pos_bound x m ltac:(lia)). pose proof (Z.mod_pos_bound (- x) m ltac:(lia)).
    destruct (Z.eq_dec (x mod m) 0) as [E|E].
    - rewrite (Z.mod_opp_l_z x m) by lia. lia.
    - rewrite (Z.mod_opp_l_nz x m) by lia. lia. }
  pose proof (G (snd (fst b) - snd (fst a)) rows Hr) as G1. pose proof (G (snd b - snd a) cols Hc) as G2.
  replace (- (snd (fst b) - snd (fst a))) with (snd (fst a) - snd (fst b)) in G1 by lia.
  replace (- (snd b - snd a)) with (snd a - snd b) in G2 by lia. lia.
Qed.

(* complete on the defects of the lattice, every weight defined (no IndexError) and periodic taxi-cab *)
Theorem toric_graph_complete la syn a b : In a (lattice_defects rows cols la syn) -> In b (lattice_defects rows cols la syn) ->
  a <> b -> In (a, b, Some (ptaxi a b)) (toric_graph la syn) \/ In (b, a, Some (ptaxi a b)) (toric_graph la syn).
Proof.
  intros Ha Hb N.
  assert (F : forall x, In x (lattice_defects rows cols la syn) -> inr x /\ fst (fst x) = la).
  { intros x Hx. apply filter_In in Hx. destruct Hx as [Hx E]. split; [|lia].
    apply in_tindices; auto. eapply tdefect_in_TI; eauto. }
  destruct (F a Ha) as [Ia La], (F b Hb) as [Ib Lb].
  unfold toric_graph. destruct (pairs_complete _ a b Ha Hb N) as [H|H]; [left|right]; apply in_map_iff.
  - exists (a, b). cbn [fst snd]. split; auto. rewrite tdistance_periodic; auto. congruence.
  - exists (b, a). cbn [fst snd]. split; auto. rewrite tdistance_periodic; auto; [|congruence].
    do 2 f_equal. unfold ptaxi. lia.
Qed.
(* ... and nothing else: every edge joins two defects of the lattice *)
Theorem toric_graph_sound la syn a b w : In (a, b, w) (toric_graph la syn) ->
  In a (lattice_defects rows cols la syn) /\ In b (lattice_defects rows cols la syn) /\ w = Some (ptaxi a b).
Proof.
  unfold toric_graph. intros H. apply in_map_iff in H. destruct H as ([x y] & E & Hp). cbn [fst snd] in E.
  injection E as <- <- <-. apply in_pairs in Hp. destruct Hp as [Hx Hy]. split; auto. split; auto.
  assert (F : forall z, In z (lattice_defects rows cols la syn) -> inr z /\ fst (fst z) = la).
  { intros z Hz. apply filter_In in Hz. destruct Hz as [Hz E]. split; [|lia].
    apply in_tindices; auto. eapply tdefect_in_TI; eauto. }
  destruct (F x Hx), (F y Hy). apply tdistance_periodic; auto. congruence.
Qed.

(* toric_mwpm_syndrome for matchings drawn from the model graph is toric_mwpm_syndrome itself (it has no hypothesis
   about the edges used) *)
End ToricGraph.

(* non-vacuity; the same offset (0, 2) is at distance 1 on a 3x3 lattice and at distance 2 on a 5x5 lattice *)
Example mwpm_graph_ex :
  Toric.tdistance 3 3 (0, 0, 0) (0, 0, 2) = Some 1 /\ Toric.tdistance 5 5 (0, 0, 0) (0, 0, 2) = Some 2 /\
  (let syn := syndrome_of (stabs (planar_code 3 4)) (p_to_bsf (site 3 4 pX (0, 2) (site 3 4 pX (4, 0) (new_pauli 3 4)))) in
   primal_graph 3 4 syn = [((1, 2), (-1, 2), Some 1); ((3, 0), (5, 0), Some 1); ((1, 2), (3, 0), Some 2); ((-1, 2), (5, 0), Some 0)]).
Proof. vm_compute. repeat split; reflexivity. Qed.
Print Assumptions planar_mwpm_syndrome_graph.
Print Assumptions toric_graph_complete.
