(* Decoders/TParity.v — the time-parity bookkeeping of RotatedToricSMWPMDecoder.decode_ftp
   (_rotatedtoricsmwpmdecoder.py:200-218) as a decision function, and _tparity (:643-672). *)
From Coq Require Import Arith List Bool Lia ZArith.
Import ListNotations.

(* 0 if the shorter way from a_t to b_t on the periodic time axis stays in the bulk, else 1 *)
Definition tparity (T a b : Z) : bool :=
  let a' := (a mod T)%Z in let b' := (b mod T)%Z in
  let s := Z.abs (b' - a') in negb (s <=? T - s)%Z.

Inductive tp_result :=
| TPError                                             (* QecsimError: step_measurement_errors not provided *)
| TPResult (success : option bool) (custom_values : list bool).
(* sx,sz / cx,cz: time parities of the symmetry and the cluster recovery; mx,mz: of the last step's
   measurement errors; sme: step_measurement_errors is truthy *)
Definition tparity_decide (itp : bool) (T : Z) (sme : bool) (sx sz cx cz mx mz : bool) : tp_result :=
  let rx := xorb sx cx in let rz := xorb sz cz in
  if itp || (T =? 1)%Z then TPResult None [false; false]
  else if negb sme then TPError
  else let tx := xorb rx mx in let tz := xorb rz mz in
       if tx || tz then TPResult (Some false) [tx; tz] else TPResult None [false; false].

Theorem tparity_shape itp T sme sx sz cx cz mx mz su cv :
  tparity_decide itp T sme sx sz cx cz mx mz = TPResult su cv ->
  length cv = 2 /\ (su = None \/ su = Some false) /\ (su = None -> cv = [false; false]) /\
  (cv <> [false; false] -> su = Some false).
Proof.
  unfold tparity_decide. destruct (itp || (T =? 1)%Z).
  - intros H. injection H as <- <-. repeat split; auto. intros H; congruence.
  - destruct (negb sme); [discriminate|].
    destruct (xorb (xorb sx cx) mx || xorb (xorb sz cz) mz) eqn:E; intros H; injection H as <- <-;
      repeat split; auto; try (intros H; congruence).
Qed.
Theorem tparity_single_step itp T sme sx sz cx cz mx mz : T = 1%Z \/ itp = true ->
  tparity_decide itp T sme sx sz cx cz mx mz = TPResult None [false; false].
Proof. unfold tparity_decide. intros [-> | ->]; cbn; [now rewrite orb_true_r|reflexivity]. Qed.
(* a failure is declared exactly when the total parity is odd for some plaquette type *)
Theorem tparity_failure_iff itp T sme sx sz cx cz mx mz cv :
  tparity_decide itp T sme sx sz cx cz mx mz = TPResult (Some false) cv <->
  itp = false /\ T <> 1%Z /\ sme = true /\ cv = [xorb (xorb sx cx) mx; xorb (xorb sz cz) mz] /\ cv <> [false; false].
Proof.
  unfold tparity_decide. destruct itp; cbn [orb]; [split; [discriminate|intros (H & _); discriminate]|].
  destruct (Z.eqb_spec T 1) as [->|HT]; [split; [discriminate|intros (_ & H & _); congruence]|].
  destruct sme; cbn [negb]; [|split; [discriminate|intros (_ & _ & H & _); discriminate]].
  destruct (xorb (xorb sx cx) mx) eqn:E1, (xorb (xorb sz cz) mz) eqn:E2; cbn [orb]; split;
    try (intros H; injection H as <-; repeat split; auto; discriminate);
    try (intros (_ & _ & _ & -> & H); try reflexivity; congruence); try discriminate.
Qed.
Theorem tparity_T1 a b : tparity 1 a b = false.
Proof. unfold tparity. rewrite !Z.mod_1_r. reflexivity. Qed.
Theorem tparity_sym T a b : tparity T a b = tparity T b a.
Proof. unfold tparity. cbn zeta. replace (b mod T - a mod T)%Z with (- (a mod T - b mod T))%Z by lia. now rewrite Z.abs_opp. Qed.
