(* Decoders/MatchingHist.v — operation histories on ONE SimpleGraph object.
   SimpleGraph is a dict subclass, so besides add_edge a caller may legitimately use every dict method on it
   between two matchings: g[k] = w, del g[k] / g.pop(k[, None]), g.popitem(), g.update(..) / g |= ..,
   g.setdefault(k, w), g.clear().  The model is the insertion-ordered association list of Matching.v; `run h`
   is the content of the object after the history h, and that is the graph every later mwpm call must match
   (C13 is stated for "every weighted graph", i.e. for the graph as it is when the matcher is called). *)
From Coq Require Import Arith List Bool Lia QArith.
From QV Require Import Decoders.Matching.
Import ListNotations.
Open Scope nat_scope.

(* dict lookup: g.get(k) *)
Fixpoint get (k : key) (g : graph) : option Q :=
  match g with [] => None | (k', w) :: r => if keyb k k' then Some w else get k r end.

Inductive hop : Type :=
| HAdd (a b : nat) (w : Q)          (* g.add_edge(a, b, w) *)
| HSet (k : key) (w : Q)            (* g[k] = w *)
| HDel (k : key)                    (* del g[k], g.pop(k), g.pop(k, None) (absent key: content unchanged) *)
| HPopitem                          (* g.popitem(): removes the most recently inserted entry *)
| HUpdate (l : list (key * Q))      (* g.update(l), g |= l *)
| HSetdefault (k : key) (w : Q)     (* g.setdefault(k, w) *)
| HClear.                           (* g.clear() *)

Definition update (g : graph) (l : list (key * Q)) : graph :=
  fold_left (fun g e => setk (fst e) (snd e) g) l g.
Definition setdefault (k : key) (w : Q) (g : graph) : graph :=
  match get k g with Some _ => g | None => setk k w g end.
Definition step (g : graph) (o : hop) : graph :=
  match o with
  | HAdd a b w => add_edge g a b w
  | HSet k w => setk k w g
  | HDel k => pop k g
  | HPopitem => removelast g
  | HUpdate l => update g l
  | HSetdefault k w => setdefault k w g
  | HClear => []
  end.
Definition run (h : list hop) : graph := fold_left step h [].

(* ---------- lookup after each operation ---------- *)
Lemma get_none k g : get k g = None <-> ~ In k (keys g).
Proof.
  induction g as [|[k' w] r IH]; cbn; [tauto|]. destruct (keyb k k') eqn:E.
  - apply keyb_spec in E. subst. split; [discriminate|intros H; exfalso; auto].
  - apply keyb_neq in E. rewrite IH. split; [intros H [H'|H']; auto|intros H H'; auto].
Qed.
Lemma get_in k w g : NoDup (keys g) -> (get k g = Some w <-> In (k, w) g).
Proof.
  induction g as [|[k' w'] r IH]; intros Hnd; cbn; [split; [discriminate|tauto]|].
  inversion Hnd as [|? ? Hk Hr]; subst. destruct (keyb k k') eqn:E.
  - apply keyb_spec in E. subst k'. split.
    + intros H. injection H as ->. auto.
    + intros [H|H]; [now injection H as ->|]. exfalso. apply Hk. change k with (fst (k, w)). now apply in_map.
  - apply keyb_neq in E. rewrite IH by auto. split; auto. intros [H|H]; auto. injection H as -> ->. congruence.
Qed.
Lemma get_app k g1 g2 : get k (g1 ++ g2) = match get k g1 with Some w => Some w | None => get k g2 end.
Proof. induction g1 as [|[k' w] r IH]; cbn; auto. destruct (keyb k k'); auto. Qed.

Theorem get_setk k' k w g : get k' (setk k w g) = if keyb k' k then Some w else get k' g.
Proof.
  induction g as [|[k0 w0] r IH]; cbn; auto. destruct (keyb k k0) eqn:E; cbn.
  - apply keyb_spec in E. subst k0. destruct (keyb k' k); auto.
  - rewrite IH. destruct (keyb k' k0) eqn:E0; auto. apply keyb_spec in E0. subst k0.
    destruct (keyb k' k) eqn:E1; auto. apply keyb_spec in E1. subst k'. rewrite keyb_refl in E. discriminate.
Qed.
Theorem get_pop k' k g : NoDup (keys g) -> get k' (pop k g) = if keyb k' k then None else get k' g.
Proof.
  induction g as [|[k0 w0] r IH]; intros Hnd; cbn; [now destruct (keyb k' k)|].
  inversion Hnd as [|? ? Hk Hr]; subst. destruct (keyb k k0) eqn:E; cbn.
  - apply keyb_spec in E. subst k0. destruct (keyb k' k) eqn:E1; auto.
    apply keyb_spec in E1. subst k'. now apply get_none.
  - rewrite IH by auto. destruct (keyb k' k0) eqn:E0; auto. apply keyb_spec in E0. subst k0.
    destruct (keyb k' k) eqn:E1; auto. apply keyb_spec in E1. subst k'. rewrite keyb_refl in E. discriminate.
Qed.
Theorem get_add_edge k' g a b w : NoDup (keys g) ->
  get k' (add_edge g a b w) = if keyb k' (a, b) then Some w else if keyb k' (b, a) then None else get k' g.
Proof. intros Hnd. unfold add_edge. rewrite get_setk, get_pop by auto. reflexivity. Qed.
Theorem get_update k' l : forall g,
  get k' (update g l) = match get k' (rev l) with Some w => Some w | None => get k' g end.
Proof.
  unfold update. induction l as [|[k w] l IH]; intros g; cbn; auto.
  rewrite IH, get_app, get_setk. cbn. destruct (get k' (rev l)); auto. destruct (keyb k' k); auto.
Qed.
Theorem get_setdefault k' k w g :
  get k' (setdefault k w g) =
  if keyb k' k then (match get k g with Some w' => Some w' | None => Some w end) else get k' g.
Proof.
  unfold setdefault. destruct (get k g) eqn:E.
  - destruct (keyb k' k) eqn:E1; auto. apply keyb_spec in E1. now subst k'.
  - rewrite get_setk. reflexivity.
Qed.
Theorem popitem_spec g : g <> [] -> exists e, g = step g HPopitem ++ [e].
Proof. intros H. exists (last g ((0, 0), 0%Q)). now apply app_removelast_last. Qed.
Theorem get_clear k g : get k (step g HClear) = None.
Proof. reflexivity. Qed.

(* ---------- the dict invariant (distinct keys) survives every operation ---------- *)
Lemma keys_removelast g : keys (removelast g) = removelast (keys g).
Proof.
  induction g as [|e g IH]; cbn; auto. destruct g as [|e' r]; auto.
  change (keys (e :: removelast (e' :: r)) = fst e :: removelast (keys (e' :: r))). now rewrite <- IH.
Qed.
Lemma removelast_incl {A} (l : list A) x : In x (removelast l) -> In x l.
Proof.
  induction l as [|a l IH]; cbn; auto. destruct l as [|b r]; [intros []|].
  intros [H|H]; [left; exact H|right; apply IH; exact H].
Qed.
Lemma removelast_nodup {A} (l : list A) : NoDup l -> NoDup (removelast l).
Proof.
  induction l as [|a l IH]; intros H; cbn; auto. destruct l as [|b r]; [constructor|].
  inversion H as [|? ? Ha Hr]; subst. constructor; [|now apply IH].
  intros H'. apply Ha. now apply removelast_incl.
Qed.
Lemma nodup_update l : forall g, NoDup (keys g) -> NoDup (keys (update g l)).
Proof. unfold update. induction l as [|e l IH]; intros g H; cbn; auto. apply IH. now apply nodup_setk. Qed.
Theorem step_nodup g o : NoDup (keys g) -> NoDup (keys (step g o)).
Proof.
  intros H. destruct o; cbn.
  - unfold add_edge. now apply nodup_setk, nodup_pop.
  - now apply nodup_setk.
  - now apply nodup_pop.
  - rewrite keys_removelast. now apply removelast_nodup.
  - now apply nodup_update.
  - unfold setdefault. destruct (get k g); auto. now apply nodup_setk.
  - constructor.
Qed.
Theorem run_nodup h : NoDup (keys (run h)).
Proof. unfold run. apply fold_inv; [intros g o; apply step_nodup|constructor]. Qed.

(* ---------- the SimpleGraph invariant (never a key together with its reverse) survives every history whose raw
   dict writes respect the orientation already present ---------- *)
Definition norev (g : graph) (k : key) : Prop := fst k <> snd k -> ~ In (snd k, fst k) (keys g).
Fixpoint safe_upd (g : graph) (l : list (key * Q)) : Prop :=
  match l with [] => True | e :: r => norev g (fst e) /\ safe_upd (setk (fst e) (snd e) g) r end.
Definition safe (g : graph) (o : hop) : Prop :=
  match o with HSet k _ => norev g k | HSetdefault k _ => norev g k | HUpdate l => safe_upd g l | _ => True end.
Fixpoint safe_hist (g : graph) (h : list hop) : Prop :=
  match h with [] => True | o :: r => safe g o /\ safe_hist (step g o) r end.

Lemma simple_setk g k w : simple g -> norev g k -> simple (setk k w g).
Proof.
  intros [Hnd Hrev] Hk. split; [now apply nodup_setk|].
  intros x y Hxy H1 H2. apply keys_setk in H1, H2. destruct H1 as [E1|H1], H2 as [E2|H2].
  - congruence.
  - subst k. now apply Hk.
  - subst k. apply Hk; cbn; auto.
  - now apply (Hrev x y).
Qed.
Lemma simple_pop g k : simple g -> simple (pop k g).
Proof.
  intros [Hnd Hrev]. split; [now apply nodup_pop|].
  intros x y Hxy H1 H2. apply keys_pop_incl in H1, H2. now apply (Hrev x y).
Qed.
Lemma simple_removelast g : simple g -> simple (removelast g).
Proof.
  intros [Hnd Hrev]. split; [rewrite keys_removelast; now apply removelast_nodup|].
  intros x y Hxy H1 H2. rewrite keys_removelast in H1, H2. apply removelast_incl in H1, H2. now apply (Hrev x y).
Qed.
Lemma simple_update l : forall g, simple g -> safe_upd g l -> simple (update g l).
Proof.
  unfold update. induction l as [|e l IH]; intros g H Hs; cbn; auto. destruct Hs as [H1 H2].
  apply IH; auto. now apply simple_setk.
Qed.
Theorem simple_step g o : simple g -> safe g o -> simple (step g o).
Proof.
  intros H Hs. destruct o; cbn in *.
  - now apply simple_add_edge.
  - now apply simple_setk.
  - now apply simple_pop.
  - now apply simple_removelast.
  - now apply simple_update.
  - unfold setdefault. destruct (get k g); auto. now apply simple_setk.
  - apply simple_nil.
Qed.
Theorem simple_run h : safe_hist [] h -> simple (run h).
Proof.
  unfold run. generalize simple_nil. generalize (@nil (key * Q)) as g. induction h as [|o h IH]; intros g H Hs; cbn; auto.
  destruct Hs as [H1 H2]. apply IH; auto. now apply simple_step.
Qed.

(* in such a graph the matcher's view of the edge {a,b} is the dict entry under (a,b) or under (b,a) *)
Theorem edge_get g a b w : simple g -> (edge g a b = Some w <-> get (a, b) g = Some w \/ get (b, a) g = Some w).
Proof. intros H. rewrite edge_simple by auto. destruct H as [Hnd _]. now rewrite !get_in by auto. Qed.

(* histories made of add_edge only are the insertion sequences of Matching.v *)
Theorem run_adds ops : run (map (fun o : op => HAdd (fst (fst o)) (snd (fst o)) (snd o)) ops) = build ops.
Proof.
  unfold run, build. generalize (@nil (key * Q)) as g. induction ops as [|o ops IH]; intros g; cbn; auto.
Qed.

(* the property after a history: the checker applied to the content of the object NOW decides
   "perfect, only edges of the graph, minimum total weight" for the graph as it is now *)
Theorem hist_checker h m : is_min_pm (run h) m = true <->
  perfect (run h) m /\ forall m', perfect (run h) m' -> (weight (run h) m <= weight (run h) m')%Q.
Proof. apply is_min_pm_spec. Qed.

(* non-vacuity: build K4, match, pop the matched edges, re-weight with update, popitem, setdefault, clear, refill *)
Example hist_ex :
  let h1 := [HAdd 0 1 (1#1); HAdd 0 2 (4#1); HAdd 0 3 (4#1); HAdd 1 2 (4#1); HAdd 1 3 (4#1); HAdd 2 3 (1#1)] in
  let h2 := h1 ++ [HDel (0, 1); HDel (2, 3)] in
  let h3 := h2 ++ [HUpdate [((0, 2), 9#1); ((1, 3), 9#1)]; HSetdefault (0, 2) (0#1); HSetdefault (0, 1) ((-1)#1)] in
  let h4 := h3 ++ [HPopitem; HClear; HSet (5, 4) (2#1); HAdd 4 5 (3#1)] in
  is_min_pm (run h1) [(0, 1); (2, 3)] = true /\
  is_min_pm (run h2) [(0, 1); (2, 3)] = false /\ is_min_pm (run h2) [(0, 2); (1, 3)] = true /\
  is_min_pm (run h3) [(0, 2); (1, 3)] = false /\ is_min_pm (run h3) [(0, 3); (1, 2)] = true /\
  keys (run h3) = [(0, 2); (0, 3); (1, 2); (1, 3); (0, 1)] /\
  keys (run h4) = [(4, 5)] /\ get (4, 5) (run h4) = Some (3#1).
Proof. vm_compute. repeat split; reflexivity. Qed.
