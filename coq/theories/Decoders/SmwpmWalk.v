(* Decoders/SmwpmWalk.v — the site walk of RotatedPlanarSMWPMDecoder._path_operator
   (src/qecsim/models/rotatedplanar/_rotatedplanarsmwpmdecoder.py:710-781), pure integer part; the lattice part
   (_path_operator as an operator, _cluster_to_paths_and_defect, _recovery and the all-sizes theorems
   smwpm_path_syndrome_all, smwpm_recovery_syndrome_all, smwpm_recovery_even_all) is Decoders/SmwpmPath.v.

   smwpm_start_end  = _start_end_site_coordinate;  smwpm_next = the two if/elif steps;  smwpm_walk = the `while True`
   loop as a recursion on fuel;  smwpm_path_sites = path_indices with fuel = max(|dx|, |dy|) (smwpm_fuel).
   smwpm_walk_fuel_stable / smwpm_walk_last: that fuel is sufficient (more fuel changes nothing; the walk ends on the
   end site).  smwpm_walk_box: every walked site lies between the start and the end site.

   smwpm_path_tele (telescoping): a site v touches exactly two plaquettes of each type (diagonally opposite faces,
   smwpm_site_faces).  Along the walk the "far" face of one site is the "near" face of the next (invariant smwpm_inv,
   which holds at the start with near face a: smwpm_inv_start), so for every plaquette index p of the type of a, b the
   number of walked sites that are corners of p is odd exactly when p is one of a, b (a <> b, same type, coordinates
   >= -1).  The clamp max(b_k, 0) of _start_end_site_coordinate makes the in-line walk run along the inner side of a
   boundary plaquette: it is what keeps smwpm_inv_start true for a_k = b_k = -1 with every site inside the lattice. *)
From Coq Require Import ZArith List Bool Lia ZifyBool.
From QV Require Import Core.Bits Core.Pauli Core.Symp Core.Code App.RunOnce Generated.LatticeArith
  Lattice.PlanarAll Decoders.Checker Decoders.MwpmRel
  Lattice.RotPlanar Lattice.RotPlanarAll Lattice.RotPlanarValidAll Decoders.SampleRecovery.
Import ListNotations.
Open Scope Z_scope.
Ltac Zify.zify_post_hook ::= Z.to_euclidean_division_equations.

(* ------------------------------------------------------------------ *)
(** * the walk (pure integer part)                                     *)
(* ------------------------------------------------------------------ *)
(* _start_end_site_coordinate(a_k, b_k) *)
Definition smwpm_start_end (a_k b_k : Z) : Z * Z :=
  if a_k <? b_k then (a_k + 1, b_k)
  else if b_k <? a_k then (a_k, b_k + 1)
  else (Z.max b_k 0, Z.max b_k 0).
(* if end_k - next_k > 0: next_k += 1  elif end_k - next_k < 0: next_k -= 1 *)
Definition smwpm_next (end_k next_k : Z) : Z :=
  if 0 <? end_k - next_k then next_k + 1 else if end_k - next_k <? 0 then next_k - 1 else next_k.
(* while True: path_indices.append(next); if next == end: break; step x; step y *)
Fixpoint smwpm_walk (fuel : nat) (n e : ridx) : list ridx :=
  n :: (if rc_idx_eqb n e then [] else
        match fuel with
        | O => []
        | S f => smwpm_walk f (smwpm_next (fst e) (fst n), smwpm_next (snd e) (snd n)) e
        end).
Definition smwpm_dist (s e : ridx) : Z := Z.max (Z.abs (fst e - fst s)) (Z.abs (snd e - snd s)).
Definition smwpm_fuel (s e : ridx) : nat := Z.to_nat (smwpm_dist s e).
Definition smwpm_start (a b : ridx) : ridx := (fst (smwpm_start_end (fst a) (fst b)), fst (smwpm_start_end (snd a) (snd b))).
Definition smwpm_end (a b : ridx) : ridx := (snd (smwpm_start_end (fst a) (fst b)), snd (smwpm_start_end (snd a) (snd b))).
(* path_indices of _path_operator for a_index <> b_index *)
Definition smwpm_path_sites (a b : ridx) : list ridx :=
  let '(a_x, a_y) := a in
  let '(b_x, b_y) := b in
  let '(start_x, end_x) := smwpm_start_end a_x b_x in
  let '(start_y, end_y) := smwpm_start_end a_y b_y in
  smwpm_walk (smwpm_fuel (start_x, start_y) (end_x, end_y)) (start_x, start_y) (end_x, end_y).
Lemma smwpm_path_sites_eq a b :
  smwpm_path_sites a b = smwpm_walk (smwpm_fuel (smwpm_start a b) (smwpm_end a b)) (smwpm_start a b) (smwpm_end a b).
Proof.
  destruct a as [ax ay], b as [bx by_]. unfold smwpm_path_sites, smwpm_start, smwpm_end. cbn [fst snd].
  destruct (smwpm_start_end ax bx), (smwpm_start_end ay by_). reflexivity.
Qed.

(* ---- the fuel is sufficient ---- *)
Lemma smwpm_idx_eqb_false n e : rc_idx_eqb n e = false -> n <> e.
Proof. intros H E. apply rc_idx_eqb_spec in E. congruence. Qed.
Lemma smwpm_dist_step n e : n <> e ->
  smwpm_dist (smwpm_next (fst e) (fst n), smwpm_next (snd e) (snd n)) e = smwpm_dist n e - 1.
Proof.
  destruct n as [nx ny], e as [ex ey]. intros H. assert (nx <> ex \/ ny <> ey) by (destruct (Z.eq_dec nx ex); [right|left]; congruence).
  unfold smwpm_dist, smwpm_next. cbn [fst snd].
  destruct (0 <? ex - nx) eqn:E1, (ex - nx <? 0) eqn:E2, (0 <? ey - ny) eqn:E3, (ey - ny <? 0) eqn:E4; lia.
Qed.
Lemma smwpm_dist_zero n e : smwpm_dist n e <= 0 -> n = e.
Proof. destruct n, e. unfold smwpm_dist. cbn [fst snd]. intros H. f_equal; lia. Qed.
Theorem smwpm_walk_fuel_stable : forall fuel extra n e, smwpm_dist n e <= Z.of_nat fuel ->
  smwpm_walk (fuel + extra) n e = smwpm_walk fuel n e.
Proof.
  induction fuel as [|f IH]; intros extra n e H.
  - apply smwpm_dist_zero in H. subst e. destruct extra; cbn [smwpm_walk Nat.add]; now rewrite rc_idx_eqb_refl.
  - cbn [smwpm_walk Nat.add]. destruct (rc_idx_eqb n e) eqn:E; [reflexivity|]. f_equal. apply IH.
    rewrite smwpm_dist_step by now apply smwpm_idx_eqb_false. lia.
Qed.
Theorem smwpm_walk_last : forall fuel n e, smwpm_dist n e <= Z.of_nat fuel -> last (smwpm_walk fuel n e) n = e.
Proof.
  induction fuel as [|f IH]; intros n e H.
  - apply smwpm_dist_zero in H. subst e. cbn. now rewrite rc_idx_eqb_refl.
  - cbn [smwpm_walk]. destruct (rc_idx_eqb n e) eqn:E; [apply rc_idx_eqb_spec in E; now subst|].
    set (n' := (smwpm_next (fst e) (fst n), smwpm_next (snd e) (snd n))).
    assert (Hd : smwpm_dist n' e <= Z.of_nat f) by (unfold n'; rewrite smwpm_dist_step by (now apply smwpm_idx_eqb_false); lia).
    specialize (IH n' e Hd). destruct (smwpm_walk f n' e) as [|v w] eqn:W; [destruct f; discriminate|].
    assert (L : forall (l : list ridx) x y d, last (x :: y :: l) d = last (y :: l) d) by reflexivity.
    rewrite L. rewrite <- IH. clear. revert v. induction w as [|u w IHw]; intros v; [reflexivity|].
    change (last (v :: u :: w) n) with (last (u :: w) n). change (last (v :: u :: w) n') with (last (u :: w) n'). apply IHw.
Qed.

(* ---- all walked sites stay between the start and the end ---- *)
Lemma smwpm_walk_box lo_x hi_x lo_y hi_y : forall fuel n e,
  lo_x <= fst n <= hi_x -> lo_x <= fst e <= hi_x -> lo_y <= snd n <= hi_y -> lo_y <= snd e <= hi_y ->
  Forall (fun v => lo_x <= fst v <= hi_x /\ lo_y <= snd v <= hi_y) (smwpm_walk fuel n e).
Proof.
  induction fuel as [|f IH]; intros n e H1 H2 H3 H4; cbn [smwpm_walk]; constructor; auto;
    destruct (rc_idx_eqb n e); try constructor.
  apply IH; auto; cbn [fst snd]; unfold smwpm_next;
    repeat match goal with |- context [?a <? ?b] => destruct (Z.ltb_spec a b) end; lia.
Qed.

(* ---- telescoping ---- *)
Definition smwpm_same_type (p q : ridx) : Prop := (fst p - snd p) mod 2 = (fst q - snd q) mod 2.
(* c: the face of the walked type next to the current site n on the side we come from; b: the target face *)
Definition smwpm_inv (n e c b : ridx) : Prop :=
  (fst n - 1 <= fst c <= fst n /\ snd n - 1 <= snd c <= snd n) /\
  ((fst n < fst e -> fst c = fst n - 1) /\ (fst e < fst n -> fst c = fst n) /\
   (snd n < snd e -> snd c = snd n - 1) /\ (snd e < snd n -> snd c = snd n)) /\
  (fst e - 1 <= fst b <= fst e /\ snd e - 1 <= snd b <= snd e /\
   (fst n < fst e -> fst b = fst e) /\ (fst e < fst n -> fst b = fst e - 1) /\
   (snd n < snd e -> snd b = snd e) /\ (snd e < snd n -> snd b = snd e - 1)) /\
  (fst b - fst c + smwpm_dist n e) mod 2 = 1 /\
  smwpm_same_type c b.

(* a site touches exactly two faces of each type: c and the diagonally opposite one *)
Lemma smwpm_site_faces n c p :
  fst n - 1 <= fst c <= fst n -> snd n - 1 <= snd c <= snd n -> smwpm_same_type p c ->
  rp_corner n p = xorb (rc_idx_eqb p c) (rc_idx_eqb p (2 * fst n - 1 - fst c, 2 * snd n - 1 - snd c)).
Proof.
  destruct n as [nx ny], c as [cx cy], p as [px py]. unfold rp_corner, rc_idx_eqb, smwpm_same_type. cbn [fst snd].
  intros H1 H2 T.
  assert (Hx : cx = nx - 1 \/ cx = nx) by lia. assert (Hy : cy = ny - 1 \/ cy = ny) by lia.
  destruct Hx as [-> | ->], Hy as [-> | ->];
    destruct (Z.eqb_spec nx px), (Z.eqb_spec nx (px + 1)), (Z.eqb_spec ny py), (Z.eqb_spec ny (py + 1));
    repeat match goal with |- context [?a =? ?b] => destruct (Z.eqb_spec a b) end; cbn; try reflexivity; exfalso; lia.
Qed.

Lemma smwpm_walk_tele : forall fuel n e c b p, smwpm_dist n e <= Z.of_nat fuel ->
  smwpm_inv n e c b -> smwpm_same_type p c ->
  rc_xsumb (fun v => rp_corner v p) (smwpm_walk fuel n e) = xorb (rc_idx_eqb p c) (rc_idx_eqb p b).
Proof.
  induction fuel as [|f IH]; intros n e c b p Hd Hinv Tp.
  - apply smwpm_dist_zero in Hd. subst e. cbn [smwpm_walk]. rewrite rc_idx_eqb_refl. cbn [rc_xsumb]. rewrite xorb_false_r.
    destruct Hinv as ((I1 & I1') & _ & (I3 & I3' & _) & I4 & I5).
    rewrite (smwpm_site_faces n c p I1 I1' Tp). f_equal. f_equal.
    destruct n as [nx ny], c as [cx cy], b as [bx by_]. unfold smwpm_dist, smwpm_same_type in *. cbn [fst snd] in *. f_equal; lia.
  - cbn [smwpm_walk]. destruct (rc_idx_eqb n e) eqn:E.
    + apply rc_idx_eqb_spec in E. subst e. cbn [rc_xsumb]. rewrite xorb_false_r.
      destruct Hinv as ((I1 & I1') & _ & (I3 & I3' & _) & I4 & I5).
      rewrite (smwpm_site_faces n c p I1 I1' Tp). f_equal. f_equal.
      destruct n as [nx ny], c as [cx cy], b as [bx by_]. unfold smwpm_dist, smwpm_same_type in *. cbn [fst snd] in *. f_equal; lia.
    + apply smwpm_idx_eqb_false in E. cbn [rc_xsumb].
      set (c' := (2 * fst n - 1 - fst c, 2 * snd n - 1 - snd c)).
      pose proof (smwpm_dist_step n e E) as Hs.
      destruct Hinv as ((I1 & I1') & (I2a & I2b & I2c & I2d) & (I3a & I3b & I3c & I3d & I3e & I3f) & I4 & I5).
      rewrite (IH _ e c' b p).
      * rewrite (smwpm_site_faces n c p I1 I1' Tp). fold c'.
        now destruct (rc_idx_eqb p c), (rc_idx_eqb p c'), (rc_idx_eqb p b).
      * lia.
      * unfold smwpm_inv. rewrite Hs. clear Hs IH.
        destruct n as [nx ny], e as [ex ey], c as [cx cy], b as [bx by_].
        unfold c', smwpm_next, smwpm_same_type, smwpm_dist in *. cbn [fst snd] in *.
        assert (nx <> ex \/ ny <> ey) by (destruct (Z.eq_dec nx ex); [right|left]; congruence).
        destruct (Z.ltb_spec 0 (ex - nx)), (Z.ltb_spec (ex - nx) 0), (Z.ltb_spec 0 (ey - ny)), (Z.ltb_spec (ey - ny) 0);
          try (exfalso; lia); repeat split; lia.
      * unfold smwpm_same_type, c' in *. destruct n, c, p. cbn [fst snd] in *. lia.
Qed.

(* the invariant holds at the start: c = a *)
Lemma smwpm_inv_start a b : a <> b -> smwpm_same_type a b ->
  -1 <= fst a -> -1 <= snd a -> -1 <= fst b -> -1 <= snd b ->
  smwpm_inv (smwpm_start a b) (smwpm_end a b) a b.
Proof.
  destruct a as [ax ay], b as [bx by_]. intros Hne T H1 H2 H3 H4.
  assert (ax <> bx \/ ay <> by_) by (destruct (Z.eq_dec ax bx); [right|left]; congruence).
  unfold smwpm_inv, smwpm_start, smwpm_end, smwpm_start_end, smwpm_dist, smwpm_same_type in *. cbn [fst snd] in *.
  destruct (Z.ltb_spec ax bx), (Z.ltb_spec bx ax), (Z.ltb_spec ay by_), (Z.ltb_spec by_ ay); cbn [fst snd];
    try (exfalso; lia); repeat split; lia.
Qed.
Theorem smwpm_path_tele a b p : a <> b -> smwpm_same_type a b -> smwpm_same_type p a ->
  -1 <= fst a -> -1 <= snd a -> -1 <= fst b -> -1 <= snd b ->
  rc_xsumb (fun v => rp_corner v p) (smwpm_path_sites a b) = xorb (rc_idx_eqb p a) (rc_idx_eqb p b).
Proof.
  intros Hne T Tp H1 H2 H3 H4. rewrite smwpm_path_sites_eq. apply smwpm_walk_tele; auto.
  - unfold smwpm_fuel. unfold smwpm_dist. lia.
  - now apply smwpm_inv_start.
Qed.

