(* Decoders/Naive.v — model of NaiveDecoder.decode (generic/_naivedecoder.py:46-58): scan
   paulitools.ibsf(n) in its order (ascending weight) and return the first operator whose syndrome
   matches; the max_qubits guard; minimum weight and correction within half the distance. *)
From Coq Require Import Arith List Bool Lia Sorting.Sorted.
From QV Require Import Core.Bits Core.Pauli Core.Symp Core.Enum Core.Span.
Import ListNotations.

Definition matches (stabs : list bsf) (s : bsf) (e : bsf) : bool := beqv (syndrome_of stabs e) s.
(* for error in pt.ibsf(n_qubits): if array_equal(bsp(error, stabilizers.T), syndrome): return error *)
Definition naive (stabs : list bsf) (n : nat) (s : bsf) : option bsf := find (matches stabs s) (ibsf n 0 n).

(* the same scan, one weight block at a time (what the extracted engine runs) *)
Fixpoint first_some {A B} (f : A -> option B) (l : list A) : option B :=
  match l with [] => None | x :: r => match f x with Some y => Some y | None => first_some f r end end.
Definition naive_blocks (stabs : list bsf) (n : nat) (s : bsf) : option bsf :=
  first_some (fun w => find (matches stabs s) (map to_bsf (block 0 n w))) (seq 0 (S n)).

Inductive nresult := NOk (r : option bsf) | NValueError.
(* max_qubits falsy (None or 0) = unrestricted *)
Definition naive_decode (max_qubits : option nat) (stabs : list bsf) (n : nat) (s : bsf) : nresult :=
  match max_qubits with
  | Some (S m) => if S m <? n then NValueError else NOk (naive_blocks stabs n s)
  | _ => NOk (naive_blocks stabs n s)
  end.

Lemma find_app {A} (f : A -> bool) l1 l2 :
  find f (l1 ++ l2) = match find f l1 with Some x => Some x | None => find f l2 end.
Proof. induction l1 as [|x l1 IH]; cbn; auto. destruct (f x); auto. Qed.
Lemma find_flat_map {A B} (f : B -> bool) (g : A -> list B) l :
  find f (flat_map g l) = first_some (fun x => find f (g x)) l.
Proof. induction l as [|x l IH]; cbn; auto. rewrite find_app, IH. reflexivity. Qed.
Lemma map_flat_map {A B C} (h : B -> C) (g : A -> list B) l : map h (flat_map g l) = flat_map (fun x => map h (g x)) l.
Proof. induction l as [|x l IH]; cbn; auto. now rewrite map_app, IH. Qed.
Theorem naive_blocks_eq stabs n s : naive_blocks stabs n s = naive stabs n s.
Proof.
  unfold naive, naive_blocks, ibsf, ipauli. rewrite map_flat_map, find_flat_map.
  replace (S n - 0) with (S n) by lia. reflexivity.
Qed.

(* every operator of length 2n is scanned *)
Lemma in_ibsf n e : length e = 2 * n -> In e (ibsf n 0 n).
Proof.
  intros L. assert (Hev : Nat.even (length e) = true) by (rewrite L; apply Nat.even_spec; now exists n).
  rewrite <- (to_of_bsf e Hev). unfold ibsf. apply in_map. apply ipauli_spec; [lia|].
  assert (Ln : length (of_bsf e) = n).
  { pose proof (to_bsf_length (of_bsf e)) as H. rewrite (to_of_bsf e Hev) in H. lia. }
  split; auto. split; [lia|]. rewrite <- Ln. clear. induction (of_bsf e) as [|p s IH]; cbn; auto. destruct p; cbn; lia.
Qed.
Lemma ibsf_length n e : In e (ibsf n 0 n) -> length e = 2 * n.
Proof.
  unfold ibsf. intros H. apply in_map_iff in H. destruct H as (s & <- & Hs). apply ipauli_spec in Hs; [|lia].
  rewrite to_bsf_length. lia.
Qed.

Theorem naive_finds stabs n s e0 : length e0 = 2 * n -> syndrome_of stabs e0 = s ->
  exists r, naive stabs n s = Some r /\ length r = 2 * n /\ syndrome_of stabs r = s.
Proof.
  intros L Hs. unfold naive. destruct (find (matches stabs s) (ibsf n 0 n)) as [r|] eqn:E.
  - apply find_some in E. destruct E as [Hin Hm]. exists r. split; auto. split; [now apply ibsf_length|].
    unfold matches in Hm. now apply beqv_spec in Hm.
  - exfalso. pose proof (find_none _ _ E e0 (in_ibsf n e0 L)) as H. unfold matches in H.
    rewrite Hs in H. assert (beqv s s = true) by now apply beqv_spec. congruence.
Qed.
Theorem naive_sound stabs n s r : naive stabs n s = Some r -> length r = 2 * n /\ syndrome_of stabs r = s.
Proof.
  unfold naive. intros E. apply find_some in E. destruct E as [Hin Hm]. split; [now apply ibsf_length|].
  unfold matches in Hm. now apply beqv_spec in Hm.
Qed.

(* the first match in a list sorted by a key has the least key among the matches *)
Lemma find_sorted_min {A} (f : A -> bool) (key : A -> nat) l : StronglySorted le (map key l) ->
  forall r e, find f l = Some r -> In e l -> f e = true -> key r <= key e.
Proof.
  induction l as [|x l IH]; intros Hs r e Hf Hin He; [destruct Hin|].
  cbn [map] in Hs. apply StronglySorted_inv in Hs. destruct Hs as [Hs Hall]. cbn in Hf.
  destruct (f x) eqn:Ex.
  - injection Hf as <-. destruct Hin as [<-|Hin]; auto.
    rewrite Forall_forall in Hall. apply Hall. now apply in_map.
  - destruct Hin as [<-|Hin]; [congruence|]. eapply IH; eauto.
Qed.
Lemma ibsf_sorted n : StronglySorted le (map bsf_wt (ibsf n 0 n)).
Proof.
  unfold ibsf. rewrite map_map. erewrite map_ext; [apply (ipauli_sorted n 0 n)|]. intros s. apply bsf_wt_to_bsf.
Qed.
Theorem naive_min_weight stabs n s r : naive stabs n s = Some r ->
  forall e, length e = 2 * n -> syndrome_of stabs e = s -> bsf_wt r <= bsf_wt e.
Proof.
  intros Hr e L Hs. unfold naive in Hr.
  apply (find_sorted_min (matches stabs s) bsf_wt (ibsf n 0 n) (ibsf_sorted n) r e Hr (in_ibsf n e L)).
  unfold matches. now apply beqv_spec.
Qed.

(* ---- weight of a product ---- *)
Lemma count_or_xor : forall a1 a2 b1 b2 : bsf, length a1 = length a2 -> length b1 = length b2 -> length a1 = length b1 ->
  count_true (orv (xorv a1 b1) (xorv a2 b2)) <= count_true (orv a1 a2) + count_true (orv b1 b2).
Proof.
  induction a1 as [|x1 a1 IH]; intros [|x2 a2] [|y1 b1] [|y2 b2] L1 L2 L3; cbn in *; try lia.
  specialize (IH a2 b1 b2 ltac:(lia) ltac:(lia) ltac:(lia)). destruct x1, x2, y1, y2; cbn; lia.
Qed.
Lemma halves_len (a : bsf) n : length a = 2 * n -> length (fst (halves a)) = n /\ length (snd (halves a)) = n.
Proof.
  intros L. unfold halves. cbn [fst snd]. rewrite L. replace (2 * n / 2) with n by (rewrite Nat.mul_comm, Nat.div_mul; lia).
  rewrite firstn_length, skipn_length. lia.
Qed.
Theorem bsf_wt_xorv a b n : length a = 2 * n -> length b = 2 * n -> bsf_wt (xorv a b) <= bsf_wt a + bsf_wt b.
Proof.
  intros La Lb. unfold bsf_wt. rewrite halves_xorv by lia.
  destruct (halves_len a n La) as [A1 A2], (halves_len b n Lb) as [B1 B2].
  destruct (halves a) as [a1 a2], (halves b) as [b1 b2]. cbn [fst snd] in *. apply count_or_xor; lia.
Qed.

Definition zero_syndrome (stabs : list bsf) (v : bsf) : Prop := forall s, In s stabs -> bsp v s = false.
Lemma syndrome_eq_zero stabs a b n : length a = 2 * n -> length b = 2 * n ->
  syndrome_of stabs a = syndrome_of stabs b -> zero_syndrome stabs (xorv a b).
Proof.
  intros La Lb H s Hs. rewrite bsp_linear_l by lia.
  assert (E : bsp a s = bsp b s).
  { unfold syndrome_of in H. clear La Lb. induction stabs as [|t st IH]; [destruct Hs|].
    cbn in H. injection H as H1 H2. destruct Hs as [<-|Hs]; auto. }
  rewrite E. apply xorb_nilpotent.
Qed.

(* d is a lower bound on the weight of the non-trivial normalizer elements: every operator with
   zero syndrome and weight below d is a product of stabilizers *)
Definition distance_lb (n : nat) (stabs : list bsf) (d : nat) : Prop :=
  forall v, length v = 2 * n -> zero_syndrome stabs v -> bsf_wt v < d -> in_spanP (2 * n) stabs v.

Theorem naive_corrects n stabs d e : 1 <= d -> distance_lb n stabs d ->
  length e = 2 * n -> bsf_wt e <= (d - 1) / 2 ->
  exists r, naive stabs n (syndrome_of stabs e) = Some r /\ in_spanP (2 * n) stabs (xorv r e).
Proof.
  intros Hd Hdist L Hw.
  destruct (naive_finds stabs n (syndrome_of stabs e) e L eq_refl) as (r & Hr & Lr & Hs).
  exists r. split; auto. apply Hdist.
  - rewrite xorv_length; lia.
  - now apply (syndrome_eq_zero stabs r e n).
  - pose proof (naive_min_weight stabs n _ r Hr e L eq_refl) as Hmin.
    pose proof (bsf_wt_xorv r e n Lr L) as Hx.
    assert (2 * ((d - 1) / 2) <= d - 1) by (apply Nat.mul_div_le; lia). lia.
Qed.

(* ---- instantiating the distance hypothesis by exhaustive search over the low-weight operators ---- *)
Lemma pauli_wt_le_length (s : pstr) : pauli_wt s <= length s.
Proof. induction s as [|p s IH]; cbn; auto. destruct p; cbn; lia. Qed.
Lemma in_ibsf_wt n lo hi e : lo <= hi -> length e = 2 * n -> lo <= bsf_wt e <= hi -> In e (ibsf n lo hi).
Proof.
  intros Hlh L Hw. assert (Hev : Nat.even (length e) = true) by (rewrite L; apply Nat.even_spec; now exists n).
  rewrite <- (to_of_bsf e Hev) in Hw |- *. rewrite bsf_wt_to_bsf in Hw. unfold ibsf. apply in_map. apply ipauli_spec; auto.
  split; auto. pose proof (to_bsf_length (of_bsf e)) as H. rewrite (to_of_bsf e Hev) in H. lia.
Qed.
Definition low_weight_trivial (n : nat) (stabs : list bsf) (d : nat) : bool :=
  forallb (fun v => negb (is_zero (syndrome_of stabs v)) || in_spanb (2 * n) stabs v) (ibsf n 0 (d - 1)).
Theorem low_weight_trivial_sound n stabs d : 1 <= d -> low_weight_trivial n stabs d = true -> distance_lb n stabs d.
Proof.
  intros Hd H v L Hz Hw. unfold low_weight_trivial in H. rewrite forallb_forall in H.
  specialize (H v (in_ibsf_wt n 0 (d - 1) v ltac:(lia) L ltac:(lia))).
  apply orb_true_iff in H. destruct H as [H|H]; [|now apply in_spanb_sound].
  apply negb_true_iff in H. assert (Hz' : is_zero (syndrome_of stabs v) = true).
  { unfold is_zero. apply forallb_forall. intros x Hx. unfold syndrome_of in Hx. apply in_map_iff in Hx.
    destruct Hx as (s & <- & Hs). now rewrite (Hz s Hs). }
  congruence.
Qed.

Definition five_stabs : list bsf := map to_bsf [[pX;pZ;pZ;pX;pI]; [pI;pX;pZ;pZ;pX]; [pX;pI;pX;pZ;pZ]; [pZ;pX;pI;pX;pZ]].
Definition steane_stabs : list bsf := map to_bsf
  [[pI;pI;pI;pX;pX;pX;pX]; [pI;pX;pX;pI;pI;pX;pX]; [pX;pI;pX;pI;pX;pI;pX];
   [pI;pI;pI;pZ;pZ;pZ;pZ]; [pI;pZ;pZ;pI;pI;pZ;pZ]; [pZ;pI;pZ;pI;pZ;pI;pZ]].
Lemma five_distance_lb : distance_lb 5 five_stabs 3.
Proof. apply low_weight_trivial_sound; [lia|]. vm_compute. reflexivity. Qed.
Lemma steane_distance_lb : distance_lb 7 steane_stabs 3.
Proof. apply low_weight_trivial_sound; [lia|]. vm_compute. reflexivity. Qed.
Theorem five_naive_corrects e : length e = 10 -> bsf_wt e <= 1 ->
  exists r, naive five_stabs 5 (syndrome_of five_stabs e) = Some r /\ in_spanP 10 five_stabs (xorv r e).
Proof. intros L W. apply (naive_corrects 5 five_stabs 3); auto. apply five_distance_lb. Qed.
Theorem steane_naive_corrects e : length e = 14 -> bsf_wt e <= 1 ->
  exists r, naive steane_stabs 7 (syndrome_of steane_stabs e) = Some r /\ in_spanP 14 steane_stabs (xorv r e).
Proof. intros L W. apply (naive_corrects 7 steane_stabs 3); auto. apply steane_distance_lb. Qed.
