(* Decoders/ToricMwpmBrute.v — the matcher contract used by ToricMwpmCorrect.toric_mwpm_decode_corrects is satisfiable:
   an exhaustive matcher (enumerate every perfect matching of the node list that uses only edges of the graph, keep one of
   least total weight) meets it, for every graph.  Hence the toric decoder model instantiated with the exhaustive matcher
   corrects every error with X part and Z part of at most (min(rows, cols) - 1) / 2 qubits, for ALL sizes, with no
   hypothesis left ([toric_mwpm_brute_corrects]).  The enumeration and its completeness proof are those of
   PlanarMwpmBrute.v (after Decoders/Matching.v, C13), here over the three-component toric indices. *)
From Coq Require Import ZArith List Bool Lia ZifyBool Permutation.
From QV Require Import Core.Bits Core.Pauli Core.Symp Core.Code Core.Span Generated.LatticeArith
  Lattice.Planar Lattice.PlanarAll Lattice.Toric Lattice.ToricAll Decoders.MwpmRel Decoders.ToricMwpm Decoders.MwpmGraph
  Decoders.ToricMwpmCorrect.
Import ListNotations.
Open Scope Z_scope.

Fixpoint tremove1 (x : tidx) (l : list tidx) : list tidx :=
  match l with [] => [] | y :: r => if zeqb3 x y then r else y :: tremove1 x r end.
Definition thas_edge (g : list twedge) (a b : tidx) : bool := existsb (tjoins a b) g.
Fixpoint tpms (g : list twedge) (fuel : nat) (ns : list tidx) : list tmates :=
  match fuel with
  | O => match ns with [] => [[]] | _ => [] end
  | S f =>
    match ns with
    | [] => [[]]
    | a :: rest => flat_map (fun b => if thas_edge g a b then map (cons (a, b)) (tpms g f (tremove1 b rest)) else []) rest
    end
  end.
Definition tall_pms (g : list twedge) (ns : list tidx) : list tmates := tpms g (length ns) ns.

Lemma zeqb3_false a b : zeqb3 a b = false -> a <> b.
Proof. intros H E. subst. now rewrite zeqb3_refl in H. Qed.
Lemma tremove1_perm x l : In x l -> Permutation l (x :: tremove1 x l).
Proof.
  induction l as [|y l IH]; cbn; [tauto|]. destruct (zeqb3 x y) eqn:E.
  - apply zeqb3_eq in E. subst y. intros _. reflexivity.
  - apply zeqb3_false in E. intros [->|H]; [congruence|]. rewrite (IH H) at 1. apply perm_swap.
Qed.
Lemma tremove1_length x l : In x l -> S (length (tremove1 x l)) = length l.
Proof. intros H. apply tremove1_perm in H. apply Permutation_length in H. cbn in H. lia. Qed.

Lemma tjoins_spec a b t : tjoins a b t = true <-> exists w, t = (a, b, w) \/ t = (b, a, w).
Proof.
  destruct t as [[x y] w]. unfold tjoins. cbn [fst snd]. rewrite orb_true_iff, !andb_true_iff, !zeqb3_eq. split.
  - intros [[-> ->]|[-> ->]]; exists w; auto.
  - intros (w' & [E|E]); injection E as -> -> ->; auto.
Qed.
Lemma tjoins_sym a b t : tjoins a b t = tjoins b a t.
Proof. unfold tjoins. apply orb_comm. Qed.
Lemma thas_edge_spec g a b : thas_edge g a b = true <-> exists w, In (a, b, w) g \/ In (b, a, w) g.
Proof.
  unfold thas_edge. rewrite existsb_exists. split.
  - intros (t & Ht & Hj). apply tjoins_spec in Hj. destruct Hj as (w & [-> | ->]); eauto.
  - intros (w & [H|H]); [exists (a, b, w)|exists (b, a, w)]; (split; [exact H|]); apply tjoins_spec; eauto.
Qed.
Lemma thas_edge_sym g a b : thas_edge g a b = thas_edge g b a.
Proof. unfold thas_edge. induction g as [|t g IH]; [reflexivity|]. cbn [existsb]. now rewrite IH, tjoins_sym. Qed.
Lemma tgweight_sym g a b : tgweight g a b = tgweight g b a.
Proof.
  unfold tgweight. replace (find (tjoins b a) g) with (find (tjoins a b) g); [reflexivity|].
  induction g as [|t g IH]; [reflexivity|]. cbn [find]. now rewrite IH, tjoins_sym.
Qed.

Theorem tpms_sound g fuel : forall ns m, In m (tpms g fuel ns) -> Permutation (ends2 m) ns /\ tuses g m.
Proof.
  induction fuel as [|f IH]; intros ns m H.
  - destruct ns; cbn in H; [|tauto]. destruct H as [<-|[]]. split; [constructor|intros a b []].
  - destruct ns as [|a rest]; cbn [tpms] in H.
    + destruct H as [<-|[]]. split; [constructor|intros x y []].
    + apply in_flat_map in H. destruct H as (b & Hb & H). destruct (thas_edge g a b) eqn:E; [|destruct H].
      apply in_map_iff in H. destruct H as (m' & <- & Hm'). apply IH in Hm'. destruct Hm' as [P U]. split.
      * cbn [ends2 flat_map fst snd app]. fold (ends2 m'). rewrite P. apply perm_skip. symmetry. now apply tremove1_perm.
      * intros x y [Exy|Hxy]; [injection Exy as <- <-; now apply thas_edge_spec|auto].
Qed.

(* two listings of the same matching: reorder the pairs, flip pairs *)
Inductive tmeq : tmates -> tmates -> Prop :=
| tmeq_refl m : tmeq m m
| tmeq_perm m m' : Permutation m m' -> tmeq m m'
| tmeq_flip a b m : tmeq ((a, b) :: m) ((b, a) :: m)
| tmeq_cons p m m' : tmeq m m' -> tmeq (p :: m) (p :: m')
| tmeq_trans m1 m2 m3 : tmeq m1 m2 -> tmeq m2 m3 -> tmeq m1 m3.

Lemma tmweight_cons g p m : tmweight g (p :: m) = tgweight g (fst p) (snd p) + tmweight g m.
Proof. reflexivity. Qed.
Lemma tmweight_perm g m m' : Permutation m m' -> tmweight g m = tmweight g m'.
Proof.
  induction 1 as [|p m m' _ IH|p q m|m1 m2 m3 _ IH1 _ IH2]; [reflexivity| | |congruence].
  - now rewrite !tmweight_cons, IH.
  - rewrite !tmweight_cons. lia.
Qed.
Lemma tmweight_meq g m m' : tmeq m m' -> tmweight g m = tmweight g m'.
Proof.
  induction 1 as [m|m m' P|a b m|p m m' _ IH|m1 m2 m3 _ IH1 _ IH2]; [reflexivity|now apply tmweight_perm| | |congruence].
  - rewrite !tmweight_cons. cbn [fst snd]. now rewrite tgweight_sym.
  - now rewrite !tmweight_cons, IH.
Qed.

Theorem tpms_complete g fuel : forall ns m, (length ns <= 2 * fuel)%nat ->
  Permutation (ends2 m) ns -> tuses g m -> exists m', In m' (tpms g fuel ns) /\ tmeq m m'.
Proof.
  induction fuel as [|f IH]; intros ns m Hlen P U.
  - destruct ns; cbn in Hlen; [|lia]. apply Permutation_sym, Permutation_nil in P.
    destruct m as [|p m]; [|discriminate]. exists []. split; [cbn; auto|constructor].
  - destruct ns as [|a rest].
    + apply Permutation_sym, Permutation_nil in P. destruct m as [|p m]; [|discriminate].
      exists []. split; [cbn; auto|constructor].
    + assert (Ha : In a (ends2 m)) by (eapply Permutation_in; [apply Permutation_sym; eauto|cbn; auto]).
      unfold ends2 in Ha. apply in_flat_map in Ha. destruct Ha as (p & Hp & Hap).
      apply in_split in Hp. destruct Hp as (l1 & l2 & ->).
      set (m0 := l1 ++ l2).
      assert (Hmid : Permutation (l1 ++ p :: l2) (p :: m0)) by (symmetry; apply Permutation_middle).
      assert (Hb : exists b, tmeq (l1 ++ p :: l2) ((a, b) :: m0) /\ (p = (a, b) \/ p = (b, a))).
      { destruct p as [x y]. cbn in Hap. destruct Hap as [<-|[<-|[]]].
        - exists y. split; auto. now apply tmeq_perm.
        - exists x. split; auto. eapply tmeq_trans; [apply tmeq_perm, Hmid|apply tmeq_flip]. }
      destruct Hb as (b & Hmeq & Hpb).
      assert (Pe : Permutation (a :: b :: ends2 m0) (a :: rest)).
      { rewrite <- P. rewrite ends2_app. cbn [ends2 flat_map]. unfold m0. rewrite ends2_app.
        destruct Hpb as [-> | ->]; cbn [fst snd app].
        - rewrite <- Permutation_middle. apply perm_skip. rewrite <- Permutation_middle. reflexivity.
        - rewrite <- Permutation_middle. rewrite <- Permutation_middle. apply perm_swap. }
      apply Permutation_cons_inv in Pe.
      assert (Hbr : In b rest) by (eapply Permutation_in; [exact Pe|cbn; auto]).
      assert (Pe' : Permutation (ends2 m0) (tremove1 b rest)).
      { apply (Permutation_cons_inv (a := b)). rewrite Pe. now apply tremove1_perm. }
      assert (He : thas_edge g a b = true).
      { apply thas_edge_spec. destruct Hpb as [-> | ->].
        - apply (U a b). apply in_or_app. right. cbn; auto.
        - destruct (U b a ltac:(apply in_or_app; right; cbn; auto)) as (w & [H|H]); eauto. }
      assert (U0 : tuses g m0).
      { intros x y Hq. apply U. unfold m0 in Hq. apply in_app_or in Hq. apply in_or_app. cbn. tauto. }
      destruct (IH (tremove1 b rest) m0) as (m' & Hm' & Hmeq'); auto.
      { pose proof (tremove1_length _ _ Hbr). cbn in Hlen. lia. }
      exists ((a, b) :: m'). split.
      * cbn [tpms]. apply in_flat_map. exists b. split; auto. rewrite He. now apply in_map.
      * eapply tmeq_trans; [exact Hmeq|]. now apply tmeq_cons.
Qed.

(* keep one of least weight *)
Definition tpick_min (g : list twedge) (ms : list tmates) (m0 : tmates) : tmates :=
  fold_left (fun acc m => if tmweight g m <? tmweight g acc then m else acc) ms m0.
Lemma tpick_min_spec g ms : forall m0,
  (tpick_min g ms m0 = m0 \/ In (tpick_min g ms m0) ms) /\ tmweight g (tpick_min g ms m0) <= tmweight g m0 /\
  forall m, In m ms -> tmweight g (tpick_min g ms m0) <= tmweight g m.
Proof.
  induction ms as [|x ms IH]; intros m0.
  - unfold tpick_min. cbn [fold_left]. split; auto. split; [lia|intros m []].
  - change (tpick_min g (x :: ms) m0) with (tpick_min g ms (if tmweight g x <? tmweight g m0 then x else m0)).
    destruct (tmweight g x <? tmweight g m0) eqn:E.
    + destruct (IH x) as (H1 & H2 & H3). split; [destruct H1 as [-> |H1]; cbn; auto|]. split; [lia|].
      intros m [<-|Hm]; auto.
    + destruct (IH m0) as (H1 & H2 & H3). split; [destruct H1; cbn; auto|]. split; [exact H2|].
      intros m [<-|Hm]; [lia|auto].
Qed.
Definition tbrute_matcher (g : list twedge) (nodes : list tidx) : tmates :=
  match tall_pms g nodes with [] => [] | m0 :: ms => tpick_min g ms m0 end.

Theorem tbrute_matcher_contract g nodes : (exists m, Permutation (ends2 m) nodes /\ tuses g m) ->
  tmin_matching g nodes (tbrute_matcher g nodes).
Proof.
  intros (m & Pm & Um).
  destruct (tpms_complete g (length nodes) nodes m ltac:(lia) Pm Um) as (m1 & Hin1 & _).
  unfold tbrute_matcher. fold (tall_pms g nodes) in Hin1. destruct (tall_pms g nodes) as [|m0 ms] eqn:E; [destruct Hin1|].
  destruct (tpick_min_spec g ms m0) as (H1 & H2 & H3).
  assert (Hb : In (tpick_min g ms m0) (tall_pms g nodes)) by (rewrite E; destruct H1 as [-> |H1]; cbn; auto).
  destruct (tpms_sound g _ _ _ Hb) as [Pb Ub]. split; [exact Pb|]. split; [exact Ub|].
  intros m' Pm' Um'. destruct (tpms_complete g (length nodes) nodes m' ltac:(lia) Pm' Um') as (m'' & Hin & Heq).
  rewrite (tmweight_meq g _ _ Heq). fold (tall_pms g nodes) in Hin. rewrite E in Hin. destruct Hin as [<-|Hin]; auto.
Qed.

(* C14, toric part, for the decoder model with the exhaustive matcher: no hypothesis left *)
Theorem toric_mwpm_brute_corrects rows cols : 2 <= rows -> 2 <= cols -> forall e : bsf,
  let n := toric_n rows cols in let S := stabs (toric_code rows cols) in
  length e = (n + n)%nat ->
  Z.of_nat (count_true (firstn n e)) <= (Z.min rows cols - 1) / 2 ->
  Z.of_nat (count_true (skipn n e)) <= (Z.min rows cols - 1) / 2 ->
  exists r, toric_mwpm_decode tbrute_matcher rows cols (syndrome_of S e) = Some r /\ length r = (n + n)%nat /\
            syndrome_of S r = syndrome_of S e /\ in_spanP (n + n) S (xorv r e).
Proof. exact (toric_mwpm_decode_corrects tbrute_matcher tbrute_matcher_contract rows cols). Qed.

(* non-vacuity: the model decoder run on a 3x4 torus (t = 1): a Y on one qubit; X and Z on different qubits, one of them
   next to the seam; and on a 5x5 torus (t = 2) two X errors across the seam and two Z errors: the recovery returned is
   the error itself or differs from it by a product of stabilizers (checked by the theorem, here by computation) *)
Example toric_mwpm_brute_ex :
  let S := stabs (toric_code 3 4) in
  let e1 := p_to_bsf (tsite 3 4 pY (0, 0, 0) (tnew_pauli 3 4)) in
  let e2 := p_to_bsf (tsite 3 4 pX (0, 0, 3) (tsite 3 4 pZ (1, 2, 0) (tnew_pauli 3 4))) in
  tbrute_matcher (toric_graph 3 4 0 (syndrome_of S e2)) (lattice_defects 3 4 0 (syndrome_of S e2)) = [((0, 0, 3), (0, 2, 3))] /\
  toric_mwpm_decode tbrute_matcher 3 4 (syndrome_of S e1) = Some e1 /\
  toric_mwpm_decode tbrute_matcher 3 4 (syndrome_of S e2) = Some e2.
Proof. vm_compute. repeat split; reflexivity. Qed.
Example toric_mwpm_brute_ex5 :
  let S := stabs (toric_code 5 5) in
  let e := p_to_bsf (tsite 5 5 pX (0, 0, 4) (tsite 5 5 pX (0, 2, 1) (tsite 5 5 pZ (1, 3, 2) (tsite 5 5 pZ (1, 0, 0) (tnew_pauli 5 5))))) in
  Z.of_nat (count_true (firstn 50 e)) <= (Z.min 5 5 - 1) / 2 /\ Z.of_nat (count_true (skipn 50 e)) <= (Z.min 5 5 - 1) / 2 /\
  length (lattice_defects 5 5 0 (syndrome_of S e)) = 4%nat /\ length (lattice_defects 5 5 1 (syndrome_of S e)) = 4%nat /\
  (* three perfect matchings of different weights: minimality is a real constraint, and the matcher picks the lightest *)
  map (tmweight (toric_graph 5 5 0 (syndrome_of S e))) (tall_pms (toric_graph 5 5 0 (syndrome_of S e)) (lattice_defects 5 5 0 (syndrome_of S e))) = [7; 8; 2] /\
  tbrute_matcher (toric_graph 5 5 0 (syndrome_of S e)) (lattice_defects 5 5 0 (syndrome_of S e)) = [((0, 0, 4), (0, 4, 4)); ((0, 1, 1), (0, 2, 1))] /\
  exists r, toric_mwpm_decode tbrute_matcher 5 5 (syndrome_of S e) = Some r /\ in_spanP 100 S (xorv r e).
Proof.
  intros S e.
  assert (Wx : Z.of_nat (count_true (firstn 50 e)) <= (Z.min 5 5 - 1) / 2) by (vm_compute; discriminate).
  assert (Wz : Z.of_nat (count_true (skipn 50 e)) <= (Z.min 5 5 - 1) / 2) by (vm_compute; discriminate).
  split; [exact Wx|]. split; [exact Wz|]. split; [vm_compute; reflexivity|]. split; [vm_compute; reflexivity|].
  split; [vm_compute; reflexivity|]. split; [vm_compute; reflexivity|].
  destruct (toric_mwpm_brute_corrects 5 5 ltac:(lia) ltac:(lia) e ltac:(vm_compute; reflexivity) Wx Wz) as (r & R1 & _ & _ & R4).
  eauto.
Qed.

Print Assumptions tbrute_matcher_contract.
Print Assumptions toric_mwpm_brute_corrects.
