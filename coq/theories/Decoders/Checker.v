(* Decoders/Checker.v — the verified checker applied to what every decoder's decode / decode_ftp
   returned: right length, binary entries, syndrome reproduced; plus the generic lemmas used by the
   decoder skeletons (product of operators, multiplication by an operator with zero syndrome,
   recovery = XOR of paths over the mates of any perfect matching). *)
From Coq Require Import Arith List Bool Lia ZArith Permutation.
From QV Require Import Core.Bits Core.Pauli Core.Symp Core.Span App.RunOnce Decoders.Naive.
Import ListNotations.

(* the decoder's answer as the integers found in the returned array *)
Definition binary (r : list Z) : bool := forallb (fun x => Z.eqb x 0 || Z.eqb x 1) r.
Definition bits_of (r : list Z) : bsf := map (fun x => Z.eqb x 1) r.
Definition recovery_ok (stabs : list bsf) (n : nat) (r : list Z) (s : bsf) : bool :=
  (length r =? 2 * n) && binary r && beqv (syndrome_of stabs (bits_of r)) s.

Theorem recovery_ok_sound stabs n r s : recovery_ok stabs n r s = true ->
  length r = 2 * n /\ (forall x, In x r -> x = 0%Z \/ x = 1%Z) /\ syndrome_of stabs (bits_of r) = s.
Proof.
  unfold recovery_ok, binary. rewrite !andb_true_iff, Nat.eqb_eq, forallb_forall, beqv_spec.
  intros [[H1 H2] H3]. repeat split; auto. intros x Hx. specialize (H2 x Hx).
  apply orb_true_iff in H2. rewrite !Z.eqb_eq in H2. exact H2.
Qed.
Theorem recovery_ok_complete stabs n r s :
  length r = 2 * n -> (forall x, In x r -> x = 0%Z \/ x = 1%Z) -> syndrome_of stabs (bits_of r) = s ->
  recovery_ok stabs n r s = true.
Proof.
  intros H1 H2 H3. unfold recovery_ok, binary. rewrite !andb_true_iff, Nat.eqb_eq, forallb_forall, beqv_spec.
  repeat split; auto. intros x Hx. apply orb_true_iff. rewrite !Z.eqb_eq. auto.
Qed.
(* ... so recovery xor error commutes with every stabilizer, for every error with that syndrome *)
Theorem recovery_ok_returns stabs n r e : length e = 2 * n ->
  recovery_ok stabs n r (syndrome_of stabs e) = true -> zero_syndrome stabs (xorv (bits_of r) e).
Proof.
  intros Le H. apply recovery_ok_sound in H. destruct H as (L & _ & Hs).
  apply (syndrome_eq_zero stabs _ _ n); auto. unfold bits_of. now rewrite map_length.
Qed.

(* fault-tolerant target: the XOR of all syndrome rows *)
Definition recovery_ok_ftp (stabs : list bsf) (n : nat) (r : list Z) (rows : list bsf) : bool :=
  recovery_ok stabs n r (xsum (length stabs) rows).

(* the two formulations of C03's target coincide: "recovery has the XOR-of-rows syndrome" iff
   "recovery xor total error commutes with all stabilizers" *)
Lemma zero_syndrome_eq stabs a b n : length a = 2 * n -> length b = 2 * n ->
  zero_syndrome stabs (xorv a b) -> syndrome_of stabs a = syndrome_of stabs b.
Proof.
  intros La Lb H. unfold syndrome_of. apply map_ext_in. intros s Hs. specialize (H s Hs).
  rewrite bsp_linear_l in H by lia. destruct (bsp a s), (bsp b s); cbn in H; congruence.
Qed.
Theorem target_equiv stabs n errs ms r :
  rowlen (2 * n) errs -> rowlen (length stabs) ms -> length errs = length ms -> length r = 2 * n ->
  (syndrome_of stabs r = xsum (length stabs) (decoder_syndrome stabs errs ms)
   <-> zero_syndrome stabs (xorv r (total_error (2 * n) errs))).
Proof.
  intros He Hm HL Lr. rewrite (ftp_parity_total stabs (2 * n) errs ms He Hm HL).
  assert (Lt : length (total_error (2 * n) errs) = 2 * n) by (apply xsum_len; exact He).
  split; [apply (syndrome_eq_zero stabs _ _ n); auto|apply (zero_syndrome_eq stabs _ _ n); auto].
Qed.

(* product of operators: the syndrome of an XOR of operators is the XOR of their syndromes *)
Theorem product_syndrome stabs n2 ops : rowlen n2 ops ->
  syndrome_of stabs (xsum n2 ops) = xsum (length stabs) (map (syndrome_of stabs) ops).
Proof. exact (syndrome_xsum stabs n2 ops). Qed.
(* multiplying a candidate by an operator that commutes with all stabilizers (a logical) keeps its syndrome *)
Theorem logical_shift stabs n f l : length f = 2 * n -> length l = 2 * n -> zero_syndrome stabs l ->
  syndrome_of stabs (xorv f l) = syndrome_of stabs f.
Proof.
  intros Lf Ll Hz. unfold syndrome_of. apply map_ext_in. intros s Hs.
  rewrite bsp_linear_l by lia. rewrite (Hz s Hs). apply xorb_false_r.
Qed.

(* ---- MWPM skeleton: nodes carry an indicator syndrome (zero for virtual nodes); if the path
   between two nodes has the XOR of their indicators as syndrome, then for EVERY perfect matching
   of the node list the XOR of the paths over the mates has the XOR of all indicators ---- *)
Lemma xsum_perm k (l l' : list bsf) : rowlen k l -> Permutation l l' -> xsum k l = xsum k l'.
Proof.
  intros Hl P. induction P as [|x l l' P IH|x y l|l1 l2 l3 P1 IH1 P2 IH2].
  - reflexivity.
  - rewrite !xsum_cons. f_equal. apply IH. now inversion Hl.
  - rewrite !xsum_cons. rewrite <- !xorv_assoc. f_equal. apply xorv_comm.
  - rewrite IH1 by auto. apply IH2. unfold rowlen in *. rewrite Forall_forall in *. intros r Hr. apply Hl.
    eapply Permutation_in; [apply Permutation_sym; eauto|auto].
Qed.
Section Skeleton.
  Variable node : Type.
  Variable stabs : list bsf.
  Variable n2 : nat.
  Variable ind : node -> bsf.                 (* the syndrome bit(s) a node stands for *)
  Variable path : node -> node -> bsf.        (* the lattice path operator *)
  Hypothesis ind_len : forall a, length (ind a) = length stabs.
  Hypothesis path_len : forall a b, length (path a b) = n2.
  Hypothesis path_syndrome : forall a b, syndrome_of stabs (path a b) = xorv (ind a) (ind b).

  Definition pair_ends (m : list (node * node)) : list node := flat_map (fun p => [fst p; snd p]) m.
  Definition recovery_of (m : list (node * node)) : bsf := xsum n2 (map (fun p => path (fst p) (snd p)) m).

  Theorem mates_recovery_syndrome nodes m : Permutation (pair_ends m) nodes ->
    syndrome_of stabs (recovery_of m) = xsum (length stabs) (map ind nodes).
  Proof.
    intros P. unfold recovery_of. rewrite product_syndrome.
    2:{ unfold rowlen. apply Forall_map. apply Forall_forall. intros p _. apply path_len. }
    rewrite <- (xsum_perm (length stabs) (map ind (pair_ends m)) (map ind nodes)).
    - clear P. induction m as [|p m IH]; [reflexivity|]. cbn [map pair_ends flat_map app].
      rewrite !xsum_cons. rewrite path_syndrome. fold (pair_ends m). rewrite IH. now rewrite xorv_assoc.
    - unfold rowlen. apply Forall_map. apply Forall_forall. intros a _. apply ind_len.
    - now apply Permutation_map.
  Qed.
End Skeleton.
