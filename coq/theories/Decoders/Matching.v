(* Decoders/Matching.v — weighted graphs as insertion-ordered association lists over
   ordered node pairs (a Python dict), model of graphtools.SimpleGraph.add_edge
   (graphtools/__init__.py:13-19), perfect matchings, exhaustive enumeration, the verified
   minimum-weight checker, and the negate / max-cardinality wrapper of mwpm_networkx
   (graphtools/__init__.py:41-61) relative to a matcher contract.
   Nodes are nat ids (the harness numbers the Python node objects by identity), weights are in Q
   (ints and dyadic floats are exact rationals). *)
From Coq Require Import Arith List Bool Lia QArith Permutation.
Import ListNotations.
Open Scope nat_scope.

Definition key := (nat * nat)%type.
Definition graph := list (key * Q).
Definition matching := list (nat * nat).

Definition keyb (k k' : key) : bool := (fst k =? fst k') && (snd k =? snd k').
Lemma keyb_spec k k' : keyb k k' = true <-> k = k'.
Proof.
  destruct k as [a b], k' as [c d]. unfold keyb. cbn. rewrite andb_true_iff, !Nat.eqb_eq.
  split; [intros [-> ->]; reflexivity|intros E; injection E as -> ->; auto].
Qed.
Lemma keyb_refl k : keyb k k = true. Proof. now apply keyb_spec. Qed.
Lemma keyb_neq k k' : keyb k k' = false <-> k <> k'.
Proof. rewrite <- keyb_spec. destruct (keyb k k'); split; congruence. Qed.

(* ---------- the dict: dict.pop(key, None) and dict[key] = w ---------- *)
Fixpoint pop (k : key) (g : graph) : graph :=
  match g with [] => [] | (k', w) :: r => if keyb k k' then r else (k', w) :: pop k r end.
Fixpoint setk (k : key) (w : Q) (g : graph) : graph :=
  match g with
  | [] => [(k, w)]
  | (k', w') :: r => if keyb k k' then (k, w) :: r else (k', w') :: setk k w r
  end.
(* SimpleGraph.add_edge: self.pop((node_b, node_a), None); self[(node_a, node_b)] = weight *)
Definition add_edge (g : graph) (a b : nat) (w : Q) : graph := setk (a, b) w (pop (b, a) g).
Definition op := (nat * nat * Q)%type.
Definition add_op (g : graph) (o : op) : graph := add_edge g (fst (fst o)) (snd (fst o)) (snd o).
Definition build (ops : list op) : graph := fold_left add_op ops [].

(* the edge {a,b} as the matcher sees it: nx.Graph.add_weighted_edges_from over dict items lets a
   later entry for the same unordered pair override an earlier one *)
Definition upair (k : key) (a b : nat) : bool := keyb k (a, b) || keyb k (b, a).
Fixpoint edge (g : graph) (a b : nat) : option Q :=
  match g with
  | [] => None
  | (k, w) :: r => match edge r a b with Some w' => Some w' | None => if upair k a b then Some w else None end
  end.
Lemma upair_sym k a b : upair k a b = upair k b a.
Proof. unfold upair. apply orb_comm. Qed.
Lemma edge_sym g a b : edge g a b = edge g b a.
Proof. induction g as [|[k w] r IH]; cbn; auto. now rewrite IH, upair_sym. Qed.

(* the weight of the last insertion of the unordered pair {a,b} *)
Definition last_op (ops : list op) (a b : nat) : option Q :=
  fold_left (fun acc o => if upair (fst o) a b then Some (snd o) else acc) ops None.

(* invariant of a SimpleGraph: keys distinct, never a key together with its reverse *)
Definition keys (g : graph) : list key := map fst g.
Definition simple (g : graph) : Prop :=
  NoDup (keys g) /\ forall a b, a <> b -> In (a, b) (keys g) -> ~ In (b, a) (keys g).

Lemma in_pop k g e : NoDup (keys g) -> (In e (pop k g) <-> In e g /\ fst e <> k).
Proof.
  induction g as [|[k' w] r IH]; intros Hnd; cbn; [tauto|].
  inversion Hnd as [|? ? Hk Hr]; subst.
  destruct (keyb k k') eqn:E.
  - apply keyb_spec in E. subst k'. split.
    + intros H. split; auto. intros E. apply Hk. rewrite <- E. now apply in_map.
    + intros [[<-|H] Hn]; [cbn in Hn; congruence|auto].
  - apply keyb_neq in E. cbn. rewrite IH by auto. split.
    + intros [<-|[H Hn]]; cbn; auto.
    + intros [[<-|H] Hn]; auto.
Qed.
Lemma keys_pop_incl k g x : In x (keys (pop k g)) -> In x (keys g).
Proof.
  induction g as [|[k' w] r IH]; cbn; auto. destruct (keyb k k'); cbn; auto. intros [H|H]; auto.
Qed.
Lemma nodup_pop k g : NoDup (keys g) -> NoDup (keys (pop k g)).
Proof.
  induction g as [|[k' w] r IH]; intros Hnd; cbn; auto. inversion Hnd as [|? ? Hk Hr]; subst.
  destruct (keyb k k'); auto. cbn. constructor; auto. intros H. apply Hk. eapply keys_pop_incl; eauto.
Qed.
Lemma in_keys_pop k g x : NoDup (keys g) -> (In x (keys (pop k g)) <-> In x (keys g) /\ x <> k).
Proof.
  intros Hnd. unfold keys. rewrite !in_map_iff. split.
  - intros ([k' w] & <- & H). apply in_pop in H; auto. destruct H as [H Hn]. split; auto. exists (k', w). auto.
  - intros (([k' w] & <- & H) & Hn). exists (k', w). split; auto. apply in_pop; auto.
Qed.

Lemma in_setk k w g e : NoDup (keys g) ->
  (In e (setk k w g) <-> e = (k, w) \/ (In e g /\ fst e <> k)).
Proof.
  induction g as [|[k' w'] r IH]; intros Hnd; cbn.
  - split; [intros [<-|[]]; auto|intros [->|[[] _]]; auto].
  - inversion Hnd as [|? ? Hk Hr]; subst. destruct (keyb k k') eqn:E.
    + apply keyb_spec in E. subst k'. cbn. split.
      * intros [<-|H]; auto. right. split; auto. intros E. apply Hk. rewrite <- E. now apply in_map.
      * intros [->|[[<-|H] Hn]]; auto; cbn in Hn; congruence.
    + apply keyb_neq in E. cbn. rewrite IH by auto. split.
      * intros [<-|[->|[H Hn]]]; cbn; auto.
      * intros [->|[[<-|H] Hn]]; auto.
Qed.
Lemma keys_setk k w g x : In x (keys (setk k w g)) <-> x = k \/ In x (keys g).
Proof.
  induction g as [|[k' w'] r IH]; cbn; [split; intros [H|H]; auto|].
  destruct (keyb k k') eqn:E; cbn.
  - apply keyb_spec in E. subst k'. split; intros [H|H]; auto.
  - rewrite IH. split; intros H; intuition.
Qed.
Lemma nodup_setk k w g : NoDup (keys g) -> NoDup (keys (setk k w g)).
Proof.
  induction g as [|[k' w'] r IH]; intros Hnd; cbn; [repeat constructor; auto|].
  inversion Hnd as [|? ? Hk Hr]; subst. destruct (keyb k k') eqn:E; cbn.
  - apply keyb_spec in E. now subst k'.
  - apply keyb_neq in E. constructor; auto. intros H. apply keys_setk in H. destruct H as [->|H]; auto.
Qed.

Lemma simple_add_edge g a b w : simple g -> simple (add_edge g a b w).
Proof.
  intros [Hnd Hrev]. unfold add_edge. split.
  - apply nodup_setk, nodup_pop, Hnd.
  - intros x y Hxy H1 H2. apply keys_setk in H1, H2.
    rewrite !in_keys_pop in H1, H2 by auto.
    destruct H1 as [E1|[H1 N1]], H2 as [E2|[H2 N2]].
    + congruence.
    + injection E1 as -> ->. congruence.
    + injection E2 as -> ->. congruence.
    + now apply (Hrev x y).
Qed.
Lemma simple_nil : simple [].
Proof. split; [constructor|intros a b _ []]. Qed.
Lemma fold_inv {A B} (P : A -> Prop) (f : A -> B -> A) l : (forall a b, P a -> P (f a b)) -> forall a, P a -> P (fold_left f l a).
Proof. intros H. induction l as [|b l IH]; cbn; auto. Qed.
Lemma simple_build ops : simple (build ops).
Proof. unfold build. apply fold_inv; [|apply simple_nil]. intros g o. apply simple_add_edge. Qed.

(* in a simple graph the edge is the unique entry for the unordered pair *)
Lemma edge_some_in g a b w : edge g a b = Some w -> In ((a, b), w) g \/ In ((b, a), w) g.
Proof.
  induction g as [|[k w'] r IH]; cbn; [discriminate|].
  destruct (edge r a b) eqn:E.
  - intros H. injection H as <-. destruct (IH eq_refl); auto.
  - unfold upair. destruct (keyb k (a, b)) eqn:E1; cbn.
    + apply keyb_spec in E1. subst k. intros H. injection H as <-. auto.
    + destruct (keyb k (b, a)) eqn:E2; [|discriminate]. apply keyb_spec in E2. subst k. intros H. injection H as <-. auto.
Qed.
Lemma edge_none_notin g a b : edge g a b = None -> ~ In (a, b) (keys g) /\ ~ In (b, a) (keys g).
Proof.
  induction g as [|[k w'] r IH]; cbn; [tauto|].
  destruct (edge r a b) eqn:E; [discriminate|]. specialize (IH eq_refl).
  unfold upair. destruct (keyb k (a, b)) eqn:E1; cbn; [discriminate|].
  destruct (keyb k (b, a)) eqn:E2; [discriminate|]. intros _. apply keyb_neq in E1, E2. intuition.
Qed.
Lemma simple_unique g k w w' : NoDup (keys g) -> In (k, w) g -> In (k, w') g -> w = w'.
Proof.
  induction g as [|[k0 w0] r IH]; intros Hnd H1 H2; [destruct H1|].
  inversion Hnd as [|? ? Hk Hr]; subst. cbn in H1, H2.
  destruct H1 as [E1|H1], H2 as [E2|H2].
  - congruence.
  - injection E1 as -> ->. exfalso. apply Hk. change (In (fst (k, w')) (keys r)). now apply in_map.
  - injection E2 as -> ->. exfalso. apply Hk. change (In (fst (k, w)) (keys r)). now apply in_map.
  - eauto.
Qed.
Lemma edge_simple g a b w : simple g -> (edge g a b = Some w <-> In ((a, b), w) g \/ In ((b, a), w) g).
Proof.
  intros [Hnd Hrev]. split; [apply edge_some_in|]. intros H.
  destruct (edge g a b) as [w'|] eqn:E.
  - f_equal. apply edge_some_in in E.
    assert (Hk : forall x y v, In ((x, y), v) g -> In (x, y) (keys g))
      by (intros x y v Hv; change (In (fst ((x, y), v)) (keys g)); now apply in_map).
    destruct (Nat.eq_dec a b) as [->|Hab].
    + destruct H, E; eapply simple_unique; eauto.
    + destruct H as [H|H], E as [E|E].
      * eapply simple_unique; eauto.
      * exfalso. eapply (Hrev a b); eauto.
      * exfalso. eapply (Hrev a b); eauto.
      * eapply simple_unique; eauto.
  - apply edge_none_notin in E. destruct E as [E1 E2]. exfalso.
    destruct H as [H|H]; [apply E1|apply E2]; change (In (fst ((a, b), w)) (keys g)) || change (In (fst ((b, a), w)) (keys g)); now apply in_map.
Qed.

Lemma edge_add_edge g x y w a b : simple g ->
  edge (add_edge g x y w) a b = if upair (x, y) a b then Some w else edge g a b.
Proof.
  intros Hs. pose proof (simple_add_edge g x y w Hs) as Hs'.
  assert (Hin : forall e, In e (add_edge g x y w) <-> e = ((x, y), w) \/ (In e g /\ fst e <> (y, x) /\ fst e <> (x, y))).
  { intros e. unfold add_edge. rewrite in_setk by (apply nodup_pop, Hs). rewrite in_pop by apply Hs. tauto. }
  assert (Hopt : forall o o' : option Q, (forall v, o = Some v <-> o' = Some v) -> o = o').
  { intros [v|] [v'|] H; auto.
    - apply H. reflexivity. - symmetry. apply H. reflexivity. - apply H. reflexivity. }
  apply Hopt. intros v. rewrite (edge_simple _ _ _ _ Hs'), !Hin.
  unfold upair. destruct (keyb (x, y) (a, b)) eqn:E1; cbn [orb].
  - apply keyb_spec in E1. injection E1 as -> ->. cbn [fst]. split.
    + intros [[E|(H & N1 & N2)]|[E|(H & N1 & N2)]]; try congruence.
    + intros E. injection E as ->. auto.
  - destruct (keyb (x, y) (b, a)) eqn:E2.
    + apply keyb_spec in E2. injection E2 as -> ->. cbn [fst]. split.
      * intros [[E|(H & N1 & N2)]|[E|(H & N1 & N2)]]; try congruence.
      * intros E. injection E as ->. auto.
    + apply keyb_neq in E1, E2. rewrite (edge_simple _ _ _ _ Hs). cbn [fst]. split.
      * intros [[E|(H & N1 & N2)]|[E|(H & N1 & N2)]]; try congruence; auto.
      * intros [H|H]; [left|right]; right; repeat split; auto; congruence.
Qed.

Lemma last_op_snoc ops o a b :
  last_op (ops ++ [o]) a b = if upair (fst o) a b then Some (snd o) else last_op ops a b.
Proof. unfold last_op. now rewrite fold_left_app. Qed.
Lemma build_snoc ops o : build (ops ++ [o]) = add_op (build ops) o.
Proof. unfold build. now rewrite fold_left_app. Qed.

(* after any insertion sequence the edge {a,b} carries the weight of its last insertion, in
   whichever orientation that was made *)
Theorem build_edge ops : forall a b, edge (build ops) a b = last_op ops a b.
Proof.
  induction ops as [|o ops IH] using rev_ind; intros a b; [reflexivity|].
  rewrite build_snoc, last_op_snoc. unfold add_op. rewrite edge_add_edge by apply simple_build.
  destruct o as [[x y] w]. cbn [fst snd]. now rewrite IH.
Qed.
(* ... and there is at most one entry per unordered pair *)
Theorem build_one_entry ops a b e1 e2 :
  In e1 (build ops) -> In e2 (build ops) -> upair (fst e1) a b = true -> upair (fst e2) a b = true -> e1 = e2.
Proof.
  destruct (simple_build ops) as [Hnd Hrev]. intros H1 H2 U1 U2.
  destruct e1 as [k1 w1], e2 as [k2 w2]. cbn [fst] in *.
  unfold upair in U1, U2. apply orb_true_iff in U1, U2. rewrite !keyb_spec in U1, U2.
  assert (K : forall k v, In (k, v) (build ops) -> In k (keys (build ops)))
    by (intros k v Hv; change (In (fst (k, v)) (keys (build ops))); now apply in_map).
  destruct (Nat.eq_dec a b) as [->|Hab].
  - assert (k1 = k2) by (destruct U1, U2; congruence). subst k2. f_equal. eapply simple_unique; eauto.
  - destruct U1 as [->| ->], U2 as [->| ->].
    + f_equal. eapply simple_unique; eauto.
    + exfalso. eapply (Hrev a b); eauto.
    + exfalso. eapply (Hrev a b); eauto.
    + f_equal. eapply simple_unique; eauto.
Qed.

(* ---------- nodes, matchings, perfect matchings, weight ---------- *)
Definition ends (m : matching) : list nat := flat_map (fun p => [fst p; snd p]) m.
Definition nodes (g : graph) : list nat := nodup Nat.eq_dec (ends (keys g)).
Lemma nodes_nodup g : NoDup (nodes g). Proof. apply NoDup_nodup. Qed.

(* a matching of g: no node used twice, only nodes and edges of g (in either orientation) *)
Definition is_matching (g : graph) (m : matching) : Prop :=
  NoDup (ends m) /\ (forall p, In p m -> edge g (fst p) (snd p) <> None).
(* perfect: moreover every node of g is covered *)
Definition perfect (g : graph) (m : matching) : Prop :=
  NoDup (ends m) /\ (forall x, In x (ends m) <-> In x (nodes g)) /\
  (forall p, In p m -> edge g (fst p) (snd p) <> None).

Definition wt (g : graph) (p : nat * nat) : Q := match edge g (fst p) (snd p) with Some w => w | None => 0%Q end.
Definition weight (g : graph) (m : matching) : Q := fold_right (fun p acc => (wt g p + acc)%Q) 0%Q m.

Lemma key_in_nodes g x y : In (x, y) (keys g) -> In x (nodes g) /\ In y (nodes g).
Proof.
  intros H. unfold nodes. rewrite !nodup_In. unfold ends. rewrite !in_flat_map.
  split; exists (x, y); cbn; auto.
Qed.
Lemma edge_in_nodes g a b : edge g a b <> None -> In a (nodes g) /\ In b (nodes g).
Proof.
  intros H. destruct (edge g a b) as [w|] eqn:E; [|congruence]. apply edge_some_in in E.
  destruct E as [E|E]; apply (in_map fst) in E; apply key_in_nodes in E; tauto.
Qed.

Lemma perfect_perm g m : perfect g m <-> Permutation (ends m) (nodes g) /\ (forall p, In p m -> edge g (fst p) (snd p) <> None).
Proof.
  split.
  - intros (H1 & H2 & H3). split; auto. apply NoDup_Permutation; auto. apply nodes_nodup.
  - intros (H1 & H3). split; [|split; auto].
    + apply Permutation_sym in H1. eapply Permutation_NoDup; eauto. apply nodes_nodup.
    + intros x. split; apply Permutation_in; auto. now apply Permutation_sym.
Qed.

(* ---------- exhaustive enumeration (first uncovered node is matched first) ---------- *)
Fixpoint remove1 (x : nat) (l : list nat) : list nat :=
  match l with [] => [] | y :: r => if x =? y then r else y :: remove1 x r end.
Fixpoint pms (g : graph) (fuel : nat) (ns : list nat) : list matching :=
  match fuel with
  | O => match ns with [] => [[]] | _ => [] end
  | S f =>
    match ns with
    | [] => [[]]
    | a :: rest =>
        flat_map (fun b => match edge g a b with
                           | Some _ => map (cons (a, b)) (pms g f (remove1 b rest))
                           | None => [] end) rest
    end
  end.
Definition all_pms (g : graph) : list matching := pms g (length (nodes g)) (nodes g).

Lemma remove1_perm x l : In x l -> Permutation l (x :: remove1 x l).
Proof.
  induction l as [|y l IH]; cbn; [tauto|]. destruct (x =? y) eqn:E.
  - apply Nat.eqb_eq in E. subst y. intros _. reflexivity.
  - apply Nat.eqb_neq in E. intros [->|H]; [congruence|]. rewrite (IH H) at 1. apply perm_swap.
Qed.
Lemma remove1_length x l : In x l -> S (length (remove1 x l)) = length l.
Proof. intros H. apply remove1_perm in H. apply Permutation_length in H. cbn in H. lia. Qed.

Definition uses_edges (g : graph) (m : matching) : Prop := forall p, In p m -> edge g (fst p) (snd p) <> None.

Theorem pms_sound g fuel : forall ns m, In m (pms g fuel ns) -> Permutation (ends m) ns /\ uses_edges g m.
Proof.
  induction fuel as [|f IH]; intros ns m H.
  - destruct ns; cbn in H; [|tauto]. destruct H as [<-|[]]. split; [constructor|intros p []].
  - destruct ns as [|a rest]; cbn [pms] in H.
    + destruct H as [<-|[]]. split; [constructor|intros p []].
    + apply in_flat_map in H. destruct H as (b & Hb & H). destruct (edge g a b) as [w|] eqn:E; [|destruct H].
      apply in_map_iff in H. destruct H as (m' & <- & Hm'). apply IH in Hm'. destruct Hm' as [P U]. split.
      * cbn. rewrite P. apply perm_skip. symmetry. now apply remove1_perm.
      * intros p [<-|Hp]; [cbn; congruence|auto].
Qed.

(* two listings of the same matching: reorder the pairs, flip pairs *)
Inductive meq : matching -> matching -> Prop :=
| meq_refl m : meq m m
| meq_perm m m' : Permutation m m' -> meq m m'
| meq_flip a b m : meq ((a, b) :: m) ((b, a) :: m)
| meq_cons p m m' : meq m m' -> meq (p :: m) (p :: m')
| meq_trans m1 m2 m3 : meq m1 m2 -> meq m2 m3 -> meq m1 m3.

Lemma wt_flip g a b : wt g (a, b) = wt g (b, a).
Proof. unfold wt. cbn. now rewrite edge_sym. Qed.
Lemma weight_perm g m m' : Permutation m m' -> (weight g m == weight g m')%Q.
Proof.
  induction 1 as [|p m m' _ IH|p q m|m1 m2 m3 _ IH1 _ IH2]; cbn.
  - reflexivity.
  - now rewrite IH.
  - rewrite !Qplus_assoc. now rewrite (Qplus_comm (wt g q)).
  - now rewrite IH1.
Qed.
Lemma weight_meq g m m' : meq m m' -> (weight g m == weight g m')%Q.
Proof.
  induction 1 as [m|m m' P|a b m|p m m' _ IH|m1 m2 m3 _ IH1 _ IH2].
  - reflexivity.
  - now apply weight_perm.
  - cbn. now rewrite wt_flip.
  - cbn. now rewrite IH.
  - now rewrite IH1.
Qed.
(* the same unordered pairs *)
Definition same_pairs (m m' : matching) : Prop :=
  forall a b, (In (a, b) m \/ In (b, a) m) <-> (In (a, b) m' \/ In (b, a) m').
Lemma meq_same_pairs m m' : meq m m' -> same_pairs m m' /\ length m = length m'.
Proof.
  induction 1 as [m|m m' P|a b m|p m m' _ IH|m1 m2 m3 _ IH1 _ IH2].
  - split; [intros a b; tauto|auto].
  - split; [|now apply Permutation_length]. intros a b.
    assert (P' := Permutation_sym P).
    split; (intros [H|H]; [left|right]); (eapply Permutation_in; [|exact H]); assumption.
  - split; auto. intros x y. cbn. split; intros [[E|H]|[E|H]]; auto; injection E as -> ->; auto.
  - destruct IH as [IH L]. split; [|cbn; now rewrite L]. intros a b. cbn. specialize (IH a b). tauto.
  - destruct IH1 as [S1 L1], IH2 as [S2 L2]. split; [|congruence]. intros a b. now rewrite (S1 a b).
Qed.

Lemma ends_app m1 m2 : ends (m1 ++ m2) = ends m1 ++ ends m2.
Proof. unfold ends. apply flat_map_app. Qed.

Theorem pms_complete g fuel : forall ns m, length ns <= 2 * fuel ->
  Permutation (ends m) ns -> uses_edges g m ->
  exists m', In m' (pms g fuel ns) /\ meq m m'.
Proof.
  induction fuel as [|f IH]; intros ns m Hlen P U.
  - destruct ns; cbn in Hlen; [|lia]. apply Permutation_sym, Permutation_nil in P.
    destruct m as [|p m]; [|discriminate]. exists []. split; [cbn; auto|constructor].
  - destruct ns as [|a rest].
    + apply Permutation_sym, Permutation_nil in P. destruct m as [|p m]; [|discriminate].
      exists []. split; [cbn; auto|constructor].
    + assert (Ha : In a (ends m)) by (eapply Permutation_in; [apply Permutation_sym; eauto|cbn; auto]).
      unfold ends in Ha. apply in_flat_map in Ha. destruct Ha as (p & Hp & Hap).
      apply in_split in Hp. destruct Hp as (l1 & l2 & ->).
      (* b := the partner of a, m0 := the other pairs *)
      set (m0 := l1 ++ l2).
      assert (Hmid : Permutation (l1 ++ p :: l2) (p :: m0)) by (symmetry; apply Permutation_middle).
      assert (Hb : exists b, meq (l1 ++ p :: l2) ((a, b) :: m0) /\ (p = (a, b) \/ p = (b, a))).
      { destruct p as [x y]. cbn in Hap. destruct Hap as [<-|[<-|[]]].
        - exists y. split; auto. now apply meq_perm.
        - exists x. split; auto. eapply meq_trans; [apply meq_perm, Hmid|apply meq_flip]. }
      destruct Hb as (b & Hmeq & Hpb).
      assert (Pe : Permutation (a :: b :: ends m0) (a :: rest)).
      { rewrite <- P. rewrite ends_app. cbn [ends flat_map]. unfold m0. rewrite ends_app.
        destruct Hpb as [-> | ->]; cbn [fst snd app].
        - rewrite <- Permutation_middle. apply perm_skip. rewrite <- Permutation_middle. reflexivity.
        - rewrite <- Permutation_middle. rewrite <- Permutation_middle. apply perm_swap. }
      apply Permutation_cons_inv in Pe.
      assert (Hbr : In b rest) by (eapply Permutation_in; [exact Pe|cbn; auto]).
      assert (Pe' : Permutation (ends m0) (remove1 b rest)).
      { apply (Permutation_cons_inv (a := b)). rewrite Pe. now apply remove1_perm. }
      assert (He : edge g a b <> None).
      { specialize (U p ltac:(apply in_or_app; right; cbn; auto)).
        destruct Hpb as [-> | ->]; cbn in U; auto. now rewrite edge_sym. }
      assert (U0 : uses_edges g m0).
      { intros q Hq. apply U. unfold m0 in Hq. apply in_app_or in Hq. apply in_or_app. cbn. tauto. }
      destruct (IH (remove1 b rest) m0) as (m' & Hm' & Hmeq'); auto.
      { pose proof (remove1_length _ _ Hbr). cbn in Hlen. lia. }
      exists ((a, b) :: m'). split.
      * cbn [pms]. apply in_flat_map. exists b. split; auto.
        destruct (edge g a b); [|congruence]. now apply in_map.
      * eapply meq_trans; [exact Hmeq|]. now apply meq_cons.
Qed.

Theorem all_pms_sound g m : In m (all_pms g) -> perfect g m.
Proof. intros H. apply pms_sound in H. now apply perfect_perm. Qed.
Theorem all_pms_complete g m : perfect g m -> exists m', In m' (all_pms g) /\ meq m m'.
Proof. intros H. apply perfect_perm in H. destruct H as [P U]. apply pms_complete; auto. lia. Qed.

(* ---------- deciding perfection, and the minimum-weight checker ---------- *)
Fixpoint memb (x : nat) (l : list nat) : bool := match l with [] => false | y :: r => (x =? y) || memb x r end.
Fixpoint nodupb (l : list nat) : bool := match l with [] => true | x :: r => negb (memb x r) && nodupb r end.
Lemma memb_spec x l : memb x l = true <-> In x l.
Proof. induction l as [|y l IH]; cbn; [split; [discriminate|tauto]|]. rewrite orb_true_iff, Nat.eqb_eq, IH. intuition. Qed.
Lemma nodupb_spec l : nodupb l = true <-> NoDup l.
Proof.
  induction l as [|x l IH]; cbn; [split; [constructor|auto]|].
  rewrite andb_true_iff, negb_true_iff, IH. split.
  - intros [H1 H2]. constructor; auto. rewrite <- memb_spec. congruence.
  - intros H. inversion H as [|? ? H1 H2]; subst. split; auto. rewrite <- memb_spec in H1. now destruct (memb x l).
Qed.
Definition has_edge (g : graph) (p : nat * nat) : bool := match edge g (fst p) (snd p) with Some _ => true | None => false end.
Definition is_perfect (g : graph) (m : matching) : bool :=
  nodupb (ends m) && (length (ends m) =? length (nodes g)) && forallb (fun x => memb x (nodes g)) (ends m)
  && forallb (has_edge g) m.
Lemma is_perfect_spec g m : is_perfect g m = true <-> perfect g m.
Proof.
  unfold is_perfect. rewrite !andb_true_iff, nodupb_spec, Nat.eqb_eq, !forallb_forall. rewrite perfect_perm. split.
  - intros (((H1 & H2) & H3) & H4). split.
    + apply NoDup_Permutation_bis; auto; [lia|]. intros x Hx. apply memb_spec. auto.
    + intros p Hp. specialize (H4 p Hp). unfold has_edge in H4. destruct (edge g (fst p) (snd p)); congruence.
  - intros (P & U). repeat split.
    + apply Permutation_sym in P. eapply Permutation_NoDup; eauto. apply nodes_nodup.
    + now apply Permutation_length.
    + intros x Hx. apply memb_spec. eapply Permutation_in; eauto.
    + intros p Hp. specialize (U p Hp). unfold has_edge. destruct (edge g (fst p) (snd p)); congruence.
Qed.

Definition is_min_pm (g : graph) (m : matching) : bool :=
  is_perfect g m && forallb (fun m' => Qle_bool (weight g m) (weight g m')) (all_pms g).

Theorem is_min_pm_spec g m : is_min_pm g m = true <->
  perfect g m /\ forall m', perfect g m' -> (weight g m <= weight g m')%Q.
Proof.
  unfold is_min_pm. rewrite andb_true_iff, is_perfect_spec, forallb_forall. split; intros [Hp Hmin]; split; auto.
  - intros m' Hm'. destruct (all_pms_complete g m' Hm') as (m'' & Hin & Heq).
    rewrite (weight_meq g _ _ Heq). apply Qle_bool_iff. auto.
  - intros m' Hin. apply Qle_bool_iff. apply Hmin. now apply all_pms_sound.
Qed.

(* the least weight over all perfect matchings (None: there is none) *)
Definition qmin (a b : Q) : Q := if Qle_bool a b then a else b.
Definition min_pm_weight (g : graph) : option Q :=
  match map (weight g) (all_pms g) with [] => None | w :: ws => Some (fold_left qmin ws w) end.
Lemma fold_qmin_le ws : forall w, (fold_left qmin ws w <= w)%Q /\ forall x, In x ws -> (fold_left qmin ws w <= x)%Q.
Proof.
  induction ws as [|y ws IH]; intros w; cbn; [split; [apply Qle_refl|tauto]|].
  destruct (IH (qmin w y)) as [H1 H2].
  assert (Hq : (qmin w y <= w)%Q /\ (qmin w y <= y)%Q).
  { unfold qmin. destruct (Qle_bool w y) eqn:E.
    - apply Qle_bool_iff in E. split; [apply Qle_refl|auto].
    - split; [|apply Qle_refl]. destruct (Qlt_le_dec y w) as [L|L]; [now apply Qlt_le_weak|].
      apply Qle_bool_iff in L. congruence. }
  split; [eapply Qle_trans; [apply H1|apply Hq]|]. intros x [<-|Hx]; auto. eapply Qle_trans; [apply H1|apply Hq].
Qed.
Lemma fold_qmin_in ws : forall w, fold_left qmin ws w = w \/ In (fold_left qmin ws w) ws.
Proof.
  induction ws as [|y ws IH]; intros w; cbn; auto.
  destruct (IH (qmin w y)) as [H|H]; auto. rewrite H. unfold qmin. destruct (Qle_bool w y); auto.
Qed.
Theorem min_pm_weight_spec g w : min_pm_weight g = Some w ->
  (exists m, perfect g m /\ weight g m = w) /\ forall m', perfect g m' -> (w <= weight g m')%Q.
Proof.
  unfold min_pm_weight. destruct (map (weight g) (all_pms g)) as [|w0 ws] eqn:E; [discriminate|].
  intros H. injection H as <-. split.
  - assert (Hin : In (fold_left qmin ws w0) (map (weight g) (all_pms g))).
    { rewrite E. destruct (fold_qmin_in ws w0) as [-> |H]; cbn; auto. }
    apply in_map_iff in Hin. destruct Hin as (m & Hw & Hm). exists m. split; auto. now apply all_pms_sound.
  - intros m' Hm'. destruct (all_pms_complete g m' Hm') as (m'' & Hin & Heq).
    rewrite (weight_meq g _ _ Heq).
    assert (Hw : In (weight g m'') (w0 :: ws)) by (rewrite <- E; now apply in_map).
    destruct (fold_qmin_le ws w0) as [H1 H2]. destruct Hw as [<-|Hw]; auto.
Qed.
Theorem min_pm_weight_none g : min_pm_weight g = None <-> forall m, ~ perfect g m.
Proof.
  unfold min_pm_weight. destruct (all_pms g) as [|m0 ms] eqn:E; cbn; split; intros H; try discriminate; auto.
  - intros m Hm. destruct (all_pms_complete g m Hm) as (m' & Hin & _). rewrite E in Hin. destruct Hin.
  - exfalso. apply (H m0). apply all_pms_sound. rewrite E. cbn. auto.
Qed.

(* ---------- mwpm_networkx: negate the weights, maximum-weight maximum-cardinality matching ---------- *)
Definition negate (g : graph) : graph := map (fun e => (fst e, Qopp (snd e))) g.
Lemma keys_negate g : keys (negate g) = keys g.
Proof. unfold keys, negate. rewrite map_map. reflexivity. Qed.
Lemma nodes_negate g : nodes (negate g) = nodes g.
Proof. unfold nodes. now rewrite keys_negate. Qed.
Lemma edge_negate g a b : edge (negate g) a b = option_map Qopp (edge g a b).
Proof.
  induction g as [|[k w] r IH]; [reflexivity|]. change (negate ((k, w) :: r)) with ((k, Qopp w) :: negate r).
  cbn [edge]. rewrite IH. destruct (edge r a b); cbn; auto. now destruct (upair k a b).
Qed.
Lemma uses_edges_negate g m : uses_edges (negate g) m <-> uses_edges g m.
Proof.
  unfold uses_edges. split; intros H p Hp; specialize (H p Hp); rewrite edge_negate in *;
    destruct (edge g (fst p) (snd p)); cbn in *; congruence.
Qed.
Lemma weight_negate g m : (weight (negate g) m == - weight g m)%Q.
Proof.
  induction m as [|p m IH]; [reflexivity|].
  change (weight (negate g) (p :: m)) with (wt (negate g) p + weight (negate g) m)%Q.
  change (weight g (p :: m)) with (wt g p + weight g m)%Q. rewrite IH.
  assert (H : (wt (negate g) p == - wt g p)%Q).
  { unfold wt. rewrite edge_negate. destruct (edge g (fst p) (snd p)); cbn [option_map]; reflexivity. }
  rewrite H. ring.
Qed.
Lemma is_matching_negate g m : is_matching (negate g) m <-> is_matching g m.
Proof. unfold is_matching. pose proof (uses_edges_negate g m) as H. unfold uses_edges in H. tauto. Qed.

Lemma ends_length m : length (ends m) = 2 * length m.
Proof. unfold ends. induction m as [|p m IH]; cbn in *; lia. Qed.
Lemma matching_ends_incl g m : is_matching g m -> incl (ends m) (nodes g).
Proof.
  intros [_ U] x Hx. unfold ends in Hx. apply in_flat_map in Hx. destruct Hx as (p & Hp & Hx).
  destruct (edge_in_nodes g _ _ (U p Hp)) as [H1 H2]. cbn in Hx. destruct Hx as [<-|[<-|[]]]; auto.
Qed.
Lemma perfect_is_matching g m : perfect g m -> is_matching g m.
Proof. intros (H1 & _ & H3). split; auto. Qed.
Lemma perfect_length g m : perfect g m -> 2 * length m = length (nodes g).
Proof. intros H. apply perfect_perm in H. destruct H as [P _]. apply Permutation_length in P. now rewrite ends_length in P. Qed.

Section Wrapper.
  (* nx.algorithms.max_weight_matching(G, maxcardinality=True), as a black box with its documented
     contract: a matching, of maximum cardinality, of maximum weight among those *)
  Variable MaxW : graph -> matching.
  Hypothesis MaxW_matching : forall h, is_matching h (MaxW h).
  Hypothesis MaxW_card : forall h m, is_matching h m -> length m <= length (MaxW h).
  Hypothesis MaxW_weight : forall h m, is_matching h m -> length m = length (MaxW h) ->
    (weight h m <= weight h (MaxW h))%Q.

  Definition mwpm_networkx (g : graph) : matching := match g with [] => [] | _ => MaxW (negate g) end.

  Lemma maxw_perfect g : (exists m0, perfect g m0) -> perfect g (MaxW (negate g)).
  Proof.
    intros (m0 & H0). set (M := MaxW (negate g)).
    assert (HM : is_matching g M) by (apply is_matching_negate, MaxW_matching).
    assert (Hc : length m0 <= length M) by (apply MaxW_card, is_matching_negate, perfect_is_matching, H0).
    apply perfect_perm. split; [|apply HM].
    apply NoDup_Permutation_bis; [apply HM| |now apply matching_ends_incl].
    rewrite ends_length. rewrite <- (perfect_length g m0 H0). lia.
  Qed.

  Theorem wrapper_min_perfect g : (exists m0, perfect g m0) ->
    perfect g (mwpm_networkx g) /\ forall m', perfect g m' -> (weight g (mwpm_networkx g) <= weight g m')%Q.
  Proof.
    intros Hex. destruct g as [|e g'].
    - cbn. split.
      + split; [constructor|split; [intros x; cbn; tauto|intros p []]].
      + intros m' (_ & H & _). destruct m' as [|p m']; [apply Qle_refl|]. exfalso. apply (H (fst p)). cbn. auto.
    - set (g := e :: g') in *. change (mwpm_networkx g) with (MaxW (negate g)).
      pose proof (maxw_perfect g Hex) as HP. split; auto. intros m' Hm'.
      assert (L : length m' = length (MaxW (negate g))).
      { pose proof (perfect_length g _ HP). pose proof (perfect_length g _ Hm'). lia. }
      pose proof (MaxW_weight (negate g) m' (proj2 (is_matching_negate g m') (perfect_is_matching g m' Hm')) L) as HW.
      rewrite !weight_negate in HW. now apply Qopp_le_compat in HW; rewrite !Qopp_involutive in HW.
  Qed.
End Wrapper.

Theorem empty_graph_matching : perfect [] [] /\ is_min_pm [] [] = true /\ all_pms [] = [[]].
Proof. split; [|split; reflexivity]. apply is_perfect_spec. reflexivity. Qed.

(* ---------- the matcher contract is satisfiable: an exhaustive maximum-cardinality maximum-weight
   matcher (enumerate ALL matchings, keep the best by (cardinality, weight)) meets it; so
   wrapper_min_perfect is not vacuous ---------- *)
Fixpoint ams (g : graph) (fuel : nat) (ns : list nat) : list matching :=
  match fuel with
  | O => [[]]
  | S f =>
    match ns with
    | [] => [[]]
    | a :: rest =>
        ams g f rest ++
        flat_map (fun b => match edge g a b with
                           | Some _ => map (cons (a, b)) (ams g f (remove1 b rest))
                           | None => [] end) rest
    end
  end.
Definition all_matchings (g : graph) : list matching := ams g (length (nodes g)) (nodes g).

Lemma remove1_In x y l : In y (remove1 x l) -> In y l.
Proof. induction l as [|z l IH]; cbn; auto. destruct (x =? z); cbn; intuition. Qed.
Lemma remove1_In_neq x y l : In y l -> y <> x -> In y (remove1 x l).
Proof.
  induction l as [|z l IH]; cbn; auto. intros [->|H] Hn.
  - destruct (x =? y) eqn:E; [apply Nat.eqb_eq in E; congruence|cbn; auto].
  - destruct (x =? z); cbn; auto.
Qed.
Lemma remove1_NoDup x l : NoDup l -> NoDup (remove1 x l).
Proof.
  induction 1 as [|z l Hz Hl IH]; cbn; [constructor|]. destruct (x =? z); auto.
  constructor; auto. intros H. apply Hz. eapply remove1_In; eauto.
Qed.
Lemma remove1_notin x l : NoDup l -> ~ In x (remove1 x l).
Proof.
  induction 1 as [|z l Hz Hl IH]; cbn; auto. destruct (x =? z) eqn:E.
  - apply Nat.eqb_eq in E. now subst.
  - cbn. intros [->|H]; [now rewrite Nat.eqb_refl in E|auto].
Qed.

Lemma ams_sound g fuel : forall ns m, NoDup ns -> In m (ams g fuel ns) ->
  NoDup (ends m) /\ incl (ends m) ns /\ uses_edges g m.
Proof.
  induction fuel as [|f IH]; intros ns m Hnd H.
  - destruct H as [<-|[]]. repeat split; [constructor|intros x []|intros p []].
  - destruct ns as [|a rest]; cbn [ams] in H.
    + destruct H as [<-|[]]. repeat split; [constructor|intros x []|intros p []].
    + inversion Hnd as [|? ? Ha Hrest]; subst. apply in_app_or in H. destruct H as [H|H].
      * destruct (IH rest m Hrest H) as (H1 & H2 & H3). repeat split; auto. intros x Hx. right. auto.
      * apply in_flat_map in H. destruct H as (b & Hb & H). destruct (edge g a b) as [w|] eqn:E; [|destruct H].
        apply in_map_iff in H. destruct H as (m' & <- & Hm').
        destruct (IH (remove1 b rest) m' (remove1_NoDup b rest Hrest) Hm') as (H1 & H2 & H3).
        repeat split.
        -- cbn. constructor.
           ++ intros [->|Hin]; [contradiction|]. apply Ha. eapply remove1_In. apply H2. exact Hin.
           ++ constructor; auto. intros Hin. apply (remove1_notin b rest Hrest). apply H2. exact Hin.
        -- intros x [<-|[<-|Hx]]; cbn; auto. right. eapply remove1_In. apply H2. exact Hx.
        -- intros p [<-|Hp]; [cbn; congruence|auto].
Qed.

Lemma ams_complete g fuel : forall ns m, length ns <= fuel -> NoDup ns ->
  NoDup (ends m) -> incl (ends m) ns -> uses_edges g m ->
  exists m', In m' (ams g fuel ns) /\ meq m m'.
Proof.
  induction fuel as [|f IH]; intros ns m Hlen Hnd Hm Hincl U.
  - destruct ns; cbn in Hlen; [|lia]. destruct m as [|p m]; [|exfalso; apply (Hincl (fst p)); cbn; auto].
    exists []. split; [cbn; auto|constructor].
  - destruct ns as [|a rest].
    + destruct m as [|p m]; [|exfalso; apply (Hincl (fst p)); cbn; auto]. exists []. split; [cbn; auto|constructor].
    + inversion Hnd as [|? ? Ha Hrest]; subst. cbn in Hlen.
      destruct (in_dec Nat.eq_dec a (ends m)) as [Hin|Hnin].
      * unfold ends in Hin. apply in_flat_map in Hin. destruct Hin as (p & Hp & Hap).
        apply in_split in Hp. destruct Hp as (l1 & l2 & ->). set (m0 := l1 ++ l2).
        assert (Hmid : Permutation (l1 ++ p :: l2) (p :: m0)) by (symmetry; apply Permutation_middle).
        assert (Hb : exists b, meq (l1 ++ p :: l2) ((a, b) :: m0) /\ (p = (a, b) \/ p = (b, a))).
        { destruct p as [x y]. cbn in Hap. destruct Hap as [<-|[<-|[]]].
          - exists y. split; auto. now apply meq_perm.
          - exists x. split; auto. eapply meq_trans; [apply meq_perm, Hmid|apply meq_flip]. }
        destruct Hb as (b & Hmeq & Hpb).
        assert (Pe : Permutation (ends (l1 ++ p :: l2)) (a :: b :: ends m0)).
        { rewrite ends_app. cbn [ends flat_map]. unfold m0. rewrite ends_app.
          destruct Hpb as [-> | ->]; cbn [fst snd app].
          - rewrite <- Permutation_middle. apply perm_skip. rewrite <- Permutation_middle. reflexivity.
          - rewrite <- Permutation_middle. rewrite <- Permutation_middle. apply perm_swap. }
        assert (Hnd' : NoDup (a :: b :: ends m0)) by (eapply Permutation_NoDup; eauto).
        assert (Hincl' : incl (a :: b :: ends m0) (a :: rest)).
        { intros x Hx. apply Hincl. eapply Permutation_in; [apply Permutation_sym; exact Pe|exact Hx]. }
        inversion Hnd' as [|? ? Hab Hnd'']; subst. inversion Hnd'' as [|? ? Hb0 Hnd0]; subst.
        assert (Hbr : In b rest).
        { destruct (Hincl' b ltac:(cbn; auto)) as [E|H]; auto. exfalso. apply Hab. cbn. auto. }
        assert (He : edge g a b <> None).
        { specialize (U p ltac:(apply in_or_app; right; cbn; auto)).
          destruct Hpb as [-> | ->]; cbn in U; auto. now rewrite edge_sym. }
        assert (U0 : uses_edges g m0).
        { intros q Hq. apply U. unfold m0 in Hq. apply in_app_or in Hq. apply in_or_app. cbn. tauto. }
        destruct (IH (remove1 b rest) m0) as (m' & Hm' & Hmeq'); auto.
        { pose proof (remove1_length _ _ Hbr). lia. }
        { now apply remove1_NoDup. }
        { intros x Hx. apply remove1_In_neq.
          - destruct (Hincl' x ltac:(cbn; auto)) as [E|H]; auto. exfalso. apply Hab. cbn. right. now subst.
          - intros ->. contradiction. }
        exists ((a, b) :: m'). split.
        -- cbn [ams]. apply in_or_app. right. apply in_flat_map. exists b. split; auto.
           destruct (edge g a b); [|congruence]. now apply in_map.
        -- eapply meq_trans; [exact Hmeq|]. now apply meq_cons.
      * destruct (IH rest m) as (m' & Hm' & Hmeq'); auto; [lia| |].
        { intros x Hx. destruct (Hincl x Hx) as [<-|H]; auto. contradiction. }
        exists m'. split; auto. cbn [ams]. apply in_or_app. auto.
Qed.

Theorem all_matchings_sound g m : In m (all_matchings g) -> is_matching g m.
Proof. intros H. apply ams_sound in H; [|apply nodes_nodup]. destruct H as (H1 & _ & H3). split; auto. Qed.
Theorem all_matchings_complete g m : is_matching g m -> exists m', In m' (all_matchings g) /\ meq m m'.
Proof.
  intros H. pose proof (matching_ends_incl g m H) as Hi. destruct H as [H1 H2].
  apply ams_complete; auto. apply nodes_nodup.
Qed.

(* keep the best by (cardinality, weight) *)
Definition geq (g : graph) (m1 m2 : matching) : bool :=   (* m2 is at least as good as m1 *)
  (length m1 <? length m2) || ((length m1 =? length m2) && Qle_bool (weight g m1) (weight g m2)).
Definition pick_best (g : graph) (ms : list matching) (m0 : matching) : matching :=
  fold_left (fun acc m => if geq g acc m then m else acc) ms m0.
Definition brute_maxw (g : graph) : matching := pick_best g (all_matchings g) [].

Lemma geq_refl g m : geq g m m = true.
Proof. unfold geq. rewrite Nat.eqb_refl. cbn. rewrite orb_true_iff. right. apply Qle_bool_iff, Qle_refl. Qed.
Lemma geq_trans g a b c : geq g a b = true -> geq g b c = true -> geq g a c = true.
Proof.
  unfold geq. rewrite !orb_true_iff, !andb_true_iff, !Nat.ltb_lt, !Nat.eqb_eq, !Qle_bool_iff.
  intros [H1|[H1 W1]] [H2|[H2 W2]]; [left; lia|left; lia|left; lia|right]. split; [lia|]. eapply Qle_trans; eauto.
Qed.
Lemma geq_total g a b : geq g a b = false -> geq g b a = true.
Proof.
  unfold geq. rewrite orb_false_iff, andb_false_iff, Nat.ltb_ge, Nat.eqb_neq. intros [H1 H2].
  rewrite orb_true_iff, andb_true_iff, Nat.ltb_lt, Nat.eqb_eq, Qle_bool_iff.
  destruct (Nat.eq_dec (length a) (length b)) as [E|E]; [|left; lia].
  right. split; auto. destruct H2 as [H2|H2]; [congruence|].
  destruct (Qlt_le_dec (weight g b) (weight g a)) as [L|L]; [now apply Qlt_le_weak|].
  apply Qle_bool_iff in L. congruence.
Qed.
Lemma pick_best_spec g ms : forall m0,
  (pick_best g ms m0 = m0 \/ In (pick_best g ms m0) ms) /\ geq g m0 (pick_best g ms m0) = true /\
  forall m, In m ms -> geq g m (pick_best g ms m0) = true.
Proof.
  induction ms as [|x ms IH]; intros m0.
  - unfold pick_best. cbn. split; auto. split; [apply geq_refl|tauto].
  - change (pick_best g (x :: ms) m0) with (pick_best g ms (if geq g m0 x then x else m0)).
    destruct (geq g m0 x) eqn:E.
    + destruct (IH x) as (H1 & H2 & H3). split; [destruct H1 as [-> |H1]; cbn; auto|]. split.
      * eapply geq_trans; eauto.
      * intros m [<-|Hm]; auto.
    + destruct (IH m0) as (H1 & H2 & H3). split; [destruct H1; cbn; auto|]. split; auto.
      intros m [<-|Hm]; auto. eapply geq_trans; [apply geq_total; exact E|exact H2].
Qed.

Theorem brute_maxw_matching h : is_matching h (brute_maxw h).
Proof.
  unfold brute_maxw. destruct (pick_best_spec h (all_matchings h) []) as ([-> |H] & _ & _).
  - split; [constructor|intros p []].
  - now apply all_matchings_sound.
Qed.
Lemma brute_maxw_best h m : is_matching h m -> exists m', meq m m' /\ geq h m' (brute_maxw h) = true.
Proof.
  intros Hm. destruct (all_matchings_complete h m Hm) as (m' & Hin & Heq). exists m'. split; auto.
  unfold brute_maxw. now apply (pick_best_spec h (all_matchings h) []).
Qed.
Theorem brute_maxw_card h m : is_matching h m -> length m <= length (brute_maxw h).
Proof.
  intros Hm. destruct (brute_maxw_best h m Hm) as (m' & Heq & Hg). apply meq_same_pairs in Heq. destruct Heq as [_ L].
  unfold geq in Hg. rewrite orb_true_iff, andb_true_iff, Nat.ltb_lt, Nat.eqb_eq in Hg. lia.
Qed.
Theorem brute_maxw_weight h m : is_matching h m -> length m = length (brute_maxw h) ->
  (weight h m <= weight h (brute_maxw h))%Q.
Proof.
  intros Hm L. destruct (brute_maxw_best h m Hm) as (m' & Heq & Hg). rewrite (weight_meq h _ _ Heq).
  apply meq_same_pairs in Heq. destruct Heq as [_ L'].
  unfold geq in Hg. rewrite orb_true_iff, andb_true_iff, Nat.ltb_lt, Nat.eqb_eq, Qle_bool_iff in Hg.
  destruct Hg as [Hg|[_ Hg]]; [lia|exact Hg].
Qed.
(* the wrapper instantiated with the exhaustive matcher: unconditional *)
Theorem brute_mwpm_min_perfect g : (exists m0, perfect g m0) ->
  perfect g (mwpm_networkx brute_maxw g) /\
  forall m', perfect g m' -> (weight g (mwpm_networkx brute_maxw g) <= weight g m')%Q.
Proof. apply (wrapper_min_perfect brute_maxw brute_maxw_matching brute_maxw_card brute_maxw_weight). Qed.
