(* Cli/WriteData.v — model of cli._write_data (cli.py:378-401) over an abstract file system,
   and of the CLI probability / integer validators. *)
From Coq Require Import Arith List Bool Lia ZArith QArith.
Import ListNotations.
Open Scope nat_scope.

Section FS.
Variable path : Type.
Variable path_eqb : path -> path -> bool.
Hypothesis path_eqb_spec : forall a b, path_eqb a b = true <-> a = b.
Variable content : Type.
Definition fs := path -> option content.
Variable dir_exists : path -> bool.        (* whether the parent directory of the path exists / is writable *)

Record outcome := mkOut { o_fs : fs; o_stdout : list content; o_errlog : list content; o_exit : nat }.
(* output = None models '-' (stdout); open(output, 'x') fails if the file exists or cannot be created *)
Definition write_data (f : fs) (output : option path) (data : content) : outcome :=
  match output with
  | None => mkOut f [data] [] 0
  | Some p =>
    match f p with
    | Some _ => mkOut f [] [data] 1
    | None => if dir_exists p
              then mkOut (fun q => if path_eqb q p then Some data else f q) [] [] 0
              else mkOut f [] [data] 1
    end
  end.

Theorem write_existing f p old data : f p = Some old ->
  let o := write_data f (Some p) data in
  (forall q, o_fs o q = f q) /\ o_errlog o = [data] /\ o_exit o <> 0 /\ o_stdout o = [].
Proof. intros H. unfold write_data. rewrite H. cbn. repeat split; auto. Qed.
Theorem write_missing_dir f p data : f p = None -> dir_exists p = false ->
  let o := write_data f (Some p) data in
  (forall q, o_fs o q = f q) /\ o_errlog o = [data] /\ o_exit o <> 0.
Proof. intros H D. unfold write_data. rewrite H, D. cbn. repeat split; auto. Qed.
Theorem write_new f p data : f p = None -> dir_exists p = true ->
  let o := write_data f (Some p) data in
  o_fs o p = Some data /\ (forall q, q <> p -> o_fs o q = f q) /\ o_exit o = 0 /\ o_errlog o = [].
Proof.
  intros H D. unfold write_data. rewrite H, D. cbn. repeat split; auto.
  - assert (E : path_eqb p p = true) by now apply path_eqb_spec. now rewrite E.
  - intros q Hq. destruct (path_eqb q p) eqn:E; auto. apply path_eqb_spec in E. contradiction.
Qed.
Theorem write_stdout f data :
  let o := write_data f None data in (forall q, o_fs o q = f q) /\ o_stdout o = [data] /\ o_exit o = 0.
Proof. cbn. auto. Qed.
(* the data are never dropped: they end up in the file, on stdout or on the error log *)
Theorem write_never_drops f output data :
  let o := write_data f output data in
  o_stdout o = [data] \/ o_errlog o = [data] \/ (exists p, output = Some p /\ o_fs o p = Some data).
Proof.
  destruct output as [p|]; cbn; auto. unfold write_data. destruct (f p); cbn; auto.
  destruct (dir_exists p); cbn; auto. right. right. exists p. split; auto.
  assert (E : path_eqb p p = true) by now apply path_eqb_spec. now rewrite E.
Qed.
End FS.

(* validators: probabilities in [0,1] (None models NaN), IntRange(min) *)
Definition prob_ok (p : option Q) : bool :=
  match p with Some x => Qle_bool 0 x && Qle_bool x 1 | None => false end.
Definition probs_ok (ps : list (option Q)) : bool := negb (Nat.eqb (length ps) 0) && forallb prob_ok ps.
Definition mprob_ok (q : option (option Q)) : bool := match q with None => true | Some q' => prob_ok q' end.
Definition int_min_ok (lo : Z) (v : option Z) : bool := match v with None => true | Some x => (lo <=? x)%Z end.
Definition run_args_ok (ps : list (option Q)) (max_failures max_runs seed : option Z) : bool :=
  probs_ok ps && int_min_ok 1 max_failures && int_min_ok 1 max_runs && int_min_ok 0 seed.
Definition run_ftp_args_ok (T : Z) (ps : list (option Q)) (q : option (option Q)) (max_failures max_runs seed : option Z) : bool :=
  (1 <=? T)%Z && mprob_ok q && run_args_ok ps max_failures max_runs seed.
