(* Cli/Ctor.v — model of cli._ConstructorParamType.convert (cli.py:62-121): the name(args) grammar of the
   verbose regex, the "argument text + ','" literal evaluation, registry lookup and error classes.
   Characters are their code points (ASCII domain).  ast.literal_eval and the constructors are Section
   variables: the theorems say which text they are applied to and that nothing else is ever evaluated. *)
From Coq Require Import Arith List Bool Lia.
Import ListNotations.

Notation str := (list nat).
Definition is_word (c : nat) : bool :=
  ((48 <=? c) && (c <=? 57)) || ((65 <=? c) && (c <=? 90)) || ((97 <=? c) && (c <=? 122)) || (c =? 95).
Definition is_namech (c : nat) : bool := is_word c || (c =? 46).
(* \s on str patterns, ASCII part: \t\n\v\f\r, FS GS RS US, space *)
Definition is_space (c : nat) : bool := ((9 <=? c) && (c <=? 13)) || ((28 <=? c) && (c <=? 31)) || (c =? 32).
Definition LP := 40. Definition RP := 41. Definition COMMA := 44. Definition NL := 10.

Fixpoint take_while (p : nat -> bool) (l : str) : str :=
  match l with [] => [] | c :: r => if p c then c :: take_while p r else [] end.
Fixpoint drop_while (p : nat -> bool) (l : str) : str :=
  match l with [] => [] | c :: r => if p c then drop_while p r else l end.
Lemma take_drop p l : take_while p l ++ drop_while p l = l.
Proof. induction l as [|c r IH]; cbn; auto. destruct (p c); cbn; [now rewrite IH|reflexivity]. Qed.
Lemma take_while_all p l : forallb p (take_while p l) = true.
Proof. induction l as [|c r IH]; cbn; auto. destruct (p c) eqn:E; cbn; [now rewrite E|reflexivity]. Qed.

(* (?P<name>[\w.]+)(?:\(\s*(?P<args>.*?),?\s*\))?   with fullmatch, '.' not matching newline *)
Definition parse_spec (s : str) : option (str * option str) :=
  let name := take_while is_namech s in
  let rest := drop_while is_namech s in
  match name with
  | [] => None
  | _ =>
    match rest with
    | [] => Some (name, None)
    | c :: body =>
      if c =? LP then
        match rev body with
        | d :: rb =>
          if d =? RP then
            let rb1 := drop_while is_space rb in                       (* trailing whitespace *)
            let rb2 := match rb1 with e :: r => if e =? COMMA then r else rb1 | [] => rb1 end in  (* one trailing comma *)
            let args := drop_while is_space (rev rb2) in               (* leading whitespace, greedy *)
            if existsb (fun x => x =? NL) args then None else Some (name, Some args)
          else None
        | [] => None
        end
      else None
    end
  end.

(* shape of every accepted specification *)
Definition tail_ok (t : str) : Prop :=
  exists ws, forallb is_space ws = true /\ (t = ws ++ [RP] \/ t = COMMA :: ws ++ [RP]).
Theorem parse_spec_shape s name a : parse_spec s = Some (name, a) ->
  name <> [] /\ forallb is_namech name = true /\
  match a with
  | None => s = name
  | Some args => exists ws1 tail, s = name ++ [LP] ++ ws1 ++ args ++ tail /\ forallb is_space ws1 = true /\
                                  tail_ok tail /\ existsb (fun x => x =? NL) args = false
  end.
Proof.
  unfold parse_spec. pose proof (take_drop is_namech s) as TD. pose proof (take_while_all is_namech s) as TA.
  destruct (take_while is_namech s) as [|n0 nm] eqn:En; [discriminate|].
  destruct (drop_while is_namech s) as [|c body] eqn:Ed.
  - intros H. injection H as <- <-. rewrite app_nil_r in TD. repeat split; auto. discriminate.
  - destruct (Nat.eqb_spec c LP) as [->|]; [|discriminate].
    destruct (rev body) as [|d rb] eqn:Er; [discriminate|].
    destruct (Nat.eqb_spec d RP) as [->|]; [|discriminate].
    set (rb1 := drop_while is_space rb).
    set (rb2 := match rb1 with e :: r => if e =? COMMA then r else rb1 | [] => rb1 end).
    destruct (existsb (fun x => x =? NL) (drop_while is_space (rev rb2))) eqn:Enl; [discriminate|].
    intros H. injection H as <- <-. split; [discriminate|]. split; [exact TA|].
    exists (take_while is_space (rev rb2)).
    (* tail: what was stripped from the right *)
    assert (Hbody : body = rev rb ++ [RP]) by (rewrite <- (rev_involutive body), Er; reflexivity).
    assert (Hrb : rb = take_while is_space rb ++ rb1) by (symmetry; apply take_drop).
    pose proof (take_while_all is_space rb) as Atw. remember (take_while is_space rb) as tw eqn:Etw. clear Etw.
    assert (Hrb1 : exists cm, rb1 = cm ++ rb2 /\ (cm = [] \/ cm = [COMMA])).
    { subst rb2. destruct rb1 as [|e r]; [exists []; auto|]. destruct (Nat.eqb_spec e COMMA) as [->|]; [exists [COMMA]|exists []]; auto. }
    destruct Hrb1 as (cm & Hcm & Hc).
    exists (rev cm ++ rev tw ++ [RP]). split; [|split; [apply take_while_all|split; [|exact Enl]]].
    + rewrite <- TD, Hbody, Hrb, Hcm. rewrite !rev_app_distr. rewrite <- (take_drop is_space (rev rb2)) at 1.
      cbn [app]. rewrite <- !app_assoc. reflexivity.
    + exists (rev tw). split.
      * rewrite forallb_forall. intros x Hx. apply in_rev in Hx.
        rewrite forallb_forall in Atw. now apply Atw.
      * destruct Hc as [->| ->]; cbn; auto.
Qed.

(* plain names and simple bracketed forms are accepted as written *)
Theorem parse_spec_name s : s <> [] -> forallb is_namech s = true -> parse_spec s = Some (s, None).
Proof.
  intros Hne Hall. unfold parse_spec.
  assert (E : take_while is_namech s = s /\ drop_while is_namech s = []).
  { clear Hne. induction s as [|c r IH]; cbn in *; auto. apply andb_true_iff in Hall. destruct Hall as [Hc Hr].
    rewrite Hc. destruct (IH Hr) as [E1 E2]. now rewrite E1, E2. }
  destruct E as [-> ->]. destruct s; [congruence|reflexivity].
Qed.

(* ---- conversion: registry lookup, literal evaluation of "args,", construction ---- *)
Section Convert.
Variable value : Type.                 (* Python values *)
Variable instance : Type.              (* model instances *)
Variable literal_eval : str -> option (list value).      (* ast.literal_eval(text) as a tuple; None = raises *)
Variable registry : str -> option (list value -> option instance).   (* name -> constructor; None result = raises *)

Inductive conv := Built (i : instance) | BadFormat | BadName | BadArgs | BadConstruct.
Definition convert (s : str) : conv :=
  match parse_spec s with
  | None => BadFormat
  | Some (name, a) =>
    match registry name with
    | None => BadName
    | Some ctor =>
      let arguments :=
        match a with
        | None | Some [] => Some []                       (* no args -> empty tuple; literal_eval not called *)
        | Some args => literal_eval (args ++ [COMMA])     (* add comma to force tuple *)
        end in
      match arguments with
      | None => BadArgs
      | Some vs => match ctor vs with Some i => Built i | None => BadConstruct end
      end
    end
  end.

(* an instance is built only from a registered constructor applied to the literal value of the argument text *)
Theorem convert_built s i : convert s = Built i ->
  exists name a ctor vs, parse_spec s = Some (name, a) /\ registry name = Some ctor /\ ctor vs = Some i /\
    match a with
    | None | Some [] => vs = []
    | Some args => literal_eval (args ++ [COMMA]) = Some vs
    end.
Proof.
  unfold convert. destruct (parse_spec s) as [[name a]|]; [|discriminate].
  destruct (registry name) as [ctor|] eqn:R; [|discriminate].
  destruct a as [[|c args]|].
  - destruct (ctor []) eqn:C; [|discriminate]. intros H. injection H as <-. exists name, (Some []), ctor, []. auto.
  - destruct (literal_eval ((c :: args) ++ [COMMA])) as [vs|] eqn:L; [|discriminate].
    destruct (ctor vs) eqn:C; [|discriminate]. intros H. injection H as <-.
    exists name, (Some (c :: args)), ctor, vs. auto.
  - destruct (ctor []) eqn:C; [|discriminate]. intros H. injection H as <-. exists name, None, ctor, []. auto.
Qed.
(* every failure is one of the four usage errors; which one is decided in this order *)
Theorem convert_errors s :
  (convert s = BadFormat <-> parse_spec s = None) /\
  (convert s = BadName <-> exists name a, parse_spec s = Some (name, a) /\ registry name = None).
Proof.
  unfold convert. split.
  - destruct (parse_spec s) as [[name a]|]; [|tauto]. split; [|discriminate].
    destruct (registry name); [|discriminate].
    destruct a as [[|c args]|]; repeat match goal with |- context [match ?x with _ => _ end] => destruct x end; discriminate.
  - destruct (parse_spec s) as [[name a]|]; [|split; [discriminate|intros (? & ? & H & _); discriminate]].
    destruct (registry name) eqn:R.
    + split; [|intros (n' & a' & H & H'); injection H as <- <-; congruence].
      destruct a as [[|c args]|]; repeat match goal with |- context [match ?x with _ => _ end] => destruct x end; discriminate.
    + split; eauto.
Qed.
End Convert.
