(* Cli/MergeCmd.v — model of the CLI `merge` command (cli.py:340-375) over the abstract file system of
   Cli/WriteData.v, and the facts that make *histories* of merges lossless:
   a merge output fed back into merge is accepted and unchanged (re-acceptance), and a merge of merge
   outputs equals, per key and in row order, the merge of all the original records (merge of merges).
   The command itself adds no acceptance condition: it ends with exit status 0 exactly when every
   DATA_FILE exists and parses, app.merge accepts the parsed lists, and the output can be created. *)
From Coq Require Import Arith List Bool Lia ZArith QArith Permutation.
From QV Require Import App.Merge Cli.WriteData.
Import ListNotations.
Open Scope nat_scope.

(* ================= tables produced by merge, read back as input ================= *)
Section Reaccept.
Variable K : Type.
Variable keqb : K -> K -> bool.
Hypothesis keqb_spec : forall a b, keqb a b = true <-> a = b.
Variable V : Type.
Variable add : V -> V -> option V.
Hypothesis add_assoc : forall a b c, bind (add a b) (fun ab => add ab c) = bind (add b c) (fun bc => add a bc).

Notation T_upd := (upd K keqb V add).
Notation T_mergel := (mergel K keqb V add).
Notation T_lookup := (lookup K keqb V).
Notation T_vals := (vals K keqb V).
Notation T_keysum := (keysum V add).
Notation T_first_keys := (first_keys K keqb V).

(* every key is new with respect to the keys before it *)
Fixpoint fresh_seq (seen ks : list K) : bool :=
  match ks with [] => true | k :: r => negb (existsb (keqb k) seen) && fresh_seq (seen ++ [k]) r end.

Lemma upd_fresh k v t : existsb (keqb k) (map fst t) = false -> T_upd k v t = Some (t ++ [(k, v)]).
Proof.
  induction t as [|[k' s] r IH]; cbn [map fst existsb upd app]; intros H; [reflexivity|].
  apply orb_false_iff in H. destruct H as [H1 H2]. rewrite H1, (IH H2). reflexivity.
Qed.
Lemma mergel_fresh t : forall s, fresh_seq (map fst s) (map fst t) = true -> T_mergel s t = Some (s ++ t).
Proof.
  induction t as [|[k v] r IH]; intros s H; cbn [mergel map fst fresh_seq] in *.
  - now rewrite app_nil_r.
  - apply andb_true_iff in H. destruct H as [H1 H2]. apply negb_true_iff in H1.
    rewrite (upd_fresh _ _ _ H1). cbn [bind]. rewrite IH.
    + now rewrite <- app_assoc.
    + rewrite map_app. exact H2.
Qed.
Lemma first_keys_fresh l : forall seen, fresh_seq seen (T_first_keys seen l) = true.
Proof.
  induction l as [|[k v] r IH]; intros seen; cbn [first_keys fresh_seq]; [reflexivity|].
  destruct (existsb (keqb k) seen) eqn:E; [apply IH|]. cbn [fresh_seq]. rewrite E. cbn. apply IH.
Qed.
Theorem mergel_output_fresh l t : T_mergel [] l = Some t -> fresh_seq [] (map fst t) = true.
Proof. intros H. rewrite (mergel_keys K keqb V add l [] t H). cbn [map app]. apply first_keys_fresh. Qed.

(* re-acceptance: what merge emits, merge accepts, and returns unchanged *)
Theorem merge_reaccept l t : T_mergel [] l = Some t -> T_mergel [] t = Some t.
Proof. intros H. apply mergel_output_fresh in H. now rewrite (mergel_fresh t [] H). Qed.

Lemma output_keysum l t : T_mergel [] l = Some t -> forall k, T_keysum None (T_vals k t) = Some (T_lookup k t).
Proof.
  intros H k. pose proof (mergel_spec K keqb keqb_spec V add t []) as S.
  rewrite (merge_reaccept l t H) in S. exact (S k).
Qed.

(* merge of merges: merging two merge outputs = merging all the records, per key, and equally erroring *)
Theorem merge_of_merges l1 l2 t1 t2 : T_mergel [] l1 = Some t1 -> T_mergel [] l2 = Some t2 ->
  match T_mergel [] (t1 ++ t2), T_mergel [] (l1 ++ l2) with
  | Some a, Some b => forall k, T_lookup k a = T_lookup k b
  | None, None => True
  | _, _ => False
  end.
Proof.
  intros H1 H2.
  assert (E : forall k, T_keysum None (T_vals k (t1 ++ t2)) = T_keysum None (T_vals k (l1 ++ l2))).
  { intros k. rewrite !(keysum_incremental K keqb V add add_assoc).
    rewrite (output_keysum l1 t1 H1 k), (output_keysum l2 t2 H2 k).
    pose proof (mergel_spec K keqb keqb_spec V add l1 []) as S1. rewrite H1 in S1.
    pose proof (mergel_spec K keqb keqb_spec V add l2 []) as S2. rewrite H2 in S2.
    specialize (S1 k). specialize (S2 k). cbn [lookup] in S1, S2. now rewrite S1, S2. }
  pose proof (mergel_spec K keqb keqb_spec V add (t1 ++ t2) []) as S.
  pose proof (mergel_spec K keqb keqb_spec V add (l1 ++ l2) []) as S'.
  cbn [lookup] in S, S'.
  destruct (T_mergel [] (t1 ++ t2)) as [a|], (T_mergel [] (l1 ++ l2)) as [b|]; auto.
  - intros k. specialize (S k). specialize (S' k). rewrite E in S. congruence.
  - destruct S' as (k & Hk). specialize (S k). rewrite E in S. congruence.
  - destruct S as (k & Hk). specialize (S' k). rewrite <- E in S'. congruence.
Qed.

(* ... and the rows come in the same order *)
Fixpoint fk (seen ks : list K) : list K :=
  match ks with [] => [] | k :: r => if existsb (keqb k) seen then fk seen r else k :: fk (seen ++ [k]) r end.
Lemma first_keys_fk l : forall seen, T_first_keys seen l = fk seen (map fst l).
Proof.
  induction l as [|[k v] r IH]; intros seen; cbn [first_keys fk map fst]; [reflexivity|].
  destruct (existsb (keqb k) seen); now rewrite IH.
Qed.
Lemma existsb_snoc k s x : existsb (keqb k) (s ++ [x]) = existsb (keqb k) s || keqb k x.
Proof. rewrite existsb_app. cbn. now rewrite orb_false_r. Qed.
Lemma fk_fk ks : forall s0 seen, (forall k, existsb (keqb k) s0 = true -> existsb (keqb k) seen = true) ->
  fk seen (fk s0 ks) = fk seen ks.
Proof.
  induction ks as [|k r IH]; intros s0 seen Hsub; cbn [fk]; [reflexivity|].
  destruct (existsb (keqb k) s0) eqn:E0.
  - rewrite (Hsub k E0). now apply IH.
  - cbn [fk]. destruct (existsb (keqb k) seen) eqn:E.
    + apply IH. intros j Hj. rewrite existsb_snoc in Hj. apply orb_true_iff in Hj. destruct Hj as [Hj|Hj]; [now apply Hsub|].
      apply keqb_spec in Hj. now subst.
    + f_equal. apply IH. intros j Hj. rewrite existsb_snoc in *. apply orb_true_iff in Hj. apply orb_true_iff.
      destruct Hj as [Hj|Hj]; [left; now apply Hsub|now right].
Qed.
Lemma fk_app a : forall seen b, fk seen (a ++ b) = fk seen a ++ fk (seen ++ fk seen a) b.
Proof.
  induction a as [|k r IH]; intros seen b; cbn [fk app].
  - now rewrite app_nil_r.
  - destruct (existsb (keqb k) seen); [apply IH|]. cbn [app]. f_equal. rewrite IH. now rewrite <- app_assoc.
Qed.
Theorem merge_of_merges_order l1 l2 t1 t2 a b : T_mergel [] l1 = Some t1 -> T_mergel [] l2 = Some t2 ->
  T_mergel [] (t1 ++ t2) = Some a -> T_mergel [] (l1 ++ l2) = Some b -> map fst a = map fst b.
Proof.
  intros H1 H2 Ha Hb.
  rewrite (mergel_keys K keqb V add _ [] a Ha), (mergel_keys K keqb V add _ [] b Hb). cbn [map app].
  rewrite !first_keys_fk, !map_app, !fk_app.
  rewrite (mergel_keys K keqb V add _ [] t1 H1), (mergel_keys K keqb V add _ [] t2 H2). cbn [map app].
  rewrite !first_keys_fk.
  assert (I : forall s ks, fk s (fk s ks) = fk s ks) by (intros; apply fk_fk; auto).
  rewrite (fk_fk (map fst l1) [] []) by auto. f_equal.
  apply fk_fk. intros k Hk. discriminate Hk.
Qed.
End Reaccept.

(* the concrete instance: records of app.merge *)
Theorem merge_output_reaccepted l t : M_mergel [] l = Some t -> M_mergel [] t = Some t.
Proof. exact (merge_reaccept kx kx_eqb payload padd l t). Qed.
Theorem merge_history l1 l2 t1 t2 : M_mergel [] l1 = Some t1 -> M_mergel [] l2 = Some t2 ->
  match M_mergel [] (t1 ++ t2), M_mergel [] (l1 ++ l2) with
  | Some a, Some b => (forall k, M_lookup k a = M_lookup k b) /\ map fst a = map fst b
  | None, None => True
  | _, _ => False
  end.
Proof.
  intros H1 H2.
  pose proof (merge_of_merges kx kx_eqb kx_eqb_spec payload padd padd_assoc l1 l2 t1 t2 H1 H2) as M.
  pose proof (merge_of_merges_order kx kx_eqb kx_eqb_spec payload padd l1 l2 t1 t2) as O.
  unfold M_mergel, M_lookup in *.
  destruct (mergel kx kx_eqb payload padd [] (t1 ++ t2)) as [a|], (mergel kx kx_eqb payload padd [] (l1 ++ l2)) as [b|]; auto.
Qed.

(* ================= the command ================= *)
Section Cmd.
Variable path : Type.
Variable path_eqb : path -> path -> bool.
Hypothesis path_eqb_spec : forall a b, path_eqb a b = true <-> a = b.
Variable content : Type.
Variable input : Type.
Variable parse : content -> option input.            (* json.load; None = ValueError *)
Variable api_merge : list input -> option content.   (* app.merge then json.dumps; None = app.merge raises *)
Variable dir_exists : path -> bool.

Notation fs := (fs path content).
Notation outcome := (outcome path content).
Notation write_data := (write_data path path_eqb content dir_exists).

Definition all_exist (f : fs) (ps : list path) : bool :=
  forallb (fun p => match f p with Some _ => true | None => false end) ps.
Fixpoint parse_all (f : fs) (ps : list path) : option (list input) :=
  match ps with
  | [] => Some []
  | p :: r => match f p with
              | Some c => match parse c with Some i => option_map (cons i) (parse_all f r) | None => None end
              | None => None
              end
  end.
(* click checks the DATA_FILE paths first (usage error, exit 2); unparsable JSON is a ClickException (exit 1);
   an exception of app.merge ends the process (exit 1); only then is anything written *)
Definition merge_cmd (f : fs) (ps : list path) (output : option path) : outcome :=
  match ps with
  | [] => mkOut _ _ f [] [] 2
  | _ => if all_exist f ps
         then match parse_all f ps with
              | None => mkOut _ _ f [] [] 1
              | Some ins => match api_merge ins with
                            | None => mkOut _ _ f [] [] 1
                            | Some d => write_data f output d
                            end
              end
         else mkOut _ _ f [] [] 2
  end.

Lemma parse_all_exist f ps ins : parse_all f ps = Some ins -> all_exist f ps = true.
Proof.
  revert ins. induction ps as [|p r IH]; intros ins H; cbn [parse_all all_exist forallb] in *; [reflexivity|].
  destruct (f p) as [c|]; [|discriminate]. destruct (parse c); [|discriminate].
  destruct (parse_all f r) as [x|]; [|discriminate]. cbn. now apply (IH x).
Qed.
(* whatever app.merge accepts, the command emits — unchanged, through write_data *)
Theorem merge_cmd_accepts f ps output ins d : ps <> [] -> parse_all f ps = Some ins -> api_merge ins = Some d ->
  merge_cmd f ps output = write_data f output d.
Proof.
  intros Hne Hp Hm. unfold merge_cmd. destruct ps as [|p r]; [contradiction|].
  now rewrite (parse_all_exist _ _ _ Hp), Hp, Hm.
Qed.
(* the command has no acceptance condition of its own *)
Theorem merge_cmd_exit0_iff f ps output : o_exit _ _ (merge_cmd f ps output) = 0 <->
  ps <> [] /\ exists ins d, parse_all f ps = Some ins /\ api_merge ins = Some d /\
    match output with None => True | Some p => f p = None /\ dir_exists p = true end.
Proof.
  split.
  - unfold merge_cmd. destruct ps as [|p0 r]; [cbn; discriminate|]. intros H. split; [discriminate|].
    destruct (all_exist f (p0 :: r)); [|cbn in H; discriminate].
    destruct (parse_all f (p0 :: r)) as [ins|] eqn:EP; [|cbn in H; discriminate].
    destruct (api_merge ins) as [d|] eqn:EM; [|cbn in H; discriminate].
    exists ins, d. split; [reflexivity|]. split; [exact EM|]. destruct output as [p|]; [|exact I]. unfold WriteData.write_data in H.
    destruct (f p); [cbn in H; discriminate|]. destruct (dir_exists p); [auto|cbn in H; discriminate].
  - intros (Hne & ins & d & Hp & Hm & Ho). rewrite (merge_cmd_accepts f ps output ins d Hne Hp Hm).
    destruct output as [p|]; [|reflexivity]. destruct Ho as [Hf Hd]. unfold WriteData.write_data. now rewrite Hf, Hd.
Qed.
(* a failing command changes no file, and the only thing it may have produced is the recovered-data log *)
Theorem merge_cmd_failure_untouched f ps output : o_exit _ _ (merge_cmd f ps output) <> 0 ->
  forall q, o_fs _ _ (merge_cmd f ps output) q = f q.
Proof.
  unfold merge_cmd. destruct ps as [|p0 r]; [reflexivity|].
  destruct (all_exist f (p0 :: r)); [|reflexivity]. destruct (parse_all f (p0 :: r)) as [ins|]; [|reflexivity].
  destruct (api_merge ins) as [d|]; [|reflexivity]. destruct output as [p|]; [|cbn; congruence].
  unfold WriteData.write_data. destruct (f p); [reflexivity|]. destruct (dir_exists p); [cbn; congruence|reflexivity].
Qed.

Lemma parse_all_ext f g ps : (forall q, In q ps -> g q = f q) -> parse_all g ps = parse_all f ps.
Proof.
  induction ps as [|p r IH]; intros H; cbn [parse_all]; [reflexivity|].
  rewrite (H p (or_introl eq_refl)). rewrite IH; [reflexivity|]. intros q Hq. apply H. now right.
Qed.
(* two-step history: `merge -o p ps1` then `merge p ps2...`: the second step sees exactly the first result
   (re-read) followed by the other files, and is decided by app.merge alone *)
Theorem merge_cmd_chain f ps1 p ps2 output i1 d1 j1 i2 :
  ps1 <> [] -> f p = None -> dir_exists p = true ->
  parse_all f ps1 = Some i1 -> api_merge i1 = Some d1 -> parse d1 = Some j1 ->
  ~ In p ps2 -> parse_all f ps2 = Some i2 ->
  let f1 := o_fs _ _ (merge_cmd f ps1 (Some p)) in
  o_exit _ _ (merge_cmd f ps1 (Some p)) = 0 /\
  merge_cmd f1 (p :: ps2) output =
    match api_merge (j1 :: i2) with Some d => write_data f1 output d | None => mkOut _ _ f1 [] [] 1 end.
Proof.
  intros Hne Hf Hd Hp1 Hm1 Hj1 Hnin Hp2 f1.
  assert (E : merge_cmd f ps1 (Some p) = write_data f (Some p) d1) by now apply merge_cmd_accepts with (ins := i1).
  destruct (write_new path path_eqb path_eqb_spec content dir_exists f p d1 Hf Hd) as (W1 & W2 & W3 & _).
  split; [now rewrite E|].
  assert (P : parse_all f1 (p :: ps2) = Some (j1 :: i2)).
  { cbn [parse_all]. unfold f1. rewrite E, W1, Hj1.
    rewrite (parse_all_ext f); [now rewrite Hp2|]. intros q Hq. apply W2. intros ->. contradiction. }
  unfold merge_cmd at 1. rewrite (parse_all_exist _ _ _ P), P. destruct (api_merge (j1 :: i2)); reflexivity.
Qed.
End Cmd.

(* the instance used by the engine: a data file is unparsable, or a list of records; what the command emits
   is a list of merged rows *)
Inductive jfile := JBad | JData (l : list raw) | JRows (rows : list row).
Definition jparse (c : jfile) : option (list raw) := match c with JData l => Some l | _ => None end.
Definition japi (dT dq : nat) (ins : list (list raw)) : option jfile := option_map JRows (merge dT dq ins).
Definition merge_cmd_records (dT dq : nat) (dir_exists : nat -> bool) :=
  merge_cmd nat Nat.eqb jfile (list raw) jparse (japi dT dq) dir_exists.
