(* Props/C11.v — 2-D network contraction is exact without truncation and sweep-independent.
   All theorems are generic in the commutative ring K of tensor entries (Z, Qc, R, ...).
   Model: Tensor/Contract.v (qecsim.tensortools.mps / mps2d / tsr); specification: Tensor/Net.v
   ([value] = sum over all internal bond assignments of the product of entries). *)
From Coq Require Import List Arith Lia Bool ZArith QArith.
From QV Require Import Tensor.Sums Tensor.Net Tensor.StartStop Tensor.Contract Tensor.ContractZ
  Tensor.Sweep Tensor.Ladder Tensor.Exact Tensor.Noop Tensor.Split Tensor.WfCheck Tensor.Transpose Tensor.Examples.
Import ListNotations.
Local Open Scope nat_scope.

(* pairwise contraction = composition of the two column operators; merged indices (nN) = n*dN+N,
   (sS) = s*dS+S; any number of rows, any bond dimensions, empty sites copied [P-forall] *)
Theorem c11_pairwise_sem : forall (K : cring) (A B : list (option (tensor K))) v V ws Es,
  hmatch K A B -> vchain K A -> vchain K B -> vok K A v -> Vok K B V ->
  inr ws (map (dwo K) A) -> inr Es (map (deo K) B) ->
  opc (pairwise A B) (v * hd_dn K B + V) ws Es
  = sumt (map (deo K) A) (fun mid => rmul K (opc A v ws mid) (opc B V mid Es)).
Proof. exact pairwise_sem. Qed.

(* contract_ladder then as_scalar = the column operator at the dummy indices [P-forall] *)
Theorem c11_ladder_scalar : forall (K : cring) r (A : list (option (tensor K))) a b,
  length A = r -> vchain K A -> hd_dn K A = 1 -> dso K (last A None) = 1 ->
  map (deo K) A = repeat 1 r -> map (dwo K) A = repeat 1 r ->
  a < b <= r -> (forall i, i < r -> (is_some (nth i A None) = true <-> a <= i < b)) ->
  bind (contract_ladder K A) (as_scalar K) = Ok (opc A 0 (repeat 0 r) (repeat 0 r)).
Proof. exact ladder_scalar_sem. Qed.

(* the column sweep is exact, left-to-right (step None / 1) and right-to-left (step -1), for every
   well-shaped network of any size, any bond dimensions, with None padding [P-forall] *)
Theorem c11_sweep_exact : forall (K : cring) r (tn : list (list (option (tensor K)))), netwf K r tn ->
  contract K tn None None None None None None = Ok (Scalar (value r tn))
  /\ contract K tn None None None None (Some 1%Z) None = Ok (Scalar (value r tn))
  /\ contract K tn None None None None (Some (-1)%Z) None = Ok (Scalar (value r tn)).
Proof. exact sweep_exact. Qed.

(* every split column: inner_product(contract(stop=c), contract(start=-1, stop=c-1, step=-1)) * mults [P-forall] *)
Theorem c11_split : forall (K : cring) r (left right : list (list (option (tensor K)))),
  left <> [] -> right <> [] -> netwf K r (left ++ right) ->
  split_contract K (left ++ right) None None None (Z.of_nat (length left)) = Ok (value r (left ++ right)).
Proof. exact split_exact. Qed.

(* the truncation guard [P-forall] *)
Theorem c11_truncate_noop : forall (K : cring) chi tol mask (m : list (option (tensor K))),
  would_truncate K chi tol mask m = false -> truncate K chi tol mask m = Ok (m, r1 K).
Proof. exact truncate_noop. Qed.
Theorem c11_guard_cases : forall (K : cring) (m : list (option (tensor K))) chi tol mask,
  (truthyQ tol = false -> truthyZ chi = false -> would_truncate K chi tol mask m = false)
  /\ (forall mk, existsb (fun b : bool => b) mk = false -> would_truncate K chi tol (Some mk) m = false)
  /\ (forall c, truthyQ tol = false -> (Z.of_nat (bond_dimension K m) <= c)%Z -> would_truncate K (Some c) tol mask m = false).
Proof. intros K m chi tol mask. repeat split; intros; [apply guard_unset|apply guard_mask|apply guard_chi]; assumption. Qed.
(* no-op settings leave contract's result literally unchanged, for every start/stop/step [P-forall] *)
Theorem c11_contract_noop_unset : forall (K : cring) (tn : list (list (option (tensor K)))) chi tol a b s mask,
  truthyQ tol = false -> truthyZ chi = false ->
  contract K tn chi tol a b s mask = contract K tn None None a b s None.
Proof. exact contract_noop_unset. Qed.
Theorem c11_contract_noop_mask : forall (K : cring) (tn : list (list (option (tensor K)))) chi tol a b s mk,
  Forall (fun colmask => existsb (fun b : bool => b) colmask = false) mk ->
  contract K tn chi tol a b s (Some mk) = contract K tn None None a b s None.
Proof. exact contract_noop_mask. Qed.
Theorem c11_contract_noop_chi : forall (K : cring) (tn : list (list (option (tensor K)))) c tol a b s mask,
  truthyQ tol = false ->
  Forall (fun bd => (Z.of_nat bd <= c)%Z) (contract_bonds K tn a b s) ->
  contract K tn (Some c) tol a b s mask = contract K tn None None a b s None.
Proof. exact contract_noop_chi. Qed.

(* the contiguous-run finder used by contract_ladder [P-forall] *)
Theorem c11_start_stop_sound : forall (X : Type) (l : list (option X)) a b, start_stop l = Some (a, b) -> run_spec l a b.
Proof. intros X. exact start_stop_sound. Qed.
Theorem c11_start_stop_error : forall (X : Type) (l : list (option X)), start_stop l = None <->
  exists j k m, j < k < m /\ m < length l /\ is_some (nth j l None) = true
                /\ is_some (nth k l None) = false /\ is_some (nth m l None) = true.
Proof. intros X. exact start_stop_error. Qed.

(* the engine's boolean test of the theorems' hypothesis is sound (run on every generated network) [VC] *)
Theorem c11_netwfb_sound : forall (K : cring) r (tn : list (list (option (tensor K)))), netwfb K r tn = true -> netwf K r tn.
Proof. exact netwfb_sound. Qed.

(* transposition: the full statement (row/column Fubini exchange over the whole grid) - PROVED further down as
   c11_transpose / c11_transpose_all (Tensor/TransposeAll.v); also checked by the harness on every generated network *)
Definition c11_transpose_statement : Prop :=
  forall (K : cring) r c (tn : list (list (option (tensor K)))), netwf K r tn -> length tn = c ->
    value c (transpose_net K r tn) = value r tn.
(* proved parts: (a) the tensor transpose is an involution (numpy.transpose reverses the four axes);
   (b) the statement for single-column networks: an r x 1 network whose horizontal legs are dummies and
   its 1 x r transpose have the same value, for every r and every vertical bond dimension *)
Theorem c11_transpose_partial : forall (K : cring) (t : tensor K),
  transpose_tensor K (transpose_tensor K t) = t.
Proof. exact transpose_tensor_involutive. Qed.
Theorem c11_transpose_partial_single_column : forall (K : cring) (A : list (option (tensor K))),
  A <> [] -> hdummy K A -> vchain K A -> hd_dn K A = 1 -> dso K (last A None) = 1 ->
  value 1 (transpose_net K (length A) [A]) = value (length A) [A].
Proof. exact transpose_single_column_value. Qed.

(* non-vacuity: a concrete padded 2 x 3 network is well-shaped; sweeps, splits and spec agree *)
Theorem c11_example_wf : netwf Zring 2 ex_net.
Proof. exact ex_netwf. Qed.
Theorem c11_example_values :
  contractZ ex_net None None None None None None = Ok (@Scalar Zring (valueZ 2 ex_net))
  /\ contractZ ex_net None None None None (Some (-1)%Z) None = Ok (@Scalar Zring (valueZ 2 ex_net))
  /\ split_contractZ ex_net None None None 1%Z = Ok (valueZ 2 ex_net)
  /\ split_contractZ ex_net None None None 2%Z = Ok (valueZ 2 ex_net)
  /\ valueZ 2 ex_net = 731%Z.
Proof. exact ex_values. Qed.

Print Assumptions c11_pairwise_sem. Print Assumptions c11_ladder_scalar. Print Assumptions c11_sweep_exact.
Print Assumptions c11_split. Print Assumptions c11_truncate_noop. Print Assumptions c11_guard_cases.
Print Assumptions c11_contract_noop_unset. Print Assumptions c11_contract_noop_mask. Print Assumptions c11_contract_noop_chi.
Print Assumptions c11_start_stop_sound. Print Assumptions c11_start_stop_error. Print Assumptions c11_transpose_partial. Print Assumptions c11_transpose_partial_single_column.
Print Assumptions c11_netwfb_sound. Print Assumptions c11_example_wf. Print Assumptions c11_example_values.

(* ---- added: the specification `value` equals the flat sum over all bond assignments; transposition for every
   well-shaped network (Tensor/Flat.v, Tensor/TransposeAll.v) ---- *)
From QV Require Import Tensor.Flat Tensor.TransposeAll.
Theorem c11_value_flat : forall (K : cring) (r : nat) (tn : list (list (option (tensor K)))), netwf K r tn -> value r tn = flatval K tn (repeat 0 r).
Proof. exact value_flat_wf. Qed.
Theorem c11_value_flat_matrix : forall (K : cring) (r : nat) (tn : list (list (option (tensor K)))), tn <> [] -> Forall (vchain K) tn -> length (last tn []) = r -> map (deo K) (last tn []) = repeat 1 r -> value r tn = symval K tn (repeat 0 r).
Proof. exact value_symval. Qed.
Theorem c11_transpose : forall (K : cring) (r c : nat) (tn : list (list (option (tensor K)))), netwf K r tn -> length tn = c -> value c (transpose_net K r tn) = value r tn.
Proof. exact transpose_value. Qed.
Theorem c11_transpose_all : c11_transpose_statement.
Proof. exact transpose_value. Qed.
Print Assumptions c11_transpose_all.
Print Assumptions c11_value_flat.
Print Assumptions c11_value_flat_matrix.
Print Assumptions c11_transpose.

(* ---- added (round 3): multilinearity in the site tensors.  Multiplying every site tensor by its own factor
   (the harness uses compensating powers of two 2^-900..2^900 on padded networks) keeps the network well-shaped,
   multiplies the exact value by the product of the factors of the occupied sites, and the column sweep (both
   directions) and every split-and-recombine return exactly that [P-forall] (Tensor/Scale.v) ---- *)
From QV Require Import Tensor.Scale.
Theorem c11_scale_netwf : forall (K : cring) (r : nat) (tn : list (list (option (tensor K)))) (fs : list (list K)),
  netwf K r tn -> netwf K r (scale_net K fs tn).
Proof. exact scale_netwf. Qed.
Theorem c11_value_scale : forall (K : cring) (r : nat) (tn : list (list (option (tensor K)))) (fs : list (list K)),
  value r (scale_net K fs tn) = rmul K (netfac K fs tn) (value r tn).
Proof. exact value_scale. Qed.
Theorem c11_sweep_exact_scaled : forall (K : cring) (r : nat) (tn : list (list (option (tensor K)))) (fs : list (list K)),
  netwf K r tn ->
  contract K (scale_net K fs tn) None None None None None None = Ok (Scalar (rmul K (netfac K fs tn) (value r tn)))
  /\ contract K (scale_net K fs tn) None None None None (Some 1%Z) None = Ok (Scalar (rmul K (netfac K fs tn) (value r tn)))
  /\ contract K (scale_net K fs tn) None None None None (Some (-1)%Z) None = Ok (Scalar (rmul K (netfac K fs tn) (value r tn))).
Proof. exact sweep_exact_scaled. Qed.
Theorem c11_split_scaled : forall (K : cring) (r : nat) (tn : list (list (option (tensor K)))) (fs : list (list K)) (c : nat),
  0 < c < length tn -> netwf K r tn ->
  split_contract K (scale_net K fs tn) None None None (Z.of_nat c) = Ok (rmul K (netfac K fs tn) (value r tn)).
Proof. exact split_exact_scaled. Qed.
Print Assumptions c11_scale_netwf.
Print Assumptions c11_value_scale.
Print Assumptions c11_sweep_exact_scaled.
Print Assumptions c11_split_scaled.

(* ---- added (round 4): gauge freedom = WITHIN-TENSOR rescaling.  Multiplying every entry of every site tensor by one
   factor per index value of each of its four legs, such that on every bond the factors of the two ends cancel index by
   index (the harness uses 2^g_i on one end and 2^-g_i on the other, |g_i| up to 600, so that the entries of ONE tensor
   span hundreds of binary orders of magnitude), keeps the network well-shaped and leaves the exact value, the column
   sweep in both directions and every split-and-recombine unchanged [P-forall] (Tensor/Gauge.v).  Hence entries of a
   merged site tensor may not be discarded for being small relative to other entries of the same tensor. ---- *)
From QV Require Import Tensor.Gauge.
Theorem c11_gauge_netwf : forall (K : cring) (r : nat) (tn : list (list (option (tensor K)))) (gss : list (list (legfac K))),
  netwf K r tn -> netwf K r (gauge_net K gss tn).
Proof. exact gauge_netwf. Qed.
Theorem c11_opc_gauge : forall (K : cring) (A : list (option (tensor K))) (gs : list (legfac K)) v ws es, vgauge K gs A ->
  opc (gauge_col K gs A) v ws es = rmul K (rmul K (rmul K (colN K gs A v) (colE K gs A es)) (colW K gs A ws)) (opc A v ws es).
Proof. exact opc_gauge. Qed.
Theorem c11_value_gauge : forall (K : cring) (r : nat) (tn : list (list (option (tensor K)))) (gss : list (list (legfac K))),
  gauged K r gss tn -> value r (gauge_net K gss tn) = value r tn.
Proof. exact value_gauge. Qed.
Theorem c11_sweep_exact_gauged : forall (K : cring) (r : nat) (tn : list (list (option (tensor K)))) (gss : list (list (legfac K))),
  netwf K r tn -> gauged K r gss tn ->
  contract K (gauge_net K gss tn) None None None None None None = Ok (Scalar (value r tn))
  /\ contract K (gauge_net K gss tn) None None None None (Some 1%Z) None = Ok (Scalar (value r tn))
  /\ contract K (gauge_net K gss tn) None None None None (Some (-1)%Z) None = Ok (Scalar (value r tn)).
Proof. exact sweep_exact_gauged. Qed.
Theorem c11_split_gauged : forall (K : cring) (r : nat) (tn : list (list (option (tensor K)))) (gss : list (list (legfac K))) (c : nat),
  0 < c < length tn -> netwf K r tn -> gauged K r gss tn ->
  split_contract K (gauge_net K gss tn) None None None (Z.of_nat c) = Ok (value r tn).
Proof. exact split_exact_gauged. Qed.
(* non-vacuity: the example network gauged by signs on a horizontal and a vertical bond *)
Theorem c11_example_gauged : gauged Zring 2 ex_gauge ex_net /\ valueZ 2 (gauge_net Zring ex_gauge ex_net) = 731%Z.
Proof. exact (conj ex_gauged (proj1 ex_gauge_values)). Qed.
Print Assumptions c11_gauge_netwf.
Print Assumptions c11_opc_gauge.
Print Assumptions c11_value_gauge.
Print Assumptions c11_sweep_exact_gauged.
Print Assumptions c11_split_gauged.
Print Assumptions c11_example_gauged.
