(* Props/C11.v — placeholder while the proofs are being built *)
From Coq Require Import List Arith ZArith.
From QV Require Import Tensor.Sums Tensor.Net Tensor.Contract.
Theorem c11_pairwise_sem : forall (K : cring) (A B : list (option (tensor K))) v V ws Es,
  hmatch K A B -> vchain K A -> vchain K B -> vok K A v -> Vok K B V ->
  inr ws (map (dwo K) A) -> inr Es (map (deo K) B) ->
  opc (pairwise A B) (v * hd_dn K B + V) ws Es
  = sumt (map (deo K) A) (fun mid => rmul K (opc A v ws mid) (opc B V mid Es)).
Proof. exact pairwise_sem. Qed.
Print Assumptions c11_pairwise_sem.
