(* Props/C05.v — merge is a lossless, order- and partition-insensitive fold of run aggregates. *)
From Coq Require Import Arith List Bool Lia ZArith QArith Permutation.
From QV Require Import App.Merge.
Import ListNotations.
Open Scope nat_scope.

(* grouping + conservation: for every key, the output row holds the left-to-right sum of exactly the
   records with that key (None = key absent); the merge fails iff some key's sum fails *)
Theorem c05_groups_and_sums : forall l,
  match M_mergel [] l with
  | Some t => forall k, M_keysum None (M_vals k l) = Some (M_lookup k t)
  | None => exists k, M_keysum None (M_vals k l) = None
  end.
Proof. exact merge_spec. Qed.
(* one row per distinct key, in first-occurrence order *)
Theorem c05_rows_order : forall l t, M_mergel [] l = Some t -> map fst t = first_keys kx kx_eqb payload [] l.
Proof. exact merge_rows_order. Qed.
(* the five scalars are conserved *)
Theorem c05_conservation : forall vs v p, M_keysum None (v :: vs) = Some (Some p) ->
  p_run p = ztotal p_run (v :: vs) /\ p_fail p = ztotal p_fail (v :: vs) /\ p_succ p = ztotal p_succ (v :: vs) /\
  p_ewt p = ztotal p_ewt (v :: vs) /\ p_wall p = ztotal p_wall (v :: vs).
Proof. exact conservation. Qed.
(* array rule: both absent, or equal lengths summed element-wise; anything else is an error; the rule is a
   partial commutative associative operation, so the outcome depends on the multiset only *)
Theorem c05_array_rule_comm : forall a b, arr_add a b = arr_add b a.
Proof. exact arr_add_comm. Qed.
Theorem c05_array_rule_assoc : forall a b c,
  bind (arr_add a b) (fun ab => arr_add ab c) = bind (arr_add b c) (fun bc => arr_add a bc).
Proof. exact arr_add_assoc. Qed.
(* order insensitivity: equal rows per key, and equally erroring *)
Theorem c05_perm : forall l l', Permutation l l' ->
  match M_mergel [] l, M_mergel [] l' with
  | Some t, Some t' => forall k, M_lookup k t = M_lookup k t'
  | None, None => True
  | _, _ => False
  end.
Proof. exact merge_permutation. Qed.
(* partition insensitivity *)
Theorem c05_partition : forall dT dq ls, merge dT dq ls = merge dT dq [concat ls].
Proof. exact merge_partition. Qed.
(* a merge of merges: per key, summing the partial sums equals summing everything *)
Theorem c05_incremental : forall k l1 l2,
  M_keysum None (M_vals k (l1 ++ l2)) =
  bind (M_keysum None (M_vals k l1)) (fun s1 => bind (M_keysum None (M_vals k l2)) (fun s2 => addo payload padd s1 s2)).
Proof. exact merge_incremental. Qed.
(* legacy records are read as if they carried the documented defaults *)
Theorem c05_legacy : forall dT dq r,
  of_raw dT dq r = of_raw dT dq (mkRaw (w_code r) (w_nkd r) (w_em r) (w_dec r) (w_p r)
     (Some (match w_T r with Some t => t | None => dT end)) (Some (match w_q r with Some t => t | None => dq end))
     (w_n r) (Some (match w_Tval r with Some t => t | None => 1%Z end))
     (mkPay (p_run (w_pay r)) (p_fail (w_pay r)) (p_succ (w_pay r)) (p_ewt (w_pay r)) (p_wall (w_pay r))
        (if w_lc_present r then p_lc (w_pay r) else None) (if w_cv_present r then p_cv (w_pay r) else None)) true true).
Proof. exact legacy_defaults. Qed.

(* non-vacuity *)
Definition exr (c : nat) (run fail : Z) (lc : option (list Z)) : raw :=
  mkRaw c 0 0 0 0 (Some 0) (Some 0) 5%Z (Some 1%Z) (mkPay run fail (run - fail) 7 3 lc None) true true.
Example c05_ex :
  option_map (map (fun r => (row_key r, p_run (row_pay r), p_lc (row_pay r))))
     (merge 0 0 [[exr 1 10 2 (Some [1;2]%Z); exr 2 4 1 None]; [exr 1 5 5 (Some [3;4]%Z)]])
  = Some [([1;0;0;0;0;0;0], 15%Z, Some [4;6]%Z); ([2;0;0;0;0;0;0], 4%Z, None)]
  /\ merge 0 0 [[exr 1 10 2 (Some [1;2]%Z)]; [exr 1 5 5 None]] = None.
Proof. vm_compute. auto. Qed.

Print Assumptions c05_groups_and_sums. Print Assumptions c05_rows_order. Print Assumptions c05_conservation.
Print Assumptions c05_array_rule_comm. Print Assumptions c05_array_rule_assoc. Print Assumptions c05_perm.
Print Assumptions c05_partition. Print Assumptions c05_incremental. Print Assumptions c05_legacy.
