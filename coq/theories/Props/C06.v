(* Props/C06.v — seeded runs are reproducible; decoding is pure and history-independent.
   Partial: a Gallina function is pure by construction, so these theorems state what purity means for the
   system's bookkeeping (stream positions, prefix extension, caches); the actual Python caches / aliasing are
   exercised by history-based differential runs (harness/c06.py). *)
From Coq Require Import Arith List Bool Lia ZArith.
From QV Require Import App.RunLoop App.Seeded App.Memo.
Import ListNotations.

(* the aggregate (minus wall time) is a function of the arguments and the uniform stream *)
Theorem c06_function_of_stream : forall (U U' : nat -> nat) n m T q once fuel mr mf,
  (forall i, U i = U' i) ->
  rloop fuel mr mf (run_i U n m T q once) acc0 = rloop fuel mr mf (run_i U' n m T q once) acc0.
Proof.
  intros U U' n m T q once fuel mr mf H.
  assert (E : forall i, run_i U n m T q once i = run_i U' n m T q once i).
  { intros i. unfold run_i, slice. f_equal. apply map_ext. intros t. apply map_ext. intros j. apply H. }
  generalize acc0. induction fuel as [|fuel IH]; intros a; cbn [rloop]; [reflexivity|].
  destruct (guard mr mf (a_run a) (a_fail a)); [|reflexivity]. rewrite E.
  destruct (step a (run_i U' n m T q once (a_run a))); [apply IH|reflexivity].
Qed.

(* run i reads a slice whose position depends on i only: consecutive, non-overlapping *)
Theorem c06_stream_positions : forall n m T q i t, t < T ->
  run_start n m T q (S i) = run_start n m T q i + stride n m T q /\
  run_start n m T q i <= step_start n m T q i t /\
  step_start n m T q i t + (n + if q then m else 0) <= run_start n m T q (S i).
Proof. intros. split; [apply slices_contiguous|now apply step_within_run]. Qed.

(* a longer run extends a shorter one *)
Theorem c06_prefix_extension : forall U n m T q once fuel fuel' mr mf mr' mf' a a',
  limits_ok mr mf -> limits_ok mr' mf' -> le_opt mr mr' -> le_opt mf mf' ->
  rloop fuel mr mf (run_i U n m T q once) acc0 = Done a ->
  rloop fuel' mr' mf' (run_i U n m T q once) acc0 = Done a' ->
  a_run a <= a_run a' /\ a_ws a = firstn (a_run a) (a_ws a') /\
  state_after (run_i U n m T q once) (a_run a) = Some a.
Proof. exact prefix_extension. Qed.

(* the kind of limit that stops the loop is invisible: the aggregate is a function of the number of runs performed,
   so a run stopped by max_failures alone after N runs equals the run with max_runs = N (alone or together with
   any max_failures at least as large) *)
Theorem c06_same_runs_same_aggregate : forall U n m T q once fuel fuel' mr mf mr' mf' a a',
  limits_ok mr mf -> limits_ok mr' mf' ->
  rloop fuel mr mf (run_i U n m T q once) acc0 = Done a ->
  rloop fuel' mr' mf' (run_i U n m T q once) acc0 = Done a' ->
  a_run a = a_run a' -> a = a'.
Proof. exact same_runs_same_aggregate. Qed.
Theorem c06_cross_limit : forall U n m T q once fuel fuel' mr mf mf' a a',
  limits_ok mr mf -> limits_ok (Some (a_run a)) mf' -> le_opt mf mf' ->
  rloop fuel mr mf (run_i U n m T q once) acc0 = Done a ->
  rloop fuel' (Some (a_run a)) mf' (run_i U n m T q once) acc0 = Done a' -> a' = a.
Proof. exact cross_limit. Qed.

(* caches: if the key determines the result, no history of earlier calls (nor eviction) is visible *)
Theorem c06_memo_pure : forall (X K V : Type) (key : X -> K) keqb,
  (forall a b, keqb a b = true <-> a = b) -> forall (f : X -> V) evict,
  (forall c k v, find K V keqb k (evict c) = Some v -> find K V keqb k c = Some v) ->
  (forall x y, key x = key y -> f x = f y) ->
  forall h x, snd (call X K V key keqb f evict (run_history X K V key keqb f evict [] h) x) = f x.
Proof. exact memo_pure. Qed.
(* ... and a key coarser than the function's dependencies is exactly the defect the history runs hunt for *)
Theorem c06_memo_refuted : exists (f : nat * nat -> nat) (key : nat * nat -> nat) (h : list (nat * nat)) (x : nat * nat),
  snd (call (nat * nat) nat nat key Nat.eqb f (fun c => c) (run_history (nat * nat) nat nat key Nat.eqb f (fun c => c) [] h) x) <> f x.
Proof. exact memo_refuted. Qed.

(* the same defect with a set-like key (frozenset of defects) in front of an order-dependent computation *)
Theorem c06_memo_pure_factor : forall (X K V : Type) (key : X -> K) keqb,
  (forall a b, keqb a b = true <-> a = b) -> forall (g : K -> V) evict,
  (forall c k v, find K V keqb k (evict c) = Some v -> find K V keqb k c = Some v) ->
  forall h x, snd (call X K V key keqb (fun x => g (key x)) evict
                     (run_history X K V key keqb (fun x => g (key x)) evict [] h) x) = g (key x).
Proof. exact memo_pure_factor. Qed.
Theorem c06_memo_refuted_setkey : exists (f : list nat -> nat) (h : list (list nat)) (x : list nat),
  snd (call (list nat) (list nat) nat as_set list_eqb f (fun c => c)
         (run_history (list nat) (list nat) nat as_set list_eqb f (fun c => c) [] h) x) <> f x.
Proof. exact memo_refuted_setkey. Qed.

(* process-global ambient state (mpmath precision, numpy error state): if every component preserves the part of
   it that results depend on, no history of other components is visible; an unscoped change is visible *)
Theorem c06_ambient_pure : forall (S X Y W : Type) (comp : S -> X -> S * Y) (view : S -> W),
  (forall s s' x, view s = view s' -> snd (comp s x) = snd (comp s' x)) ->
  (forall s x, view (fst (comp s x)) = view s) ->
  forall h s x, snd (comp (amb_history S X Y comp s h) x) = snd (comp s x).
Proof. exact ambient_pure. Qed.
Theorem c06_ambient_refuted : exists (h : list (nat + nat)) (x : nat + nat),
  snd (leaky (amb_history nat (nat + nat) nat leaky 2 h) x) <> snd (leaky 2 x).
Proof. exact ambient_refuted. Qed.

Print Assumptions c06_function_of_stream. Print Assumptions c06_stream_positions.
Print Assumptions c06_prefix_extension. Print Assumptions c06_same_runs_same_aggregate.
Print Assumptions c06_cross_limit. Print Assumptions c06_memo_pure. Print Assumptions c06_memo_refuted.
Print Assumptions c06_memo_pure_factor. Print Assumptions c06_memo_refuted_setkey.
Print Assumptions c06_ambient_pure. Print Assumptions c06_ambient_refuted.
