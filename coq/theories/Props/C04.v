(* Props/C04.v — the run loop stops exactly on its limits; aggregates are the fold of the runs. *)
From Coq Require Import Arith List Bool Lia ZArith QArith.
From QV Require Import App.RunLoop App.RunLoopEnv.
Import ListNotations.
Open Scope nat_scope.

(* exact stopping: with limits >= 1 the loop ends at the first k >= 1 where n_run = max_runs or
   n_fail = max_failures — not before (no earlier index meets a limit) and not after *)
Theorem c04_stop_exact : forall fuel mr mf outs a, limits_ok mr mf ->
  rloop fuel mr mf outs acc0 = Done a ->
  let k := a_run a in
  1 <= k /\ state_after outs k = Some a /\ a_fail a = fails outs k /\
  (mr = Some k \/ mf = Some (fails outs k)) /\
  (forall j, j < k -> mr <> Some j /\ mf <> Some (fails outs j) /\ guard mr mf j (fails outs j) = true).
Proof. exact stop_exact. Qed.

Theorem c04_default_once : forall fuel outs a, run_loop fuel None None outs = Done a -> a_run a = 1.
Proof. exact default_once. Qed.

(* n_run = n_success + n_fail with each run counted once by its flag; weights are those of runs 0..k-1 in order *)
Theorem c04_counts : forall fuel mr mf outs a, rloop fuel mr mf outs acc0 = Done a ->
  a_fail a = fails outs (a_run a) /\ a_fail a <= a_run a /\
  a_ws a = map (fun i => r_w (outs i)) (seq 0 (a_run a)).
Proof. exact counts. Qed.

(* array aggregates are the fold of the per-run arrays over exactly the consumed prefix *)
Theorem c04_aggregate : forall fuel mr mf outs a, rloop fuel mr mf outs acc0 = Done a ->
  arr_prefix (fun i => r_lc (outs i)) (a_run a) = Some (a_lc a) /\
  arr_prefix (fun i => r_cv (outs i)) (a_run a) = Some (a_cv a).
Proof. exact aggregate. Qed.
(* ... which is None for all-None sequences and the element-wise sum for uniform ones *)
Theorem c04_sums : forall f n,
  (none_upto f n -> arr_prefix f n = Some None) /\
  (forall L, 1 <= n -> len_upto f L n -> arr_prefix f n = Some (Some (vsum_upto f L n))).
Proof. exact sums_uniform. Qed.
Theorem c04_sum_entries : forall f L n j, len_upto f L n ->
  nth j (vsum_upto f L n) 0%Z = zsum (map (fun i => nth j (match f i with Some v => v | None => [] end) 0%Z) (seq 0 n)).
Proof. exact vsum_entry. Qed.

(* inconsistent presence or shape is an error, and only that *)
Theorem c04_mismatch_iff : forall f n, arr_prefix f n = None <-> ~ none_upto f n /\ forall L, ~ len_upto f L n.
Proof. exact mismatch_iff. Qed.
Theorem c04_mismatch_raises : forall fuel mr mf outs m, rloop fuel mr mf outs acc0 = Mismatch m ->
  exists k, m = S k /\
    (arr_prefix (fun i => r_lc (outs i)) (S k) = None \/ arr_prefix (fun i => r_cv (outs i)) (S k) = None) /\
    arr_prefix (fun i => r_lc (outs i)) k <> None /\ arr_prefix (fun i => r_cv (outs i)) k <> None.
Proof. exact mismatch_raises. Qed.

(* mixed numeric kinds: per-run vectors of rationals with common denominator c (integer arrays and float arrays
   holding dyadic values k/c, in any order) are decided by the integer model on c * values: the loop commutes
   with scaling every lc / cv entry by c (same stop, same error run), and for c <> 0 scaling is injective, so
   the scaled totals determine the totals. The harness asks the engine with c = 4. *)
Theorem c04_scale : forall c fuel mr mf outs,
  run_loop fuel mr mf (fun i => scale_run c (outs i)) = scale_outcome c (run_loop fuel mr mf outs).
Proof. exact run_loop_scale. Qed.
Theorem c04_scale_inj : forall c x y, c <> 0%Z -> scale_ov c x = scale_ov c y -> x = y.
Proof. exact scale_ov_inj. Qed.

(* decoder-owned output buffers: a decode call writes this run's vector into a buffer of the decoder's choosing
   (possibly the one it returned before) and returns it; hl / hc = whatever the buffers held initially. The loop,
   which takes the contents of the returned array when it is returned, is the loop over the values written — for
   every address (reuse) pattern. The harness realises such decoders and asks the engine with the values. *)
Theorem c04_snapshot : forall fuel mr mf d hl hc,
  run_loop fuel mr mf (outs_seen d hl hc) = run_loop fuel mr mf (outs_written d).
Proof. exact snapshot_loop. Qed.
(* a loop that keeps the array object of run 1 as its running total agrees with the fold unless run 2 writes the
   buffer returned by run 1 (so decoders returning fresh arrays never show it; alias_differs: one buffer does) *)
Theorem c04_alias_needs_reuse : forall s h0 n, second_write_elsewhere s \/ n <= 1 ->
  alias_prefix s h0 n = arr_prefix (written s) n.
Proof. exact alias_agrees_when_fresh. Qed.

(* identification fields: echoed as passed for an arbitrary type P of probabilities (no arithmetic on them), with the
   documented measurement-probability default; every run is made with the echoed values *)
Theorem c04_echo : forall (P L : Type) (zero : P) m code nkd T em dec p q,
  let r := run_ident P L zero m code nkd T em dec p q in
  i_code P L r = code /\ i_nkd P L r = nkd /\ i_model P L r = em /\ i_decoder P L r = dec /\ i_p P L r = p /\
  i_steps P L r = match m with Ideal => 1 | Ftp => T end /\
  (forall q', m = Ftp -> q = Some q' -> i_q P L r = q') /\
  (m = Ftp -> q = None -> T <> 1 -> i_q P L r = p) /\
  (m = Ftp -> q = None -> T = 1 -> i_q P L r = zero) /\
  (m = Ideal -> i_q P L r = zero) /\
  (forall i, run_args P zero m T p q i = (i_steps P L r, i_p P L r, i_q P L r)).
Proof. exact echo. Qed.

(* statistics are definitional in the model: population variance, rates *)
Theorem c04_statistics : forall ws a n T,
  pvar ws = Qdiv (qsum (map (fun w => Qmult (Qminus (inject_Z w) (mean ws)) (Qminus (inject_Z w) (mean ws))) ws)) (qn (length ws)) /\
  failure_rate a = Qdiv (qn (a_fail a)) (qn (a_run a)) /\
  physical_rate n T a = Qdiv (Qdiv (Qdiv (inject_Z (zsum (a_ws a))) (inject_Z n)) (inject_Z T)) (qn (a_run a)).
Proof. intros. repeat split. Qed.

(* non-vacuity: a history with limits (5, 2): stops after the second failure at run 3 *)
Definition ex_outs (i : nat) : run_data :=
  mkRun (match i with 0 => false | 1 => true | 2 => false | _ => true end) (Some [1%Z; 0%Z]) None (Z.of_nat i).
Example c04_ex : run_loop 10 (Some 5) (Some 2) ex_outs = Done (mkAcc 3 2 (Some [3%Z; 0%Z]) None [0%Z; 1%Z; 2%Z])
  /\ limits_ok (Some 5) (Some 2).
Proof. split; [vm_compute; reflexivity|split; intros m E; injection E as <-; lia]. Qed.
(* non-vacuity of the buffer model: a decoder with one output buffer returning [1], [2], [3]: the fold is [6]; a loop
   keeping run 1's array object as its total would give [7] *)
Example c04_ex_alias : arr_prefix (written one_buffer) 3 = Some (Some [6%Z]) /\
  alias_prefix one_buffer (fun _ => []) 3 = Some (Some [7%Z]) /\ ~ second_write_elsewhere one_buffer.
Proof. exact alias_differs. Qed.
Example c04_ex_pvar : Qeq (pvar [1%Z; 0%Z; 2%Z; 1%Z]) (1 # 2).
Proof. vm_compute. reflexivity. Qed.

Print Assumptions c04_stop_exact. Print Assumptions c04_default_once. Print Assumptions c04_counts.
Print Assumptions c04_aggregate. Print Assumptions c04_sums. Print Assumptions c04_sum_entries.
Print Assumptions c04_mismatch_iff. Print Assumptions c04_mismatch_raises. Print Assumptions c04_statistics.
Print Assumptions c04_scale. Print Assumptions c04_scale_inj.
Print Assumptions c04_snapshot. Print Assumptions c04_alias_needs_reuse. Print Assumptions c04_echo.
