(* Props/C04.v — the run loop stops exactly on its limits; aggregates are the fold of the runs. *)
From Coq Require Import Arith List Bool Lia ZArith QArith.
From QV Require Import App.RunLoop.
Import ListNotations.
Open Scope nat_scope.

(* exact stopping: with limits >= 1 the loop ends at the first k >= 1 where n_run = max_runs or
   n_fail = max_failures — not before (no earlier index meets a limit) and not after *)
Theorem c04_stop_exact : forall fuel mr mf outs a, limits_ok mr mf ->
  rloop fuel mr mf outs acc0 = Done a ->
  let k := a_run a in
  1 <= k /\ state_after outs k = Some a /\ a_fail a = fails outs k /\
  (mr = Some k \/ mf = Some (fails outs k)) /\
  (forall j, j < k -> mr <> Some j /\ mf <> Some (fails outs j) /\ guard mr mf j (fails outs j) = true).
Proof. exact stop_exact. Qed.

Theorem c04_default_once : forall fuel outs a, run_loop fuel None None outs = Done a -> a_run a = 1.
Proof. exact default_once. Qed.

(* n_run = n_success + n_fail with each run counted once by its flag; weights are those of runs 0..k-1 in order *)
Theorem c04_counts : forall fuel mr mf outs a, rloop fuel mr mf outs acc0 = Done a ->
  a_fail a = fails outs (a_run a) /\ a_fail a <= a_run a /\
  a_ws a = map (fun i => r_w (outs i)) (seq 0 (a_run a)).
Proof. exact counts. Qed.

(* array aggregates are the fold of the per-run arrays over exactly the consumed prefix *)
Theorem c04_aggregate : forall fuel mr mf outs a, rloop fuel mr mf outs acc0 = Done a ->
  arr_prefix (fun i => r_lc (outs i)) (a_run a) = Some (a_lc a) /\
  arr_prefix (fun i => r_cv (outs i)) (a_run a) = Some (a_cv a).
Proof. exact aggregate. Qed.
(* ... which is None for all-None sequences and the element-wise sum for uniform ones *)
Theorem c04_sums : forall f n,
  (none_upto f n -> arr_prefix f n = Some None) /\
  (forall L, 1 <= n -> len_upto f L n -> arr_prefix f n = Some (Some (vsum_upto f L n))).
Proof. exact sums_uniform. Qed.
Theorem c04_sum_entries : forall f L n j, len_upto f L n ->
  nth j (vsum_upto f L n) 0%Z = zsum (map (fun i => nth j (match f i with Some v => v | None => [] end) 0%Z) (seq 0 n)).
Proof. exact vsum_entry. Qed.

(* inconsistent presence or shape is an error, and only that *)
Theorem c04_mismatch_iff : forall f n, arr_prefix f n = None <-> ~ none_upto f n /\ forall L, ~ len_upto f L n.
Proof. exact mismatch_iff. Qed.
Theorem c04_mismatch_raises : forall fuel mr mf outs m, rloop fuel mr mf outs acc0 = Mismatch m ->
  exists k, m = S k /\
    (arr_prefix (fun i => r_lc (outs i)) (S k) = None \/ arr_prefix (fun i => r_cv (outs i)) (S k) = None) /\
    arr_prefix (fun i => r_lc (outs i)) k <> None /\ arr_prefix (fun i => r_cv (outs i)) k <> None.
Proof. exact mismatch_raises. Qed.

(* mixed numeric kinds: per-run vectors of rationals with common denominator c (integer arrays and float arrays
   holding dyadic values k/c, in any order) are decided by the integer model on c * values: the loop commutes
   with scaling every lc / cv entry by c (same stop, same error run), and for c <> 0 scaling is injective, so
   the scaled totals determine the totals. The harness asks the engine with c = 4. *)
Theorem c04_scale : forall c fuel mr mf outs,
  run_loop fuel mr mf (fun i => scale_run c (outs i)) = scale_outcome c (run_loop fuel mr mf outs).
Proof. exact run_loop_scale. Qed.
Theorem c04_scale_inj : forall c x y, c <> 0%Z -> scale_ov c x = scale_ov c y -> x = y.
Proof. exact scale_ov_inj. Qed.

(* statistics are definitional in the model: population variance, rates *)
Theorem c04_statistics : forall ws a n T,
  pvar ws = Qdiv (qsum (map (fun w => Qmult (Qminus (inject_Z w) (mean ws)) (Qminus (inject_Z w) (mean ws))) ws)) (qn (length ws)) /\
  failure_rate a = Qdiv (qn (a_fail a)) (qn (a_run a)) /\
  physical_rate n T a = Qdiv (Qdiv (Qdiv (inject_Z (zsum (a_ws a))) (inject_Z n)) (inject_Z T)) (qn (a_run a)).
Proof. intros. repeat split. Qed.

(* non-vacuity: a history with limits (5, 2): stops after the second failure at run 3 *)
Definition ex_outs (i : nat) : run_data :=
  mkRun (match i with 0 => false | 1 => true | 2 => false | _ => true end) (Some [1%Z; 0%Z]) None (Z.of_nat i).
Example c04_ex : run_loop 10 (Some 5) (Some 2) ex_outs = Done (mkAcc 3 2 (Some [3%Z; 0%Z]) None [0%Z; 1%Z; 2%Z])
  /\ limits_ok (Some 5) (Some 2).
Proof. split; [vm_compute; reflexivity|split; intros m E; injection E as <-; lia]. Qed.
Example c04_ex_pvar : Qeq (pvar [1%Z; 0%Z; 2%Z; 1%Z]) (1 # 2).
Proof. vm_compute. reflexivity. Qed.

Print Assumptions c04_stop_exact. Print Assumptions c04_default_once. Print Assumptions c04_counts.
Print Assumptions c04_aggregate. Print Assumptions c04_sums. Print Assumptions c04_sum_entries.
Print Assumptions c04_mismatch_iff. Print Assumptions c04_mismatch_raises. Print Assumptions c04_statistics.
Print Assumptions c04_scale. Print Assumptions c04_scale_inj.
