(* Props/C10.v — untruncated tensor-network decoders are maximum-likelihood decoders.
   What is proved here is the exact oracle (Tensor/Coset.v): the enumeration of the stabilizer group
   counts every element once, the coset probability is a function of the coset, the arg-max choice
   returns the first maximal index, and the planar qubit-node value is the local factor of the sum.
   The link "column-sweep contraction = value of the network" is Props/C11.v (c11_sweep_exact, c11_split);
   that each decoder's network (create_tn) has the coset sum as its value is NOT proved in Coq: it is
   checked by harness/c10.py against the exact sums on every generated case. *)
From Coq Require Import List Arith Lia Bool ZArith.
From QV Require Import Core.Bits Core.Pauli Core.Symp Tensor.Sums Tensor.Coset.
Import ListNotations.
Local Open Scope nat_scope.

(* c10_enumeration [P-forall]: for independent generators the 2^m products are pairwise distinct, closed
   under multiplication, and contain the identity: the sum over stabilizer-bit assignments is the sum over
   the stabilizer group, no element counted twice *)
Theorem c10_enumeration : forall len gens, Forall (fun g => length g = len) gens -> indep len gens ->
  NoDup (span_list len gens) /\ length (span_list len gens) = 2 ^ length gens
  /\ In (zeros len) (span_list len gens)
  /\ (forall u v, In u (span_list len gens) -> In v (span_list len gens) -> In (xorv u v) (span_list len gens)).
Proof.
  intros len gens HF HI. split; [apply span_nodup; assumption|]. split; [apply span_count|].
  split; [apply span_zero|]. apply span_closed. exact HF.
Qed.
(* the coset probability depends only on the coset f.G, not on the representative [P-forall, any ring] *)
Theorem c10_coset_well_defined : forall (K : cring) (d : dist K) n gens f g,
  Forall (fun g => length g = n + n) gens -> indep (n + n) gens -> In g (span_list (n + n) gens) ->
  coset_prob K d n gens (xorv f g) = coset_prob K d n gens f.
Proof. exact coset_prob_well_defined. Qed.
(* c10_choice [P-forall]: Python's max over zip returns the first index of the maximum *)
Theorem c10_choice : forall ps, ps <> [] ->
  ml_choice ps < length ps
  /\ (forall j, j < length ps -> (nth j ps 0 <= nth (ml_choice ps) ps 0)%Z)
  /\ (forall j, j < ml_choice ps -> (nth j ps 0 < nth (ml_choice ps) ps 0)%Z).
Proof. exact ml_choice_spec. Qed.
(* c10_node_value [P-forall]: the horizontal-edge node value is the probability of f.Z^n.X^e.Z^s.X^w; the
   vertical-edge value is the same with the index order rotated *)
Theorem c10_node_value : forall (K : cring) (d : dist K) fx fz n e s w,
  prob K d 1 (xorv [fx; fz] (xorv [false; n] (xorv [e; false] (xorv [false; s] [w; false]))))
  = rmul K (h_node K d fx fz n e s w) (r1 K)
  /\ v_node K d fx fz n e s w = h_node K d fx fz e s w n.
Proof. intros. split; [apply h_node_is_prob|reflexivity]. Qed.

(* c10_delta_sem [P-forall]: stabilizer tensors (tsr.delta) take the values 0/1 and equal 1 whenever all
   non-dummy legs carry the same index *)
Theorem c10_delta_sem : forall (K : cring) dims idx,
  (delta_val K dims idx = r1 K \/ delta_val K dims idx = r0 K)
  /\ (length dims = length idx ->
      (forall j k, j < length dims -> k < length dims -> nth j dims 1 <> 1 -> nth k dims 1 <> 1 -> nth j idx 0 = nth k idx 0) ->
      delta_val K dims idx = r1 K).
Proof. intros K dims idx. split; [apply delta_val_spec|apply delta_val_one]. Qed.

(* ---- generic statements kept visible ------------------------------------------------------------ *)
(* the network of a decoder contracts to the coset probability: [network] stands for the decoder's
   create_tn followed by the exact contraction value of Tensor/Net.v.  The generic form (any network
   constructor) is not provable as such; its PLANAR instance is proved for all sizes and re-exported at the end
   of this file (c10_planar_network_value, c10_planar_network_sweep, ...), as is the abstract factor-graph form
   (c10_factor_graph_value). *)
Definition c10_network_statement (K : cring) (network_value : dist K -> nat -> list bsf -> bsf -> K) : Prop :=
  forall d n gens f, Forall (fun g => length g = n + n) gens -> indep (n + n) gens ->
    network_value d n gens f = coset_prob K d n gens f.
(* the four candidates f, f.X, f.X.Z, f.Z exhaust the errors with the syndrome of f: for a stabilizer code
   with one logical qubit (n - 1 independent commuting generators, logicals lx, lz commuting with them and
   anticommuting with each other), every e with the syndrome of f lies in exactly one of the four cosets *)
(* PROVED for arbitrary codes: see c10_four_cosets_all / c10_normalizer_counting_all at the end of this file *)
Definition c10_four_cosets_statement : Prop :=
  forall n (gens : list bsf) (lx lz f e : bsf),
    Forall (fun g => length g = n + n) (lx :: lz :: f :: e :: gens) -> indep (n + n) gens -> S (length gens) = n ->
    (forall g h, In g gens -> In h gens -> bsp g h = false) ->
    (forall g, In g gens -> bsp lx g = false /\ bsp lz g = false) -> bsp lx lz = true ->
    (forall g, In g gens -> bsp e g = bsp f g) ->
    exists! c, In c [f; xorv f lx; xorv (xorv f lx) lz; xorv f lz] /\ In (xorv e c) (span_list (n + n) gens).

(* non-vacuity: the four-qubit [[4,2,2]]-style pair XXXX, ZZZZ on 4 qubits, depolarizing numerators 7,1,1,1 *)
Example c10_example :
  let gens := [[true;true;true;true;false;false;false;false]; [false;false;false;false;true;true;true;true]] in
  indep 8 gens /\ coset_prob Zring (7, 1, 1, 1)%Z 4 gens (zeros 8) = (7*7*7*7 + 1 + 1 + 1)%Z
  /\ ml_choice [3; 9; 9; 2]%Z = 1.
Proof. cbn. repeat split; try reflexivity; intuition discriminate. Qed.

Print Assumptions c10_enumeration. Print Assumptions c10_coset_well_defined. Print Assumptions c10_choice.
Print Assumptions c10_node_value. Print Assumptions c10_delta_sem.

(* ---- added: the four candidate cosets (Tensor/FourCosets.v): same syndrome, pairwise inequivalent, exactly one contains
   a given error relative to `normalizer_spanned` (itself proved from a destabilizer-basis certificate); the rank-nullity
   counting step stays visible as normalizer_counting_statement ---- *)
From QV Require Import Core.Span Core.Rank Tensor.FourCosets.
Theorem c10_four_cosets_syndrome : forall N : nat, Nat.even N = true -> forall (gens : list bsf) (lx lz : bsf), rowlen N gens -> length lx = N -> length lz = N -> (forall g : bsf, In g gens -> bsp lx g = false) -> (forall g : bsf, In g gens -> bsp lz g = false) -> forall (f : bsf) (a b : bool) (g : bsf), length f = N -> In g gens -> bsp (cand N lx lz f a b) g = bsp f g.
Proof. exact four_cosets_syndrome. Qed.
Theorem c10_four_cosets_at_most_one : forall N : nat, Nat.even N = true -> forall (gens : list bsf) (lx lz : bsf), rowlen N gens -> length lx = N -> length lz = N -> (forall g : bsf, In g gens -> bsp lx g = false) -> (forall g : bsf, In g gens -> bsp lz g = false) -> bsp lx lz = true -> forall (e f : bsf) (a b : bool), length e = N -> length f = N -> in_spanP N gens (xorv e (cand N lx lz f a b)) -> a = xorb (bsp lz e) (bsp lz f) /\ b = xorb (bsp lx e) (bsp lx f).
Proof. exact four_cosets_at_most_one. Qed.
Theorem c10_four_cosets_inequivalent : forall N : nat, Nat.even N = true -> forall (gens : list bsf) (lx lz : bsf), rowlen N gens -> length lx = N -> length lz = N -> (forall g : bsf, In g gens -> bsp lx g = false) -> (forall g : bsf, In g gens -> bsp lz g = false) -> bsp lx lz = true -> forall (f : bsf) (a b a' b' : bool), length f = N -> in_spanP N gens (xorv (cand N lx lz f a b) (cand N lx lz f a' b')) -> a = a' /\ b = b'.
Proof. exact four_cosets_inequivalent. Qed.
Theorem c10_four_cosets_exactly_one : forall N : nat, Nat.even N = true -> forall (gens : list bsf) (lx lz : bsf), rowlen N gens -> length lx = N -> length lz = N -> (forall g : bsf, In g gens -> bsp lx g = false) -> (forall g : bsf, In g gens -> bsp lz g = false) -> bsp lx lz = true -> forall e f : bsf, normalizer_spanned N gens lx lz -> length e = N -> length f = N -> (forall g : bsf, In g gens -> bsp e g = bsp f g) -> exists a b : bool, in_spanP N gens (xorv e (cand N lx lz f a b)) /\ (forall a' b' : bool, in_spanP N gens (xorv e (cand N lx lz f a' b')) -> a' = a /\ b' = b).
Proof. exact four_cosets_exactly_one. Qed.
Theorem c10_normalizer_spanned_of_basis : forall N : nat, Nat.even N = true -> forall (gens dests : list bsf) (lx lz : bsf), rowlen N gens -> rowlen N dests -> length dests = length gens -> length lx = N -> length lz = N -> (forall g h : bsf, In g gens -> In h gens -> bsp g h = false) -> (forall g : bsf, In g gens -> bsp lx g = false) -> (forall g : bsf, In g gens -> bsp lz g = false) -> (forall i j : nat, i < length gens -> j < length gens -> bsp (nth i dests []) (nth j gens []) = (i =? j)) -> (forall t : bsf, length t = N -> in_spanP N (gens ++ dests ++ [lx; lz]) t) -> normalizer_spanned N gens lx lz.
Proof. exact normalizer_spanned_of_basis. Qed.
Theorem c10_four_cosets_of_counting : normalizer_counting_statement -> four_cosets_statement.
Proof. exact four_cosets_of_counting. Qed.
Theorem c10_candidates : forall (N : nat) (lx lz : bsf), length lx = N -> length lz = N -> forall f : bsf, length f = N -> [cand N lx lz f false false; cand N lx lz f true false; cand N lx lz f true true; cand N lx lz f false true] = [f; xorv f lx; xorv (xorv f lx) lz; xorv f lz].
Proof. exact cand_list. Qed.
Print Assumptions c10_four_cosets_syndrome.
Print Assumptions c10_four_cosets_at_most_one.
Print Assumptions c10_four_cosets_inequivalent.
Print Assumptions c10_four_cosets_exactly_one.
Print Assumptions c10_normalizer_spanned_of_basis.
Print Assumptions c10_four_cosets_of_counting.
Print Assumptions c10_candidates.

(* ---- re-exported by tools/reexport.py: statements copied from `Check`, closed by `exact` ---- *)
From QV Require Import Tensor.CosetSum Tensor.PlanarNet Tensor.CosetNetwork.
Theorem c10_factor_graph_value : forall (K : cring) (d : dist K) (n : nat) (gens : list bsf) (f : bsf), Forall (fun g : bsf => length g = (n + n)%nat) gens -> length f = (n + n)%nat -> sumt (repeat 2%nat (length gens)) (fun t : list nat => prodl (seq 0 n) (qubit_factor K d n gens f (map nbit t))) = coset_prob K d n gens f.
Proof. exact factor_graph_value. Qed.
Theorem c10_coset_prob_as_bond_sum : forall (K : cring) (d : dist K) (n : nat) (gens : list bsf) (f : bsf), sumt (repeat 2%nat (length gens)) (fun t : list nat => prob K d n (xorv f (Span.lincomb (n + n) (map nbit t) gens))) = coset_prob K d n gens f.
Proof. exact coset_prob_as_bond_sum. Qed.
Theorem c10_planar_tn_value : forall (K : cring) (d : dist K) (R C : nat), (1 <= R)%nat -> (2 <= C)%nat -> forall (fx fz : nat -> nat -> bool) (g0 : idx -> bool), Net.value R (planar_tn K d R C fx fz) = sumA zz_eqb (PL R C) (fun g : idx -> bool => prodl (QL R C) (siteval K d R C fx fz g)) g0.
Proof. exact planar_tn_value. Qed.
Theorem c10_planar_network_value : forall (K : cring) (d : dist K) (rows cols : Z), 2 <= rows -> 2 <= cols -> forall f : bsf, length f = (Planar.planar_n rows cols + Planar.planar_n rows cols)%nat -> Net.value (tn_rows rows) (planar_network K d rows cols f) = coset_prob K d (Planar.planar_n rows cols) (Planar.stabilizers rows cols) f.
Proof. exact planar_network_value. Qed.
Theorem c10_planar_network_wf : forall (K : cring) (d : dist K) (rows cols : Z), 2 <= rows -> 2 <= cols -> forall f : bsf, Exact.netwf K (tn_rows rows) (planar_network K d rows cols f).
Proof. exact planar_network_wf. Qed.
Theorem c10_planar_network_flat : forall (K : cring) (d : dist K) (rows cols : Z), 2 <= rows -> 2 <= cols -> forall f : bsf, length f = (Planar.planar_n rows cols + Planar.planar_n rows cols)%nat -> Flat.flatval K (planar_network K d rows cols f) (repeat 0%nat (tn_rows rows)) = coset_prob K d (Planar.planar_n rows cols) (Planar.stabilizers rows cols) f.
Proof. exact planar_network_flat. Qed.
Theorem c10_planar_network_sweep : forall (K : cring) (d : dist K) (rows cols : Z), 2 <= rows -> 2 <= cols -> forall f : bsf, length f = (Planar.planar_n rows cols + Planar.planar_n rows cols)%nat -> Contract.contract K (planar_network K d rows cols f) None None None None None None = Contract.Ok (Contract.Scalar (coset_prob K d (Planar.planar_n rows cols) (Planar.stabilizers rows cols) f)) /\ Contract.contract K (planar_network K d rows cols f) None None None None (Some 1) None = Contract.Ok (Contract.Scalar (coset_prob K d (Planar.planar_n rows cols) (Planar.stabilizers rows cols) f)) /\ Contract.contract K (planar_network K d rows cols f) None None None None (Some (-1)) None = Contract.Ok (Contract.Scalar (coset_prob K d (Planar.planar_n rows cols) (Planar.stabilizers rows cols) f)).
Proof. exact planar_network_sweep. Qed.
Theorem c10_planar_network_split : forall (K : cring) (d : dist K) (rows cols : Z), 2 <= rows -> 2 <= cols -> forall f : bsf, length f = (Planar.planar_n rows cols + Planar.planar_n rows cols)%nat -> forall c : nat, (0 < c < tn_cols cols)%nat -> Contract.split_contract K (planar_network K d rows cols f) None None None (Z.of_nat c) = Contract.Ok (coset_prob K d (Planar.planar_n rows cols) (Planar.stabilizers rows cols) f).
Proof. exact planar_network_split. Qed.
Theorem c10_planar_network_transposed : forall (K : cring) (d : dist K) (rows cols : Z), 2 <= rows -> 2 <= cols -> forall f : bsf, length f = (Planar.planar_n rows cols + Planar.planar_n rows cols)%nat -> Net.value (tn_cols cols) (Contract.transpose_net K (tn_rows rows) (planar_network K d rows cols f)) = coset_prob K d (Planar.planar_n rows cols) (Planar.stabilizers rows cols) f.
Proof. exact planar_network_transposed. Qed.
Theorem c10_planar_network_transposed_sweep : forall (K : cring) (d : dist K) (rows cols : Z), 2 <= rows -> 2 <= cols -> forall f : bsf, length f = (Planar.planar_n rows cols + Planar.planar_n rows cols)%nat -> Contract.contract K (Contract.transpose_net K (tn_rows rows) (planar_network K d rows cols f)) None None None None None None = Contract.Ok (Contract.Scalar (coset_prob K d (Planar.planar_n rows cols) (Planar.stabilizers rows cols) f)).
Proof. exact planar_network_transposed_sweep. Qed.
Theorem c10_planar_network_mixed_split : forall (K : cring) (d : dist K) (rows cols : Z), 2 <= rows -> 2 <= cols -> forall f : bsf, length f = (Planar.planar_n rows cols + Planar.planar_n rows cols)%nat -> Contract.split_contract K (firstn (tn_cols cols - 1) (planar_network K d rows cols f) ++ skipn (tn_cols cols - 1) (planar_network K d rows cols (xorv f (PlanarAll.lxop rows cols)))) None None None (Z.of_nat (tn_cols cols - 1)) = Contract.Ok (coset_prob K d (Planar.planar_n rows cols) (Planar.stabilizers rows cols) (xorv f (PlanarAll.lxop rows cols))).
Proof. exact planar_network_mixed_split. Qed.
Theorem c10_planar_network_mixed_split_rows : forall (K : cring) (d : dist K) (rows cols : Z), 2 <= rows -> 2 <= cols -> forall f : bsf, length f = (Planar.planar_n rows cols + Planar.planar_n rows cols)%nat -> Contract.split_contract K (firstn (tn_rows rows - 1) (Contract.transpose_net K (tn_rows rows) (planar_network K d rows cols f)) ++ skipn (tn_rows rows - 1) (Contract.transpose_net K (tn_rows rows) (planar_network K d rows cols (xorv f (PlanarAll.lzop rows cols))))) None None None (Z.of_nat (tn_rows rows - 1)) = Contract.Ok (coset_prob K d (Planar.planar_n rows cols) (Planar.stabilizers rows cols) (xorv f (PlanarAll.lzop rows cols))).
Proof. exact planar_network_mixed_split_rows. Qed.
Theorem c10_planar_stabilizers_indep : forall rows cols : Z, 2 <= rows -> 2 <= cols -> indep (Planar.planar_n rows cols + Planar.planar_n rows cols) (Planar.stabilizers rows cols).
Proof. exact planar_stabilizers_indep. Qed.
Theorem c10_c10_planar_network : c10_planar_network_statement.
Proof. exact c10_planar_network. Qed.
Print Assumptions c10_factor_graph_value.
Print Assumptions c10_coset_prob_as_bond_sum.
Print Assumptions c10_planar_tn_value.
Print Assumptions c10_planar_network_value.
Print Assumptions c10_planar_network_wf.
Print Assumptions c10_planar_network_flat.
Print Assumptions c10_planar_network_sweep.
Print Assumptions c10_planar_network_split.
Print Assumptions c10_planar_network_transposed.
Print Assumptions c10_planar_network_transposed_sweep.
Print Assumptions c10_planar_network_mixed_split.
Print Assumptions c10_planar_network_mixed_split_rows.
Print Assumptions c10_planar_stabilizers_indep.
Print Assumptions c10_c10_planar_network.

(* ---- re-exported by tools/reexport.py: statements copied from `Check`, closed by `exact` ---- *)
From QV Require Import Tensor.FourCosetsLattice.
Theorem c10_planar_four_cosets : forall rows cols : Z, 2 <= rows -> 2 <= cols -> four_cosets_premises (Planar.planar_n rows cols) (Code.stabs (Planar.planar_code rows cols)) (PlanarAll.lxop rows cols) (PlanarAll.lzop rows cols) /\ four_cosets_conclusion (Planar.planar_n rows cols) (Code.stabs (Planar.planar_code rows cols)) (PlanarAll.lxop rows cols) (PlanarAll.lzop rows cols).
Proof. exact planar_four_cosets. Qed.
Theorem c10_planar_four_cosets_c10 : forall rows cols : Z, 2 <= rows -> 2 <= cols -> let n := Planar.planar_n rows cols in let S := Code.stabs (Planar.planar_code rows cols) in forall f e : bsf, length f = (n + n)%nat -> length e = (n + n)%nat -> (forall g : bsf, In g S -> bsp e g = bsp f g) -> indep (n + n) S /\ (exists ! c : bsf, In c [f; xorv f (PlanarAll.lxop rows cols); xorv (xorv f (PlanarAll.lxop rows cols)) (PlanarAll.lzop rows cols); xorv f (PlanarAll.lzop rows cols)] /\ In (xorv e c) (span_list (n + n) S)).
Proof. exact planar_four_cosets_c10. Qed.
Theorem c10_planar_four_cosets_prob : forall rows cols : Z, 2 <= rows -> 2 <= cols -> let n := Planar.planar_n rows cols in let S := Code.stabs (Planar.planar_code rows cols) in let lx := PlanarAll.lxop rows cols in let lz := PlanarAll.lzop rows cols in forall (K : cring) (d : dist K) (f : bsf), length f = (n + n)%nat -> (forall L : list bsf, NoDup L -> (forall e : bsf, In e L <-> length e = (n + n)%nat /\ (forall g : bsf, In g S -> bsp e g = bsp f g)) -> sum_list K (map (prob K d n) L) = radd K (radd K (radd K (coset_prob K d n S f) (coset_prob K d n S (xorv f lx))) (coset_prob K d n S (xorv (xorv f lx) lz))) (coset_prob K d n S (xorv f lz))) /\ sum_list K (map (prob K d n) (syndrome_class (n + n) S f)) = radd K (radd K (radd K (coset_prob K d n S f) (coset_prob K d n S (xorv f lx))) (coset_prob K d n S (xorv (xorv f lx) lz))) (coset_prob K d n S (xorv f lz)).
Proof. exact planar_four_cosets_prob. Qed.
Theorem c10_planar_normalizer_coset : forall rows cols : Z, 2 <= rows -> 2 <= cols -> let n := Planar.planar_n rows cols in let S := Code.stabs (Planar.planar_code rows cols) in let lx := PlanarAll.lxop rows cols in let lz := PlanarAll.lzop rows cols in [lpart (n + n) lx lz false false; lpart (n + n) lx lz true false; lpart (n + n) lx lz true true; lpart (n + n) lx lz false true] = [zeros (n + n); lx; xorv lx lz; lz] /\ (forall (e : bsf) (a b : bool), length e = (n + n)%nat -> Dist.normalizer S e -> in_spanP (n + n) S (xorv e (lpart (n + n) lx lz a b)) <-> a = bsp e lz /\ b = bsp e lx).
Proof. exact planar_normalizer_coset. Qed.
Theorem c10_rotplanar_four_cosets : forall rows cols : Z, 3 <= rows -> 3 <= cols -> four_cosets_premises (RotPlanar.rp_n rows cols) (Code.stabs (RotPlanar.rotplanar_code rows cols)) (RotPlanarValidAll.rp_lxop rows cols) (RotPlanarValidAll.rp_lzop rows cols) /\ four_cosets_conclusion (RotPlanar.rp_n rows cols) (Code.stabs (RotPlanar.rotplanar_code rows cols)) (RotPlanarValidAll.rp_lxop rows cols) (RotPlanarValidAll.rp_lzop rows cols).
Proof. exact rotplanar_four_cosets. Qed.
Theorem c10_rotplanar_four_cosets_c10 : forall rows cols : Z, 3 <= rows -> 3 <= cols -> let n := RotPlanar.rp_n rows cols in let S := Code.stabs (RotPlanar.rotplanar_code rows cols) in forall f e : bsf, length f = (n + n)%nat -> length e = (n + n)%nat -> (forall g : bsf, In g S -> bsp e g = bsp f g) -> indep (n + n) S /\ (exists ! c : bsf, In c [f; xorv f (RotPlanarValidAll.rp_lxop rows cols); xorv (xorv f (RotPlanarValidAll.rp_lxop rows cols)) (RotPlanarValidAll.rp_lzop rows cols); xorv f (RotPlanarValidAll.rp_lzop rows cols)] /\ In (xorv e c) (span_list (n + n) S)).
Proof. exact rotplanar_four_cosets_c10. Qed.
Theorem c10_rotplanar_four_cosets_prob : forall rows cols : Z, 3 <= rows -> 3 <= cols -> let n := RotPlanar.rp_n rows cols in let S := Code.stabs (RotPlanar.rotplanar_code rows cols) in let lx := RotPlanarValidAll.rp_lxop rows cols in let lz := RotPlanarValidAll.rp_lzop rows cols in forall (K : cring) (d : dist K) (f : bsf), length f = (n + n)%nat -> (forall L : list bsf, NoDup L -> (forall e : bsf, In e L <-> length e = (n + n)%nat /\ (forall g : bsf, In g S -> bsp e g = bsp f g)) -> sum_list K (map (prob K d n) L) = radd K (radd K (radd K (coset_prob K d n S f) (coset_prob K d n S (xorv f lx))) (coset_prob K d n S (xorv (xorv f lx) lz))) (coset_prob K d n S (xorv f lz))) /\ sum_list K (map (prob K d n) (syndrome_class (n + n) S f)) = radd K (radd K (radd K (coset_prob K d n S f) (coset_prob K d n S (xorv f lx))) (coset_prob K d n S (xorv (xorv f lx) lz))) (coset_prob K d n S (xorv f lz)).
Proof. exact rotplanar_four_cosets_prob. Qed.
Theorem c10_toric_sixteen_cosets : forall rows cols : Z, 2 <= rows -> 2 <= cols -> let n := Toric.toric_n rows cols in let S := Code.stabs (Toric.toric_code rows cols) in let x1 := ToricAll.x1op rows cols in let x2 := ToricAll.x2op rows cols in let z1 := ToricAll.z1op rows cols in let z2 := ToricAll.z2op rows cols in forall f : bsf, length f = (n + n)%nat -> (forall (a1 a2 b1 b2 : bool) (g : bsf), In g S -> bsp (cand2 (n + n) x1 x2 z1 z2 f a1 a2 b1 b2) g = bsp f g) /\ (forall a1 a2 b1 b2 a1' a2' b1' b2' : bool, in_spanP (n + n) S (xorv (cand2 (n + n) x1 x2 z1 z2 f a1 a2 b1 b2) (cand2 (n + n) x1 x2 z1 z2 f a1' a2' b1' b2')) -> a1 = a1' /\ a2 = a2' /\ b1 = b1' /\ b2 = b2') /\ (forall e : bsf, length e = (n + n)%nat -> (forall g : bsf, In g S -> bsp e g = bsp f g) -> (exists a1 a2 b1 b2 : bool, in_spanP (n + n) S (xorv e (cand2 (n + n) x1 x2 z1 z2 f a1 a2 b1 b2)) /\ (forall a1' a2' b1' b2' : bool, in_spanP (n + n) S (xorv e (cand2 (n + n) x1 x2 z1 z2 f a1' a2' b1' b2')) -> a1' = a1 /\ a2' = a2 /\ b1' = b1 /\ b2' = b2)) /\ (forall a1 a2 b1 b2 : bool, in_spanP (n + n) S (xorv e (cand2 (n + n) x1 x2 z1 z2 f a1 a2 b1 b2)) <-> a1 = xorb (bsp z1 e) (bsp z1 f) /\ a2 = xorb (bsp z2 e) (bsp z2 f) /\ b1 = xorb (bsp x1 e) (bsp x1 f) /\ b2 = xorb (bsp x2 e) (bsp x2 f))).
Proof. exact toric_sixteen_cosets. Qed.
Theorem c10_toric_sixteen_prob : forall rows cols : Z, 2 <= rows -> 2 <= cols -> let n := Toric.toric_n rows cols in let S0 := Code.stabs (Toric.toric_code rows cols) in let R := ToricRankAll.toric_reduced_stabs rows cols in let x1 := ToricAll.x1op rows cols in let x2 := ToricAll.x2op rows cols in let z1 := ToricAll.z1op rows cols in let z2 := ToricAll.z2op rows cols in independent (n + n) R /\ incl R S0 /\ (forall g : bsf, In g S0 -> in_spanP (n + n) R g) /\ (forall (K : cring) (d : dist K) (f : bsf) (L : list bsf), length f = (n + n)%nat -> NoDup L -> (forall e : bsf, In e L <-> length e = (n + n)%nat /\ (forall g : bsf, In g S0 -> bsp e g = bsp f g)) -> sum_list K (map (prob K d n) L) = sum_list K (map (fun t : bsf => coset_prob K d n R (cand2 (n + n) x1 x2 z1 z2 f (nth 0 t false) (nth 1 t false) (nth 2 t false) (nth 3 t false))) (allv 4))).
Proof. exact toric_sixteen_prob. Qed.
Theorem c10_rottoric_sixteen_cosets : forall rows cols : Z, 2 <= rows -> rows mod 2 = 0 -> 2 <= cols -> cols mod 2 = 0 -> let n := RotToric.rt_n rows cols in let S := Code.stabs (RotToric.rottoric_code rows cols) in let x1 := RotToricValidAll.rt_x1 rows cols in let x2 := RotToricValidAll.rt_x2 rows cols in let z1 := RotToricValidAll.rt_z1 rows cols in let z2 := RotToricValidAll.rt_z2 rows cols in forall f : bsf, length f = (n + n)%nat -> (forall (a1 a2 b1 b2 : bool) (g : bsf), In g S -> bsp (cand2 (n + n) x1 x2 z1 z2 f a1 a2 b1 b2) g = bsp f g) /\ (forall a1 a2 b1 b2 a1' a2' b1' b2' : bool, in_spanP (n + n) S (xorv (cand2 (n + n) x1 x2 z1 z2 f a1 a2 b1 b2) (cand2 (n + n) x1 x2 z1 z2 f a1' a2' b1' b2')) -> a1 = a1' /\ a2 = a2' /\ b1 = b1' /\ b2 = b2') /\ (forall e : bsf, length e = (n + n)%nat -> (forall g : bsf, In g S -> bsp e g = bsp f g) -> (exists a1 a2 b1 b2 : bool, in_spanP (n + n) S (xorv e (cand2 (n + n) x1 x2 z1 z2 f a1 a2 b1 b2)) /\ (forall a1' a2' b1' b2' : bool, in_spanP (n + n) S (xorv e (cand2 (n + n) x1 x2 z1 z2 f a1' a2' b1' b2')) -> a1' = a1 /\ a2' = a2 /\ b1' = b1 /\ b2' = b2)) /\ (forall a1 a2 b1 b2 : bool, in_spanP (n + n) S (xorv e (cand2 (n + n) x1 x2 z1 z2 f a1 a2 b1 b2)) <-> a1 = xorb (bsp z1 e) (bsp z1 f) /\ a2 = xorb (bsp z2 e) (bsp z2 f) /\ b1 = xorb (bsp x1 e) (bsp x1 f) /\ b2 = xorb (bsp x2 e) (bsp x2 f))).
Proof. exact rottoric_sixteen_cosets. Qed.
Theorem c10_rottoric_sixteen_prob : forall rows cols : Z, 2 <= rows -> rows mod 2 = 0 -> 2 <= cols -> cols mod 2 = 0 -> let n := RotToric.rt_n rows cols in let S0 := Code.stabs (RotToric.rottoric_code rows cols) in let R := RotToricRankAll.rottoric_reduced_stabs rows cols in let x1 := RotToricValidAll.rt_x1 rows cols in let x2 := RotToricValidAll.rt_x2 rows cols in let z1 := RotToricValidAll.rt_z1 rows cols in let z2 := RotToricValidAll.rt_z2 rows cols in independent (n + n) R /\ incl R S0 /\ (forall g : bsf, In g S0 -> in_spanP (n + n) R g) /\ (forall (K : cring) (d : dist K) (f : bsf) (L : list bsf), length f = (n + n)%nat -> NoDup L -> (forall e : bsf, In e L <-> length e = (n + n)%nat /\ (forall g : bsf, In g S0 -> bsp e g = bsp f g)) -> sum_list K (map (prob K d n) L) = sum_list K (map (fun t : bsf => coset_prob K d n R (cand2 (n + n) x1 x2 z1 z2 f (nth 0 t false) (nth 1 t false) (nth 2 t false) (nth 3 t false))) (allv 4))).
Proof. exact rottoric_sixteen_prob. Qed.
Print Assumptions c10_planar_four_cosets.
Print Assumptions c10_planar_four_cosets_c10.
Print Assumptions c10_planar_four_cosets_prob.
Print Assumptions c10_planar_normalizer_coset.
Print Assumptions c10_rotplanar_four_cosets.
Print Assumptions c10_rotplanar_four_cosets_c10.
Print Assumptions c10_rotplanar_four_cosets_prob.
Print Assumptions c10_toric_sixteen_cosets.
Print Assumptions c10_toric_sixteen_prob.
Print Assumptions c10_rottoric_sixteen_cosets.
Print Assumptions c10_rottoric_sixteen_prob.

(* ---- re-exported by tools/reexport.py: statements copied from `Check`, closed by `exact` ---- *)
From QV Require Import Tensor.PlanarNetZ.
Theorem c10_planar_sitesZ_shape : forall (a : distZ) (rows cols : Z) (f : bsf), length (planar_sitesZ a rows cols f) = tn_rows rows /\ Forall (fun row : list sitedata => length row = tn_cols cols) (planar_sitesZ a rows cols f).
Proof. exact planar_sitesZ_shape. Qed.
Theorem c10_planar_sitesZ_nth : forall (a : distZ) (rows cols : Z) (f : bsf) (r c : nat), (r < tn_rows rows)%nat -> (c < tn_cols cols)%nat -> nth c (nth r (planar_sitesZ a rows cols f) []) None = site_data (Some (node Zring a (tn_rows rows) (tn_cols cols) (fxb rows cols f) (fzb rows cols f) r c)).
Proof. exact planar_sitesZ_nth. Qed.
Theorem c10_planar_numbersZ : forall (a : distZ) (rows cols : Z) (f : bsf), 2 <= rows -> 2 <= cols -> length f = (Planar.planar_n rows cols + Planar.planar_n rows cols)%nat -> planar_valueZ a rows cols f = planar_cosetZ a rows cols f /\ planar_sweepZ a rows cols f None = Some (planar_cosetZ a rows cols f) /\ planar_sweepZ a rows cols f (Some 1) = Some (planar_cosetZ a rows cols f) /\ planar_sweepZ a rows cols f (Some (-1)) = Some (planar_cosetZ a rows cols f) /\ planar_tsweepZ a rows cols f = Some (planar_cosetZ a rows cols f) /\ (forall c : nat, (0 < c < tn_cols cols)%nat -> planar_splitZ a rows cols f (Z.of_nat c) = Some (planar_cosetZ a rows cols f)) /\ (forall r : nat, (0 < r < tn_rows rows)%nat -> planar_tsplitZ a rows cols f (Z.of_nat r) = Some (planar_cosetZ a rows cols f)).
Proof. exact planar_numbersZ. Qed.
Print Assumptions c10_planar_sitesZ_shape.
Print Assumptions c10_planar_sitesZ_nth.
Print Assumptions c10_planar_numbersZ.

(* ---- re-exported by tools/reexport.py: statements copied from `Check`, closed by `exact` ---- *)
From QV Require Import Tensor.NormalizerCounting.
Theorem c10_normalizer_counting_all : normalizer_counting_statement.
Proof. exact normalizer_counting_all. Qed.
Theorem c10_four_cosets_all : four_cosets_statement.
Proof. exact four_cosets_all. Qed.
Theorem c10_centralizer_all : forall (n : nat) (gens : list bsf) (lx lz : bsf), rowlen (n + n) (lx :: lz :: gens) -> independent (n + n) gens -> S (length gens) = n -> (forall g h : bsf, In g gens -> In h gens -> bsp g h = false) -> (forall g : bsf, In g gens -> bsp lx g = false /\ bsp lz g = false) -> bsp lx lz = true -> forall t : bsf, length t = (n + n)%nat -> (forall g : bsf, In g gens -> bsp t g = false) -> bsp t lx = false -> bsp t lz = false -> in_spanP (n + n) gens t.
Proof. exact centralizer_all. Qed.
Theorem c10_bsp_nondegenerate : forall t : bsf, Nat.even (length t) = true -> t <> zeros (length t) -> exists w : bsf, length w = length t /\ bsp w t = true.
Proof. exact bsp_nondegenerate. Qed.
Theorem c10_syndrome_onto : forall N : nat, Nat.even N = true -> forall G : list bsf, rowlen N G -> independent N G -> forall s : bsf, length s = length G -> exists u : bsf, length u = N /\ syndrome_of G u = s.
Proof. exact syndrome_onto. Qed.
Theorem c10_destabilizers_exist : forall N : nat, Nat.even N = true -> forall G : list bsf, rowlen N G -> independent N G -> exists D : list bsf, rowlen N D /\ length D = length G /\ (forall i j : nat, (i < length G)%nat -> (j < length G)%nat -> bsp (nth i D []) (nth j G []) = (i =? j)%nat).
Proof. exact destabilizers_exist. Qed.
Theorem c10_exchange_lemma : forall (N : nat) (B L : list bsf), rowlen N B -> independent N B -> (forall v : bsf, in_spanP N B v -> In v L) -> (length L <= 2 ^ length B)%nat -> forall t : bsf, In t L -> in_spanP N B t.
Proof. exact exchange_lemma. Qed.
Theorem c10_perp_span : forall N : nat, Nat.even N = true -> forall G F : list bsf, rowlen N G -> rowlen N F -> independent N G -> independent N F -> (length F + length G)%nat = N -> (forall f g : bsf, In f F -> In g G -> bsp f g = false) -> forall t : bsf, length t = N -> (forall g : bsf, In g G -> bsp t g = false) -> in_spanP N F t.
Proof. exact perp_span. Qed.
Theorem c10_kcentralizer_all : forall (n : nat) (gens lxs lzs : list bsf), kcosets_premises n gens lxs lzs -> forall t : bsf, length t = (n + n)%nat -> (forall g : bsf, In g gens -> bsp t g = false) -> (forall l : bsf, In l (lxs ++ lzs) -> bsp t l = false) -> in_spanP (n + n) gens t.
Proof. exact kcentralizer_all. Qed.
Theorem c10_knormalizer_spanned_all : forall (n : nat) (gens lxs lzs : list bsf), kcosets_premises n gens lxs lzs -> forall t : bsf, length t = (n + n)%nat -> (forall g : bsf, In g gens -> bsp t g = false) -> in_spanP (n + n) (gens ++ lxs ++ lzs) t.
Proof. exact knormalizer_spanned_all. Qed.
Theorem c10_kcosets_check_sound : forall (n : nat) (c : Code.code), kcosets_check n c = true -> kcosets_premises n (Code.stabs c) (Code.lxs c) (Code.lzs c).
Proof. exact kcosets_check_sound. Qed.
Theorem c10_four_cosets_of_check : forall (n : nat) (gens : list bsf) (lx lz : bsf), kcosets_check n {| Code.stabs := gens; Code.lxs := [lx]; Code.lzs := [lz] |} = true -> four_cosets_conclusion n gens lx lz.
Proof. exact four_cosets_of_check. Qed.
Print Assumptions c10_normalizer_counting_all.
Print Assumptions c10_four_cosets_all.
Print Assumptions c10_centralizer_all.
Print Assumptions c10_bsp_nondegenerate.
Print Assumptions c10_syndrome_onto.
Print Assumptions c10_destabilizers_exist.
Print Assumptions c10_exchange_lemma.
Print Assumptions c10_perp_span.
Print Assumptions c10_kcentralizer_all.
Print Assumptions c10_knormalizer_spanned_all.
Print Assumptions c10_kcosets_check_sound.
Print Assumptions c10_four_cosets_of_check.
