From Coq Require Import List Arith ZArith.
From QV Require Import Core.Bits Tensor.Sums Tensor.Coset.
Theorem c10_choice : forall ps, ps <> nil ->
  ml_choice ps < length ps
  /\ (forall j, j < length ps -> (nth j ps 0 <= nth (ml_choice ps) ps 0)%Z)
  /\ (forall j, j < ml_choice ps -> (nth j ps 0 < nth (ml_choice ps) ps 0)%Z).
Proof. exact ml_choice_spec. Qed.
Print Assumptions c10_choice.
