(* Props/C10.v — untruncated tensor-network decoders are maximum-likelihood decoders.
   What is proved here is the exact oracle (Tensor/Coset.v): the enumeration of the stabilizer group
   counts every element once, the coset probability is a function of the coset, the arg-max choice
   returns the first maximal index, and the planar qubit-node value is the local factor of the sum.
   The link "column-sweep contraction = value of the network" is Props/C11.v (c11_sweep_exact, c11_split);
   that each decoder's network (create_tn) has the coset sum as its value is NOT proved in Coq: it is
   checked by harness/c10.py against the exact sums on every generated case. *)
From Coq Require Import List Arith Lia Bool ZArith.
From QV Require Import Core.Bits Core.Pauli Core.Symp Tensor.Sums Tensor.Coset.
Import ListNotations.
Local Open Scope nat_scope.

(* c10_enumeration [P-forall]: for independent generators the 2^m products are pairwise distinct, closed
   under multiplication, and contain the identity: the sum over stabilizer-bit assignments is the sum over
   the stabilizer group, no element counted twice *)
Theorem c10_enumeration : forall len gens, Forall (fun g => length g = len) gens -> indep len gens ->
  NoDup (span_list len gens) /\ length (span_list len gens) = 2 ^ length gens
  /\ In (zeros len) (span_list len gens)
  /\ (forall u v, In u (span_list len gens) -> In v (span_list len gens) -> In (xorv u v) (span_list len gens)).
Proof.
  intros len gens HF HI. split; [apply span_nodup; assumption|]. split; [apply span_count|].
  split; [apply span_zero|]. apply span_closed. exact HF.
Qed.
(* the coset probability depends only on the coset f.G, not on the representative [P-forall, any ring] *)
Theorem c10_coset_well_defined : forall (K : cring) (d : dist K) n gens f g,
  Forall (fun g => length g = n + n) gens -> indep (n + n) gens -> In g (span_list (n + n) gens) ->
  coset_prob K d n gens (xorv f g) = coset_prob K d n gens f.
Proof. exact coset_prob_well_defined. Qed.
(* c10_choice [P-forall]: Python's max over zip returns the first index of the maximum *)
Theorem c10_choice : forall ps, ps <> [] ->
  ml_choice ps < length ps
  /\ (forall j, j < length ps -> (nth j ps 0 <= nth (ml_choice ps) ps 0)%Z)
  /\ (forall j, j < ml_choice ps -> (nth j ps 0 < nth (ml_choice ps) ps 0)%Z).
Proof. exact ml_choice_spec. Qed.
(* c10_node_value [P-forall]: the horizontal-edge node value is the probability of f.Z^n.X^e.Z^s.X^w; the
   vertical-edge value is the same with the index order rotated *)
Theorem c10_node_value : forall (K : cring) (d : dist K) fx fz n e s w,
  prob K d 1 (xorv [fx; fz] (xorv [false; n] (xorv [e; false] (xorv [false; s] [w; false]))))
  = rmul K (h_node K d fx fz n e s w) (r1 K)
  /\ v_node K d fx fz n e s w = h_node K d fx fz e s w n.
Proof. intros. split; [apply h_node_is_prob|reflexivity]. Qed.

(* c10_delta_sem [P-forall]: stabilizer tensors (tsr.delta) take the values 0/1 and equal 1 whenever all
   non-dummy legs carry the same index *)
Theorem c10_delta_sem : forall (K : cring) dims idx,
  (delta_val K dims idx = r1 K \/ delta_val K dims idx = r0 K)
  /\ (length dims = length idx ->
      (forall j k, j < length dims -> k < length dims -> nth j dims 1 <> 1 -> nth k dims 1 <> 1 -> nth j idx 0 = nth k idx 0) ->
      delta_val K dims idx = r1 K).
Proof. intros K dims idx. split; [apply delta_val_spec|apply delta_val_one]. Qed.

(* ---- NOT proved: kept visible ---------------------------------------------------------------- *)
(* the network of a decoder contracts to the coset probability: [network] stands for the decoder's
   create_tn followed by the exact contraction value of Tensor/Net.v *)
Definition c10_network_statement (K : cring) (network_value : dist K -> nat -> list bsf -> bsf -> K) : Prop :=
  forall d n gens f, Forall (fun g => length g = n + n) gens -> indep (n + n) gens ->
    network_value d n gens f = coset_prob K d n gens f.
(* the four candidates f, f.X, f.X.Z, f.Z exhaust the errors with the syndrome of f: for a stabilizer code
   with one logical qubit (n - 1 independent commuting generators, logicals lx, lz commuting with them and
   anticommuting with each other), every e with the syndrome of f lies in exactly one of the four cosets *)
Definition c10_four_cosets_statement : Prop :=
  forall n (gens : list bsf) (lx lz f e : bsf),
    Forall (fun g => length g = n + n) (lx :: lz :: f :: e :: gens) -> indep (n + n) gens -> S (length gens) = n ->
    (forall g h, In g gens -> In h gens -> bsp g h = false) ->
    (forall g, In g gens -> bsp lx g = false /\ bsp lz g = false) -> bsp lx lz = true ->
    (forall g, In g gens -> bsp e g = bsp f g) ->
    exists! c, In c [f; xorv f lx; xorv (xorv f lx) lz; xorv f lz] /\ In (xorv e c) (span_list (n + n) gens).

(* non-vacuity: the four-qubit [[4,2,2]]-style pair XXXX, ZZZZ on 4 qubits, depolarizing numerators 7,1,1,1 *)
Example c10_example :
  let gens := [[true;true;true;true;false;false;false;false]; [false;false;false;false;true;true;true;true]] in
  indep 8 gens /\ coset_prob Zring (7, 1, 1, 1)%Z 4 gens (zeros 8) = (7*7*7*7 + 1 + 1 + 1)%Z
  /\ ml_choice [3; 9; 9; 2]%Z = 1.
Proof. cbn. repeat split; try reflexivity; intuition discriminate. Qed.

Print Assumptions c10_enumeration. Print Assumptions c10_coset_well_defined. Print Assumptions c10_choice.
Print Assumptions c10_node_value. Print Assumptions c10_delta_sem.

(* ---- added: the four candidate cosets (Tensor/FourCosets.v): same syndrome, pairwise inequivalent, exactly one contains
   a given error relative to `normalizer_spanned` (itself proved from a destabilizer-basis certificate); the rank-nullity
   counting step stays visible as normalizer_counting_statement ---- *)
From QV Require Import Core.Span Core.Rank Tensor.FourCosets.
Theorem c10_four_cosets_syndrome : forall N : nat, Nat.even N = true -> forall (gens : list bsf) (lx lz : bsf), rowlen N gens -> length lx = N -> length lz = N -> (forall g : bsf, In g gens -> bsp lx g = false) -> (forall g : bsf, In g gens -> bsp lz g = false) -> forall (f : bsf) (a b : bool) (g : bsf), length f = N -> In g gens -> bsp (cand N lx lz f a b) g = bsp f g.
Proof. exact four_cosets_syndrome. Qed.
Theorem c10_four_cosets_at_most_one : forall N : nat, Nat.even N = true -> forall (gens : list bsf) (lx lz : bsf), rowlen N gens -> length lx = N -> length lz = N -> (forall g : bsf, In g gens -> bsp lx g = false) -> (forall g : bsf, In g gens -> bsp lz g = false) -> bsp lx lz = true -> forall (e f : bsf) (a b : bool), length e = N -> length f = N -> in_spanP N gens (xorv e (cand N lx lz f a b)) -> a = xorb (bsp lz e) (bsp lz f) /\ b = xorb (bsp lx e) (bsp lx f).
Proof. exact four_cosets_at_most_one. Qed.
Theorem c10_four_cosets_inequivalent : forall N : nat, Nat.even N = true -> forall (gens : list bsf) (lx lz : bsf), rowlen N gens -> length lx = N -> length lz = N -> (forall g : bsf, In g gens -> bsp lx g = false) -> (forall g : bsf, In g gens -> bsp lz g = false) -> bsp lx lz = true -> forall (f : bsf) (a b a' b' : bool), length f = N -> in_spanP N gens (xorv (cand N lx lz f a b) (cand N lx lz f a' b')) -> a = a' /\ b = b'.
Proof. exact four_cosets_inequivalent. Qed.
Theorem c10_four_cosets_exactly_one : forall N : nat, Nat.even N = true -> forall (gens : list bsf) (lx lz : bsf), rowlen N gens -> length lx = N -> length lz = N -> (forall g : bsf, In g gens -> bsp lx g = false) -> (forall g : bsf, In g gens -> bsp lz g = false) -> bsp lx lz = true -> forall e f : bsf, normalizer_spanned N gens lx lz -> length e = N -> length f = N -> (forall g : bsf, In g gens -> bsp e g = bsp f g) -> exists a b : bool, in_spanP N gens (xorv e (cand N lx lz f a b)) /\ (forall a' b' : bool, in_spanP N gens (xorv e (cand N lx lz f a' b')) -> a' = a /\ b' = b).
Proof. exact four_cosets_exactly_one. Qed.
Theorem c10_normalizer_spanned_of_basis : forall N : nat, Nat.even N = true -> forall (gens dests : list bsf) (lx lz : bsf), rowlen N gens -> rowlen N dests -> length dests = length gens -> length lx = N -> length lz = N -> (forall g h : bsf, In g gens -> In h gens -> bsp g h = false) -> (forall g : bsf, In g gens -> bsp lx g = false) -> (forall g : bsf, In g gens -> bsp lz g = false) -> (forall i j : nat, i < length gens -> j < length gens -> bsp (nth i dests []) (nth j gens []) = (i =? j)) -> (forall t : bsf, length t = N -> in_spanP N (gens ++ dests ++ [lx; lz]) t) -> normalizer_spanned N gens lx lz.
Proof. exact normalizer_spanned_of_basis. Qed.
Theorem c10_four_cosets_of_counting : normalizer_counting_statement -> four_cosets_statement.
Proof. exact four_cosets_of_counting. Qed.
Theorem c10_candidates : forall (N : nat) (lx lz : bsf), length lx = N -> length lz = N -> forall f : bsf, length f = N -> [cand N lx lz f false false; cand N lx lz f true false; cand N lx lz f true true; cand N lx lz f false true] = [f; xorv f lx; xorv (xorv f lx) lz; xorv f lz].
Proof. exact cand_list. Qed.
Print Assumptions c10_four_cosets_syndrome.
Print Assumptions c10_four_cosets_at_most_one.
Print Assumptions c10_four_cosets_inequivalent.
Print Assumptions c10_four_cosets_exactly_one.
Print Assumptions c10_normalizer_spanned_of_basis.
Print Assumptions c10_four_cosets_of_counting.
Print Assumptions c10_candidates.
