(* Props/C19.v — the discrete decisions of the command line: specification grammar, what is evaluated,
   the output state machine and the validators.  (Partial: click, the process and the file system are
   tied by differential runs of the real CLI, see harness/c19.py.) *)
From Coq Require Import Arith List Bool Lia ZArith QArith.
From QV Require Import Cli.Ctor Cli.WriteData App.Merge Cli.MergeCmd.
Import ListNotations.
Open Scope nat_scope.

(* accepted specification strings are exactly name / name( ws args [,] ws ) *)
Theorem c19_ctor_grammar : forall s name a, parse_spec s = Some (name, a) ->
  name <> [] /\ forallb is_namech name = true /\
  match a with
  | None => s = name
  | Some args => exists ws1 tail, s = name ++ [LP] ++ ws1 ++ args ++ tail /\ forallb is_space ws1 = true /\
                                  tail_ok tail /\ existsb (fun x => x =? NL) args = false
  end.
Proof. exact parse_spec_shape. Qed.
Theorem c19_plain_name : forall s, s <> [] -> forallb is_namech s = true -> parse_spec s = Some (s, None).
Proof. exact parse_spec_name. Qed.

(* literal-only: an instance is only ever built by a registered constructor applied to the *literal value*
   of the argument text (plus a comma); there is no other evaluation path *)
Theorem c19_literal_only : forall (value instance : Type) literal_eval registry s i,
  convert value instance literal_eval registry s = Built instance i ->
  exists name a ctor vs, parse_spec s = Some (name, a) /\ registry name = Some ctor /\ ctor vs = Some i /\
    match a with
    | None | Some [] => vs = []
    | Some args => literal_eval (args ++ [COMMA]) = Some vs
    end.
Proof. exact convert_built. Qed.
Theorem c19_usage_errors : forall (value instance : Type) literal_eval registry s,
  (convert value instance literal_eval registry s = BadFormat instance <-> parse_spec s = None) /\
  (convert value instance literal_eval registry s = BadName instance <->
     exists name a, parse_spec s = Some (name, a) /\ registry name = None).
Proof. exact convert_errors. Qed.

(* existing output file: untouched, data on the error log, non-zero exit *)
Theorem c19_write_existing : forall path path_eqb content dir_exists (f : fs path content) p old data,
  f p = Some old ->
  let o := write_data path path_eqb content dir_exists f (Some p) data in
  (forall q, o_fs _ _ o q = f q) /\ o_errlog _ _ o = [data] /\ o_exit _ _ o <> 0 /\ o_stdout _ _ o = [].
Proof. exact write_existing. Qed.
Theorem c19_missing_dir : forall path path_eqb content dir_exists (f : fs path content) p data,
  f p = None -> dir_exists p = false ->
  let o := write_data path path_eqb content dir_exists f (Some p) data in
  (forall q, o_fs _ _ o q = f q) /\ o_errlog _ _ o = [data] /\ o_exit _ _ o <> 0.
Proof. exact write_missing_dir. Qed.
Theorem c19_write_new : forall path path_eqb (Hspec : forall a b, path_eqb a b = true <-> a = b) content dir_exists
  (f : fs path content) p data, f p = None -> dir_exists p = true ->
  let o := write_data path path_eqb content dir_exists f (Some p) data in
  o_fs _ _ o p = Some data /\ (forall q, q <> p -> o_fs _ _ o q = f q) /\ o_exit _ _ o = 0 /\ o_errlog _ _ o = [].
Proof. exact write_new. Qed.
Theorem c19_never_drops : forall path path_eqb (Hspec : forall a b, path_eqb a b = true <-> a = b) content dir_exists
  (f : fs path content) output data,
  let o := write_data path path_eqb content dir_exists f output data in
  o_stdout _ _ o = [data] \/ o_errlog _ _ o = [data] \/ (exists p, output = Some p /\ o_fs _ _ o p = Some data).
Proof. exact write_never_drops. Qed.

(* the merge command: it emits exactly what app.merge returns for the parsed DATA_FILEs, and has no acceptance
   condition of its own (exit 0 iff the files exist and parse, app.merge accepts, and the output can be created) *)
Theorem c19_merge_cmd_accepts : forall path path_eqb content input parse api_merge dir_exists
  (f : fs path content) ps output ins d, ps <> [] ->
  parse_all path content input parse f ps = Some ins -> api_merge ins = Some d ->
  merge_cmd path path_eqb content input parse api_merge dir_exists f ps output
  = write_data path path_eqb content dir_exists f output d.
Proof. exact merge_cmd_accepts. Qed.
Theorem c19_merge_cmd_exit0_iff : forall path path_eqb content input parse api_merge dir_exists
  (f : fs path content) ps output,
  o_exit _ _ (merge_cmd path path_eqb content input parse api_merge dir_exists f ps output) = 0 <->
  ps <> [] /\ exists ins d, parse_all path content input parse f ps = Some ins /\ api_merge ins = Some d /\
    match output with None => True | Some p => f p = None /\ dir_exists p = true end.
Proof. exact merge_cmd_exit0_iff. Qed.
Theorem c19_merge_cmd_failure_untouched : forall path path_eqb content input parse api_merge dir_exists
  (f : fs path content) ps output,
  o_exit _ _ (merge_cmd path path_eqb content input parse api_merge dir_exists f ps output) <> 0 ->
  forall q, o_fs _ _ (merge_cmd path path_eqb content input parse api_merge dir_exists f ps output) q = f q.
Proof. exact merge_cmd_failure_untouched. Qed.
(* histories: `merge -o p ps1` followed by `merge p ps2`: the second step reads back the first result and is
   decided by app.merge alone *)
Theorem c19_merge_cmd_chain : forall path path_eqb (Hspec : forall a b, path_eqb a b = true <-> a = b)
  content input parse api_merge dir_exists (f : fs path content) ps1 p ps2 output i1 d1 j1 i2,
  ps1 <> [] -> f p = None -> dir_exists p = true ->
  parse_all path content input parse f ps1 = Some i1 -> api_merge i1 = Some d1 -> parse d1 = Some j1 ->
  ~ In p ps2 -> parse_all path content input parse f ps2 = Some i2 ->
  let f1 := o_fs _ _ (merge_cmd path path_eqb content input parse api_merge dir_exists f ps1 (Some p)) in
  o_exit _ _ (merge_cmd path path_eqb content input parse api_merge dir_exists f ps1 (Some p)) = 0 /\
  merge_cmd path path_eqb content input parse api_merge dir_exists f1 (p :: ps2) output =
    match api_merge (j1 :: i2) with
    | Some d => write_data path path_eqb content dir_exists f1 output d
    | None => mkOut _ _ f1 [] [] 1
    end.
Proof. exact merge_cmd_chain. Qed.
(* CLI outputs merge back losslessly: a merge output is accepted again and unchanged; a merge of merge outputs
   equals the merge of all the records - per key, in the same row order, and equally erroring *)
Theorem c19_merge_output_reaccepted : forall l t, M_mergel [] l = Some t -> M_mergel [] t = Some t.
Proof. exact merge_output_reaccepted. Qed.
Theorem c19_merge_history : forall l1 l2 t1 t2, M_mergel [] l1 = Some t1 -> M_mergel [] l2 = Some t2 ->
  match M_mergel [] (t1 ++ t2), M_mergel [] (l1 ++ l2) with
  | Some a, Some b => (forall k, M_lookup k a = M_lookup k b) /\ map fst a = map fst b
  | None, None => True
  | _, _ => False
  end.
Proof. exact merge_history. Qed.

(* examples: code-like argument text is only ever handed to the literal evaluator *)
Example c19_ex_parse :
  parse_spec [116;111;114;105;99;40;51;44;32;51;41] (* toric(3, 3) *) = Some ([116;111;114;105;99], Some [51;44;32;51]) /\
  parse_spec [116;111;114;105;99;40;32;41] (* toric( ) *) = Some ([116;111;114;105;99], Some []) /\
  parse_spec [116;111;114;105;99;40;51;44;41] (* toric(3,) *) = Some ([116;111;114;105;99], Some [51]) /\
  parse_spec [116;111;114;105;99;32;51] (* toric 3 *) = None /\
  parse_spec [40;51;41] (* (3) *) = None.
Proof. vm_compute. repeat split. Qed.

Print Assumptions c19_ctor_grammar. Print Assumptions c19_plain_name. Print Assumptions c19_literal_only.
Print Assumptions c19_usage_errors. Print Assumptions c19_write_existing. Print Assumptions c19_missing_dir.
Print Assumptions c19_write_new. Print Assumptions c19_never_drops.
Print Assumptions c19_merge_cmd_accepts. Print Assumptions c19_merge_cmd_exit0_iff.
Print Assumptions c19_merge_cmd_failure_untouched. Print Assumptions c19_merge_cmd_chain.
Print Assumptions c19_merge_output_reaccepted. Print Assumptions c19_merge_history.
