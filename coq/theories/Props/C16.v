(* Props/C16.v — error-model distributions are valid and as documented.
   Only statements closed by `exact`; the lemmas live in ErrorModels/DistQ.v (exact rationals, setoid
   equality ==) and ErrorModels/DistR.v (biased-Y-X with sqrt over Coq's real numbers).
   All theorems quantify over every p in [0,1] and every admissible parameter value. *)
From Coq Require Import QArith Qabs List Bool Reals Floats.
From QV Require Import ErrorModels.DistQ ErrorModels.DistR ErrorModels.DistFloat ErrorModels.DistEnds.
Import ListNotations.
Open Scope Q_scope.

(* --- simplex: entries >= 0 and sum = 1; Pr(I) = 1 - p ------------------------------------ *)
Theorem c16_simplex_depolarizing : forall p : Q, (0 <= p <= 1)%Q -> simplex (depolarizing p).
Proof. exact depolarizing_simplex. Qed.
Theorem c16_pi_depolarizing : forall p : Q, (dI (depolarizing p) == 1 - p)%Q.
Proof. exact depolarizing_pI. Qed.
Theorem c16_depolarizing_thirds : forall p : Q,
  (dX (depolarizing p) == p / 3 /\ dY (depolarizing p) == p / 3 /\ dZ (depolarizing p) == p / 3
   /\ 3 * dX (depolarizing p) == p)%Q.
Proof. exact depolarizing_thirds. Qed.
Theorem c16_bit_flip : forall p : Q, (0 <= p <= 1)%Q ->
  simplex (bit_flip p) /\ deq (bit_flip p) (mkD (1 - p) p 0 0).
Proof. exact bit_flip_spec. Qed.
Theorem c16_phase_flip : forall p : Q, (0 <= p <= 1)%Q ->
  simplex (phase_flip p) /\ deq (phase_flip p) (mkD (1 - p) 0 0 p).
Proof. exact phase_flip_spec. Qed.
Theorem c16_bit_phase_flip : forall p : Q, (0 <= p <= 1)%Q ->
  simplex (bit_phase_flip p) /\ deq (bit_phase_flip p) (mkD (1 - p) 0 p 0).
Proof. exact bit_phase_flip_spec. Qed.

(* --- biased depolarizing, every bias > 0 and every axis ---------------------------------- *)
Theorem c16_simplex_biased : forall (b : Q) (a : axis) (p : Q), (0 < b)%Q -> (0 <= p <= 1)%Q -> simplex (biased b a p).
Proof. exact biased_simplex. Qed.
Theorem c16_pi_biased : forall (b : Q) (a : axis) (p : Q), (0 < b)%Q -> (dI (biased b a p) == 1 - p)%Q.
Proof. exact biased_pI. Qed.
Theorem c16_biased_ratio : forall (b : Q) (a : axis) (p : Q), (0 < b)%Q ->
  let d := biased b a p in
  (fst (off_axis a d) == snd (off_axis a d) /\ on_axis a d == b * (fst (off_axis a d) + snd (off_axis a d)))%Q.
Proof. exact biased_ratio. Qed.
Theorem c16_biased_ratio_div : forall (b : Q) (a : axis) (p : Q), (0 < b)%Q -> (0 < p)%Q ->
  let d := biased b a p in (on_axis a d / (fst (off_axis a d) + snd (off_axis a d)) == b)%Q.
Proof. exact biased_ratio_div. Qed.
Theorem c16_bias_half_is_depolarizing : forall (a : axis) (p : Q), deq (biased (1 # 2) a p) (depolarizing p).
Proof. exact biased_half_is_depolarizing. Qed.

(* --- biased Y-X ------------------------------------------------------------------------------
   over R with sqrt: every bias >= 0, every p in [0,1] *)
Theorem c16_yx_disc_nonneg : forall h p : R, (0 <= h)%R -> (0 <= p <= 1)%R -> (0 <= yxR_disc h p)%R.
Proof. exact yxR_disc_nonneg. Qed.
Theorem c16_yx_ratio : forall h p : R, (0 <= h)%R -> (0 <= p <= 1)%R ->
  let rx := yxR_rate_x h p in let ry := yxR_rate_y h p in
  (0 <= rx <= 1 /\ 0 <= ry <= 1 /\
   yxR_pX h p = rx * (1 - ry) /\ yxR_pY h p = ry * (1 - rx) /\ yxR_pZ h p = rx * ry /\
   yxR_pY h p = h * yxR_pX h p /\
   (0 < yxR_pX h p -> yxR_pY h p / yxR_pX h p = h) /\
   yxR_pX h p + yxR_pY h p + yxR_pZ h p = p /\ yxR_pI h p = 1 - p /\
   0 <= yxR_pI h p /\ 0 <= yxR_pX h p /\ 0 <= yxR_pY h p /\ 0 <= yxR_pZ h p /\
   yxR_pI h p + yxR_pX h p + yxR_pY h p + yxR_pZ h p = 1)%R.
Proof. exact yxR_system. Qed.
Theorem c16_yx_unique : forall h p rx ry : R, (0 <= h)%R -> (0 <= p <= 1)%R -> (0 < h \/ p < 1)%R ->
  (0 <= rx <= 1)%R -> (0 <= ry <= 1)%R ->
  (rx * (1 - ry) + ry * (1 - rx) + rx * ry = p)%R -> (ry * (1 - rx) = h * (rx * (1 - ry)))%R ->
  (rx * (1 - ry) = yxR_pX h p /\ ry * (1 - rx) = yxR_pY h p /\ rx * ry = yxR_pZ h p)%R.
Proof. exact yxR_unique. Qed.
Theorem c16_zero_bias_pure_x : forall p : R,
  (yxR_pX 0 p = p /\ yxR_pY 0 p = 0 /\ yxR_pZ 0 p = 0 /\ yxR_pI 0 p = 1 - p)%R.
Proof. exact yxR_zero_bias. Qed.
(* over Q, relative to a root s of the discriminant (this is the function the extracted engine evaluates) *)
Theorem c16_yx_ratio_Q : forall h p s : Q, (0 < h)%Q -> (0 <= p <= 1)%Q -> (0 <= s)%Q -> (s * s == yx_disc h p)%Q ->
  let rx := yx_rate_x h p s in let ry := yx_rate_y h p s in let d := biased_yx h p s in
  (0 <= rx <= 1 /\ 0 <= ry <= 1 /\
   dX d == rx * (1 - ry) /\ dY d == ry * (1 - rx) /\ dZ d == rx * ry /\
   dY d == h * dX d /\ dX d + dY d + dZ d == p /\ dI d == 1 - p /\ simplex d)%Q.
Proof. exact yx_system. Qed.
Theorem c16_zero_bias_pure_x_Q : forall p s : Q, deq (biased_yx 0 p s) (bit_flip p).
Proof. exact yx_zero_bias_pure_x. Qed.

(* --- centre-slice: every limit with non-negative entries, one or two of them zero; pos in [-1,1] --- *)
Theorem c16_simplex_slice : forall (lim : Q * Q * Q) (pos p : Q),
  adm_lim lim -> (-(1) <= pos <= 1)%Q -> (0 <= p <= 1)%Q ->
  exists d r, slice lim pos p = Some d /\ ratio (normalize lim) pos = Some r /\ on_simplex r /\
    simplex d /\ (dI d == 1 - p)%Q /\
    (let '(rx, ry, rz) := r in dX d == rx * p /\ dY d == ry * p /\ dZ d == rz * p)%Q.
Proof. exact slice_spec. Qed.
Theorem c16_slice_line : forall (L : Q * Q * Q) (pos : Q), on_boundary L -> (-(1) <= pos <= 1)%Q ->
  exists r, ratio L pos = Some r /\ on_simplex r /\
    ((0 <= pos)%Q -> veq r (vadd centre (vscale pos (vsub L centre)))) /\
    ((pos < 0)%Q -> exists N, neg_lim L = Some N /\ on_boundary N /\ beyond_centre L N /\
                           veq r (vadd centre (vscale (- pos) (vsub N centre)))).
Proof. exact ratio_spec. Qed.
Theorem c16_slice_normalized_lim : forall x y z : Q, adm_lim (x, y, z) ->
  on_boundary (normalize (x, y, z)) /\ veq (vscale (x + y + z) (normalize (x, y, z))) (x, y, z).
Proof. exact normalize_adm. Qed.
Theorem c16_neg_lim : forall a b c : Q, on_boundary (a, b, c) ->
  exists N, neg_lim (a, b, c) = Some N /\ on_boundary N /\ beyond_centre (a, b, c) N.
Proof. exact neg_lim_spec. Qed.
Theorem c16_pos0_is_depolarizing : forall (lim : Q * Q * Q) (p : Q),
  exists d, slice lim 0 p = Some d /\ deq d (depolarizing p).
Proof. exact slice_pos0_is_depolarizing. Qed.
Theorem c16_unit_lim_pure_x : forall c p : Q, (0 < c)%Q -> exists d, slice (c, 0, 0) 1 p = Some d /\ deq d (bit_flip p).
Proof. exact slice_unit_lim_x. Qed.
Theorem c16_unit_lim_pure_y : forall c p : Q, (0 < c)%Q -> exists d, slice (0, c, 0) 1 p = Some d /\ deq d (bit_phase_flip p).
Proof. exact slice_unit_lim_y. Qed.
Theorem c16_unit_lim_pure_z : forall c p : Q, (0 < c)%Q -> exists d, slice (0, 0, c) 1 p = Some d /\ deq d (phase_flip p).
Proof. exact slice_unit_lim_z. Qed.

(* --- constructor domains: accepted exactly on the documented domain ---------------------- *)
Theorem c16_ctor_domain_biased : forall (b : pynum) (a : axis_arg),
  biased_ctor b a = Accept <-> exists q ax, b = PQ q /\ (0 < q)%Q /\ axis_of_arg a = Some ax.
Proof. exact biased_ctor_accept. Qed.
Theorem c16_ctor_domain_axis : forall (a : axis_arg) (ax : axis), axis_of_arg a = Some ax <->
  exists c, a = AxStr [c] /\ match ax with AX => c = 88 \/ c = 120 | AY => c = 89 \/ c = 121 | AZ => c = 90 \/ c = 122 end%nat.
Proof. exact axis_of_arg_spec. Qed.
Theorem c16_ctor_domain_yx : forall b : pynum, yx_ctor b = Accept <-> exists q, b = PQ q /\ (0 <= q)%Q.
Proof. exact yx_ctor_accept. Qed.
Theorem c16_ctor_domain_slice : forall (lim : lim_arg) (pos : pynum),
  slice_ctor lim pos = Accept <->
  exists x y z q, lim = LimSeq [PQ x; PQ y; PQ z] /\ adm_lim (x, y, z) /\ pos = PQ q /\ (-(1) <= q <= 1)%Q.
Proof. exact slice_ctor_accept. Qed.
Theorem c16_ctor_domain_slice_unsigned : forall (lim : lim_arg) (pos : pynum),
  slice_ctor lim pos = Accept <->
  slice_ctor_unsigned lim pos = Accept /\ exists l, lim = LimSeq l /\ forallb is_nonneg_num l = true.
Proof. exact slice_ctor_unsigned_spec. Qed.

(* --- the end points p = 0 and p = 1 (ErrorModels/DistEnds.v) ------------------------------------
   biased-Y-X at p = 1: the discriminant is 0, both flip rates are exactly 1 and the distribution is pure Z for every
   bias > 0 -- the model is total there (nothing is divided by 1 - rate) *)
Theorem c16_yx_end_p1 : forall h : Q, (0 < h)%Q ->
  (yx_disc h 1 == 0 /\ yx_rate_x h 1 0 == 1 /\ yx_rate_y h 1 0 == 1)%Q /\ deq (biased_yx h 1 0) (mkD 0 0 0 1).
Proof. exact (fun h H => conj (conj (yx_disc_p1 h) (conj (proj1 (yx_p1 h H)) (proj1 (proj2 (yx_p1 h H)))))
                              (proj2 (proj2 (yx_p1 h H)))). Qed.
Theorem c16_yx_end_p0 : forall h : Q, (0 <= h)%Q ->
  (yx_disc h 0 == (1 + h) * (1 + h))%Q /\ deq (biased_yx h 0 (1 + h)) (mkD 1 0 0 0).
Proof. exact (fun h H => conj (yx_disc_p0 h) (yx_p0 h H)). Qed.
Theorem c16_biased_ends : forall (b : Q) (a : axis), (0 < b)%Q ->
  deq (biased b a 0) (mkD 1 0 0 0) /\ (dI (biased b a 1) == 0 /\ on_axis a (biased b a 1) == b / (b + 1))%Q.
Proof. exact (fun b a H => conj (biased_p0 b a H) (biased_p1 b a H)). Qed.
Theorem c16_slice_ends : forall (lim : Q * Q * Q) (pos : Q), adm_lim lim -> (-(1) <= pos <= 1)%Q ->
  (forall d, slice lim pos 0 = Some d -> deq d (mkD 1 0 0 0)) /\
  (exists d, slice lim pos 1 = Some d /\ simplex d /\ (dI d == 0)%Q).
Proof. exact (fun lim pos Ha Hp => conj (slice_p0 lim pos) (slice_p1 lim pos Ha Hp)). Qed.

(* --- objects: an error-model object with memo tables (lru_cache), driven by any history of "distribution at p" /
   "read attribute" operations, answers every operation with the pure function of its constructor arguments: no
   answer depends on what was asked before (the reference for the object-reuse histories of the harness) *)
Theorem c16_object_history_independent :
  forall (P K A D : Type) (keqb : K -> K -> bool), (forall a b : K, keqb a b = true <-> a = b) ->
  forall (f : P -> K -> D) (attrs : P -> A) (ps : P) (h : list (op K)),
    run P K A D keqb f attrs (mkObj P K D ps []) h = map (spec P K A D f attrs ps) h.
Proof. exact fresh_object_history. Qed.

(* --- constructor arguments owned by the caller (DistEnds.v, section World): objects built from buffers the caller
   keeps and refills (a sweep reusing one array) answer every history exactly like immutable snapshots of the converted
   argument taken at construction time; a refill changes no later answer of the objects already built; nothing but the
   caller's own writes ever changes a buffer (the reference for the caller-owned-argument histories of the harness) *)
Theorem c16_caller_argument_snapshot :
  forall (V P K A D : Type) (keqb : K -> K -> bool), (forall a b : K, keqb a b = true <-> a = b) ->
  forall (f : P -> K -> D) (attrs : P -> A) (conv : V -> option P) (h : list (wop V K)),
    wrun V P K A D keqb f attrs conv (mkW V P K D [] []) h = srun V P K A D f attrs conv (mkS V P [] []) h.
Proof. exact empty_world_snapshot. Qed.
Theorem c16_caller_refill_invisible :
  forall (V P K A D : Type) (keqb : K -> K -> bool), (forall a b : K, keqb a b = true <-> a = b) ->
  forall (f : P -> K -> D) (attrs : P -> A) (conv : V -> option P) (w : world V P K D) (b : nat) (v : V) (h : list (wop V K)),
    world_ok V P K D f w -> forallb (is_query V K) h = true ->
    wrun V P K A D keqb f attrs conv (fst (wstep V P K A D keqb f attrs conv w (WFill V K b v))) h
    = wrun V P K A D keqb f attrs conv w h.
Proof. exact refill_invisible. Qed.
Theorem c16_caller_buffers_untouched :
  forall (V P K A D : Type) (keqb : K -> K -> bool) (f : P -> K -> D) (attrs : P -> A) (conv : V -> option P)
         (h : list (wop V K)) (w : world V P K D),
    bufs V P K D (wfinal V P K A D keqb f attrs conv w h) = caller_writes V K (bufs V P K D w) h.
Proof. exact buffers_only_caller. Qed.

(* --- verified checkers applied to the implementation's floats ------------------------------ *)
Theorem c16_valid_dist_sound : forall (t p : Q) (d : dist), valid_dist_tol t p d = true ->
  nonneg d /\ (Qabs (total d - 1) <= t /\ Qabs (dI d - (1 - p)) <= t)%Q.
Proof. exact valid_dist_sound. Qed.
Theorem c16_close_dist_sound : forall (t p : Q) (impl model : dist), close_dist_tol t p impl model = true ->
  (Qabs (dI impl - dI model) <= t /\
   Qabs (dX impl - dX model) <= tol_rel * Qabs (dX model) + tol_abs * p + tol_tiny /\
   Qabs (dY impl - dY model) <= tol_rel * Qabs (dY model) + tol_abs * p + tol_tiny /\
   Qabs (dZ impl - dZ model) <= tol_rel * Qabs (dZ model) + tol_abs * p + tol_tiny)%Q.
Proof. exact close_dist_sound. Qed.

(* --- non-vacuity ------------------------------------------------------------------------------ *)
(* the docstring example: bias 10 towards Y at p = 0.4 *)
Example c16_ex_biased : dist_red (biased 10 AY (2 # 5)) = mkD (3 # 5) (1 # 55) (4 # 11) (1 # 55).
Proof. reflexivity. Qed.
(* bias 1/2, p = 5/14: the discriminant has the rational root 33/28; rates 1/4 and 1/7 *)
Example c16_ex_yx : (33 # 28) * (33 # 28) == yx_disc (1 # 2) (5 # 14) /\
  dist_red (biased_yx (1 # 2) (5 # 14) (33 # 28)) = mkD (9 # 14) (3 # 14) (3 # 28) (1 # 28).
Proof. split; reflexivity. Qed.
(* lim (2,0,0) normalises to X; the opposite limit is the midpoint of the Y-Z edge; pos = -1/2 *)
Example c16_ex_slice : option_map vec_red (neg_lim (normalize (2, 0, 0))) = Some (0, 1 # 2, 1 # 2) /\
  option_map dist_red (slice (2, 0, 0) (-(1 # 2)) (1 # 2)) = Some (mkD (1 # 2) (1 # 12) (5 # 24) (5 # 24)).
Proof. split; reflexivity. Qed.
Example c16_ex_slice2 : option_map vec_red (neg_lim (normalize (1, 3, 0))) = Some (2 # 5, 0, 3 # 5).
Proof. reflexivity. Qed.
Example c16_ex_ctor : slice_ctor (LimSeq [PQ (-(1)); PQ 0; PQ 0]) (PQ (1 # 2)) = RaiseValue /\
  slice_ctor_unsigned (LimSeq [PQ (-(1)); PQ 0; PQ 0]) (PQ (1 # 2)) = Accept /\
  slice_ctor (LimSeq [PQ 1; PQ 0; PQ 3]) (PQ (-(1))) = Accept /\ biased_ctor (PQ 0) (AxStr [89%nat]) = RaiseValue /\
  biased_ctor (PQ 3) (AxStr [122%nat]) = Accept /\ yx_ctor (PQ 0) = Accept /\ yx_ctor PNaN = RaiseValue.
Proof. repeat split; reflexivity. Qed.

(* a sweep reusing one buffer: fill 5, build object 0, refill with 7, build object 1, ask both (f = sum of snapshot and
   key, the constructor rejects 0): object 0 still answers from 5 *)
Example c16_ex_sweep :
  wrun nat nat nat nat nat Nat.eqb (fun ps k => ps + k)%nat (fun ps => ps) (fun v => match v with O => None | _ => Some v end)
       (mkW nat nat nat nat [] [])
       [WFill nat nat 0 5%nat; WNew nat nat 0; WFill nat nat 0 7%nat; WNew nat nat 0; WFill nat nat 0 0%nat; WNew nat nat 0;
        WPD nat nat 0 1%nat; WPD nat nat 1 1%nat; WAttr nat nat 0; WPD nat nat 2 1%nat]
  = [WDone nat nat; WDone nat nat; WDone nat nat; WDone nat nat; WDone nat nat; WRejected nat nat;
     WD nat nat 6%nat; WD nat nat 8%nat; WA nat nat 5%nat; WNoSuch nat nat].
Proof. reflexivity. Qed.

(* defect F2 (repaired in /repo by 570530b) reproduced bit for bit by the binary64 model of the old formula: the
   exact theorem c16_simplex_biased holds, yet the float evaluation at bias 0.001, p = 1 returned Pr(I) = -2^-52;
   the repaired formula returns 0 *)
Example c16_ex_F2_binary64 :
  feq4 (biasedF_before_fix 0x1.0624dd2f1a9fcp-10 AY 1)
       ((-0x1p-52)%float, 0x1.ff7d0f16c2e0ap-2, 0x1.05e1d27a3ee9dp-10, 0x1.ff7d0f16c2e0ap-2)%float = true
  /\ negI (biasedF_before_fix 0x1.0624dd2f1a9fcp-10 AY 1) = true
  /\ negI (biasedF 0x1.0624dd2f1a9fcp-10 AY 1) = false.
Proof. exact F2_reproduced. Qed.

Print Assumptions c16_simplex_depolarizing. Print Assumptions c16_pi_depolarizing. Print Assumptions c16_depolarizing_thirds.
Print Assumptions c16_bit_flip. Print Assumptions c16_phase_flip. Print Assumptions c16_bit_phase_flip.
Print Assumptions c16_simplex_biased. Print Assumptions c16_pi_biased. Print Assumptions c16_biased_ratio.
Print Assumptions c16_biased_ratio_div. Print Assumptions c16_bias_half_is_depolarizing.
Print Assumptions c16_yx_disc_nonneg. Print Assumptions c16_yx_ratio. Print Assumptions c16_yx_unique.
Print Assumptions c16_zero_bias_pure_x. Print Assumptions c16_yx_ratio_Q. Print Assumptions c16_zero_bias_pure_x_Q.
Print Assumptions c16_simplex_slice. Print Assumptions c16_slice_line. Print Assumptions c16_slice_normalized_lim.
Print Assumptions c16_neg_lim. Print Assumptions c16_pos0_is_depolarizing.
Print Assumptions c16_unit_lim_pure_x. Print Assumptions c16_unit_lim_pure_y. Print Assumptions c16_unit_lim_pure_z.
Print Assumptions c16_ctor_domain_biased. Print Assumptions c16_ctor_domain_axis. Print Assumptions c16_ctor_domain_yx.
Print Assumptions c16_ctor_domain_slice. Print Assumptions c16_ctor_domain_slice_unsigned.
Print Assumptions c16_valid_dist_sound. Print Assumptions c16_close_dist_sound.
Print Assumptions c16_yx_end_p1. Print Assumptions c16_yx_end_p0. Print Assumptions c16_biased_ends.
Print Assumptions c16_slice_ends. Print Assumptions c16_object_history_independent.
Print Assumptions c16_caller_argument_snapshot. Print Assumptions c16_caller_refill_invisible.
Print Assumptions c16_caller_buffers_untouched.
