(* Props/C13.v — matching is perfect and of minimum total weight. *)
From Coq Require Import Arith List Bool Lia QArith Permutation.
From QV Require Import Decoders.Matching.
Import ListNotations.
Open Scope nat_scope.

(* P-forall: the exhaustive enumerator lists only perfect matchings ... *)
Theorem c13_all_pms_sound : forall g m, In m (all_pms g) -> perfect g m.
Proof. exact all_pms_sound. Qed.
(* ... and every perfect matching, up to the order of the pairs and the orientation of each pair
   (meq), which changes neither the set of unordered pairs nor the weight *)
Theorem c13_all_pms_complete : forall g m, perfect g m -> exists m', In m' (all_pms g) /\ meq m m'.
Proof. exact all_pms_complete. Qed.
Theorem c13_meq_same_matching : forall m m', meq m m' -> same_pairs m m' /\ length m = length m'.
Proof. exact meq_same_pairs. Qed.
Theorem c13_meq_weight : forall g m m', meq m m' -> (weight g m == weight g m')%Q.
Proof. exact weight_meq. Qed.

(* P-forall: the checker applied to what graphtools.mwpm returns decides the property's right-hand side:
   covers every node exactly once, uses only edges of the graph, minimum total weight over all
   perfect matchings — integer, rational, zero, negative weights alike *)
Theorem c13_checker : forall g m, is_min_pm g m = true <->
  perfect g m /\ forall m', perfect g m' -> (weight g m <= weight g m')%Q.
Proof. exact is_min_pm_spec. Qed.
Theorem c13_min_weight : forall g w, min_pm_weight g = Some w ->
  (exists m, perfect g m /\ weight g m = w) /\ forall m', perfect g m' -> (w <= weight g m')%Q.
Proof. exact min_pm_weight_spec. Qed.
Theorem c13_no_pm : forall g, min_pm_weight g = None <-> forall m, ~ perfect g m.
Proof. exact min_pm_weight_none. Qed.

(* P-forall over insertion sequences (SimpleGraph.add_edge = pop reversed key, then set): the edge
   {a,b} carries the weight of the last insertion of {a,b} in either orientation, and there is at
   most one entry per unordered pair *)
Theorem c13_add_edge_last : forall ops a b, edge (build ops) a b = last_op ops a b.
Proof. exact build_edge. Qed.
Theorem c13_add_edge_one_entry : forall ops a b e1 e2,
  In e1 (build ops) -> In e2 (build ops) -> upair (fst e1) a b = true -> upair (fst e2) a b = true -> e1 = e2.
Proof. exact build_one_entry. Qed.

(* PO: relative to the documented contract of nx.max_weight_matching(maxcardinality=True) —
   a matching, of maximum cardinality, of maximum weight among the matchings of that cardinality —
   negating the weights yields a perfect matching of minimum weight whenever one exists *)
Theorem c13_wrapper : forall MaxW : graph -> matching,
  (forall h, is_matching h (MaxW h)) ->
  (forall h m, is_matching h m -> length m <= length (MaxW h)) ->
  (forall h m, is_matching h m -> length m = length (MaxW h) -> (weight h m <= weight h (MaxW h))%Q) ->
  forall g, (exists m0, perfect g m0) ->
  perfect g (mwpm_networkx MaxW g) /\
  forall m', perfect g m' -> (weight g (mwpm_networkx MaxW g) <= weight g m')%Q.
Proof. exact wrapper_min_perfect. Qed.

(* the contract is satisfiable (so c13_wrapper is not vacuous): the exhaustive matcher brute_maxw — best of
   ALL matchings by (cardinality, weight) — meets it, and the wrapper around it is unconditionally correct *)
Theorem c13_contract_satisfiable :
  (forall h, is_matching h (brute_maxw h)) /\
  (forall h m, is_matching h m -> length m <= length (brute_maxw h)) /\
  (forall h m, is_matching h m -> length m = length (brute_maxw h) -> (weight h m <= weight h (brute_maxw h))%Q).
Proof. exact (conj brute_maxw_matching (conj brute_maxw_card brute_maxw_weight)). Qed.
Theorem c13_wrapper_instance : forall g, (exists m0, perfect g m0) ->
  perfect g (mwpm_networkx brute_maxw g) /\
  forall m', perfect g m' -> (weight g (mwpm_networkx brute_maxw g) <= weight g m')%Q.
Proof. exact brute_mwpm_min_perfect. Qed.

(* the empty graph yields the empty matching, without consulting the matcher *)
Theorem c13_empty : (forall MaxW, mwpm_networkx MaxW [] = []) /\ perfect [] [] /\ is_min_pm [] [] = true /\ all_pms [] = [[]].
Proof. split; [reflexivity|exact empty_graph_matching]. Qed.

(* non-vacuity: a 4-cycle with a chord, inserted with a reversed re-insertion; negative and rational weights *)
Example c13_ex :
  let g := build [(0, 1, 3#1); (1, 2, (-1)#2); (2, 3, 3#1); (3, 0, 1#4); (2, 1, 5#1); (0, 2, 0#1)] in
  keys g = [(0, 1); (2, 3); (3, 0); (2, 1); (0, 2)] /\ edge g 1 2 = Some (5#1) /\
  length (all_pms g) = 2 /\ is_min_pm g [(3, 0); (1, 2)] = true /\ is_min_pm g [(2, 3); (1, 0)] = false
  /\ is_min_pm g [(3, 0)] = false /\ option_map Qred (min_pm_weight g) = Some (21#4).
Proof. vm_compute. repeat split; reflexivity. Qed.

Print Assumptions c13_all_pms_sound. Print Assumptions c13_all_pms_complete. Print Assumptions c13_meq_same_matching.
Print Assumptions c13_meq_weight. Print Assumptions c13_checker. Print Assumptions c13_min_weight.
Print Assumptions c13_no_pm. Print Assumptions c13_add_edge_last. Print Assumptions c13_add_edge_one_entry.
Print Assumptions c13_wrapper. Print Assumptions c13_empty.
Print Assumptions c13_contract_satisfiable. Print Assumptions c13_wrapper_instance.
