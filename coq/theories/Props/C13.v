(* Props/C13.v — matching is perfect and of minimum total weight. *)
From Coq Require Import Arith List Bool Lia QArith Permutation.
From QV Require Import Decoders.Matching Decoders.MatchingHist Decoders.MatchingMin Decoders.MatchingMemo.
Import ListNotations.
Open Scope nat_scope.

(* P-forall: the exhaustive enumerator lists only perfect matchings ... *)
Theorem c13_all_pms_sound : forall g m, In m (all_pms g) -> perfect g m.
Proof. exact all_pms_sound. Qed.
(* ... and every perfect matching, up to the order of the pairs and the orientation of each pair
   (meq), which changes neither the set of unordered pairs nor the weight *)
Theorem c13_all_pms_complete : forall g m, perfect g m -> exists m', In m' (all_pms g) /\ meq m m'.
Proof. exact all_pms_complete. Qed.
Theorem c13_meq_same_matching : forall m m', meq m m' -> same_pairs m m' /\ length m = length m'.
Proof. exact meq_same_pairs. Qed.
Theorem c13_meq_weight : forall g m m', meq m m' -> (weight g m == weight g m')%Q.
Proof. exact weight_meq. Qed.

(* P-forall: the checker applied to what graphtools.mwpm returns decides the property's right-hand side:
   covers every node exactly once, uses only edges of the graph, minimum total weight over all
   perfect matchings — integer, rational, zero, negative weights alike *)
Theorem c13_checker : forall g m, is_min_pm g m = true <->
  perfect g m /\ forall m', perfect g m' -> (weight g m <= weight g m')%Q.
Proof. exact is_min_pm_spec. Qed.
Theorem c13_min_weight : forall g w, min_pm_weight g = Some w ->
  (exists m, perfect g m /\ weight g m = w) /\ forall m', perfect g m' -> (w <= weight g m')%Q.
Proof. exact min_pm_weight_spec. Qed.
Theorem c13_no_pm : forall g, min_pm_weight g = None <-> forall m, ~ perfect g m.
Proof. exact min_pm_weight_none. Qed.

(* P-forall over insertion sequences (SimpleGraph.add_edge = pop reversed key, then set): the edge
   {a,b} carries the weight of the last insertion of {a,b} in either orientation, and there is at
   most one entry per unordered pair *)
Theorem c13_add_edge_last : forall ops a b, edge (build ops) a b = last_op ops a b.
Proof. exact build_edge. Qed.
Theorem c13_add_edge_one_entry : forall ops a b e1 e2,
  In e1 (build ops) -> In e2 (build ops) -> upair (fst e1) a b = true -> upair (fst e2) a b = true -> e1 = e2.
Proof. exact build_one_entry. Qed.

(* PO: relative to the documented contract of nx.max_weight_matching(maxcardinality=True) —
   a matching, of maximum cardinality, of maximum weight among the matchings of that cardinality —
   negating the weights yields a perfect matching of minimum weight whenever one exists *)
Theorem c13_wrapper : forall MaxW : graph -> matching,
  (forall h, is_matching h (MaxW h)) ->
  (forall h m, is_matching h m -> length m <= length (MaxW h)) ->
  (forall h m, is_matching h m -> length m = length (MaxW h) -> (weight h m <= weight h (MaxW h))%Q) ->
  forall g, (exists m0, perfect g m0) ->
  perfect g (mwpm_networkx MaxW g) /\
  forall m', perfect g m' -> (weight g (mwpm_networkx MaxW g) <= weight g m')%Q.
Proof. exact wrapper_min_perfect. Qed.

(* the contract is satisfiable (so c13_wrapper is not vacuous): the exhaustive matcher brute_maxw — best of
   ALL matchings by (cardinality, weight) — meets it, and the wrapper around it is unconditionally correct *)
Theorem c13_contract_satisfiable :
  (forall h, is_matching h (brute_maxw h)) /\
  (forall h m, is_matching h m -> length m <= length (brute_maxw h)) /\
  (forall h m, is_matching h m -> length m = length (brute_maxw h) -> (weight h m <= weight h (brute_maxw h))%Q).
Proof. exact (conj brute_maxw_matching (conj brute_maxw_card brute_maxw_weight)). Qed.
Theorem c13_wrapper_instance : forall g, (exists m0, perfect g m0) ->
  perfect g (mwpm_networkx brute_maxw g) /\
  forall m', perfect g m' -> (weight g (mwpm_networkx brute_maxw g) <= weight g m')%Q.
Proof. exact brute_mwpm_min_perfect. Qed.

(* the empty graph yields the empty matching, without consulting the matcher *)
Theorem c13_empty : (forall MaxW, mwpm_networkx MaxW [] = []) /\ perfect [] [] /\ is_min_pm [] [] = true /\ all_pms [] = [[]].
Proof. split; [reflexivity|exact empty_graph_matching]. Qed.

(* P-forall over operation HISTORIES on one SimpleGraph object (Decoders/MatchingHist.v): SimpleGraph is a dict, so between
   two matchings a caller may use add_edge, g[k] = w, del / pop, popitem, update / |=, setdefault, clear.  `run h` is the
   content of the object after the history h; the checker applied to it decides the property for the graph AS IT IS NOW *)
Theorem c13_hist_checker : forall h m, is_min_pm (run h) m = true <->
  perfect (run h) m /\ forall m', perfect (run h) m' -> (weight (run h) m <= weight (run h) m')%Q.
Proof. exact hist_checker. Qed.
(* the dict invariant (distinct keys) holds after every history; the SimpleGraph invariant (never a key together with
   its reverse) holds after every history whose raw dict writes keep the orientation already stored *)
Theorem c13_hist_keys_distinct : forall h, NoDup (keys (run h)).
Proof. exact run_nodup. Qed.
Theorem c13_hist_simple : forall h, safe_hist [] h -> simple (run h).
Proof. exact simple_run. Qed.
(* what a lookup returns after each kind of write *)
Theorem c13_hist_set : forall k' k w g, get k' (setk k w g) = if keyb k' k then Some w else get k' g.
Proof. exact get_setk. Qed.
Theorem c13_hist_pop : forall k' k g, NoDup (keys g) -> get k' (pop k g) = if keyb k' k then None else get k' g.
Proof. exact get_pop. Qed.
Theorem c13_hist_add_edge : forall k' g a b w, NoDup (keys g) ->
  get k' (add_edge g a b w) = if keyb k' (a, b) then Some w else if keyb k' (b, a) then None else get k' g.
Proof. exact get_add_edge. Qed.
Theorem c13_hist_update : forall k' l g,
  get k' (update g l) = match get k' (rev l) with Some w => Some w | None => get k' g end.
Proof. exact get_update. Qed.
Theorem c13_hist_setdefault : forall k' k w g, get k' (setdefault k w g) =
  if keyb k' k then (match get k g with Some w' => Some w' | None => Some w end) else get k' g.
Proof. exact get_setdefault. Qed.
Theorem c13_hist_popitem : forall g, g <> [] -> exists e, g = step g HPopitem ++ [e].
Proof. exact popitem_spec. Qed.
(* in a graph with the SimpleGraph invariant, the matcher's view of {a,b} is the entry stored under (a,b) or (b,a) *)
Theorem c13_hist_edge_get : forall g a b w, simple g ->
  (edge g a b = Some w <-> get (a, b) g = Some w \/ get (b, a) g = Some w).
Proof. exact edge_get. Qed.
(* add_edge-only histories are the insertion sequences above *)
Theorem c13_hist_adds : forall ops, run (map (fun o : op => HAdd (fst (fst o)) (snd (fst o)) (snd o)) ops) = build ops.
Proof. exact run_adds. Qed.

(* P-forall: the checkers used for DENSE graphs (complete graphs on 12-20 nodes: all_pms has 10^4 - 10^9 elements and is never
   built).  is_min_pm_fast follows the recursion of all_pms keeping only the running minimum (Decoders/MatchingMin.v);
   is_min_pm_memo memoises that recursion on the list of uncovered nodes — correct for any hash function
   (Decoders/MatchingMemo.v); is_min_pm_big first multiplies all weights by a positive common multiple of their denominators.
   All three are the SAME boolean function as is_min_pm: integer, rational, zero, negative weights alike *)
Theorem c13_checker_fast : forall g m, is_min_pm_fast g m = is_min_pm g m.
Proof. exact is_min_pm_fast_eq. Qed.
Theorem c13_checker_memo : forall g m, is_min_pm_memo g m = is_min_pm g m.
Proof. exact is_min_pm_memo_eq. Qed.
Theorem c13_checker_big : forall g m, is_min_pm_big g m = true <->
  perfect g m /\ forall m', perfect g m' -> (weight g m <= weight g m')%Q.
Proof. exact is_min_pm_big_spec. Qed.
Theorem c13_checker_big_eq : forall g m, is_min_pm_big g m = is_min_pm g m.
Proof. exact is_min_pm_big_eq. Qed.
(* the number of perfect matchings and the least weight reported beside the verdict *)
Theorem c13_npms_memo : forall g, npms_memo g = N.of_nat (length (all_pms g)).
Proof. exact npms_memo_spec. Qed.
Theorem c13_npms_scaled : forall c g, all_pms (scaleq c g) = all_pms g.
Proof. exact all_pms_scaleq. Qed.
Theorem c13_min_weight_memo : forall g w, min_pm_weight_memo g = Some w ->
  (exists m, perfect g m /\ weight g m = w) /\ forall m', perfect g m' -> (w <= weight g m')%Q.
Proof. exact min_pm_weight_memo_spec. Qed.
Theorem c13_weight_scaled : forall c g m, (weight (scaleq c g) m == weight g m * c)%Q.
Proof. exact weight_scaleq. Qed.

(* non-vacuity: a 4-cycle with a chord, inserted with a reversed re-insertion; negative and rational weights *)
Example c13_ex :
  let g := build [(0, 1, 3#1); (1, 2, (-1)#2); (2, 3, 3#1); (3, 0, 1#4); (2, 1, 5#1); (0, 2, 0#1)] in
  keys g = [(0, 1); (2, 3); (3, 0); (2, 1); (0, 2)] /\ edge g 1 2 = Some (5#1) /\
  length (all_pms g) = 2 /\ is_min_pm g [(3, 0); (1, 2)] = true /\ is_min_pm g [(2, 3); (1, 0)] = false
  /\ is_min_pm g [(3, 0)] = false /\ option_map Qred (min_pm_weight g) = Some (21#4).
Proof. vm_compute. repeat split; reflexivity. Qed.

Print Assumptions c13_all_pms_sound. Print Assumptions c13_all_pms_complete. Print Assumptions c13_meq_same_matching.
Print Assumptions c13_meq_weight. Print Assumptions c13_checker. Print Assumptions c13_min_weight.
Print Assumptions c13_no_pm. Print Assumptions c13_add_edge_last. Print Assumptions c13_add_edge_one_entry.
Print Assumptions c13_wrapper. Print Assumptions c13_empty.
Print Assumptions c13_contract_satisfiable. Print Assumptions c13_wrapper_instance.
Print Assumptions c13_hist_checker. Print Assumptions c13_hist_keys_distinct. Print Assumptions c13_hist_simple.
Print Assumptions c13_hist_set. Print Assumptions c13_hist_pop. Print Assumptions c13_hist_add_edge.
Print Assumptions c13_hist_update. Print Assumptions c13_hist_setdefault. Print Assumptions c13_hist_popitem.
Print Assumptions c13_hist_edge_get. Print Assumptions c13_hist_adds.
Print Assumptions c13_checker_fast. Print Assumptions c13_checker_memo. Print Assumptions c13_checker_big.
Print Assumptions c13_checker_big_eq. Print Assumptions c13_npms_memo. Print Assumptions c13_npms_scaled.
Print Assumptions c13_min_weight_memo. Print Assumptions c13_weight_scaled.
