(* Props/C20.v — validation decides the code conditions exactly. *)
From Coq Require Import Arith List Bool Lia.
From QV Require Import Core.Bits Core.Pauli Core.Symp Core.Code Core.CodeP Core.CodeNd App.ConvHeap.
Import ListNotations.

(* binary-matrix level: any matrices, any number of logical rows *)
Theorem c20_validate_iff_matrix : forall c, validate c = VOk <->
  (forall s s', In s (stabs c) -> In s' (stabs c) -> bsp s s' = false) /\
  (forall s l, In s (stabs c) -> In l (logicals c) -> bsp s l = false) /\
  Nat.even (length (logicals c)) = true /\
  (forall i j, i < length (logicals c) -> j < length (logicals c) ->
     bsp (nth i (logicals c) []) (nth j (logicals c) []) = twist_rel (length (logicals c)) i j).
Proof. exact validate_ok_iff. Qed.

(* k pX-logicals and k pZ-logicals: canonical relations X_i/Z_j *)
Theorem c20_validate_iff_canonical : forall c, length (lxs c) = length (lzs c) ->
  (validate c = VOk <->
   (forall s s', In s (stabs c) -> In s' (stabs c) -> bsp s s' = false) /\
   (forall s l, In s (stabs c) -> In l (logicals c) -> bsp s l = false) /\
   canonical (lxs c) (lzs c)).
Proof. exact validate_iff_canonical. Qed.

(* Pauli-string level with the letter-level commutation (independent of bsp) *)
Theorem c20_validate_iff : forall n ss xs zs,
  uniform n ss -> uniform n xs -> uniform n zs -> length xs = length zs ->
  (validate (code_of ss xs zs) = VOk <->
   (forall s s', In s ss -> In s' ss -> anticommutes s s' = false) /\
   (forall s l, In s ss -> In l (xs ++ zs) -> anticommutes s l = false) /\
   canonical_p xs zs).
Proof. exact validate_iff_pauli. Qed.

Theorem c20_first_failure : forall c,
  (validate c = VErrStab <-> exists s s', In s (stabs c) /\ In s' (stabs c) /\ bsp s s' = true) /\
  (validate c = VErrStabLog <->
     (forall s s', In s (stabs c) -> In s' (stabs c) -> bsp s s' = false) /\
     exists s l, In s (stabs c) /\ In l (logicals c) /\ bsp s l = true).
Proof. exact validate_first_failure. Qed.

Theorem c20_logicals_order : forall c, logicals c = lxs c ++ lzs c.
Proof. reflexivity. Qed.

Theorem c20_decode_result : forall (A B : Type) (success : option A) (recovery : option B),
  decode_result_ok success recovery = true <-> success <> None \/ recovery <> None.
Proof.
  intros A B [s|] [r|]; cbn; split; intros H; auto; try (left; discriminate); try (right; discriminate);
    try discriminate. destruct H as [H|H]; congruence.
Qed.

Theorem c20_corruption : forall c pre s post d p,
  stabs c = pre ++ s :: post -> validate c = VOk ->
  length d = length s -> (In p (pre ++ post) \/ In p (logicals c)) -> bsp d p = true ->
  validate (mkCode (pre ++ xorv s d :: post) (lxs c) (lzs c)) <> VOk.
Proof. exact corrupt_stabilizer_detected. Qed.

(* presentation: operators returned as 1-d vectors ("numpy.array (1d or 2d)") are the one-row matrices;
   validate follows NumPy's shapes (scalar / vector / matrix products) and decides the same conditions *)
Theorem c20_presentation_1d : forall S X Z, validate_nd S X Z = validate (code_nd S X Z).
Proof. exact validate_nd_eq. Qed.

(* the evaluation order used by the engine on large codes (halves swapped once per row) is the same function *)
Theorem c20_validate_fast : forall c, validate_fast c = validate c.
Proof. exact validate_fast_eq. Qed.

(* codes defined by Pauli strings: the arrays pauli_to_bsf hands out are the caller's (heap of mutable cells, every
   conversion allocates).  After ANY caller history - conversions of the same strings, arbitrary in-place overwrites of
   any cell - the code read from its strings is code_of of the strings, so c20_validate_iff decides it; a memoised
   conversion returning the shared cell does not have this property (App/ConvHeap.memo_valid_rejected,
   memo_invalid_accepted) *)
Theorem c20_strings_any_caller_history : forall steps ss xs zs,
  build_fresh (run_fresh [] steps) ss xs zs = code_of ss xs zs /\
  logicals (build_fresh (run_fresh [] steps) ss xs zs) = map to_bsf xs ++ map to_bsf zs.
Proof. exact strings_any_caller_history. Qed.

(* non-vacuity: the five-qubit code validates; swapping a logical pair does not *)
Definition five := code_of [[pX;pZ;pZ;pX;pI]; [pI;pX;pZ;pZ;pX]; [pX;pI;pX;pZ;pZ]; [pZ;pX;pI;pX;pZ]] [[pX;pX;pX;pX;pX]] [[pZ;pZ;pZ;pZ;pZ]].
Example c20_ex_five : validate five = VOk /\
  validate (code_of [[pX;pZ;pZ;pX;pI]; [pI;pX;pZ;pZ;pX]] [[pX;pX;pX;pX;pX]] [[pX;pX;pX;pX;pX]]) = VErrLog /\
  validate (code_of [[pX;pZ;pZ;pX;pI]; [pZ;pX;pZ;pZ;pX]] [[pX;pX;pX;pX;pX]] [[pZ;pZ;pZ;pZ;pZ]]) = VErrStab.
Proof. vm_compute. auto. Qed.

Print Assumptions c20_validate_iff_matrix. Print Assumptions c20_validate_iff_canonical.
Print Assumptions c20_validate_iff. Print Assumptions c20_first_failure.
Print Assumptions c20_logicals_order. Print Assumptions c20_decode_result. Print Assumptions c20_corruption.
Print Assumptions c20_presentation_1d. Print Assumptions c20_validate_fast.
Print Assumptions c20_strings_any_caller_history.
