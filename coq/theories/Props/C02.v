(* Props/C02.v — every decoder's recovery reproduces the syndrome.
   Level: verified checker (recovery_ok) applied to what every decoder returned, plus the decoder
   skeleton lemmas that need no lattice model. *)
From Coq Require Import Arith List Bool Lia ZArith Permutation.
From QV Require Import Core.Bits Core.Pauli Core.Symp Core.Span App.RunOnce Decoders.Naive Decoders.Checker.
Import ListNotations.

(* VC: the checker accepts exactly the binary operators of length 2n with the given syndrome *)
Theorem c02_checker_sound : forall stabs n r s, recovery_ok stabs n r s = true ->
  length r = 2 * n /\ (forall x, In x r -> x = 0%Z \/ x = 1%Z) /\ syndrome_of stabs (bits_of r) = s.
Proof. exact recovery_ok_sound. Qed.
Theorem c02_checker_complete : forall stabs n r s,
  length r = 2 * n -> (forall x, In x r -> x = 0%Z \/ x = 1%Z) -> syndrome_of stabs (bits_of r) = s ->
  recovery_ok stabs n r s = true.
Proof. exact recovery_ok_complete. Qed.
(* ... hence recovery xor error commutes with all stabilizers for the error that produced the syndrome *)
Theorem c02_checker_returns : forall stabs n r e, length e = 2 * n ->
  recovery_ok stabs n r (syndrome_of stabs e) = true -> zero_syndrome stabs (xorv (bits_of r) e).
Proof. exact recovery_ok_returns. Qed.

(* P-forall, every code: the naive decoder never returns nothing on the syndrome of an error, and its
   answer has the right length and exactly that syndrome *)
Theorem c02_naive : forall stabs n s e0, length e0 = 2 * n -> syndrome_of stabs e0 = s ->
  exists r, naive stabs n s = Some r /\ length r = 2 * n /\ syndrome_of stabs r = s.
Proof. exact naive_finds. Qed.
Theorem c02_naive_blocks : forall stabs n s, naive_blocks stabs n s = naive stabs n s.
Proof. exact naive_blocks_eq. Qed.

(* P-forall skeleton lemmas: a product of operators has the XOR of their syndromes (path-product
   recoveries); multiplying by an operator with zero syndrome keeps the syndrome (sample x logical) *)
Theorem c02_product_syndrome : forall stabs n2 ops, rowlen n2 ops ->
  syndrome_of stabs (xsum n2 ops) = xsum (length stabs) (map (syndrome_of stabs) ops).
Proof. exact product_syndrome. Qed.
Theorem c02_logical_shift : forall stabs n f l, length f = 2 * n -> length l = 2 * n -> zero_syndrome stabs l ->
  syndrome_of stabs (xorv f l) = syndrome_of stabs f.
Proof. exact logical_shift. Qed.
(* PO skeleton of the MWPM decoders: relative to "the path between two nodes anticommutes with exactly
   the stabilizers the two nodes stand for" (C15's statement; virtual nodes stand for none), the XOR
   of the paths over the mates of EVERY perfect matching of the node list has the XOR of all node
   indicators as syndrome *)
Theorem c02_mwpm_skeleton : forall (node : Type) stabs n2 (ind : node -> bsf) (path : node -> node -> bsf),
  (forall a, length (ind a) = length stabs) -> (forall a b, length (path a b) = n2) ->
  (forall a b, syndrome_of stabs (path a b) = xorv (ind a) (ind b)) ->
  forall nodes m, Permutation (pair_ends node m) nodes ->
  syndrome_of stabs (recovery_of node n2 path m) = xsum (length stabs) (map ind nodes).
Proof. exact mates_recovery_syndrome. Qed.

(* the generic end-to-end statement (an arbitrary decode function) stays visible; proved instances, all sizes, are
   re-exported below: planar / toric MWPM (every perfect matching), planar / rotated planar / colour MPS and RMPS
   decoders (sample recovery xor any logical class), naive decoder above *)
Definition c02_all_decoders_statement : Prop :=
  forall (decode : list bsf -> bsf -> list Z) stabs n e, length e = 2 * n ->
    recovery_ok stabs n (decode stabs (syndrome_of stabs e)) (syndrome_of stabs e) = true.

Example c02_ex : recovery_ok five_stabs 5 [0;0;1;0;0; 0;0;0;0;0]%Z (syndrome_of five_stabs (to_bsf [pI;pI;pX;pI;pI])) = true
  /\ recovery_ok five_stabs 5 [0;0;2;0;0; 0;0;0;0;0]%Z (syndrome_of five_stabs (to_bsf [pI;pI;pX;pI;pI])) = false
  /\ recovery_ok five_stabs 5 [0;0;0;0;0; 0;0;0;0;0]%Z (syndrome_of five_stabs (to_bsf [pI;pI;pX;pI;pI])) = false
  /\ naive five_stabs 5 (syndrome_of five_stabs (to_bsf [pI;pI;pY;pI;pI])) = Some (to_bsf [pI;pI;pY;pI;pI]).
Proof. vm_compute. repeat split; reflexivity. Qed.

Print Assumptions c02_checker_sound. Print Assumptions c02_checker_complete. Print Assumptions c02_checker_returns.
Print Assumptions c02_naive. Print Assumptions c02_naive_blocks. Print Assumptions c02_product_syndrome.
Print Assumptions c02_logical_shift. Print Assumptions c02_mwpm_skeleton.


(* ---- MWPM decoders, all lattice sizes (Decoders/PlanarMwpm.v, Decoders/ToricMwpm.v; C15's all-sizes path
   theorems instantiate c02_mwpm_skeleton).  PO: the matching is an input; hypotheses on it are (i) perfect on the
   decoder's node list of each lattice, (ii) planar only: the parity-fixing extra node is not mated with a defect
   (the decoder's graph has no such edge).  Mates of the same lattice type follow from (i). ---- *)
From QV Require Import Core.Code Generated.LatticeArith Lattice.Planar Lattice.Toric Decoders.MwpmRel Decoders.PlanarMwpm Decoders.ToricMwpm.
Theorem c02_planar_mwpm : forall rows cols, (2 <= rows)%Z -> (2 <= cols)%Z -> forall (syn : bsf) (mp md : list (idx * idx)),
  length syn = length (plaquette_indices rows cols) ->
  Permutation (ends2 mp) (primal_nodes rows cols syn) -> Permutation (ends2 md) (dual_nodes rows cols syn) ->
  extra_not_with_defect rows cols extra_primal mp -> extra_not_with_defect rows cols extra_dual md ->
  exists r, mwpm_recovery rows cols (mp ++ md) = Some r /\ length r = (planar_n rows cols + planar_n rows cols)%nat /\
            syndrome_of (stabs (planar_code rows cols)) r = syn.
Proof. exact planar_mwpm_syndrome. Qed.
Theorem c02_planar_mwpm_of_error : forall rows cols, (2 <= rows)%Z -> (2 <= cols)%Z -> forall (e : bsf) (mp md : list (idx * idx)),
  let syn := syndrome_of (stabs (planar_code rows cols)) e in
  Permutation (ends2 mp) (primal_nodes rows cols syn) -> Permutation (ends2 md) (dual_nodes rows cols syn) ->
  extra_not_with_defect rows cols extra_primal mp -> extra_not_with_defect rows cols extra_dual md ->
  exists r, mwpm_recovery rows cols (mp ++ md) = Some r /\ length r = (planar_n rows cols + planar_n rows cols)%nat /\
            syndrome_of (stabs (planar_code rows cols)) r = syndrome_of (stabs (planar_code rows cols)) e.
Proof. exact planar_mwpm_syndrome_of_error. Qed.
Theorem c02_toric_mwpm : forall rows cols, (2 <= rows)%Z -> (2 <= cols)%Z -> forall (syn : bsf) (m0 m1 : list (tidx * tidx)),
  length syn = length (tindices rows cols) ->
  Permutation (ends2 m0) (lattice_defects rows cols 0%Z syn) -> Permutation (ends2 m1) (lattice_defects rows cols 1%Z syn) ->
  exists r, toric_mwpm_recovery rows cols (m0 ++ m1) = Some r /\ length r = (toric_n rows cols + toric_n rows cols)%nat /\
            syndrome_of (stabs (toric_code rows cols)) r = syn.
Proof. exact toric_mwpm_syndrome. Qed.
(* a perfect matching of a node list exists only if the list is even (toric: even parity per lattice) *)
Theorem c02_perfect_even : forall (A : Type) (m : list (A * A)) l, Permutation (ends2 m) l -> Nat.even (length l) = true.
Proof. exact @perfect_even. Qed.
Print Assumptions c02_planar_mwpm. Print Assumptions c02_planar_mwpm_of_error. Print Assumptions c02_toric_mwpm.
Print Assumptions c02_perfect_even.

(* ---- re-exported by tools/reexport.py: statements copied from `Check`, closed by `exact` ---- *)
From QV Require Import Decoders.SampleRecovery Decoders.SampleRecoveryColor.
Theorem c02_planar_sample_syndrome_all : forall rows cols : Z, 2 <= rows -> 2 <= cols -> forall (syn : bsf) (L : list (Z * Z)), length syn = length (Code.stabs (Planar.planar_code rows cols)) -> Permutation L (Planar.syndrome_to_plaquette_indices rows cols syn) -> exists p : Planar.pauli, planar_sample_recovery_ord rows cols L = Some p /\ length (Planar.p_to_bsf p) = (Planar.planar_n rows cols + Planar.planar_n rows cols)%nat /\ syndrome_of (Code.stabs (Planar.planar_code rows cols)) (Planar.p_to_bsf p) = syn.
Proof. exact planar_sample_syndrome_all. Qed.
Theorem c02_planar_mps_decode_syndrome_all : forall rows cols : Z, 2 <= rows -> 2 <= cols -> forall (c : coset) (syn : bsf) (L : list (Z * Z)), length syn = length (Code.stabs (Planar.planar_code rows cols)) -> Permutation L (Planar.syndrome_to_plaquette_indices rows cols syn) -> exists p : Planar.pauli, planar_sample_recovery_ord rows cols L = Some p /\ (let r := Planar.p_to_bsf (planar_apply_coset rows cols c p) in r = xorv (Planar.p_to_bsf p) (planar_coset_op rows cols c) /\ length r = (Planar.planar_n rows cols + Planar.planar_n rows cols)%nat /\ syndrome_of (Code.stabs (Planar.planar_code rows cols)) r = syn).
Proof. exact planar_mps_decode_syndrome_all. Qed.
Theorem c02_rotplanar_sample_syndrome_all : forall rows cols : Z, 3 <= rows -> 3 <= cols -> forall (syn : bsf) (L : list (Z * Z)), length syn = length (Code.stabs (RotPlanar.rotplanar_code rows cols)) -> Permutation L (RotPlanar.rp_syndrome_to_plaquette_indices rows cols syn) -> let r := RotPlanar.rc_to_bsf (rotplanar_sample_recovery_ord rows cols L) in length r = (RotPlanar.rp_n rows cols + RotPlanar.rp_n rows cols)%nat /\ syndrome_of (Code.stabs (RotPlanar.rotplanar_code rows cols)) r = syn.
Proof. exact rotplanar_sample_syndrome_all. Qed.
Theorem c02_rotplanar_mps_decode_syndrome_all : forall rows cols : Z, 3 <= rows -> 3 <= cols -> forall (c : coset) (syn : bsf) (L : list (Z * Z)), length syn = length (Code.stabs (RotPlanar.rotplanar_code rows cols)) -> Permutation L (RotPlanar.rp_syndrome_to_plaquette_indices rows cols syn) -> let p := rotplanar_sample_recovery_ord rows cols L in let r := RotPlanar.rc_to_bsf (rotplanar_apply_coset rows cols c p) in r = xorv (RotPlanar.rc_to_bsf p) (rotplanar_coset_op rows cols c) /\ length r = (RotPlanar.rp_n rows cols + RotPlanar.rp_n rows cols)%nat /\ syndrome_of (Code.stabs (RotPlanar.rotplanar_code rows cols)) r = syn.
Proof. exact rotplanar_mps_decode_syndrome_all. Qed.
Theorem c02_color_sample_syndrome_all : forall size : Z, 3 <= size -> size mod 2 = 1 -> forall (syn : bsf) (LX LZ : list (Z * Z)), length syn = length (Code.stabs (Color.color_code size)) -> Permutation LX (fst (Color.c6_syndrome_to_plaquette_indices size syn)) -> Permutation LZ (snd (Color.c6_syndrome_to_plaquette_indices size syn)) -> exists p : RotPlanar.rc_pauli, color_sample_recovery_ord size LX LZ = Some p /\ length (RotPlanar.rc_to_bsf p) = (Color.c6_n size + Color.c6_n size)%nat /\ syndrome_of (Code.stabs (Color.color_code size)) (RotPlanar.rc_to_bsf p) = syn.
Proof. exact color_sample_syndrome_all. Qed.
Theorem c02_color_mps_decode_syndrome_all : forall size : Z, 3 <= size -> size mod 2 = 1 -> forall (c : coset) (syn : bsf) (LX LZ : list (Z * Z)), length syn = length (Code.stabs (Color.color_code size)) -> Permutation LX (fst (Color.c6_syndrome_to_plaquette_indices size syn)) -> Permutation LZ (snd (Color.c6_syndrome_to_plaquette_indices size syn)) -> exists p p' : RotPlanar.rc_pauli, color_sample_recovery_ord size LX LZ = Some p /\ color_apply_coset size c p = Some p' /\ RotPlanar.rc_to_bsf p' = xorv (RotPlanar.rc_to_bsf p) (color_coset_op size c) /\ length (RotPlanar.rc_to_bsf p') = (Color.c6_n size + Color.c6_n size)%nat /\ syndrome_of (Code.stabs (Color.color_code size)) (RotPlanar.rc_to_bsf p') = syn.
Proof. exact color_mps_decode_syndrome_all. Qed.
Theorem c02_planar_sample_order_irrelevant : forall rows cols : Z, 2 <= rows -> 2 <= cols -> forall (syn : bsf) (L : list (Z * Z)), length syn = length (Code.stabs (Planar.planar_code rows cols)) -> Permutation L (Planar.syndrome_to_plaquette_indices rows cols syn) -> option_map Planar.p_to_bsf (planar_sample_recovery_ord rows cols L) = option_map Planar.p_to_bsf (planar_sample_recovery rows cols syn).
Proof. exact planar_sample_order_irrelevant. Qed.
Theorem c02_rotplanar_sample_order_irrelevant : forall rows cols : Z, 3 <= rows -> 3 <= cols -> forall (syn : bsf) (L : list (Z * Z)), length syn = length (Code.stabs (RotPlanar.rotplanar_code rows cols)) -> Permutation L (RotPlanar.rp_syndrome_to_plaquette_indices rows cols syn) -> RotPlanar.rc_to_bsf (rotplanar_sample_recovery_ord rows cols L) = RotPlanar.rc_to_bsf (rotplanar_sample_recovery rows cols syn).
Proof. exact rotplanar_sample_order_irrelevant. Qed.
Print Assumptions c02_planar_sample_syndrome_all.
Print Assumptions c02_planar_mps_decode_syndrome_all.
Print Assumptions c02_rotplanar_sample_syndrome_all.
Print Assumptions c02_rotplanar_mps_decode_syndrome_all.
Print Assumptions c02_color_sample_syndrome_all.
Print Assumptions c02_color_mps_decode_syndrome_all.
Print Assumptions c02_planar_sample_order_irrelevant.
Print Assumptions c02_rotplanar_sample_order_irrelevant.

(* ---- re-exported by tools/reexport.py: statements copied from `Check`, closed by `exact` ---- *)
From QV Require Import Decoders.ToricMwpmPm.
Theorem c02_toric_graph_has_perfect_matching : forall (rows cols la : Z) (syn : bsf), Nat.even (length (ToricMwpm.lattice_defects rows cols la syn)) = true -> exists m : list (Z * Z * Z * (Z * Z * Z)), perfect_in_graph rows cols la syn m.
Proof. exact toric_graph_has_perfect_matching. Qed.
Theorem c02_toric_graph_perfect_matching_iff : forall (rows cols la : Z) (syn : bsf), (exists m : list (Z * Z * Z * (Z * Z * Z)), perfect_in_graph rows cols la syn m) <-> Nat.even (length (ToricMwpm.lattice_defects rows cols la syn)) = true.
Proof. exact toric_graph_perfect_matching_iff. Qed.
Theorem c02_toric_mwpm_graph_total : forall rows cols : Z, (2 <= rows)%Z -> (2 <= cols)%Z -> forall syn : bsf, length syn = length (Toric.tindices rows cols) -> Nat.even (length (ToricMwpm.lattice_defects rows cols 0 syn)) = true -> Nat.even (length (ToricMwpm.lattice_defects rows cols 1 syn)) = true -> (exists m0 m1 : list (Z * Z * Z * (Z * Z * Z)), perfect_in_graph rows cols 0 syn m0 /\ perfect_in_graph rows cols 1 syn m1) /\ (forall m0 m1 : list (Z * Z * Z * (Z * Z * Z)), perfect_in_graph rows cols 0 syn m0 -> perfect_in_graph rows cols 1 syn m1 -> exists r : bsf, ToricMwpm.toric_mwpm_recovery rows cols (m0 ++ m1) = Some r /\ length r = (Toric.toric_n rows cols + Toric.toric_n rows cols)%nat /\ syndrome_of (Code.stabs (Toric.toric_code rows cols)) r = syn).
Proof. exact toric_mwpm_graph_total. Qed.
Print Assumptions c02_toric_graph_has_perfect_matching.
Print Assumptions c02_toric_graph_perfect_matching_iff.
Print Assumptions c02_toric_mwpm_graph_total.

(* ---- ONE decoder object serving a stream of different codes (Decoders/NaiveStream.v): the naive decoder's answer to
   an item is the same in every history (other codes with equal n_k_d / label / syndrome bits decoded before), every
   in-domain item of every stream gets an operator with exactly its syndrome, the max_qubits guard raises wherever the
   item stands; and a look-up table of resolved recoveries is equal to the stateless decoder on every stream when
   the key determines the answer (false for the key (n, syndrome bits): memo_by_n_and_syndrome_wrong). ---- *)
From QV Require Import Decoders.NaiveStream.
Theorem c02_naive_stream_history_free : forall mq pre it post,
  nth_error (decode_stream mq (pre ++ it :: post)) (length pre) = Some (decode_item mq it).
Proof. exact stream_history_free. Qed.
Theorem c02_naive_stream_item : forall mq pre post stabs n s e0,
  within mq n -> (length e0 = 2 * n)%nat -> syndrome_of stabs e0 = s ->
  exists r, nth_error (decode_stream mq (pre ++ (stabs, n, s) :: post)) (length pre) = Some (NOk (Some r))
            /\ (length r = 2 * n)%nat /\ syndrome_of stabs r = s.
Proof. exact stream_item_ok. Qed.
Theorem c02_naive_stream_guard : forall m pre post stabs n s, (S m < n)%nat ->
  nth_error (decode_stream (Some (S m)) (pre ++ (stabs, n, s) :: post)) (length pre) = Some NValueError.
Proof. exact stream_item_guard. Qed.
Theorem c02_lookup_table_sound : forall (K : Type) (keq : K -> K -> bool) (key : list bsf -> nat -> bsf -> K),
  (forall a b, keq a b = true -> a = b) -> key_sound K key ->
  forall items, memo_stream K keq key [] items = map plain items.
Proof. exact memo_stream_plain_empty. Qed.
Print Assumptions c02_naive_stream_history_free.
Print Assumptions c02_naive_stream_item.
Print Assumptions c02_naive_stream_guard.
Print Assumptions c02_lookup_table_sound.
