(* Props/C03.v — fault-tolerant decoding returns to the code space under measurement noise. *)
From Coq Require Import Arith List Bool Lia ZArith.
From QV Require Import Core.Bits Core.Pauli Core.Symp Core.Span App.RunOnce Decoders.Naive Decoders.Checker Decoders.TParity.
Import ListNotations.

(* P-forall (any T >= 1, any flip pattern): "the recovery has the XOR of all syndrome rows as
   syndrome" and "recovery xor total error commutes with all stabilizers" are the same statement *)
Theorem c03_target_equiv : forall stabs n errs ms r,
  rowlen (2 * n) errs -> rowlen (length stabs) ms -> length errs = length ms -> length r = 2 * n ->
  (syndrome_of stabs r = xsum (length stabs) (decoder_syndrome stabs errs ms)
   <-> zero_syndrome stabs (xorv r (total_error (2 * n) errs))).
Proof. exact target_equiv. Qed.
(* VC: the checker run on decode_ftp's recovery against the XOR of the rows the decoder was given *)
Theorem c03_checker_sound : forall stabs n r rows, recovery_ok_ftp stabs n r rows = true ->
  length r = 2 * n /\ (forall x, In x r -> x = 0%Z \/ x = 1%Z) /\
  syndrome_of stabs (bits_of r) = xsum (length stabs) rows.
Proof. intros stabs n r rows. exact (recovery_ok_sound stabs n r (xsum (length stabs) rows)). Qed.

(* P-forall: the DecodeResult construction of _rotatedtoricsmwpmdecoder.py:200-218 *)
Theorem c03_tparity_shape : forall itp T sme sx sz cx cz mx mz su cv,
  tparity_decide itp T sme sx sz cx cz mx mz = TPResult su cv ->
  length cv = 2 /\ (su = None \/ su = Some false) /\ (su = None -> cv = [false; false]) /\
  (cv <> [false; false] -> su = Some false).
Proof. exact tparity_shape. Qed.
Theorem c03_tparity_single_step : forall itp T sme sx sz cx cz mx mz, T = 1%Z \/ itp = true ->
  tparity_decide itp T sme sx sz cx cz mx mz = TPResult None [false; false].
Proof. exact tparity_single_step. Qed.
Theorem c03_tparity_failure_iff : forall itp T sme sx sz cx cz mx mz cv,
  tparity_decide itp T sme sx sz cx cz mx mz = TPResult (Some false) cv <->
  itp = false /\ T <> 1%Z /\ sme = true /\ cv = [xorb (xorb sx cx) mx; xorb (xorb sz cz) mz] /\ cv <> [false; false].
Proof. exact tparity_failure_iff. Qed.
Theorem c03_tparity_T1 : forall a b, tparity 1 a b = false.
Proof. exact tparity_T1. Qed.
Theorem c03_tparity_sym : forall T a b, tparity T a b = tparity T b a.
Proof. exact tparity_sym. Qed.

(* P-forall: _recovery / _cluster_recovery are XORs of path operators, so their syndrome is the XOR
   of the path syndromes *)
Theorem c03_path_product : forall stabs n2 ops, rowlen n2 ops ->
  syndrome_of stabs (xsum n2 ops) = xsum (length stabs) (map (syndrome_of stabs) ops).
Proof. exact product_syndrome. Qed.

(* not proved: graph construction, matching and clustering of the SMWPM decoders are not modelled *)
Definition c03_end_to_end_statement : Prop :=
  forall (decode_ftp : list bsf -> nat -> list bsf -> list Z) stabs n errs ms,
    rowlen (2 * n) errs -> rowlen (length stabs) ms -> length errs = length ms ->
    recovery_ok_ftp stabs n (decode_ftp stabs (length errs) (decoder_syndrome stabs errs ms))
      (decoder_syndrome stabs errs ms) = true.

Example c03_ex : tparity_decide false 3 true true false false false false false = TPResult (Some false) [true; false]
  /\ tparity_decide false 3 true true false false false true false = TPResult None [false; false]
  /\ tparity_decide false 3 false true false false false true false = TPError
  /\ tparity 6 5 0 = true /\ tparity 6 2 4 = false /\ tparity 6 0 3 = false /\ tparity 6 (-1) 0 = true.
Proof. vm_compute. repeat split; reflexivity. Qed.

Print Assumptions c03_target_equiv. Print Assumptions c03_checker_sound. Print Assumptions c03_tparity_shape.
Print Assumptions c03_tparity_single_step. Print Assumptions c03_tparity_failure_iff. Print Assumptions c03_tparity_T1.
Print Assumptions c03_tparity_sym. Print Assumptions c03_path_product.

(* ---- re-exported by tools/reexport.py: statements copied from `Check`, closed by `exact` ---- *)
From QV Require Import Decoders.SmwpmWalk Decoders.SmwpmPath.
Theorem c03_smwpm_path_syndrome_all : forall rows cols : Z, 3 <= rows -> 3 <= cols -> forall a b : Z * Z, smwpm_node_ok rows cols a = true -> smwpm_node_ok rows cols b = true -> LatticeArith.rotplanar_is_z_plaquette a = LatticeArith.rotplanar_is_z_plaquette b -> exists o : bsf, smwpm_path_operator rows cols a b = Some o /\ length o = (RotPlanar.rp_n rows cols + RotPlanar.rp_n rows cols)%nat /\ syndrome_of (Code.stabs (RotPlanar.rotplanar_code rows cols)) o = xorv (SampleRecovery.rp_ind rows cols a) (SampleRecovery.rp_ind rows cols b).
Proof. exact smwpm_path_syndrome_all. Qed.
Theorem c03_smwpm_path_defined_iff : forall (rows cols : Z) (a b : Z * Z), smwpm_path_operator rows cols a b <> None <-> LatticeArith.rotplanar_is_z_plaquette a = LatticeArith.rotplanar_is_z_plaquette b.
Proof. exact smwpm_path_defined_iff. Qed.
Theorem c03_smwpm_recovery_syndrome_all : forall rows cols : Z, 3 <= rows -> 3 <= cols -> forall clusters : list (list tidx), Forall (smwpm_cluster_ok rows cols) clusters -> Forall (fun cl : list tidx => smwpm_cluster_split cl <> None) clusters -> exists r : bsf, smwpm_recovery rows cols clusters = Some r /\ length r = (RotPlanar.rp_n rows cols + RotPlanar.rp_n rows cols)%nat /\ r = xsum (RotPlanar.rp_n rows cols + RotPlanar.rp_n rows cols) (map (smwpm_pathop_tot rows cols) (smwpm_all_pairs clusters)) /\ syndrome_of (Code.stabs (RotPlanar.rotplanar_code rows cols)) r = xsum (length (RotPlanar.rp_plaquette_indices rows cols)) (map (smwpm_pair_ind rows cols) (smwpm_all_pairs clusters)).
Proof. exact smwpm_recovery_syndrome_all. Qed.
Theorem c03_smwpm_recovery_even_all : forall rows cols : Z, 3 <= rows -> 3 <= cols -> forall clusters : list (list tidx), Forall (smwpm_cluster_ok rows cols) clusters -> Forall smwpm_cluster_even clusters -> exists r : bsf, smwpm_recovery rows cols clusters = Some r /\ length r = (RotPlanar.rp_n rows cols + RotPlanar.rp_n rows cols)%nat /\ syndrome_of (Code.stabs (RotPlanar.rotplanar_code rows cols)) r = map (fun q : Z * Z => PlanarAll.xsumb (RotPlanar.rc_idx_eqb q) (map smwpm_xy (concat clusters))) (RotPlanar.rp_plaquette_indices rows cols).
Proof. exact smwpm_recovery_even_all. Qed.
Theorem c03_smwpm_walk_fuel_stable : forall (fuel extra : nat) (n e : Z * Z), smwpm_dist n e <= Z.of_nat fuel -> smwpm_walk (fuel + extra) n e = smwpm_walk fuel n e.
Proof. exact smwpm_walk_fuel_stable. Qed.
Theorem c03_smwpm_walk_last : forall (fuel : nat) (n e : Z * Z), smwpm_dist n e <= Z.of_nat fuel -> last (smwpm_walk fuel n e) n = e.
Proof. exact smwpm_walk_last. Qed.
Print Assumptions c03_smwpm_path_syndrome_all.
Print Assumptions c03_smwpm_path_defined_iff.
Print Assumptions c03_smwpm_recovery_syndrome_all.
Print Assumptions c03_smwpm_recovery_even_all.
Print Assumptions c03_smwpm_walk_fuel_stable.
Print Assumptions c03_smwpm_walk_last.

(* ---- re-exported by tools/reexport.py: statements copied from `Check`, closed by `exact` ---- *)
From QV Require Import Decoders.SmwpmToric.
Theorem c03_smwpm_toric_path_syndrome_all : forall rows cols : Z, 2 <= rows -> rows mod 2 = 0 -> 2 <= cols -> cols mod 2 = 0 -> forall a b : Z * Z, LatticeArith.rottoric_is_z_plaquette a = LatticeArith.rottoric_is_z_plaquette b -> exists o : bsf, smwpm_toric_path_operator rows cols a b = Some o /\ length o = (RotToric.rt_n rows cols + RotToric.rt_n rows cols)%nat /\ syndrome_of (Code.stabs (RotToric.rottoric_code rows cols)) o = xorv (smwpm_toric_ind rows cols a) (smwpm_toric_ind rows cols b).
Proof. exact smwpm_toric_path_syndrome_all. Qed.
Theorem c03_smwpm_toric_recovery_syndrome_all : forall rows cols : Z, 2 <= rows -> rows mod 2 = 0 -> 2 <= cols -> cols mod 2 = 0 -> forall clusters : list (list tidx), Forall (fun cl : list tidx => smwpm_toric_cluster_split cl <> None) clusters -> exists r : bsf, smwpm_toric_recovery rows cols clusters = Some r /\ length r = (RotToric.rt_n rows cols + RotToric.rt_n rows cols)%nat /\ r = xsum (RotToric.rt_n rows cols + RotToric.rt_n rows cols) (map (smwpm_toric_pathop_tot rows cols) (smwpm_toric_all_pairs clusters)) /\ syndrome_of (Code.stabs (RotToric.rottoric_code rows cols)) r = xsum (length (RotToric.rt_plaquette_indices rows cols)) (map (smwpm_toric_pair_ind rows cols) (smwpm_toric_all_pairs clusters)).
Proof. exact smwpm_toric_recovery_syndrome_all. Qed.
Theorem c03_smwpm_toric_recovery_even_all : forall rows cols : Z, 2 <= rows -> rows mod 2 = 0 -> 2 <= cols -> cols mod 2 = 0 -> forall clusters : list (list tidx), Forall smwpm_toric_cluster_even clusters -> exists r : bsf, smwpm_toric_recovery rows cols clusters = Some r /\ length r = (RotToric.rt_n rows cols + RotToric.rt_n rows cols)%nat /\ syndrome_of (Code.stabs (RotToric.rottoric_code rows cols)) r = map (fun q : Z * Z => PlanarAll.xsumb (fun a : Z * Z => RotPlanar.rc_idx_eqb q (LatticeArith.rottoric_mod_index rows cols a)) (map smwpm_xy (concat clusters))) (RotToric.rt_plaquette_indices rows cols).
Proof. exact smwpm_toric_recovery_even_all. Qed.
Theorem c03_smwpm_toric_recovery_defined_iff : forall rows cols : Z, 2 <= rows -> rows mod 2 = 0 -> 2 <= cols -> cols mod 2 = 0 -> forall clusters : list (list tidx), smwpm_toric_recovery rows cols clusters <> None <-> Forall (fun cl : list tidx => smwpm_toric_cluster_split cl <> None) clusters.
Proof. exact smwpm_toric_recovery_defined_iff. Qed.
Print Assumptions c03_smwpm_toric_path_syndrome_all.
Print Assumptions c03_smwpm_toric_recovery_syndrome_all.
Print Assumptions c03_smwpm_toric_recovery_even_all.
Print Assumptions c03_smwpm_toric_recovery_defined_iff.
