(* Props/C18.v — the file error model replays the recorded errors faithfully.
   Only statements closed by `exact`; model and lemmas live in ErrorModels/FileModel.v.
   [init]/[generate]/[calls]/[scenario] are the extracted machine (file position + push-back buffer). *)
From Coq Require Import Arith List Bool Lia ZArith NArith Permutation.
From QV Require Import Core.Bits Core.Pack ErrorModels.FileModel.
Import ListNotations.

(* ---- push-back buffer = "the object stays at the head of the stream" ------------------------- *)
Theorem c18_pushback_pull : forall o s, pull (push o s) = (Ok o, s).
Proof. exact pull_push. Qed.
Theorem c18_pushback_stream : forall s, read (flatten s) = (fst (pull s), flatten (snd (pull s))).
Proof. exact pull_flatten. Qed.
Theorem c18_pushback_init : forall file start clash, init_s file start clash = rmap view (init file start clash).
Proof. exact init_sim. Qed.
Theorem c18_pushback_generate : forall st n p,
  generate_s (view st) n p = (fst (generate st n p), view (snd (generate st n p))).
Proof. exact generate_sim. Qed.
Theorem c18_pushback : forall file start clash cs, scenario file start clash cs = scenario_s file start clash cs.
Proof. exact scenario_sim. Qed.

(* ---- replay: order and completeness, for every layout, offset and call sequence ------------- *)
(* a body line written as json.dumps(pack(v)) decodes to v *)
Theorem c18_unpack_packed : forall v : bsf, unpack_obj (OVal (packed_value v)) = Ok v.
Proof. exact unpack_packed. Qed.
(* master statement: every call sequence is answered as [spec_calls] says on the recorded errors from s on *)
Theorem c18_replay_calls : forall f hd es clash s p lv dv ex,
  wf_file f hd es -> header_fields hd = Ok (p, lv, dv, ex) -> install clash ex = Ok tt -> s <= length es ->
  exists st, init (Some f) (StInt (Z.of_nat s)) clash = Ok st
             /\ prob st = p /\ label st = lv /\ dist st = dv /\ extras st = ex
             /\ forall cs, calls clash st cs = spec_calls clash p lv dv ex (skipn s es) cs.
Proof. exact replay_calls. Qed.
Theorem c18_replay : forall f hd es clash s p lv dv ex n pa,
  wf_file f hd es -> header_fields hd = Ok (p, lv, dv, ex) -> install clash ex = Ok tt -> s <= length es ->
  Forall (fun e => length e = 2 * n) es -> p_matches pa p = true ->
  exists st, init (Some f) (StInt (Z.of_nat s)) clash = Ok st /\
    forall i, gens clash st n pa i = map OBits (firstn i (skipn s es)) ++ repeat (OErr EOFError) (i - (length es - s)).
Proof. exact replay. Qed.
Theorem c18_replay_nth : forall f hd es clash s p lv dv ex n pa i,
  wf_file f hd es -> header_fields hd = Ok (p, lv, dv, ex) -> install clash ex = Ok tt ->
  Forall (fun e => length e = 2 * n) es -> p_matches pa p = true -> s + i < length es ->
  exists st, init (Some f) (StInt (Z.of_nat s)) clash = Ok st /\
    nth i (gens clash st n pa (S i)) OOod = OBits (nth (s + i) es []).
Proof. exact replay_nth. Qed.
(* comment/blank placement and grouping of header keys into lines are unobservable *)
Theorem c18_layout_independent : forall f f' hd es clash s cs, wf_file f hd es -> wf_file f' hd es ->
  scenario (Some f) (StInt s) clash cs = scenario (Some f') (StInt s) clash cs.
Proof. exact layout_independent. Qed.
(* so is the order of the header keys *)
Theorem c18_order_independent : forall f f' hd hd' es clash s st,
  wf_file f hd es -> wf_file f' hd' es -> Permutation hd hd' -> init (Some f) (StInt s) clash = Ok st ->
  exists st', init (Some f') (StInt s) clash = Ok st' /\ prob st' = prob st /\ label st' = label st /\ dist st' = dist st
              /\ Permutation (extras st) (extras st') /\ forall cs, calls clash st' cs = calls clash st cs.
Proof. exact order_independent. Qed.

(* ---- end of file --------------------------------------------------------------------------- *)
Theorem c18_eof : forall f hd es clash s p lv dv ex n pa k,
  wf_file f hd es -> header_fields hd = Ok (p, lv, dv, ex) -> install clash ex = Ok tt -> s <= length es ->
  Forall (fun e => length e = 2 * n) es -> p_matches pa p = true ->
  exists st, init (Some f) (StInt (Z.of_nat s)) clash = Ok st /\
    gens clash st n pa (length es - s + k) = map OBits (skipn s es) ++ repeat (OErr EOFError) k.
Proof. exact eof_calls. Qed.
Theorem c18_eof_init : forall f hd es clash s p lv dv ex,
  wf_file f hd es -> header_fields hd = Ok (p, lv, dv, ex) -> length es < s ->
  init (Some f) (StInt (Z.of_nat s)) clash = Err EOFError.
Proof. exact eof_init. Qed.
(* a file with a header and no error at all (or an empty file, hs = []) cannot be opened *)
Theorem c18_eof_header_only : forall hs clash s, forallb is_hdr_line hs = true -> NoDup (keys (hkv hs)) -> (0 <= s)%Z ->
  init (Some hs) (StInt s) clash = Err EOFError.
Proof. exact eof_header_only. Qed.
Theorem c18_eof_sticky : forall (st : mstate reader) n p,
  buf (rd st) = [] -> bodies (rest (rd st)) = Some [] -> p_matches p (prob st) = true ->
  exists st', generate st n p = (OErr EOFError, st') /\ buf (rd st') = [] /\ rest (rd st') = [].
Proof. exact eof_sticky. Qed.

(* ---- header values ---------------------------------------------------------------------------- *)
Theorem c18_header : forall f hd es clash s st, wf_file f hd es -> init (Some f) (StInt s) clash = Ok st ->
  (exists pv, lookup k_probability hd = Some pv /\ float_of pv = Ok (prob st))
  /\ lookup k_label hd = Some (label st)
  /\ dist st = match lookup k_dist hd with Some d => d | None => JNull end
  /\ extras st = drop_key k_dist (drop_key k_label (drop_key k_probability hd))
  /\ (forall k, k <> k_probability -> k <> k_label -> k <> k_dist -> lookup k (extras st) = lookup k hd)
  /\ Forall (fun k => attr_re k = true /\ mem k clash = false) (keys (extras st)).
Proof. exact header_exposed. Qed.
Theorem c18_header_lookup : forall h, NoDup (keys h) -> header_fields h = header_fields_l h.
Proof. exact header_fields_lookup. Qed.
Theorem c18_header_order : forall k d d', Permutation d d' -> NoDup (keys d) -> lookup k d = lookup k d'.
Proof. exact lookup_perm. Qed.
Theorem c18_header_fields_order : forall h h' p lv dv ex, Permutation h h' -> NoDup (keys h) ->
  header_fields h = Ok (p, lv, dv, ex) -> exists ex', header_fields h' = Ok (p, lv, dv, ex') /\ Permutation ex ex'.
Proof. exact header_fields_perm. Qed.

(* ---- refusals ---------------------------------------------------------------------------------- *)
Theorem c18_refuse_probability : forall (st : mstate reader) n p, p_matches p (prob st) = false ->
  generate st n p = (OErr ValueError, st).
Proof. exact refuse_probability. Qed.
Theorem c18_refuse_probability_dist : forall hp dv p, p_matches p hp = false -> dist_answer hp dv p = OErr ValueError.
Proof. exact refuse_probability_dist. Qed.
Theorem c18_refuse_length : forall (st : mstate reader) n p o r' bits,
  p_matches p (prob st) = true -> pull (rd st) = (Ok o, r') -> unpack_obj o = Ok bits -> length bits <> 2 * n ->
  generate st n p = (OErr ValueError, with_rd st r').
Proof. exact refuse_length. Qed.
Theorem c18_refuse_no_distribution : forall hp dv p, truthy dv = false -> exists e, dist_answer hp dv p = OErr e.
Proof. exact dist_missing. Qed.

(* ---- malformed files ---------------------------------------------------------------------------- *)
Theorem c18_malformed_repeated_key : forall hs kv t k clash s, forallb is_hdr_line hs = true -> NoDup (keys (hkv hs)) ->
  In k (keys kv) -> In k (keys (hkv hs)) -> (0 <= s)%Z -> init (Some (hs ++ Hdr kv :: t)) (StInt s) clash = Err ValueError.
Proof. exact malformed_repeated. Qed.
Theorem c18_malformed_badjson_header : forall hs t clash s, forallb is_hdr_line hs = true -> NoDup (keys (hkv hs)) ->
  (0 <= s)%Z -> init (Some (hs ++ BadJson :: t)) (StInt s) clash = Err JSONDecodeError.
Proof. exact malformed_badjson_header. Qed.
Theorem c18_malformed_missing_probability : forall f hd es clash s, wf_file f hd es -> lookup k_probability hd = None ->
  (0 <= s)%Z -> init (Some f) (StInt s) clash = Err ValueError.
Proof. exact malformed_missing_probability. Qed.
Theorem c18_malformed_missing_label : forall f hd es clash s pv p, wf_file f hd es -> lookup k_probability hd = Some pv ->
  float_of pv = Ok p -> lookup k_label hd = None -> (0 <= s)%Z -> init (Some f) (StInt s) clash = Err ValueError.
Proof. exact malformed_missing_label. Qed.
Theorem c18_malformed_probability_value : forall f hd es clash s pv e, wf_file f hd es -> lookup k_probability hd = Some pv ->
  float_of pv = Err e -> (0 <= s)%Z -> init (Some f) (StInt s) clash = Err e.
Proof. exact malformed_bad_probability. Qed.
Theorem c18_malformed_extra_key : forall f hd es clash s p lv dv ex, wf_file f hd es ->
  header_fields hd = Ok (p, lv, dv, ex) -> s <= length es -> Forall (fun k => all_ascii k = true) (keys ex) ->
  Exists (fun k => attr_re k = false \/ mem k clash = true) (keys ex) ->
  init (Some f) (StInt (Z.of_nat s)) clash = Err ValueError.
Proof. exact malformed_extra. Qed.
Theorem c18_malformed_start : forall file clash z, (z < 0)%Z -> file <> None -> init file (StInt z) clash = Err ValueError.
Proof. exact malformed_start. Qed.
(* header dict after the body began, bad JSON in the body, anything unpack rejects: raised by the generate reaching it *)
Theorem c18_malformed_body : forall (st : mstate reader) n p o r', p_matches p (prob st) = true -> pull (rd st) = (o, r') ->
  (o = Err JSONDecodeError -> generate st n p = (OErr JSONDecodeError, with_rd st r'))
  /\ (forall kv, o = Ok (ODict kv) -> exists e, generate st n p = (OErr e, with_rd st r') /\ (e = ValueError \/ e = TypeError))
  /\ (forall ob e, o = Ok ob -> unpack_obj ob = Err e -> generate st n p = (OErr e, with_rd st r')).
Proof. exact generate_rejects. Qed.
(* the only objects unpack accepts are two-element lists [hex string; int | null | bool] *)
Theorem c18_malformed_packed : forall o e, unpack_obj o = Ok e ->
  exists s lenv ds, o = OVal (JList [JStr s; lenv]) /\ fromhex s = Some ds
                    /\ slice lenv (flat_map nibble_bits ds) = Ok e
                    /\ (lenv = JNull \/ (exists b, lenv = JBool b) \/ exists z, lenv = JInt z).
Proof. exact unpack_ok_shape. Qed.
(* generate never invents an error: a returned array is the unpacking of the object pulled, of length 2n *)
Theorem c18_generate_cases : forall (st : mstate reader) n p, let (o, st') := generate st n p in
  match o with
  | OBits e => p_matches p (prob st) = true /\ length e = 2 * n /\ exists ob, pull (rd st) = (Ok ob, rd st') /\ unpack_obj ob = Ok e
  | OErr _ => True
  | OOod => True
  | _ => False
  end.
Proof. exact generate_cases. Qed.

(* ---- attribute names: documented promise vs regex --------------------------------------------- *)
(* NOT provable (refuted below): every accepted extra key is an identifier not starting with '_' *)
Definition c18_attr_names_statement : Prop := attr_names_statement.
Theorem c18_attr_names_partial : forall k, attr_re k = true ->
  is_ident k = true \/ exists k', k = k' ++ [10%N] /\ is_ident k' = true.
Proof. exact attr_names_partial. Qed.
Theorem c18_attr_names_counterexample : ~ c18_attr_names_statement.
Proof. exact attr_names_counterexample. Qed.

(* ---- non-vacuity ----------------------------------------------------------------------------------- *)
From Coq Require String.
Import String.StringSyntax.
Local Open Scope string_scope.
Example c18_ex_wf : wf_file ex_file ex_hdr ex_errors /\ wf_file ex_file2 ex_hdr ex_errors.
Proof. exact (conj ex_wf ex_wf2). Qed.
Example c18_ex_header : header_fields ex_hdr = Ok (NFin 2 5, JStr (sv "Biased (bias=10)"), ex_dist, [(sv "bias", JInt 10)])
  /\ install ex_clash [(sv "bias", JInt 10)] = Ok tt.
Proof. split; reflexivity. Qed.
Example c18_ex_scenario : scenario (Some ex_file) (StInt 1) ex_clash ex_calls = ex_trace
  /\ scenario (Some ex_file2) (StInt 1) ex_clash ex_calls = ex_trace.
Proof. exact ex_scenario. Qed.
Example c18_ex_malformed :
  fst (scenario (Some [Hdr [(sv "label", JStr (sv "L"))]; Body (packed_value e0)]) (StInt 0) ex_clash []) = Err ValueError
  /\ fst (scenario (Some [Hdr ex_hdr; Hdr [(sv "bias", JInt 3)]; Body (packed_value e0)]) (StInt 0) ex_clash []) = Err ValueError
  /\ fst (scenario (Some [Hdr ex_hdr; Hdr [(sv "_x", JInt 3)]; Body (packed_value e0)]) (StInt 0) ex_clash []) = Err ValueError
  /\ fst (scenario (Some [Hdr ex_hdr]) (StInt 0) ex_clash []) = Err EOFError
  /\ fst (scenario (Some ex_file) (StInt 5) ex_clash []) = Err EOFError.
Proof. repeat split; reflexivity. Qed.

Print Assumptions c18_pushback_pull. Print Assumptions c18_pushback_stream. Print Assumptions c18_pushback_init.
Print Assumptions c18_pushback_generate. Print Assumptions c18_pushback.
Print Assumptions c18_unpack_packed. Print Assumptions c18_replay_calls. Print Assumptions c18_replay.
Print Assumptions c18_replay_nth. Print Assumptions c18_layout_independent. Print Assumptions c18_order_independent.
Print Assumptions c18_eof. Print Assumptions c18_eof_init. Print Assumptions c18_eof_header_only. Print Assumptions c18_eof_sticky.
Print Assumptions c18_header. Print Assumptions c18_header_lookup. Print Assumptions c18_header_order.
Print Assumptions c18_header_fields_order.
Print Assumptions c18_refuse_probability. Print Assumptions c18_refuse_probability_dist. Print Assumptions c18_refuse_length.
Print Assumptions c18_refuse_no_distribution.
Print Assumptions c18_malformed_repeated_key. Print Assumptions c18_malformed_badjson_header.
Print Assumptions c18_malformed_missing_probability. Print Assumptions c18_malformed_missing_label.
Print Assumptions c18_malformed_probability_value. Print Assumptions c18_malformed_extra_key. Print Assumptions c18_malformed_start.
Print Assumptions c18_malformed_body. Print Assumptions c18_malformed_packed. Print Assumptions c18_generate_cases.
Print Assumptions c18_attr_names_partial. Print Assumptions c18_attr_names_counterexample.

(* ---- re-exported by tools/reexport.py: statements copied from `Check`, closed by `exact` ---- *)
From QV Require Import ErrorModels.FileSession.
Theorem c18_session_noninterference : forall (R : Type) (rpull : R -> res obj * R) (clash : list str) (os : list op) (w : world R) (j : nat) (s : mstate R), nth_error (models w) j = Some s -> outs_of j (fst (wrun R rpull clash w os)) = run_calls R rpull clash s (calls_of j os).
Proof. exact session_noninterference. Qed.
Theorem c18_kept_cell_stable : forall (R : Type) (rpull : R -> res obj * R) (clash : list str) (os : list op) (w : world R) (k : nat), k < length (heap w) -> existsb (scribbles k) os = false -> nth_error (heap (snd (wrun R rpull clash w os))) k = nth_error (heap w) k.
Proof. exact kept_cell_stable. Qed.
Theorem c18_served_cell : forall (R : Type) (rpull : R -> res obj * R) (clash : list str) (w : world R) (j : nat) (c : call) (e : bsf) (w' : world R), wstep R rpull clash w (Call j c) = (Some (j, OBits e), w') -> nth_error (heap w') (length (heap w)) = Some e /\ length (heap w') = S (length (heap w)).
Proof. exact served_cell. Qed.
Theorem c18_scribbled_cell_stable : forall (R : Type) (rpull : R -> res obj * R) (clash : list str) (w : world R) (k : nat) (v : bsf) (os : list op), k < length (heap w) -> existsb (scribbles k) os = false -> nth_error (heap (snd (wrun R rpull clash w (Scribble k v :: os)))) k = Some v.
Proof. exact scribbled_cell_stable. Qed.
Theorem c18_session_scenario : forall (clash : list str) (specs : list (option (list line) * start_arg)) (ss : list bstate) (hp : list bsf) (os : list op) (j : nat) (f : option (list line)) (sa : start_arg), ok_states (opened clash specs) = Some ss -> nth_error specs j = Some (f, sa) -> outs_of j (fst (wrun reader pull clash {| models := ss; heap := hp |} os)) = snd (scenario f sa clash (calls_of j os)).
Proof. exact session_scenario. Qed.
Print Assumptions c18_session_noninterference.
Print Assumptions c18_kept_cell_stable.
Print Assumptions c18_served_cell.
Print Assumptions c18_scribbled_cell_stable.
Print Assumptions c18_session_scenario.

(* ---- re-exported by tools/reexport.py: statements copied from `Check`, closed by `exact` ---- *)
From QV Require Import ErrorModels.FilePaths.
Theorem c18_path_noninterference : forall (clash : list str) (os : list pop) (w : pworld) (j : nat) (s : bstate), nth_error (slots w) j = Some (Some s) -> existsb (drops j) os = false -> pouts_of j (fst (prun clash w os)) = run_calls reader pull clash s (pcalls_of j os).
Proof. exact path_noninterference. Qed.
Theorem c18_failed_open_silent : forall (clash : list str) (os : list pop) (w : pworld) (j : nat), nth_error (slots w) j = Some None -> pouts_of j (fst (prun clash w os)) = [].
Proof. exact failed_open_silent. Qed.
Theorem c18_open_sees_current : forall (clash : list str) (w : pworld) (p : nat) (sa : start_arg), fst (pstep clash w (POpen p sa)) = Some (EOpen (length (slots w)) (fst (scenario (file_at p (pfs w)) sa clash []))) /\ nth_error (slots (snd (pstep clash w (POpen p sa)))) (length (slots w)) = Some (slot_of (init (file_at p (pfs w)) sa clash)).
Proof. exact open_sees_current. Qed.
Theorem c18_path_session_scenario : forall (clash : list str) (w : pworld) (p : nat) (sa : start_arg) (post : list pop), let j := length (slots w) in let f := file_at p (pfs w) in existsb (drops j) post = false -> exists evs : list pevent, fst (prun clash w (POpen p sa :: post)) = EOpen j (fst (scenario f sa clash (pcalls_of j post))) :: evs /\ pouts_of j evs = snd (scenario f sa clash (pcalls_of j post)).
Proof. exact path_session_scenario. Qed.
Theorem c18_file_at_last_write : forall (pre : list pop) (p : nat) (f : option (list line)) (post : list pop) (fs : fsys), existsb (writes_to p) post = false -> file_at p (fs_after fs (pre ++ PWrite p f :: post)) = f.
Proof. exact file_at_last_write. Qed.
Theorem c18_reopen_after_rewrite : forall (clash : list str) (w : pworld) (pre : list pop) (p : nat) (f' : option (list line)) (mid : list pop) (sa : start_arg) (post : list pop), existsb (writes_to p) mid = false -> let w1 := snd (prun clash w (pre ++ PWrite p f' :: mid)) in let j := length (slots w1) in existsb (drops j) post = false -> exists evs0 evs : list pevent, fst (prun clash w (pre ++ PWrite p f' :: mid ++ POpen p sa :: post)) = evs0 ++ EOpen j (fst (scenario f' sa clash (pcalls_of j post))) :: evs /\ pouts_of j evs = snd (scenario f' sa clash (pcalls_of j post)).
Proof. exact reopen_after_rewrite. Qed.
Theorem c18_same_contents_same_answers : forall (clash : list str) (w : pworld) (p q : nat) (sa : start_arg) (post : list pop), file_at p (pfs w) = file_at q (pfs w) -> fst (prun clash w (POpen p sa :: post)) = fst (prun clash w (POpen q sa :: post)).
Proof. exact same_contents_same_answers. Qed.
Print Assumptions c18_path_noninterference.
Print Assumptions c18_failed_open_silent.
Print Assumptions c18_open_sees_current.
Print Assumptions c18_path_session_scenario.
Print Assumptions c18_file_at_last_write.
Print Assumptions c18_reopen_after_rewrite.
Print Assumptions c18_same_contents_same_answers.

(* ---- re-exported by tools/reexport.py: statements copied from `Check`, closed by `exact` ---- *)
From QV Require Import ErrorModels.FileRecords.
Theorem c18_unpack_prefix : forall (o : obj) (e : bsf), unpack_obj o = Ok e -> exists (s : str) (lenv : jvalue) (ds : list nibble), o = OVal (JList [JStr s; lenv]) /\ fromhex s = Some ds /\ length e <= 4 * length ds /\ e = firstn (length e) (payload ds).
Proof. exact unpack_prefix. Qed.
Theorem c18_served_from_payload : forall (st : bstate) (n : nat) (p : parg) (e : bsf) (st' : bstate), generate st n p = (OBits e, st') -> exists (s : str) (lenv : jvalue) (ds : list nibble), pull (rd st) = (Ok (OVal (JList [JStr s; lenv])), rd st') /\ fromhex s = Some ds /\ 2 * n <= 4 * length ds /\ e = firstn (2 * n) (payload ds).
Proof. exact served_from_payload. Qed.
Theorem c18_short_payload_not_served : forall (st : bstate) (n : nat) (p : parg) (s : str) (lenv : jvalue) (ds : list nibble) (r' : reader), pull (rd st) = (Ok (OVal (JList [JStr s; lenv])), r') -> fromhex s = Some ds -> 4 * length ds < 2 * n -> forall (e : bsf) (st' : bstate), generate st n p <> (OBits e, st').
Proof. exact short_payload_not_served. Qed.
Theorem c18_short_payload_refused : forall (st : bstate) (n : nat) (p : parg) (s : str) (z : Z) (ds : list nibble) (r' : reader), p_matches p (prob st) = true -> pull (rd st) = (Ok (OVal (JList [JStr s; JInt z])), r') -> fromhex s = Some ds -> 4 * length ds < 2 * n -> generate st n p = (OErr ValueError, with_rd st r').
Proof. exact short_payload_refused. Qed.
Theorem c18_record_decision : forall (st : bstate) (n : nat) (p : parg) (s : str) (z : Z) (ds : list nibble) (r' : reader), p_matches p (prob st) = true -> pull (rd st) = (Ok (OVal (JList [JStr s; JInt z])), r') -> fromhex s = Some ds -> (0 <= z)%Z -> generate st n p = (if Nat.min (Z.to_nat z) (4 * length ds) =? 2 * n then OBits (firstn (2 * n) (payload ds)) else OErr ValueError, with_rd st r').
Proof. exact record_decision. Qed.
Theorem c18_stated_length_refused : forall (st : bstate) (n : nat) (p : parg) (s : str) (z : Z) (ds : list nibble) (r' : reader), p_matches p (prob st) = true -> pull (rd st) = (Ok (OVal (JList [JStr s; JInt z])), r') -> fromhex s = Some ds -> (0 <= z)%Z -> Z.to_nat z <> 2 * n -> Z.to_nat z <= 4 * length ds -> generate st n p = (OErr ValueError, with_rd st r').
Proof. exact stated_length_refused. Qed.
Theorem c18_consistent_record_served : forall (st : bstate) (n : nat) (p : parg) (s : str) (ds : list nibble) (r' : reader), p_matches p (prob st) = true -> pull (rd st) = (Ok (OVal (JList [JStr s; JInt (Z.of_nat (2 * n))])), r') -> fromhex s = Some ds -> 2 * n <= 4 * length ds -> generate st n p = (OBits (firstn (2 * n) (payload ds)), with_rd st r').
Proof. exact consistent_record_served. Qed.
Print Assumptions c18_unpack_prefix.
Print Assumptions c18_served_from_payload.
Print Assumptions c18_short_payload_not_served.
Print Assumptions c18_short_payload_refused.
Print Assumptions c18_record_decision.
Print Assumptions c18_stated_length_refused.
Print Assumptions c18_consistent_record_served.
