(* Props/C01.v — a run's verdict is exactly what the generated error and decoding imply. *)
From Coq Require Import Arith List Bool Lia ZArith QArith.
From QV Require Import Core.Bits Core.Pauli Core.Symp Core.Code Core.CodeP App.RunOnce App.RunOnceP App.RunHistory.
Import ListNotations.
Open Scope nat_scope.

(* ideal mode: the decoder sees exactly the syndrome of the generated error *)
Theorem c01_syndrome_ideal : forall stabs e,
  decoder_syndrome stabs [e] [zeros (length stabs)] = [syndrome_of stabs e].
Proof. exact syndrome_ideal. Qed.

(* fault-tolerant mode: row t = m[(t-1) mod T] xor s[t] xor m[t] (wrap from the last step to the first) *)
Theorem c01_syndrome_ftp : forall stabs errs ms t, length errs = length ms -> t < length errs ->
  nth t (decoder_syndrome stabs errs ms) [] =
  xorv (xorv (nth ((t + length ms - 1) mod length ms) ms []) (syndrome_of stabs (nth t errs []))) (nth t ms []).
Proof. exact syndrome_ftp_nth. Qed.

(* flip locality: toggling the flips of step t0 changes the m[t-1] term of row (t0+1) mod T and the m[t] term of
   row t0; all other rows are untouched; with one time step the two coincide and cancel *)
Theorem c01_flip_locality : forall stabs errs ms t0 d t,
  length errs = length ms -> t0 < length ms -> t < length ms ->
  nth t (decoder_syndrome stabs errs (upd_nth t0 (fun m => xorv m d) ms)) [] =
  xorv (xorv (flip_if ((t + length ms - 1) mod length ms =? t0) d (nth ((t + length ms - 1) mod length ms) ms []))
             (syndrome_of stabs (nth t errs [])))
       (flip_if (t =? t0) d (nth t ms [])).
Proof. exact flip_locality. Qed.
Theorem c01_flip_untouched : forall stabs errs ms t0 d t,
  length errs = length ms -> t0 < length ms -> t < length ms ->
  t <> t0 -> (t + length ms - 1) mod length ms <> t0 ->
  nth t (decoder_syndrome stabs errs (upd_nth t0 (fun m => xorv m d) ms)) [] = nth t (decoder_syndrome stabs errs ms) [].
Proof. exact flip_untouched. Qed.
Theorem c01_flip_single_step : forall stabs e m d, length m = length d -> length (syndrome_of stabs e) = length d ->
  decoder_syndrome stabs [e] [xorv m d] = decoder_syndrome stabs [e] [m].
Proof. exact flip_single_step. Qed.

(* each flip enters exactly two rows: the XOR of all rows is the syndrome of the total error *)
Theorem c01_ftp_parity : forall stabs n2 errs ms,
  rowlen n2 errs -> rowlen (length stabs) ms -> length errs = length ms ->
  xsum (length stabs) (decoder_syndrome stabs errs ms) = syndrome_of stabs (total_error n2 errs).
Proof. exact ftp_parity_total. Qed.

(* success is true exactly when recovery xor error commutes with every stabilizer and logical;
   logical_commutations are its commutations with the logicals (Xs then Zs) *)
Theorem c01_verdict : forall c error w r lc cv d,
  resolve c error w (DR None lc (Some r) cv) = Some d ->
  (d_success d = true <-> commutes_all (stabs c) (xorv r error) /\ commutes_all (logicals c) (xorv r error)) /\
  (lc = None -> d_lc d = Some (map b2z (map (fun l => bsp (xorv r error) l) (logicals c)))) /\
  d_cv d = cv /\ d_weight d = w.
Proof. exact verdict. Qed.
(* the same on Pauli strings, with the independent letter-level commutation: success iff the product
   recovery * error commutes with every stabilizer and logical; logical_commutations are its commutations *)
Theorem c01_verdict_pauli : forall n ss xs zs (r e : pstr) w lc cv d,
  uniform n ss -> uniform n xs -> uniform n zs -> length r = n -> length e = n ->
  resolve (code_of ss xs zs) (to_bsf e) w (DR None lc (Some (to_bsf r)) cv) = Some d ->
  (d_success d = true <->
     (forall s, In s ss -> anticommutes (pmul r e) s = false) /\
     (forall l, In l (xs ++ zs) -> anticommutes (pmul r e) l = false)) /\
  (lc = None -> d_lc d = Some (map b2z (map (fun l => anticommutes (pmul r e) l) (xs ++ zs)))).
Proof. exact verdict_pauli. Qed.
Theorem c01_bare_recovery : forall c error w r,
  resolve c error w (Bare (Some r)) = resolve c error w (DR None None (Some r) None).
Proof. exact verdict_bare. Qed.

(* values supplied by the decoder pass through unchanged *)
Theorem c01_passthrough : forall c error w s lc r cv d,
  resolve c error w (DR s lc r cv) = Some d ->
  (forall b, s = Some b -> d_success d = b) /\ (forall l, lc = Some l -> d_lc d = Some l) /\ d_cv d = cv /\
  (r = None -> d_lc d = lc) /\ d_weight d = w.
Proof. exact passthrough. Qed.
Theorem c01_error_iff : forall c error w a, resolve c error w a = None <->
  a = Bare None \/ exists lc cv, a = DR None lc None cv.
Proof. exact resolve_error_iff. Qed.

(* error_weight is the sum over steps of the step-error weights *)
Theorem c01_weight : forall errs, bsf_wt_rows errs = fold_right Nat.add 0 (map bsf_wt errs).
Proof. exact weight_is_sum. Qed.

(* invalid parameters are rejected by a function of the parameters alone *)
Theorem c01_reject : forall T p q,
  validate_once_ftp T p q = None <->
  (1 <= T)%Z /\ in_unit p = true /\ (q = None \/ exists q', q = Some q' /\ in_unit q' = true).
Proof. exact reject_once_ftp. Qed.

(* histories of runs with a decoder that owns its answers (look-up table keyed by the syndrome, the stored answer
   handed back whenever the syndrome repeats): every run returns what this run's errors and the decoder's policy for
   this run's syndrome imply; no run depends on the runs before it *)
Theorem c01_history_pointwise : forall c policy h t, sound policy t ->
  run_history c policy t h = map (fun g => once c g (policy (syn_of c g))) h.
Proof. exact history_pointwise. Qed.
Theorem c01_history_independent : forall c policy h1 h2 g i, nth_error h1 i = Some g ->
  forall j, nth_error h2 j = Some g ->
  nth_error (run_history c policy [] h1) i = nth_error (run_history c policy [] h2) j.
Proof. exact history_nth. Qed.
(* step errors multiplied by operators commuting with the stabilizers hit the same table row ... *)
Theorem c01_same_table_row : forall ss errs errs' ms, Forall2 (shifted ss) errs errs' ->
  decoder_syndrome ss errs ms = decoder_syndrome ss errs' ms.
Proof. exact same_table_row. Qed.
(* ... but the verdict follows this run's error: the logical commutations move by those of the multiplier, and a
   run that succeeded must fail once the error is multiplied by something anticommuting with a logical *)
Theorem c01_lc_shift : forall c e l w w' r cv d d', length r = length e -> length e = length l ->
  resolve c e w (DR None None (Some r) cv) = Some d ->
  resolve c (xorv e l) w' (DR None None (Some r) cv) = Some d' ->
  d_lc d = Some (map b2z (syndrome_of (logicals c) (xorv r e))) /\
  d_lc d' = Some (map b2z (xorv (syndrome_of (logicals c) (xorv r e)) (syndrome_of (logicals c) l))).
Proof. exact lc_shift. Qed.
Theorem c01_verdict_differs : forall c e l w w' r lc cv d d', length r = length e -> length e = length l ->
  ~ commutes_all (logicals c) l ->
  resolve c e w (DR None lc (Some r) cv) = Some d ->
  resolve c (xorv e l) w' (DR None lc (Some r) cv) = Some d' ->
  d_success d = true -> d_success d' = false.
Proof. exact verdict_differs. Qed.

(* non-vacuity: two steps on the 5-qubit code with a flip, recovery not returning to the code space *)
Definition five := mkCode (map to_bsf [[pX;pZ;pZ;pX;pI]; [pI;pX;pZ;pZ;pX]; [pX;pI;pX;pZ;pZ]; [pZ;pX;pI;pX;pZ]])
                          [to_bsf [pX;pX;pX;pX;pX]] [to_bsf [pZ;pZ;pZ;pZ;pZ]].
Example c01_ex :
  let errs := [to_bsf [pX;pI;pI;pI;pI]; to_bsf [pI;pI;pY;pI;pI]] in
  let ms := [[true;false;false;false]; [false;false;false;false]] in
  fst (run_once_model five errs ms true (Bare (Some (to_bsf [pI;pI;pI;pI;pI]))))
    = [[true;false;false;true]; [false;true;true;false]] /\
  option_map d_success (snd (run_once_model five errs ms true (Bare (Some (to_bsf [pI;pI;pI;pI;pI]))))) = Some false /\
  option_map d_weight (snd (run_once_model five errs ms true (Bare (Some (to_bsf [pI;pI;pI;pI;pI]))))) = Some 2.
Proof. vm_compute. auto. Qed.

Print Assumptions c01_syndrome_ideal. Print Assumptions c01_syndrome_ftp. Print Assumptions c01_ftp_parity. Print Assumptions c01_flip_locality. Print Assumptions c01_flip_untouched. Print Assumptions c01_flip_single_step.
Print Assumptions c01_verdict. Print Assumptions c01_verdict_pauli. Print Assumptions c01_bare_recovery. Print Assumptions c01_passthrough.
Print Assumptions c01_error_iff. Print Assumptions c01_weight. Print Assumptions c01_reject.
Print Assumptions c01_history_pointwise. Print Assumptions c01_history_independent. Print Assumptions c01_same_table_row.
Print Assumptions c01_lc_shift. Print Assumptions c01_verdict_differs.
