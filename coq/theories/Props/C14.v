(* Props/C14.v — minimum-weight decoders correct every error within half the distance. *)
From Coq Require Import Arith List Bool Lia ZArith.
From QV Require Import Core.Bits Core.Pauli Core.Symp Core.Span Decoders.Naive.
Import ListNotations.

(* sound span membership: the coefficients returned really combine the generators to v *)
Theorem c14_in_span_sound : forall n gens v c, in_span n gens v = Some c ->
  length c = length gens /\ lincomb n c gens = v.
Proof. exact in_span_sound. Qed.

Theorem c14_in_span_with_sound : forall basis n gens v c, in_span_with basis n gens v = Some c ->
  length c = length gens /\ lincomb n c gens = v.
Proof. exact in_span_with_sound. Qed.

(* the negative answer is certified too: a functional vanishing on every generator but not on v *)
Theorem c14_not_in_span_cert_sound : forall n gens w v, Forall (fun g => length g = n) gens ->
  not_in_span_cert gens w v = true -> ~ in_spanP n gens v.
Proof. exact not_in_span_cert_sound. Qed.

(* P-forall, every code: the naive decoder's answer has minimum weight among all operators of
   length 2n with the given syndrome *)
Theorem c14_naive_min_weight : forall stabs n s r, naive stabs n s = Some r ->
  forall e, length e = 2 * n -> syndrome_of stabs e = s -> bsf_wt r <= bsf_wt e.
Proof. exact naive_min_weight. Qed.
(* P-forall, every code, distance hypothesis explicit (d bounds from below the weight of every
   zero-syndrome operator that is not a product of stabilizers): every error of weight <= (d-1)/2
   is corrected up to a stabilizer *)
Theorem c14_naive_corrects : forall n stabs d e, 1 <= d -> distance_lb n stabs d ->
  length e = 2 * n -> bsf_wt e <= (d - 1) / 2 ->
  exists r, naive stabs n (syndrome_of stabs e) = Some r /\ in_spanP (2 * n) stabs (xorv r e).
Proof. exact naive_corrects. Qed.
Theorem c14_weight_subadditive : forall a b n, length a = 2 * n -> length b = 2 * n ->
  bsf_wt (xorv a b) <= bsf_wt a + bsf_wt b.
Proof. exact bsf_wt_xorv. Qed.
(* the distance hypothesis can be discharged by exhaustive search (P<=B: all operators of weight < d) *)
Theorem c14_distance_by_search : forall n stabs d, 1 <= d -> low_weight_trivial n stabs d = true -> distance_lb n stabs d.
Proof. exact low_weight_trivial_sound. Qed.
(* ... as done in the kernel for the two basic codes (weight < 3: 106 resp. 211 operators) *)
Theorem c14_five_qubit : forall e, length e = 10 -> bsf_wt e <= 1 ->
  exists r, naive five_stabs 5 (syndrome_of five_stabs e) = Some r /\ in_spanP 10 five_stabs (xorv r e).
Proof. exact five_naive_corrects. Qed.
Theorem c14_steane : forall e, length e = 14 -> bsf_wt e <= 1 ->
  exists r, naive steane_stabs 7 (syndrome_of steane_stabs e) = Some r /\ in_spanP 14 steane_stabs (xorv r e).
Proof. exact steane_naive_corrects. Qed.

(* The generic statement below (an arbitrary decode function) is kept visible; its two intended instances ARE proved
   for all sizes further down: c14_planar_mwpm_corrects_all / c14_planar_mwpm_brute_corrects and
   c14_toric_mwpm_corrects_all / c14_toric_mwpm_brute_corrects.  Original wording: for every planar / toric size, every error with
   X- and Z-part of weight <= (d-1)/2 and every minimum-weight perfect matching of the decoder's graph,
   recovery xor error is in the stabilizer span. Checked on the implementation by the harness with in_span. *)
Definition c14_mwpm_statement : Prop :=
  forall (decode : nat -> nat -> bsf -> bsf) (stabs : nat -> nat -> list bsf) (dist : nat -> nat -> nat)
         (xwt zwt : bsf -> nat) rows cols e,
    xwt e <= (dist rows cols - 1) / 2 -> zwt e <= (dist rows cols - 1) / 2 ->
    in_spanP (length e) (stabs rows cols) (xorv (decode rows cols (syndrome_of (stabs rows cols) e)) e).

Example c14_ex :
  in_span 4 [[true;true;false;false]; [false;true;true;false]; [true;false;true;false]] [true;false;true;false]
    = Some [true;true;false]
  /\ in_span 4 [[true;true;false;false]; [false;true;true;false]] [false;false;false;true] = None
  /\ rank [[true;true;false;false]; [false;true;true;false]; [true;false;true;false]] = 2.
Proof. vm_compute. repeat split; reflexivity. Qed.

Print Assumptions c14_in_span_sound. Print Assumptions c14_in_span_with_sound. Print Assumptions c14_not_in_span_cert_sound. Print Assumptions c14_naive_min_weight. Print Assumptions c14_naive_corrects.
Print Assumptions c14_weight_subadditive. Print Assumptions c14_distance_by_search.
Print Assumptions c14_five_qubit. Print Assumptions c14_steane.

(* ---- re-exported by tools/reexport.py: statements copied from `Check`, closed by `exact` ---- *)
From QV Require Import Decoders.MwpmGraph.
Theorem c14_graph_virtual_edges : forall rows cols : Z, 2 <= rows -> 2 <= cols -> forall (ds : list (Z * Z)) (extra : Z * Z) (pr : bool), (forall q : Z * Z, In q ds -> In q (Planar.plaquette_indices rows cols) /\ LatticeArith.planar_is_primal q = pr) -> LatticeArith.planar_is_in_bounds rows cols extra = false -> forall (a b : Z * Z) (w : option Z), In (a, b, w) (planar_graph rows cols ds extra) -> (LatticeArith.planar_is_in_bounds rows cols a = true -> LatticeArith.planar_is_in_bounds rows cols b = false -> b = PlanarMwpm.vnode rows cols a) /\ (LatticeArith.planar_is_in_bounds rows cols a = false -> LatticeArith.planar_is_in_bounds rows cols b = false /\ w = Some 0).
Proof. exact graph_virtual_edges. Qed.
Theorem c14_graph_extra_not_with_defect : forall rows cols : Z, 2 <= rows -> 2 <= cols -> forall (ds : list (Z * Z)) (extra : Z * Z) (pr : bool) (m : list (Z * Z * (Z * Z))), (forall q : Z * Z, In q ds -> In q (Planar.plaquette_indices rows cols) /\ LatticeArith.planar_is_primal q = pr) -> LatticeArith.planar_is_in_bounds rows cols extra = false -> ~ PlanarAll.instrip rows cols extra -> uses (planar_graph rows cols ds extra) m -> PlanarMwpm.extra_not_with_defect rows cols extra m.
Proof. exact graph_extra_not_with_defect. Qed.
Theorem c14_distance_taxicab : forall (rows cols : Z) (a b : Z * Z), PlanarAll.ptype a -> PlanarAll.ptype b -> PlanarAll.same_type a b -> LatticeArith.planar_is_in_bounds rows cols a = true \/ LatticeArith.planar_is_in_bounds rows cols b = true -> Planar.distance rows cols a b = Some (Z.abs (fst b - fst a) / 2 + Z.abs (snd b - snd a) / 2).
Proof. exact distance_taxicab. Qed.
Theorem c14_graph_complete : forall rows cols : Z, 2 <= rows -> 2 <= cols -> forall (ds : list (Z * Z)) (extra : Z * Z) (pr : bool), (forall q : Z * Z, In q ds -> In q (Planar.plaquette_indices rows cols) /\ LatticeArith.planar_is_primal q = pr) -> forall a b : Z * Z, In a ds -> In b ds -> a <> b -> let w := Some (Z.abs (fst b - fst a) / 2 + Z.abs (snd b - snd a) / 2) in In (a, b, w) (planar_graph rows cols ds extra) \/ In (b, a, w) (planar_graph rows cols ds extra).
Proof. exact graph_complete. Qed.
Theorem c14_graph_boundary_edges : forall rows cols : Z, 2 <= rows -> 2 <= cols -> forall (ds : list (Z * Z)) (extra : Z * Z) (pr : bool), (forall q : Z * Z, In q ds -> In q (Planar.plaquette_indices rows cols) /\ LatticeArith.planar_is_primal q = pr) -> forall d : Z * Z, In d ds -> In (d, PlanarMwpm.vnode rows cols d, Some (Z.abs (fst (PlanarMwpm.vnode rows cols d) - fst d) / 2 + Z.abs (snd (PlanarMwpm.vnode rows cols d) - snd d) / 2)) (planar_graph rows cols ds extra).
Proof. exact graph_boundary_edges. Qed.
Theorem c14_graph_nodes : forall (rows cols : Z) (ds : list (Z * Z)) (extra x : Z * Z), ds <> [] -> In x (PlanarMwpm.lattice_nodes rows cols ds extra) <-> (exists (y : Z * Z) (w : option Z), In (x, y, w) (planar_graph rows cols ds extra) \/ In (y, x, w) (planar_graph rows cols ds extra)).
Proof. exact graph_nodes. Qed.
Theorem c14_planar_mwpm_syndrome_graph : forall rows cols : Z, 2 <= rows -> 2 <= cols -> forall (syn : bsf) (mp md : list (Z * Z * (Z * Z))), length syn = length (Planar.plaquette_indices rows cols) -> Permutation.Permutation (MwpmRel.ends2 mp) (PlanarMwpm.primal_nodes rows cols syn) -> Permutation.Permutation (MwpmRel.ends2 md) (PlanarMwpm.dual_nodes rows cols syn) -> uses (primal_graph rows cols syn) mp -> uses (dual_graph rows cols syn) md -> exists r : bsf, PlanarMwpm.mwpm_recovery rows cols (mp ++ md) = Some r /\ length r = (Planar.planar_n rows cols + Planar.planar_n rows cols)%nat /\ syndrome_of (Code.stabs (Planar.planar_code rows cols)) r = syn.
Proof. exact planar_mwpm_syndrome_graph. Qed.
Theorem c14_tdistance_periodic : forall rows cols : Z, 2 <= rows -> 2 <= cols -> forall a b : Z * Z * Z, ToricAll.inrange rows cols a -> ToricAll.inrange rows cols b -> fst (fst a) = fst (fst b) -> Toric.tdistance rows cols a b = Some (ptaxi rows cols a b).
Proof. exact tdistance_periodic. Qed.
Theorem c14_toric_graph_complete : forall rows cols : Z, 2 <= rows -> 2 <= cols -> forall (la : Z) (syn : bsf) (a b : Z * Z * Z), In a (ToricMwpm.lattice_defects rows cols la syn) -> In b (ToricMwpm.lattice_defects rows cols la syn) -> a <> b -> In (a, b, Some (ptaxi rows cols a b)) (toric_graph rows cols la syn) \/ In (b, a, Some (ptaxi rows cols a b)) (toric_graph rows cols la syn).
Proof. exact toric_graph_complete. Qed.
Theorem c14_toric_graph_sound : forall rows cols : Z, 2 <= rows -> 2 <= cols -> forall (la : Z) (syn : bsf) (a b : Z * Z * Z) (w : option Z), In (a, b, w) (toric_graph rows cols la syn) -> In a (ToricMwpm.lattice_defects rows cols la syn) /\ In b (ToricMwpm.lattice_defects rows cols la syn) /\ w = Some (ptaxi rows cols a b).
Proof. exact toric_graph_sound. Qed.
Print Assumptions c14_graph_virtual_edges.
Print Assumptions c14_graph_extra_not_with_defect.
Print Assumptions c14_distance_taxicab.
Print Assumptions c14_graph_complete.
Print Assumptions c14_graph_boundary_edges.
Print Assumptions c14_graph_nodes.
Print Assumptions c14_planar_mwpm_syndrome_graph.
Print Assumptions c14_tdistance_periodic.
Print Assumptions c14_toric_graph_complete.
Print Assumptions c14_toric_graph_sound.

(* ---- re-exported by tools/reexport.py: statements copied from `Check`, closed by `exact` ---- *)
From QV Require Import Decoders.MatchBound Decoders.PlanarErrPairs Decoders.PlanarMwpmCorrect Decoders.PlanarMwpmBrute.
Theorem c14_planar_mwpm_corrects_all : planar_mwpm_corrects_statement.
Proof. exact planar_mwpm_corrects_all. Qed.
Theorem c14_planar_mwpm_corrects : forall rows cols : Z, 2 <= rows -> 2 <= cols -> forall (e : bsf) (mwp mwd : wmates), length e = (Planar.planar_n rows cols + Planar.planar_n rows cols)%nat -> Z.of_nat (xweight rows cols e) <= tcap rows cols -> Z.of_nat (zweight rows cols e) <= tcap rows cols -> let syn := syndrome_of (Code.stabs (Planar.planar_code rows cols)) e in min_perfect_in (MwpmGraph.primal_graph rows cols syn) (PlanarMwpm.primal_nodes rows cols syn) mwp -> min_perfect_in (MwpmGraph.dual_graph rows cols syn) (PlanarMwpm.dual_nodes rows cols syn) mwd -> exists r : bsf, PlanarMwpm.mwpm_recovery rows cols (unw mwp ++ unw mwd) = Some r /\ length r = (Planar.planar_n rows cols + Planar.planar_n rows cols)%nat /\ syndrome_of (Code.stabs (Planar.planar_code rows cols)) r = syn /\ in_spanP (Planar.planar_n rows cols + Planar.planar_n rows cols) (Code.stabs (Planar.planar_code rows cols)) (xorv r e).
Proof. exact planar_mwpm_corrects. Qed.
Theorem c14_planar_mwpm_corrects_mates : forall rows cols : Z, 2 <= rows -> 2 <= cols -> forall (e : bsf) (mp md : list (Z * Z * (Z * Z))), length e = (Planar.planar_n rows cols + Planar.planar_n rows cols)%nat -> Z.of_nat (xweight rows cols e) <= tcap rows cols -> Z.of_nat (zweight rows cols e) <= tcap rows cols -> let syn := syndrome_of (Code.stabs (Planar.planar_code rows cols)) e in min_matching (MwpmGraph.primal_graph rows cols syn) (PlanarMwpm.primal_nodes rows cols syn) mp -> min_matching (MwpmGraph.dual_graph rows cols syn) (PlanarMwpm.dual_nodes rows cols syn) md -> exists r : bsf, PlanarMwpm.mwpm_recovery rows cols (mp ++ md) = Some r /\ length r = (Planar.planar_n rows cols + Planar.planar_n rows cols)%nat /\ syndrome_of (Code.stabs (Planar.planar_code rows cols)) r = syn /\ in_spanP (Planar.planar_n rows cols + Planar.planar_n rows cols) (Code.stabs (Planar.planar_code rows cols)) (xorv r e).
Proof. exact planar_mwpm_corrects_mates. Qed.
Theorem c14_planar_mwpm_corrects_weight : forall rows cols : Z, 2 <= rows -> 2 <= cols -> forall (e : bsf) (mwp mwd : wmates), length e = (Planar.planar_n rows cols + Planar.planar_n rows cols)%nat -> Z.of_nat (bsf_wt e) <= tcap rows cols -> let syn := syndrome_of (Code.stabs (Planar.planar_code rows cols)) e in min_perfect_in (MwpmGraph.primal_graph rows cols syn) (PlanarMwpm.primal_nodes rows cols syn) mwp -> min_perfect_in (MwpmGraph.dual_graph rows cols syn) (PlanarMwpm.dual_nodes rows cols syn) mwd -> exists r : bsf, PlanarMwpm.mwpm_recovery rows cols (unw mwp ++ unw mwd) = Some r /\ length r = (Planar.planar_n rows cols + Planar.planar_n rows cols)%nat /\ syndrome_of (Code.stabs (Planar.planar_code rows cols)) r = syn /\ in_spanP (Planar.planar_n rows cols + Planar.planar_n rows cols) (Code.stabs (Planar.planar_code rows cols)) (xorv r e).
Proof. exact planar_mwpm_corrects_weight. Qed.
Theorem c14_planar_perfect_matching_exists : forall rows cols : Z, 2 <= rows -> 2 <= cols -> forall e : bsf, length e = (Planar.planar_n rows cols + Planar.planar_n rows cols)%nat -> let syn := syndrome_of (Code.stabs (Planar.planar_code rows cols)) e in (exists m : list (Z * Z * (Z * Z)), Permutation.Permutation (MwpmRel.ends2 m) (PlanarMwpm.primal_nodes rows cols syn) /\ MwpmGraph.uses (MwpmGraph.primal_graph rows cols syn) m) /\ (exists m : list (Z * Z * (Z * Z)), Permutation.Permutation (MwpmRel.ends2 m) (PlanarMwpm.dual_nodes rows cols syn) /\ MwpmGraph.uses (MwpmGraph.dual_graph rows cols syn) m).
Proof. exact planar_perfect_matching_exists. Qed.
Theorem c14_planar_mwpm_decode_corrects : forall matcher : list (Z * Z * (Z * Z) * option Z) -> list (Z * Z) -> list (Z * Z * (Z * Z)), (forall (g : list (Z * Z * (Z * Z) * option Z)) (nodes : list (Z * Z)), (exists m : list (Z * Z * (Z * Z)), Permutation.Permutation (MwpmRel.ends2 m) nodes /\ MwpmGraph.uses g m) -> min_matching g nodes (matcher g nodes)) -> forall rows cols : Z, 2 <= rows -> 2 <= cols -> forall e : bsf, let n := Planar.planar_n rows cols in let S := Code.stabs (Planar.planar_code rows cols) in length e = (n + n)%nat -> Z.of_nat (count_true (firstn n e)) <= (Z.min rows cols - 1) / 2 -> Z.of_nat (count_true (skipn n e)) <= (Z.min rows cols - 1) / 2 -> exists r : bsf, planar_mwpm_decode matcher rows cols (syndrome_of S e) = Some r /\ length r = (n + n)%nat /\ syndrome_of S r = syndrome_of S e /\ in_spanP (n + n) S (xorv r e).
Proof. exact planar_mwpm_decode_corrects. Qed.
Theorem c14_brute_matcher_contract : forall (g : list (Z * Z * (Z * Z) * option Z)) (nodes : list (Z * Z)), (exists m : list (Z * Z * (Z * Z)), Permutation.Permutation (MwpmRel.ends2 m) nodes /\ MwpmGraph.uses g m) -> min_matching g nodes (brute_matcher g nodes).
Proof. exact brute_matcher_contract. Qed.
Theorem c14_planar_mwpm_brute_corrects : forall rows cols : Z, 2 <= rows -> 2 <= cols -> forall e : bsf, let n := Planar.planar_n rows cols in let S := Code.stabs (Planar.planar_code rows cols) in length e = (n + n)%nat -> Z.of_nat (count_true (firstn n e)) <= (Z.min rows cols - 1) / 2 -> Z.of_nat (count_true (skipn n e)) <= (Z.min rows cols - 1) / 2 -> exists r : bsf, planar_mwpm_decode brute_matcher rows cols (syndrome_of S e) = Some r /\ length r = (n + n)%nat /\ syndrome_of S r = syndrome_of S e /\ in_spanP (n + n) S (xorv r e).
Proof. exact planar_mwpm_brute_corrects. Qed.
Theorem c14_defects_matching_le_weight : forall rows cols : Z, 2 <= rows -> 2 <= cols -> forall (pr : bool) (ds : list (Z * Z)) (extra : Z * Z), (forall q : Z * Z, In q ds -> In q (Planar.plaquette_indices rows cols) /\ LatticeArith.planar_is_primal q = pr) -> NoDup ds -> ~ PlanarAll.instrip rows cols extra -> forall e : bsf, length e = (Planar.planar_n rows cols + Planar.planar_n rows cols)%nat -> (forall q : Z * Z, In q ds <-> In q (Planar.plaquette_indices rows cols) /\ LatticeArith.planar_is_primal q = pr /\ bsp e (PlanarAll.stab rows cols q) = true) -> exists mw : wmates, perfect_in (MwpmGraph.planar_graph rows cols ds extra) (PlanarMwpm.lattice_nodes rows cols ds extra) mw /\ wtotal mw <= Z.of_nat (count_true (part rows cols pr e)).
Proof. exact defects_matching_le_weight. Qed.
Theorem c14_light_commuting_in_span : forall rows cols : Z, 2 <= rows -> 2 <= cols -> forall f : bsf, length f = (Planar.planar_n rows cols + Planar.planar_n rows cols)%nat -> (forall s : bsf, In s (Code.stabs (Planar.planar_code rows cols)) -> bsp f s = false) -> Z.of_nat (count_true (firstn (Planar.planar_n rows cols) f)) < rows -> Z.of_nat (count_true (skipn (Planar.planar_n rows cols) f)) < cols -> in_spanP (Planar.planar_n rows cols + Planar.planar_n rows cols) (Code.stabs (Planar.planar_code rows cols)) f.
Proof. exact light_commuting_in_span. Qed.
Print Assumptions c14_planar_mwpm_corrects_all.
Print Assumptions c14_planar_mwpm_corrects.
Print Assumptions c14_planar_mwpm_corrects_mates.
Print Assumptions c14_planar_mwpm_corrects_weight.
Print Assumptions c14_planar_perfect_matching_exists.
Print Assumptions c14_planar_mwpm_decode_corrects.
Print Assumptions c14_brute_matcher_contract.
Print Assumptions c14_planar_mwpm_brute_corrects.
Print Assumptions c14_defects_matching_le_weight.
Print Assumptions c14_light_commuting_in_span.

(* ---- re-exported by tools/reexport.py: statements copied from `Check`, closed by `exact` ---- *)
From QV Require Import Decoders.ToricErrPairs Decoders.ToricMwpmCorrect Decoders.ToricMwpmBrute.
Theorem c14_toric_mwpm_corrects_all : toric_mwpm_corrects_statement.
Proof. exact toric_mwpm_corrects_all. Qed.
Theorem c14_toric_mwpm_decode_corrects : forall matcher : list (Z * Z * Z * (Z * Z * Z) * option Z) -> list (Z * Z * Z) -> list (Z * Z * Z * (Z * Z * Z)), (forall (g : list (Z * Z * Z * (Z * Z * Z) * option Z)) (nodes : list (Z * Z * Z)), (exists m : list (Z * Z * Z * (Z * Z * Z)), Permutation.Permutation (MwpmRel.ends2 m) nodes /\ tuses g m) -> tmin_matching g nodes (matcher g nodes)) -> forall rows cols : Z, 2 <= rows -> 2 <= cols -> forall e : bsf, let n := Toric.toric_n rows cols in let S := Code.stabs (Toric.toric_code rows cols) in length e = (n + n)%nat -> Z.of_nat (count_true (firstn n e)) <= (Z.min rows cols - 1) / 2 -> Z.of_nat (count_true (skipn n e)) <= (Z.min rows cols - 1) / 2 -> exists r : bsf, toric_mwpm_decode matcher rows cols (syndrome_of S e) = Some r /\ length r = (n + n)%nat /\ syndrome_of S r = syndrome_of S e /\ in_spanP (n + n) S (xorv r e).
Proof. exact toric_mwpm_decode_corrects. Qed.
Theorem c14_tbrute_matcher_contract : forall (g : list (Z * Z * Z * (Z * Z * Z) * option Z)) (nodes : list (Z * Z * Z)), (exists m : list (Z * Z * Z * (Z * Z * Z)), Permutation.Permutation (MwpmRel.ends2 m) nodes /\ tuses g m) -> tmin_matching g nodes (tbrute_matcher g nodes).
Proof. exact tbrute_matcher_contract. Qed.
Theorem c14_toric_mwpm_brute_corrects : forall rows cols : Z, 2 <= rows -> 2 <= cols -> forall e : bsf, let n := Toric.toric_n rows cols in let S := Code.stabs (Toric.toric_code rows cols) in length e = (n + n)%nat -> Z.of_nat (count_true (firstn n e)) <= (Z.min rows cols - 1) / 2 -> Z.of_nat (count_true (skipn n e)) <= (Z.min rows cols - 1) / 2 -> exists r : bsf, toric_mwpm_decode tbrute_matcher rows cols (syndrome_of S e) = Some r /\ length r = (n + n)%nat /\ syndrome_of S r = syndrome_of S e /\ in_spanP (n + n) S (xorv r e).
Proof. exact toric_mwpm_brute_corrects. Qed.
Theorem c14_toric_even_parity_all : ToricMwpm.toric_even_parity_statement.
Proof. exact toric_even_parity_all. Qed.
Theorem c14_toric_light_commuting_in_span : forall rows cols : Z, 2 <= rows -> 2 <= cols -> forall f : bsf, length f = (Toric.toric_n rows cols + Toric.toric_n rows cols)%nat -> (forall s : bsf, In s (Code.stabs (Toric.toric_code rows cols)) -> bsp f s = false) -> Z.of_nat (count_true (firstn (Toric.toric_n rows cols) f)) < Z.min rows cols -> Z.of_nat (count_true (skipn (Toric.toric_n rows cols) f)) < Z.min rows cols -> in_spanP (Toric.toric_n rows cols + Toric.toric_n rows cols) (Code.stabs (Toric.toric_code rows cols)) f.
Proof. exact toric_light_commuting_in_span. Qed.
Theorem c14_toric_defects_matching_le_weight : forall rows cols : Z, 2 <= rows -> 2 <= cols -> forall (px : bool) (e : bsf), length e = (Toric.toric_n rows cols + Toric.toric_n rows cols)%nat -> let syn := syndrome_of (Code.stabs (Toric.toric_code rows cols)) e in exists mw : twmates, tperfect_in (MwpmGraph.toric_graph rows cols (tlat px) syn) (ToricMwpm.lattice_defects rows cols (tlat px) syn) mw /\ twtotal mw <= Z.of_nat (count_true (tpart rows cols px e)).
Proof. exact toric_defects_matching_le_weight. Qed.
Theorem c14_ptaxi_tri : forall rows cols : Z, 2 <= rows -> 2 <= cols -> forall a b c : Z * Z * Z, MwpmGraph.ptaxi rows cols a c <= MwpmGraph.ptaxi rows cols a b + MwpmGraph.ptaxi rows cols b c.
Proof. exact ptaxi_tri. Qed.
Print Assumptions c14_toric_mwpm_corrects_all.
Print Assumptions c14_toric_mwpm_decode_corrects.
Print Assumptions c14_tbrute_matcher_contract.
Print Assumptions c14_toric_mwpm_brute_corrects.
Print Assumptions c14_toric_even_parity_all.
Print Assumptions c14_toric_light_commuting_in_span.
Print Assumptions c14_toric_defects_matching_le_weight.
Print Assumptions c14_ptaxi_tri.
