(* Props/C14.v — minimum-weight decoders correct every error within half the distance. *)
From Coq Require Import Arith List Bool Lia ZArith.
From QV Require Import Core.Bits Core.Pauli Core.Symp Core.Span Decoders.Naive.
Import ListNotations.

(* sound span membership: the coefficients returned really combine the generators to v *)
Theorem c14_in_span_sound : forall n gens v c, in_span n gens v = Some c ->
  length c = length gens /\ lincomb n c gens = v.
Proof. exact in_span_sound. Qed.

Theorem c14_in_span_with_sound : forall basis n gens v c, in_span_with basis n gens v = Some c ->
  length c = length gens /\ lincomb n c gens = v.
Proof. exact in_span_with_sound. Qed.

(* the negative answer is certified too: a functional vanishing on every generator but not on v *)
Theorem c14_not_in_span_cert_sound : forall n gens w v, Forall (fun g => length g = n) gens ->
  not_in_span_cert gens w v = true -> ~ in_spanP n gens v.
Proof. exact not_in_span_cert_sound. Qed.

(* P-forall, every code: the naive decoder's answer has minimum weight among all operators of
   length 2n with the given syndrome *)
Theorem c14_naive_min_weight : forall stabs n s r, naive stabs n s = Some r ->
  forall e, length e = 2 * n -> syndrome_of stabs e = s -> bsf_wt r <= bsf_wt e.
Proof. exact naive_min_weight. Qed.
(* P-forall, every code, distance hypothesis explicit (d bounds from below the weight of every
   zero-syndrome operator that is not a product of stabilizers): every error of weight <= (d-1)/2
   is corrected up to a stabilizer *)
Theorem c14_naive_corrects : forall n stabs d e, 1 <= d -> distance_lb n stabs d ->
  length e = 2 * n -> bsf_wt e <= (d - 1) / 2 ->
  exists r, naive stabs n (syndrome_of stabs e) = Some r /\ in_spanP (2 * n) stabs (xorv r e).
Proof. exact naive_corrects. Qed.
Theorem c14_weight_subadditive : forall a b n, length a = 2 * n -> length b = 2 * n ->
  bsf_wt (xorv a b) <= bsf_wt a + bsf_wt b.
Proof. exact bsf_wt_xorv. Qed.
(* the distance hypothesis can be discharged by exhaustive search (P<=B: all operators of weight < d) *)
Theorem c14_distance_by_search : forall n stabs d, 1 <= d -> low_weight_trivial n stabs d = true -> distance_lb n stabs d.
Proof. exact low_weight_trivial_sound. Qed.
(* ... as done in the kernel for the two basic codes (weight < 3: 106 resp. 211 operators) *)
Theorem c14_five_qubit : forall e, length e = 10 -> bsf_wt e <= 1 ->
  exists r, naive five_stabs 5 (syndrome_of five_stabs e) = Some r /\ in_spanP 10 five_stabs (xorv r e).
Proof. exact five_naive_corrects. Qed.
Theorem c14_steane : forall e, length e = 14 -> bsf_wt e <= 1 ->
  exists r, naive steane_stabs 7 (syndrome_of steane_stabs e) = Some r /\ in_spanP 14 steane_stabs (xorv r e).
Proof. exact steane_naive_corrects. Qed.

(* not proved (needs the lattice models of Lattice/*.v): for every planar / toric size, every error with
   X- and Z-part of weight <= (d-1)/2 and every minimum-weight perfect matching of the decoder's graph,
   recovery xor error is in the stabilizer span. Checked on the implementation by the harness with in_span. *)
Definition c14_mwpm_statement : Prop :=
  forall (decode : nat -> nat -> bsf -> bsf) (stabs : nat -> nat -> list bsf) (dist : nat -> nat -> nat)
         (xwt zwt : bsf -> nat) rows cols e,
    xwt e <= (dist rows cols - 1) / 2 -> zwt e <= (dist rows cols - 1) / 2 ->
    in_spanP (length e) (stabs rows cols) (xorv (decode rows cols (syndrome_of (stabs rows cols) e)) e).

Example c14_ex :
  in_span 4 [[true;true;false;false]; [false;true;true;false]; [true;false;true;false]] [true;false;true;false]
    = Some [true;true;false]
  /\ in_span 4 [[true;true;false;false]; [false;true;true;false]] [false;false;false;true] = None
  /\ rank [[true;true;false;false]; [false;true;true;false]; [true;false;true;false]] = 2.
Proof. vm_compute. repeat split; reflexivity. Qed.

Print Assumptions c14_in_span_sound. Print Assumptions c14_in_span_with_sound. Print Assumptions c14_not_in_span_cert_sound. Print Assumptions c14_naive_min_weight. Print Assumptions c14_naive_corrects.
Print Assumptions c14_weight_subadditive. Print Assumptions c14_distance_by_search.
Print Assumptions c14_five_qubit. Print Assumptions c14_steane.
