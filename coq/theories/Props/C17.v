(* Props/C17.v — generated qubit and measurement errors follow their distributions.
   Only statements closed by `exact`; the lemmas live in ErrorModels/Generate.v.  The model is a function of
   the uniform stream (numpy's inverse-cdf draw); that PCG64 output is uniform and independent is not a theorem
   (trusted, and sampled by the harness). *)
From Coq Require Import QArith List Bool Arith.
From QV Require Import Core.Bits Core.Pauli ErrorModels.Generate.
Import ListNotations.
Open Scope Q_scope.

(* shape: a binary vector (by type) of length 2n *)
Theorem c17_shape : forall (d us : list Q), length (generate d us) = (2 * length us)%nat.
Proof. exact generate_length. Qed.
(* locality: qubit j is the inverse-cdf image of the j-th uniform alone *)
Theorem c17_local : forall (d us : list Q) (j : nat), (j < length us)%nat ->
  nth j (gen_letters d us) pI = letter_of (choice d (nth j us 0)).
Proof. exact gen_letters_local. Qed.
Theorem c17_independent : forall (d us us' : list Q) (j : nat), length us = length us' -> (j < length us)%nat ->
  nth j us 0 = nth j us' 0 -> nth j (gen_letters d us) pI = nth j (gen_letters d us') pI.
Proof. exact gen_letters_independent. Qed.
(* preimage: letter k is drawn exactly for u in [cdf_{k-1}, cdf_k), an interval of length p_k / total;
   the intervals tile [0, 1) *)
Theorem c17_preimage : forall (d : list Q) (u : Q) (k : nat),
  all_nonneg d -> 0 < qsum d -> (k < length d)%nat -> 0 <= u ->
  (choice d u = k <-> lo d k <= u < hi d k).
Proof. exact choice_preimage. Qed.
Theorem c17_interval_length : forall (d : list Q) (k : nat), 0 < qsum d -> (k < length d)%nat ->
  hi d k - lo d k == nth k d 0 / qsum d.
Proof. exact interval_length. Qed.
Theorem c17_interval_first : forall d : list Q, lo d 0 == 0.
Proof. exact lo_0. Qed.
Theorem c17_interval_chain : forall (d : list Q) (k : nat), lo d (S k) == hi d k.
Proof. exact lo_S. Qed.
Theorem c17_interval_last : forall d : list Q, 0 < qsum d -> d <> [] -> hi d (length d - 1) == 1.
Proof. exact hi_last. Qed.
Theorem c17_choice_valid : forall (d : list Q) (u : Q), all_nonneg d -> 0 < qsum d -> u < 1 -> (choice d u < length d)%nat.
Proof. exact choice_lt. Qed.
(* Paulis of zero probability never appear *)
Theorem c17_zero_never : forall (d : list Q) (u : Q) (k : nat),
  all_nonneg d -> 0 < qsum d -> (k < length d)%nat -> 0 <= u -> nth k d 0 == 0 -> choice d u <> k.
Proof. exact choice_zero_never. Qed.
Theorem c17_zero_never_generate : forall (d us : list Q) (k j : nat),
  all_nonneg d -> 0 < qsum d -> length d = 4%nat -> (k < 4)%nat -> nth k d 0 == 0 ->
  (j < length us)%nat -> 0 <= nth j us 0 < 1 -> nth j (gen_letters d us) pI <> letter_of k.
Proof. exact generate_zero_never. Qed.
(* the same stream reproduces the same error *)
Theorem c17_same_stream_same_error : forall (d us us' : list Q), us = us' -> generate d us = generate d us'.
Proof. exact generate_same_stream. Qed.
(* X part in bit j, Z part in bit n + j; I, X, Y, Z are indices 0..3 *)
Theorem c17_xz_columns : forall (d us : list Q) (j : nat), (j < length us)%nat ->
  nth j (generate d us) false = xbit (nth j (gen_letters d us) pI) /\
  nth (length us + j) (generate d us) false = zbit (nth j (gen_letters d us) pI).
Proof. exact generate_columns. Qed.
Theorem c17_letter_columns : forall k : nat, (xbit (letter_of k), zbit (letter_of k)) =
  match k with 0%nat => (false, false) | 1%nat => (true, false) | 2%nat => (true, true) | _ => (false, true) end.
Proof. exact letter_columns. Qed.
(* measurement flips: bit j flips iff its own uniform falls in [1-q, 1): probability q; never for 0, always for 1 *)
Theorem c17_flip_interval : forall q u : Q, 0 <= q <= 1 -> 0 <= u < 1 -> (flip q u = true <-> 1 - q <= u).
Proof. exact flip_interval. Qed.
Theorem c17_flip_never : forall q u : Q, q == 0 -> 0 <= u < 1 -> flip q u = false.
Proof. exact flip_never. Qed.
Theorem c17_flip_always : forall q u : Q, q == 1 -> 0 <= u < 1 -> flip q u = true.
Proof. exact flip_always. Qed.
Theorem c17_flips_local : forall (q : Q) (us : list Q) (j : nat), (j < length us)%nat ->
  nth j (flips q us) false = flip q (nth j us 0).
Proof. exact flips_local. Qed.
Theorem c17_flips_length : forall (q : Q) (us : list Q), length (flips q us) = length us.
Proof. exact flips_length. Qed.
(* stream layout of a fault-tolerant run: step t reads n uniforms for the error then m for the flips;
   with q = 0 no flips occur and no uniforms are consumed for them *)
Theorem c17_stream_layout : forall (T n m : nat) (d : list Q) (q : Q), ~ q == 0 -> forall (us : list Q) (t : nat), (t < T)%nat ->
  nth t (run_stream T n m d q us) ([], []) =
  (generate d (firstn n (skipn (t * (n + m)) us)), flips q (firstn m (skipn n (skipn (t * (n + m)) us)))).
Proof. exact run_stream_nth. Qed.
Theorem c17_stream_layout_q0 : forall (T n m : nat) (d : list Q) (q : Q), q == 0 -> forall (us : list Q) (t : nat), (t < T)%nat ->
  nth t (run_stream T n m d q us) ([], []) = (generate d (firstn n (skipn (t * n) us)), zeros m).
Proof. exact run_stream_nth_q0. Qed.
Theorem c17_stream_steps : forall (T n m : nat) (d : list Q) (q : Q) (us : list Q), length (run_stream T n m d q us) = T.
Proof. exact run_stream_length. Qed.

(* every output bit of a run reads a uniform of its own: qubit i of step t the one at position t(n+m)+i, syndrome
   bit j of step t the one at t(n+m)+n+j; these positions are pairwise different, so (with independent uniforms) all
   the qubits and all the flips of all the steps are mutually independent - a flip can be a function of neither the
   uniform of a qubit nor that of another flip *)
Theorem c17_error_at : forall (T n m : nat) (d : list Q) (q : Q), ~ q == 0 -> forall (us : list Q) (t i : nat),
  (T * (n + m) <= length us)%nat -> (t < T)%nat -> (i < n)%nat ->
  let e := fst (nth t (run_stream T n m d q us) ([], [])) in
  let l := letter_of (choice d (nth (epos n m t i) us 0)) in
  nth i e false = xbit l /\ nth (n + i) e false = zbit l.
Proof. exact run_stream_error_at. Qed.
Theorem c17_flip_at : forall (T n m : nat) (d : list Q) (q : Q), ~ q == 0 -> forall (us : list Q) (t j : nat),
  (T * (n + m) <= length us)%nat -> (t < T)%nat -> (j < m)%nat ->
  nth j (snd (nth t (run_stream T n m d q us) ([], []))) false = flip q (nth (fpos n m t j) us 0).
Proof. exact run_stream_flip_at. Qed.
Theorem c17_flip_own_uniform : forall (T n m : nat) (d : list Q) (q : Q), ~ q == 0 -> forall (us us' : list Q) (t j : nat),
  (T * (n + m) <= length us)%nat -> (T * (n + m) <= length us')%nat -> (t < T)%nat -> (j < m)%nat ->
  nth (fpos n m t j) us 0 = nth (fpos n m t j) us' 0 ->
  nth j (snd (nth t (run_stream T n m d q us) ([], []))) false = nth j (snd (nth t (run_stream T n m d q us') ([], []))) false.
Proof. exact run_stream_flip_own_uniform. Qed.
Theorem c17_error_own_uniform : forall (T n m : nat) (d : list Q) (q : Q), ~ q == 0 -> forall (us us' : list Q) (t i : nat),
  (T * (n + m) <= length us)%nat -> (T * (n + m) <= length us')%nat -> (t < T)%nat -> (i < n)%nat ->
  nth (epos n m t i) us 0 = nth (epos n m t i) us' 0 ->
  let e := fst (nth t (run_stream T n m d q us) ([], [])) in
  let e' := fst (nth t (run_stream T n m d q us') ([], [])) in
  nth i e false = nth i e' false /\ nth (n + i) e false = nth (n + i) e' false.
Proof. exact run_stream_error_own_uniform. Qed.
Theorem c17_positions_error_flip_distinct : forall n m s t i j : nat, (i < n)%nat -> (j < m)%nat -> epos n m s i <> fpos n m t j.
Proof. exact epos_fpos_distinct. Qed.
Theorem c17_positions_error_injective : forall n m s t i j : nat, (i < n)%nat -> (j < n)%nat ->
  epos n m s i = epos n m t j -> s = t /\ i = j.
Proof. exact epos_injective. Qed.
Theorem c17_positions_flip_injective : forall n m s t i j : nat, (i < m)%nat -> (j < m)%nat ->
  fpos n m s i = fpos n m t j -> s = t /\ i = j.
Proof. exact fpos_injective. Qed.

(* non-vacuity: depolarizing p = 3/10, uniforms 0.1, 0.75, 0.85, 0.95 give I X Y Z; XZZXI-like columns *)
Example c17_ex_generate : generate [7 # 10; 1 # 10; 1 # 10; 1 # 10] [1 # 10; 3 # 4; 17 # 20; 19 # 20] =
  [false; true; true; false;  false; false; true; true].
Proof. vm_compute. reflexivity. Qed.
Example c17_ex_flips : flips (1 # 4) [0; 1 # 2; 3 # 4; 7 # 8] = [false; false; true; true].
Proof. vm_compute. reflexivity. Qed.
Example c17_ex_stream : run_stream 2 1 1 [1 # 2; 1 # 2; 0; 0] (1 # 2) [1 # 4; 3 # 4; 3 # 4; 1 # 4] =
  [([false; false], [true]); ([true; false], [false])].
Proof. vm_compute. reflexivity. Qed.

Example c17_ex_positions : (epos 1 1 0 0, fpos 1 1 0 0, epos 1 1 1 0, fpos 1 1 1 0) = (0, 1, 2, 3)%nat.
Proof. vm_compute. reflexivity. Qed.

Print Assumptions c17_shape. Print Assumptions c17_local. Print Assumptions c17_independent.
Print Assumptions c17_preimage. Print Assumptions c17_interval_length. Print Assumptions c17_interval_first.
Print Assumptions c17_interval_chain. Print Assumptions c17_interval_last. Print Assumptions c17_choice_valid.
Print Assumptions c17_zero_never. Print Assumptions c17_zero_never_generate. Print Assumptions c17_same_stream_same_error.
Print Assumptions c17_xz_columns. Print Assumptions c17_letter_columns. Print Assumptions c17_flip_interval.
Print Assumptions c17_flip_never. Print Assumptions c17_flip_always. Print Assumptions c17_flips_local.
Print Assumptions c17_flips_length. Print Assumptions c17_stream_layout. Print Assumptions c17_stream_layout_q0.
Print Assumptions c17_stream_steps.
Print Assumptions c17_error_at. Print Assumptions c17_flip_at. Print Assumptions c17_flip_own_uniform.
Print Assumptions c17_error_own_uniform. Print Assumptions c17_positions_error_flip_distinct.
Print Assumptions c17_positions_error_injective. Print Assumptions c17_positions_flip_injective.
