(* Props/C12.v — MPS canonical forms and truncation honour their contracts.
   Level: theorems for the discrete skeleton and for the algebra of the uncut sweep relative to
   QR/SVD oracles (Section variables with contracts, Tensor/Mps.v); the numerical contracts on the
   float outputs (residuals, unit norm, truncation error bound) are checked by harness/c12.py and
   are NOT theorems.  Models: Tensor/StartStop.v, Tensor/MpsDims.v, Tensor/Mps.v, Tensor/Contract.v. *)
From Coq Require Import List Arith Lia Bool ZArith QArith.
From QV Require Import Tensor.Sums Tensor.Net Tensor.StartStop Tensor.Contract Tensor.Noop Tensor.MpsDims Tensor.Mps Tensor.Norm Tensor.MpsAlias.
Import ListNotations.
Local Open Scope nat_scope.

(* c12_start_stop [P-forall]: _mps_start_stop_indices delimits exactly the tensors, and raises exactly
   when a tensor follows a None that follows a tensor *)
Theorem c12_start_stop_sound : forall (X : Type) (l : list (option X)) a b, start_stop l = Some (a, b) -> run_spec l a b.
Proof. intros X. exact start_stop_sound. Qed.
Theorem c12_start_stop_error : forall (X : Type) (l : list (option X)), start_stop l = None <->
  exists j k m, j < k < m /\ m < length l /\ is_some (nth j l None) = true
                /\ is_some (nth k l None) = false /\ is_some (nth m l None) = true.
Proof. intros X. exact start_stop_error. Qed.

(* c12_reverse_involutive [P-forall] *)
Theorem c12_reverse_involutive : forall (K : cring) (m : list (option (tensor K))), reverse K (reverse K m) = m.
Proof. exact reverse_involutive. Qed.
(* c12_rcf_mirror [by definition of the model, as in the source]: right form = reverse . left form . reverse *)
Theorem c12_rcf_mirror : forall chi qr mask mps,
  rcf_dims chi qr mask mps = option_map reverse_dims (lcf_dims chi qr (option_map (@rev bool) mask) (reverse_dims mps)).
Proof. reflexivity. Qed.

(* c12_truncate_identity [P-forall, shared with C11]: when tol is unset and chi is unset or no bond
   exceeds it, or the mask has no True entry, truncate returns its argument and norm 1 *)
Theorem c12_truncate_identity : forall (K : cring) (m : list (option (tensor K))) chi tol mask,
  (truthyQ tol = false -> truthyZ chi = false -> truncate K chi tol mask m = Ok (m, r1 K))
  /\ (forall c, truthyQ tol = false -> (Z.of_nat (bond_dimension K m) <= c)%Z -> truncate K (Some c) tol mask m = Ok (m, r1 K))
  /\ (forall mk, existsb (fun b : bool => b) mk = false -> truncate K chi tol (Some mk) m = Ok (m, r1 K)).
Proof.
  intros K m chi tol mask. repeat split; intros; apply truncate_noop;
    [apply guard_unset|apply guard_chi|apply guard_mask]; assumption.
Qed.

(* c12_truncate_bond [P-forall on the shape model]: SVD sweeps with chi >= 1 and no masked-out tensor
   leave every bond inside the run <= chi: left form, right form, and truncate = QR left sweep then
   SVD right sweep *)
Theorem c12_lcf_bond : forall c rest, (0 < c)%Z -> forall cur masks, (forall i, nth i masks true = true) ->
  Forall (fun x => sh_s x <= Z.to_nat c) (removelast (MpsDims.lcf_go (Some c) false cur rest masks))
  /\ Forall (fun x => sh_n x <= Z.to_nat c) (tl (MpsDims.lcf_go (Some c) false cur rest masks)).
Proof. exact lcf_go_bond. Qed.
Theorem c12_rcf_bond : forall c run masks, (0 < c)%Z -> (forall i, nth i (rev masks) true = true) ->
  Forall (fun x => sh_n x <= Z.to_nat c) (tl (rcf_run (Some c) false run masks))
  /\ Forall (fun x => sh_s x <= Z.to_nat c) (removelast (rcf_run (Some c) false run masks)).
Proof. exact rcf_run_bond. Qed.
Theorem c12_truncate_bond : forall c run, (0 < c)%Z ->
  Forall (fun x => sh_n x <= Z.to_nat c) (tl (truncate_run c run))
  /\ Forall (fun x => sh_s x <= Z.to_nat c) (removelast (truncate_run c run)).
Proof. exact truncate_run_bond. Qed.

(* c12_lcf_state and c12_zero [PO: relative to the decomposition oracle M = Q.(c.R') and the last-row
   oracle]: for any length and any dimensions, state(out) * norm_out = state(in) * norm_in, and the zero
   short-circuit (None) is taken only when state(in) * norm_in = 0 *)
Theorem c12_lcf_state : forall (K : cring)
  (decomp : tensor K -> tensor K * (nat -> nat -> K) * K) (is0 : K -> bool) (finish : tensor K -> K -> option (tensor K * K)),
  (forall T, let '(Q, Rm, c) := decomp T in factors K T Q Rm c) ->
  (forall c, is0 c = true -> c = r0 K) ->
  (forall T norm, match finish T norm with
                  | Some (T', nrm) => ds T' = ds T /\ forall n e s w, rmul K (val T' n e s w) nrm = rmul K (val T n e s w) norm
                  | None => forall n e s w, val T n e s w = r0 K
                  end) ->
  forall rest cur norm v ws es,
  chain K (cur :: rest) -> length ws = S (length rest) -> length es = S (length rest) ->
  match Mps.lcf_go K decomp is0 finish cur rest norm with
  | Some (out, nrm) => rmul K (opc (map Some out) v ws es) nrm = rmul K (opc (map Some (cur :: rest)) v ws es) norm
  | None => rmul K (opc (map Some (cur :: rest)) v ws es) norm = r0 K
  end.
Proof. intros K decomp is0 finish H1 H2 H3 rest. exact (lcf_state K decomp is0 finish H1 H2 H3 rest). Qed.
(* c12_lcf_isometry [PO]: every emitted site but the last is the oracle's isometry *)
Theorem c12_lcf_isometry : forall (K : cring)
  (decomp : tensor K -> tensor K * (nat -> nat -> K) * K) (is0 : K -> bool) (finish : tensor K -> K -> option (tensor K * K))
  (isometry : tensor K -> Prop), (forall T, isometry (fst (fst (decomp T)))) ->
  forall rest cur norm out nrm, Mps.lcf_go K decomp is0 finish cur rest norm = Some (out, nrm) ->
  Forall isometry (removelast out) /\ length out = S (length rest).
Proof. intros K decomp is0 finish iso H rest. exact (lcf_isometry K decomp is0 finish iso H rest). Qed.

(* c12_normalised [P-forall given the isometry property of the sites]: left isometries followed by a last
   site of unit Frobenius norm represent a tensor of unit norm; [gram K A 0 0] is the sum over all physical
   index tuples of the squared entries of the represented tensor *)
Theorem c12_normalised : forall (K : cring) (out : list (tensor K)) (L : tensor K),
  chain K (out ++ [L]) -> dn (hd L out) = 1 -> ds L = 1 -> Forall (left_isometry K) out ->
  sumn (dn L) (fun n => sumn (de L) (fun e => sumn (dw L) (fun w => rmul K (val L n e 0 w) (val L n e 0 w)))) = r1 K ->
  gram K (out ++ [L]) 0 0 = r1 K.
Proof. exact normalised_norm2. Qed.

(* c12_input_not_modified [P-forall on the container model of Tensor/MpsAlias.v]: left_canonical_form works on
   list(mps) (mps.py:233) and assigns items only through that copy; whatever the sweep assigns, and whatever the
   caller's container is (a list, or a view [View a idxs] of an object array such as a network column tn[:, c]),
   every container of the caller reads the same tensor objects afterwards - so "the result represents the same
   tensor as the input" also holds for the input as the caller sees it after the call.  The second theorem shows
   that this is a property of list(mps) and not of a slice copy mps[:]: through a view, the caller reads what
   the sweep assigned.  (That the tensor objects themselves are not written to is checked by harness/c12.py:
   bit-identical contents after every call, key input-modified.) *)
Theorem c12_input_not_modified : forall (X : Type) (dflt : X) (h : heap X) (c : container X) (ws : list (nat * X)) (c' : container X),
  read X dflt (fst (assigns X h (list_copy X dflt h c) ws)) c' = read X dflt h c'.
Proof. exact list_copy_input_unchanged. Qed.
Theorem c12_slice_of_view_aliases : forall (X : Type) (dflt : X) (h : heap X) a idxs i v,
  i < length idxs -> nth i idxs 0 < length (h a) ->
  nth i (read X dflt (fst (assigns X h (slice_copy X h (View X a idxs)) [(i, v)])) (View X a idxs)) dflt = v.
Proof. exact slice_copy_view_aliases. Qed.

(* ---- statement that is NOT proved (numerical checking only, harness/c12.py) ------------------- *)
Definition norm2 (K : cring) (dw_ de_ : list nat) (f : list nat -> list nat -> K) : K :=
  sumt dw_ (fun ws => sumt de_ (fun es => rmul K (f ws es) (f ws es))).
(* Eckart-Young-type bound, in rank form (no singular values needed): the truncated state, times the
   returned norm, is no further (squared) from the input state than the sum over the internal bonds i
   of the squared distance from the input to ANY state phi_i of rank <= (kept bond i) across bond i.
   [truncates m chi out nrm] stands for "mps.truncate(m, chi) returned (out, nrm)"; [le] orders K. *)
Definition bond_rank_le (K : cring) (i k : nat) (phi : list nat -> list nat -> K) : Prop :=
  exists (a b : nat -> list nat -> list nat -> K), forall ws es,
    phi ws es = sumn k (fun j => rmul K (a j (firstn i ws) (firstn i es)) (b j (skipn i ws) (skipn i es))).
Definition c12_truncation_error_statement (K : cring) (le : K -> K -> Prop)
    (truncates : list (tensor K) -> Z -> list (tensor K) -> K -> Prop) : Prop :=
  forall m chi out nrm, truncates m chi out nrm ->
  forall (phis : list (list nat -> list nat -> K)), length phis = length m - 1 ->
    (forall i, i < length m - 1 -> bond_rank_le K (S i) (dn (nth (S i) out (mkT 0 0 0 0 (fun _ _ _ _ => r0 K)))) (nth i phis (fun _ _ => r0 K))) ->
    le (norm2 K (map (@dw K) m) (map (@de K) m)
          (fun ws es => rsub K (opc (map Some m) 0 ws es) (rmul K nrm (opc (map Some out) 0 ws es))))
       (fold_right (radd K) (r0 K)
          (map (fun phi => norm2 K (map (@dw K) m) (map (@de K) m) (fun ws es => rsub K (opc (map Some m) 0 ws es) (phi ws es))) phis)).

(* non-vacuity of the shape model: truncate to chi = 2 of shapes (1,2,3,1),(3,2,4,1),(4,2,1,1) *)
Example c12_example_shapes :
  truncate_dims (Some 2%Z) None [None; Some (1,2,3,1); Some (3,2,4,1); Some (4,2,1,1)]
  = Some [None; Some (1,2,2,1); Some (2,2,2,1); Some (2,2,1,1)].
Proof. vm_compute. reflexivity. Qed.

Print Assumptions c12_start_stop_sound. Print Assumptions c12_start_stop_error. Print Assumptions c12_reverse_involutive.
Print Assumptions c12_rcf_mirror. Print Assumptions c12_truncate_identity. Print Assumptions c12_lcf_bond.
Print Assumptions c12_rcf_bond. Print Assumptions c12_truncate_bond. Print Assumptions c12_lcf_state.
Print Assumptions c12_lcf_isometry. Print Assumptions c12_normalised.
Print Assumptions c12_input_not_modified. Print Assumptions c12_slice_of_view_aliases.
