(* Props/C09.v — Pauli primitives agree with the Pauli group.
   Only statements closed by `exact`; the lemmas live in Core/. *)
From Coq Require Import Arith List Bool Lia Sorting.Sorted.
From QV Require Import Core.Bits Core.Pauli Core.Symp Core.SympShape Core.Enum Core.Pack.
Import ListNotations.

(* string <-> bsf is a bijection, singles and lists *)
Theorem c09_roundtrip_str : forall s : pstr, of_bsf (to_bsf s) = s.
Proof. exact of_to_bsf. Qed.
Theorem c09_roundtrip_bsf : forall b : bsf, Nat.even (length b) = true -> to_bsf (of_bsf b) = b.
Proof. exact to_of_bsf. Qed.
Theorem c09_roundtrip_str_list : forall ss, of_bsf_list (to_bsf_list ss) = ss.
Proof. exact of_to_bsf_list. Qed.
Theorem c09_roundtrip_bsf_list : forall bs, Forall (fun b => Nat.even (length b) = true) bs ->
  to_bsf_list (of_bsf_list bs) = bs.
Proof. exact to_of_bsf_list. Qed.

(* bsp = 1 exactly when the Paulis anticommute (ground truth: parity of positions holding
   two distinct non-identity letters) *)
Theorem c09_bsp_commutation : forall s t : pstr, length s = length t ->
  bsp (to_bsf s) (to_bsf t) = anticommutes s t.
Proof. exact bsp_is_anticommutation. Qed.
Theorem c09_bsp_bilinear_l : forall a b c, length a = length b -> bsp (xorv a b) c = xorb (bsp a c) (bsp b c).
Proof. exact bsp_linear_l. Qed.
Theorem c09_bsp_bilinear_r : forall a b c, length b = length c -> bsp a (xorv b c) = xorb (bsp a b) (bsp a c).
Proof. exact bsp_linear_r. Qed.
Theorem c09_bsp_symmetric : forall a b, length a = length b -> Nat.even (length a) = true -> bsp a b = bsp b a.
Proof. exact bsp_sym. Qed.
Theorem c09_product_is_xor : forall s t, length s = length t -> to_bsf (pmul s t) = xorv (to_bsf s) (to_bsf t).
Proof. exact to_bsf_pmul. Qed.

(* vector, vector-matrix, matrix-vector, matrix-matrix forms agree element-wise *)
Theorem c09_bsp_shapes_vm : forall a b m j, j < m -> nth j (bsp_vm a b m) false = bsp a (col j b).
Proof. exact bsp_vm_nth. Qed.
Theorem c09_bsp_shapes_mv : forall A b i, i < length A -> nth i (bsp_mv A b) false = bsp (nth i A []) b.
Proof. exact bsp_mv_nth. Qed.
Theorem c09_bsp_shapes_mm : forall A b m i j, i < length A -> j < m ->
  nth j (nth i (bsp_mm A b m) []) false = bsp (nth i A []) (col j b).
Proof. exact bsp_mm_nth. Qed.

(* the SHAPE of the stacked forms: one entry per (operator of A, operator of B), whatever the entries *)
Theorem c09_bsp_result_shape_vm : forall a b m, length (bsp_vm a b m) = m.
Proof. exact bsp_vm_length. Qed.
Theorem c09_bsp_result_shape_mv : forall A b, length (bsp_mv A b) = length A.
Proof. exact bsp_mv_length. Qed.
Theorem c09_bsp_result_shape_mm : forall A b m,
  length (bsp_mm A b m) = length A /\ Forall (fun r => length r = m) (bsp_mm A b m).
Proof. exact bsp_mm_shape. Qed.
(* degenerate operands: every stacked operator the identity gives the zero array of the FULL shape *)
Theorem c09_bsp_identity_rhs : forall A b m, all_zero_rows b ->
  bsp_mm A b m = repeat (zeros m) (length A) /\ (forall a, bsp_vm a b m = zeros m).
Proof. exact bsp_identity_rhs. Qed.
Theorem c09_bsp_identity_lhs : forall A b m, all_zero_rows A ->
  bsp_mm A b m = repeat (zeros m) (length A) /\ (forall v, bsp_mv A v = zeros (length A)).
Proof. exact bsp_identity_lhs. Qed.
Theorem c09_bsp_identity_vector : forall a b, is_zero a = true \/ is_zero b = true -> bsp a b = false.
Proof. exact bsp_identity_vector. Qed.
(* bilinearity of the stacked forms *)
Theorem c09_bsp_stacked_bilinear_r : forall A b c, length b = length c ->
  bsp_mv A (xorv b c) = xorv (bsp_mv A b) (bsp_mv A c).
Proof. exact bsp_mv_linear_r. Qed.
Theorem c09_bsp_stacked_bilinear_l : forall a a' b m, length a = length a' ->
  bsp_vm (xorv a a') b m = xorv (bsp_vm a b m) (bsp_vm a' b m).
Proof. exact bsp_vm_linear_l. Qed.

(* weights count the non-identity factors *)
Theorem c09_weight : forall s, bsf_wt (to_bsf s) = pauli_wt s.
Proof. exact bsf_wt_to_bsf. Qed.
Theorem c09_weight_rows : forall ss, bsf_wt_rows (to_bsf_list ss) = pauli_wt_list ss.
Proof. exact bsf_wt_rows_to_bsf. Qed.

(* the weight-ordered iterator: complete, duplicate free, non-decreasing weight *)
Theorem c09_ipauli_complete : forall n lo hi s, lo <= hi ->
  In s (ipauli n lo hi) <-> length s = n /\ lo <= pauli_wt s <= hi.
Proof. exact ipauli_spec. Qed.
Theorem c09_ipauli_nodup : forall n lo hi, NoDup (ipauli n lo hi).
Proof. exact ipauli_nodup. Qed.
Theorem c09_ipauli_sorted : forall n lo hi, StronglySorted le (map pauli_wt (ipauli n lo hi)).
Proof. exact ipauli_sorted. Qed.
Theorem c09_ibsf_nodup : forall n lo hi, NoDup (ibsf n lo hi).
Proof. exact ibsf_nodup. Qed.

(* pack / unpack *)
Theorem c09_pack_roundtrip : forall v : bsf, unpack (pack v) = Some v.
Proof. exact unpack_pack. Qed.
Theorem c09_pack_injective : forall v w : bsf, pack v = pack w -> v = w.
Proof. exact pack_injective. Qed.

(* non-vacuity *)
Example c09_ex_commutation : bsp (to_bsf [pX;pI;pZ;pI;pY]) (to_bsf [pY;pY;pI;pI;pX]) = anticommutes [pX;pI;pZ;pI;pY] [pY;pY;pI;pI;pX]
  /\ anticommutes [pX;pI;pZ;pI;pY] [pY;pY;pI;pI;pX] = false /\ anticommutes [pX;pZ] [pZ;pI] = true.
Proof. vm_compute. auto. Qed.
Example c09_ex_identity_batch : (* two stabilizers against a batch of three trivial errors: a 2 x 3 matrix of zeros *)
  bsp_mm [[true;false;false;true];[false;true;true;false]] [[false;false;false];[false;false;false];[false;false;false];[false;false;false]] 3
  = [[false;false;false];[false;false;false]]
  /\ bsp_vm [true;false;false;true] [[false];[false];[false];[false]] 1 = [false]
  /\ bsp_mm [[true;true]] [[false];[true]] 1 = [[true]].
Proof. vm_compute. auto. Qed.
Example c09_ex_ipauli : length (ipauli 4 1 3) = 4*3 + 6*9 + 4*27 /\ In [pI;pY;pI;pZ] (ipauli 4 1 3).
Proof. vm_compute. intuition. Qed.
Example c09_ex_pack : pack [true;false;true;true;false;false;false;false;true] =
  ([(true,false,true,true); (false,false,false,false); (true,false,false,false); zero_nibble], 9).
Proof. reflexivity. Qed.

Print Assumptions c09_roundtrip_str. Print Assumptions c09_roundtrip_bsf.
Print Assumptions c09_roundtrip_str_list. Print Assumptions c09_roundtrip_bsf_list.
Print Assumptions c09_bsp_commutation. Print Assumptions c09_bsp_bilinear_l.
Print Assumptions c09_bsp_bilinear_r. Print Assumptions c09_bsp_symmetric.
Print Assumptions c09_product_is_xor.
Print Assumptions c09_bsp_shapes_vm. Print Assumptions c09_bsp_shapes_mv. Print Assumptions c09_bsp_shapes_mm.
Print Assumptions c09_weight. Print Assumptions c09_weight_rows.
Print Assumptions c09_ipauli_complete. Print Assumptions c09_ipauli_nodup.
Print Assumptions c09_ipauli_sorted. Print Assumptions c09_ibsf_nodup.
Print Assumptions c09_pack_roundtrip. Print Assumptions c09_pack_injective.
Print Assumptions c09_bsp_result_shape_vm. Print Assumptions c09_bsp_result_shape_mv.
Print Assumptions c09_bsp_result_shape_mm. Print Assumptions c09_bsp_identity_rhs.
Print Assumptions c09_bsp_identity_lhs. Print Assumptions c09_bsp_identity_vector.
Print Assumptions c09_bsp_stacked_bilinear_r. Print Assumptions c09_bsp_stacked_bilinear_l.
