(* ErrorModels/DistQ.v — exact rational models of the IID error models'
   probability_distribution (generic/_simpleerrormodel.py, _biasederrormodel.py,
   _sliceerrormodel.py) and of their constructor domains, with the C16 theorems.
   Q is used with its setoid equality ==. *)
From Coq Require Import QArith Qabs Qreduction Lqa List Bool.
Import ListNotations.
Open Scope Q_scope.
Arguments Qred : simpl never.

(* ------------------------------------------------------------------ *)
(* distributions (Pr(I), Pr(X), Pr(Y), Pr(Z))                          *)
Record dist := mkD { dI : Q; dX : Q; dY : Q; dZ : Q }.
Definition deq (a b : dist) : Prop := dI a == dI b /\ dX a == dX b /\ dY a == dY b /\ dZ a == dZ b.
Definition nonneg (d : dist) : Prop := 0 <= dI d /\ 0 <= dX d /\ 0 <= dY d /\ 0 <= dZ d.
Definition total (d : dist) : Q := dI d + dX d + dY d + dZ d.
Definition simplex (d : dist) : Prop := nonneg d /\ total d == 1.
(* every model ends with  p_i = 1 - sum((p_x, p_y, p_z))  where sum starts from 0 *)
Definition of_xyz (x y z : Q) : dist := mkD (1 - (0 + x + y + z)) x y z.

Definition depolarizing (p : Q) : dist := let t := p / 3 in of_xyz t t t.
Definition bit_flip (p : Q) : dist := of_xyz p 0 0.
Definition phase_flip (p : Q) : dist := of_xyz 0 0 p.
Definition bit_phase_flip (p : Q) : dist := of_xyz 0 p 0.

Inductive axis := AX | AY | AZ.
Definition biased_lr (b p : Q) : Q := 1 / (2 * (b + 1)) * p.
Definition biased_hr (b p : Q) : Q := b / (b + 1) * p.
Definition biased (b : Q) (a : axis) (p : Q) : dist :=
  let lr := biased_lr b p in
  let hr := biased_hr b p in
  match a with AX => of_xyz hr lr lr | AY => of_xyz lr hr lr | AZ => of_xyz lr lr hr end.
(* the high-rate entry along the axis, and the two low-rate entries *)
Definition on_axis (a : axis) (d : dist) : Q := match a with AX => dX d | AY => dY d | AZ => dZ d end.
Definition off_axis (a : axis) (d : dist) : Q * Q :=
  match a with AX => (dY d, dZ d) | AY => (dX d, dZ d) | AZ => (dX d, dY d) end.

(* biased-Y-X: the closed forms as a function of the root s of the discriminant
   (s = sqrt (-4p + (1+h+p-hp)^2); over Q the root is an argument, over R it is sqrt, see DistR.v) *)
Definition yx_disc (h p : Q) : Q := -(4) * p + (1 + h + p - h * p) * (1 + h + p - h * p).
Definition yx_rate_x (h p s : Q) : Q := if Qeq_bool h 0 then p else 1 / 2 * (1 + h + p - h * p - s).
Definition yx_rate_y (h p s : Q) : Q := if Qeq_bool h 0 then 0 else 1 / (2 * h) * (1 + h - p + h * p - s).
Definition yx_of_rates (rx ry : Q) : dist := of_xyz (rx * (1 - ry)) (ry * (1 - rx)) (rx * ry).
Definition biased_yx (h p s : Q) : dist := yx_of_rates (yx_rate_x h p s) (yx_rate_y h p s).

(* centre-slice *)
Notation vec3 := (Q * Q * Q)%type.
Definition vadd (u v : vec3) : vec3 := let '(a, b, c) := u in let '(x, y, z) := v in (a + x, b + y, c + z).
Definition vsub (u v : vec3) : vec3 := let '(a, b, c) := u in let '(x, y, z) := v in (a - x, b - y, c - z).
Definition vscale (s : Q) (v : vec3) : vec3 := let '(x, y, z) := v in (s * x, s * y, s * z).
Definition vdot (u v : vec3) : Q := let '(a, b, c) := u in let '(x, y, z) := v in a * x + b * y + c * z.
Definition veq (u v : vec3) : Prop := let '(a, b, c) := u in let '(x, y, z) := v in a == x /\ b == y /\ c == z.
(* Qred (reduction to lowest terms, Qred q == q) keeps the numerals small; it has no effect on values *)
Definition vec_red (v : vec3) : vec3 := let '(x, y, z) := v in (Qred x, Qred y, Qred z).
Definition norm1 (v : vec3) : Q := let '(x, y, z) := v in Qabs x + Qabs y + Qabs z.
Definition normalize (v : vec3) : vec3 := let n := norm1 v in let '(x, y, z) := v in vec_red (x / n, y / n, z / n).
Definition vX : vec3 := (1, 0, 0).
Definition vY : vec3 := (0, 1, 0).
Definition vZ : vec3 := (0, 0, 1).
Definition vO : vec3 := (0, 0, 0).
Definition centre : vec3 := (1 # 3, 1 # 3, 1 # 3).
Definition dist2 (u v : vec3) : Q := let w := vsub u v in vdot w w.   (* squared Euclidean distance *)
Definition line_plane (pn pp ld lp : vec3) : vec3 :=
  let w := vsub lp pp in
  let si := Qred (- vdot pn w / vdot pn ld) in
  vec_red (vadd (vadd w (vscale si ld)) pp).
Definition neg_lim_try (L p1 p2 p3 : vec3) : option vec3 :=
  if Qeq_bool (vdot L p1) 0 then
    let pN := if Qle_bool (dist2 p2 L) (dist2 p3 L) then p2 else p3 in
    Some (normalize (line_plane pN vO (vsub centre L) L))
  else None.
(* None = QecsimError('Failed to find negative-limit.') *)
Definition neg_lim (L : vec3) : option vec3 :=
  match neg_lim_try L vX vY vZ with
  | Some r => Some r
  | None => match neg_lim_try L vY vZ vX with
            | Some r => Some r
            | None => neg_lim_try L vZ vX vY
            end
  end.
Definition ratio (L : vec3) (pos : Q) : option vec3 :=
  let lim := if Qle_bool 0 pos then Some L else neg_lim L in
  let a := Qabs pos in
  match lim with
  | Some l => Some (vec_red (vadd (vscale a l) (vscale (1 - a) centre)))
  | None => None
  end.
Definition slice (lim : vec3) (pos p : Q) : option dist :=
  match ratio (normalize lim) pos with
  | Some (rx, ry, rz) => Some (of_xyz (rx * p) (ry * p) (rz * p))
  | None => None
  end.

(* ------------------------------------------------------------------ *)
(* constructor domains as decision functions                           *)
Inductive pynum := PQ (q : Q) | PNaN | PInf (negative : bool) | PNotNum.  (* PNotNum: comparison raises TypeError *)
Inductive ctor_res := Accept | RaiseValue | RaiseType.
Definition Qlt_bool (x y : Q) : bool := negb (Qle_bool y x).
(* axis argument: a string given by its character codes, or some other object *)
Inductive axis_arg := AxStr (codes : list nat) | AxOther.
Definition axis_of_arg (a : axis_arg) : option axis :=
  match a with
  | AxStr [c] => if Nat.eqb c 88 || Nat.eqb c 120 then Some AX
                 else if Nat.eqb c 89 || Nat.eqb c 121 then Some AY
                 else if Nat.eqb c 90 || Nat.eqb c 122 then Some AZ else None
  | _ => None
  end.
(* BiasedDepolarizingErrorModel.__init__: bias > 0 and finite, then axis *)
Definition biased_ctor (bias : pynum) (a : axis_arg) : ctor_res :=
  match bias with
  | PNotNum => RaiseType
  | PQ q => if Qlt_bool 0 q then match axis_of_arg a with Some _ => Accept | None => RaiseValue end else RaiseValue
  | PNaN | PInf _ => RaiseValue
  end.
(* BiasedYXErrorModel.__init__: bias >= 0 and finite *)
Definition yx_ctor (bias : pynum) : ctor_res :=
  match bias with
  | PNotNum => RaiseType
  | PQ q => if Qle_bool 0 q then Accept else RaiseValue
  | PNaN | PInf _ => RaiseValue
  end.
(* CenterSliceErrorModel.__init__, documented domain: lim a 3-tuple of (finite, non-negative) numbers with
   1 or 2 zeros — a point of the closed triangle's boundary after normalisation — then -1 <= pos <= 1 *)
Inductive lim_arg := LimSeq (l : list pynum) | LimNotSized.
Definition is_zero_num (x : pynum) : bool := match x with PQ q => Qeq_bool q 0 | _ => false end.
Definition is_nonneg_num (x : pynum) : bool := match x with PQ q => Qle_bool 0 q | _ => false end.
Definition count_nonzero (l : list pynum) : nat := length (filter (fun x => negb (is_zero_num x)) l).
Definition pos_ctor (pos : pynum) : ctor_res :=
  match pos with
  | PNotNum => RaiseType
  | PQ q => if Qle_bool (-(1)) q && Qle_bool q 1 then Accept else RaiseValue
  | PNaN | PInf _ => RaiseValue
  end.
Definition slice_ctor (lim : lim_arg) (pos : pynum) : ctor_res :=
  match lim with
  | LimNotSized => RaiseType
  | LimSeq l =>
      if Nat.eqb (length l) 3 && (Nat.eqb (count_nonzero l) 1 || Nat.eqb (count_nonzero l) 2)
         && forallb is_nonneg_num l
      then pos_ctor pos else RaiseValue
  end.
(* what the code at the pinned commit tests (no sign / finiteness test on lim): used to delimit defect F4 *)
Definition slice_ctor_unsigned (lim : lim_arg) (pos : pynum) : ctor_res :=
  match lim with
  | LimNotSized => RaiseType
  | LimSeq l =>
      if Nat.eqb (length l) 3 && (Nat.eqb (count_nonzero l) 1 || Nat.eqb (count_nonzero l) 2)
      then pos_ctor pos else RaiseValue
  end.

(* ================================================================== *)
(* Theorems                                                            *)
Lemma of_xyz_total x y z : total (of_xyz x y z) == 1.
Proof. unfold total, of_xyz; cbn. ring. Qed.
Lemma of_xyz_simplex x y z : 0 <= x -> 0 <= y -> 0 <= z -> x + y + z <= 1 -> simplex (of_xyz x y z).
Proof. intros. split; [|apply of_xyz_total]. unfold nonneg, of_xyz; cbn. repeat split; auto. lra. Qed.

(* --- simple models --- *)
Theorem depolarizing_simplex p : 0 <= p <= 1 -> simplex (depolarizing p).
Proof. intros [H0 H1]. unfold depolarizing. assert (E : p / 3 == p * (1 # 3)) by (field). 
  apply of_xyz_simplex; try (rewrite E; lra). Qed.
Theorem depolarizing_pI p : dI (depolarizing p) == 1 - p.
Proof. unfold depolarizing, of_xyz; cbn. field. Qed.
Theorem depolarizing_thirds p : dX (depolarizing p) == p / 3 /\ dY (depolarizing p) == p / 3 /\ dZ (depolarizing p) == p / 3
  /\ 3 * dX (depolarizing p) == p.
Proof. unfold depolarizing, of_xyz; cbn. repeat split; try reflexivity. field. Qed.
Theorem bit_flip_spec p : 0 <= p <= 1 -> simplex (bit_flip p) /\ deq (bit_flip p) (mkD (1 - p) p 0 0).
Proof. intros [H0 H1]. split; [unfold bit_flip; apply of_xyz_simplex; lra|]. unfold deq, bit_flip, of_xyz; cbn. repeat split; try reflexivity. ring. Qed.
Theorem phase_flip_spec p : 0 <= p <= 1 -> simplex (phase_flip p) /\ deq (phase_flip p) (mkD (1 - p) 0 0 p).
Proof. intros [H0 H1]. split; [unfold phase_flip; apply of_xyz_simplex; lra|]. unfold deq, phase_flip, of_xyz; cbn. repeat split; try reflexivity. ring. Qed.
Theorem bit_phase_flip_spec p : 0 <= p <= 1 -> simplex (bit_phase_flip p) /\ deq (bit_phase_flip p) (mkD (1 - p) 0 p 0).
Proof. intros [H0 H1]. split; [unfold bit_phase_flip; apply of_xyz_simplex; lra|]. unfold deq, bit_phase_flip, of_xyz; cbn. repeat split; try reflexivity. ring. Qed.

(* --- biased depolarizing --- *)
Lemma biased_lr_nonneg b p : 0 < b -> 0 <= p -> 0 <= biased_lr b p.
Proof. intros Hb Hp. unfold biased_lr. assert (0 < 2 * (b + 1)) by lra.
  assert (0 < / (2 * (b + 1))) by (apply Qinv_lt_0_compat; auto). unfold Qdiv.
  apply Qmult_le_0_compat; [|exact Hp]. lra. Qed.
Lemma biased_hr_nonneg b p : 0 < b -> 0 <= p -> 0 <= biased_hr b p.
Proof. intros Hb Hp. unfold biased_hr. assert (0 < b + 1) by lra.
  assert (0 < / (b + 1)) by (apply Qinv_lt_0_compat; auto). unfold Qdiv.
  apply Qmult_le_0_compat; [|exact Hp]. apply Qmult_le_0_compat; lra. Qed.
Lemma biased_rates_sum b p : 0 < b -> biased_lr b p + biased_hr b p + biased_lr b p == p.
Proof. intros Hb. unfold biased_lr, biased_hr. field. lra. Qed.
Theorem biased_simplex b a p : 0 < b -> 0 <= p <= 1 -> simplex (biased b a p).
Proof.
  intros Hb [H0 H1]. pose proof (biased_lr_nonneg b p Hb H0). pose proof (biased_hr_nonneg b p Hb H0).
  pose proof (biased_rates_sum b p Hb). destruct a; unfold biased; apply of_xyz_simplex; auto; lra.
Qed.
Theorem biased_pI b a p : 0 < b -> dI (biased b a p) == 1 - p.
Proof. intros Hb. pose proof (biased_rates_sum b p Hb). destruct a; unfold biased, of_xyz; cbn [dI]; lra. Qed.
(* bias = high rate / sum of the two (equal) low rates, division free and as a quotient *)
Theorem biased_ratio b a p : 0 < b ->
  let d := biased b a p in
  fst (off_axis a d) == snd (off_axis a d) /\ on_axis a d == b * (fst (off_axis a d) + snd (off_axis a d)).
Proof. intros Hb. destruct a; cbn; (split; [reflexivity|]); unfold biased_hr, biased_lr; field; lra. Qed.
Theorem biased_ratio_div b a p : 0 < b -> 0 < p ->
  let d := biased b a p in on_axis a d / (fst (off_axis a d) + snd (off_axis a d)) == b.
Proof. intros Hb Hp. destruct a; cbn; unfold biased_hr, biased_lr; field; split; lra. Qed.
Theorem biased_half_is_depolarizing a p : deq (biased (1 # 2) a p) (depolarizing p).
Proof. destruct a; unfold deq, biased, depolarizing, of_xyz, biased_lr, biased_hr; cbn; repeat split; field. Qed.

(* --- biased Y-X, relative to a root s of the discriminant --- *)
Lemma yx_disc_factor h p : yx_disc h p == (1 - p) * ((1 + h) * (1 + h) - (1 - h) * (1 - h) * p).
Proof. unfold yx_disc. ring. Qed.
Theorem yx_disc_nonneg h p : 0 <= h -> 0 <= p <= 1 -> 0 <= yx_disc h p.
Proof. intros Hh [H0 H1]. rewrite yx_disc_factor. apply Qmult_le_0_compat; [lra|]. nra. Qed.
Section YX.
  Variables h p s : Q.
  Hypothesis Hh : 0 < h.
  Hypothesis Hp : 0 <= p <= 1.
  Hypothesis Hs : 0 <= s.
  Hypothesis Hroot : s * s == yx_disc h p.
  Let rx := 1 / 2 * (1 + h + p - h * p - s).
  Let ry := 1 / (2 * h) * (1 + h - p + h * p - s).
  Lemma yx_rates_pos : yx_rate_x h p s == rx /\ yx_rate_y h p s == ry.
  Proof. unfold yx_rate_x, yx_rate_y. destruct (Qeq_bool h 0) eqn:E; [apply Qeq_bool_eq in E; lra|]. split; reflexivity. Qed.
  Lemma yx_ry_eq : 2 * h * ry == 1 + h - p + h * p - s.
  Proof. unfold ry. field. lra. Qed.
  Lemma yx_rx_eq : 2 * rx == 1 + h + p - h * p - s.
  Proof. unfold rx. field. Qed.
  Lemma yx_rx_bounds : 0 <= rx <= 1.
  Proof.
    pose proof yx_rx_eq as E. unfold yx_disc in Hroot. destruct Hp as [H0 H1]. split.
    - assert (s <= 1 + h + p - h * p); [|lra]. assert (0 <= 1 + h + p - h * p) by nra. nra.
    - assert ((h - 1) * (1 - p) <= s); [|lra].
      destruct (Qlt_le_dec h 1) as [Hlt|Hge]; [nra|].
      assert (0 <= (h - 1) * (1 - p)) by nra. nra.
  Qed.
  Lemma yx_ry_bounds : 0 <= ry <= 1.
  Proof.
    pose proof yx_ry_eq as E. unfold yx_disc in Hroot. destruct Hp as [H0 H1].
    assert (L : 0 <= 2 * h * ry <= 2 * h).
    { split.
      - assert (s <= 1 + h - p + h * p); [|lra]. assert (0 <= 1 + h - p + h * p) by nra. nra.
      - assert ((1 - h) * (1 - p) <= s); [|lra].
        destruct (Qlt_le_dec 1 h) as [Hlt|Hge]; [nra|].
        assert (0 <= (1 - h) * (1 - p)) by nra. nra. }
    split; nra.
  Qed.
  Lemma yx_sum : rx * (1 - ry) + ry * (1 - rx) + rx * ry == p.
  Proof.
    pose proof yx_ry_eq as E1. pose proof yx_rx_eq as E2. unfold yx_disc in Hroot.
    assert (G : 4 * h * (rx * (1 - ry) + ry * (1 - rx) + rx * ry) == 4 * h * p).
    { setoid_replace (4 * h * (rx * (1 - ry) + ry * (1 - rx) + rx * ry))
        with (2 * h * (2 * rx) + 2 * (2 * h * ry) - (2 * rx) * (2 * h * ry)) by ring.
      rewrite E1, E2. 
      setoid_replace (2 * h * (1 + h + p - h * p - s) + 2 * (1 + h - p + h * p - s) -
         (1 + h + p - h * p - s) * (1 + h - p + h * p - s))
        with (2 * h * (1 + h + p - h * p) + 2 * (1 + h - p + h * p) - (1 + h + p - h * p) * (1 + h - p + h * p)
              + s * ((1 + h + p - h * p) + (1 + h - p + h * p) - 2 * h - 2) - s * s) by ring.
      rewrite Hroot. ring. }
    apply (Qmult_inj_l _ _ (4 * h)); [lra|exact G].
  Qed.
  Lemma yx_bias : ry * (1 - rx) == h * (rx * (1 - ry)).
  Proof.
    pose proof yx_ry_eq as E1. pose proof yx_rx_eq as E2. unfold yx_disc in Hroot.
    assert (G : 4 * h * (ry * (1 - rx)) == 4 * h * (h * (rx * (1 - ry)))).
    { setoid_replace (4 * h * (ry * (1 - rx))) with ((2 * h * ry) * (2 - 2 * rx)) by ring.
      setoid_replace (4 * h * (h * (rx * (1 - ry)))) with (h * (2 * rx) * (2 * h - 2 * h * ry)) by ring.
      rewrite E1, E2.
      setoid_replace ((1 + h - p + h * p - s) * (2 - (1 + h + p - h * p - s)))
        with ((1 + h - p + h * p) * (2 - (1 + h + p - h * p)) + s * ((1 + h - p + h * p) - (2 - (1 + h + p - h * p))) - s * s) by ring.
      setoid_replace (h * (1 + h + p - h * p - s) * (2 * h - (1 + h - p + h * p - s)))
        with (h * (1 + h + p - h * p) * (2 * h - (1 + h - p + h * p)) + s * (h * (1 + h + p - h * p) - h * (2 * h - (1 + h - p + h * p))) - h * (s * s)) by ring.
      rewrite Hroot. ring. }
    apply (Qmult_inj_l _ _ (4 * h)); [lra|exact G].
  Qed.
End YX.

(* the documented system, for a positive bias *)
Theorem yx_system h p s : 0 < h -> 0 <= p <= 1 -> 0 <= s -> s * s == yx_disc h p ->
  let rx := yx_rate_x h p s in let ry := yx_rate_y h p s in let d := biased_yx h p s in
  0 <= rx <= 1 /\ 0 <= ry <= 1 /\
  dX d == rx * (1 - ry) /\ dY d == ry * (1 - rx) /\ dZ d == rx * ry /\
  dY d == h * dX d /\ dX d + dY d + dZ d == p /\ dI d == 1 - p /\ simplex d.
Proof.
  intros Hh Hp Hs Hroot. cbv zeta.
  pose proof (yx_rx_bounds h p s Hh Hp Hs Hroot) as Bx. pose proof (yx_ry_bounds h p s Hh Hp Hs Hroot) as By.
  pose proof (yx_sum h p s Hh Hroot) as S. pose proof (yx_bias h p s Hh Hroot) as Bi.
  assert (E : Qeq_bool h 0 = false).
  { destruct (Qeq_bool h 0) eqn:E; auto. apply Qeq_bool_eq in E. lra. }
  unfold biased_yx, yx_of_rates, yx_rate_x, yx_rate_y. rewrite E. cbn [dI dX dY dZ of_xyz].
  set (rx := 1 / 2 * (1 + h + p - h * p - s)) in *. set (ry := 1 / (2 * h) * (1 + h - p + h * p - s)) in *.
  assert (Px : 0 <= rx * (1 - ry)) by (apply Qmult_le_0_compat; lra).
  assert (Py : 0 <= ry * (1 - rx)) by (apply Qmult_le_0_compat; lra).
  assert (Pz : 0 <= rx * ry) by (apply Qmult_le_0_compat; lra).
  repeat split; try reflexivity; try tauto; try lra.
  - cbn [dI of_xyz]. lra.
  - apply of_xyz_total.
Qed.
(* zero bias: pure X noise (no root involved) *)
Theorem yx_zero_bias_pure_x p s : deq (biased_yx 0 p s) (bit_flip p).
Proof. unfold deq, biased_yx, yx_of_rates, yx_rate_x, yx_rate_y, bit_flip, of_xyz; cbn. repeat split; ring. Qed.

(* --- centre-slice --- *)
Definition on_simplex (v : vec3) : Prop := let '(x, y, z) := v in 0 <= x /\ 0 <= y /\ 0 <= z /\ x + y + z == 1.
Definition has_zero (v : vec3) : Prop := let '(x, y, z) := v in x == 0 \/ y == 0 \/ z == 0.
Definition on_boundary (v : vec3) : Prop := on_simplex v /\ has_zero v.
(* the documented admissible limits: non-negative entries, one or two of them zero *)
Definition adm_lim (v : vec3) : Prop :=
  let '(x, y, z) := v in 0 <= x /\ 0 <= y /\ 0 <= z /\ 0 < x + y + z /\ (x == 0 \/ y == 0 \/ z == 0).

Lemma veq_refl v : veq v v.
Proof. destruct v as [[x y] z]. cbn. repeat split; reflexivity. Qed.
Lemma veq_trans u v w : veq u v -> veq v w -> veq u w.
Proof. destruct u as [[a b] c], v as [[x y] z], w as [[r s] t]. cbn. intros (A & B & C) (D & E & F).
  repeat split; etransitivity; eauto. Qed.
Lemma on_boundary_veq u v : veq u v -> on_boundary u -> on_boundary v.
Proof. destruct u as [[a b] c], v as [[x y] z]. unfold on_boundary, on_simplex, has_zero. cbn. intros (A & B & C) ((P1 & P2 & P3 & P4) & Zr).
  repeat split; lra. Qed.

Lemma vec_red_veq v : veq (vec_red v) v.
Proof. destruct v as [[x y] z]. cbn. repeat split; apply Qred_correct. Qed.
Lemma normalize_id x y z : 0 <= x -> 0 <= y -> 0 <= z -> x + y + z == 1 -> veq (normalize (x, y, z)) (x, y, z).
Proof.
  intros Hx Hy Hz Hs. unfold normalize, norm1.
  assert (Hn : Qabs x + Qabs y + Qabs z == 1).
  { rewrite (Qabs_pos x), (Qabs_pos y), (Qabs_pos z) by assumption. exact Hs. }
  eapply veq_trans; [apply vec_red_veq|]. cbn. rewrite Hn. repeat split; field.
Qed.
Lemma normalize_adm x y z : adm_lim (x, y, z) ->
  on_boundary (normalize (x, y, z)) /\ veq (vscale (x + y + z) (normalize (x, y, z))) (x, y, z).
Proof.
  intros (Hx & Hy & Hz & Hs & Zr). unfold normalize, norm1.
  assert (Hn : Qabs x + Qabs y + Qabs z == x + y + z).
  { rewrite (Qabs_pos x), (Qabs_pos y), (Qabs_pos z) by assumption. reflexivity. }
  unfold on_boundary, on_simplex, has_zero, vec_red, vscale, veq. rewrite !Qred_correct, Hn.
  set (n := x + y + z) in *. assert (Hi : 0 < / n) by (apply Qinv_lt_0_compat; auto).
  unfold Qdiv. repeat split.
  - apply Qmult_le_0_compat; lra.
  - apply Qmult_le_0_compat; lra.
  - apply Qmult_le_0_compat; lra.
  - unfold n. field. fold n. lra.
  - destruct Zr as [Zr|[Zr|Zr]]; [left|right;left|right;right]; rewrite Zr; ring.
  - field. lra.
  - field. lra.
  - field. lra.
Qed.

(* the second intersection of the line through L and the centre with the triangle's boundary *)
Definition beyond_centre (L N : vec3) : Prop :=
  exists t, 0 < t /\ veq N (vadd centre (vscale t (vsub centre L))).

Lemma neg_finish (L V V' : vec3) : veq V V' -> on_boundary V' -> beyond_centre L V' ->
  on_boundary (normalize V) /\ beyond_centre L (normalize V).
Proof.
  destruct V as [[x y] z], V' as [[x' y'] z']. intros (E1 & E2 & E3) [(Hx & Hy & Hz & Hs) Zr] (t & Ht & Hc).
  assert (Px : 0 <= x) by lra. assert (Py : 0 <= y) by lra. assert (Pz : 0 <= z) by lra.
  assert (Ps : x + y + z == 1) by lra.
  pose proof (normalize_id x y z Px Py Pz Ps) as E.
  destruct (normalize (x, y, z)) as [[x2 y2] z2] eqn:EN. cbn in E. destruct E as (A & B & C).
  split.
  - unfold on_boundary, on_simplex, has_zero in *. repeat split; lra.
  - exists t. split; auto. destruct L as [[a b] c]. cbn in *. destruct Hc as (D & F & G). repeat split; lra.
Qed.

(* the unnormalised intersection point in each of the six cases of the search loop: with m the larger
   non-zero coordinate of L and d = 1/(3m-1) its components are a permutation of (m d, 0, (2m-1) d) *)
Ltac lp_solve Z H := unfold line_plane, vec_red, vadd, vscale, vsub, vdot, veq, centre, vO, vX, vY, vZ; rewrite !Qred_correct; repeat split; rewrite ?Z, ?H; field; lra.
Lemma lp_a0_Y a b c : a == 0 -> c == 1 - b -> 1 # 2 <= b ->
  veq (line_plane vY vO (vsub centre (a, b, c)) (a, b, c)) (b * / (3 * b - 1), 0, (2 * b - 1) * / (3 * b - 1)).
Proof. intros Z H Hm. lp_solve Z H. Qed.
Lemma lp_a0_Z a b c : a == 0 -> b == 1 - c -> 1 # 2 <= c ->
  veq (line_plane vZ vO (vsub centre (a, b, c)) (a, b, c)) (c * / (3 * c - 1), (2 * c - 1) * / (3 * c - 1), 0).
Proof. intros Z H Hm. lp_solve Z H. Qed.
Lemma lp_b0_Z a b c : b == 0 -> a == 1 - c -> 1 # 2 <= c ->
  veq (line_plane vZ vO (vsub centre (a, b, c)) (a, b, c)) ((2 * c - 1) * / (3 * c - 1), c * / (3 * c - 1), 0).
Proof. intros Z H Hm. lp_solve Z H. Qed.
Lemma lp_b0_X a b c : b == 0 -> c == 1 - a -> 1 # 2 <= a ->
  veq (line_plane vX vO (vsub centre (a, b, c)) (a, b, c)) (0, a * / (3 * a - 1), (2 * a - 1) * / (3 * a - 1)).
Proof. intros Z H Hm. lp_solve Z H. Qed.
Lemma lp_c0_X a b c : c == 0 -> b == 1 - a -> 1 # 2 <= a ->
  veq (line_plane vX vO (vsub centre (a, b, c)) (a, b, c)) (0, (2 * a - 1) * / (3 * a - 1), a * / (3 * a - 1)).
Proof. intros Z H Hm. lp_solve Z H. Qed.
Lemma lp_c0_Y a b c : c == 0 -> a == 1 - b -> 1 # 2 <= b ->
  veq (line_plane vY vO (vsub centre (a, b, c)) (a, b, c)) ((2 * b - 1) * / (3 * b - 1), 0, b * / (3 * b - 1)).
Proof. intros Z H Hm. lp_solve Z H. Qed.

Ltac neg_case lem Z H Hm m :=
  eexists; split; [reflexivity|];
  assert (Hdp : 0 < / (3 * m - 1)) by (apply Qinv_lt_0_compat; lra);
  assert (Hd : / (3 * m - 1) * (3 * m - 1) == 1) by (field; lra);
  apply (neg_finish _ _ _ (lem _ _ _ Z H Hm));
  [ unfold on_boundary, on_simplex, has_zero; set (d := / (3 * m - 1)) in *; repeat split; nra
  | exists (/ (3 * m - 1)); split; [exact Hdp|]; set (d := / (3 * m - 1)) in *; cbn; repeat split; nra ].

Theorem neg_lim_spec a b c : on_boundary (a, b, c) ->
  exists N, neg_lim (a, b, c) = Some N /\ on_boundary N /\ beyond_centre (a, b, c) N.
Proof.
  intros [(Ha & Hb & Hc & Hs) Zr]. unfold neg_lim, neg_lim_try.
  destruct (Qeq_bool (vdot (a, b, c) vX) 0) eqn:EX.
  { apply Qeq_bool_eq in EX. cbn in EX. assert (Za : a == 0) by lra. clear EX Zr.
    destruct (Qle_bool (dist2 vY (a, b, c)) (dist2 vZ (a, b, c))) eqn:EL.
    - apply Qle_bool_imp_le in EL. cbn in EL. assert (Hm : 1 # 2 <= b) by lra. clear EL.
      assert (H : c == 1 - b) by lra. neg_case lp_a0_Y Za H Hm b.
    - assert (EL' : ~ dist2 vY (a, b, c) <= dist2 vZ (a, b, c)) by (intros K; apply Qle_bool_iff in K; congruence).
      cbn in EL'. assert (Hm : 1 # 2 <= c) by lra. clear EL EL'.
      assert (H : b == 1 - c) by lra. neg_case lp_a0_Z Za H Hm c. }
  assert (Na : ~ a == 0). { intros K. apply Qeq_bool_neq in EX. apply EX. cbn. lra. } clear EX.
  destruct (Qeq_bool (vdot (a, b, c) vY) 0) eqn:EY.
  { apply Qeq_bool_eq in EY. cbn in EY. assert (Zb : b == 0) by lra. clear EY Zr.
    destruct (Qle_bool (dist2 vZ (a, b, c)) (dist2 vX (a, b, c))) eqn:EL.
    - apply Qle_bool_imp_le in EL. cbn in EL. assert (Hm : 1 # 2 <= c) by lra. clear EL.
      assert (H : a == 1 - c) by lra. neg_case lp_b0_Z Zb H Hm c.
    - assert (EL' : ~ dist2 vZ (a, b, c) <= dist2 vX (a, b, c)) by (intros K; apply Qle_bool_iff in K; congruence).
      cbn in EL'. assert (Hm : 1 # 2 <= a) by lra. clear EL EL'.
      assert (H : c == 1 - a) by lra. neg_case lp_b0_X Zb H Hm a. }
  assert (Nb : ~ b == 0). { intros K. apply Qeq_bool_neq in EY. apply EY. cbn. lra. } clear EY.
  assert (Zc : c == 0) by (destruct Zr as [K|[K|K]]; [contradiction|contradiction|exact K]). clear Zr.
  assert (EZ : Qeq_bool (vdot (a, b, c) vZ) 0 = true) by (apply Qeq_eq_bool; cbn; lra). rewrite EZ.
  destruct (Qle_bool (dist2 vX (a, b, c)) (dist2 vY (a, b, c))) eqn:EL.
  - apply Qle_bool_imp_le in EL. cbn in EL. assert (Hm : 1 # 2 <= a) by lra. clear EL.
    assert (H : b == 1 - a) by lra. neg_case lp_c0_X Zc H Hm a.
  - assert (EL' : ~ dist2 vX (a, b, c) <= dist2 vY (a, b, c)) by (intros K; apply Qle_bool_iff in K; congruence).
    cbn in EL'. assert (Hm : 1 # 2 <= b) by lra. clear EL EL'.
    assert (H : a == 1 - b) by lra. neg_case lp_c0_Y Zc H Hm b.
Qed.

Lemma on_simplex_centre : on_simplex centre.
Proof. cbn. repeat split; lra. Qed.
Lemma convex_simplex t u v : 0 <= t <= 1 -> on_simplex u -> on_simplex v ->
  on_simplex (vadd (vscale t u) (vscale (1 - t) v)).
Proof.
  destruct u as [[a b] c], v as [[x y] z]. cbn. intros [T0 T1] (A & B & C & S1) (X & Y & Z & S2).
  repeat split; try (apply (Qle_trans _ (0 + 0)); [lra|apply Qplus_le_compat; apply Qmult_le_0_compat; lra]).
  setoid_replace (t * a + (1 - t) * x + (t * b + (1 - t) * y) + (t * c + (1 - t) * z))
    with (t * (a + b + c) + (1 - t) * (x + y + z)) by ring. rewrite S1, S2. ring.
Qed.

Lemma veq_sym u v : veq u v -> veq v u.
Proof. destruct u as [[a b] c], v as [[x y] z]. cbn. intros (A & B & C). repeat split; symmetry; auto. Qed.
Lemma on_simplex_veq u v : veq u v -> on_simplex u -> on_simplex v.
Proof. destruct u as [[a b] c], v as [[x y] z]. cbn. intros (A & B & C) (P1 & P2 & P3 & P4). repeat split; lra. Qed.
Lemma on_simplex_red v : on_simplex v -> on_simplex (vec_red v).
Proof. apply on_simplex_veq, veq_sym, vec_red_veq. Qed.

(* the ratio lies on the segment centre -> lim (pos >= 0) or centre -> neg_lim (pos < 0) at parameter |pos|,
   neg_lim being the second intersection of the line lim-centre with the boundary of the triangle *)
Theorem ratio_spec L pos : on_boundary L -> -(1) <= pos <= 1 ->
  exists r, ratio L pos = Some r /\ on_simplex r /\
    (0 <= pos -> veq r (vadd centre (vscale pos (vsub L centre)))) /\
    (pos < 0 -> exists N, neg_lim L = Some N /\ on_boundary N /\ beyond_centre L N /\
                          veq r (vadd centre (vscale (- pos) (vsub N centre)))).
Proof.
  intros HL [P0 P1]. unfold ratio. destruct (Qle_bool 0 pos) eqn:E.
  - apply Qle_bool_imp_le in E. eexists. split; [reflexivity|].
    pose proof (Qabs_pos pos E) as Hq. set (q := Qabs pos) in *. split; [|split].
    + apply on_simplex_red, convex_simplex; [lra|apply HL|apply on_simplex_centre].
    + intros _. eapply veq_trans; [apply vec_red_veq|]. destruct L as [[a b] c]. cbn. repeat split; rewrite Hq; ring.
    + intros K. lra.
  - assert (Hneg : pos < 0). { apply Qnot_le_lt. intros K. apply Qle_bool_iff in K. congruence. }
    destruct L as [[a b] c]. destruct (neg_lim_spec a b c HL) as (N & EN & BN & CN). rewrite EN.
    eexists. split; [reflexivity|].
    assert (Hq : Qabs pos == - pos) by (apply Qabs_neg; lra). set (q := Qabs pos) in *. split; [|split].
    + apply on_simplex_red, convex_simplex; [lra|apply BN|apply on_simplex_centre].
    + intros K. lra.
    + intros _. exists N. repeat split; auto; try apply BN. eapply veq_trans; [apply vec_red_veq|].
      destruct N as [[x y] z]. cbn. repeat split; rewrite Hq; ring.
Qed.

Theorem slice_spec lim pos p : adm_lim lim -> -(1) <= pos <= 1 -> 0 <= p <= 1 ->
  exists d r, slice lim pos p = Some d /\ ratio (normalize lim) pos = Some r /\ on_simplex r /\
    simplex d /\ dI d == 1 - p /\
    (let '(rx, ry, rz) := r in dX d == rx * p /\ dY d == ry * p /\ dZ d == rz * p).
Proof.
  destruct lim as [[l1 l2] l3]. intros HA HP [H0 H1]. destruct (normalize_adm l1 l2 l3 HA) as [HB _].
  destruct (ratio_spec _ pos HB HP) as (r & Er & Sr & _). unfold slice. rewrite Er.
  destruct r as [[rx ry] rz]. cbn in Sr. destruct Sr as (X & Y & Z & S).
  eexists. exists (rx, ry, rz). split; [reflexivity|]. split; [reflexivity|]. split; [cbn; auto|].
  assert (Es : rx * p + ry * p + rz * p == p). { setoid_replace (rx * p + ry * p + rz * p) with ((rx + ry + rz) * p) by ring. rewrite S. ring. }
  split; [|split].
  - apply of_xyz_simplex; try (apply Qmult_le_0_compat; lra). lra.
  - cbn. lra.
  - cbn. repeat split; reflexivity.
Qed.

(* special cases *)
Theorem slice_pos0_is_depolarizing lim p : exists d, slice lim 0 p = Some d /\ deq d (depolarizing p).
Proof.
  unfold slice, ratio. change (Qle_bool 0 0) with true. cbv iota. change (Qabs 0) with 0.
  destruct (normalize lim) as [[a b] c]. cbn. eexists. split; [reflexivity|].
  unfold deq, depolarizing, of_xyz; cbn. rewrite !Qred_correct. repeat split; field.
Qed.
Theorem slice_unit_lim_x c p : 0 < c -> exists d, slice (c, 0, 0) 1 p = Some d /\ deq d (bit_flip p).
Proof.
  intros Hc. assert (Hn : norm1 (c, 0, 0) == c).
  { unfold norm1. change (Qabs 0) with 0. rewrite (Qabs_pos c) by lra. ring. }
  unfold slice, ratio, normalize. remember (norm1 (c, 0, 0)) as n eqn:En. clear En.
  change (Qle_bool 0 1) with true. cbv iota. change (Qabs 1) with 1. cbn. eexists. split; [reflexivity|].
  unfold deq, bit_flip, of_xyz; cbn. rewrite !Qred_correct. repeat split; rewrite ?Hn; field; lra.
Qed.
Theorem slice_unit_lim_y c p : 0 < c -> exists d, slice (0, c, 0) 1 p = Some d /\ deq d (bit_phase_flip p).
Proof.
  intros Hc. assert (Hn : norm1 (0, c, 0) == c).
  { unfold norm1. change (Qabs 0) with 0. rewrite (Qabs_pos c) by lra. ring. }
  unfold slice, ratio, normalize. remember (norm1 (0, c, 0)) as n eqn:En. clear En.
  change (Qle_bool 0 1) with true. cbv iota. change (Qabs 1) with 1. cbn. eexists. split; [reflexivity|].
  unfold deq, bit_phase_flip, of_xyz; cbn. rewrite !Qred_correct. repeat split; rewrite ?Hn; field; lra.
Qed.
Theorem slice_unit_lim_z c p : 0 < c -> exists d, slice (0, 0, c) 1 p = Some d /\ deq d (phase_flip p).
Proof.
  intros Hc. assert (Hn : norm1 (0, 0, c) == c).
  { unfold norm1. change (Qabs 0) with 0. rewrite (Qabs_pos c) by lra. ring. }
  unfold slice, ratio, normalize. remember (norm1 (0, 0, c)) as n eqn:En. clear En.
  change (Qle_bool 0 1) with true. cbv iota. change (Qabs 1) with 1. cbn. eexists. split; [reflexivity|].
  unfold deq, phase_flip, of_xyz; cbn. rewrite !Qred_correct. repeat split; rewrite ?Hn; field; lra.
Qed.

(* --- constructor domains --- *)
Lemma Qlt_bool_iff x y : Qlt_bool x y = true <-> x < y.
Proof.
  unfold Qlt_bool. destruct (Qle_bool y x) eqn:E; cbn; split; intros H; try discriminate; auto.
  - apply Qle_bool_imp_le in E. lra.
  - apply Qnot_le_lt. intros K. apply Qle_bool_iff in K. congruence.
Qed.
Theorem biased_ctor_accept b a :
  biased_ctor b a = Accept <-> exists q ax, b = PQ q /\ 0 < q /\ axis_of_arg a = Some ax.
Proof.
  unfold biased_ctor. split.
  - destruct b as [q| |n|]; try discriminate. destruct (Qlt_bool 0 q) eqn:E; [|discriminate].
    destruct (axis_of_arg a) as [ax|] eqn:EA; [|discriminate]. intros _. exists q, ax. repeat split; auto. now apply Qlt_bool_iff.
  - intros (q & ax & -> & Hq & ->). apply Qlt_bool_iff in Hq. now rewrite Hq.
Qed.
Theorem axis_of_arg_spec a ax : axis_of_arg a = Some ax <->
  exists c, a = AxStr [c] /\ match ax with AX => c = 88 \/ c = 120 | AY => c = 89 \/ c = 121 | AZ => c = 90 \/ c = 122 end%nat.
Proof.
  split.
  - destruct a as [[|c [|c' l]]|]; try discriminate. cbn.
    destruct (Nat.eqb c 88) eqn:E1; [apply Nat.eqb_eq in E1; intros [= <-]; exists c; auto|].
    destruct (Nat.eqb c 120) eqn:E2; [apply Nat.eqb_eq in E2; intros [= <-]; exists c; auto|].
    destruct (Nat.eqb c 89) eqn:E3; [apply Nat.eqb_eq in E3; intros [= <-]; exists c; auto|].
    destruct (Nat.eqb c 121) eqn:E4; [apply Nat.eqb_eq in E4; intros [= <-]; exists c; auto|].
    destruct (Nat.eqb c 90) eqn:E5; [apply Nat.eqb_eq in E5; intros [= <-]; exists c; auto|].
    destruct (Nat.eqb c 122) eqn:E6; [apply Nat.eqb_eq in E6; intros [= <-]; exists c; auto|]. discriminate.
  - intros (c & -> & H). destruct ax; destruct H as [-> | ->]; reflexivity.
Qed.
Theorem yx_ctor_accept b : yx_ctor b = Accept <-> exists q, b = PQ q /\ 0 <= q.
Proof.
  unfold yx_ctor. split.
  - destruct b as [q| |n|]; try discriminate. destruct (Qle_bool 0 q) eqn:E; [|discriminate].
    intros _. exists q. split; auto. now apply Qle_bool_imp_le.
  - intros (q & -> & Hq). apply Qle_bool_iff in Hq. now rewrite Hq.
Qed.
Lemma pos_ctor_accept pos : pos_ctor pos = Accept <-> exists q, pos = PQ q /\ -(1) <= q <= 1.
Proof.
  unfold pos_ctor. split.
  - destruct pos as [q| |n|]; try discriminate. destruct (Qle_bool (-(1)) q) eqn:E1; [|discriminate].
    destruct (Qle_bool q 1) eqn:E2; [|discriminate]. intros _. exists q. split; auto.
    split; now apply Qle_bool_imp_le.
  - intros (q & -> & H1 & H2). apply Qle_bool_iff in H1, H2. now rewrite H1, H2.
Qed.
Lemma is_nonneg_num_spec x : is_nonneg_num x = true <-> exists q, x = PQ q /\ 0 <= q.
Proof.
  split.
  - destruct x as [q| |n|]; try discriminate. cbn. intros H. exists q. split; auto. now apply Qle_bool_imp_le.
  - intros (q & -> & H). cbn. now apply Qle_bool_iff.
Qed.
Theorem slice_ctor_accept lim pos :
  slice_ctor lim pos = Accept <->
  exists x y z q, lim = LimSeq [PQ x; PQ y; PQ z] /\ adm_lim (x, y, z) /\ pos = PQ q /\ -(1) <= q <= 1.
Proof.
  unfold slice_ctor. split.
  - destruct lim as [l|]; [|discriminate].
    destruct l as [|u [|v [|w [|t l]]]]; try discriminate.
    cbn [length Nat.eqb andb forallb].
    destruct (is_nonneg_num u) eqn:Eu; [|rewrite andb_false_r; discriminate].
    destruct (is_nonneg_num v) eqn:Ev; [|rewrite andb_false_r; discriminate].
    destruct (is_nonneg_num w) eqn:Ew; [|rewrite andb_false_r; discriminate].
    apply is_nonneg_num_spec in Eu, Ev, Ew. destruct Eu as (x & -> & Hx), Ev as (y & -> & Hy), Ew as (z & -> & Hz).
    unfold count_nonzero. cbn [filter is_zero_num].
    destruct (Qeq_bool x 0) eqn:Ex, (Qeq_bool y 0) eqn:Ey, (Qeq_bool z 0) eqn:Ez; cbn; try discriminate;
      intros H; apply pos_ctor_accept in H; destruct H as (q & -> & Hq); exists x, y, z, q;
      repeat match goal with H : Qeq_bool _ 0 = true |- _ => apply Qeq_bool_eq in H
                           | H : Qeq_bool _ 0 = false |- _ => apply Qeq_bool_neq in H end;
      (split; [reflexivity|]); (split; [|split; [reflexivity|exact Hq]]); unfold adm_lim;
      (split; [exact Hx|]); (split; [exact Hy|]); (split; [exact Hz|]); split; try lra; auto.
  - intros (x & y & z & q & -> & (Hx & Hy & Hz & Hs & Zr) & -> & Hq).
    cbn [length Nat.eqb andb forallb is_nonneg_num].
    apply Qle_bool_iff in Hx, Hy, Hz. rewrite Hx, Hy, Hz. apply Qle_bool_iff in Hx, Hy, Hz.
    assert (P : pos_ctor (PQ q) = Accept) by (apply pos_ctor_accept; eauto). cbn [andb].
    unfold count_nonzero. cbn [filter is_zero_num].
    destruct (Qeq_bool x 0) eqn:Ex, (Qeq_bool y 0) eqn:Ey, (Qeq_bool z 0) eqn:Ez; cbn [negb length Nat.eqb orb andb]; auto;
      exfalso;
      repeat match goal with H : Qeq_bool _ 0 = true |- _ => apply Qeq_bool_eq in H
                           | H : Qeq_bool _ 0 = false |- _ => apply Qeq_bool_neq in H end.
    + lra.
    + destruct Zr as [K|[K|K]]; auto.
Qed.
(* F4 delimited: the sign-less test accepts exactly the documented domain plus limits with a negative or
   non-finite entry *)
Theorem slice_ctor_unsigned_spec lim pos :
  slice_ctor lim pos = Accept <->
  slice_ctor_unsigned lim pos = Accept /\ exists l, lim = LimSeq l /\ forallb is_nonneg_num l = true.
Proof.
  unfold slice_ctor, slice_ctor_unsigned. destruct lim as [l|]; [|split; [discriminate|intros [K _]; discriminate]].
  destruct (Nat.eqb (length l) 3 && (Nat.eqb (count_nonzero l) 1 || Nat.eqb (count_nonzero l) 2)) eqn:E1; cbn [andb].
  - destruct (forallb is_nonneg_num l) eqn:E2.
    + split; [intros H; split; eauto|tauto].
    + split; [discriminate|]. intros (_ & l' & [= <-] & K). congruence.
  - split; [discriminate|intros [K _]; discriminate].
Qed.

(* reduced outputs for the extracted engine *)
Definition dist_red (d : dist) : dist := mkD (Qred (dI d)) (Qred (dX d)) (Qred (dY d)) (Qred (dZ d)).
Lemma dist_red_deq d : deq (dist_red d) d.
Proof. unfold deq, dist_red; cbn. repeat split; apply Qred_correct. Qed.

(* ------------------------------------------------------------------ *)
(* verified checkers used by the tie: the implementation's floats, converted exactly to Q,
   are tested against the property and against the exact model.  The absolute tolerance t on the sum and
   on Pr(I) is 2^-50 for all models except biased-Y-X (2^-44: sqrt closed forms, conditioning ~ 1/bias) *)
Definition tol_abs : Q := 1 # (2 ^ 50).          (* 2^-50 *)
Definition tol_abs_yx : Q := 1 # (2 ^ 44).       (* 2^-44 *)
Definition tol_rel : Q := 1 # 1000000000.        (* 1e-9 *)
Definition tol_tiny : Q := 1 # (2 ^ 1070).       (* subnormal floor *)
Definition valid_dist_tol (t p : Q) (d : dist) : bool :=
  Qle_bool 0 (dI d) && Qle_bool 0 (dX d) && Qle_bool 0 (dY d) && Qle_bool 0 (dZ d)
  && Qle_bool (Qabs (total d - 1)) t && Qle_bool (Qabs (dI d - (1 - p))) t.
Definition valid_dist := valid_dist_tol tol_abs.
Theorem valid_dist_sound t p d : valid_dist_tol t p d = true ->
  nonneg d /\ Qabs (total d - 1) <= t /\ Qabs (dI d - (1 - p)) <= t.
Proof.
  unfold valid_dist_tol. rewrite !andb_true_iff. intros [[[[[A B] C] D] E] F].
  apply Qle_bool_imp_le in A, B, C, D, E, F. unfold nonneg. tauto.
Qed.
Definition close_entry (p impl model : Q) : bool :=
  Qle_bool (Qabs (impl - model)) (tol_rel * Qabs model + tol_abs * p + tol_tiny).
Definition close_dist_tol (t p : Q) (impl model : dist) : bool :=
  Qle_bool (Qabs (dI impl - dI model)) t
  && close_entry p (dX impl) (dX model) && close_entry p (dY impl) (dY model) && close_entry p (dZ impl) (dZ model).
Definition close_dist := close_dist_tol tol_abs.
Theorem close_dist_sound t p impl model : close_dist_tol t p impl model = true ->
  Qabs (dI impl - dI model) <= t /\
  Qabs (dX impl - dX model) <= tol_rel * Qabs (dX model) + tol_abs * p + tol_tiny /\
  Qabs (dY impl - dY model) <= tol_rel * Qabs (dY model) + tol_abs * p + tol_tiny /\
  Qabs (dZ impl - dZ model) <= tol_rel * Qabs (dZ model) + tol_abs * p + tol_tiny.
Proof.
  unfold close_dist_tol, close_entry. rewrite !andb_true_iff. intros [[[A B] C] D].
  apply Qle_bool_imp_le in A, B, C, D. tauto.
Qed.
