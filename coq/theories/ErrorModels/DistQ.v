(* ErrorModels/DistQ.v — exact rational models of the IID error models'
   probability_distribution (generic/_simpleerrormodel.py, _biasederrormodel.py,
   _sliceerrormodel.py) and of their constructor domains, with the C16 theorems.
   Q is used with its setoid equality ==. *)
From Coq Require Import QArith Qabs Lqa List Bool.
Import ListNotations.
Open Scope Q_scope.

(* ------------------------------------------------------------------ *)
(* distributions (Pr(I), Pr(X), Pr(Y), Pr(Z))                          *)
Record dist := mkD { dI : Q; dX : Q; dY : Q; dZ : Q }.
Definition deq (a b : dist) : Prop := dI a == dI b /\ dX a == dX b /\ dY a == dY b /\ dZ a == dZ b.
Definition nonneg (d : dist) : Prop := 0 <= dI d /\ 0 <= dX d /\ 0 <= dY d /\ 0 <= dZ d.
Definition total (d : dist) : Q := dI d + dX d + dY d + dZ d.
Definition simplex (d : dist) : Prop := nonneg d /\ total d == 1.
(* every model ends with  p_i = 1 - sum((p_x, p_y, p_z))  where sum starts from 0 *)
Definition of_xyz (x y z : Q) : dist := mkD (1 - (0 + x + y + z)) x y z.

Definition depolarizing (p : Q) : dist := let t := p / 3 in of_xyz t t t.
Definition bit_flip (p : Q) : dist := of_xyz p 0 0.
Definition phase_flip (p : Q) : dist := of_xyz 0 0 p.
Definition bit_phase_flip (p : Q) : dist := of_xyz 0 p 0.

Inductive axis := AX | AY | AZ.
Definition biased_lr (b p : Q) : Q := 1 / (2 * (b + 1)) * p.
Definition biased_hr (b p : Q) : Q := b / (b + 1) * p.
Definition biased (b : Q) (a : axis) (p : Q) : dist :=
  let lr := biased_lr b p in
  let hr := biased_hr b p in
  match a with AX => of_xyz hr lr lr | AY => of_xyz lr hr lr | AZ => of_xyz lr lr hr end.
(* the high-rate entry along the axis, and the two low-rate entries *)
Definition on_axis (a : axis) (d : dist) : Q := match a with AX => dX d | AY => dY d | AZ => dZ d end.
Definition off_axis (a : axis) (d : dist) : Q * Q :=
  match a with AX => (dY d, dZ d) | AY => (dX d, dZ d) | AZ => (dX d, dY d) end.

(* biased-Y-X: the closed forms as a function of the root s of the discriminant
   (s = sqrt (-4p + (1+h+p-hp)^2); over Q the root is an argument, over R it is sqrt, see DistR.v) *)
Definition yx_disc (h p : Q) : Q := -(4) * p + (1 + h + p - h * p) * (1 + h + p - h * p).
Definition yx_rate_x (h p s : Q) : Q := if Qeq_bool h 0 then p else 1 / 2 * (1 + h + p - h * p - s).
Definition yx_rate_y (h p s : Q) : Q := if Qeq_bool h 0 then 0 else 1 / (2 * h) * (1 + h - p + h * p - s).
Definition yx_of_rates (rx ry : Q) : dist := of_xyz (rx * (1 - ry)) (ry * (1 - rx)) (rx * ry).
Definition biased_yx (h p s : Q) : dist := yx_of_rates (yx_rate_x h p s) (yx_rate_y h p s).

(* centre-slice *)
Notation vec3 := (Q * Q * Q)%type.
Definition vadd (u v : vec3) : vec3 := let '(a, b, c) := u in let '(x, y, z) := v in (a + x, b + y, c + z).
Definition vsub (u v : vec3) : vec3 := let '(a, b, c) := u in let '(x, y, z) := v in (a - x, b - y, c - z).
Definition vscale (s : Q) (v : vec3) : vec3 := let '(x, y, z) := v in (s * x, s * y, s * z).
Definition vdot (u v : vec3) : Q := let '(a, b, c) := u in let '(x, y, z) := v in a * x + b * y + c * z.
Definition veq (u v : vec3) : Prop := let '(a, b, c) := u in let '(x, y, z) := v in a == x /\ b == y /\ c == z.
Definition norm1 (v : vec3) : Q := let '(x, y, z) := v in Qabs x + Qabs y + Qabs z.
Definition normalize (v : vec3) : vec3 := let n := norm1 v in let '(x, y, z) := v in (x / n, y / n, z / n).
Definition vX : vec3 := (1, 0, 0).
Definition vY : vec3 := (0, 1, 0).
Definition vZ : vec3 := (0, 0, 1).
Definition vO : vec3 := (0, 0, 0).
Definition centre : vec3 := (1 # 3, 1 # 3, 1 # 3).
Definition dist2 (u v : vec3) : Q := let w := vsub u v in vdot w w.   (* squared Euclidean distance *)
Definition line_plane (pn pp ld lp : vec3) : vec3 :=
  let w := vsub lp pp in
  let si := - vdot pn w / vdot pn ld in
  vadd (vadd w (vscale si ld)) pp.
Definition neg_lim_try (L p1 p2 p3 : vec3) : option vec3 :=
  if Qeq_bool (vdot L p1) 0 then
    let pN := if Qle_bool (dist2 p2 L) (dist2 p3 L) then p2 else p3 in
    Some (normalize (line_plane pN vO (vsub centre L) L))
  else None.
(* None = QecsimError('Failed to find negative-limit.') *)
Definition neg_lim (L : vec3) : option vec3 :=
  match neg_lim_try L vX vY vZ with
  | Some r => Some r
  | None => match neg_lim_try L vY vZ vX with
            | Some r => Some r
            | None => neg_lim_try L vZ vX vY
            end
  end.
Definition ratio (L : vec3) (pos : Q) : option vec3 :=
  let lim := if Qle_bool 0 pos then Some L else neg_lim L in
  let a := Qabs pos in
  match lim with
  | Some l => Some (vadd (vscale a l) (vscale (1 - a) centre))
  | None => None
  end.
Definition slice (lim : vec3) (pos p : Q) : option dist :=
  match ratio (normalize lim) pos with
  | Some (rx, ry, rz) => Some (of_xyz (rx * p) (ry * p) (rz * p))
  | None => None
  end.

(* ------------------------------------------------------------------ *)
(* constructor domains as decision functions                           *)
Inductive pynum := PQ (q : Q) | PNaN | PInf (negative : bool) | PNotNum.  (* PNotNum: comparison raises TypeError *)
Inductive ctor_res := Accept | RaiseValue | RaiseType.
Definition Qlt_bool (x y : Q) : bool := negb (Qle_bool y x).
(* axis argument: a string given by its character codes, or some other object *)
Inductive axis_arg := AxStr (codes : list nat) | AxOther.
Definition axis_of_arg (a : axis_arg) : option axis :=
  match a with
  | AxStr [c] => if Nat.eqb c 88 || Nat.eqb c 120 then Some AX
                 else if Nat.eqb c 89 || Nat.eqb c 121 then Some AY
                 else if Nat.eqb c 90 || Nat.eqb c 122 then Some AZ else None
  | _ => None
  end.
(* BiasedDepolarizingErrorModel.__init__: bias > 0 and finite, then axis *)
Definition biased_ctor (bias : pynum) (a : axis_arg) : ctor_res :=
  match bias with
  | PNotNum => RaiseType
  | PQ q => if Qlt_bool 0 q then match axis_of_arg a with Some _ => Accept | None => RaiseValue end else RaiseValue
  | PNaN | PInf _ => RaiseValue
  end.
(* BiasedYXErrorModel.__init__: bias >= 0 and finite *)
Definition yx_ctor (bias : pynum) : ctor_res :=
  match bias with
  | PNotNum => RaiseType
  | PQ q => if Qle_bool 0 q then Accept else RaiseValue
  | PNaN | PInf _ => RaiseValue
  end.
(* CenterSliceErrorModel.__init__, documented domain: lim a 3-tuple of (finite, non-negative) numbers with
   1 or 2 zeros — a point of the closed triangle's boundary after normalisation — then -1 <= pos <= 1 *)
Inductive lim_arg := LimSeq (l : list pynum) | LimNotSized.
Definition is_zero_num (x : pynum) : bool := match x with PQ q => Qeq_bool q 0 | _ => false end.
Definition is_nonneg_num (x : pynum) : bool := match x with PQ q => Qle_bool 0 q | _ => false end.
Definition count_nonzero (l : list pynum) : nat := length (filter (fun x => negb (is_zero_num x)) l).
Definition pos_ctor (pos : pynum) : ctor_res :=
  match pos with
  | PNotNum => RaiseType
  | PQ q => if Qle_bool (-(1)) q && Qle_bool q 1 then Accept else RaiseValue
  | PNaN | PInf _ => RaiseValue
  end.
Definition slice_ctor (lim : lim_arg) (pos : pynum) : ctor_res :=
  match lim with
  | LimNotSized => RaiseType
  | LimSeq l =>
      if Nat.eqb (length l) 3 && (Nat.eqb (count_nonzero l) 1 || Nat.eqb (count_nonzero l) 2)
         && forallb is_nonneg_num l
      then pos_ctor pos else RaiseValue
  end.
(* what the code at the pinned commit tests (no sign / finiteness test on lim): used to delimit defect F4 *)
Definition slice_ctor_unsigned (lim : lim_arg) (pos : pynum) : ctor_res :=
  match lim with
  | LimNotSized => RaiseType
  | LimSeq l =>
      if Nat.eqb (length l) 3 && (Nat.eqb (count_nonzero l) 1 || Nat.eqb (count_nonzero l) 2)
      then pos_ctor pos else RaiseValue
  end.

(* ================================================================== *)
(* Theorems                                                            *)
Lemma of_xyz_total x y z : total (of_xyz x y z) == 1.
Proof. unfold total, of_xyz; cbn. ring. Qed.
Lemma of_xyz_simplex x y z : 0 <= x -> 0 <= y -> 0 <= z -> x + y + z <= 1 -> simplex (of_xyz x y z).
Proof. intros. split; [|apply of_xyz_total]. unfold nonneg, of_xyz; cbn. repeat split; auto. lra. Qed.

(* --- simple models --- *)
Theorem depolarizing_simplex p : 0 <= p <= 1 -> simplex (depolarizing p).
Proof. intros [H0 H1]. unfold depolarizing. assert (E : p / 3 == p * (1 # 3)) by (field). 
  apply of_xyz_simplex; try (rewrite E; lra). Qed.
Theorem depolarizing_pI p : dI (depolarizing p) == 1 - p.
Proof. unfold depolarizing, of_xyz; cbn. field. Qed.
Theorem depolarizing_thirds p : dX (depolarizing p) == p / 3 /\ dY (depolarizing p) == p / 3 /\ dZ (depolarizing p) == p / 3
  /\ 3 * dX (depolarizing p) == p.
Proof. unfold depolarizing, of_xyz; cbn. repeat split; try reflexivity. field. Qed.
Theorem bit_flip_spec p : 0 <= p <= 1 -> simplex (bit_flip p) /\ deq (bit_flip p) (mkD (1 - p) p 0 0).
Proof. intros [H0 H1]. split; [unfold bit_flip; apply of_xyz_simplex; lra|]. unfold deq, bit_flip, of_xyz; cbn. repeat split; try reflexivity. ring. Qed.
Theorem phase_flip_spec p : 0 <= p <= 1 -> simplex (phase_flip p) /\ deq (phase_flip p) (mkD (1 - p) 0 0 p).
Proof. intros [H0 H1]. split; [unfold phase_flip; apply of_xyz_simplex; lra|]. unfold deq, phase_flip, of_xyz; cbn. repeat split; try reflexivity. ring. Qed.
Theorem bit_phase_flip_spec p : 0 <= p <= 1 -> simplex (bit_phase_flip p) /\ deq (bit_phase_flip p) (mkD (1 - p) 0 p 0).
Proof. intros [H0 H1]. split; [unfold bit_phase_flip; apply of_xyz_simplex; lra|]. unfold deq, bit_phase_flip, of_xyz; cbn. repeat split; try reflexivity. ring. Qed.

(* --- biased depolarizing --- *)
Lemma biased_lr_nonneg b p : 0 < b -> 0 <= p -> 0 <= biased_lr b p.
Proof. intros Hb Hp. unfold biased_lr. assert (0 < 2 * (b + 1)) by lra.
  assert (0 < / (2 * (b + 1))) by (apply Qinv_lt_0_compat; auto). unfold Qdiv.
  apply Qmult_le_0_compat; [|exact Hp]. lra. Qed.
Lemma biased_hr_nonneg b p : 0 < b -> 0 <= p -> 0 <= biased_hr b p.
Proof. intros Hb Hp. unfold biased_hr. assert (0 < b + 1) by lra.
  assert (0 < / (b + 1)) by (apply Qinv_lt_0_compat; auto). unfold Qdiv.
  apply Qmult_le_0_compat; [|exact Hp]. apply Qmult_le_0_compat; lra. Qed.
Lemma biased_rates_sum b p : 0 < b -> biased_lr b p + biased_hr b p + biased_lr b p == p.
Proof. intros Hb. unfold biased_lr, biased_hr. field. lra. Qed.
Theorem biased_simplex b a p : 0 < b -> 0 <= p <= 1 -> simplex (biased b a p).
Proof.
  intros Hb [H0 H1]. pose proof (biased_lr_nonneg b p Hb H0). pose proof (biased_hr_nonneg b p Hb H0).
  pose proof (biased_rates_sum b p Hb). destruct a; unfold biased; apply of_xyz_simplex; auto; lra.
Qed.
Theorem biased_pI b a p : 0 < b -> dI (biased b a p) == 1 - p.
Proof. intros Hb. pose proof (biased_rates_sum b p Hb). destruct a; unfold biased, of_xyz; cbn [dI]; lra. Qed.
(* bias = high rate / sum of the two (equal) low rates, division free and as a quotient *)
Theorem biased_ratio b a p : 0 < b ->
  let d := biased b a p in
  fst (off_axis a d) == snd (off_axis a d) /\ on_axis a d == b * (fst (off_axis a d) + snd (off_axis a d)).
Proof. intros Hb. destruct a; cbn; (split; [reflexivity|]); unfold biased_hr, biased_lr; field; lra. Qed.
Theorem biased_ratio_div b a p : 0 < b -> 0 < p ->
  let d := biased b a p in on_axis a d / (fst (off_axis a d) + snd (off_axis a d)) == b.
Proof. intros Hb Hp. destruct a; cbn; unfold biased_hr, biased_lr; field; split; lra. Qed.
Theorem biased_half_is_depolarizing a p : deq (biased (1 # 2) a p) (depolarizing p).
Proof. destruct a; unfold deq, biased, depolarizing, of_xyz, biased_lr, biased_hr; cbn; repeat split; field. Qed.

