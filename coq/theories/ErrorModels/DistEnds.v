(* ErrorModels/DistEnds.v — two additions to the exact model of C16 (ErrorModels/DistQ.v):

   1. END POINTS.  The closed values of every model at p = 0 and p = 1.  For biased-Y-X the discriminant vanishes at
      p = 1 (root s = 0) and both flip rates are exactly 1, so the distribution is (0, 0, 0, 1) for every bias > 0:
      the model is a total function there (no 0/0), which is what the harness demands of the implementation at the
      end points.  At p = 0 the root is 1 + bias and every model gives (1, 0, 0, 0).

   2. OBJECTS.  An error-model object as the harness drives it: immutable parameters plus a memo table of the
      distributions already handed out (functools.lru_cache on probability_distribution / ratio / neg_lim), operated
      by a history of "distribution at p" and "read attribute" operations.  Theorem: whatever the history, every
      answer is the pure function of (parameters, p) and every attribute read is the function of the parameters —
      the specification against which the object-reuse histories of harness/c16.py are compared.

   3. CALLER-OWNED CONSTRUCTOR ARGUMENTS.  A world of caller-owned buffers and objects constructed from them; the
      caller refills its buffers at any time.  Theorems: every answer is the pure function of the snapshot taken at
      construction (world_snapshot), a refill changes no later answer (refill_invisible), only the caller writes to
      the buffers (buffers_only_caller). *)
From Coq Require Import QArith Qabs Qreduction Lqa List Bool.
From QV Require Import ErrorModels.DistQ.
Import ListNotations.
Open Scope Q_scope.

(* ------------------------------------------------------------------ *)
(* 1. end points                                                       *)
Definition d_none : dist := mkD 1 0 0 0.    (* p = 0: no error *)

Lemma depolarizing_p0 : deq (depolarizing 0) d_none.
Proof. unfold deq, depolarizing, of_xyz, d_none; cbn. repeat split; reflexivity. Qed.
Lemma depolarizing_p1 : deq (depolarizing 1) (mkD 0 (1 # 3) (1 # 3) (1 # 3)).
Proof. unfold deq, depolarizing, of_xyz; cbn. repeat split; reflexivity. Qed.

Lemma biased_p0 b a : 0 < b -> deq (biased b a 0) d_none.
Proof.
  intros Hb. unfold deq, biased, biased_lr, biased_hr, of_xyz, d_none.
  destruct a; cbn [dI dX dY dZ]; repeat split; field; lra.
Qed.
Lemma biased_p1 b a : 0 < b -> dI (biased b a 1) == 0 /\ on_axis a (biased b a 1) == b / (b + 1).
Proof.
  intros Hb. unfold biased, biased_lr, biased_hr, of_xyz, on_axis.
  destruct a; cbn [dI dX dY dZ]; split; field; lra.
Qed.

Lemma yx_disc_p1 h : yx_disc h 1 == 0.
Proof. unfold yx_disc. ring. Qed.
Lemma yx_disc_p0 h : yx_disc h 0 == (1 + h) * (1 + h).
Proof. unfold yx_disc. ring. Qed.

(* p = 1, bias > 0: both rates are 1 and the distribution is pure Z; nothing is divided by 1 - rate *)
Theorem yx_p1 h : 0 < h ->
  yx_rate_x h 1 0 == 1 /\ yx_rate_y h 1 0 == 1 /\ deq (biased_yx h 1 0) (mkD 0 0 0 1).
Proof.
  intros Hh.
  assert (E : Qeq_bool h 0 = false).
  { destruct (Qeq_bool h 0) eqn:E; [apply Qeq_bool_eq in E; lra | reflexivity]. }
  assert (Rx : yx_rate_x h 1 0 == 1) by (unfold yx_rate_x; rewrite E; field).
  assert (Ry : yx_rate_y h 1 0 == 1) by (unfold yx_rate_y; rewrite E; field; lra).
  split; [exact Rx | split; [exact Ry |]].
  unfold deq, biased_yx, yx_of_rates, of_xyz; cbn [dI dX dY dZ].
  rewrite Rx, Ry. repeat split; ring.
Qed.
(* p = 1, bias = 0: pure X *)
Lemma yx_p1_zero_bias s : deq (biased_yx 0 1 s) (mkD 0 1 0 0).
Proof. unfold deq, biased_yx, yx_of_rates, yx_rate_x, yx_rate_y, of_xyz; cbn. repeat split; reflexivity. Qed.
(* p = 0: the root is 1 + bias, both rates are 0 *)
Theorem yx_p0 h : 0 <= h -> deq (biased_yx h 0 (1 + h)) d_none.
Proof.
  intros Hh. unfold deq, biased_yx, yx_of_rates, yx_rate_x, yx_rate_y, of_xyz, d_none; cbn [dI dX dY dZ].
  destruct (Qeq_bool h 0) eqn:E.
  - repeat split; ring.
  - assert (Hn : ~ h == 0) by (intro K; apply Qeq_eq_bool in K; congruence).
    repeat split; field; exact Hn.
Qed.

(* centre-slice: whatever the ratio, p = 0 gives no error and p = 1 gives Pr(I) = 1 - (rx + ry + rz) *)
Lemma slice_p0 lim pos d : slice lim pos 0 = Some d -> deq d d_none.
Proof.
  unfold slice. destruct (ratio (normalize lim) pos) as [[[rx ry] rz]|]; [|discriminate].
  intros H; injection H as <-. unfold deq, of_xyz, d_none; cbn [dI dX dY dZ]. repeat split; ring.
Qed.
Lemma slice_p1 lim pos : adm_lim lim -> -(1) <= pos <= 1 ->
  exists d, slice lim pos 1 = Some d /\ simplex d /\ dI d == 0.
Proof.
  intros Ha Hp. destruct (slice_spec lim pos 1 Ha Hp) as (d & r & Hs & _ & _ & Hsx & HI & _); [lra|].
  exists d. repeat split; try exact Hs; try apply Hsx. rewrite HI. ring.
Qed.

(* ------------------------------------------------------------------ *)
(* 2. objects with a memo table, driven by a history                   *)
Section Objects.
  Variables (P K A D : Type).            (* parameters, keys (binary64 probabilities), attribute values, answers *)
  Variable keqb : K -> K -> bool.
  Hypothesis keqb_eq : forall a b, keqb a b = true <-> a = b.
  Variable f : P -> K -> D.              (* the distribution as a pure function *)
  Variable attrs : P -> A.               (* the attribute values as a function of the constructor arguments *)

  Inductive op := OpPD (p : K) | OpAttr.
  Inductive obs := ObsD (d : D) | ObsA (a : A).
  Record obj := mkObj { params : P; memo : list (K * D) }.

  Fixpoint lookup (p : K) (m : list (K * D)) : option D :=
    match m with
    | [] => None
    | (k, d) :: r => if keqb p k then Some d else lookup p r
    end.
  Definition step (o : obj) (x : op) : obj * obs :=
    match x with
    | OpPD p => match lookup p (memo o) with
                | Some d => (o, ObsD d)
                | None => let d := f (params o) p in (mkObj (params o) ((p, d) :: memo o), ObsD d)
                end
    | OpAttr => (o, ObsA (attrs (params o)))
    end.
  Fixpoint run (o : obj) (h : list op) : list obs :=
    match h with
    | [] => []
    | x :: r => let '(o', y) := step o x in y :: run o' r
    end.
  Definition spec (ps : P) (x : op) : obs :=
    match x with OpPD p => ObsD (f ps p) | OpAttr => ObsA (attrs ps) end.
  Definition memo_ok (o : obj) : Prop := forall k d, In (k, d) (memo o) -> d = f (params o) k.

  Lemma lookup_in p m d : lookup p m = Some d -> In (p, d) m.
  Proof.
    induction m as [|[k e] r IH]; cbn; [discriminate|].
    destruct (keqb p k) eqn:E.
    - intros H; injection H as <-. apply keqb_eq in E. subst. now left.
    - intros H. right. now apply IH.
  Qed.
  Lemma step_spec o x : memo_ok o ->
    snd (step o x) = spec (params o) x /\ params (fst (step o x)) = params o /\ memo_ok (fst (step o x)).
  Proof.
    intros Hm. destruct x as [p|]; cbn.
    - destruct (lookup p (memo o)) as [d|] eqn:E; cbn.
      + repeat split; try exact Hm. f_equal. apply Hm. now apply lookup_in.
      + repeat split. intros k d [H|H]; cbn in *.
        * injection H as <- <-. reflexivity.
        * now apply Hm.
    - repeat split. exact Hm.
  Qed.
  (* every answer of every history is the pure function of the parameters; the parameters never change *)
  Theorem run_history_independent h : forall o, memo_ok o -> run o h = map (spec (params o)) h.
  Proof.
    induction h as [|x r IH]; intros o Hm; [reflexivity|].
    cbn [run map]. destruct (step_spec o x Hm) as (Hy & Hp & Hm').
    destruct (step o x) as [o' y]; cbn in *. rewrite Hy, (IH o' Hm'), Hp. reflexivity.
  Qed.
  Corollary fresh_object_history ps h : run (mkObj ps []) h = map (spec ps) h.
  Proof. apply (run_history_independent h (mkObj ps [])). intros k d []. Qed.
  (* in particular an answer does not depend on what was asked before, nor on how often *)
  Corollary answer_independent_of_prefix ps h1 h2 p :
    nth_error (run (mkObj ps []) (h1 ++ OpPD p :: h2)) (length h1) = Some (ObsD (f ps p)).
  Proof.
    rewrite fresh_object_history, map_app, nth_error_app2; rewrite map_length; [|apply Nat.le_refl].
    rewrite Nat.sub_diag. reflexivity.
  Qed.
End Objects.

(* ------------------------------------------------------------------ *)
(* 3. constructor arguments owned by the caller                        *)
(* The caller keeps the object it passed to the constructor (a list / an ndarray) and goes on writing to it: a sweep
   refills one buffer and builds one model per step.  World = the caller's buffers + the objects built so far.
   `conv` is the constructor (validation + conversion of what the argument holds at that moment; None = rejected).
   Operations: the caller (re)fills a buffer, an object is constructed from a buffer, distribution / attribute queries.
   Theorems: (world_snapshot) every answer is the pure function of the SNAPSHOT conv(content at construction time):
   the world with live, memoising objects is observationally equal to the memo-free world whose objects are immutable
   parameter snapshots; (refill_invisible) a refill changes no later answer of the objects already built;
   (buffers_only_caller) the buffers hold what the caller last wrote: no constructor or query writes to them. *)
Section World.
  Variables (V P K A D : Type).
  Variable keqb : K -> K -> bool.
  Hypothesis keqb_eq : forall a b, keqb a b = true <-> a = b.
  Variable f : P -> K -> D.
  Variable attrs : P -> A.
  Variable conv : V -> option P.

  Notation objT := (obj P K D).
  Notation ostep := (step P K A D keqb f attrs).
  Notation omemo_ok := (memo_ok P K D f).

  Inductive wop := WFill (b : nat) (v : V) | WNew (b : nat) | WPD (i : nat) (p : K) | WAttr (i : nat).
  Inductive wobs := WDone | WRejected | WNoSuch | WD (d : D) | WA (a : A).
  Definition obs_of (y : obs A D) : wobs := match y with ObsD _ _ d => WD d | ObsA _ _ a => WA a end.

  Fixpoint set_nth {X} (n : nat) (x : X) (l : list (option X)) : list (option X) :=
    match n, l with
    | O, [] => [Some x]
    | O, _ :: r => Some x :: r
    | S n', [] => None :: set_nth n' x []
    | S n', y :: r => y :: set_nth n' x r
    end.
  Definition get {X} (n : nat) (l : list (option X)) : option X :=
    match nth_error l n with Some (Some x) => Some x | _ => None end.

  (* the world with live objects (memo tables) *)
  Record world := mkW { bufs : list (option V); objs : list (option objT) }.
  Definition wquery (w : world) (i : nat) (x : op K) : world * wobs :=
    match get i (objs w) with
    | None => (w, WNoSuch)
    | Some o => let '(o', y) := ostep o x in (mkW (bufs w) (set_nth i o' (objs w)), obs_of y)
    end.
  Definition wstep (w : world) (x : wop) : world * wobs :=
    match x with
    | WFill b v => (mkW (set_nth b v (bufs w)) (objs w), WDone)
    | WNew b => match get b (bufs w) with
                | None => (mkW (bufs w) (objs w ++ [None]), WNoSuch)
                | Some v => match conv v with
                            | Some ps => (mkW (bufs w) (objs w ++ [Some (mkObj P K D ps [])]), WDone)
                            | None => (mkW (bufs w) (objs w ++ [None]), WRejected)
                            end
                end
    | WPD i p => wquery w i (OpPD K p)
    | WAttr i => wquery w i (OpAttr K)
    end.
  Fixpoint wrun (w : world) (h : list wop) : list wobs :=
    match h with
    | [] => []
    | x :: r => let '(w', y) := wstep w x in y :: wrun w' r
    end.

  (* the specification: objects are immutable snapshots of the converted argument *)
  Record sworld := mkS { sbufs : list (option V); snaps : list (option P) }.
  Definition squery (s : sworld) (i : nat) (x : op K) : wobs :=
    match get i (snaps s) with
    | None => WNoSuch
    | Some ps => obs_of (spec P K A D f attrs ps x)
    end.
  Definition sstep (s : sworld) (x : wop) : sworld * wobs :=
    match x with
    | WFill b v => (mkS (set_nth b v (sbufs s)) (snaps s), WDone)
    | WNew b => match get b (sbufs s) with
                | None => (mkS (sbufs s) (snaps s ++ [None]), WNoSuch)
                | Some v => match conv v with
                            | Some ps => (mkS (sbufs s) (snaps s ++ [Some ps]), WDone)
                            | None => (mkS (sbufs s) (snaps s ++ [None]), WRejected)
                            end
                end
    | WPD i p => (s, squery s i (OpPD K p))
    | WAttr i => (s, squery s i (OpAttr K))
    end.
  Fixpoint srun (s : sworld) (h : list wop) : list wobs :=
    match h with
    | [] => []
    | x :: r => let '(s', y) := sstep s x in y :: srun s' r
    end.

  Definition oparams (o : option objT) : option P := option_map (params P K D) o.
  Definition abstract (w : world) : sworld := mkS (bufs w) (map oparams (objs w)).
  Definition world_ok (w : world) : Prop := forall o, In (Some o) (objs w) -> omemo_ok o.

  Lemma get_map {X Y} (g : X -> Y) i l : get i (map (option_map g) l) = option_map g (get i l).
  Proof.
    unfold get. rewrite nth_error_map. destruct (nth_error l i) as [[x|]|]; reflexivity.
  Qed.
  Lemma get_in {X} i (l : list (option X)) x : get i l = Some x -> In (Some x) l.
  Proof.
    unfold get. destruct (nth_error l i) as [[y|]|] eqn:E; try discriminate.
    intros H; injection H as <-. eapply nth_error_In; exact E.
  Qed.
  Lemma set_nth_map {X Y} (g : X -> Y) i x l :
    map (option_map g) (set_nth i x l) = set_nth i (g x) (map (option_map g) l).
  Proof.
    revert l; induction i as [|i IH]; intros [|y r]; cbn; try reflexivity.
    - f_equal. apply (IH []).
    - f_equal. apply IH.
  Qed.
  Lemma set_nth_same {X} i (x : X) l : get i l = Some x -> set_nth i x l = l.
  Proof.
    unfold get. revert l; induction i as [|i IH]; intros [|y r]; cbn; try discriminate.
    - destruct y; [intros H; injection H as <-; reflexivity | discriminate].
    - intros H. f_equal. apply IH. exact H.
  Qed.
  Lemma in_set_nth {X} i (x : X) l y : In (Some y) (set_nth i x l) -> y = x \/ In (Some y) l.
  Proof.
    revert l; induction i as [|i IH]; intros [|z r]; cbn.
    - intros [H|[]]. injection H as <-. now left.
    - intros [H|H]; [injection H as <-; now left | right; now right].
    - intros [H|H]; [discriminate|]. destruct (IH [] H) as [E|[]]. now left.
    - intros [H|H]; [right; now left|]. destruct (IH r H) as [E|E]; [now left | right; now right].
  Qed.

  Lemma wquery_spec w i x : world_ok w ->
    snd (wquery w i x) = squery (abstract w) i x /\ abstract (fst (wquery w i x)) = abstract w /\ world_ok (fst (wquery w i x)).
  Proof.
    intros Hok. unfold wquery, squery, abstract; cbn [snaps sbufs].
    change (map oparams (objs w)) with (map (option_map (params P K D)) (objs w)).
    rewrite get_map. destruct (get i (objs w)) as [o|] eqn:G; cbn [option_map].
    - pose proof (get_in _ _ _ G) as Hin.
      destruct (step_spec P K A D keqb keqb_eq f attrs o x (Hok o Hin)) as (Hy & Hp & Hm).
      destruct (ostep o x) as [o' y]; cbn [fst snd bufs objs] in *.
      split; [now rewrite Hy|]. split.
      + f_equal. change (map oparams) with (map (option_map (params P K D))).
        rewrite set_nth_map, Hp. apply set_nth_same. rewrite get_map, G. reflexivity.
      + intros o2 H2. destruct (in_set_nth _ _ _ _ H2) as [->|H3]; [exact Hm | now apply Hok].
    - cbn. repeat split; try reflexivity. exact Hok.
  Qed.

  Lemma world_ok_app w o : world_ok w -> (forall o', o = Some o' -> omemo_ok o') ->
    world_ok (mkW (bufs w) (objs w ++ [o])).
  Proof.
    intros Hok Ho o2 H2; cbn in H2. apply in_app_or in H2. destruct H2 as [H2|[H2|[]]]; [now apply Hok | now apply Ho].
  Qed.

  Lemma wstep_spec w x : world_ok w ->
    snd (wstep w x) = snd (sstep (abstract w) x) /\ abstract (fst (wstep w x)) = fst (sstep (abstract w) x)
    /\ world_ok (fst (wstep w x)).
  Proof.
    intros Hok. destruct x as [b v|b|i p|i]; cbn [wstep sstep].
    - cbn. repeat split. exact Hok.
    - cbn [abstract sbufs snaps]. destruct (get b (bufs w)) as [v|]; [destruct (conv v) as [ps|]|]; cbn [fst snd];
        (split; [reflexivity|]; split;
         [unfold abstract; cbn [bufs objs]; rewrite map_app; reflexivity
         | apply world_ok_app; [exact Hok | intros o' E; try discriminate; injection E as <-; intros k d []]]).
    - destruct (wquery_spec w i (OpPD K p) Hok) as (H1 & H2 & H3). cbn [fst snd]. repeat split; assumption.
    - destruct (wquery_spec w i (OpAttr K) Hok) as (H1 & H2 & H3). cbn [fst snd]. repeat split; assumption.
  Qed.

  (* live, memoising objects built from caller-owned buffers answer exactly like immutable snapshots *)
  Theorem world_snapshot h : forall w, world_ok w -> wrun w h = srun (abstract w) h.
  Proof.
    induction h as [|x r IH]; intros w Hok; [reflexivity|].
    cbn [wrun srun]. destruct (wstep_spec w x Hok) as (Hy & Ha & Hok').
    destruct (wstep w x) as [w' y]; destruct (sstep (abstract w) x) as [s' y2]; cbn [fst snd] in *.
    subst y2 s'. f_equal. now apply IH.
  Qed.
  Corollary empty_world_snapshot h : wrun (mkW [] []) h = srun (mkS [] []) h.
  Proof. apply (world_snapshot h (mkW [] [])). intros o []. Qed.

  (* a refill is invisible to every object built before it *)
  Definition is_query (x : wop) : bool := match x with WPD _ _ | WAttr _ => true | _ => false end.
  Lemma srun_queries h : forallb is_query h = true ->
    forall s s', snaps s = snaps s' -> srun s h = srun s' h.
  Proof.
    induction h as [|x r IH]; intros Hq s s' E; [reflexivity|].
    cbn in Hq. apply andb_true_iff in Hq as [Hx Hr].
    destruct x as [b v|b|i p|i]; try discriminate; cbn [srun sstep]; unfold squery; rewrite E; f_equal; now apply IH.
  Qed.
  Theorem refill_invisible w b v h : world_ok w -> forallb is_query h = true ->
    wrun (fst (wstep w (WFill b v))) h = wrun w h.
  Proof.
    intros Hok Hq. destruct (wstep_spec w (WFill b v) Hok) as (_ & _ & Hok').
    rewrite (world_snapshot h _ Hok'), (world_snapshot h w Hok).
    apply srun_queries; [exact Hq | reflexivity].
  Qed.

  (* the buffers hold what the caller wrote last: constructors and queries never write to them *)
  Definition caller_writes (bs : list (option V)) (h : list wop) : list (option V) :=
    fold_left (fun bs x => match x with WFill b v => set_nth b v bs | _ => bs end) h bs.
  Fixpoint wfinal (w : world) (h : list wop) : world :=
    match h with [] => w | x :: r => wfinal (fst (wstep w x)) r end.
  Theorem buffers_only_caller h : forall w, bufs (wfinal w h) = caller_writes (bufs w) h.
  Proof.
    induction h as [|x r IH]; intros w; [reflexivity|].
    cbn [wfinal caller_writes fold_left]. rewrite IH. f_equal.
    destruct x as [b v|b|i p|i]; cbn [wstep]; try reflexivity.
    - destruct (get b (bufs w)) as [v|]; [destruct (conv v)|]; reflexivity.
    - unfold wquery. destruct (get i (objs w)) as [o|]; [destruct (ostep o (OpPD K p))|]; reflexivity.
    - unfold wquery. destruct (get i (objs w)) as [o|]; [destruct (ostep o (OpAttr K))|]; reflexivity.
  Qed.
End World.
