(* ErrorModels/DistEnds.v — two additions to the exact model of C16 (ErrorModels/DistQ.v):

   1. END POINTS.  The closed values of every model at p = 0 and p = 1.  For biased-Y-X the discriminant vanishes at
      p = 1 (root s = 0) and both flip rates are exactly 1, so the distribution is (0, 0, 0, 1) for every bias > 0:
      the model is a total function there (no 0/0), which is what the harness demands of the implementation at the
      end points.  At p = 0 the root is 1 + bias and every model gives (1, 0, 0, 0).

   2. OBJECTS.  An error-model object as the harness drives it: immutable parameters plus a memo table of the
      distributions already handed out (functools.lru_cache on probability_distribution / ratio / neg_lim), operated
      by a history of "distribution at p" and "read attribute" operations.  Theorem: whatever the history, every
      answer is the pure function of (parameters, p) and every attribute read is the function of the parameters —
      the specification against which the object-reuse histories of harness/c16.py are compared. *)
From Coq Require Import QArith Qabs Qreduction Lqa List Bool.
From QV Require Import ErrorModels.DistQ.
Import ListNotations.
Open Scope Q_scope.

(* ------------------------------------------------------------------ *)
(* 1. end points                                                       *)
Definition d_none : dist := mkD 1 0 0 0.    (* p = 0: no error *)

Lemma depolarizing_p0 : deq (depolarizing 0) d_none.
Proof. unfold deq, depolarizing, of_xyz, d_none; cbn. repeat split; reflexivity. Qed.
Lemma depolarizing_p1 : deq (depolarizing 1) (mkD 0 (1 # 3) (1 # 3) (1 # 3)).
Proof. unfold deq, depolarizing, of_xyz; cbn. repeat split; reflexivity. Qed.

Lemma biased_p0 b a : 0 < b -> deq (biased b a 0) d_none.
Proof.
  intros Hb. unfold deq, biased, biased_lr, biased_hr, of_xyz, d_none.
  destruct a; cbn [dI dX dY dZ]; repeat split; field; lra.
Qed.
Lemma biased_p1 b a : 0 < b -> dI (biased b a 1) == 0 /\ on_axis a (biased b a 1) == b / (b + 1).
Proof.
  intros Hb. unfold biased, biased_lr, biased_hr, of_xyz, on_axis.
  destruct a; cbn [dI dX dY dZ]; split; field; lra.
Qed.

Lemma yx_disc_p1 h : yx_disc h 1 == 0.
Proof. unfold yx_disc. ring. Qed.
Lemma yx_disc_p0 h : yx_disc h 0 == (1 + h) * (1 + h).
Proof. unfold yx_disc. ring. Qed.

(* p = 1, bias > 0: both rates are 1 and the distribution is pure Z; nothing is divided by 1 - rate *)
Theorem yx_p1 h : 0 < h ->
  yx_rate_x h 1 0 == 1 /\ yx_rate_y h 1 0 == 1 /\ deq (biased_yx h 1 0) (mkD 0 0 0 1).
Proof.
  intros Hh.
  assert (E : Qeq_bool h 0 = false).
  { destruct (Qeq_bool h 0) eqn:E; [apply Qeq_bool_eq in E; lra | reflexivity]. }
  assert (Rx : yx_rate_x h 1 0 == 1) by (unfold yx_rate_x; rewrite E; field).
  assert (Ry : yx_rate_y h 1 0 == 1) by (unfold yx_rate_y; rewrite E; field; lra).
  split; [exact Rx | split; [exact Ry |]].
  unfold deq, biased_yx, yx_of_rates, of_xyz; cbn [dI dX dY dZ].
  rewrite Rx, Ry. repeat split; ring.
Qed.
(* p = 1, bias = 0: pure X *)
Lemma yx_p1_zero_bias s : deq (biased_yx 0 1 s) (mkD 0 1 0 0).
Proof. unfold deq, biased_yx, yx_of_rates, yx_rate_x, yx_rate_y, of_xyz; cbn. repeat split; reflexivity. Qed.
(* p = 0: the root is 1 + bias, both rates are 0 *)
Theorem yx_p0 h : 0 <= h -> deq (biased_yx h 0 (1 + h)) d_none.
Proof.
  intros Hh. unfold deq, biased_yx, yx_of_rates, yx_rate_x, yx_rate_y, of_xyz, d_none; cbn [dI dX dY dZ].
  destruct (Qeq_bool h 0) eqn:E.
  - repeat split; ring.
  - assert (Hn : ~ h == 0) by (intro K; apply Qeq_eq_bool in K; congruence).
    repeat split; field; exact Hn.
Qed.

(* centre-slice: whatever the ratio, p = 0 gives no error and p = 1 gives Pr(I) = 1 - (rx + ry + rz) *)
Lemma slice_p0 lim pos d : slice lim pos 0 = Some d -> deq d d_none.
Proof.
  unfold slice. destruct (ratio (normalize lim) pos) as [[[rx ry] rz]|]; [|discriminate].
  intros H; injection H as <-. unfold deq, of_xyz, d_none; cbn [dI dX dY dZ]. repeat split; ring.
Qed.
Lemma slice_p1 lim pos : adm_lim lim -> -(1) <= pos <= 1 ->
  exists d, slice lim pos 1 = Some d /\ simplex d /\ dI d == 0.
Proof.
  intros Ha Hp. destruct (slice_spec lim pos 1 Ha Hp) as (d & r & Hs & _ & _ & Hsx & HI & _); [lra|].
  exists d. repeat split; try exact Hs; try apply Hsx. rewrite HI. ring.
Qed.

(* ------------------------------------------------------------------ *)
(* 2. objects with a memo table, driven by a history                   *)
Section Objects.
  Variables (P K A D : Type).            (* parameters, keys (binary64 probabilities), attribute values, answers *)
  Variable keqb : K -> K -> bool.
  Hypothesis keqb_eq : forall a b, keqb a b = true <-> a = b.
  Variable f : P -> K -> D.              (* the distribution as a pure function *)
  Variable attrs : P -> A.               (* the attribute values as a function of the constructor arguments *)

  Inductive op := OpPD (p : K) | OpAttr.
  Inductive obs := ObsD (d : D) | ObsA (a : A).
  Record obj := mkObj { params : P; memo : list (K * D) }.

  Fixpoint lookup (p : K) (m : list (K * D)) : option D :=
    match m with
    | [] => None
    | (k, d) :: r => if keqb p k then Some d else lookup p r
    end.
  Definition step (o : obj) (x : op) : obj * obs :=
    match x with
    | OpPD p => match lookup p (memo o) with
                | Some d => (o, ObsD d)
                | None => let d := f (params o) p in (mkObj (params o) ((p, d) :: memo o), ObsD d)
                end
    | OpAttr => (o, ObsA (attrs (params o)))
    end.
  Fixpoint run (o : obj) (h : list op) : list obs :=
    match h with
    | [] => []
    | x :: r => let '(o', y) := step o x in y :: run o' r
    end.
  Definition spec (ps : P) (x : op) : obs :=
    match x with OpPD p => ObsD (f ps p) | OpAttr => ObsA (attrs ps) end.
  Definition memo_ok (o : obj) : Prop := forall k d, In (k, d) (memo o) -> d = f (params o) k.

  Lemma lookup_in p m d : lookup p m = Some d -> In (p, d) m.
  Proof.
    induction m as [|[k e] r IH]; cbn; [discriminate|].
    destruct (keqb p k) eqn:E.
    - intros H; injection H as <-. apply keqb_eq in E. subst. now left.
    - intros H. right. now apply IH.
  Qed.
  Lemma step_spec o x : memo_ok o ->
    snd (step o x) = spec (params o) x /\ params (fst (step o x)) = params o /\ memo_ok (fst (step o x)).
  Proof.
    intros Hm. destruct x as [p|]; cbn.
    - destruct (lookup p (memo o)) as [d|] eqn:E; cbn.
      + repeat split; try exact Hm. f_equal. apply Hm. now apply lookup_in.
      + repeat split. intros k d [H|H]; cbn in *.
        * injection H as <- <-. reflexivity.
        * now apply Hm.
    - repeat split. exact Hm.
  Qed.
  (* every answer of every history is the pure function of the parameters; the parameters never change *)
  Theorem run_history_independent h : forall o, memo_ok o -> run o h = map (spec (params o)) h.
  Proof.
    induction h as [|x r IH]; intros o Hm; [reflexivity|].
    cbn [run map]. destruct (step_spec o x Hm) as (Hy & Hp & Hm').
    destruct (step o x) as [o' y]; cbn in *. rewrite Hy, (IH o' Hm'), Hp. reflexivity.
  Qed.
  Corollary fresh_object_history ps h : run (mkObj ps []) h = map (spec ps) h.
  Proof. apply (run_history_independent h (mkObj ps [])). intros k d []. Qed.
  (* in particular an answer does not depend on what was asked before, nor on how often *)
  Corollary answer_independent_of_prefix ps h1 h2 p :
    nth_error (run (mkObj ps []) (h1 ++ OpPD p :: h2)) (length h1) = Some (ObsD (f ps p)).
  Proof.
    rewrite fresh_object_history, map_app, nth_error_app2; rewrite map_length; [|apply Nat.le_refl].
    rewrite Nat.sub_diag. reflexivity.
  Qed.
End Objects.
