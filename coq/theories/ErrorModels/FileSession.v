(** C18 — sessions: several file error models open in one process, histories interleaved, and a caller that
    owns the arrays it was served (keeps them, changes them in place).

    The single-model theorems of [FileModel] say what one model serves for one call sequence.  A process is more
    than that: models are opened on the same file or on files sharing records, their calls interleave, and every
    array returned by [generate] belongs to the caller, who may overwrite it ([error ^= recovery]).  The
    specification below makes this explicit: the world is the list of model states plus the caller's heap of served
    arrays; a call touches exactly one model and appends one fresh cell; a scribble touches exactly one cell.

    - [session_noninterference]: what model j answers in any session is what it answers alone on its own call
      subsequence - whatever the other models do and whatever the caller writes into the arrays it holds;
    - [session_scenario]: hence, for models opened with [init], the per-model trace is [scenario] of its file;
    - [served_cell], [kept_cell_stable], [scribbled_cell_stable]: a served array holds the served error, and keeps
      what it holds (the error, or what the caller wrote last) through every later call of every model. *)
From Coq Require Import List Bool Arith NArith ZArith Lia.
From Coq Require String.
From QV Require Import Core.Bits Core.Pack ErrorModels.FileModel.
Import ListNotations.

Fixpoint set_nth {A} (l : list A) (k : nat) (v : A) : list A :=
  match l, k with
  | [], _ => []
  | _ :: r, O => v :: r
  | x :: r, S k' => x :: set_nth r k' v
  end.
Lemma set_nth_length {A} (l : list A) : forall k v, length (set_nth l k v) = length l.
Proof. induction l as [|x r IH]; intros [|k] v; cbn; auto. Qed.
Lemma nth_set_nth_same {A} (l : list A) : forall k v, k < length l -> nth_error (set_nth l k v) k = Some v.
Proof. induction l as [|x r IH]; intros [|k] v Hk; cbn in *; try lia; auto. apply IH. lia. Qed.
Lemma nth_set_nth_other {A} (l : list A) : forall k k' v, k <> k' -> nth_error (set_nth l k' v) k = nth_error l k.
Proof. induction l as [|x r IH]; intros [|k] [|k'] v Hk; cbn; auto; try congruence. Qed.
Lemma nth_error_app_l {A} (l l' : list A) k : k < length l -> nth_error (l ++ l') k = nth_error l k.
Proof. intros Hk. now apply nth_error_app1. Qed.

Section Session.
Variable R : Type.
Variable rpull : R -> res obj * R.
Variable clash : list str.
Notation st := (mstate R).

(* one call on one model *)
Definition step1 (s : st) (c : call) : outcome * st :=
  match c with
  | CGen n p => generate_g R rpull s n p
  | _ => (pure_answer clash s c, s)
  end.
Lemma run_calls_step s c cs :
  run_calls R rpull clash s (c :: cs) = fst (step1 s c) :: run_calls R rpull clash (snd (step1 s c)) cs.
Proof. destruct c; cbn; try reflexivity. destruct (generate_g R rpull s n p). reflexivity. Qed.

(* what happens in a process: model j is called; the caller overwrites the k-th array it was served *)
Inductive op := Call (j : nat) (c : call) | Scribble (k : nat) (v : bsf).
Record world := MkWorld { models : list st; heap : list bsf }.

Definition wstep (w : world) (o : op) : option (nat * outcome) * world :=
  match o with
  | Call j c =>
      match nth_error (models w) j with
      | None => (None, w)
      | Some s => let (out, s') := step1 s c in
                  (Some (j, out),
                   MkWorld (set_nth (models w) j s')
                           (match out with OBits e => heap w ++ [e] | _ => heap w end))   (* a fresh array *)
      end
  | Scribble k v => (None, MkWorld (models w) (set_nth (heap w) k v))
  end.
Fixpoint wrun (w : world) (os : list op) : list (nat * outcome) * world :=
  match os with
  | [] => ([], w)
  | o :: os' => let (ev, w') := wstep w o in
                let (evs, w'') := wrun w' os' in
                (match ev with Some e => e :: evs | None => evs end, w'')
  end.

Definition calls_of (j : nat) (os : list op) : list call :=
  flat_map (fun o => match o with Call j' c => if j' =? j then [c] else [] | Scribble _ _ => [] end) os.
Definition outs_of (j : nat) (evs : list (nat * outcome)) : list outcome :=
  flat_map (fun e => if fst e =? j then [snd e] else []) evs.

Theorem session_noninterference os : forall w j s, nth_error (models w) j = Some s ->
  outs_of j (fst (wrun w os)) = run_calls R rpull clash s (calls_of j os).
Proof.
  induction os as [|o os IH]; intros w j s Hj; [reflexivity|].
  cbn [wrun]. destruct (wstep w o) as [ev w'] eqn:Hs. destruct (wrun w' os) as [evs w''] eqn:Hr.
  assert (IH' := fun s' H => IH w' j s' H). rewrite Hr in IH'. cbn [fst] in *.
  destruct o as [j' c|k v]; cbn [wstep] in Hs.
  - destruct (nth_error (models w) j') as [s1|] eqn:Hj'.
    + destruct (step1 s1 c) as [out s1'] eqn:H1. inversion Hs; subst ev w'; clear Hs.
      cbn [calls_of flat_map]. destruct (Nat.eqb_spec j' j) as [->|Hne].
      * rewrite Hj in Hj'. inversion Hj'; subst s1.
        cbn [outs_of flat_map fst snd app]. rewrite Nat.eqb_refl. cbn [app].
        change (flat_map _ os) with (calls_of j os). rewrite run_calls_step, H1. cbn [fst snd].
        f_equal. apply IH'. cbn [models]. apply nth_set_nth_same. apply nth_error_Some. congruence.
      * cbn [outs_of flat_map fst snd app]. destruct (Nat.eqb_spec j' j) as [E|_]; [contradiction|]. cbn [app].
        apply IH'. cbn [models]. rewrite nth_set_nth_other by congruence. exact Hj.
    + inversion Hs; subst ev w'; clear Hs. cbn [calls_of flat_map].
      destruct (Nat.eqb_spec j' j) as [->|Hne]; [congruence|]. cbn [app]. now apply IH'.
  - inversion Hs; subst ev w'; clear Hs. cbn [calls_of flat_map app]. now apply IH'.
Qed.

(* ---- the caller's arrays ---------------------------------------------------------------------- *)
Definition scribbles (k : nat) (o : op) : bool := match o with Scribble k' _ => k' =? k | Call _ _ => false end.

Lemma wstep_heap_grows w o : length (heap w) <= length (heap (snd (wstep w o))).
Proof.
  destruct o as [j c|k v]; cbn [wstep].
  - destruct (nth_error (models w) j) as [s|]; [|cbn; lia].
    destruct (step1 s c) as [out s']. cbn. destruct out; rewrite ?app_length; cbn; lia.
  - cbn. rewrite set_nth_length. lia.
Qed.
(* one step leaves cell k alone unless it is a scribble on k *)
Lemma wstep_cell w o k : k < length (heap w) -> scribbles k o = false ->
  nth_error (heap (snd (wstep w o))) k = nth_error (heap w) k.
Proof.
  intros Hk Hs. destruct o as [j c|k' v]; cbn [wstep].
  - destruct (nth_error (models w) j) as [s|]; [|reflexivity].
    destruct (step1 s c) as [out s']. cbn. destruct out; try reflexivity. now apply nth_error_app_l.
  - cbn in *. apply nth_set_nth_other. intros ->. now rewrite Nat.eqb_refl in Hs.
Qed.
(* a kept array is stable under any later history that does not scribble on it *)
Theorem kept_cell_stable os : forall w k, k < length (heap w) -> existsb (scribbles k) os = false ->
  nth_error (heap (snd (wrun w os))) k = nth_error (heap w) k.
Proof.
  induction os as [|o os IH]; intros w k Hk Hs; [reflexivity|].
  cbn in Hs. apply orb_false_iff in Hs as [Ho Hos].
  cbn [wrun]. destruct (wstep w o) as [ev w'] eqn:Hw. destruct (wrun w' os) as [evs w''] eqn:Hr. cbn [snd].
  assert (Hw' : w' = snd (wstep w o)) by now rewrite Hw.
  assert (Hlen := wstep_heap_grows w o). rewrite <- Hw' in Hlen.
  assert (E := IH w' k ltac:(lia) Hos). rewrite Hr in E. cbn [snd] in E. rewrite E, Hw'. now apply wstep_cell.
Qed.
(* the array served by a call is a new cell holding the served error ... *)
Theorem served_cell w j c e w' : wstep w (Call j c) = (Some (j, OBits e), w') ->
  nth_error (heap w') (length (heap w)) = Some e /\ length (heap w') = S (length (heap w)).
Proof.
  cbn [wstep]. destruct (nth_error (models w) j) as [s|]; [|discriminate].
  destruct (step1 s c) as [out s']. intros H. inversion H; subst. cbn [heap]. rewrite app_length. cbn.
  split; [|lia]. rewrite nth_error_app2 by lia. now rewrite Nat.sub_diag.
Qed.
(* ... and it still holds that error after any later history of any model, if the caller does not write to it *)
Corollary served_then_kept w j c e w' os : wstep w (Call j c) = (Some (j, OBits e), w') ->
  existsb (scribbles (length (heap w))) os = false ->
  nth_error (heap (snd (wrun w' os))) (length (heap w)) = Some e.
Proof.
  intros H Hs. destruct (served_cell _ _ _ _ _ H) as [Hc Hl]. rewrite kept_cell_stable; auto. lia.
Qed.
(* what the caller wrote last stays *)
Theorem scribbled_cell_stable w k v os : k < length (heap w) -> existsb (scribbles k) os = false ->
  nth_error (heap (snd (wrun w (Scribble k v :: os)))) k = Some v.
Proof.
  intros Hk Hs. cbn [wrun wstep]. destruct (wrun _ os) as [evs w''] eqn:Hr. cbn [snd].
  assert (E := kept_cell_stable os (MkWorld (models w) (set_nth (heap w) k v)) k). rewrite Hr in E. cbn [snd heap] in E.
  rewrite E; auto. - now apply nth_set_nth_same. - now rewrite set_nth_length.
Qed.
End Session.
Arguments MkWorld {R}. Arguments models {R}. Arguments heap {R}.

(* ---- the concrete process: models opened with [init] on (possibly the same) files ------------------ *)
Definition opened (clash : list str) (specs : list (option (list line) * start_arg)) : list (res bstate) :=
  map (fun fs => init (fst fs) (snd fs) clash) specs.
Fixpoint ok_states (l : list (res bstate)) : option (list bstate) :=
  match l with
  | [] => Some []
  | Ok s :: l' => match ok_states l' with Some a => Some (s :: a) | None => None end
  | _ :: _ => None
  end.
Lemma ok_states_nth l : forall ss j s, ok_states l = Some ss -> nth_error ss j = Some s -> nth_error l j = Some (Ok s).
Proof.
  induction l as [|r l IH]; intros ss j s H Hj; cbn in H.
  - inversion H; subst. destruct j; discriminate.
  - destruct r as [s0| |]; try discriminate. destruct (ok_states l) as [a|]; [|discriminate].
    injection H as <-. destruct j as [|j]; cbn in Hj |- *; [congruence|]. eapply IH; eauto.
Qed.

(* every model of a session answers exactly what [scenario] says for its own file, start and call subsequence *)
Theorem session_scenario clash specs ss hp os j f sa :
  ok_states (opened clash specs) = Some ss -> nth_error specs j = Some (f, sa) ->
  outs_of j (fst (wrun reader pull clash (MkWorld ss hp) os)) = snd (scenario f sa clash (calls_of j os)).
Proof.
  intros Hok Hj.
  assert (Hlen : length ss = length specs).
  { clear Hj. unfold opened in Hok. revert ss Hok. induction specs as [|x l IH]; intros ss H; cbn in H.
    - now inversion H.
    - destruct (init _ _ _) as [s0| |]; try discriminate. destruct (ok_states _) as [a0|] eqn:E; [|discriminate].
      injection H as <-. cbn. f_equal. now apply IH. }
  destruct (nth_error ss j) as [s|] eqn:Hs.
  - assert (H := ok_states_nth _ _ _ _ Hok Hs). unfold opened in H. rewrite nth_error_map, Hj in H. cbn in H.
    inversion H as [Hi]. unfold scenario. rewrite Hi. cbn [snd].
    now apply (session_noninterference reader pull clash os (MkWorld ss hp) j s).
  - apply nth_error_None in Hs. assert (j < length specs) by (apply nth_error_Some; congruence). lia.
Qed.

(* ---- non-vacuity: two models on the two example files (same records), interleaved, the caller overwrites the
        first array it was served (e1 to model 0) before model 1 is served the same record -------------------- *)
Module SessionEx.
Import FileModel.Ex.
Import String.StringSyntax.
Local Open Scope string_scope.
Definition ex_specs : list (option (list line) * start_arg) := [(Some ex_file, StInt 1); (Some ex_file2, StInt 1)].
Definition g := CGen 5 ex_p.
Definition ex_ops : list op :=
  [Call 0 g; Scribble 0 (repeat true 10); Call 1 g; Call 1 g; Scribble 1 (repeat false 10); Call 0 g; Call 0 g; Call 0 g;
   Call 1 CLabel; Call 1 g; Call 1 g; Call 7 g].
Example ex_session :
  match ok_states (opened ex_clash ex_specs) with
  | Some ss =>
      let (evs, w) := wrun reader pull ex_clash (MkWorld ss []) ex_ops in
      outs_of 0 evs = [OBits e1; OBits e2; OBits e3; OErr EOFError]
      /\ outs_of 1 evs = [OBits e1; OBits e2; OLabel (JStr (sv "Biased (bias=10)")); OBits e3; OErr EOFError]
      /\ heap w = [repeat true 10; repeat false 10; e2; e2; e3; e3]
  | None => False
  end.
Proof. vm_compute. repeat split. Qed.
End SessionEx.

Print Assumptions session_noninterference. Print Assumptions session_scenario. Print Assumptions kept_cell_stable.
Print Assumptions served_then_kept. Print Assumptions scribbled_cell_stable.
