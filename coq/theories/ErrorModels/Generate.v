(* ErrorModels/Generate.v — SimpleErrorModel.generate and the measurement flips of app._run_once as
   functions of the uniform stream.
   numpy's Generator.choice(a, size, p) computes  cdf = cumsum(p); cdf /= cdf[-1];
   idx = cdf.searchsorted(rng.random(size), side='right')  — the index of the first cumulative bound
   exceeding the uniform.  The PRNG is not modelled: the uniforms are the model's input. *)
From Coq Require Import QArith Qabs Qreduction Lqa List Bool Arith Lia.
From QV Require Import Core.Bits Core.Pauli.
Import ListNotations.
Open Scope Q_scope.
Arguments Qred : simpl never.

Fixpoint qsum (l : list Q) : Q := match l with [] => 0 | x :: r => x + qsum r end.
Definition psum (d : list Q) (k : nat) : Q := qsum (firstn k d).     (* p_0 + ... + p_{k-1} *)
Fixpoint cumsum_from (acc : Q) (l : list Q) : list Q :=
  match l with [] => [] | x :: r => (acc + x) :: cumsum_from (acc + x) r end.
Definition cumsum : list Q -> list Q := cumsum_from 0.
(* Qred = reduction to lowest terms (Qred q == q); it only keeps the numerals small *)
Definition cdf (d : list Q) : list Q := let c := cumsum d in let t := last c 0 in map (fun x => Qred (x / t)) c.
Definition qltb (x y : Q) : bool := negb (Qle_bool y x).
Fixpoint first_gt (u : Q) (c : list Q) : nat :=
  match c with [] => 0%nat | x :: r => if qltb u x then 0%nat else S (first_gt u r) end.
Definition choice (d : list Q) (u : Q) : nat := first_gt u (cdf d).

(* rng.choice(('I','X','Y','Z'), size=n, p=dist) then pauli_to_bsf *)
Definition letter_of (k : nat) : pl := match k with 0%nat => pI | 1%nat => pX | 2%nat => pY | _ => pZ end.
Definition gen_letters (d : list Q) (us : list Q) : pstr :=
  let c := cdf d in map (fun u => letter_of (first_gt u c)) us.   (* = map (letter_of o choice d) us, cdf computed once *)
Definition generate (d : list Q) (us : list Q) : bsf := to_bsf (gen_letters d us).
(* rng.choice((0, 1), size=m, p=(1 - q, q)) *)
Definition flip (q u : Q) : bool := Nat.eqb (choice [1 - q; q] u) 1.
Definition flips (q : Q) (us : list Q) : bsf :=
  let c := cdf [1 - q; q] in map (fun u => Nat.eqb (first_gt u c) 1) us.   (* = map (flip q) us *)
(* one time step of _run_once: n uniforms for the error; m uniforms for the syndrome flips, drawn only when
   the measurement error probability is truthy (otherwise zeros and the stream is untouched) *)
Definition step (n m : nat) (d : list Q) (q : Q) (us : list Q) : bsf * bsf * list Q :=
  let err := generate d (firstn n us) in
  let rest := skipn n us in
  if Qeq_bool q 0 then (err, zeros m, rest) else (err, flips q (firstn m rest), skipn m rest).
Fixpoint run_stream (T n m : nat) (d : list Q) (q : Q) (us : list Q) : list (bsf * bsf) :=
  match T with
  | O => []
  | S T' => let '(e, f, rest) := step n m d q us in (e, f) :: run_stream T' n m d q rest
  end.

(* ------------------------------------------------------------------ *)
Lemma qltb_iff x y : qltb x y = true <-> x < y.
Proof.
  unfold qltb. destruct (Qle_bool y x) eqn:E; cbn; split; intros H; try discriminate; auto.
  - apply Qle_bool_imp_le in E. lra.
  - apply Qnot_le_lt. intros K. apply Qle_bool_iff in K. congruence.
Qed.
Lemma qltb_false x y : qltb x y = false <-> y <= x.
Proof.
  destruct (qltb x y) eqn:E; split; intros H; try discriminate; auto.
  - apply qltb_iff in E. lra.
  - unfold qltb in E. destruct (Qle_bool y x) eqn:F; [apply Qle_bool_imp_le in F; auto|discriminate].
Qed.

Lemma first_gt_elim u c : forall k, first_gt u c = k -> (k < length c)%nat ->
  u < nth k c 0 /\ forall i, (i < k)%nat -> nth i c 0 <= u.
Proof.
  induction c as [|x c IH]; intros k E Hk; cbn in *; [lia|].
  destruct (qltb u x) eqn:F.
  - subst k. split; [now apply qltb_iff|intros i Hi; lia].
  - destruct k as [|k]; [discriminate|]. injection E as E. destruct (IH k E ltac:(lia)) as [A B].
    split; [exact A|]. intros [|i] Hi; [now apply qltb_false|apply B; lia].
Qed.
Lemma first_gt_intro u c : forall k, (k < length c)%nat -> u < nth k c 0 ->
  (forall i, (i < k)%nat -> nth i c 0 <= u) -> first_gt u c = k.
Proof.
  induction c as [|x c IH]; intros k Hk A B; cbn in *; [lia|].
  destruct k as [|k].
  - apply qltb_iff in A. now rewrite A.
  - assert (F : qltb u x = false) by (apply qltb_false; apply (B 0%nat); lia). rewrite F. f_equal.
    apply IH; [lia|exact A|]. intros i Hi. apply (B (S i)). lia.
Qed.
Lemma first_gt_le u c : forall j, (j < length c)%nat -> u < nth j c 0 -> (first_gt u c <= j)%nat.
Proof.
  induction c as [|x c IH]; intros j Hj A; cbn in *; [lia|].
  destruct (qltb u x) eqn:F; [lia|]. destruct j as [|j]; [apply qltb_iff in A; congruence|].
  specialize (IH j ltac:(lia) A). lia.
Qed.

Lemma cumsum_from_length l : forall acc, length (cumsum_from acc l) = length l.
Proof. induction l as [|x l IH]; intros acc; cbn; auto. Qed.
Lemma nth_cumsum_from l : forall acc k, (k < length l)%nat ->
  nth k (cumsum_from acc l) 0 == acc + qsum (firstn (S k) l).
Proof.
  induction l as [|x l IH]; intros acc k Hk; cbn in Hk; [lia|].
  destruct k as [|k].
  - cbn. ring.
  - change (nth k (cumsum_from (acc + x) l) 0 == acc + (x + qsum (firstn (S k) l))).
    rewrite IH by lia. ring.
Qed.
Lemma last_cumsum_from l : forall acc, l <> [] -> last (cumsum_from acc l) 0 == acc + qsum l.
Proof.
  induction l as [|x l IH]; intros acc Hl; [contradiction|].
  destruct l as [|y l].
  - cbn. ring.
  - change (last (cumsum_from (acc + x) (y :: l)) 0 == acc + (x + qsum (y :: l))).
    rewrite IH by discriminate. ring.
Qed.
Lemma cdf_length d : length (cdf d) = length d.
Proof. unfold cdf, cumsum. cbv zeta. now rewrite map_length, cumsum_from_length. Qed.
Lemma nth_cdf d k : (k < length d)%nat -> nth k (cdf d) 0 == psum d (S k) / qsum d.
Proof.
  intros Hk. assert (Hd : d <> []) by (destruct d; [cbn in Hk; lia|discriminate]).
  unfold cdf, cumsum. cbv zeta.
  rewrite (nth_map_in (fun x => Qred (x / last (cumsum_from 0 d) 0)) _ k 0 0) by (now rewrite cumsum_from_length).
  rewrite Qred_correct. rewrite nth_cumsum_from by exact Hk. rewrite last_cumsum_from by exact Hd.
  unfold psum. setoid_replace (0 + qsum d) with (qsum d) by ring.
  setoid_replace (0 + qsum (firstn (S k) d)) with (qsum (firstn (S k) d)) by ring. reflexivity.
Qed.

Definition all_nonneg (d : list Q) : Prop := Forall (fun x => 0 <= x) d.
Lemma qsum_nonneg d : all_nonneg d -> 0 <= qsum d.
Proof. induction 1 as [|x d Hx _ IH]; cbn; lra. Qed.
Lemma psum_S d : forall k, (k < length d)%nat -> psum d (S k) == psum d k + nth k d 0.
Proof.
  unfold psum. induction d as [|x d IH]; intros k Hk; cbn in Hk; [lia|].
  destruct k as [|k]; [cbn; ring|].
  change (x + qsum (firstn (S k) d) == x + qsum (firstn k d) + nth k d 0). rewrite IH by lia. ring.
Qed.
Lemma psum_mono d : all_nonneg d -> forall i j, (i <= j)%nat -> psum d i <= psum d j.
Proof.
  intros Hd i j Hij. induction Hij as [|j Hij IH]; [lra|].
  destruct (Nat.lt_ge_cases j (length d)) as [Hj|Hj].
  - rewrite psum_S by exact Hj. assert (0 <= nth j d 0); [|lra].
    apply (proj1 (Forall_forall _ _) Hd). now apply nth_In.
  - unfold psum in *. rewrite (@firstn_all2 _ (S j) d) by lia. rewrite (@firstn_all2 _ j d) in IH by lia. exact IH.
Qed.
Lemma psum_0 d : psum d 0 == 0.
Proof. reflexivity. Qed.
Lemma psum_all d : psum d (length d) == qsum d.
Proof. unfold psum. now rewrite firstn_all. Qed.

(* the preimage of letter k under the inverse-cdf draw is the interval [cdf_{k-1}, cdf_k) of length p_k / total *)
Definition lo (d : list Q) (k : nat) : Q := psum d k / qsum d.
Definition hi (d : list Q) (k : nat) : Q := psum d (S k) / qsum d.
Lemma div_le_mono a b t : 0 < t -> a <= b -> a / t <= b / t.
Proof. intros Ht H. unfold Qdiv. assert (0 < / t) by (apply Qinv_lt_0_compat; auto). nra. Qed.
Theorem choice_preimage d u k : all_nonneg d -> 0 < qsum d -> (k < length d)%nat -> 0 <= u ->
  (choice d u = k <-> lo d k <= u < hi d k).
Proof.
  intros Hd Ht Hk Hu. unfold choice, lo, hi. split.
  - intros E. destruct (first_gt_elim u (cdf d) k E ltac:(now rewrite cdf_length)) as [A B].
    rewrite nth_cdf in A by exact Hk. split; [|exact A].
    destruct k as [|k].
    + unfold psum. cbn. unfold Qdiv. lra.
    + specialize (B k ltac:(lia)). rewrite nth_cdf in B by lia. exact B.
  - intros [A B]. apply first_gt_intro; [now rewrite cdf_length|now rewrite nth_cdf by exact Hk|].
    intros i Hi. rewrite nth_cdf by lia.
    apply (Qle_trans _ (psum d k / qsum d)); [|exact A]. apply div_le_mono; [exact Ht|]. apply psum_mono; [exact Hd|lia].
Qed.
Theorem interval_length d k : 0 < qsum d -> (k < length d)%nat -> hi d k - lo d k == nth k d 0 / qsum d.
Proof. intros Ht Hk. unfold hi, lo. rewrite psum_S by exact Hk. field. lra. Qed.
Theorem lo_0 d : lo d 0 == 0.
Proof. unfold lo, psum. cbn. unfold Qdiv. ring. Qed.
Theorem hi_last d : 0 < qsum d -> d <> [] -> hi d (length d - 1) == 1.
Proof.
  intros Ht Hd. unfold hi. replace (S (length d - 1)) with (length d) by (destruct d; [contradiction|cbn; lia]).
  rewrite psum_all. field. lra.
Qed.
Theorem lo_S d k : lo d (S k) == hi d k.
Proof. reflexivity. Qed.
(* a uniform in [0,1) always selects a valid index *)
Theorem choice_lt d u : all_nonneg d -> 0 < qsum d -> u < 1 -> (choice d u < length d)%nat.
Proof.
  intros Hd Ht Hu. assert (Hne : d <> []) by (intros ->; cbn in Ht; lra).
  assert (Hl : (length d - 1 < length d)%nat) by (destruct d; [contradiction|cbn; lia]).
  unfold choice. pose proof (first_gt_le u (cdf d) (length d - 1)) as L.
  rewrite cdf_length in L. specialize (L Hl). rewrite nth_cdf in L by exact Hl.
  assert (E : psum d (S (length d - 1)) / qsum d == 1) by (apply hi_last; auto).
  rewrite E in L. specialize (L Hu). lia.
Qed.
(* a letter of probability zero is never drawn *)
Theorem choice_zero_never d u k : all_nonneg d -> 0 < qsum d -> (k < length d)%nat -> 0 <= u ->
  nth k d 0 == 0 -> choice d u <> k.
Proof.
  intros Hd Ht Hk Hu Hz E. apply (choice_preimage d u k Hd Ht Hk Hu) in E.
  pose proof (interval_length d k Ht Hk) as L. rewrite Hz in L.
  assert (0 / qsum d == 0) by (unfold Qdiv; ring). lra.
Qed.

(* ---- generate ---- *)
Theorem generate_length d us : length (generate d us) = (2 * length us)%nat.
Proof. unfold generate, gen_letters. now rewrite to_bsf_length, map_length. Qed.
Theorem gen_letters_local d us j : (j < length us)%nat ->
  nth j (gen_letters d us) pI = letter_of (choice d (nth j us 0)).
Proof. intros Hj. unfold gen_letters. cbv zeta. now rewrite (nth_map_in _ us j pI 0 Hj). Qed.
(* qubit j depends on the j-th uniform only *)
Theorem gen_letters_independent d us us' j : length us = length us' -> (j < length us)%nat ->
  nth j us 0 = nth j us' 0 -> nth j (gen_letters d us) pI = nth j (gen_letters d us') pI.
Proof. intros Hl Hj E. rewrite !gen_letters_local by lia. now rewrite E. Qed.
Theorem generate_columns d us j : (j < length us)%nat ->
  nth j (generate d us) false = xbit (nth j (gen_letters d us) pI) /\
  nth (length us + j) (generate d us) false = zbit (nth j (gen_letters d us) pI).
Proof.
  intros Hj. unfold generate, to_bsf.
  assert (Hl : length (gen_letters d us) = length us) by (unfold gen_letters; now rewrite map_length).
  split.
  - rewrite app_nth1 by (now rewrite map_length, Hl). apply nth_map_in. lia.
  - rewrite app_nth2 by (rewrite map_length, Hl; lia). rewrite map_length, Hl.
    replace (length us + j - length us)%nat with j by lia. apply nth_map_in. lia.
Qed.
Theorem letter_columns k : (xbit (letter_of k), zbit (letter_of k)) =
  match k with 0%nat => (false, false) | 1%nat => (true, false) | 2%nat => (true, true) | _ => (false, true) end.
Proof. destruct k as [|[|[|k]]]; reflexivity. Qed.
Theorem generate_zero_never d us k j : all_nonneg d -> 0 < qsum d -> length d = 4%nat -> (k < 4)%nat ->
  nth k d 0 == 0 -> (j < length us)%nat -> 0 <= nth j us 0 < 1 ->
  nth j (gen_letters d us) pI <> letter_of k.
Proof.
  intros Hd Ht Hl Hk Hz Hj [Hu0 Hu1]. rewrite gen_letters_local by exact Hj.
  pose proof (choice_zero_never d (nth j us 0) k Hd Ht ltac:(lia) Hu0 Hz) as N.
  pose proof (choice_lt d (nth j us 0) Hd Ht Hu1) as L. rewrite Hl in L.
  set (c := choice d (nth j us 0)) in *.
  destruct c as [|[|[|[|c]]]], k as [|[|[|[|k]]]]; cbn; try lia; try discriminate; congruence.
Qed.
Theorem generate_same_stream d us us' : us = us' -> generate d us = generate d us'.
Proof. now intros ->. Qed.

(* ---- measurement flips ---- *)
Lemma flip_cdf q : 0 <= q <= 1 -> all_nonneg [1 - q; q] /\ qsum [1 - q; q] == 1.
Proof. intros [A B]. split; [repeat constructor; lra|cbn; ring]. Qed.
Theorem flip_interval q u : 0 <= q <= 1 -> 0 <= u < 1 -> (flip q u = true <-> 1 - q <= u).
Proof.
  intros Hq [Hu0 Hu1]. destruct (flip_cdf q Hq) as [Hd Hs]. assert (Ht : 0 < qsum [1 - q; q]) by lra.
  unfold flip. rewrite Nat.eqb_eq.
  rewrite (choice_preimage [1 - q; q] u 1 Hd Ht ltac:(cbn; lia) Hu0).
  unfold lo, hi, psum. cbn [firstn qsum]. 
  assert (E1 : (1 - q + 0) / (1 - q + (q + 0)) == 1 - q) by (field; lra).
  assert (E2 : (1 - q + (q + 0)) / (1 - q + (q + 0)) == 1) by (field; lra).
  rewrite E1, E2. split; [tauto|]. intros H. split; lra.
Qed.
Theorem flip_never q u : q == 0 -> 0 <= u < 1 -> flip q u = false.
Proof.
  intros Hq Hu. destruct (flip q u) eqn:E; auto. apply (flip_interval q u) in E; lra.
Qed.
Theorem flip_always q u : q == 1 -> 0 <= u < 1 -> flip q u = true.
Proof. intros Hq Hu. apply (flip_interval q u); lra. Qed.
Theorem flips_length q us : length (flips q us) = length us.
Proof. apply map_length. Qed.
Theorem flips_local q us j : (j < length us)%nat -> nth j (flips q us) false = flip q (nth j us 0).
Proof. intros Hj. unfold flips. cbv zeta. now rewrite (nth_map_in _ us j false 0 Hj). Qed.

(* ---- the stream layout of a fault-tolerant run ---- *)
Lemma skipn_add {A} (l : list A) : forall a b, skipn a (skipn b l) = skipn (b + a) l.
Proof.
  induction l as [|x l IH]; intros a b.
  - destruct a, b; reflexivity.
  - destruct b as [|b]; [reflexivity|]. cbn. apply IH.
Qed.
Theorem step_zero_q n m d q us : q == 0 ->
  step n m d q us = (generate d (firstn n us), zeros m, skipn n us).
Proof. intros Hq. unfold step. apply Qeq_eq_bool in Hq. now rewrite Hq. Qed.
Theorem step_pos_q n m d q us : ~ q == 0 ->
  step n m d q us = (generate d (firstn n us), flips q (firstn m (skipn n us)), skipn m (skipn n us)).
Proof. intros Hq. unfold step. destruct (Qeq_bool q 0) eqn:E; [apply Qeq_bool_eq in E; contradiction|reflexivity]. Qed.
Theorem run_stream_length T n m d q : forall us, length (run_stream T n m d q us) = T.
Proof. induction T as [|T IH]; intros us; cbn; auto. destruct (step n m d q us) as [[e f] r]. cbn. now rewrite IH. Qed.
(* step t of a run with q <> 0 reads the uniforms [t(n+m), t(n+m)+n) for the error and the next m for the flips *)
Theorem run_stream_nth T n m d q : ~ q == 0 -> forall us t, (t < T)%nat ->
  nth t (run_stream T n m d q us) ([], []) =
  (generate d (firstn n (skipn (t * (n + m)) us)), flips q (firstn m (skipn n (skipn (t * (n + m)) us)))).
Proof.
  intros Hq. induction T as [|T IH]; intros us t Ht; [lia|]. cbn [run_stream]. rewrite step_pos_q by exact Hq.
  destruct t as [|t]; [reflexivity|]. cbn [nth]. rewrite IH by lia.
  rewrite !skipn_add. f_equal; [do 3 f_equal; lia|do 3 f_equal; lia].
Qed.
Theorem run_stream_nth_q0 T n m d q : q == 0 -> forall us t, (t < T)%nat ->
  nth t (run_stream T n m d q us) ([], []) = (generate d (firstn n (skipn (t * n) us)), zeros m).
Proof.
  intros Hq. induction T as [|T IH]; intros us t Ht; [lia|]. cbn [run_stream]. rewrite step_zero_q by exact Hq.
  destruct t as [|t]; [reflexivity|]. cbn [nth]. rewrite IH by lia.
  rewrite !skipn_add. reflexivity.
Qed.

(* ---- every output bit of a fault-tolerant run reads a uniform of its own ----
   epos: stream position read for qubit i of the error of step t; fpos: position read for syndrome bit j of step t.
   The positions are pairwise different, so with independent uniforms the qubits of all steps and the flips of all
   steps are mutually independent (a shared or replayed position would make two outputs functions of one uniform). *)
Definition epos (n m t i : nat) : nat := (t * (n + m) + i)%nat.
Definition fpos (n m t j : nat) : nat := (t * (n + m) + n + j)%nat.

Lemma nth_skipn_add {A} (l : list A) (x : A) : forall a i, nth i (skipn a l) x = nth (a + i) l x.
Proof.
  induction l as [|y l IH]; intros a i.
  - rewrite skipn_nil. destruct i, (a + 0)%nat, a; cbn; try reflexivity; now destruct (a + S i)%nat.
  - destruct a as [|a]; [reflexivity|]. cbn. apply IH.
Qed.
Lemma nth_firstn_lt {A} (x : A) : forall (l : list A) k i, (i < k)%nat -> nth i (firstn k l) x = nth i l x.
Proof.
  induction l as [|y l IH]; intros k i Hi.
  - now rewrite firstn_nil.
  - destruct k as [|k]; [lia|]. destruct i as [|i]; [reflexivity|]. cbn. apply IH. lia.
Qed.
Lemma block_le (a b w x : nat) : (a < b)%nat -> (x <= w)%nat -> (a * w + x <= b * w)%nat.
Proof. intros Hab Hx. assert ((S a) * w <= b * w)%nat by (apply Nat.mul_le_mono_r; lia). cbn in H. lia. Qed.

Theorem epos_fpos_distinct n m s t i j : (i < n)%nat -> (j < m)%nat -> epos n m s i <> fpos n m t j.
Proof.
  unfold epos, fpos. intros Hi Hj E.
  destruct (Nat.lt_trichotomy s t) as [H|[H|H]].
  - pose proof (block_le s t (n + m) (S i) H ltac:(lia)). lia.
  - subst t. lia.
  - pose proof (block_le t s (n + m) (n + S j) H ltac:(lia)). lia.
Qed.
Theorem epos_injective n m s t i j : (i < n)%nat -> (j < n)%nat -> epos n m s i = epos n m t j -> s = t /\ i = j.
Proof.
  unfold epos. intros Hi Hj E.
  destruct (Nat.lt_trichotomy s t) as [H|[H|H]].
  - pose proof (block_le s t (n + m) (S i) H ltac:(lia)). lia.
  - subst t. lia.
  - pose proof (block_le t s (n + m) (S j) H ltac:(lia)). lia.
Qed.
Theorem fpos_injective n m s t i j : (i < m)%nat -> (j < m)%nat -> fpos n m s i = fpos n m t j -> s = t /\ i = j.
Proof.
  unfold fpos. intros Hi Hj E.
  destruct (Nat.lt_trichotomy s t) as [H|[H|H]].
  - pose proof (block_le s t (n + m) (n + S i) H ltac:(lia)). lia.
  - subst t. lia.
  - pose proof (block_le t s (n + m) (n + S j) H ltac:(lia)). lia.
Qed.

Lemma window_length {A} (l : list A) a k : (a + k <= length l)%nat -> length (firstn k (skipn a l)) = k.
Proof. intros H. rewrite firstn_length, skipn_length. lia. Qed.

(* qubit i of the error of step t is the inverse-cdf image of the uniform at epos t i, X part in bit i, Z part in bit n+i *)
Theorem run_stream_error_at T n m d q : ~ q == 0 -> forall us t i, (T * (n + m) <= length us)%nat -> (t < T)%nat -> (i < n)%nat ->
  let e := fst (nth t (run_stream T n m d q us) ([], [])) in
  let l := letter_of (choice d (nth (epos n m t i) us 0)) in
  nth i e false = xbit l /\ nth (n + i) e false = zbit l.
Proof.
  intros Hq us t i Hlen Ht Hi. cbv zeta. rewrite (run_stream_nth T n m d q Hq us t Ht). cbn [fst].
  pose proof (block_le t T (n + m) n Ht ltac:(lia)) as Hb.
  set (w := firstn n (skipn (t * (n + m)) us)).
  assert (Hw : length w = n) by (apply window_length; lia).
  assert (Hiw : (i < length w)%nat) by lia.
  destruct (generate_columns d w i Hiw) as [A B]. rewrite Hw in B. rewrite A, B.
  rewrite (gen_letters_local d w i Hiw). unfold w. rewrite nth_firstn_lt by exact Hi. rewrite nth_skipn_add.
  unfold epos. split; reflexivity.
Qed.
(* syndrome bit j of step t flips iff the uniform at fpos t j is at least 1 - q *)
Theorem run_stream_flip_at T n m d q : ~ q == 0 -> forall us t j, (T * (n + m) <= length us)%nat -> (t < T)%nat -> (j < m)%nat ->
  nth j (snd (nth t (run_stream T n m d q us) ([], []))) false = flip q (nth (fpos n m t j) us 0).
Proof.
  intros Hq us t j Hlen Ht Hj. rewrite (run_stream_nth T n m d q Hq us t Ht). cbn [snd].
  pose proof (block_le t T (n + m) (n + m) Ht ltac:(lia)) as Hb.
  set (w := firstn m (skipn n (skipn (t * (n + m)) us))).
  assert (Hw : length w = m).
  { unfold w. rewrite firstn_length, !skipn_length. lia. }
  rewrite (flips_local q w j ltac:(lia)). unfold w. rewrite nth_firstn_lt by exact Hj. rewrite !nth_skipn_add.
  unfold fpos. f_equal. f_equal. lia.
Qed.
(* consequently two streams that agree at that one position give the same bit, whatever they hold elsewhere -
   in particular at all the positions read for the errors and for the other flips *)
Theorem run_stream_flip_own_uniform T n m d q : ~ q == 0 -> forall us us' t j,
  (T * (n + m) <= length us)%nat -> (T * (n + m) <= length us')%nat -> (t < T)%nat -> (j < m)%nat ->
  nth (fpos n m t j) us 0 = nth (fpos n m t j) us' 0 ->
  nth j (snd (nth t (run_stream T n m d q us) ([], []))) false = nth j (snd (nth t (run_stream T n m d q us') ([], []))) false.
Proof. intros Hq us us' t j H1 H2 Ht Hj E. rewrite !run_stream_flip_at by assumption. now rewrite E. Qed.
Theorem run_stream_error_own_uniform T n m d q : ~ q == 0 -> forall us us' t i,
  (T * (n + m) <= length us)%nat -> (T * (n + m) <= length us')%nat -> (t < T)%nat -> (i < n)%nat ->
  nth (epos n m t i) us 0 = nth (epos n m t i) us' 0 ->
  let e := fst (nth t (run_stream T n m d q us) ([], [])) in
  let e' := fst (nth t (run_stream T n m d q us') ([], [])) in
  nth i e false = nth i e' false /\ nth (n + i) e false = nth (n + i) e' false.
Proof.
  intros Hq us us' t i H1 H2 Ht Hi E. cbv zeta.
  destruct (run_stream_error_at T n m d q Hq us t i H1 Ht Hi) as [A B].
  destruct (run_stream_error_at T n m d q Hq us' t i H2 Ht Hi) as [A' B'].
  rewrite A, B, A', B', E. split; reflexivity.
Qed.
