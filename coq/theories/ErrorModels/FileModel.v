(* ErrorModels/FileModel.v — model of qecsim.models.generic.FileErrorModel
   (src/qecsim/models/generic/_fileerrormodel.py) as a state machine over a classified file.

   A file is a [list line]; classifying raw text lines (comment/blank regex, json.loads,
   dict / non-dict) is done by the harness with Python's own re/json (oracle, trusted base).
   Modelled here: _JSONLines.pull/push with its push-back buffer, __init__ (start validation,
   header accumulation with the repeated-key test, the three known keys in the order they are
   popped, skipping [start] objects, installing extra attributes), generate (probability test,
   pull, paulitools.unpack with Python's destructuring / bytearray.fromhex / slicing rules,
   length test), probability_distribution, label, extra attributes.

   Outside the modelled domain (outcome [Ood]): float() of a JSON string or of an integer beyond
   2^53 as header probability; extra header keys containing non-ASCII code points (Python's \w is
   Unicode); getattr of pre-existing / private attribute names. *)
From Coq Require Import Arith List Bool Lia ZArith NArith Permutation.
From Coq Require String Ascii.
From QV Require Import Core.Bits Core.Pack.
Import ListNotations.
Open Scope bool_scope.

(* ------------------------------------------------------------------------------------------ *)
(** * JSON values, strings, numbers *)

Notation str := (list N).          (* a Python str as its list of code points *)
Definition str_eqb (a b : str) : bool := if list_eq_dec N.eq_dec a b then true else false.
Lemma str_eqb_eq a b : str_eqb a b = true <-> a = b.
Proof. unfold str_eqb. destruct (list_eq_dec N.eq_dec a b); split; intros; auto; discriminate. Qed.
Lemma str_eqb_refl a : str_eqb a a = true.
Proof. now apply str_eqb_eq. Qed.
Lemma str_eqb_neq a b : str_eqb a b = false <-> a <> b.
Proof. unfold str_eqb. destruct (list_eq_dec N.eq_dec a b); split; intros; auto; try discriminate; contradiction. Qed.
Definition mem (k : str) (l : list str) : bool := existsb (str_eqb k) l.
Lemma mem_In k l : mem k l = true <-> In k l.
Proof.
  unfold mem. rewrite existsb_exists. split.
  - intros (x & Hx & E). apply str_eqb_eq in E. now subst.
  - intros H. exists k. split; auto. apply str_eqb_refl.
Qed.
Lemma mem_nIn k l : mem k l = false <-> ~ In k l.
Proof. rewrite <- mem_In. destruct (mem k l); split; intros; auto; try discriminate. now contradiction H. Qed.

Module SC.   (* string constants; String is imported only inside this module *)
Import String.
Definition s_of (s : string) : str := map Ascii.N_of_ascii (list_ascii_of_string s).
Definition k_probability : str := Eval vm_compute in s_of "probability".
Definition k_label : str := Eval vm_compute in s_of "label".
Definition k_dist : str := Eval vm_compute in s_of "probability_distribution".
End SC.
Export SC.

(* a Python float (or an int seen through ==): exact rational, or a non-finite value *)
Inductive num := NFin (n : Z) (d : positive) | NNaN | NPInf | NNInf.
Definition num_eqb (a b : num) : bool :=      (* Python == on numbers: exact; NaN is never equal *)
  match a, b with
  | NFin n d, NFin n' d' => Z.eqb (n * Zpos d') (n' * Zpos d)
  | NPInf, NPInf | NNInf, NNInf => true
  | _, _ => false
  end.
Definition num_truthy (a : num) : bool := match a with NFin n _ => negb (Z.eqb n 0) | _ => true end.

Inductive jvalue :=
| JNull | JBool (b : bool) | JInt (z : Z) | JFloat (v : num) | JStr (s : str)
| JList (l : list jvalue) | JDict (kv : list (str * jvalue)).
Notation dict := (list (str * jvalue)).   (* insertion-ordered, as Python dicts are *)

Inductive line := Skip | Hdr (kv : dict) | Body (v : jvalue) | BadJson.
(* what _JSONLines.pull returns: a dict (header line) or any other JSON value *)
Inductive obj := ODict (kv : dict) | OVal (v : jvalue).
Definition line_of (o : obj) : line := match o with ODict kv => Hdr kv | OVal v => Body v end.

Inductive exn := EOFError | ValueError | TypeError | JSONDecodeError | FileNotFoundError | AttributeError.
(* json.JSONDecodeError is a subclass of ValueError *)
Definition is_value_error (e : exn) : bool := match e with ValueError | JSONDecodeError => true | _ => false end.
Inductive res (A : Type) := Ok (a : A) | Err (e : exn) | Ood.   (* Ood: outside the modelled domain *)
Arguments Ok {A}. Arguments Err {A}. Arguments Ood {A}.

(* ------------------------------------------------------------------------------------------ *)
(** * Dictionaries *)

Definition keys (d : dict) : list str := map fst d.
Fixpoint lookup (k : str) (d : dict) : option jvalue :=
  match d with [] => None | (k', v) :: r => if str_eqb k k' then Some v else lookup k r end.
Definition has_key (k : str) (d : dict) : bool := mem k (keys d).
(* d[k] = v : replace in place, else append *)
Fixpoint dict_set (d : dict) (k : str) (v : jvalue) : dict :=
  match d with [] => [(k, v)] | (k', v') :: r => if str_eqb k k' then (k', v) :: r else (k', v') :: dict_set r k v end.
(* header.update(obj) *)
Definition dict_update (d kv : dict) : dict := fold_left (fun a p => dict_set a (fst p) (snd p)) kv d.
(* obj.keys() & header.keys() is non-empty *)
Definition dict_overlap (kv d : dict) : bool := existsb (fun p => has_key (fst p) d) kv.
(* header.pop(k) : None models KeyError *)
Fixpoint dict_pop (k : str) (d : dict) : option (jvalue * dict) :=
  match d with
  | [] => None
  | (k', v) :: r => if str_eqb k k' then Some (v, r)
                    else match dict_pop k r with Some (x, r') => Some (x, (k', v) :: r') | None => None end
  end.
Definition drop_key (k : str) (d : dict) : dict := filter (fun p => negb (str_eqb k (fst p))) d.

Lemma has_key_In k d : has_key k d = true <-> In k (keys d).
Proof. apply mem_In. Qed.
Lemma lookup_None k d : lookup k d = None <-> ~ In k (keys d).
Proof.
  induction d as [|[k' v] d IH]; cbn; [tauto|]. destruct (str_eqb k k') eqn:E.
  - apply str_eqb_eq in E. subst. split; [discriminate|]. intros H. contradiction H. now left.
  - apply str_eqb_neq in E. rewrite IH. split; intros H; [intros [H1|H1]; [now subst|auto]|tauto].
Qed.
Lemma dict_set_fresh d k v : ~ In k (keys d) -> dict_set d k v = d ++ [(k, v)].
Proof.
  induction d as [|[k' v'] d IH]; cbn; intros H; auto. destruct (str_eqb k k') eqn:E.
  - apply str_eqb_eq in E. subst. contradiction H. now left.
  - f_equal. apply IH. tauto.
Qed.
Lemma keys_app a b : keys (a ++ b) = keys a ++ keys b.
Proof. apply map_app. Qed.
(* with fresh, pairwise distinct keys, update is concatenation (what the repeated-key test guarantees) *)
Lemma dict_update_fresh kv : forall d, NoDup (keys (d ++ kv)) -> dict_update d kv = d ++ kv.
Proof.
  induction kv as [|[k v] kv IH]; intros d H; cbn; [now rewrite app_nil_r|].
  unfold dict_update in IH. rewrite dict_set_fresh.
  - rewrite IH; rewrite <- app_assoc; auto.
  - rewrite keys_app in H. cbn in H. apply NoDup_remove_2 in H. intros Hin. apply H. apply in_or_app. now left.
Qed.
Lemma dict_overlap_false kv d : NoDup (keys (d ++ kv)) -> dict_overlap kv d = false.
Proof.
  intros H. unfold dict_overlap. apply not_true_is_false. intros E. apply existsb_exists in E.
  destruct E as ([k v] & Hin & Hk). apply has_key_In in Hk. cbn in Hk.
  rewrite keys_app in H. revert H Hk. generalize (keys d) as ks. intros ks. induction ks as [|a ks IH]; cbn; [tauto|].
  intros H [->|Hk]; inversion H; subst; auto. apply H2. apply in_or_app. right. now apply (in_map fst) in Hin.
Qed.
Lemma dict_overlap_true kv d k : In k (keys kv) -> In k (keys d) -> dict_overlap kv d = true.
Proof.
  intros H1 H2. unfold dict_overlap. apply existsb_exists. apply in_map_iff in H1. destruct H1 as ([k' v] & E & Hin).
  cbn in E. subst. exists (k, v). split; auto. now apply has_key_In.
Qed.

Lemma dict_pop_spec k d :
  match dict_pop k d with
  | Some (v, d') => lookup k d = Some v /\ (forall k', k' <> k -> lookup k' d' = lookup k' d)
                    /\ (NoDup (keys d) -> d' = drop_key k d /\ ~ In k (keys d') /\ NoDup (keys d'))
  | None => lookup k d = None /\ drop_key k d = d
  end.
Proof.
  induction d as [|[k' v] d IH]; cbn; [auto|]. destruct (str_eqb k k') eqn:E.
  - apply str_eqb_eq in E. subst k'. split; [auto|]. split.
    + intros k2 Hk. apply str_eqb_neq in Hk. now rewrite Hk.
    + intros H. inversion H as [|? ? Hn Hd]; subst. cbn. repeat split; auto.
      unfold drop_key. symmetry.
      assert (G : forall l, ~ In k (keys l) -> filter (fun p : str * jvalue => negb (str_eqb k (fst p))) l = l).
      { induction l as [|[a b] l IHl]; cbn; intros Hl; auto. destruct (str_eqb k a) eqn:Ea.
        - apply str_eqb_eq in Ea. subst. contradiction Hl. now left.
        - cbn. f_equal. apply IHl. tauto. }
      now apply G.
  - destruct (dict_pop k d) as [[x d']|].
    + destruct IH as (L & O & ND). split; [auto|]. split.
      * intros k2 Hk. cbn. destruct (str_eqb k2 k'); auto.
      * intros H. inversion H as [|? ? Hn Hd]; subst. destruct (ND Hd) as (E1 & E2 & E3). cbn.
        split; [now rewrite E1|]. split.
        -- intros [H1|H1]; [apply str_eqb_neq in E; now subst|auto].
        -- constructor; auto. rewrite E1. unfold drop_key, keys. intros Hin. apply Hn.
           apply in_map_iff in Hin. destruct Hin as (p & Ep & Hp). apply filter_In in Hp. apply in_map_iff. exists p. tauto.
    + destruct IH as (L & D). split; auto. cbn. unfold drop_key in D. now rewrite D.
Qed.

Lemma lookup_perm k d d' : Permutation d d' -> NoDup (keys d) -> lookup k d = lookup k d'.
Proof.
  induction 1 as [| [a v] l l' P IH | [a v] [b w] l | l l' l'' P1 IH1 P2 IH2]; intros ND; cbn; auto.
  - inversion ND; subst. destruct (str_eqb k a); auto.
  - inversion ND as [|? ? Hn Hd]; subst. destruct (str_eqb k b) eqn:Eb, (str_eqb k a) eqn:Ea; auto.
    apply str_eqb_eq in Eb, Ea. subst. contradiction Hn. now left.
  - rewrite IH1 by auto. apply IH2. unfold keys. eapply Permutation_NoDup; [apply Permutation_map, P1|auto].
Qed.

(* ------------------------------------------------------------------------------------------ *)
(** * The attribute-name regex  ^[a-zA-Z]\w*$  (ASCII) *)

Open Scope N_scope.
Definition is_letter (c : N) : bool := ((65 <=? c) && (c <=? 90)) || ((97 <=? c) && (c <=? 122)).
Definition is_digit (c : N) : bool := (48 <=? c) && (c <=? 57).
Definition is_word (c : N) : bool := is_letter c || is_digit c || (c =? 95).
Definition is_ascii (c : N) : bool := c <? 128.
(* \w*$ : Python's $ (without MULTILINE) also matches just before one final newline *)
Fixpoint word_tail (s : str) : bool :=
  match s with
  | [] => true
  | c :: r => if (c =? 10) && (match r with [] => true | _ => false end) then true else is_word c && word_tail r
  end.
Definition attr_re (s : str) : bool := match s with c :: r => is_letter c && word_tail r | [] => false end.
(* what the documentation promises: a Python attribute name not starting with an underscore (ASCII) *)
Definition is_ident (s : str) : bool := match s with c :: r => is_letter c && forallb is_word r | [] => false end.

(* hex digits and the whitespace bytearray.fromhex skips between bytes (Py_ISSPACE) *)
Definition is_space (c : N) : bool := (c =? 32) || ((9 <=? c) && (c <=? 13)).
Definition nib (v : N) : nibble := (N.testbit v 3, N.testbit v 2, N.testbit v 1, N.testbit v 0).
Definition hexval (c : N) : option nibble :=
  if (48 <=? c) && (c <=? 57) then Some (nib (c - 48))
  else if (97 <=? c) && (c <=? 102) then Some (nib (c - 87))
  else if (65 <=? c) && (c <=? 70) then Some (nib (c - 55))
  else None.
Close Scope N_scope.

Fixpoint fromhex (s : str) : option (list nibble) :=   (* None = ValueError *)
  match s with
  | [] => Some []
  | c :: r =>
      if is_space c then fromhex r
      else match hexval c, r with
           | Some hi, c2 :: r2 =>
               match hexval c2 with
               | Some lo => match fromhex r2 with Some t => Some (hi :: lo :: t) | None => None end
               | None => None
               end
           | _, _ => None
           end
  end.

(* lower-case hex rendering, as bytearray.hex() *)
Definition nib_val (x : nibble) : N :=
  let '(a, b, c, d) := x in ((if a then 8 else 0) + (if b then 4 else 0) + (if c then 2 else 0) + (if d then 1 else 0))%N.
Definition hexchar (x : nibble) : N := let v := nib_val x in if (v <? 10)%N then (48 + v)%N else (87 + v)%N.
Lemma hexval_hexchar x : hexval (hexchar x) = Some x.
Proof. destruct x as [[[[|] [|]] [|]] [|]]; reflexivity. Qed.
Lemma is_space_hexchar x : is_space (hexchar x) = false.
Proof. destruct x as [[[[|] [|]] [|]] [|]]; reflexivity. Qed.

Lemma even_list_ind {A} (P : list A -> Prop) :
  P [] -> (forall a b l, P l -> P (a :: b :: l)) -> forall l, Nat.even (length l) = true -> P l.
Proof.
  intros H0 H2. fix IH 1. intros [|a [|b l]] H; [exact H0|discriminate|]. apply H2, IH. exact H.
Qed.
Lemma fromhex_hex ds : Nat.even (length ds) = true -> fromhex (map hexchar ds) = Some ds.
Proof.
  revert ds. apply even_list_ind; [reflexivity|]. intros a b l IH.
  cbn [map fromhex]. rewrite is_space_hexchar, !hexval_hexchar, IH. reflexivity.
Qed.

(* ------------------------------------------------------------------------------------------ *)
(** * paulitools.unpack applied to a pulled object *)

(* hex_value, length = packed_binary_array : Python destructuring of a list / str / dict *)
Definition two_of (o : obj) : res (jvalue * jvalue) :=
  match o with
  | OVal (JList [a; b]) => Ok (a, b)
  | OVal (JList _) => Err ValueError
  | OVal (JStr [a; b]) => Ok (JStr [a], JStr [b])
  | OVal (JStr _) => Err ValueError
  | OVal (JDict [(k1, _); (k2, _)]) => Ok (JStr k1, JStr k2)
  | OVal (JDict _) => Err ValueError
  | ODict [(k1, _); (k2, _)] => Ok (JStr k1, JStr k2)      (* iterating a dict yields its keys *)
  | ODict _ => Err ValueError
  | OVal _ => Err TypeError                                 (* null, bool, number: not iterable *)
  end.
(* l[:z] for an int z *)
Definition slice_to (z : Z) (l : bsf) : bsf :=
  if (z <? 0)%Z then firstn (Z.to_nat (Z.of_nat (length l) + z)) l
  else firstn (Z.to_nat (Z.min z (Z.of_nat (length l)))) l.
Definition slice (lenv : jvalue) (l : bsf) : res bsf :=
  match lenv with
  | JInt z => Ok (slice_to z l)
  | JNull => Ok l
  | JBool b => Ok (firstn (if b then 1 else 0) l)         (* bool has __index__ *)
  | _ => Err TypeError
  end.
Definition unpack_obj (o : obj) : res bsf :=
  match two_of o with
  | Ok (JStr s, lenv) =>
      match fromhex s with
      | Some ds => slice lenv (flat_map nibble_bits ds)
      | None => Err ValueError
      end
  | Ok (_, _) => Err TypeError                            (* fromhex() argument must be str *)
  | Err e => Err e
  | Ood => Ood
  end.

Lemma slice_to_nat k l : slice_to (Z.of_nat k) l = firstn k l.
Proof.
  unfold slice_to. destruct (Z.ltb_spec (Z.of_nat k) 0); [lia|].
  destruct (Nat.le_gt_cases k (length l)) as [Hk|Hk].
  - now rewrite Z.min_l, Nat2Z.id by lia.
  - rewrite Z.min_r, Nat2Z.id by lia. rewrite !firstn_all2; auto; lia.
Qed.

(* the body line written for a recorded error v:  json.dumps(pt.pack(v)) *)
Definition packed_value (v : bsf) : jvalue :=
  JList [JStr (map hexchar (fst (pack v))); JInt (Z.of_nat (snd (pack v)))].
Lemma unpack_packed v : unpack_obj (OVal (packed_value v)) = Ok v.
Proof.
  unfold unpack_obj, packed_value. cbn [two_of]. rewrite fromhex_hex by apply pack_even_digits.
  cbn [slice]. rewrite slice_to_nat. pose proof (unpack_pack v) as U. unfold unpack in U.
  destruct (pack v) as [h len] eqn:E. cbn [fst snd].
  assert (Ev : Nat.even (length h) = true) by (pose proof (pack_even_digits v) as Q; now rewrite E in Q).
  rewrite Ev in U. now injection U as ->.
Qed.
(* what unpack accepts at all: a 2-element list (or 2-char string / 2-key dict, never successfully) *)
Lemma unpack_dict_rejected kv : exists e, unpack_obj (ODict kv) = Err e /\ (e = ValueError \/ e = TypeError).
Proof.
  unfold unpack_obj. destruct kv as [|[k1 v1] [|[k2 v2] [|p r]]]; cbn [two_of]; eauto.
  destruct (fromhex k1); cbn; eauto.
Qed.
Lemma unpack_ok_shape o e : unpack_obj o = Ok e ->
  exists s lenv ds, o = OVal (JList [JStr s; lenv]) /\ fromhex s = Some ds
                    /\ slice lenv (flat_map nibble_bits ds) = Ok e
                    /\ (lenv = JNull \/ (exists b, lenv = JBool b) \/ exists z, lenv = JInt z).
Proof.
  unfold unpack_obj. intros H.
  assert (S2 : forall lenv l, slice lenv l = Ok e -> lenv = JNull \/ (exists b, lenv = JBool b) \/ exists z, lenv = JInt z).
  { intros [] l0 Hs; cbn in Hs; try discriminate; eauto. }
  destruct o as [kv|v].
  - destruct (unpack_dict_rejected kv) as (x & Hx & _). unfold unpack_obj in Hx. rewrite Hx in H. discriminate.
  - destruct v as [| b | z | f | s | l | kv]; cbn [two_of] in H; try discriminate.
    + destruct s as [|a [|b [|c r]]]; cbn in H; try discriminate.
      destruct (is_space a); [discriminate|]. destruct (hexval a); discriminate.
    + destruct l as [|a [|b [|c r]]]; try discriminate.
      destruct a; try discriminate. destruct (fromhex s) as [ds|] eqn:F; [|discriminate].
      exists s, b, ds. repeat split; auto. eapply S2; eauto.
    + destruct kv as [|[k1 v1] [|[k2 v2] [|p r]]]; try discriminate.
      destruct (fromhex k1); discriminate.
Qed.

(* ------------------------------------------------------------------------------------------ *)
(** * Header processing (pure part of __init__) *)

(* float(v) for a JSON value v *)
Definition float_of (v : jvalue) : res num :=
  match v with
  | JFloat x => Ok x
  | JInt z => if (Z.abs z <=? 9007199254740992)%Z then Ok (NFin z 1) else Ood   (* exact up to 2^53 *)
  | JBool b => Ok (NFin (if b then 1 else 0) 1)
  | JStr _ => Ood                     (* float('0.5') etc.: Python float-literal syntax is not modelled *)
  | JNull | JList _ | JDict _ => Err TypeError
  end.

(* probability popped and converted first, then label, then the optional distribution;
   a KeyError becomes ValueError, an error of float() propagates *)
Definition header_fields (h : dict) : res (num * jvalue * jvalue * dict) :=
  match dict_pop k_probability h with
  | None => Err ValueError
  | Some (pv, h1) =>
      match float_of pv with
      | Err e => Err e
      | Ood => Ood
      | Ok p =>
          match dict_pop k_label h1 with
          | None => Err ValueError
          | Some (lv, h2) =>
              match dict_pop k_dist h2 with
              | None => Ok (p, lv, JNull, h2)
              | Some (dv, h3) => Ok (p, lv, dv, h3)
              end
          end
      end
  end.

Definition all_ascii (s : str) : bool := forallb is_ascii s.
(* for k, v in header.items(): regex and not hasattr(self, k) -> setattr; first offender raises.
   [clash] = names for which hasattr is already true; it grows with every installed attribute. *)
Fixpoint install (clash : list str) (ex : dict) : res unit :=
  match ex with
  | [] => Ok tt
  | (k, _) :: r =>
      if all_ascii k then
        if attr_re k && negb (mem k clash) then install (k :: clash) r else Err ValueError
      else Ood
  end.

Lemma install_ok ex : forall clash, NoDup (keys ex) ->
  Forall (fun k => all_ascii k = true /\ attr_re k = true /\ mem k clash = false) (keys ex) ->
  install clash ex = Ok tt.
Proof.
  induction ex as [|[k v] ex IH]; intros clash ND F; cbn; auto.
  inversion ND as [|? ? Hn Hd]; subst. inversion F as [|? ? (A & B & C) F']; subst. rewrite A, B, C. cbn.
  apply IH; auto. rewrite Forall_forall in *. intros k' Hk'. destruct (F' k' Hk') as (A' & B' & C'). repeat split; auto.
  change (mem k' (k :: clash)) with (str_eqb k' k || mem k' clash). rewrite C', orb_false_r. apply str_eqb_neq. intros ->. auto.
Qed.
Lemma mem_mono k a clash : mem k clash = true -> mem k (a :: clash) = true.
Proof. intros H. change (mem k (a :: clash)) with (str_eqb k a || mem k clash). rewrite H. apply orb_true_r. Qed.
Lemma install_bad ex : forall clash, Forall (fun k => all_ascii k = true) (keys ex) ->
  Exists (fun k => attr_re k = false \/ mem k clash = true) (keys ex) -> install clash ex = Err ValueError.
Proof.
  induction ex as [|[k v] ex IH]; intros clash F E; cbn; [inversion E|].
  inversion F as [|? ? A F']; subst. cbn in A. rewrite A.
  destruct (attr_re k && negb (mem k clash)) eqn:G; auto.
  apply andb_true_iff in G. destruct G as [G1 G2]. apply negb_true_iff in G2.
  apply IH; auto. inversion E as [? ? [B|B]|? ? E']; subst; [congruence|congruence|].
  apply Exists_exists in E'. apply Exists_exists. destruct E' as (x & Hx & [B|B]); exists x; split; auto.
  right. now apply mem_mono.
Qed.
Lemma install_ok_inv ex : forall clash, install clash ex = Ok tt ->
  Forall (fun k => all_ascii k = true /\ attr_re k = true /\ mem k clash = false) (keys ex).
Proof.
  induction ex as [|[k v] ex IH]; intros clash H; cbn in *; [constructor|].
  destruct (all_ascii k) eqn:A; [|discriminate]. destruct (attr_re k) eqn:B; [|discriminate].
  destruct (mem k clash) eqn:C; [discriminate|]. cbn in H. constructor; auto.
  apply IH in H. rewrite Forall_forall in *. intros x Hx. destruct (H x Hx) as (A' & B' & C'). repeat split; auto.
  change (mem x (k :: clash)) with (str_eqb x k || mem x clash) in C'. apply orb_false_iff in C'. tauto.
Qed.

(* the gap between the regex and the documented promise is exactly one trailing newline *)
Lemma word_tail_ident r : word_tail r = true -> forallb is_word r = true \/ exists r', r = r' ++ [10%N] /\ forallb is_word r' = true.
Proof.
  induction r as [|c r IH]; cbn; [auto|].
  destruct ((c =? 10)%N && match r with [] => true | _ => false end) eqn:E.
  - intros _. right. apply andb_true_iff in E. destruct E as [E1 E2]. apply N.eqb_eq in E1. subst.
    destruct r; [|discriminate]. exists []. auto.
  - intros H. apply andb_true_iff in H. destruct H as [H1 H2]. destruct (IH H2) as [G|(r' & -> & G)].
    + left. now rewrite H1, G.
    + right. exists (c :: r'). cbn. now rewrite H1, G.
Qed.
Lemma attr_re_ident s : attr_re s = true -> is_ident s = true \/ exists s', s = s' ++ [10%N] /\ is_ident s' = true.
Proof.
  destruct s as [|c r]; cbn; [discriminate|]. intros H. apply andb_true_iff in H. destruct H as [H1 H2].
  destruct (word_tail_ident _ H2) as [G|(r' & -> & G)].
  - left. now rewrite H1, G.
  - right. exists (c :: r'). cbn. now rewrite H1, G.
Qed.
Lemma ident_attr_re s : is_ident s = true -> attr_re s = true.
Proof.
  destruct s as [|c r]; cbn; [discriminate|]. intros H. apply andb_true_iff in H. destruct H as [H1 H2]. rewrite H1. cbn.
  induction r as [|a r IH]; cbn in *; auto. apply andb_true_iff in H2. destruct H2 as [Ha Hr].
  destruct ((a =? 10)%N && _) eqn:E; auto. now rewrite Ha, IH.
Qed.

(* header_fields against lookups: what is exposed is what is recorded *)
Lemma header_fields_spec h p lv dv ex : NoDup (keys h) -> header_fields h = Ok (p, lv, dv, ex) ->
  (exists pv, lookup k_probability h = Some pv /\ float_of pv = Ok p)
  /\ lookup k_label h = Some lv
  /\ dv = match lookup k_dist h with Some d => d | None => JNull end
  /\ ex = drop_key k_dist (drop_key k_label (drop_key k_probability h))
  /\ (forall k, k <> k_probability -> k <> k_label -> k <> k_dist -> lookup k ex = lookup k h)
  /\ NoDup (keys ex) /\ ~ In k_probability (keys ex) /\ ~ In k_label (keys ex) /\ ~ In k_dist (keys ex).
Proof.
  intros ND. unfold header_fields.
  pose proof (dict_pop_spec k_probability h) as P1. destruct (dict_pop k_probability h) as [[pv h1]|]; [|discriminate].
  destruct P1 as (L1 & O1 & N1). destruct (N1 ND) as (E1 & I1 & ND1).
  destruct (float_of pv) as [p'| |] eqn:F; try discriminate.
  pose proof (dict_pop_spec k_label h1) as P2. destruct (dict_pop k_label h1) as [[lv' h2]|]; [|discriminate].
  destruct P2 as (L2 & O2 & N2). destruct (N2 ND1) as (E2 & I2 & ND2).
  assert (D12 : k_label <> k_probability) by (vm_compute; discriminate).
  assert (D13 : k_dist <> k_probability) by (vm_compute; discriminate).
  assert (D23 : k_dist <> k_label) by (vm_compute; discriminate).
  assert (I12 : ~ In k_probability (keys h2)).
  { rewrite E2. unfold drop_key, keys. intros Hin. apply in_map_iff in Hin. destruct Hin as (q & Eq & Hq).
    apply filter_In in Hq. apply I1. apply in_map_iff. exists q. tauto. }
  pose proof (dict_pop_spec k_dist h2) as P3. destruct (dict_pop k_dist h2) as [[dv' h3]|].
  - destruct P3 as (L3 & O3 & N3). destruct (N3 ND2) as (E3 & I3 & ND3). intros H. injection H as -> -> -> <-.
    split; [eauto|]. split; [now rewrite <- O1 by auto|]. split; [now rewrite <- O1, <- O2, L3 by auto|].
    split; [now rewrite E3, E2, E1|]. split; [intros k A B C; now rewrite O3, O2, O1 by auto|].
    split; auto. assert (G : forall k, ~ In k (keys h2) -> ~ In k (keys h3)).
    { intros k Hk. rewrite E3. unfold drop_key, keys. intros Hin. apply in_map_iff in Hin. destruct Hin as (q & Eq & Hq).
      apply filter_In in Hq. apply Hk. apply in_map_iff. exists q. tauto. }
    auto.
  - destruct P3 as (L3 & D3). intros H. injection H as -> -> <- <-.
    split; [eauto|]. split; [now rewrite <- O1 by auto|]. split; [now rewrite <- O1, <- O2, L3 by auto|].
    split; [rewrite <- E1, <- E2; now rewrite D3|]. split; [intros k A B C; now rewrite O2, O1 by auto|].
    split; auto. repeat split; auto. now apply lookup_None.
Qed.
Lemma header_fields_missing_probability h : lookup k_probability h = None -> header_fields h = Err ValueError.
Proof.
  intros H. unfold header_fields. pose proof (dict_pop_spec k_probability h) as P.
  destruct (dict_pop k_probability h) as [[pv h1]|]; auto. destruct P as (L & _). congruence.
Qed.
Lemma header_fields_missing_label h pv p : lookup k_probability h = Some pv -> float_of pv = Ok p ->
  lookup k_label h = None -> header_fields h = Err ValueError.
Proof.
  intros H F HL. unfold header_fields. pose proof (dict_pop_spec k_probability h) as P.
  destruct (dict_pop k_probability h) as [[pv' h1]|]; auto. destruct P as (L & O & _).
  assert (pv' = pv) by congruence. subst. rewrite F.
  pose proof (dict_pop_spec k_label h1) as P2. destruct (dict_pop k_label h1) as [[lv h2]|]; auto.
  destruct P2 as (L2 & _). rewrite O in L2 by (vm_compute; discriminate). congruence.
Qed.
Lemma header_fields_bad_probability h pv e : lookup k_probability h = Some pv -> float_of pv = Err e ->
  header_fields h = Err e.
Proof.
  intros H F. unfold header_fields. pose proof (dict_pop_spec k_probability h) as P.
  destruct (dict_pop k_probability h) as [[pv' h1]|]; [|destruct P; congruence]. destruct P as (L & _).
  assert (pv' = pv) by congruence. subst. now rewrite F.
Qed.

(* header_fields in terms of lookups only: the grouping into lines is gone, the order is irrelevant *)
Definition header_fields_l (h : dict) : res (num * jvalue * jvalue * dict) :=
  match lookup k_probability h with
  | None => Err ValueError
  | Some pv =>
      match float_of pv with
      | Err e => Err e
      | Ood => Ood
      | Ok p =>
          match lookup k_label h with
          | None => Err ValueError
          | Some lv => Ok (p, lv, match lookup k_dist h with Some d => d | None => JNull end,
                           drop_key k_dist (drop_key k_label (drop_key k_probability h)))
          end
      end
  end.
Lemma header_fields_lookup h : NoDup (keys h) -> header_fields h = header_fields_l h.
Proof.
  intros ND. unfold header_fields, header_fields_l.
  pose proof (dict_pop_spec k_probability h) as P1. destruct (dict_pop k_probability h) as [[pv h1]|].
  2:{ destruct P1 as (-> & _). reflexivity. }
  destruct P1 as (L1 & O1 & N1). destruct (N1 ND) as (E1 & I1 & ND1). rewrite L1.
  destruct (float_of pv) as [p| |]; try reflexivity.
  pose proof (dict_pop_spec k_label h1) as P2. rewrite <- (O1 k_label) by (vm_compute; discriminate).
  destruct (dict_pop k_label h1) as [[lv h2]|].
  2:{ destruct P2 as (-> & _). reflexivity. }
  destruct P2 as (L2 & O2 & N2). destruct (N2 ND1) as (E2 & I2 & ND2). rewrite L2.
  pose proof (dict_pop_spec k_dist h2) as P3.
  rewrite <- (O1 k_dist), <- (O2 k_dist) by (vm_compute; discriminate).
  destruct (dict_pop k_dist h2) as [[dv h3]|].
  - destruct P3 as (L3 & O3 & N3). destruct (N3 ND2) as (E3 & _). rewrite L3. now rewrite E3, E2, E1.
  - destruct P3 as (-> & D3). rewrite <- E1, <- E2. now rewrite D3.
Qed.
Lemma drop_key_perm k d d' : Permutation d d' -> Permutation (drop_key k d) (drop_key k d').
Proof.
  unfold drop_key. induction 1 as [| a l l' P IH | a b l | l l' l'' P1 IH1 P2 IH2]; cbn.
  - constructor.
  - destruct (negb (str_eqb k (fst a))); auto.
  - destruct (negb (str_eqb k (fst a))), (negb (str_eqb k (fst b))); auto. apply perm_swap.
  - eapply perm_trans; eauto.
Qed.
Lemma keys_perm d d' : Permutation d d' -> Permutation (keys d) (keys d').
Proof. apply Permutation_map. Qed.
Lemma header_fields_perm h h' p lv dv ex : Permutation h h' -> NoDup (keys h) -> header_fields h = Ok (p, lv, dv, ex) ->
  exists ex', header_fields h' = Ok (p, lv, dv, ex') /\ Permutation ex ex'.
Proof.
  intros P ND. assert (ND' : NoDup (keys h')) by (eapply Permutation_NoDup; [apply keys_perm, P|auto]).
  rewrite (header_fields_lookup h ND), (header_fields_lookup h' ND'). unfold header_fields_l.
  rewrite <- !(lookup_perm _ h h' P ND).
  destruct (lookup k_probability h) as [pv|]; [|discriminate]. destruct (float_of pv) as [q| |]; try discriminate.
  destruct (lookup k_label h) as [l|]; [|discriminate]. intros H. injection H as -> -> <- <-.
  eexists. split; [reflexivity|]. now repeat apply drop_key_perm.
Qed.
Lemma install_perm clash ex ex' : Permutation ex ex' -> NoDup (keys ex) -> install clash ex = Ok tt -> install clash ex' = Ok tt.
Proof.
  intros P ND H. apply install_ok.
  - eapply Permutation_NoDup; [apply keys_perm, P|auto].
  - apply install_ok_inv in H. rewrite Forall_forall in *. intros k Hk. apply H.
    eapply Permutation_in; [apply Permutation_sym, keys_perm, P|auto].
Qed.

(* ------------------------------------------------------------------------------------------ *)
(** * Calls and outcomes *)

Inductive start_arg := StInt (z : Z) | StBad.          (* operator.index(start) succeeds / TypeError *)
Inductive parg := PNum (v : num) | POther.             (* a numeric probability argument / anything else *)
Definition p_matches (p : parg) (hp : num) : bool := match p with PNum v => num_eqb v hp | POther => false end.
Inductive call := CGen (n : nat) (p : parg) | CDist (p : parg) | CLabel | CAttr (k : str).
Inductive outcome :=
| OBits (e : bsf) | OTuple (l : list jvalue) | OLabel (v : jvalue)   (* str(v): v itself for a JSON string *)
| OAttr (v : jvalue) | OErr (e : exn) | OOod.

Definition truthy (v : jvalue) : bool :=
  match v with
  | JNull => false | JBool b => b | JInt z => negb (Z.eqb z 0) | JFloat x => num_truthy x
  | JStr s => match s with [] => false | _ => true end
  | JList l => match l with [] => false | _ => true end
  | JDict kv => match kv with [] => false | _ => true end
  end.
(* probability_distribution(p) *)
Definition dist_answer (hp : num) (dv : jvalue) (p : parg) : outcome :=
  if negb (p_matches p hp) then OErr ValueError
  else if truthy dv then
    match dv with
    | JList l => OTuple l
    | JStr s => OTuple (map (fun c => JStr [c]) s)
    | JDict kv => OTuple (map (fun q => JStr (fst q)) kv)
    | _ => OErr TypeError                                 (* tuple(number) *)
    end
  else OErr ValueError.
(* getattr(model, k) for a name that is neither private nor pre-existing *)
Definition attr_answer (clash : list str) (ex : dict) (k : str) : outcome :=
  match lookup k ex with
  | Some v => OAttr v
  | None => if mem k clash || match k with c :: _ => (c =? 95)%N | [] => false end then OOod else OErr AttributeError
  end.

(* ------------------------------------------------------------------------------------------ *)
(** * The machine, generic in the reader (pull / push) *)

Section Machine.
Variable R : Type.
Variable rpull : R -> res obj * R.
Variable rpush : obj -> R -> R.

(* while True: obj = pull(); if not dict: push(obj); break; repeated-key test; update *)
Fixpoint headers (fuel : nat) (acc : dict) (r : R) : res dict * R :=
  match fuel with
  | O => (Ood, r)
  | S fu =>
      match rpull r with
      | (Ok (ODict kv), r') =>
          if dict_overlap kv acc then (Err ValueError, r') else headers fu (dict_update acc kv) r'
      | (Ok (OVal v), r') => (Ok acc, rpush (OVal v) r')
      | (Err e, r') => (Err e, r')
      | (Ood, r') => (Ood, r')
      end
  end.
(* for _ in range(start): pull() *)
Fixpoint skip (k : nat) (r : R) : res unit * R :=
  match k with
  | O => (Ok tt, r)
  | S k' => match rpull r with
            | (Ok _, r') => skip k' r'
            | (Err e, r') => (Err e, r')
            | (Ood, r') => (Ood, r')
            end
  end.

Record mstate := MkState { rd : R; prob : num; label : jvalue; dist : jvalue; extras : dict }.

Definition init_g (fuel : nat) (r0 : R) (start : start_arg) (clash : list str) : res mstate :=
  match start with
  | StBad => Err TypeError
  | StInt z =>
      if (z <? 0)%Z then Err ValueError else
      match headers fuel [] r0 with
      | (Err e, _) => Err e
      | (Ood, _) => Ood
      | (Ok h, r1) =>
          match header_fields h with
          | Err e => Err e
          | Ood => Ood
          | Ok (p, lv, dv, ex) =>
              match skip (Z.to_nat z) r1 with
              | (Err e, _) => Err e
              | (Ood, _) => Ood
              | (Ok _, r2) =>
                  match install clash ex with
                  | Err e => Err e
                  | Ood => Ood
                  | Ok _ => Ok (MkState r2 p lv dv ex)
                  end
              end
          end
      end
  end.

Definition with_rd (st : mstate) (r : R) : mstate := MkState r (prob st) (label st) (dist st) (extras st).

Definition generate_g (st : mstate) (n : nat) (p : parg) : outcome * mstate :=
  if negb (p_matches p (prob st)) then (OErr ValueError, st)        (* before pulling: cursor unchanged *)
  else match rpull (rd st) with
       | (Err e, r') => (OErr e, with_rd st r')
       | (Ood, r') => (OOod, with_rd st r')
       | (Ok o, r') =>
           match unpack_obj o with
           | Err e => (OErr e, with_rd st r')
           | Ood => (OOod, with_rd st r')
           | Ok bits => if length bits =? 2 * n then (OBits bits, with_rd st r')
                        else (OErr ValueError, with_rd st r')        (* the line has been consumed *)
           end
       end.

Definition pure_answer (clash : list str) (st : mstate) (c : call) : outcome :=
  match c with
  | CDist p => dist_answer (prob st) (dist st) p
  | CLabel => OLabel (label st)
  | CAttr k => attr_answer clash (extras st) k
  | CGen _ _ => OOod
  end.
Fixpoint run_calls (clash : list str) (st : mstate) (cs : list call) : list outcome :=
  match cs with
  | [] => []
  | CGen n p :: cs' => let (o, st') := generate_g st n p in o :: run_calls clash st' cs'
  | c :: cs' => pure_answer clash st c :: run_calls clash st cs'
  end.
End Machine.
Arguments MkState {R}. Arguments rd {R}. Arguments prob {R}. Arguments label {R}. Arguments dist {R}. Arguments extras {R}.
Arguments with_rd {R}. Arguments pure_answer {R}.

(* ------------------------------------------------------------------------------------------ *)
(** * Two readers: the implementation's (file position + push-back buffer) and the plain stream *)

(* reading from the file object: skip comment/blank lines, json.loads the first other line *)
Fixpoint read (f : list line) : res obj * list line :=
  match f with
  | [] => (Err EOFError, [])
  | Skip :: r => read r
  | Hdr kv :: r => (Ok (ODict kv), r)
  | Body v :: r => (Ok (OVal v), r)
  | BadJson :: r => (Err JSONDecodeError, r)       (* the bad line has been consumed *)
  end.

Record reader := MkReader { buf : list obj; rest : list line }.   (* buffer: last pushed first *)
Definition pull (s : reader) : res obj * reader :=
  match buf s with
  | o :: b => (Ok o, MkReader b (rest s))
  | [] => let (r, f) := read (rest s) in (r, MkReader [] f)
  end.
Definition push (o : obj) (s : reader) : reader := MkReader (o :: buf s) (rest s).

(* stream formulation: a pushed object simply stays at the head of the stream *)
Definition spush (o : obj) (f : list line) : list line := line_of o :: f.
Definition flatten (s : reader) : list line := map line_of (buf s) ++ rest s.

Lemma pull_push o s : pull (push o s) = (Ok o, s).
Proof. destruct s. reflexivity. Qed.
Lemma read_line_of o f : read (line_of o :: f) = (Ok o, f).
Proof. destruct o; reflexivity. Qed.
Lemma pull_flatten s : read (flatten s) = (fst (pull s), flatten (snd (pull s))).
Proof.
  destruct s as [[|o b] f]; unfold pull, flatten; cbn [buf rest map app].
  - destruct (read f) as [r f']. reflexivity.
  - now rewrite read_line_of.
Qed.
Lemma push_flatten o s : flatten (push o s) = spush o (flatten s).
Proof. reflexivity. Qed.

(* the concrete machines *)
Notation bstate := (mstate reader).
Notation sstate := (mstate (list line)).
Definition init (file : option (list line)) (start : start_arg) (clash : list str) : res bstate :=
  match file with
  | None => Err FileNotFoundError                  (* open() fails before anything else is looked at *)
  | Some f => init_g reader pull push (S (length f)) (MkReader [] f) start clash
  end.
Definition generate : bstate -> nat -> parg -> outcome * bstate := generate_g reader pull.
Definition calls : list str -> bstate -> list call -> list outcome := run_calls reader pull.
Definition init_s (file : option (list line)) (start : start_arg) (clash : list str) : res sstate :=
  match file with
  | None => Err FileNotFoundError
  | Some f => init_g (list line) read spush (S (length f)) f start clash
  end.
Definition generate_s : sstate -> nat -> parg -> outcome * sstate := generate_g (list line) read.
Definition calls_s : list str -> sstate -> list call -> list outcome := run_calls (list line) read.

(* a whole scenario: construct, then a sequence of calls; the trace is everything observable *)
Definition scenario (file : option (list line)) (start : start_arg) (clash : list str) (cs : list call)
  : res (list str) * list outcome :=
  match init file start clash with
  | Ok st => (Ok (keys (extras st)), calls clash st cs)
  | Err e => (Err e, [])
  | Ood => (Ood, [])
  end.
Definition scenario_s (file : option (list line)) (start : start_arg) (clash : list str) (cs : list call)
  : res (list str) * list outcome :=
  match init_s file start clash with
  | Ok st => (Ok (keys (extras st)), calls_s clash st cs)
  | Err e => (Err e, [])
  | Ood => (Ood, [])
  end.

(* ------------------------------------------------------------------------------------------ *)
(** * Simulation: buffer machine = stream machine through [flatten] *)

Definition view (st : bstate) : sstate := MkState (flatten (rd st)) (prob st) (label st) (dist st) (extras st).
Definition rmap {A B} (f : A -> B) (r : res A) : res B := match r with Ok a => Ok (f a) | Err e => Err e | Ood => Ood end.

Lemma headers_sim fuel : forall acc s,
  headers (list line) read spush fuel acc (flatten s)
  = (fst (headers reader pull push fuel acc s), flatten (snd (headers reader pull push fuel acc s))).
Proof.
  induction fuel as [|fu IH]; intros acc s; cbn [headers]; [reflexivity|].
  rewrite pull_flatten. destruct (pull s) as [[[kv|v]|e|] s']; cbn [fst snd]; try reflexivity.
  destruct (dict_overlap kv acc); [reflexivity|apply IH].
Qed.
Lemma skip_sim k : forall s,
  skip (list line) read k (flatten s) = (fst (skip reader pull k s), flatten (snd (skip reader pull k s))).
Proof.
  induction k as [|k IH]; intros s; cbn [skip]; [reflexivity|].
  rewrite pull_flatten. destruct (pull s) as [[o|e|] s']; cbn [fst snd]; try reflexivity. apply IH.
Qed.
Lemma init_sim file start clash : init_s file start clash = rmap view (init file start clash).
Proof.
  destruct file as [f|]; [|reflexivity]. unfold init_s, init, init_g. destruct start as [z|]; [|reflexivity].
  destruct (z <? 0)%Z; [reflexivity|]. generalize (S (length f)) as fuel. intros fuel.
  change f with (flatten (MkReader [] f)) at 1. rewrite headers_sim.
  destruct (headers reader pull push fuel [] (MkReader [] f)) as [[h|e|] r1]; cbn [fst snd]; try reflexivity.
  destruct (header_fields h) as [[[[p lv] dv] ex]|e|]; try reflexivity.
  rewrite skip_sim. destruct (skip reader pull (Z.to_nat z) r1) as [[u|e|] r2]; cbn [fst snd]; try reflexivity.
  destruct (install clash ex) as [u'|e|]; reflexivity.
Qed.
Lemma generate_sim st n p :
  generate_s (view st) n p = (fst (generate st n p), view (snd (generate st n p))).
Proof.
  unfold generate_s, generate, generate_g. cbn [prob view rd].
  destruct (negb (p_matches p (prob st))); [reflexivity|].
  rewrite pull_flatten. destruct (pull (rd st)) as [[o|e|] r']; cbn [fst snd]; try reflexivity.
  destruct (unpack_obj o) as [bits|e|]; try reflexivity.
  destruct (length bits =? 2 * n); reflexivity.
Qed.
Lemma calls_sim clash cs : forall st, calls_s clash (view st) cs = calls clash st cs.
Proof.
  induction cs as [|c cs IH]; intros st; [reflexivity|].
  destruct c as [n p|p| |k]; unfold calls_s, calls in *; cbn [run_calls]; try (f_equal; apply IH).
  fold generate_s. fold generate. rewrite generate_sim. destruct (generate st n p) as [o st']. cbn [fst snd].
  f_equal. apply IH.
Qed.
Theorem scenario_sim file start clash cs : scenario file start clash cs = scenario_s file start clash cs.
Proof.
  unfold scenario, scenario_s. rewrite init_sim. destruct (init file start clash) as [st|e|]; cbn [rmap]; try reflexivity.
  now rewrite calls_sim.
Qed.

(* ------------------------------------------------------------------------------------------ *)
(** * Stream-level lemmas *)

Definition is_hdr_line (l : line) : bool := match l with Skip | Hdr _ => true | _ => false end.
(* the key/value pairs of a header section, in file order, whatever the grouping into lines *)
Fixpoint hkv (hs : list line) : dict :=
  match hs with [] => [] | Hdr kv :: r => kv ++ hkv r | _ :: r => hkv r end.
(* a body section: recorded values interleaved with comment/blank lines *)
Fixpoint bodies (f : list line) : option (list jvalue) :=
  match f with
  | [] => Some []
  | Skip :: r => bodies r
  | Body v :: r => option_map (cons v) (bodies r)
  | _ :: _ => None
  end.

Lemma NoDup_app_l {A} (a b : list A) : NoDup (a ++ b) -> NoDup a.
Proof.
  induction a as [|x a IH]; cbn; intros H; [constructor|]. inversion H as [|? ? Hn Hd]; subst. constructor; auto.
  intros Hin. apply Hn. apply in_or_app. now left.
Qed.
Lemma headers_s_app t hs : forall acc fuel, forallb is_hdr_line hs = true -> NoDup (keys (acc ++ hkv hs)) ->
  length hs <= fuel -> exists fuel', fuel - length hs <= fuel' /\
  headers (list line) read spush fuel acc (hs ++ t) = headers (list line) read spush fuel' (acc ++ hkv hs) t.
Proof.
  induction hs as [|l hs IH]; intros acc fuel H ND Hf.
  - exists fuel. cbn. rewrite app_nil_r. split; [lia|reflexivity].
  - cbn [forallb] in H. apply andb_true_iff in H. destruct H as [Hl H]. cbn [length] in Hf.
    destruct fuel as [|fu]; [lia|]. destruct l as [|kv|v|]; try discriminate.
    + destruct (IH acc (S fu) H ND ltac:(lia)) as (fuel' & Hge & E). exists fuel'. split; [cbn [length]; lia|].
      cbn [hkv]. rewrite <- E. reflexivity.
    + cbn [hkv] in ND. rewrite app_assoc in ND.
      assert (ND1 : NoDup (keys (acc ++ kv))).
      { rewrite keys_app in ND. now apply NoDup_app_l in ND. }
      destruct (IH (acc ++ kv) fu H ND ltac:(lia)) as (fuel' & Hge & E). exists fuel'. split; [cbn [length]; lia|].
      cbn [app headers read]. rewrite dict_overlap_false, dict_update_fresh by auto. rewrite E. cbn [hkv].
      now rewrite app_assoc.
Qed.

Lemma read_bodies f vs : bodies f = Some vs ->
  match vs with
  | [] => read f = (Err EOFError, [])
  | v :: vs' => exists r, read f = (Ok (OVal v), r) /\ bodies r = Some vs'
  end.
Proof.
  revert vs. induction f as [|l f IH]; intros vs H; cbn in H.
  - injection H as <-. reflexivity.
  - destruct l as [|kv|v|]; cbn [read]; try discriminate.
    + apply IH, H.
    + destruct (bodies f) as [vs0|] eqn:E; [|discriminate]. injection H as <-. eauto.
Qed.
Lemma skip_bodies k : forall f vs, bodies f = Some vs -> k <= length vs ->
  exists r, skip (list line) read k f = (Ok tt, r) /\ bodies r = Some (skipn k vs).
Proof.
  induction k as [|k IH]; intros f vs H Hk; cbn [skip skipn]; [eauto|].
  pose proof (read_bodies _ _ H) as P. destruct vs as [|v vs]; [cbn in Hk; lia|].
  destruct P as (r & -> & Hr). apply IH; auto. cbn in Hk; lia.
Qed.
Lemma skip_bodies_eof k : forall f vs, bodies f = Some vs -> length vs < k ->
  exists r, skip (list line) read k f = (Err EOFError, r).
Proof.
  induction k as [|k IH]; intros f vs H Hk; [lia|]. cbn [skip].
  pose proof (read_bodies _ _ H) as P. destruct vs as [|v vs]; [rewrite P; eauto|].
  destruct P as (r & -> & Hr). apply (IH r vs); auto. cbn in Hk; lia.
Qed.

(* ------------------------------------------------------------------------------------------ *)
(** * Specification of the served sequence, independent of layout, buffering and packing *)

(* [es] = recorded errors not yet served.  Every generate with the right probability consumes one
   (also when the qubit count is wrong); nothing else moves the cursor; past the end: EOFError. *)
Fixpoint spec_calls (clash : list str) (hp : num) (lv dv : jvalue) (ex : dict) (es : list bsf) (cs : list call)
  : list outcome :=
  match cs with
  | [] => []
  | CGen n p :: cs' =>
      if negb (p_matches p hp) then OErr ValueError :: spec_calls clash hp lv dv ex es cs'
      else match es with
           | [] => OErr EOFError :: spec_calls clash hp lv dv ex [] cs'
           | e :: es' => (if length e =? 2 * n then OBits e else OErr ValueError) :: spec_calls clash hp lv dv ex es' cs'
           end
  | CDist p :: cs' => dist_answer hp dv p :: spec_calls clash hp lv dv ex es cs'
  | CLabel :: cs' => OLabel lv :: spec_calls clash hp lv dv ex es cs'
  | CAttr k :: cs' => attr_answer clash ex k :: spec_calls clash hp lv dv ex es cs'
  end.

Definition decodes (vs : list jvalue) (es : list bsf) : Prop := Forall2 (fun v e => unpack_obj (OVal v) = Ok e) vs es.

Lemma calls_s_spec clash cs : forall (st : sstate) vs es, bodies (rd st) = Some vs -> decodes vs es ->
  calls_s clash st cs = spec_calls clash (prob st) (label st) (dist st) (extras st) es cs.
Proof.
  unfold calls_s. induction cs as [|c cs IH]; intros st vs es HB HD; [reflexivity|].
  destruct c as [n p|p| |k]; cbn [run_calls spec_calls pure_answer]; try (f_equal; eapply IH; eauto).
  unfold generate_g. destruct (negb (p_matches p (prob st))).
  - f_equal. eapply IH; eauto.
  - pose proof (read_bodies _ _ HB) as P. destruct vs as [|v vs].
    + inversion HD; subst. rewrite P. f_equal. apply (IH (with_rd st []) [] []); auto; constructor.
    + destruct P as (r & -> & Hr). inversion HD as [|? e ? es' Hv HD']; subst. rewrite Hv.
      destruct (length e =? 2 * n); (f_equal; apply (IH (with_rd st r) vs es'); auto).
Qed.

(* a well-formed file: header section (dict lines and comments in any grouping), then the body
   section starting with the first recorded error; [hd] is the recorded header, [es] the errors *)
Definition wf_file (f : list line) (hd : dict) (es : list bsf) : Prop :=
  exists hs v0 bs vs,
    f = hs ++ Body v0 :: bs /\ forallb is_hdr_line hs = true /\ hkv hs = hd /\ NoDup (keys hd)
    /\ bodies bs = Some vs /\ decodes (v0 :: vs) es.
Lemma wf_nodup f hd es : wf_file f hd es -> NoDup (keys hd).
Proof. intros (hs & v0 & bs & vs & _ & _ & _ & ND & _). exact ND. Qed.
Lemma Forall2_length {A B} (P : A -> B -> Prop) l l' : Forall2 P l l' -> length l = length l'.
Proof. induction 1; cbn; auto. Qed.

Lemma headers_wf f hd es : wf_file f hd es ->
  exists v0 bs vs, headers (list line) read spush (S (length f)) [] f = (Ok hd, Body v0 :: bs)
                   /\ bodies bs = Some vs /\ decodes (v0 :: vs) es.
Proof.
  intros (hs & v0 & bs & vs & -> & HL & <- & ND & HB & HD).
  destruct (headers_s_app (Body v0 :: bs) hs [] (S (length (hs ++ Body v0 :: bs))) HL ND) as (fuel' & Hge & E).
  { rewrite app_length. lia. }
  rewrite app_length in Hge. cbn [length] in Hge. destruct fuel' as [|fu]; [lia|].
  exists v0, bs, vs. rewrite E. cbn. auto.
Qed.

Theorem init_s_wf f hd es clash s p lv dv ex : wf_file f hd es -> header_fields hd = Ok (p, lv, dv, ex) ->
  install clash ex = Ok tt -> s <= length es ->
  exists st, init_s (Some f) (StInt (Z.of_nat s)) clash = Ok st
             /\ prob st = p /\ label st = lv /\ dist st = dv /\ extras st = ex
             /\ exists vs, bodies (rd st) = Some vs /\ decodes vs (skipn s es).
Proof.
  intros W HF HI Hs. destruct (headers_wf _ _ _ W) as (v0 & bs & vs & EH & HB & HD).
  unfold init_s, init_g. destruct (Z.ltb_spec (Z.of_nat s) 0); [lia|]. rewrite EH, HF, Nat2Z.id.
  assert (HB' : bodies (Body v0 :: bs) = Some (v0 :: vs)) by (cbn; now rewrite HB).
  assert (Hl : length (v0 :: vs) = length es) by (eapply Forall2_length; eauto).
  destruct (skip_bodies s _ _ HB' ltac:(lia)) as (r & -> & Hr). rewrite HI.
  eexists. split; [reflexivity|]. cbn. repeat split; auto. exists (skipn s (v0 :: vs)). split; auto.
  clear - HD. revert s. induction HD as [|a b l l' Hab HD IH]; intros [|s]; cbn; auto; constructor; auto.
Qed.

Theorem init_s_eof f hd es clash s p lv dv ex : wf_file f hd es -> header_fields hd = Ok (p, lv, dv, ex) ->
  length es < s -> init_s (Some f) (StInt (Z.of_nat s)) clash = Err EOFError.
Proof.
  intros W HF Hs. destruct (headers_wf _ _ _ W) as (v0 & bs & vs & EH & HB & HD).
  unfold init_s, init_g. destruct (Z.ltb_spec (Z.of_nat s) 0); [lia|]. rewrite EH, HF, Nat2Z.id.
  assert (HB' : bodies (Body v0 :: bs) = Some (v0 :: vs)) by (cbn; now rewrite HB).
  assert (Hl : length (v0 :: vs) = length es) by (eapply Forall2_length; eauto).
  destruct (skip_bodies_eof s _ _ HB' ltac:(lia)) as (r & ->). reflexivity.
Qed.

(* header section running into the end of the file: EOFError from init whatever the start *)
Theorem init_s_header_only hs clash s : forallb is_hdr_line hs = true -> NoDup (keys (hkv hs)) -> (0 <= s)%Z ->
  init_s (Some hs) (StInt s) clash = Err EOFError.
Proof.
  intros HL ND Hs. unfold init_s, init_g. destruct (Z.ltb_spec s 0); [lia|].
  destruct (headers_s_app [] hs [] (S (length hs)) HL ND ltac:(lia)) as (fuel' & Hge & E).
  rewrite app_nil_r in E. rewrite E. destruct fuel' as [|fu]; [lia|]. reflexivity.
Qed.

(* malformed header sections *)
Theorem init_s_repeated hs kv t k clash s : forallb is_hdr_line hs = true -> NoDup (keys (hkv hs)) ->
  In k (keys kv) -> In k (keys (hkv hs)) -> (0 <= s)%Z ->
  init_s (Some (hs ++ Hdr kv :: t)) (StInt s) clash = Err ValueError.
Proof.
  intros HL ND K1 K2 Hs. unfold init_s, init_g. destruct (Z.ltb_spec s 0); [lia|].
  destruct (headers_s_app (Hdr kv :: t) hs [] (S (length (hs ++ Hdr kv :: t))) HL ND) as (fuel' & Hge & E).
  { rewrite app_length. lia. }
  rewrite app_length in Hge. cbn [length] in Hge. rewrite E. destruct fuel' as [|fu]; [lia|].
  cbn [headers read app]. now rewrite (dict_overlap_true kv (hkv hs) k).
Qed.
Theorem init_s_badjson_header hs t clash s : forallb is_hdr_line hs = true -> NoDup (keys (hkv hs)) -> (0 <= s)%Z ->
  init_s (Some (hs ++ BadJson :: t)) (StInt s) clash = Err JSONDecodeError.
Proof.
  intros HL ND Hs. unfold init_s, init_g. destruct (Z.ltb_spec s 0); [lia|].
  destruct (headers_s_app (BadJson :: t) hs [] (S (length (hs ++ BadJson :: t))) HL ND) as (fuel' & Hge & E).
  { rewrite app_length. lia. }
  rewrite app_length in Hge. cbn [length] in Hge. rewrite E. destruct fuel' as [|fu]; [lia|]. reflexivity.
Qed.
(* any failure of the pure header processing surfaces from init (file with a body, start >= 0) *)
Theorem init_s_header_error f hd es clash s e : wf_file f hd es -> header_fields hd = Err e -> (0 <= s)%Z ->
  init_s (Some f) (StInt s) clash = Err e.
Proof.
  intros W HF Hs. destruct (headers_wf _ _ _ W) as (v0 & bs & vs & EH & HB & HD).
  unfold init_s, init_g. destruct (Z.ltb_spec s 0); [lia|]. now rewrite EH, HF.
Qed.
Theorem init_s_bad_extra f hd es clash s p lv dv ex : wf_file f hd es -> header_fields hd = Ok (p, lv, dv, ex) ->
  s <= length es -> install clash ex = Err ValueError ->
  init_s (Some f) (StInt (Z.of_nat s)) clash = Err ValueError.
Proof.
  intros W HF Hs HI. destruct (headers_wf _ _ _ W) as (v0 & bs & vs & EH & HB & HD).
  unfold init_s, init_g. destruct (Z.ltb_spec (Z.of_nat s) 0); [lia|]. rewrite EH, HF, Nat2Z.id.
  assert (HB' : bodies (Body v0 :: bs) = Some (v0 :: vs)) by (cbn; now rewrite HB).
  assert (Hl : length (v0 :: vs) = length es) by (eapply Forall2_length; eauto).
  destruct (skip_bodies s _ _ HB' ltac:(lia)) as (r & -> & Hr). now rewrite HI.
Qed.

(* ------------------------------------------------------------------------------------------ *)
(** * Transfer to the implementation's machine (with the push-back buffer) *)

Lemma init_view file start clash st : init_s file start clash = Ok st ->
  exists bst, init file start clash = Ok bst /\ view bst = st.
Proof. rewrite init_sim. destruct (init file start clash) as [b|e|]; cbn; intros H; try discriminate. injection H as <-. eauto. Qed.
Lemma init_err file start clash e : init_s file start clash = Err e -> init file start clash = Err e.
Proof. rewrite init_sim. destruct (init file start clash) as [b|e'|]; cbn; intros H; try discriminate. now injection H as <-. Qed.

(* MASTER: after opening a well-formed file at start s, every call sequence is answered according to
   [spec_calls] on the recorded errors from s on. *)
Theorem replay_calls f hd es clash s p lv dv ex : wf_file f hd es -> header_fields hd = Ok (p, lv, dv, ex) ->
  install clash ex = Ok tt -> s <= length es ->
  exists st, init (Some f) (StInt (Z.of_nat s)) clash = Ok st
             /\ prob st = p /\ label st = lv /\ dist st = dv /\ extras st = ex
             /\ forall cs, calls clash st cs = spec_calls clash p lv dv ex (skipn s es) cs.
Proof.
  intros W HF HI Hs. destruct (init_s_wf f hd es clash s p lv dv ex W HF HI Hs) as (st & E & P1 & P2 & P3 & P4 & vs & HB & HD).
  destruct (init_view _ _ _ _ E) as (bst & Eb & <-). exists bst. cbn in P1, P2, P3, P4. repeat split; auto.
  intros cs. rewrite <- calls_sim. rewrite (calls_s_spec clash cs (view bst) vs (skipn s es) HB HD). cbn.
  now rewrite P1, P2, P3, P4.
Qed.

(* i consecutive generate calls with the file's probability and the recorded qubit count *)
Definition gens (clash : list str) (st : bstate) (n : nat) (p : parg) (i : nat) : list outcome :=
  calls clash st (repeat (CGen n p) i).
Lemma spec_gens clash hp lv dv ex n p : p_matches p hp = true -> forall i es, Forall (fun e => length e = 2 * n) es ->
  spec_calls clash hp lv dv ex es (repeat (CGen n p) i)
  = map OBits (firstn i es) ++ repeat (OErr EOFError) (i - length es).
Proof.
  intros Hp. induction i as [|i IH]; intros es F; [reflexivity|]. cbn [repeat spec_calls]. rewrite Hp. cbn [negb].
  destruct es as [|e es].
  - rewrite IH by constructor. rewrite firstn_nil. cbn [firstn map app length]. rewrite !Nat.sub_0_r. reflexivity.
  - inversion F as [|? ? He F']; subst. rewrite He, Nat.eqb_refl. cbn [firstn map app length]. rewrite IH by auto. reflexivity.
Qed.

Lemma in_skipn {A} (x : A) k : forall l, In x (skipn k l) -> In x l.
Proof. induction k as [|k IH]; intros [|a l] H; cbn in *; auto. Qed.
Lemma nth_skipn' {A} (d : A) s : forall l i, nth i (skipn s l) d = nth (s + i) l d.
Proof. induction s as [|s IH]; intros [|a l] i; cbn; auto. now destruct i. Qed.
Lemma nth_firstn_lt {A} (d : A) k : forall l i, i < k -> nth i (firstn k l) d = nth i l d.
Proof. induction k as [|k IH]; intros [|a l] [|i] H; cbn; auto; try lia. apply IH. lia. Qed.
Theorem replay f hd es clash s p lv dv ex n pa : wf_file f hd es -> header_fields hd = Ok (p, lv, dv, ex) ->
  install clash ex = Ok tt -> s <= length es -> Forall (fun e => length e = 2 * n) es -> p_matches pa p = true ->
  exists st, init (Some f) (StInt (Z.of_nat s)) clash = Ok st /\
    forall i, gens clash st n pa i = map OBits (firstn i (skipn s es)) ++ repeat (OErr EOFError) (i - (length es - s)).
Proof.
  intros W HF HI Hs F Hp. destruct (replay_calls f hd es clash s p lv dv ex W HF HI Hs) as (st & E & _ & _ & _ & _ & HC).
  exists st. split; auto. intros i. unfold gens. rewrite HC, spec_gens; auto.
  - now rewrite skipn_length.
  - rewrite Forall_forall in *. intros x Hx. apply F. eapply in_skipn; eauto.
Qed.
(* the i-th generate returns e_{s+i} *)
Corollary replay_nth f hd es clash s p lv dv ex n pa i : wf_file f hd es -> header_fields hd = Ok (p, lv, dv, ex) ->
  install clash ex = Ok tt -> Forall (fun e => length e = 2 * n) es -> p_matches pa p = true -> s + i < length es ->
  exists st, init (Some f) (StInt (Z.of_nat s)) clash = Ok st /\
    nth i (gens clash st n pa (S i)) OOod = OBits (nth (s + i) es []).
Proof.
  intros W HF HI F Hp Hi. destruct (replay f hd es clash s p lv dv ex n pa W HF HI ltac:(lia) F Hp) as (st & E & G).
  exists st. split; auto. rewrite G. replace (S i - (length es - s)) with 0 by lia. cbn [repeat]. rewrite app_nil_r.
  assert (Hl : i < length (skipn s es)) by (rewrite skipn_length; lia).
  rewrite (nth_indep _ OOod (OBits [])) by (rewrite map_length, firstn_length; lia).
  rewrite map_nth. f_equal. rewrite nth_firstn_lt by lia. apply nth_skipn'.
Qed.

Theorem eof_calls f hd es clash s p lv dv ex n pa k : wf_file f hd es -> header_fields hd = Ok (p, lv, dv, ex) ->
  install clash ex = Ok tt -> s <= length es -> Forall (fun e => length e = 2 * n) es -> p_matches pa p = true ->
  exists st, init (Some f) (StInt (Z.of_nat s)) clash = Ok st /\
    gens clash st n pa (length es - s + k) = map OBits (skipn s es) ++ repeat (OErr EOFError) k.
Proof.
  intros W HF HI Hs F Hp. destruct (replay f hd es clash s p lv dv ex n pa W HF HI Hs F Hp) as (st & E & G).
  exists st. split; auto. rewrite G. f_equal.
  - rewrite firstn_all2; auto. rewrite skipn_length. lia.
  - f_equal. lia.
Qed.
Theorem eof_init f hd es clash s p lv dv ex : wf_file f hd es -> header_fields hd = Ok (p, lv, dv, ex) ->
  length es < s -> init (Some f) (StInt (Z.of_nat s)) clash = Err EOFError.
Proof. intros. apply init_err. eapply init_s_eof; eauto. Qed.
Theorem eof_header_only hs clash s : forallb is_hdr_line hs = true -> NoDup (keys (hkv hs)) -> (0 <= s)%Z ->
  init (Some hs) (StInt s) clash = Err EOFError.
Proof. intros. apply init_err. now apply init_s_header_only. Qed.
(* at the end of the stream generate keeps raising EOFError and the state does not change *)
Theorem eof_sticky (st : bstate) n p : buf (rd st) = [] -> bodies (rest (rd st)) = Some [] -> p_matches p (prob st) = true ->
  exists st', generate st n p = (OErr EOFError, st') /\ buf (rd st') = [] /\ rest (rd st') = [].
Proof.
  intros Hb HB Hp. unfold generate, generate_g. rewrite Hp. cbn [negb]. unfold pull. rewrite Hb.
  pose proof (read_bodies _ _ HB) as P. cbn in P. rewrite P. eexists. split; [reflexivity|]. auto.
Qed.

(* header exposure *)
Theorem header_exposed f hd es clash s st : wf_file f hd es -> init (Some f) (StInt s) clash = Ok st ->
  (exists pv, lookup k_probability hd = Some pv /\ float_of pv = Ok (prob st))
  /\ lookup k_label hd = Some (label st)
  /\ dist st = match lookup k_dist hd with Some d => d | None => JNull end
  /\ extras st = drop_key k_dist (drop_key k_label (drop_key k_probability hd))
  /\ (forall k, k <> k_probability -> k <> k_label -> k <> k_dist -> lookup k (extras st) = lookup k hd)
  /\ Forall (fun k => attr_re k = true /\ mem k clash = false) (keys (extras st)).
Proof.
  intros W E. assert (Es : init_s (Some f) (StInt s) clash = Ok (view st)) by (rewrite init_sim, E; reflexivity).
  destruct (headers_wf _ _ _ W) as (v0 & bs & vs & EH & HB & HD).
  unfold init_s, init_g in Es. destruct (s <? 0)%Z; [discriminate|]. rewrite EH in Es.
  destruct (header_fields hd) as [[[[p lv] dv] ex]|e|] eqn:HF; try discriminate.
  destruct (skip (list line) read (Z.to_nat s) (Body v0 :: bs)) as [[u|e|] r2]; try discriminate.
  destruct (install clash ex) as [u'|e|] eqn:HI; try discriminate. injection Es as _ <- <- <- <-.
  destruct (header_fields_spec hd _ _ _ _ (wf_nodup _ _ _ W) HF) as (A & B & C & D & G & _).
  repeat split; auto. destruct u'. apply install_ok_inv in HI. rewrite Forall_forall in *. intros k Hk. destruct (HI k Hk); tauto.
Qed.
(* grouping of header keys into lines and placement of comments do not matter: two files with the same
   recorded header and errors are observationally equal *)
Theorem layout_independent f f' hd es clash s cs : wf_file f hd es -> wf_file f' hd es ->
  scenario (Some f) (StInt s) clash cs = scenario (Some f') (StInt s) clash cs.
Proof.
  intros W W'. rewrite !scenario_sim. unfold scenario_s, init_s, init_g.
  destruct (headers_wf _ _ _ W) as (v0 & bs & vs & EH & HB & HD).
  destruct (headers_wf _ _ _ W') as (v0' & bs' & vs' & EH' & HB' & HD').
  destruct (s <? 0)%Z; [reflexivity|]. rewrite EH, EH'.
  destruct (header_fields hd) as [[[[p lv] dv] ex]|e|] eqn:HF; try reflexivity.
  assert (B1 : bodies (Body v0 :: bs) = Some (v0 :: vs)) by (cbn; now rewrite HB).
  assert (B2 : bodies (Body v0' :: bs') = Some (v0' :: vs')) by (cbn; now rewrite HB').
  assert (L1 : length (v0 :: vs) = length es) by (eapply Forall2_length; eauto).
  assert (L2 : length (v0' :: vs') = length es) by (eapply Forall2_length; eauto).
  assert (SK : forall k vs es, decodes vs es -> decodes (skipn k vs) (skipn k es)).
  { intros k a b H. revert k. induction H; intros [|k]; cbn; auto; constructor; auto. }
  destruct (Nat.le_gt_cases (Z.to_nat s) (length es)) as [Hs|Hs].
  - destruct (skip_bodies (Z.to_nat s) _ _ B1 ltac:(lia)) as (r & -> & Hr).
    destruct (skip_bodies (Z.to_nat s) _ _ B2 ltac:(lia)) as (r' & -> & Hr').
    destruct (install clash ex) as [u|e|]; try reflexivity. cbn [extras]. f_equal.
    rewrite (calls_s_spec clash cs (MkState r p lv dv ex) _ _ Hr (SK _ _ _ HD)), (calls_s_spec clash cs (MkState r' p lv dv ex) _ _ Hr' (SK _ _ _ HD')). reflexivity.
  - destruct (skip_bodies_eof (Z.to_nat s) _ _ B1 ltac:(lia)) as (r & ->).
    destruct (skip_bodies_eof (Z.to_nat s) _ _ B2 ltac:(lia)) as (r' & ->). reflexivity.
Qed.

Lemma init_ok_inv f hd es clash s st : wf_file f hd es -> init (Some f) (StInt s) clash = Ok st ->
  header_fields hd = Ok (prob st, label st, dist st, extras st) /\ install clash (extras st) = Ok tt /\ (0 <= s)%Z
  /\ Z.to_nat s <= length es.
Proof.
  intros W E. assert (Es : init_s (Some f) (StInt s) clash = Ok (view st)) by (rewrite init_sim, E; reflexivity).
  destruct (headers_wf _ _ _ W) as (v0 & bs & vs & EH & HB & HD).
  unfold init_s, init_g in Es. destruct (Z.ltb_spec s 0); [discriminate|]. rewrite EH in Es.
  destruct (header_fields hd) as [[[[p lv] dv] ex]|e|] eqn:HF; try discriminate.
  assert (HB' : bodies (Body v0 :: bs) = Some (v0 :: vs)) by (cbn; now rewrite HB).
  assert (Hl : length (v0 :: vs) = length es) by (eapply Forall2_length; eauto).
  destruct (Nat.le_gt_cases (Z.to_nat s) (length es)) as [Hs|Hs].
  2:{ destruct (skip_bodies_eof (Z.to_nat s) _ _ HB' ltac:(lia)) as (r & Er). rewrite Er in Es. discriminate. }
  destruct (skip (list line) read (Z.to_nat s) (Body v0 :: bs)) as [[u|e|] r2]; try discriminate.
  destruct (install clash ex) as [[]|e|] eqn:HI; try discriminate. injection Es as _ <- <- <- <-. auto.
Qed.
Lemma spec_calls_ext clash hp lv dv ex ex' : (forall k, lookup k ex = lookup k ex') ->
  forall cs es, spec_calls clash hp lv dv ex es cs = spec_calls clash hp lv dv ex' es cs.
Proof.
  intros X. induction cs as [|c cs IH]; intros es; [reflexivity|].
  destruct c as [n p|p| |k]; cbn [spec_calls]; try (f_equal; apply IH).
  - destruct (negb (p_matches p hp)); [f_equal; apply IH|]. destruct es; f_equal; apply IH.
  - rewrite IH. unfold attr_answer. now rewrite X.
Qed.
(* the order of the header keys does not matter either *)
Theorem order_independent f f' hd hd' es clash s st : wf_file f hd es -> wf_file f' hd' es -> Permutation hd hd' ->
  init (Some f) (StInt s) clash = Ok st ->
  exists st', init (Some f') (StInt s) clash = Ok st' /\ prob st' = prob st /\ label st' = label st /\ dist st' = dist st
              /\ Permutation (extras st) (extras st') /\ forall cs, calls clash st' cs = calls clash st cs.
Proof.
  intros W W' P E. destruct (init_ok_inv _ _ _ _ _ _ W E) as (HF & HI & Hs0 & Hs).
  pose proof (wf_nodup _ _ _ W) as ND.
  destruct (header_fields_perm _ _ _ _ _ _ P ND HF) as (ex' & HF' & Pex).
  destruct (header_fields_spec _ _ _ _ _ ND HF) as (_ & _ & _ & _ & _ & NDex & _).
  pose proof (install_perm _ _ _ Pex NDex HI) as HI'.
  assert (Es : s = Z.of_nat (Z.to_nat s)) by lia. set (k := Z.to_nat s) in *. clearbody k. subst s.
  destruct (replay_calls f hd es clash k _ _ _ _ W HF HI Hs) as (st0 & E0 & _ & _ & _ & _ & C0).
  destruct (replay_calls f' hd' es clash k _ _ _ _ W' HF' HI' Hs) as (st' & E' & P1 & P2 & P3 & P4 & C').
  rewrite E in E0. injection E0 as <-. exists st'. repeat split; auto; try congruence.
  intros cs. rewrite C', C0. symmetry. apply spec_calls_ext. intros k'. apply lookup_perm; auto.
Qed.

(* refusals *)
Theorem refuse_probability (st : bstate) n p : p_matches p (prob st) = false -> generate st n p = (OErr ValueError, st).
Proof. intros H. unfold generate, generate_g. now rewrite H. Qed.
Theorem refuse_probability_dist hp dv p : p_matches p hp = false -> dist_answer hp dv p = OErr ValueError.
Proof. intros H. unfold dist_answer. now rewrite H. Qed.
Theorem refuse_length (st : bstate) n p o r' bits : p_matches p (prob st) = true -> pull (rd st) = (Ok o, r') ->
  unpack_obj o = Ok bits -> length bits <> 2 * n -> generate st n p = (OErr ValueError, with_rd st r').
Proof.
  intros Hp HP HU HL. unfold generate, generate_g. rewrite Hp, HP, HU. cbn [negb].
  destruct (Nat.eqb_spec (length bits) (2 * n)); [contradiction|reflexivity].
Qed.
Theorem dist_missing hp dv p : truthy dv = false -> exists e, dist_answer hp dv p = OErr e.
Proof. intros H. unfold dist_answer. rewrite H. destruct (negb (p_matches p hp)); eauto. Qed.

(* what generate can return at all *)
Theorem generate_cases (st : bstate) n p : let (o, st') := generate st n p in
  match o with
  | OBits e => p_matches p (prob st) = true /\ length e = 2 * n /\ exists ob, pull (rd st) = (Ok ob, rd st') /\ unpack_obj ob = Ok e
  | OErr _ => True
  | OOod => True
  | _ => False
  end.
Proof.
  unfold generate, generate_g. destruct (p_matches p (prob st)); cbn [negb]; [|exact I].
  destruct (pull (rd st)) as [[o|e|] r'] eqn:HP; try exact I.
  destruct (unpack_obj o) as [bits|e|] eqn:HU; try exact I.
  destruct (Nat.eqb_spec (length bits) (2 * n)); [|exact I]. cbn. eauto 6.
Qed.
(* a header (dict) line or a bad JSON line reached by generate, or anything unpack rejects, raises *)
Theorem generate_rejects (st : bstate) n p o r' : p_matches p (prob st) = true -> pull (rd st) = (o, r') ->
  (o = Err JSONDecodeError -> generate st n p = (OErr JSONDecodeError, with_rd st r'))
  /\ (forall kv, o = Ok (ODict kv) -> exists e, generate st n p = (OErr e, with_rd st r') /\ (e = ValueError \/ e = TypeError))
  /\ (forall ob e, o = Ok ob -> unpack_obj ob = Err e -> generate st n p = (OErr e, with_rd st r')).
Proof.
  intros Hp HP. unfold generate, generate_g. rewrite Hp, HP. cbn [negb]. repeat split.
  - now intros ->.
  - intros kv ->. destruct (unpack_dict_rejected kv) as (e & -> & He). eauto.
  - intros ob e -> ->. reflexivity.
Qed.

(* malformed files, at the implementation's machine *)
Theorem malformed_repeated hs kv t k clash s : forallb is_hdr_line hs = true -> NoDup (keys (hkv hs)) ->
  In k (keys kv) -> In k (keys (hkv hs)) -> (0 <= s)%Z -> init (Some (hs ++ Hdr kv :: t)) (StInt s) clash = Err ValueError.
Proof. intros. apply init_err. eapply init_s_repeated; eauto. Qed.
Theorem malformed_badjson_header hs t clash s : forallb is_hdr_line hs = true -> NoDup (keys (hkv hs)) -> (0 <= s)%Z ->
  init (Some (hs ++ BadJson :: t)) (StInt s) clash = Err JSONDecodeError.
Proof. intros. apply init_err. now apply init_s_badjson_header. Qed.
Theorem malformed_missing_probability f hd es clash s : wf_file f hd es -> lookup k_probability hd = None -> (0 <= s)%Z ->
  init (Some f) (StInt s) clash = Err ValueError.
Proof. intros W H Hs. apply init_err. eapply init_s_header_error; eauto. now apply header_fields_missing_probability. Qed.
Theorem malformed_missing_label f hd es clash s pv p : wf_file f hd es -> lookup k_probability hd = Some pv -> float_of pv = Ok p ->
  lookup k_label hd = None -> (0 <= s)%Z -> init (Some f) (StInt s) clash = Err ValueError.
Proof. intros W H F HL Hs. apply init_err. eapply init_s_header_error; eauto. eapply header_fields_missing_label; eauto. Qed.
Theorem malformed_bad_probability f hd es clash s pv e : wf_file f hd es -> lookup k_probability hd = Some pv -> float_of pv = Err e ->
  (0 <= s)%Z -> init (Some f) (StInt s) clash = Err e.
Proof. intros W H F Hs. apply init_err. eapply init_s_header_error; eauto. eapply header_fields_bad_probability; eauto. Qed.
Theorem malformed_extra f hd es clash s p lv dv ex : wf_file f hd es -> header_fields hd = Ok (p, lv, dv, ex) -> s <= length es ->
  Forall (fun k => all_ascii k = true) (keys ex) -> Exists (fun k => attr_re k = false \/ mem k clash = true) (keys ex) ->
  init (Some f) (StInt (Z.of_nat s)) clash = Err ValueError.
Proof. intros W HF Hs A E. apply init_err. eapply init_s_bad_extra; eauto. now apply install_bad. Qed.
Theorem malformed_start file clash z : (z < 0)%Z -> file <> None -> init file (StInt z) clash = Err ValueError.
Proof.
  intros Hz Hf. destruct file as [f|]; [|contradiction]. unfold init, init_g. destruct (Z.ltb_spec z 0); [reflexivity|lia].
Qed.

(* The documentation promises "a valid Python attribute name, not starting with an underscore"; the regex
   as written (and as modelled) admits exactly one more shape: such a name followed by one newline. *)
Definition attr_names_statement : Prop := forall k, attr_re k = true -> is_ident k = true.
Theorem attr_names_partial k : attr_re k = true -> is_ident k = true \/ exists k', k = k' ++ [10%N] /\ is_ident k' = true.
Proof. apply attr_re_ident. Qed.
Theorem attr_names_counterexample : ~ attr_names_statement.
Proof. intros H. specialize (H [97%N; 10%N] eq_refl). discriminate. Qed.

(* ------------------------------------------------------------------------------------------ *)
(** * Example files (used by Props/C18.v) *)

Module Ex.
Import String.
Definition sv (s : string) : str := s_of s.
Definition bits (s : string) : bsf := map (fun a => N.eqb (Ascii.N_of_ascii a) 49) (list_ascii_of_string s).
Definition e0 := bits "1111001110". Definition e1 := bits "0010100101". Definition e2 := bits "1100111000".
Definition e3 := bits "0111101111".
Definition ex_clash : list str := [sv "generate"; sv "label"; sv "probability_distribution"].
Definition ex_dist : jvalue := JList [JFloat (NFin 3 5); JFloat (NFin 1 10); JFloat (NFin 1 5); JFloat (NFin 1 10)].
Definition ex_hdr : dict :=
  [(sv "probability", JFloat (NFin 2 5)); (sv "label", JStr (sv "Biased (bias=10)")); (sv "probability_distribution", ex_dist);
   (sv "bias", JInt 10)].
(* the documented example layout: one key per line, comments in between *)
Definition ex_file : list line :=
  [Skip; Hdr [(sv "probability", JFloat (NFin 2 5))]; Skip; Hdr [(sv "label", JStr (sv "Biased (bias=10)"))]; Skip;
   Hdr [(sv "probability_distribution", ex_dist)]; Hdr [(sv "bias", JInt 10)]; Skip; Skip;
   Body (packed_value e0); Skip; Body (packed_value e1); Body (packed_value e2); Skip; Skip; Body (packed_value e3); Skip].
(* same content, all keys on one line, no comments *)
Definition ex_file2 : list line :=
  [Hdr ex_hdr; Body (packed_value e0); Body (packed_value e1); Body (packed_value e2); Body (packed_value e3)].
Definition ex_p : parg := PNum (NFin 4 10).
Definition ex_calls : list call :=
  [CLabel; CAttr (sv "bias"); CDist ex_p; CGen 5 ex_p; CGen 5 (PNum (NFin 1 2)); CGen 4 ex_p; CGen 5 ex_p; CGen 5 ex_p; CGen 5 ex_p].
Definition ex_errors : list bsf := [e0; e1; e2; e3].
Lemma NoDup_keys_dec (l : list str) : (fix nd (l : list str) := match l with [] => true | a :: r => negb (mem a r) && nd r end) l = true -> NoDup l.
Proof.
  induction l as [|a l IH]; intros H; [constructor|]. apply andb_true_iff in H. destruct H as [H1 H2].
  constructor; auto. apply negb_true_iff in H1. now apply mem_nIn.
Qed.
Lemma ex_wf : wf_file ex_file ex_hdr ex_errors.
Proof.
  exists (firstn 9 ex_file), (packed_value e0), (skipn 10 ex_file), [packed_value e1; packed_value e2; packed_value e3].
  split; [reflexivity|]. split; [reflexivity|]. split; [reflexivity|]. split; [apply NoDup_keys_dec; reflexivity|].
  split; [reflexivity|]. repeat constructor; apply unpack_packed.
Qed.
Lemma ex_wf2 : wf_file ex_file2 ex_hdr ex_errors.
Proof.
  exists [Hdr ex_hdr], (packed_value e0), (skipn 2 ex_file2), [packed_value e1; packed_value e2; packed_value e3].
  split; [reflexivity|]. split; [reflexivity|]. split; [reflexivity|]. split; [apply NoDup_keys_dec; reflexivity|].
  split; [reflexivity|]. repeat constructor; apply unpack_packed.
Qed.
(* start 1: label, extra, distribution, e1, wrong p (cursor stays), wrong n (e2 consumed), e3, EOF, EOF *)
Definition ex_trace : res (list str) * list outcome :=
  (Ok [sv "bias"],
   [OLabel (JStr (sv "Biased (bias=10)")); OAttr (JInt 10);
    OTuple [JFloat (NFin 3 5); JFloat (NFin 1 10); JFloat (NFin 1 5); JFloat (NFin 1 10)];
    OBits e1; OErr ValueError; OErr ValueError; OBits e3; OErr EOFError; OErr EOFError]).
Lemma ex_scenario : scenario (Some ex_file) (StInt 1) ex_clash ex_calls = ex_trace
  /\ scenario (Some ex_file2) (StInt 1) ex_clash ex_calls = ex_trace.
Proof. split; vm_compute; reflexivity. Qed.
(* malformed variants of the example *)
Lemma ex_malformed :
  fst (scenario (Some [Hdr [(sv "label", JStr (sv "L"))]; Body (packed_value e0)]) (StInt 0) ex_clash []) = Err ValueError
  /\ fst (scenario (Some [Hdr [(sv "probability", JInt 1)]; Body (packed_value e0)]) (StInt 0) ex_clash []) = Err ValueError
  /\ fst (scenario (Some [Hdr ex_hdr; Hdr [(sv "bias", JInt 3)]; Body (packed_value e0)]) (StInt 0) ex_clash []) = Err ValueError
  /\ fst (scenario (Some [Hdr ex_hdr; Hdr [(sv "_x", JInt 3)]; Body (packed_value e0)]) (StInt 0) ex_clash []) = Err ValueError
  /\ fst (scenario (Some [Hdr ex_hdr; Hdr [(sv "generate", JInt 3)]; Body (packed_value e0)]) (StInt 0) ex_clash []) = Err ValueError
  /\ fst (scenario (Some [Hdr ex_hdr; BadJson; Body (packed_value e0)]) (StInt 0) ex_clash []) = Err JSONDecodeError
  /\ fst (scenario (Some [Hdr ex_hdr]) (StInt 0) ex_clash []) = Err EOFError
  /\ fst (scenario (Some ex_file) (StInt 5) ex_clash []) = Err EOFError
  /\ fst (scenario (Some ex_file) (StInt (-1)) ex_clash []) = Err ValueError
  /\ fst (scenario (Some ex_file) StBad ex_clash []) = Err TypeError
  /\ snd (scenario (Some [Hdr ex_hdr; Body (packed_value e0); Hdr [(sv "x", JInt 1)]; BadJson; Body (JInt 5);
                          Body (JList [JStr (sv "f38"); JInt 10]); Body (JList [JStr (sv "f380")]); Body (packed_value e1)])
                   (StInt 1) ex_clash (repeat (CGen 5 ex_p) 7))
     = [OErr ValueError; OErr JSONDecodeError; OErr TypeError; OErr ValueError; OErr ValueError; OBits e1; OErr EOFError].
Proof. vm_compute. repeat split; reflexivity. Qed.
End Ex.
Export Ex.
