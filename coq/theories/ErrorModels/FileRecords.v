(* ErrorModels/FileRecords.v — which body records generate() serves (C18, "never invents errors",
   "refuses a qubit count that disagrees with the file"), decided from the record text alone:

   a record [hex, length] is served for a code on n qubits only as a PREFIX of the bits the hex payload really
   contains (4 bits per digit); it is never longer than the payload.  Hence a record whose payload carries fewer
   bits than 2n (truncated line, stripped trailing zero bytes, empty payload) is refused with ValueError, and so is
   a record whose stated length is not 2n although the payload holds that many bits.
   [record_decision] is the exact decision for a non-negative integer length field; it also states the one lenient
   case of np.unpackbits(...)[:length]: payload of exactly 2n bits with a larger stated length is served. *)
From Coq Require Import Arith List Bool Lia ZArith NArith.
From QV Require Import Core.Bits Core.Pack ErrorModels.FileModel.
Import ListNotations.

Definition payload (ds : list nibble) : bsf := flat_map nibble_bits ds.
Lemma payload_length ds : length (payload ds) = 4 * length ds.
Proof. unfold payload. induction ds as [|[[[a b] c] d] r IH]; [reflexivity|]. cbn [flat_map nibble_bits app length]. lia. Qed.

Lemma firstn_prefix {A} k (l : list A) : firstn k l = firstn (length (firstn k l)) l /\ length (firstn k l) <= length l.
Proof.
  rewrite firstn_length. split; [|lia]. destruct (Nat.le_gt_cases k (length l)).
  - now rewrite Nat.min_l.
  - rewrite Nat.min_r by lia. rewrite !firstn_all2; auto; lia.
Qed.
(* whatever the length field is, slicing returns a prefix of the unpacked payload *)
Lemma slice_prefix lenv l e : slice lenv l = Ok e -> e = firstn (length e) l /\ length e <= length l.
Proof.
  destruct lenv; cbn [slice]; try discriminate; intros H; injection H as <-.
  - rewrite firstn_all. split; auto.
  - apply firstn_prefix.
  - unfold slice_to. destruct (z <? 0)%Z; apply firstn_prefix.
Qed.
Lemma slice_nonneg z l : (0 <= z)%Z -> slice (JInt z) l = Ok (firstn (Nat.min (Z.to_nat z) (length l)) l).
Proof.
  intros Hz. cbn [slice]. unfold slice_to. destruct (Z.ltb_spec z 0); [lia|]. do 2 f_equal.
  destruct (Z.le_ge_cases z (Z.of_nat (length l))).
  - rewrite Z.min_l, Nat.min_l by lia. reflexivity.
  - rewrite Z.min_r, Nat.min_r, Nat2Z.id by lia. reflexivity.
Qed.

(* an unpacked record is a prefix of its payload: no bit is invented *)
Theorem unpack_prefix o e : unpack_obj o = Ok e ->
  exists s lenv ds, o = OVal (JList [JStr s; lenv]) /\ fromhex s = Some ds
                    /\ length e <= 4 * length ds /\ e = firstn (length e) (payload ds).
Proof.
  intros H. destruct (unpack_ok_shape o e H) as (s & lenv & ds & -> & F & S & _).
  destruct (slice_prefix _ _ _ S) as [P L]. fold (payload ds) in P, L. rewrite payload_length in L.
  exists s, lenv, ds. auto.
Qed.

(* a served array is the first 2n bits of a payload that really holds at least 2n bits *)
Theorem served_from_payload (st : bstate) n p e st' : generate st n p = (OBits e, st') ->
  exists s lenv ds, pull (rd st) = (Ok (OVal (JList [JStr s; lenv])), rd st') /\ fromhex s = Some ds
                    /\ 2 * n <= 4 * length ds /\ e = firstn (2 * n) (payload ds).
Proof.
  intros H. pose proof (generate_cases st n p) as G. rewrite H in G. destruct G as (_ & L & ob & HP & HU).
  destruct (unpack_prefix ob e HU) as (s & lenv & ds & -> & F & Lb & P). rewrite L in Lb, P.
  exists s, lenv, ds. auto.
Qed.

(* payload shorter than the code needs: refused, whatever the length field says (it cannot be served) *)
Theorem short_payload_not_served (st : bstate) n p s lenv ds r' :
  pull (rd st) = (Ok (OVal (JList [JStr s; lenv])), r') -> fromhex s = Some ds -> 4 * length ds < 2 * n ->
  forall e st', generate st n p <> (OBits e, st').
Proof.
  intros HP F Hlt e st' H. destruct (served_from_payload st n p e st' H) as (s2 & l2 & ds2 & HP2 & F2 & Hle & _).
  rewrite HP in HP2. injection HP2 as -> -> _. rewrite F in F2. injection F2 as ->. lia.
Qed.
Theorem short_payload_refused (st : bstate) n p s z ds r' : p_matches p (prob st) = true ->
  pull (rd st) = (Ok (OVal (JList [JStr s; JInt z])), r') -> fromhex s = Some ds -> 4 * length ds < 2 * n ->
  generate st n p = (OErr ValueError, with_rd st r').
Proof.
  intros Hp HP F Hlt.
  assert (U : exists bits, unpack_obj (OVal (JList [JStr s; JInt z])) = Ok bits /\ length bits <= 4 * length ds).
  { unfold unpack_obj. cbn [two_of]. rewrite F. cbn [slice]. eexists. split; [reflexivity|].
    fold (payload ds). rewrite <- payload_length. unfold slice_to. destruct (z <? 0)%Z; apply firstn_prefix. }
  destruct U as (bits & U & Lb). eapply refuse_length; eauto. lia.
Qed.

(* the exact decision for a record [hex, z] with an integer z >= 0 *)
Theorem record_decision (st : bstate) n p s z ds r' : p_matches p (prob st) = true ->
  pull (rd st) = (Ok (OVal (JList [JStr s; JInt z])), r') -> fromhex s = Some ds -> (0 <= z)%Z ->
  generate st n p = (if Nat.min (Z.to_nat z) (4 * length ds) =? 2 * n then OBits (firstn (2 * n) (payload ds))
                     else OErr ValueError, with_rd st r').
Proof.
  intros Hp HP F Hz. unfold generate, generate_g. rewrite Hp, HP. cbn [negb].
  unfold unpack_obj. cbn [two_of]. rewrite F, slice_nonneg by exact Hz. fold (payload ds).
  rewrite firstn_length, payload_length, <- Nat.min_assoc, Nat.min_id.
  destruct (Nat.eqb_spec (Nat.min (Z.to_nat z) (4 * length ds)) (2 * n)) as [E|E]; [|reflexivity].
  rewrite E. reflexivity.
Qed.
(* stated length different from 2n and not larger than the payload: refused *)
Theorem stated_length_refused (st : bstate) n p s z ds r' : p_matches p (prob st) = true ->
  pull (rd st) = (Ok (OVal (JList [JStr s; JInt z])), r') -> fromhex s = Some ds -> (0 <= z)%Z ->
  Z.to_nat z <> 2 * n -> Z.to_nat z <= 4 * length ds -> generate st n p = (OErr ValueError, with_rd st r').
Proof.
  intros Hp HP F Hz Hne Hle. rewrite (record_decision st n p s z ds r' Hp HP F Hz).
  rewrite Nat.min_l by exact Hle. destruct (Nat.eqb_spec (Z.to_nat z) (2 * n)); [contradiction|reflexivity].
Qed.
(* a well-formed record (stated length 2n, payload holding at least 2n bits) is served as its first 2n bits *)
Theorem consistent_record_served (st : bstate) n p s ds r' : p_matches p (prob st) = true ->
  pull (rd st) = (Ok (OVal (JList [JStr s; JInt (Z.of_nat (2 * n))])), r') -> fromhex s = Some ds ->
  2 * n <= 4 * length ds -> generate st n p = (OBits (firstn (2 * n) (payload ds)), with_rd st r').
Proof.
  intros Hp HP F Hle. rewrite (record_decision st n p s _ ds r' Hp HP F) by lia.
  rewrite Nat2Z.id, Nat.min_l by exact Hle. now rewrite Nat.eqb_refl.
Qed.

(* the seeded situation, concretely: ["84", 10] for five qubits is refused, ["8400", 10] is served *)
Definition rec_state (v : jvalue) : bstate := MkState (MkReader [] [Body v]) (NFin 2 5) JNull JNull [].
Definition hex_84 : str := [56; 52]%N.
Definition hex_8400 : str := [56; 52; 48; 48]%N.
Example truncated_record_refused :
  fst (generate (rec_state (JList [JStr hex_84; JInt 10])) 5 (PNum (NFin 2 5))) = OErr ValueError
  /\ fst (generate (rec_state (JList [JStr hex_8400; JInt 10])) 5 (PNum (NFin 2 5)))
     = OBits [true; false; false; false; false; true; false; false; false; false]
  /\ fst (generate (rec_state (JList [JStr []; JInt 10])) 5 (PNum (NFin 2 5))) = OErr ValueError.
Proof. repeat split; reflexivity. Qed.
