(* ErrorModels/DistFloat.v — binary64 models (Coq primitive floats, IEEE 754 round-to-nearest-even) of the
   probability_distribution methods that are pure Python float arithmetic without pow/sqrt: the four simple
   models and BiasedDepolarizingErrorModel, operation by operation as CPython 3.12 evaluates them:
   1 / (2 * (b + 1)) * p  is  (1 / (2 * (b + 1))) * p;  the builtin sum() over exact floats is Neumaier's
   compensated summation since 3.12 (Python/bltinmodule.c: t = f + x; c += |f| >= |x| ? (f - t) + x : (x - t) + f;
   f = t; at the end f += c when c is non-zero and finite), int items are added without compensation.
   Used for the bit-exact in-kernel correspondence shard of C16 and to reproduce defect F2 inside Coq.
   BiasedYXErrorModel is not modelled here: CPython evaluates x ** 2 with libm pow, which differs from x * x in
   about 0.09 percent of arguments (measured), so no bit-exact model of it exists at this level. *)
From Coq Require Import Floats List Bool.
From QV Require Import ErrorModels.DistQ.
Open Scope float_scope.

Notation fdist := (float * float * float * float)%type.
(* one float item of builtin sum(): state (f, c) *)
Definition nstep (fc : float * float) (x : float) : float * float :=
  let '(f, c) := fc in
  let t := f + x in
  let c' := if abs x <=? abs f then c + ((f - t) + x) else c + ((x - t) + f) in
  (t, c').
Definition nfinish (fc : float * float) : float :=
  let '(f, c) := fc in
  if (c =? 0) || negb (abs c <? infinity) then f else f + c.
Definition sum3F (x y z : float) : float := nfinish (nstep (nstep (nstep (0, 0) x) y) z).
(* sum((x, 0, 0)) etc. with int zeros: the ints are added plainly *)
Definition sum_f00 (x : float) : float := nfinish (let '(f, c) := nstep (0, 0) x in ((f + 0) + 0, c)).
Definition sum_0f0 (x : float) : float := nfinish (let '(f, c) := nstep ((0 + 0), 0) x in (f + 0, c)).
Definition sum_00f (x : float) : float := nfinish (nstep ((0 + 0) + 0, 0) x).
Definition of_xyzF (x y z : float) : fdist := (1 - sum3F x y z, x, y, z).
Definition depolarizingF (p : float) : fdist := let t := p / 3 in of_xyzF t t t.
Definition bit_flipF (p : float) : fdist := (1 - sum_f00 p, p, 0, 0).
Definition phase_flipF (p : float) : fdist := (1 - sum_00f p, 0, 0, p).
Definition bit_phase_flipF (p : float) : fdist := (1 - sum_0f0 p, 0, p, 0).
(* since /repo commit 570530b ("fix: ... Pr(I) = 1 - p"): p_i = 1 - probability *)
Definition biasedF (b : float) (a : axis) (p : float) : fdist :=
  let lr := 1 / (2 * (b + 1)) * p in
  let hr := b / (b + 1) * p in
  match a with AX => (1 - p, hr, lr, lr) | AY => (1 - p, lr, hr, lr) | AZ => (1 - p, lr, lr, hr) end.
(* the formula before that fix (p_i = 1 - sum((p_x, p_y, p_z))), kept to document defect F2 *)
Definition biasedF_before_fix (b : float) (a : axis) (p : float) : fdist :=
  let lr := 1 / (2 * (b + 1)) * p in
  let hr := b / (b + 1) * p in
  match a with AX => of_xyzF hr lr lr | AY => of_xyzF lr hr lr | AZ => of_xyzF lr lr hr end.
(* IEEE equality on all four entries (no NaN and no negative zero occur on the domain) *)
Definition feq4 (u v : fdist) : bool :=
  let '(a, b, c, d) := u in let '(a', b', c', d') := v in
  (a =? a') && (b =? b') && (c =? c') && (d =? d').
Definition negI (u : fdist) : bool := let '(a, _, _, _) := u in a <? 0.

(* defect F2 (repaired in /repo by 570530b), reproduced bit for bit on the old formula: bias 0.001 towards Y at
   p = 1 gave Pr(I) = -2^-52; the repaired formula gives exactly 0 *)
Lemma F2_reproduced :
  feq4 (biasedF_before_fix 0x1.0624dd2f1a9fcp-10 AY 1)
       ((-0x1p-52)%float, 0x1.ff7d0f16c2e0ap-2, 0x1.05e1d27a3ee9dp-10, 0x1.ff7d0f16c2e0ap-2) = true
  /\ negI (biasedF_before_fix 0x1.0624dd2f1a9fcp-10 AY 1) = true
  /\ negI (biasedF 0x1.0624dd2f1a9fcp-10 AY 1) = false.
Proof. repeat split; vm_compute; reflexivity. Qed.
