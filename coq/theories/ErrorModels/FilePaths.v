(** C18 — paths: the process also owns a file system.  A path names a file; the file under a path may be replaced by
    another well-formed (or malformed, or no) file at any time; models are opened on paths at any time (several on the
    same path, with the same or with different start offsets, before and after a rewrite), released at any time, and
    their calls interleave with all of that and with a caller that owns the served arrays ([FileSession]).

    The specification: [POpen p sa] runs [init] on the file that is under [p] *at that moment*; from then on the model
    is a state of its own.  Theorems:

    - [path_noninterference]: an open model answers exactly as it would alone on its own call subsequence - whatever
      is written afterwards to any path (including its own), whichever other models are opened (on the same path and
      start or not), called or released, whatever the caller scribbles;
    - [open_sees_current]: the model opened by [POpen p sa] answers [scenario] of the file currently under [p];
    - [path_session_scenario]: both together, for an open in the middle of an arbitrary history;
    - [fs_after_spec], [file_at_last_write]: the file under a path is the one put there by the last write to that path
      (opens, calls, releases, scribbles and writes to other paths do not change it);
    - [reopen_after_rewrite]: hence a model opened on p after "write p f'" answers [scenario f'], no matter how many
      models were opened on p (same start) and used while p still held another file, released or not;
    - [failed_open_silent]: a model whose constructor raised answers nothing. *)
From Coq Require Import List Bool Arith NArith ZArith Lia.
From Coq Require String.
From QV Require Import Core.Bits Core.Pack ErrorModels.FileModel ErrorModels.FileSession.
Import ListNotations.

(* most recent binding first; a path never written (or written with None) names no file *)
Definition fsys := list (nat * option (list line)).
Definition file_at (p : nat) (fs : fsys) : option (list line) :=
  match find (fun b => fst b =? p) fs with Some b => snd b | None => None end.

Inductive pop :=
| PWrite (p : nat) (f : option (list line))      (* path p now names file f (None: removed) *)
| POpen (p : nat) (sa : start_arg)               (* FileErrorModel(p, sa): becomes instance number |slots| *)
| PCall (j : nat) (c : call)
| PDrop (j : nat)                                (* the caller releases instance j *)
| PScribble (k : nat) (v : bsf).                 (* the caller overwrites the k-th array it was served *)

Record pworld := MkP { pfs : fsys; slots : list (option bstate); pheap : list bsf }.
Inductive pevent := EOpen (j : nat) (r : res (list str)) | ECall (j : nat) (o : outcome).

Section Paths.
Variable clash : list str.

Definition slot_of (r : res bstate) : option bstate := match r with Ok s => Some s | _ => None end.
Definition head_of (r : res bstate) : res (list str) := rmap (fun s => keys (extras s)) r.

Definition pstep (w : pworld) (o : pop) : option pevent * pworld :=
  match o with
  | PWrite p f => (None, MkP ((p, f) :: pfs w) (slots w) (pheap w))
  | POpen p sa =>
      let r := init (file_at p (pfs w)) sa clash in
      (Some (EOpen (length (slots w)) (head_of r)), MkP (pfs w) (slots w ++ [slot_of r]) (pheap w))
  | PCall j c =>
      match nth_error (slots w) j with
      | Some (Some s) =>
          let (out, s') := step1 reader pull clash s c in
          (Some (ECall j out),
           MkP (pfs w) (set_nth (slots w) j (Some s')) (match out with OBits e => pheap w ++ [e] | _ => pheap w end))
      | _ => (None, w)
      end
  | PDrop j => (None, MkP (pfs w) (set_nth (slots w) j None) (pheap w))
  | PScribble k v => (None, MkP (pfs w) (slots w) (set_nth (pheap w) k v))
  end.
Fixpoint prun (w : pworld) (os : list pop) : list pevent * pworld :=
  match os with
  | [] => ([], w)
  | o :: os' => let (ev, w') := pstep w o in
                let (evs, w'') := prun w' os' in
                (match ev with Some e => e :: evs | None => evs end, w'')
  end.

Definition pcalls_of (j : nat) (os : list pop) : list call :=
  flat_map (fun o => match o with PCall j' c => if j' =? j then [c] else [] | _ => [] end) os.
Definition pouts_of (j : nat) (evs : list pevent) : list outcome :=
  flat_map (fun e => match e with ECall j' o => if j' =? j then [o] else [] | EOpen _ _ => [] end) evs.
Definition drops (j : nat) (o : pop) : bool := match o with PDrop j' => j' =? j | _ => false end.

Lemma nth_error_app_old {A} (l : list A) x j a : nth_error l j = Some a -> nth_error (l ++ [x]) j = Some a.
Proof. intros H. rewrite nth_error_app1; auto. apply nth_error_Some. congruence. Qed.

(* an open model is not disturbed by anything else that happens in the process *)
Theorem path_noninterference os : forall w j s, nth_error (slots w) j = Some (Some s) -> existsb (drops j) os = false ->
  pouts_of j (fst (prun w os)) = run_calls reader pull clash s (pcalls_of j os).
Proof.
  induction os as [|o os IH]; intros w j s Hj Hd; [reflexivity|].
  cbn [existsb] in Hd. apply orb_false_iff in Hd as [Hd1 Hd].
  cbn [prun]. destruct (pstep w o) as [ev w'] eqn:Hs. destruct (prun w' os) as [evs w''] eqn:Hr.
  assert (IH' := fun s' H => IH w' j s' H Hd). rewrite Hr in IH'. cbn [fst] in *.
  destruct o as [p f|p sa|j' c|j'|k v]; cbn [pstep] in Hs.
  - inversion Hs; subst ev w'; clear Hs. cbn [pcalls_of flat_map app]. now apply IH'.
  - inversion Hs; subst ev w'; clear Hs. cbn [pcalls_of flat_map app pouts_of]. apply IH'. cbn [slots].
    now apply nth_error_app_old.
  - destruct (nth_error (slots w) j') as [[s1|]|] eqn:Hj'.
    + destruct (step1 reader pull clash s1 c) as [out s1'] eqn:H1. inversion Hs; subst ev w'; clear Hs.
      cbn [pcalls_of flat_map]. destruct (Nat.eqb_spec j' j) as [->|Hne].
      * rewrite Hj in Hj'. inversion Hj'; subst s1.
        cbn [pouts_of flat_map app]. rewrite Nat.eqb_refl. cbn [app].
        change (flat_map _ os) with (pcalls_of j os). rewrite run_calls_step, H1. cbn [fst snd].
        f_equal. apply IH'. cbn [slots]. apply nth_set_nth_same. apply nth_error_Some. congruence.
      * cbn [pouts_of flat_map app]. destruct (Nat.eqb_spec j' j) as [E|_]; [contradiction|]. cbn [app].
        apply IH'. cbn [slots]. rewrite nth_set_nth_other by congruence. exact Hj.
    + inversion Hs; subst ev w'; clear Hs. cbn [pcalls_of flat_map].
      destruct (Nat.eqb_spec j' j) as [->|Hne]; [congruence|]. cbn [app]. now apply IH'.
    + inversion Hs; subst ev w'; clear Hs. cbn [pcalls_of flat_map].
      destruct (Nat.eqb_spec j' j) as [->|Hne]; [congruence|]. cbn [app]. now apply IH'.
  - inversion Hs; subst ev w'; clear Hs. cbn [pcalls_of flat_map app]. apply IH'. cbn [slots].
    cbn [drops] in Hd1. rewrite nth_set_nth_other; [exact Hj|]. intros ->. now rewrite Nat.eqb_refl in Hd1.
  - inversion Hs; subst ev w'; clear Hs. cbn [pcalls_of flat_map app]. now apply IH'.
Qed.

(* a model whose constructor raised (or that was released) answers nothing, whatever is done later *)
Theorem failed_open_silent os : forall w j, nth_error (slots w) j = Some None -> pouts_of j (fst (prun w os)) = [].
Proof.
  induction os as [|o os IH]; intros w j Hj; [reflexivity|].
  cbn [prun]. destruct (pstep w o) as [ev w'] eqn:Hs. destruct (prun w' os) as [evs w''] eqn:Hr.
  assert (IH' := IH w' j). rewrite Hr in IH'. cbn [fst] in *.
  destruct o as [p f|p sa|j' c|j'|k v]; cbn [pstep] in Hs.
  - inversion Hs; subst ev w'. now apply IH'.
  - inversion Hs; subst ev w'. cbn [pouts_of flat_map app]. apply IH'. cbn [slots]. now apply nth_error_app_old.
  - destruct (nth_error (slots w) j') as [[s1|]|] eqn:Hj'.
    + destruct (step1 reader pull clash s1 c) as [out s1']. inversion Hs; subst ev w'.
      cbn [pouts_of flat_map]. destruct (Nat.eqb_spec j' j) as [->|Hne]; [congruence|]. cbn [app].
      apply IH'. cbn [slots]. rewrite nth_set_nth_other by congruence. exact Hj.
    + inversion Hs; subst ev w'. now apply IH'.
    + inversion Hs; subst ev w'. now apply IH'.
  - inversion Hs; subst ev w'. apply IH'. cbn [slots]. destruct (Nat.eq_dec j j') as [->|Hne].
    + apply nth_set_nth_same. apply nth_error_Some. congruence.
    + rewrite nth_set_nth_other by congruence. exact Hj.
  - inversion Hs; subst ev w'. now apply IH'.
Qed.

(* opening looks at the file that is under the path now *)
Theorem open_sees_current w p sa :
  fst (pstep w (POpen p sa)) = Some (EOpen (length (slots w)) (fst (scenario (file_at p (pfs w)) sa clash [])))
  /\ nth_error (slots (snd (pstep w (POpen p sa)))) (length (slots w)) = Some (slot_of (init (file_at p (pfs w)) sa clash)).
Proof.
  cbn [pstep fst snd slots]. split.
  - unfold scenario, head_of. destruct (init _ sa clash); reflexivity.
  - rewrite nth_error_app2 by lia. now rewrite Nat.sub_diag.
Qed.

Lemma scenario_head f sa cs : fst (scenario f sa clash cs) = fst (scenario f sa clash []).
Proof. unfold scenario. destruct (init f sa clash); reflexivity. Qed.

(* an open anywhere in a history: the new instance answers [scenario] of the file then under the path, on its own
   calls, for the rest of the history (until it is released) *)
Theorem path_session_scenario w p sa post :
  let j := length (slots w) in
  let f := file_at p (pfs w) in
  existsb (drops j) post = false ->
  exists evs, fst (prun w (POpen p sa :: post)) = EOpen j (fst (scenario f sa clash (pcalls_of j post))) :: evs
              /\ pouts_of j evs = snd (scenario f sa clash (pcalls_of j post)).
Proof.
  intros j f Hd. cbn [prun]. destruct (pstep w (POpen p sa)) as [ev w'] eqn:Hs.
  destruct (open_sees_current w p sa) as [He Hn]. rewrite Hs in He, Hn. cbn [fst snd] in He, Hn. subst ev.
  destruct (prun w' post) as [evs w''] eqn:Hr. cbn [fst]. exists evs. split.
  - f_equal. f_equal. symmetry. apply scenario_head.
  - fold j in Hn. fold f in Hn. unfold scenario. destruct (init f sa clash) as [s|e|] eqn:Hi; cbn [slot_of snd] in *.
    + assert (H := path_noninterference post w' j s Hn Hd). rewrite Hr in H. exact H.
    + assert (H := failed_open_silent post w' j Hn). rewrite Hr in H. exact H.
    + assert (H := failed_open_silent post w' j Hn). rewrite Hr in H. exact H.
Qed.

(* ---- what is under a path ------------------------------------------------------------------------- *)
Fixpoint fs_after (fs : fsys) (os : list pop) : fsys :=
  match os with
  | [] => fs
  | PWrite p f :: r => fs_after ((p, f) :: fs) r
  | _ :: r => fs_after fs r
  end.
Lemma fs_after_spec os : forall w, pfs (snd (prun w os)) = fs_after (pfs w) os.
Proof.
  induction os as [|o os IH]; intros w; [reflexivity|].
  cbn [prun]. destruct (pstep w o) as [ev w'] eqn:Hs. assert (IH' := IH w'). destruct (prun w' os) as [evs w'']. cbn [snd] in *.
  rewrite IH'. destruct o as [p f|p sa|j c|j|k v]; cbn [pstep] in Hs; cbn [fs_after].
  - now inversion Hs.
  - now inversion Hs.
  - destruct (nth_error (slots w) j) as [[s|]|]; [destruct (step1 _ _ _ s c)| |]; now inversion Hs.
  - now inversion Hs.
  - now inversion Hs.
Qed.
Definition writes_to (p : nat) (o : pop) : bool := match o with PWrite p' _ => p' =? p | _ => false end.
Lemma file_at_unwritten os : forall fs p, existsb (writes_to p) os = false -> file_at p (fs_after fs os) = file_at p fs.
Proof.
  induction os as [|o os IH]; intros fs p H; [reflexivity|].
  cbn [existsb] in H. apply orb_false_iff in H as [H1 H2].
  destruct o as [p' f|p' sa|j c|j|k v]; cbn [fs_after]; try now apply IH.
  rewrite IH by assumption. unfold file_at. cbn [find fst]. cbn [writes_to] in H1. now rewrite H1.
Qed.
(* the file under p is the one of the last write to p *)
Theorem file_at_last_write pre p f post fs : existsb (writes_to p) post = false ->
  file_at p (fs_after fs (pre ++ PWrite p f :: post)) = f.
Proof.
  intros H. revert fs. induction pre as [|o pre IH]; intros fs.
  - cbn [app fs_after]. rewrite file_at_unwritten by assumption. unfold file_at. cbn [find fst]. now rewrite Nat.eqb_refl.
  - destruct o; cbn [app fs_after]; apply IH.
Qed.

Lemma prun_app os1 : forall w os2,
  prun w (os1 ++ os2) = (fst (prun w os1) ++ fst (prun (snd (prun w os1)) os2), snd (prun (snd (prun w os1)) os2)).
Proof.
  induction os1 as [|o os1 IH]; intros w os2; cbn [app prun].
  - cbn. now destruct (prun w os2).
  - destruct (pstep w o) as [ev w']. rewrite IH. destruct (prun w' os1) as [e1 w1]. cbn [fst snd].
    destruct (prun w1 os2) as [e2 w2]. cbn [fst snd]. destruct ev; reflexivity.
Qed.

(* the history of seed-style faults: models were opened on p (same start or not) and used while p held other files; p is
   rewritten with f'; a model opened afterwards answers [scenario f'] - nothing of the earlier instances shows *)
Theorem reopen_after_rewrite w pre p f' mid sa post :
  existsb (writes_to p) mid = false ->
  let w1 := snd (prun w (pre ++ PWrite p f' :: mid)) in
  let j := length (slots w1) in
  existsb (drops j) post = false ->
  exists evs0 evs, fst (prun w (pre ++ PWrite p f' :: mid ++ POpen p sa :: post))
                   = evs0 ++ EOpen j (fst (scenario f' sa clash (pcalls_of j post))) :: evs
                   /\ pouts_of j evs = snd (scenario f' sa clash (pcalls_of j post)).
Proof.
  intros Hm w1 j Hd.
  assert (Hf : file_at p (pfs w1) = f').
  { unfold w1. rewrite fs_after_spec. now apply file_at_last_write. }
  destruct (path_session_scenario w1 p sa post Hd) as [evs [H1 H2]]. fold j in H1, H2. rewrite Hf in H1, H2.
  exists (fst (prun w (pre ++ PWrite p f' :: mid))), evs. split; [|exact H2].
  replace (pre ++ PWrite p f' :: mid ++ POpen p sa :: post) with ((pre ++ PWrite p f' :: mid) ++ POpen p sa :: post)
    by (rewrite <- app_assoc; reflexivity).
  rewrite prun_app. cbn [fst]. fold w1. now rewrite H1.
Qed.

(* two paths holding the same contents, or one file reached under two names, cannot be told apart: trivially so, since
   the answers are a function of (contents, start, calls) - stated for the record *)
Theorem same_contents_same_answers w p q sa post :
  file_at p (pfs w) = file_at q (pfs w) -> fst (prun w (POpen p sa :: post)) = fst (prun w (POpen q sa :: post)).
Proof. intros H. cbn [prun pstep]. now rewrite H. Qed.
End Paths.

(* ---- non-vacuity: the example file is regenerated in place with another distribution (same probability, same start),
        then with another probability; every instance answers for the file it opened ------------------------------ *)
Module PathsEx.
Import FileModel.Ex.
Import String.StringSyntax.
Local Open Scope string_scope.
Definition dist2 : jvalue := JList [JFloat (NFin 3 5); JInt 0; JFloat (NFin 2 5); JInt 0].
Definition hdr2 : dict := [(sv "probability", JFloat (NFin 2 5)); (sv "label", JStr (sv "second")); (sv "probability_distribution", dist2)].
Definition file_b : list line := [Hdr hdr2; Body (packed_value e3); Body (packed_value e2)].
Definition hdr3 : dict := [(sv "probability", JFloat (NFin 3 10)); (sv "label", JStr (sv "third"))].
Definition file_c : list line := [Hdr hdr3; Skip; Body (packed_value e0)].
Definition p3 : parg := PNum (NFin 3 10).
Definition ops : list pop :=
  [PWrite 0 (Some ex_file); POpen 0 (StInt 0); PCall 0 (CDist ex_p); PCall 0 (CGen 5 ex_p);
   PWrite 0 (Some file_b); POpen 0 (StInt 0); PCall 1 (CDist ex_p); PCall 0 (CDist ex_p); PCall 1 CLabel; PCall 1 (CGen 5 ex_p);
   PDrop 0; PWrite 0 (Some file_c); POpen 0 (StInt 0); PCall 2 (CDist ex_p); PCall 2 (CDist p3); PCall 2 (CGen 5 ex_p);
   PCall 1 (CDist ex_p); PCall 0 CLabel; PWrite 0 None; POpen 0 (StInt 0); PCall 3 CLabel; PCall 2 (CGen 5 p3)].
Example ex_paths :
  let evs := fst (prun ex_clash (MkP [] [] []) ops) in
  pouts_of 0 evs = [OTuple [JFloat (NFin 3 5); JFloat (NFin 1 10); JFloat (NFin 1 5); JFloat (NFin 1 10)]; OBits e0;
                    OTuple [JFloat (NFin 3 5); JFloat (NFin 1 10); JFloat (NFin 1 5); JFloat (NFin 1 10)]]
  /\ pouts_of 1 evs = [OTuple [JFloat (NFin 3 5); JInt 0; JFloat (NFin 2 5); JInt 0]; OLabel (JStr (sv "second")); OBits e3;
                       OTuple [JFloat (NFin 3 5); JInt 0; JFloat (NFin 2 5); JInt 0]]
  /\ pouts_of 2 evs = [OErr ValueError; OErr ValueError; OErr ValueError; OBits e0]
  /\ pouts_of 3 evs = []
  /\ nth_error evs 13 = Some (EOpen 3 (Err FileNotFoundError)).
Proof. vm_compute. repeat split. Qed.
End PathsEx.

Print Assumptions path_noninterference. Print Assumptions failed_open_silent. Print Assumptions open_sees_current.
Print Assumptions path_session_scenario. Print Assumptions file_at_last_write. Print Assumptions reopen_after_rewrite.
Print Assumptions same_contents_same_answers.
