(* ErrorModels/DistR.v — BiasedYXErrorModel over the real numbers: the closed forms with sqrt
   (generic/_biasederrormodel.py, _rate_x / _rate_y / probability_distribution) solve the documented
   system  p_X = r_x(1-r_y), p_Y = r_y(1-r_x), p_Z = r_x r_y, p_Y = bias p_X, p_X+p_Y+p_Z = p
   with rates in [0,1], for every bias >= 0 and p in [0,1]; and the system has no other solution.
   Uses Coq's Reals (standard-library axioms, listed by Print Assumptions in Props/C16.v). *)
From Coq Require Import Reals Lra Psatz.
Open Scope R_scope.

Definition yxR_disc (h p : R) : R := -4 * p + (1 + h + p - h * p) * (1 + h + p - h * p).
Definition yxR_rate_x (h p : R) : R :=
  if Req_EM_T h 0 then p else 1 / 2 * (1 + h + p - h * p - sqrt (yxR_disc h p)).
Definition yxR_rate_y (h p : R) : R :=
  if Req_EM_T h 0 then 0 else 1 / (2 * h) * (1 + h - p + h * p - sqrt (yxR_disc h p)).
Definition yxR_pX (h p : R) : R := yxR_rate_x h p * (1 - yxR_rate_y h p).
Definition yxR_pY (h p : R) : R := yxR_rate_y h p * (1 - yxR_rate_x h p).
Definition yxR_pZ (h p : R) : R := yxR_rate_x h p * yxR_rate_y h p.
Definition yxR_pI (h p : R) : R := 1 - (0 + yxR_pX h p + yxR_pY h p + yxR_pZ h p).

Lemma yxR_disc_factor h p : yxR_disc h p = (1 - p) * ((1 + h) * (1 + h) - (1 - h) * (1 - h) * p).
Proof. unfold yxR_disc. ring. Qed.
Theorem yxR_disc_nonneg h p : 0 <= h -> 0 <= p <= 1 -> 0 <= yxR_disc h p.
Proof. intros Hh [H0 H1]. rewrite yxR_disc_factor. apply Rmult_le_pos; [lra|]. nra. Qed.

Section Root.
  Variables h p s : R.
  Hypothesis Hh : 0 < h.
  Hypothesis Hp : 0 <= p <= 1.
  Hypothesis Hs : 0 <= s.
  Hypothesis Hroot : s * s = yxR_disc h p.
  Let rx := 1 / 2 * (1 + h + p - h * p - s).
  Let ry := 1 / (2 * h) * (1 + h - p + h * p - s).
  Lemma R_ry_eq : 2 * h * ry = 1 + h - p + h * p - s.
  Proof. unfold ry. field. lra. Qed.
  Lemma R_rx_eq : 2 * rx = 1 + h + p - h * p - s.
  Proof. unfold rx. field. Qed.
  Lemma R_rx_bounds : 0 <= rx <= 1.
  Proof.
    pose proof R_rx_eq as E. unfold yxR_disc in Hroot. destruct Hp as [H0 H1]. split.
    - assert (s <= 1 + h + p - h * p); [|lra]. assert (0 <= 1 + h + p - h * p) by nra. nra.
    - assert ((h - 1) * (1 - p) <= s); [|lra].
      destruct (Rlt_le_dec h 1) as [Hlt|Hge]; [nra|].
      assert (0 <= (h - 1) * (1 - p)) by nra. nra.
  Qed.
  Lemma R_ry_bounds : 0 <= ry <= 1.
  Proof.
    pose proof R_ry_eq as E. unfold yxR_disc in Hroot. destruct Hp as [H0 H1].
    assert (L : 0 <= 2 * h * ry <= 2 * h).
    { split.
      - assert (s <= 1 + h - p + h * p); [|lra]. assert (0 <= 1 + h - p + h * p) by nra. nra.
      - assert ((1 - h) * (1 - p) <= s); [|lra].
        destruct (Rlt_le_dec 1 h) as [Hlt|Hge]; [nra|].
        assert (0 <= (1 - h) * (1 - p)) by nra. nra. }
    split; nra.
  Qed.
  Lemma R_sum : rx * (1 - ry) + ry * (1 - rx) + rx * ry = p.
  Proof.
    pose proof R_ry_eq as E1. pose proof R_rx_eq as E2. unfold yxR_disc in Hroot.
    apply (Rmult_eq_reg_l (4 * h)); [|lra].
    replace (4 * h * (rx * (1 - ry) + ry * (1 - rx) + rx * ry))
      with (2 * h * (2 * rx) + 2 * (2 * h * ry) - (2 * rx) * (2 * h * ry)) by ring.
    rewrite E1, E2.
    replace (2 * h * (1 + h + p - h * p - s) + 2 * (1 + h - p + h * p - s) -
         (1 + h + p - h * p - s) * (1 + h - p + h * p - s))
      with (2 * h * (1 + h + p - h * p) + 2 * (1 + h - p + h * p) - (1 + h + p - h * p) * (1 + h - p + h * p)
              + s * ((1 + h + p - h * p) + (1 + h - p + h * p) - 2 * h - 2) - s * s) by ring.
    rewrite Hroot. ring.
  Qed.
  Lemma R_bias : ry * (1 - rx) = h * (rx * (1 - ry)).
  Proof.
    pose proof R_ry_eq as E1. pose proof R_rx_eq as E2. unfold yxR_disc in Hroot.
    apply (Rmult_eq_reg_l (4 * h)); [|lra].
    replace (4 * h * (ry * (1 - rx))) with ((2 * h * ry) * (2 - 2 * rx)) by ring.
    replace (4 * h * (h * (rx * (1 - ry)))) with (h * (2 * rx) * (2 * h - 2 * h * ry)) by ring.
    rewrite E1, E2.
    replace ((1 + h - p + h * p - s) * (2 - (1 + h + p - h * p - s)))
      with ((1 + h - p + h * p) * (2 - (1 + h + p - h * p)) + s * ((1 + h - p + h * p) - (2 - (1 + h + p - h * p))) - s * s) by ring.
    replace (h * (1 + h + p - h * p - s) * (2 * h - (1 + h - p + h * p - s)))
      with (h * (1 + h + p - h * p) * (2 * h - (1 + h - p + h * p)) + s * (h * (1 + h + p - h * p) - h * (2 * h - (1 + h - p + h * p))) - h * (s * s)) by ring.
    rewrite Hroot. ring.
  Qed.
End Root.

(* the documented system, every bias >= 0 and p in [0,1] *)
Theorem yxR_system h p : 0 <= h -> 0 <= p <= 1 ->
  let rx := yxR_rate_x h p in let ry := yxR_rate_y h p in
  0 <= rx <= 1 /\ 0 <= ry <= 1 /\
  yxR_pX h p = rx * (1 - ry) /\ yxR_pY h p = ry * (1 - rx) /\ yxR_pZ h p = rx * ry /\
  yxR_pY h p = h * yxR_pX h p /\
  (0 < yxR_pX h p -> yxR_pY h p / yxR_pX h p = h) /\
  yxR_pX h p + yxR_pY h p + yxR_pZ h p = p /\ yxR_pI h p = 1 - p /\
  0 <= yxR_pI h p /\ 0 <= yxR_pX h p /\ 0 <= yxR_pY h p /\ 0 <= yxR_pZ h p /\
  yxR_pI h p + yxR_pX h p + yxR_pY h p + yxR_pZ h p = 1.
Proof.
  intros Hh Hp. cbv zeta. unfold yxR_pI, yxR_pX, yxR_pY, yxR_pZ, yxR_rate_x, yxR_rate_y.
  destruct (Req_EM_T h 0) as [E|E].
  - subst h. repeat split; lra.
  - assert (Hh' : 0 < h) by lra.
    pose proof (yxR_disc_nonneg h p Hh Hp) as D.
    pose proof (sqrt_pos (yxR_disc h p)) as Hs. pose proof (sqrt_sqrt _ D) as Hroot.
    pose proof (R_rx_bounds h p _ Hh' Hp Hs Hroot) as Bx. pose proof (R_ry_bounds h p _ Hh' Hp Hs Hroot) as By.
    pose proof (R_sum h p _ Hh' Hroot) as S. pose proof (R_bias h p _ Hh' Hroot) as Bi.
    set (rx := 1 / 2 * (1 + h + p - h * p - sqrt (yxR_disc h p))) in *.
    set (ry := 1 / (2 * h) * (1 + h - p + h * p - sqrt (yxR_disc h p))) in *.
    assert (Px : 0 <= rx * (1 - ry)) by (apply Rmult_le_pos; lra).
    assert (Py : 0 <= ry * (1 - rx)) by (apply Rmult_le_pos; lra).
    assert (Pz : 0 <= rx * ry) by (apply Rmult_le_pos; lra).
    repeat split; try lra. intros K. rewrite Bi. field. lra.
Qed.

(* the system determines the rates: any (rx, ry) in the unit square with independent-flip probabilities
   summing to p and in ratio bias is the closed form.  (At bias = 0 and p = 1 the system itself is
   under-determined: rx = 1 and any ry solve it; the documentation fixes that corner by
   "bias = 0 corresponds to the standard bit-flip model", which is what the closed form returns.) *)
Theorem yxR_unique h p rx ry : 0 <= h -> 0 <= p <= 1 -> 0 < h \/ p < 1 -> 0 <= rx <= 1 -> 0 <= ry <= 1 ->
  rx * (1 - ry) + ry * (1 - rx) + rx * ry = p -> ry * (1 - rx) = h * (rx * (1 - ry)) ->
  rx * (1 - ry) = yxR_pX h p /\ ry * (1 - rx) = yxR_pY h p /\ rx * ry = yxR_pZ h p.
Proof.
  intros Hh Hp Hnd Bx By S Bi.
  destruct (yxR_system h p Hh Hp) as (Cx & Cy & Ex & Ey & Ez & Fb & _ & Fs & _).
  rewrite Ex, Ey, Ez. set (sx := yxR_rate_x h p) in *. set (sy := yxR_rate_y h p) in *.
  rewrite Ex, Ey in Fb. rewrite Ex, Ey, Ez in Fs.
  (* u = 1 - rate_x, v = 1 - rate_y:  u v = 1 - p,  u = h v + (1-h)(1-p);  h v^2 + (1-h)(1-p) v - (1-p) = 0 *)
  assert (U1 : (1 - rx) * (1 - ry) = 1 - p) by lra.
  assert (U2 : (1 - sx) * (1 - sy) = 1 - p) by lra.
  assert (V1 : 1 - rx = h * (1 - ry) + (1 - h) * (1 - p)) by nra.
  assert (V2 : 1 - sx = h * (1 - sy) + (1 - h) * (1 - p)) by nra.
  assert (Q1 : h * ((1 - ry) * (1 - ry)) + (1 - h) * (1 - p) * (1 - ry) - (1 - p) = 0) by nra.
  assert (Q2 : h * ((1 - sy) * (1 - sy)) + (1 - h) * (1 - p) * (1 - sy) - (1 - p) = 0) by nra.
  assert (EV : ry = sy).
  { assert (D : (sy - ry) * (h * ((1 - ry) + (1 - sy)) + (1 - h) * (1 - p)) = 0) by nra.
    apply Rmult_integral in D. destruct D as [D|D]; [lra|].
    (* then 1-rx + h(1-sy) = 0 with both terms >= 0 *)
    assert (K1 : 1 - rx + h * (1 - sy) = 0) by lra.
    assert (K2 : 0 <= h * (1 - sy)) by (apply Rmult_le_pos; lra).
    assert (K3 : rx = 1) by lra. assert (K4 : p = 1) by nra.
    assert (K5 : 1 - sx = h * (1 - sy)) by nra. assert (K6 : (1 - sx) * (1 - sy) = 0) by lra.
    assert (K7 : h * (1 - sy) = 0) by lra.
    destruct (Req_dec h 0) as [Z|NZ].
    - lra.
    - assert (K8 : 1 - sy = 0) by (apply Rmult_integral in K7; tauto).
      assert (K9 : h * (1 - ry) = 0) by nra. apply Rmult_integral in K9. destruct K9; [tauto|lra]. }
  assert (EU : rx = sx) by (rewrite EV in V1; lra). rewrite EV, EU. repeat split; reflexivity.
Qed.

Theorem yxR_zero_bias p : yxR_pX 0 p = p /\ yxR_pY 0 p = 0 /\ yxR_pZ 0 p = 0 /\ yxR_pI 0 p = 1 - p.
Proof.
  unfold yxR_pI, yxR_pX, yxR_pY, yxR_pZ, yxR_rate_x, yxR_rate_y.
  destruct (Req_EM_T 0 0) as [_|N]; [|contradiction]. repeat split; ring.
Qed.
