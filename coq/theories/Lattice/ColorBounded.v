(* Lattice/ColorBounded.v — P<=B theorems for the colour 6.6.6 family, closed by vm_compute.
   Bounds: validity / shapes / supports for every odd size 3..11; flatten bijection for every odd size 3..21. *)
From Coq Require Import List Bool Arith ZArith Lia.
From QV Require Import Core.Bits Core.Pauli Core.Symp Core.Code Core.Span Core.Rank Core.Dist Core.DistCSS
  Generated.LatticeArith Lattice.RotPlanar Lattice.RotPlanarBounded Lattice.Color.
Import ListNotations.
Local Open Scope Z_scope.

Definition c6_sizes (B : Z) : list Z := map (fun i => 2 * i + 1) (rc_range 1 ((B - 1) / 2 + 1)).
Lemma c6_sizes_In B s : 3 <= s <= B -> s mod 2 = 1 -> In s (c6_sizes B).
Proof.
  intros Hs Ho. unfold c6_sizes. apply in_map_iff. exists (s / 2).
  pose proof (Z.div_mod s 2 ltac:(lia)). split; [lia|]. apply rc_range_In.
  assert (s / 2 <= (B - 1) / 2).
  { replace (s / 2) with ((s - 1) / 2). apply Z.div_le_mono; lia.
    replace (s - 1) with (s / 2 * 2) by lia. now rewrite Z.div_mul by lia. }
  lia.
Qed.
Lemma c6_upto (B : Z) (f : Z -> bool) : forallb f (c6_sizes B) = true ->
  forall size, 3 <= size <= B -> size mod 2 = 1 -> f size = true.
Proof. intros H size Hs Ho. exact (proj1 (forallb_forall _ _) H _ (c6_sizes_In B size Hs Ho)). Qed.

(* ---- validity ---- *)
Definition c6_valid_b (s : Z) : bool := validb (color_code s).
Lemma color_valid_upto_11_b : forallb c6_valid_b (c6_sizes 11) = true.
Proof. vm_compute. reflexivity. Qed.
Theorem color_valid_upto_11 : forall size, 3 <= size <= 11 -> size mod 2 = 1 ->
  let c := color_code size in
  (forall s s', In s (stabs c) -> In s' (stabs c) -> bsp s s' = false) /\
  (forall s l, In s (stabs c) -> In l (logicals c) -> bsp s l = false) /\
  canonical (lxs c) (lzs c).
Proof.
  intros size Hs Ho c. pose proof (c6_upto 11 _ color_valid_upto_11_b size Hs Ho) as H.
  unfold c6_valid_b, validb in H. fold c in H.
  apply (validate_iff_canonical c); [reflexivity|]. destruct (validate c); try discriminate. reflexivity.
Qed.

(* ---- shapes ---- *)
Definition c6_shape_b (s : Z) : bool := rc_shape_b (color_n_k_d s) (color_code s) 0.
Lemma color_shapes_upto_11_b : forallb c6_shape_b (c6_sizes 11) = true.
Proof. vm_compute. reflexivity. Qed.
Theorem color_shapes_upto_11 : forall size, 3 <= size <= 11 -> size mod 2 = 1 ->
  rc_shape (color_n_k_d size) (color_code size) 0.
Proof. intros size Hs Ho. apply rc_shape_b_spec. exact (c6_upto 11 _ color_shapes_upto_11_b size Hs Ho). Qed.

(* ---- flatten: the in-bounds sites in row-major order are numbered 0, 1, .., n-1, by the integer form and by the
        literal rational reading of the Python expression ---- *)
Definition c6_flat_b (s : Z) : bool :=
  let sites := c6_site_indices s in
  forallb (fun p => (Z.to_nat (c6_flatten (fst p)) =? snd p)%nat && (0 <=? c6_flatten (fst p)) &&
                    (c6_flatten_q (fst p) =? c6_flatten (fst p)))
          (combine sites (seq 0 (c6_n s))) &&
  (length sites =? c6_n s)%nat.
Lemma color_flatten_upto_21_b : forallb c6_flat_b (c6_sizes 21) = true.
Proof. vm_compute. reflexivity. Qed.
Theorem color_flatten_upto_21 : forall size, 3 <= size <= 21 -> size mod 2 = 1 -> c6_flat_b size = true.
Proof. exact (c6_upto 21 _ color_flatten_upto_21_b). Qed.
(* consequence in the usual form: injective on the in-bounds sites, onto [0, n) *)
Lemma rc_combine_seq_nth {A} (f : A -> nat) (l : list A) n :
  forallb (fun p => (f (fst p) =? snd p)%nat) (combine l (seq 0 n)) = true -> length l = n ->
  forall i d, (i < n)%nat -> f (nth i l d) = i.
Proof.
  intros H HL i d Hi. rewrite forallb_forall in H.
  apply Nat.eqb_eq. apply (H (nth i l d, i)).
  assert (E : nth i (seq 0 n) O = i) by (rewrite seq_nth; lia).
  rewrite <- E at 2. rewrite <- combine_nth by (rewrite seq_length; lia).
  apply nth_In. rewrite combine_length, seq_length. lia.
Qed.
Theorem color_flatten_bijective_upto_21 : forall size, 3 <= size <= 21 -> size mod 2 = 1 ->
  length (c6_site_indices size) = c6_n size /\
  (forall i d, (i < c6_n size)%nat -> Z.to_nat (c6_flatten (nth i (c6_site_indices size) d)) = i).
Proof.
  intros size Hs Ho. pose proof (color_flatten_upto_21 size Hs Ho) as H. unfold c6_flat_b in H.
  apply andb_true_iff in H. destruct H as [H HL]. apply Nat.eqb_eq in HL. split; [exact HL|].
  apply (rc_combine_seq_nth (fun i => Z.to_nat (c6_flatten i))); [|exact HL].
  rewrite forallb_forall in *. intros p Hp. specialize (H p Hp).
  apply andb_true_iff in H. destruct H as [H _]. apply andb_true_iff in H. tauto.
Qed.

(* ---- plaquettes: no repetition; X rows then Z rows with the documented supports (in-lattice part of the six
        neighbours, 4 or 6 sites); syndrome bit <-> plaquette and type ---- *)
Definition c6_support_row (s : Z) (x_type : bool) (idx : Z * Z) : bsf :=
  let pos := map (fun i => Z.to_nat (c6_flatten i)) (filter (color_is_in_bounds s) (c6_neighbours idx)) in
  let ind := rc_indicator (c6_n s) pos in
  if x_type then ind ++ zeros (c6_n s) else zeros (c6_n s) ++ ind.
Definition c6_plaq_b (s : Z) : bool :=
  let pis := c6_plaquette_indices s in
  let m := length pis in
  rc_nodup_b pis &&
  beqm (c6_stabilizers s) (map (c6_support_row s true) pis ++ map (c6_support_row s false) pis) &&
  forallb (fun i => let w := length (filter (color_is_in_bounds s) (c6_neighbours i)) in
                    (w =? 4)%nat || (w =? 6)%nat) pis &&
  forallb (fun j => match c6_syndrome_to_plaquette_indices s (rc_unit (2 * m) j) with
                    | ([i], []) => (j <? m)%nat && rc_idx_eqb i (nth j pis (0, 0))
                    | ([], [i]) => (m <=? j)%nat && rc_idx_eqb i (nth (j - m) pis (0, 0))
                    | _ => false end) (seq 0 (2 * m)).
Lemma color_plaquettes_upto_11_b : forallb c6_plaq_b (c6_sizes 11) = true.
Proof. vm_compute. reflexivity. Qed.
Theorem color_plaquettes_upto_11 : forall size, 3 <= size <= 11 -> size mod 2 = 1 -> c6_plaq_b size = true.
Proof. exact (c6_upto 11 _ color_plaquettes_upto_11_b). Qed.

(* ---- logical weights = size = d ---- *)
Definition c6_weights_b (s : Z) : bool :=
  let '(_, _, d) := color_n_k_d s in
  match c6_logical_xs s, c6_logical_zs s with
  | [lx], [lz] => (bsf_wt lx =? Z.to_nat d)%nat && (bsf_wt lz =? Z.to_nat d)%nat && (d =? s)
  | _, _ => false
  end.
Lemma color_logical_weights_upto_21_b : forallb c6_weights_b (c6_sizes 21) = true.
Proof. vm_compute. reflexivity. Qed.
Theorem color_logical_weights_upto_21 : forall size, 3 <= size <= 21 -> size mod 2 = 1 -> c6_weights_b size = true.
Proof. exact (c6_upto 21 _ color_logical_weights_upto_21_b). Qed.

(* non-vacuity *)
Example color_ex_5 : validate (color_code 5) = VOk /\ color_n_k_d 5 = (19, 1, 5) /\
  c6_plaquette_indices 3 = [(1, 1); (2, 0); (3, 2)] /\ c6_flatten (6, 6) = 18 /\
  c6_site 3 pX (1, 1) (c6_identity 3) = None.
Proof. vm_compute. auto 10. Qed.

(* ---- GF(2) ranks ---- *)
Definition c6_rank_b (s : Z) : bool := rc_rank_b (color_n_k_d s) (color_code s).
Lemma color_rank_upto_11_b : forallb c6_rank_b (c6_sizes 11) = true.
Proof. vm_compute. reflexivity. Qed.
Theorem color_rank_upto_11 : forall size, 3 <= size <= 11 -> size mod 2 = 1 -> rc_rank (color_n_k_d size) (color_code size).
Proof. intros size Hs Ho. apply rc_rank_b_spec. exact (c6_upto 11 _ color_rank_upto_11_b size Hs Ho). Qed.

(* ---- C08: advertised d = size is the minimum distance, sizes 3 and 5 (size 7: 2 x 2.8M supports, not in-kernel) ---- *)
Definition c6_dist_b (s : Z) : bool :=
  rc_dist_b (color_n_k_d s) (color_code s) (hd [] (c6_logical_xs s)) (hd [] (c6_logical_zs s)).
Lemma color_distance_upto_5_b : forallb c6_dist_b (c6_sizes 5) = true.
Proof. vm_compute. reflexivity. Qed.
Theorem color_distance_upto_5 : forall size, 3 <= size <= 5 -> size mod 2 = 1 -> rc_dist (color_n_k_d size) (color_code size).
Proof.
  intros size Hs Ho. eapply rc_dist_b_spec. exact (c6_upto 5 _ color_distance_upto_5_b size Hs Ho).
Qed.
Definition color_distance_statement : Prop := forall size, 3 <= size -> size mod 2 = 1 ->
  rc_dist (color_n_k_d size) (color_code size).
Definition color_distance_partial := color_distance_upto_5.

(* ---- full statements (all odd sizes) and the proved parts ---- *)
Definition color_valid_statement : Prop := forall size, 3 <= size -> size mod 2 = 1 ->
  validate (color_code size) = VOk /\ rc_shape (color_n_k_d size) (color_code size) 0.
Theorem color_valid_partial : forall size, 3 <= size <= 11 -> size mod 2 = 1 ->
  validate (color_code size) = VOk /\ rc_shape (color_n_k_d size) (color_code size) 0.
Proof.
  intros size Hs Ho. split; [|now apply color_shapes_upto_11].
  pose proof (c6_upto 11 _ color_valid_upto_11_b size Hs Ho) as H. unfold c6_valid_b, validb in H.
  destruct (validate (color_code size)); try discriminate. reflexivity.
Qed.
Definition color_flatten_statement : Prop := forall size, 3 <= size -> size mod 2 = 1 ->
  length (c6_site_indices size) = c6_n size /\
  (forall i d, (i < c6_n size)%nat -> Z.to_nat (c6_flatten (nth i (c6_site_indices size) d)) = i).
Definition color_flatten_partial := color_flatten_bijective_upto_21.
