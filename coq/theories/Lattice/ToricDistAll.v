(* Lattice/ToricDistAll.v — C08 for the toric code, ALL sizes rows, cols >= 2: the advertised d = min(rows, cols)
   is the true minimum distance ([toric_is_distance_all], in the sense of Core/Dist.is_distance); in particular the
   lower bound [ToricAll.toric_distance_lower_statement] is proved ([toric_distance_lower_all]).

   1. Translate argument (ToricRankAll.toric_translates).  For an operator e commuting with all stabilizer
      generators, the parity of its X bits along a row of lattice-0 sites equals bsp e Z1 for EVERY one of the
      `rows` rows (the row translates of the loop Z1 are stabilizer-equivalent), and these rows are pairwise
      disjoint; so if e anticommutes with Z1 it has an X or Y on at least one site of each row: weight >= rows.
      Likewise Z2 (columns of lattice-1 sites, weight >= cols), X1 (columns of lattice 0, Z bits, >= cols) and
      X2 (rows of lattice 1, Z bits, >= rows)  ([toric_anticommute_*_weight], [toric_distance_lower_partial]).
   2. Centralizer lemma (ToricRankAll.toric_centralizer): an operator commuting with all stabilizer generators and
      with the four logicals is a product of stabilizer generators.
   3. Hence a non-trivial normalizer element anticommutes with one of the four logicals and 1 applies.  The upper
      bound is ToricAll.toric_logical_weights: X1 has weight rows, X2 has weight cols, and both are non-trivial. *)
From Coq Require Import ZArith List Bool Lia ZifyBool.
From QV Require Import Core.Bits Core.Pauli Core.Symp Core.Code Core.Span Core.Rank Core.Dist Core.DistCSS
  Generated.LatticeArith Lattice.Planar Lattice.PlanarAll Lattice.Toric Lattice.ToricAll
  Lattice.PlanarRankAll Lattice.PlanarDistAll Lattice.ToricRankAll.
Import ListNotations.
Open Scope Z_scope.
Ltac Zify.zify_post_hook ::= Z.to_euclidean_division_equations.

Section ToricDist.
Variables rows cols : Z.
Hypothesis Hr : 2 <= rows.
Hypothesis Hc : 2 <= cols.
Notation N := (toric_n rows cols).
Notation TI := (tindices rows cols).
Notation STABS := (stabs (toric_code rows cols)).
Notation tfl := (ToricAll.tfl rows cols).
Notation tstab := (ToricAll.tstab rows cols).
Notation inrange := (ToricAll.inrange rows cols).
Notation x1op := (ToricAll.x1op rows cols).
Notation x2op := (ToricAll.x2op rows cols).
Notation z1op := (ToricAll.z1op rows cols).
Notation z2op := (ToricAll.z2op rows cols).
Notation txat := (ToricRankAll.txat rows cols).
Notation tzat := (ToricRankAll.tzat rows cols).
Notation tnormal := (ToricRankAll.tnormal rows cols).
Notation rowp := (ToricRankAll.rowp cols).
Notation colp := (ToricRankAll.colp rows).

(* m lines, each hit in a site whose line number is given by kappa: at least m true bits *)
Lemma tsites_hit_count (v : bsf) (kappa : tidx -> Z) : forall m : nat,
  (forall i, 0 <= i < Z.of_nat m -> exists s, inrange s /\ nth (tfl s) v false = true /\ kappa s = i) ->
  (m <= count_true v)%nat.
Proof.
  intros m H.
  assert (HL : exists L : list tidx, length L = m /\ NoDup L /\
             forall s, In s L -> inrange s /\ nth (tfl s) v false = true /\ 0 <= kappa s < Z.of_nat m).
  { induction m as [|m IH].
    - exists []. split; [reflexivity|]. split; [constructor|]. intros s [].
    - destruct IH as (L & HLl & Hnd & HLs); [intros i Hi; apply H; lia|].
      destruct (H (Z.of_nat m) ltac:(lia)) as (s & Hs1 & Hs2 & Hs3).
      exists (s :: L). split; [cbn; lia|]. split.
      + constructor; auto. intros Hin. apply HLs in Hin. lia.
      + intros s' [<-|Hs']; [split; [exact Hs1|split; [exact Hs2|lia]]|].
        destruct (HLs s' Hs') as (A & B & C). split; [exact A|split; [exact B|lia]]. }
  destruct HL as (L & HLl & Hnd & HLs). rewrite <- HLl, <- (map_length tfl L).
  destruct (toric_flatten_bijective_all rows cols Hr Hc) as (_ & _ & Hinj & _).
  apply count_true_ge_positions.
  - apply NoDup_map_inj_in; auto. intros x y Hx Hy. apply Hinj; [apply (HLs x Hx)|apply (HLs y Hy)].
  - intros k Hk. apply in_map_iff in Hk. destruct Hk as (s & <- & Hs). apply (HLs s Hs).
Qed.

Lemma inrange_mk l r c : (l = 0 \/ l = 1) -> 0 <= r < rows -> 0 <= c < cols -> inrange (l, r, c).
Proof. intros Hl H1 H2. unfold ToricAll.inrange. cbn [fst snd]. lia. Qed.

(* C08, translate argument: a normalizer element anticommuting with one of the four logicals *)
Theorem toric_anticommute_z1_weight e : length e = (N + N)%nat -> tnormal e -> bsp e z1op = true ->
  rows <= Z.of_nat (bsf_wt e).
Proof.
  intros He Hn Hb. destruct (toric_translates rows cols Hr Hc e He Hn) as (T & _ & _ & _).
  assert (HC : (Z.to_nat rows <= count_true (firstn N e))%nat).
  { apply (tsites_hit_count _ (fun s => snd (fst s))). intros i Hi.
    pose proof (T i ltac:(lia)) as H. rewrite Hb in H. unfold ToricRankAll.rowp in H.
    apply xsumb_true_ex in H. destruct H as (j & Hj & Hx). apply in_seq in Hj.
    exists (0, i, Z.of_nat j). split; [apply inrange_mk; lia|]. split; [exact Hx|reflexivity]. }
  destruct (parts_weight N e ltac:(lia)) as (_ & _ & W & _). lia.
Qed.
Theorem toric_anticommute_z2_weight e : length e = (N + N)%nat -> tnormal e -> bsp e z2op = true ->
  cols <= Z.of_nat (bsf_wt e).
Proof.
  intros He Hn Hb. destruct (toric_translates rows cols Hr Hc e He Hn) as (_ & T & _ & _).
  assert (HC : (Z.to_nat cols <= count_true (firstn N e))%nat).
  { apply (tsites_hit_count _ (fun s => snd s)). intros j Hj.
    pose proof (T j ltac:(lia)) as H. rewrite Hb in H. unfold ToricRankAll.colp in H.
    apply xsumb_true_ex in H. destruct H as (i & Hi & Hx). apply in_seq in Hi.
    exists (1, Z.of_nat i, j). split; [apply inrange_mk; lia|]. split; [exact Hx|reflexivity]. }
  destruct (parts_weight N e ltac:(lia)) as (_ & _ & W & _). lia.
Qed.
Theorem toric_anticommute_x1_weight e : length e = (N + N)%nat -> tnormal e -> bsp e x1op = true ->
  cols <= Z.of_nat (bsf_wt e).
Proof.
  intros He Hn Hb. destruct (toric_translates rows cols Hr Hc e He Hn) as (_ & _ & T & _).
  assert (HC : (Z.to_nat cols <= count_true (skipn N e))%nat).
  { apply (tsites_hit_count _ (fun s => snd s)). intros j Hj.
    pose proof (T j ltac:(lia)) as H. rewrite Hb in H. unfold ToricRankAll.colp in H.
    apply xsumb_true_ex in H. destruct H as (i & Hi & Hx). apply in_seq in Hi.
    exists (0, Z.of_nat i, j). split; [apply inrange_mk; lia|]. split; [exact Hx|reflexivity]. }
  destruct (parts_weight N e ltac:(lia)) as (_ & _ & _ & W). lia.
Qed.
Theorem toric_anticommute_x2_weight e : length e = (N + N)%nat -> tnormal e -> bsp e x2op = true ->
  rows <= Z.of_nat (bsf_wt e).
Proof.
  intros He Hn Hb. destruct (toric_translates rows cols Hr Hc e He Hn) as (_ & _ & _ & T).
  assert (HC : (Z.to_nat rows <= count_true (skipn N e))%nat).
  { apply (tsites_hit_count _ (fun s => snd (fst s))). intros i Hi.
    pose proof (T i ltac:(lia)) as H. rewrite Hb in H. unfold ToricRankAll.rowp in H.
    apply xsumb_true_ex in H. destruct H as (j & Hj & Hx). apply in_seq in Hj.
    exists (1, i, Z.of_nat j). split; [apply inrange_mk; lia|]. split; [exact Hx|reflexivity]. }
  destruct (parts_weight N e ltac:(lia)) as (_ & _ & _ & W). lia.
Qed.

(* the lower bound for every normalizer element that anticommutes with a supplied logical *)
Theorem toric_distance_lower_partial e : length e = (N + N)%nat -> normalizer STABS e ->
  bsp e x1op = true \/ bsp e x2op = true \/ bsp e z1op = true \/ bsp e z2op = true ->
  Z.min rows cols <= Z.of_nat (bsf_wt e).
Proof.
  intros He Hn Hb. apply (tnormal_normalizer rows cols) in Hn. destruct Hb as [Hb|[Hb|[Hb|Hb]]].
  - pose proof (toric_anticommute_x1_weight e He Hn Hb). lia.
  - pose proof (toric_anticommute_x2_weight e He Hn Hb). lia.
  - pose proof (toric_anticommute_z1_weight e He Hn Hb). lia.
  - pose proof (toric_anticommute_z2_weight e He Hn Hb). lia.
Qed.

(* ... hence, with the centralizer lemma, for every normalizer element outside the span of the generators *)
Theorem toric_distance_lower e : length e = (N + N)%nat -> normalizer STABS e -> ~ in_spanP (N + N) STABS e ->
  Z.min rows cols <= Z.of_nat (bsf_wt e).
Proof.
  intros He Hn Hs.
  destruct (bsp e x1op) eqn:E1; [apply toric_distance_lower_partial; auto|].
  destruct (bsp e x2op) eqn:E2; [apply toric_distance_lower_partial; auto|].
  destruct (bsp e z1op) eqn:E3; [apply toric_distance_lower_partial; auto|].
  destruct (bsp e z2op) eqn:E4; [apply toric_distance_lower_partial; auto|].
  exfalso. apply Hs. now apply (toric_centralizer rows cols Hr Hc).
Qed.

(* the supplied logicals X1, X2 are normalizer elements outside the span of the stabilizer generators *)
Lemma logical_normalizer l : length l = (N + N)%nat -> (forall q, In q TI -> bsp (tstab q) l = false) -> normalizer STABS l.
Proof.
  intros Hl H. apply (tnormal_normalizer rows cols). intros q Hq.
  rewrite bsp_sym by (rewrite ?Hl, ?(tstab_length rows cols); auto using (even_TNN rows cols)). now apply H.
Qed.
Lemma x1op_nontrivial : nontrivial N STABS x1op.
Proof.
  assert (E2 : (2 * N = N + N)%nat) by lia. unfold nontrivial. rewrite E2.
  split; [apply tsop_length|]. split.
  - apply logical_normalizer; [apply tsop_length|]. intros q Hq. apply (toric_stabilizer_logicals rows cols Hr Hc q Hq).
  - intros Hin.
    destruct (toric_logical_values rows cols Hr Hc) as (V1 & _).
    rewrite (span_commutes (N + N) STABS z1op (tstabs_rowlen rows cols)) in V1; [discriminate| |exact Hin].
    rewrite tcode_eq. cbn [stabs]. intros s Hs. apply in_map_iff in Hs. destruct Hs as (q & <- & Hq).
    apply (toric_stabilizer_logicals rows cols Hr Hc q Hq).
Qed.
Lemma x2op_nontrivial : nontrivial N STABS x2op.
Proof.
  assert (E2 : (2 * N = N + N)%nat) by lia. unfold nontrivial. rewrite E2.
  split; [apply tsop_length|]. split.
  - apply logical_normalizer; [apply tsop_length|]. intros q Hq. apply (toric_stabilizer_logicals rows cols Hr Hc q Hq).
  - intros Hin.
    destruct (toric_logical_values rows cols Hr Hc) as (_ & _ & _ & _ & _ & V6 & _).
    rewrite (span_commutes (N + N) STABS z2op (tstabs_rowlen rows cols)) in V6; [discriminate| |exact Hin].
    rewrite tcode_eq. cbn [stabs]. intros s Hs. apply in_map_iff in Hs. destruct Hs as (q & <- & Hq).
    apply (toric_stabilizer_logicals rows cols Hr Hc q Hq).
Qed.

(* C08 for the toric code: min(rows, cols) is the minimum weight of a non-trivial logical operator *)
Theorem toric_is_distance : is_distance N STABS (Z.to_nat (Z.min rows cols)).
Proof.
  assert (E2 : (2 * N = N + N)%nat) by lia.
  destruct (toric_logical_weights rows cols Hr Hc) as (W1 & W2 & _ & _). split.
  - destruct (Z.le_ge_cases rows cols) as [Hle|Hge].
    + exists x1op. split; [apply x1op_nontrivial|lia].
    + exists x2op. split; [apply x2op_nontrivial|lia].
  - intros v (Hl & Hn & Hs). rewrite E2 in Hl, Hs.
    pose proof (toric_distance_lower v Hl Hn Hs). lia.
Qed.
End ToricDist.

(* ================================================================== *)
(** * Closed statements for all sizes                                   *)
(* ================================================================== *)
(* the lower bound follows from the centralizer lemma alone (kept as a separately usable implication) *)
Theorem toric_distance_lower_from_centralizer : toric_centralizer_statement -> toric_distance_lower_statement.
Proof.
  intros HC rows cols Hr Hc e He Hn Hs.
  destruct (bsp e (x1op rows cols)) eqn:E1; [apply (toric_distance_lower_partial rows cols Hr Hc e He Hn); auto|].
  destruct (bsp e (x2op rows cols)) eqn:E2; [apply (toric_distance_lower_partial rows cols Hr Hc e He Hn); auto|].
  destruct (bsp e (z1op rows cols)) eqn:E3; [apply (toric_distance_lower_partial rows cols Hr Hc e He Hn); auto|].
  destruct (bsp e (z2op rows cols)) eqn:E4; [apply (toric_distance_lower_partial rows cols Hr Hc e He Hn); auto|].
  exfalso. destruct (HC rows cols Hr Hc e He Hn E1 E2 E3 E4) as (cs & _ & Hl). rewrite lincomb_select in Hl. exact (Hs cs Hl).
Qed.

(* the statement left open in ToricAll.v, now a theorem: every non-trivial normalizer element weighs >= min(rows, cols) *)
Theorem toric_distance_lower_all : toric_distance_lower_statement.
Proof. exact (toric_distance_lower_from_centralizer toric_centralizer_all). Qed.

(* C08 for the toric code, every size: the advertised d = min(rows, cols) is the true minimum distance *)
Theorem toric_is_distance_all : forall rows cols, 2 <= rows -> 2 <= cols ->
  is_distance (toric_n rows cols) (stabs (toric_code rows cols)) (Z.to_nat (Z.min rows cols)).
Proof. exact toric_is_distance. Qed.
Theorem toric_is_distance_nkd : forall rows cols, 2 <= rows -> 2 <= cols ->
  let '(n, k, d) := toric_n_k_d rows cols in
  is_distance (Z.to_nat n) (stabs (toric_code rows cols)) (Z.to_nat d).
Proof. intros rows cols Hr Hc. unfold toric_n_k_d. cbv beta iota zeta. now apply toric_is_distance_all. Qed.

(* non-vacuity on a 3 x 4 torus *)
Example toric_is_distance_3x4 : is_distance 24 (stabs (toric_code 3 4)) 3.
Proof. exact (toric_is_distance_all 3 4 ltac:(lia) ltac:(lia)). Qed.
(* a weight-3 normalizer element anticommuting with Z1: the hypotheses of [toric_anticommute_z1_weight] hold *)
Example toric_lower_hyps_3x4 :
  let e := x1op 3 4 in
  length e = 48%nat /\ normalizerb (stabs (toric_code 3 4)) e = true /\ bsp e (z1op 3 4) = true /\ bsf_wt e = 3%nat.
Proof. vm_compute. repeat split; reflexivity. Qed.
(* a product of two generators: the hypotheses of the centralizer lemma hold *)
Example toric_centralizer_hyps_3x4 :
  let e := xorv (tstab 3 4 (0, 1, 2)) (tstab 3 4 (1, 2, 3)) in
  length e = 48%nat /\ normalizerb (stabs (toric_code 3 4)) e = true /\
  bsp e (x1op 3 4) = false /\ bsp e (x2op 3 4) = false /\ bsp e (z1op 3 4) = false /\ bsp e (z2op 3 4) = false /\
  bsf_wt e = 8%nat.
Proof. vm_compute. repeat split; reflexivity. Qed.

Print Assumptions toric_distance_lower_all.
Print Assumptions toric_is_distance_all.
