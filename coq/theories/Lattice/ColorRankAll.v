(* Lattice/ColorRankAll.v — C07 for the colour 6.6.6 code, ALL odd sizes >= 3:
     [color_flatten_all]   ColorBounded.color_flatten_statement: the in-bounds sites in row-major order are numbered
                           0, 1, .., n-1 by c6_flatten (row r starts at c6_rowstart r; inside a row the number of sites
                           to the left of column c is (2c + 2 - r mod 3) / 3);
     [color_rank_all]      rc_rank: the n - 1 stabilizer generators (one X and one Z per plaquette) are GF(2)
                           independent, and stay independent together with the two logical operators;
     [color_logical_weights_all]  both supplied logicals have weight d = size;
     [color_distance_upper_all]   a non-trivial logical operator of weight d exists, so d_true <= d.

   Method for the rank: triangular dual vectors.  The plaquette (r, c) owns the site (r-1, c-1) (or (r-1, 0) when
   c = 0), which lies on no plaquette of a later row; the one-site operators on the owned sites separate the
   generators in row-major order ([tri_independent]).  The logicals are separated by each other. *)
From Coq Require Import ZArith List Bool Lia ZifyBool.
From QV Require Import Core.Bits Core.Pauli Core.Symp Core.Code Core.Span Core.Rank Core.Dist Core.DistCSS
  Generated.LatticeArith Lattice.RotPlanar Lattice.Color Lattice.RotPlanarAll Lattice.RotPlanarBounded
  Lattice.RotPlanarValidAll Lattice.ColorBounded Lattice.ColorValidAll.
Import ListNotations.
Open Scope Z_scope.
Ltac Zify.zify_post_hook ::= Z.to_euclidean_division_equations.

(* ================================================================== *)
(** * Part A — flatten is the row-major numbering of the sites         *)
(* ================================================================== *)
(* number of sites of row r in the columns < c *)
Definition c6_hcnt (r c : Z) : Z := (2 * c + (2 - r mod 3)) / 3.
Lemma c6_flatten_hcnt r c : c6_flatten (r, c) = c6_rowstart r + c6_hcnt r c.
Proof. reflexivity. Qed.
Lemma c6_hcnt_0 r : c6_hcnt r 0 = 0.
Proof. unfold c6_hcnt. lia. Qed.
Lemma c6_hcnt_step r c : 0 <= c ->
  c6_hcnt r (c + 1) = c6_hcnt r c + (if (r + c) mod 3 =? 2 then 0 else 1).
Proof. intros Hc. unfold c6_hcnt. destruct (Z.eqb_spec ((r + c) mod 3) 2); lia. Qed.
Lemma c6_hcnt_nonneg r c : 0 <= c -> 0 <= c6_hcnt r c.
Proof. intros Hc. unfold c6_hcnt. lia. Qed.
Lemma c6_hcnt_full r : 0 <= r -> c6_hcnt r (r + 1) = c6_rowstart (r + 1) - c6_rowstart r.
Proof.
  intros Hr. destruct (c6_split3 r Hr) as (k & j & -> & Hk & [-> | [-> | ->]]); unfold c6_hcnt.
  - replace (3 * k + 0) with (3 * k) in * by lia. rewrite c6_rowstart_0, c6_rowstart_1. lia.
  - replace (3 * k + 1 + 1) with (3 * k + 2) by lia. rewrite c6_rowstart_1, c6_rowstart_2. lia.
  - replace (3 * k + 2 + 1) with (3 * k + 3) by lia. rewrite c6_rowstart_2, c6_rowstart_3. lia.
Qed.
Lemma c6_rowstart_00 : c6_rowstart 0 = 0.
Proof. reflexivity. Qed.
Lemma c6_rowstart_nonneg r : 0 <= r -> 0 <= c6_rowstart r.
Proof. intros Hr. unfold c6_rowstart. apply Z.div_pos; nia. Qed.

Lemma rc_zrange_app lo a b : rc_zrange lo (a + b) = rc_zrange lo a ++ rc_zrange (lo + Z.of_nat a) b.
Proof.
  induction b as [|b IH].
  - rewrite Nat.add_0_r. cbn. now rewrite app_nil_r.
  - rewrite Nat.add_succ_r, !rc_zrange_S, IH, app_assoc. do 2 f_equal. lia.
Qed.
Lemma rc_zrange_length lo n : length (rc_zrange lo n) = n.
Proof. unfold rc_zrange. now rewrite map_length, seq_length. Qed.
Lemma rc_zrange_nth lo n i d : (i < n)%nat -> nth i (rc_zrange lo n) d = lo + Z.of_nat i.
Proof.
  intros Hi. unfold rc_zrange. rewrite (nth_map_in _ _ _ _ 0%nat) by now rewrite seq_length.
  rewrite seq_nth by exact Hi. lia.
Qed.

Lemma c6_NoDup_app {A} (l1 l2 : list A) : NoDup l1 -> NoDup l2 -> (forall x, In x l1 -> In x l2 -> False) -> NoDup (l1 ++ l2).
Proof.
  induction l1 as [|a l1 IH]; intros H1 H2 Hd; cbn; auto. inversion H1 as [|? ? Hn H1']; subst. constructor.
  - intros Hin. apply in_app_iff in Hin. destruct Hin as [Hin|Hin]; [contradiction|]. apply (Hd a); cbn; auto.
  - apply IH; auto. intros x Hx1 Hx2. apply (Hd x); cbn; auto.
Qed.

Section ColorFlat.
Variables size m : Z.
Hypothesis Hm : 1 <= m.
Hypothesis Hsize : size = 2 * m + 1.
Notation inb := (color_is_in_bounds size).
Notation CN := (c6_n size).
Definition c6_keep (i : ridx) : bool := inb i && color_is_site i.
Definition c6_rowl (r : Z) (n : nat) : list ridx := map (fun c => (r, c)) (rc_zrange 0 n).

Lemma c6_keep_unfold r c : c6_keep (r, c) = ((0 <=? c) && (c <=? r) && (r <=? 3 * m)) && negb ((r + c) mod 3 =? 2).
Proof. unfold c6_keep. now rewrite (c6_inb_unfold size m Hsize), c6_site_unfold0. Qed.

(* one row: the kept sites of the first n columns are numbered consecutively from the row start *)
Lemma c6_row_numbering r : 0 <= r <= 3 * m -> forall n : nat,
  map c6_flatten (filter c6_keep (c6_rowl r n)) =
  rc_zrange (c6_rowstart r) (Z.to_nat (c6_hcnt r (Z.min (Z.of_nat n) (r + 1)))).
Proof.
  intros Hr. induction n as [|n IH].
  - cbn [c6_rowl rc_zrange seq map filter]. replace (Z.min (Z.of_nat 0) (r + 1)) with 0 by lia.
    rewrite c6_hcnt_0. reflexivity.
  - unfold c6_rowl in *. rewrite rc_zrange_S, map_app, filter_app, map_app, IH. cbn [map filter].
    replace (0 + Z.of_nat n) with (Z.of_nat n) by lia. rewrite c6_keep_unfold.
    destruct (Z.leb_spec (Z.of_nat n) r) as [Hle|Hgt].
    + replace (Z.min (Z.of_nat n) (r + 1)) with (Z.of_nat n) by lia.
      replace (Z.min (Z.of_nat (S n)) (r + 1)) with (Z.of_nat n + 1) by lia.
      rewrite c6_hcnt_step by lia. pose proof (c6_hcnt_nonneg r (Z.of_nat n) ltac:(lia)) as Hnn.
      replace (0 <=? Z.of_nat n) with true by lia. replace (r <=? 3 * m) with true by lia. cbn [andb].
      destruct (Z.eqb_spec ((r + Z.of_nat n) mod 3) 2) as [E|E]; cbn [negb map].
      * rewrite app_nil_r. f_equal. lia.
      * replace (Z.to_nat (c6_hcnt r (Z.of_nat n) + 1)) with (S (Z.to_nat (c6_hcnt r (Z.of_nat n)))) by lia.
        rewrite rc_zrange_S. f_equal. rewrite c6_flatten_hcnt. f_equal. f_equal. lia.
    + replace (Z.min (Z.of_nat n) (r + 1)) with (r + 1) by lia.
      replace (Z.min (Z.of_nat (S n)) (r + 1)) with (r + 1) by lia.
      rewrite andb_false_r. cbn [andb map]. now rewrite app_nil_r.
Qed.
Lemma c6_row_inb_count r : 0 <= r <= 3 * m -> forall n : nat,
  length (filter inb (c6_rowl r n)) = Z.to_nat (Z.min (Z.of_nat n) (r + 1)).
Proof.
  intros Hr. induction n as [|n IH]; [cbn [c6_rowl rc_zrange seq map filter length]; lia|].
  unfold c6_rowl in *. rewrite rc_zrange_S, map_app, filter_app, app_length, IH. cbn [map filter].
  rewrite (c6_inb_unfold size m Hsize). cbn [fst snd].
  destruct (Z.leb_spec (0 + Z.of_nat n) r); cbn [andb length].
  - replace (0 <=? 0 + Z.of_nat n) with true by lia. replace (r <=? 3 * m) with true by lia. cbn [andb length]. lia.
  - rewrite andb_false_r. cbn [andb length]. lia.
Qed.

(* all rows above row K *)
Definition c6_rows (K : nat) : list ridx :=
  flat_map (fun r => c6_rowl r (Z.to_nat (3 * m + 1))) (rc_zrange 0 K).
Lemma c6_rows_S K : c6_rows (S K) = c6_rows K ++ c6_rowl (Z.of_nat K) (Z.to_nat (3 * m + 1)).
Proof. unfold c6_rows. rewrite rc_zrange_S, flat_map_app. cbn [flat_map]. now rewrite app_nil_r. Qed.
Lemma c6_rows_numbering (K : nat) : Z.of_nat K <= 3 * m + 1 ->
  map c6_flatten (filter c6_keep (c6_rows K)) = rc_zrange 0 (Z.to_nat (c6_rowstart (Z.of_nat K))).
Proof.
  induction K as [|K IH]; intros HK; [reflexivity|].
  rewrite c6_rows_S, filter_app, map_app, IH by lia.
  rewrite c6_row_numbering by lia.
  replace (Z.min (Z.of_nat (Z.to_nat (3 * m + 1))) (Z.of_nat K + 1)) with (Z.of_nat K + 1) by lia.
  rewrite c6_hcnt_full by lia.
  pose proof (c6_rowstart_nonneg (Z.of_nat K) ltac:(lia)) as H0.
  pose proof (c6_rowstart_step (Z.of_nat K) ltac:(lia)) as H1.
  replace (Z.of_nat (S K)) with (Z.of_nat K + 1) by lia.
  replace (Z.to_nat (c6_rowstart (Z.of_nat K + 1))) with
    (Z.to_nat (c6_rowstart (Z.of_nat K)) + Z.to_nat (c6_rowstart (Z.of_nat K + 1) - c6_rowstart (Z.of_nat K)))%nat by lia.
  rewrite rc_zrange_app. do 2 f_equal. lia.
Qed.
Lemma c6_rows_inb_count (K : nat) : Z.of_nat K <= 3 * m + 1 ->
  2 * Z.of_nat (length (filter inb (c6_rows K))) = Z.of_nat K * (Z.of_nat K + 1).
Proof.
  induction K as [|K IH]; intros HK; [reflexivity|].
  rewrite c6_rows_S, filter_app, app_length, c6_row_inb_count by lia.
  specialize (IH ltac:(lia)). nia.
Qed.

Lemma c6_product_rows : c6_product size = c6_rows (Z.to_nat (3 * m + 1)).
Proof.
  unfold c6_product, c6_rows, c6_rowl, rc_range. rewrite (c6_bound_eq size m Hsize).
  now replace (3 * m + 1 - 0) with (3 * m + 1) by lia.
Qed.
Lemma c6_site_indices_keep : c6_site_indices size = filter c6_keep (c6_product size).
Proof. reflexivity. Qed.

Theorem c6_site_numbering : map c6_flatten (c6_site_indices size) = rc_zrange 0 CN.
Proof.
  rewrite c6_site_indices_keep, c6_product_rows, c6_rows_numbering by lia. f_equal.
  replace (Z.of_nat (Z.to_nat (3 * m + 1))) with (3 * m + 1) by lia. rewrite c6_rowstart_1.
  pose proof (c6_n_eq size m Hm Hsize). lia.
Qed.
Theorem c6_flatten_bijective_sec :
  length (c6_site_indices size) = CN /\
  (forall i d, (i < CN)%nat -> Z.to_nat (c6_flatten (nth i (c6_site_indices size) d)) = i).
Proof.
  pose proof c6_site_numbering as H. split.
  - rewrite <- (map_length c6_flatten), H. apply rc_zrange_length.
  - intros i d Hi. rewrite <- (map_nth c6_flatten), H, rc_zrange_nth by exact Hi. lia.
Qed.
(* surjectivity in the usual form *)
Theorem c6_flatten_surjective_sec k : (k < CN)%nat ->
  exists s, color_is_site s = true /\ inb s = true /\ Z.to_nat (c6_flatten s) = k.
Proof.
  intros Hk. destruct c6_flatten_bijective_sec as [HL Hn]. exists (nth k (c6_site_indices size) (0, 0)).
  assert (Hin : In (nth k (c6_site_indices size) (0, 0)) (c6_site_indices size)) by (apply nth_In; lia).
  unfold c6_site_indices in Hin. apply filter_In in Hin. destruct Hin as [_ Hin]. apply andb_true_iff in Hin.
  destruct Hin as [Hb Hs]. auto.
Qed.

(* ---- plaquettes: no repetition, and there are (n - 1) / 2 of them ---- *)
Lemma c6_product_NoDup : NoDup (c6_product size).
Proof.
  unfold c6_product. set (rg := rc_range 0 (color_bound size + 1)).
  assert (Hrg : NoDup rg) by apply rc_range_NoDup.
  assert (G : forall l : list Z, NoDup l -> NoDup (flat_map (fun r => map (fun c => (r, c)) rg) l)).
  { induction l as [|a l IH]; intros Hnd; cbn [flat_map]; [constructor|].
    inversion Hnd as [|? ? Hn Hnd']; subst. apply c6_NoDup_app.
    - apply rc_NoDup_map_inj; auto. intros x y _ _ E. now injection E.
    - now apply IH.
    - intros b Hb1 Hb2. apply in_map_iff in Hb1. destruct Hb1 as (c & <- & _).
      apply in_flat_map in Hb2. destruct Hb2 as (r & Hr & Hb2). apply in_map_iff in Hb2.
      destruct Hb2 as (c' & E & _). injection E as -> _. contradiction. }
  now apply G.
Qed.
Lemma c6_plaquette_indices_NoDup : NoDup (c6_plaquette_indices size).
Proof. apply NoDup_filter, c6_product_NoDup. Qed.
Lemma c6_filter_split {A} (p f : A -> bool) l :
  (length (filter (fun a => p a && f a) l) + length (filter (fun a => p a && negb (f a)) l) = length (filter p l))%nat.
Proof. induction l as [|a l IH]; cbn; auto. destruct (p a), (f a); cbn; lia. Qed.
Theorem c6_plaquette_count : (2 * length (c6_plaquette_indices size) + 1 = CN)%nat.
Proof.
  pose proof (c6_filter_split inb color_is_site (c6_product size)) as H.
  change (filter (fun a => inb a && color_is_site a) (c6_product size)) with (c6_site_indices size) in H.
  assert (E : filter (fun a => inb a && negb (color_is_site a)) (c6_product size) = c6_plaquette_indices size).
  { unfold c6_plaquette_indices. apply filter_ext. intros a. unfold color_is_site. now rewrite negb_involutive. }
  rewrite E in H. destruct c6_flatten_bijective_sec as [HL _]. rewrite HL in H.
  rewrite c6_product_rows in H.
  pose proof (c6_rows_inb_count (Z.to_nat (3 * m + 1)) ltac:(lia)) as HC.
  pose proof (c6_n_eq size m Hm Hsize) as HN. nia.
Qed.
End ColorFlat.

(* ColorBounded.color_flatten_statement, now a theorem *)
Theorem color_flatten_all : color_flatten_statement.
Proof. intros size Hs Ho. apply (c6_flatten_bijective_sec size (size / 2)); lia. Qed.

(* ================================================================== *)
(** * Part B — generic: triangular dual vectors                        *)
(* ================================================================== *)
(* a list of (row, dual): each row anticommutes with its own dual, every LATER row commutes with it *)
Fixpoint tri (n : nat) (L : list (bsf * bsf)) : Prop :=
  match L with
  | [] => True
  | RD :: rest => length (fst RD) = n /\ bsp (fst RD) (snd RD) = true /\
                  (forall X, In X rest -> bsp (fst X) (snd RD) = false) /\ tri n rest
  end.
Lemma tri_rowlen n L : tri n L -> rowlen n (map fst L).
Proof.
  induction L as [|RD L IH]; intros H; [constructor|]. destruct H as (H1 & _ & _ & H4).
  constructor; [exact H1|now apply IH].
Qed.
Lemma tri_app n L1 L2 : tri n L1 -> tri n L2 ->
  (forall X Y, In X L1 -> In Y L2 -> bsp (fst Y) (snd X) = false) -> tri n (L1 ++ L2).
Proof.
  induction L1 as [|RD L1 IH]; intros H1 H2 Hc; [exact H2|].
  destruct H1 as (A1 & A2 & A3 & A4). cbn [app tri]. repeat split; auto.
  - intros X HX. apply in_app_iff in HX. destruct HX as [HX|HX]; [now apply A3|]. apply (Hc RD X); cbn; auto.
  - apply IH; auto. intros X Y HX HY. apply Hc; cbn; auto.
Qed.
Lemma tri_tail_commutes n RD L cs : tri n (RD :: L) -> bsp (lincomb n cs (map fst L)) (snd RD) = false.
Proof.
  intros (_ & _ & H3 & H4). apply (span_commutes n (map fst L)).
  - now apply tri_rowlen.
  - intros s Hs. apply in_map_iff in Hs. destruct Hs as (X & <- & HX). now apply H3.
  - clear. revert cs. induction (map fst L) as [|g gens IH]; intros cs.
    + exists []. split; [reflexivity|]. destruct cs; reflexivity.
    + destruct cs as [|c cs].
      * exists (zeros (length (g :: gens))). split; [apply zeros_length|]. cbn [lincomb]. apply lincomb_zeros.
      * destruct (IH cs) as (ds & Hd & Hl). exists (c :: ds). split; [cbn; lia|]. cbn [lincomb]. now rewrite Hl.
Qed.
Theorem tri_independent n L : tri n L -> independent n (map fst L).
Proof.
  induction L as [|RD L IH]; intros HT cs Hcs Hz.
  - destruct cs; [reflexivity|discriminate].
  - destruct cs as [|c cs]; [discriminate|]. cbn [map length] in *.
    pose proof (tri_tail_commutes n RD L cs HT) as HC. destruct HT as (H1 & H2 & H3 & H4).
    cbn [lincomb] in Hz. destruct c.
    + exfalso. assert (E : bsp (xorv (fst RD) (lincomb n cs (map fst L))) (snd RD) = true).
      { rewrite bsp_linear_l by (rewrite lincomb_length by (apply tri_rowlen; assumption); assumption). now rewrite H2, HC. }
      rewrite Hz, bsp_zeros_l_local in E. discriminate.
    + change (zeros (S (length (map fst L)))) with (false :: zeros (length (map fst L))). f_equal.
      apply IH; auto.
Qed.
(* cleaning: every vector can be brought, by a product of the rows, to commute with all the duals *)
Theorem tri_clean n L : tri n L -> forall e, length e = n ->
  exists cs, length cs = length L /\
    forall X, In X L -> bsp (xorv e (lincomb n cs (map fst L))) (snd X) = false.
Proof.
  induction L as [|RD L IH]; intros HT e He.
  - exists []. split; [reflexivity|]. intros X [].
  - pose proof HT as (H1 & H2 & H3 & H4).
    set (c := bsp e (snd RD)). set (e' := if c then xorv e (fst RD) else e).
    assert (He' : length e' = n) by (unfold e'; destruct c; auto; rewrite xorv_length; lia).
    assert (Hc : bsp e' (snd RD) = false).
    { unfold e'. destruct c eqn:Ec; [|exact Ec]. rewrite bsp_linear_l by lia. fold c. now rewrite Ec, H2. }
    destruct (IH H4 e' He') as (cs & Hcs & Hall). exists (c :: cs). split; [cbn; lia|].
    assert (LT : length (lincomb n cs (map fst L)) = n) by (apply lincomb_length; now apply tri_rowlen).
    assert (E : xorv e (lincomb n (c :: cs) (map fst (RD :: L))) = xorv e' (lincomb n cs (map fst L))).
    { cbn [map lincomb]. unfold e'. destruct c; [|reflexivity]. now rewrite xorv_assoc. }
    rewrite E. intros X [<-|HX]; [|now apply Hall].
    rewrite bsp_linear_l by lia. rewrite Hc. now rewrite (tri_tail_commutes n RD L cs HT).
Qed.
Lemma c6_in_spanP_In n : forall gens r, rowlen n gens -> In r gens -> in_spanP n gens r.
Proof.
  induction gens as [|g gens IH]; intros r HF Hr; [destruct Hr|]. unfold rowlen in *.
  apply Forall_cons_iff in HF. destruct HF as [Hg HF'].
  destruct Hr as [->|Hr].
  - exists (true :: zeros (length gens)). split; [cbn; now rewrite zeros_length|].
    cbn [lincomb]. rewrite lincomb_zeros. rewrite <- Hg. apply xorv_zeros_r.
  - destruct (IH r HF' Hr) as (cs & Hcs & Hl). exists (false :: cs). split; [cbn; lia|exact Hl].
Qed.

(* lists of lattice indices with non-decreasing row *)
Fixpoint rows_sorted (L : list ridx) : Prop :=
  match L with [] => True | a :: r => (forall b, In b r -> fst a <= fst b) /\ rows_sorted r end.
Lemma rows_sorted_app L1 L2 : rows_sorted L1 -> rows_sorted L2 ->
  (forall a b, In a L1 -> In b L2 -> fst a <= fst b) -> rows_sorted (L1 ++ L2).
Proof.
  induction L1 as [|a L1 IH]; intros H1 H2 Hc; [exact H2|]. destruct H1 as [A1 A2]. cbn [app rows_sorted]. split.
  - intros b Hb. apply in_app_iff in Hb. destruct Hb as [Hb|Hb]; [now apply A1|]. apply Hc; cbn; auto.
  - apply IH; auto. intros x y Hx Hy. apply Hc; cbn; auto.
Qed.
Lemma rows_sorted_filter f L : rows_sorted L -> rows_sorted (filter f L).
Proof.
  induction L as [|a L IH]; intros H; [exact I|]. destruct H as [A1 A2]. cbn [filter]. destruct (f a).
  - split; [|now apply IH]. intros b Hb. apply filter_In in Hb. apply A1. tauto.
  - now apply IH.
Qed.
Lemma rows_sorted_const r (L : list Z) : rows_sorted (map (fun c => (r, c)) L).
Proof.
  induction L as [|a L IH]; [exact I|]. cbn [map rows_sorted]. split; [|exact IH].
  intros b Hb. apply in_map_iff in Hb. destruct Hb as (c & <- & _). cbn. lia.
Qed.
Lemma rows_sorted_product (cols : list Z) : forall lo n,
  rows_sorted (flat_map (fun r => map (fun c => (r, c)) cols) (rc_zrange lo n)).
Proof.
  intros lo n. induction n as [|n IH]; [exact I|].
  rewrite rc_zrange_S, flat_map_app. cbn [flat_map]. rewrite app_nil_r.
  apply rows_sorted_app; [exact IH|apply rows_sorted_const|].
  intros a b Ha Hb. apply in_flat_map in Ha. destruct Ha as (r & Hr & Ha). apply rc_zrange_In in Hr.
  apply in_map_iff in Ha, Hb. destruct Ha as (c & <- & _), Hb as (c' & <- & _). cbn. lia.
Qed.

(* ================================================================== *)
(** * Part C — the colour code: rank                                    *)
(* ================================================================== *)
Section ColorRank.
Variables size m : Z.
Hypothesis Hm : 1 <= m.
Hypothesis Hsize : size = 2 * m + 1.
Notation inb := (color_is_in_bounds size).
Notation CN := (c6_n size).
Notation PI := (c6_plaquette_indices size).
Notation STABS := (stabs (color_code size)).

Lemma c6_PI_sorted : rows_sorted PI.
Proof. unfold c6_plaquette_indices, c6_product, rc_range. apply rows_sorted_filter, rows_sorted_product. Qed.

(* the site owned by a plaquette *)
Definition c6_pivot (q : ridx) : ridx := (fst q - 1, Z.max (snd q - 1) 0).
Definition c6_dual (op : pl) (q : ridx) : bsf := c6_sop size op [c6_pivot q].

Lemma c6_pivot_site q : color_is_plaquette q = true -> inb q = true ->
  color_is_site (c6_pivot q) = true /\ inb (c6_pivot q) = true.
Proof.
  destruct q as [r c]. rewrite c6_plaq_unfold, c6_site_unfold0, !(c6_inb_unfold size m Hsize). unfold c6_pivot.
  cbn [fst snd]. intros H1 H2. assert (Hr1 : 1 <= r) by lia.
  destruct (Z.max_spec (c - 1) 0) as [[? ->]|[? ->]]; split; lia.
Qed.
Lemma c6_pivot_own q : 0 <= snd q -> c6_hex (c6_pivot q) q = true.
Proof. destruct q as [r c]. unfold c6_hex, c6_pivot. cbn [fst snd]. intros H0. destruct (Z.max_spec (c - 1) 0) as [[? ->]|[? ->]]; lia. Qed.
Lemma c6_pivot_later q q' : color_is_plaquette q = true -> color_is_plaquette q' = true -> 0 <= snd q ->
  fst q <= fst q' -> q' <> q -> c6_hex (c6_pivot q) q' = false.
Proof.
  destruct q as [r c], q' as [r' c']. rewrite !c6_plaq_unfold. unfold c6_hex, c6_pivot. cbn [fst snd].
  intros H1 H2 H0 H3 H4.
  assert (H5 : r' <> r \/ c' <> c) by (destruct (Z.eq_dec r' r), (Z.eq_dec c' c); subst; auto; congruence).
  destruct (Z.max_spec (c - 1) 0) as [[? ->]|[? ->]]; lia.
Qed.
Lemma c6_single_sites s : color_is_site s = true -> c6_all_sites [s].
Proof. intros Hs a [<-|[]]. exact Hs. Qed.
Lemma c6_sop_length op L : length (c6_sop size op L) = (CN + CN)%nat.
Proof. apply rc_gop_length. Qed.
Lemma c6_even_NN : Nat.even (CN + CN) = true.
Proof. replace (CN + CN)%nat with (2 * CN)%nat by lia. apply Nat.even_spec. now exists CN. Qed.

(* a generator against a one-site operator: do they share the site? *)
Lemma c6_bsp_stab_single opA q' opB s : color_is_plaquette q' = true -> color_is_site s = true -> inb s = true ->
  bsp (c6_stab size opA q') (c6_sop size opB [s]) =
  xorb (zbit opB && xbit opA && c6_hex s q') (xbit opB && zbit opA && c6_hex s q').
Proof.
  intros Hq Hs Hb. unfold c6_stab. rewrite c6_bsp_sop_sym.
  rewrite (c6_bsp_sop size m Hm Hsize) by (auto using c6_single_sites, c6_nbrs_sites). cbv zeta.
  cbn [filter]. rewrite Hb. rewrite rc_pairs_cons. cbn [rc_pairs fold_right].
  rewrite rc_cnt_filter, Hb, c6_cnt_nbrs. change (Z.b2z true) with 1.
  replace (Z.odd (1 * Z.b2z (c6_hex s q') + 0)) with (c6_hex s q') by now destruct (c6_hex s q').
  reflexivity.
Qed.

Definition c6_pairs (opA opB : pl) (L : list ridx) : list (bsf * bsf) :=
  map (fun q => (c6_stab size opA q, c6_dual opB q)) L.
Lemma c6_pairs_tri opA opB L : (opA = pX /\ opB = pZ) \/ (opA = pZ /\ opB = pX) ->
  rows_sorted L -> NoDup L -> (forall q, In q L -> color_is_plaquette q = true /\ inb q = true) ->
  tri (CN + CN) (c6_pairs opA opB L).
Proof.
  intros Hop. induction L as [|q L IH]; intros Hs Hnd HL; [exact I|].
  destruct Hs as [S1 S2]. inversion Hnd as [|? ? N1 N2]; subst.
  destruct (HL q (or_introl eq_refl)) as [Pq Bq]. destruct (c6_pivot_site q Pq Bq) as [Sp Bp].
  cbn [c6_pairs map tri fst snd]. repeat split.
  - apply c6_sop_length.
  - unfold c6_dual. rewrite c6_bsp_stab_single by auto.
    rewrite c6_pivot_own by (rewrite (c6_inb_unfold size m Hsize) in Bq; lia).
    destruct Hop as [[-> ->]|[-> ->]]; reflexivity.
  - intros X HX. apply in_map_iff in HX. destruct HX as (q' & <- & Hq'). cbn [fst].
    destruct (HL q' (or_intror Hq')) as [Pq' _]. unfold c6_dual. rewrite c6_bsp_stab_single by auto.
    rewrite c6_pivot_later; auto; [now rewrite !andb_false_r| |].
    + rewrite (c6_inb_unfold size m Hsize) in Bq. lia.
    + intros ->. contradiction.
  - apply IH; auto. intros q' Hq'. apply HL. cbn; auto.
Qed.
Lemma c6_PI_props q : In q PI -> color_is_plaquette q = true /\ inb q = true.
Proof. apply c6_in_plaquette_indices. Qed.

(* X generators with Z one-site duals, then Z generators with X one-site duals *)
Definition c6_stab_pairs : list (bsf * bsf) := c6_pairs pX pZ PI ++ c6_pairs pZ pX PI.
Lemma c6_stab_pairs_fst : map fst c6_stab_pairs = STABS.
Proof.
  unfold c6_stab_pairs, c6_pairs. rewrite map_app, !map_map, c6_code_eq. cbn [stabs fst]. reflexivity.
Qed.
Lemma c6_stab_pairs_tri : tri (CN + CN) c6_stab_pairs.
Proof.
  pose proof c6_PI_sorted as HS. pose proof (c6_plaquette_indices_NoDup size m Hsize) as HN.
  apply tri_app.
  { apply c6_pairs_tri; [left; split; reflexivity|exact HS|exact HN|exact c6_PI_props]. }
  { apply c6_pairs_tri; [right; split; reflexivity|exact HS|exact HN|exact c6_PI_props]. }
  intros X Y HX HY. apply in_map_iff in HX, HY. destruct HX as (q & <- & Hq), HY as (q' & <- & Hq'). cbn [fst snd].
  destruct (c6_PI_props q Hq) as [Pq Bq]. destruct (c6_pivot_site q Pq Bq) as [Sp Bp].
  destruct (c6_PI_props q' Hq') as [Pq' _]. unfold c6_dual. rewrite c6_bsp_stab_single by auto. reflexivity.
Qed.

(* C07: the stabilizer generators are linearly independent *)
Theorem color_stabilizers_independent : independent (CN + CN) STABS.
Proof. rewrite <- c6_stab_pairs_fst. apply tri_independent, c6_stab_pairs_tri. Qed.
Lemma c6_stabs_rowlen : rowlen (CN + CN) STABS.
Proof. rewrite <- c6_stab_pairs_fst. apply tri_rowlen, c6_stab_pairs_tri. Qed.
Theorem color_stabilizers_length : (length STABS + 1 = CN)%nat.
Proof.
  rewrite c6_code_eq. cbn [stabs]. rewrite app_length, !map_length.
  pose proof (c6_plaquette_count size m Hm Hsize). lia.
Qed.

(* ... and stay independent together with the two logical operators (listed first: each logical is separated by
   the other one, and no generator sees a logical) *)
Notation LX := (c6_lop size pX).
Notation LZ := (c6_lop size pZ).
Lemma c6_logical_products :
  bsp LX LZ = true /\ bsp LZ LX = true /\ bsp LX LX = false /\ bsp LZ LZ = false /\
  (forall s, In s STABS -> bsp s LX = false /\ bsp s LZ = false).
Proof.
  destruct (color_valid_all_conditions size ltac:(lia) ltac:(lia)) as (_ & H2 & H3).
  rewrite c6_code_eq in H2, H3. cbn [stabs lxs lzs logicals app] in H2, H3.
  specialize (H3 0%nat 0%nat ltac:(cbn; lia) ltac:(cbn; lia)). cbn [nth Nat.eqb] in H3.
  destruct H3 as (A & B & C & D). split; [exact C|]. split; [exact D|]. split; [exact A|]. split; [exact B|].
  intros s Hs. rewrite c6_code_eq in Hs. cbn [stabs] in Hs. split; apply H2; cbn; auto.
Qed.
Definition c6_all_pairs : list (bsf * bsf) := (LX, LZ) :: (LZ, LX) :: c6_stab_pairs.
Lemma c6_all_pairs_tri : tri (CN + CN) c6_all_pairs.
Proof.
  destruct c6_logical_products as (A & B & C & D & E).
  assert (G : forall X, In X c6_stab_pairs -> In (fst X) STABS).
  { intros X HX. rewrite <- c6_stab_pairs_fst. now apply in_map. }
  unfold c6_all_pairs. cbn [tri fst snd]. repeat split; try apply c6_sop_length; auto.
  - intros X [<-|HX]; [exact D|]. now apply E, G.
  - intros X HX. now apply E, G.
  - apply c6_stab_pairs_tri.
Qed.
Theorem color_stabilizers_logicals_independent : independent (CN + CN) (LX :: LZ :: STABS).
Proof.
  pose proof (tri_independent _ _ c6_all_pairs_tri) as H. unfold c6_all_pairs in H. cbn [map fst] in H.
  now rewrite c6_stab_pairs_fst in H.
Qed.

(* C07 in the vocabulary of Core/Rank.v *)
Theorem color_rank_is_sec :
  rank_is (CN + CN) STABS (CN - 1) /\
  rank_is (CN + CN) (STABS ++ logicals (color_code size)) (CN + 1).
Proof.
  pose proof color_stabilizers_length as HL. pose proof c6_stabs_rowlen as HR. split.
  - exists STABS. split; [apply incl_refl|]. split; [lia|]. split; [apply color_stabilizers_independent|].
    intros r Hr. now apply c6_in_spanP_In.
  - assert (EL : logicals (color_code size) = [LX; LZ]) by (rewrite c6_code_eq; reflexivity).
    assert (HR' : rowlen (CN + CN) (LX :: LZ :: STABS)).
    { constructor; [apply c6_sop_length|]. constructor; [apply c6_sop_length|exact HR]. }
    exists (LX :: LZ :: STABS). split; [|split; [cbn [length]; lia|split]].
    + rewrite EL. intros x [<-|[<-|Hx]]; apply in_app_iff; cbn; auto.
    + apply color_stabilizers_logicals_independent.
    + intros r Hr. apply c6_in_spanP_In; auto. rewrite EL in Hr. apply in_app_iff in Hr. cbn in Hr. cbn. tauto.
Qed.
End ColorRank.

Lemma c6_nkd size m : 1 <= m -> size = 2 * m + 1 ->
  color_n_k_d size = (Z.of_nat (c6_n size), 1, size).
Proof.
  intros Hm Hsize. pose proof (c6_n_eq size m Hm Hsize) as H. unfold c6_n in *. unfold color_n_k_d in *.
  cbv zeta in *. f_equal. f_equal. rewrite Z2Nat.id; [reflexivity|]. apply Z.div_pos; nia.
Qed.

(* the rank part of C07 for every odd size: rank (stabilizers) = n - k and rank (stabilizers + logicals) = n + k *)
Theorem color_rank_all : forall size, 3 <= size -> size mod 2 = 1 -> rc_rank (color_n_k_d size) (color_code size).
Proof.
  intros size Hs Ho. assert (Hm : 1 <= size / 2) by lia. assert (Hsize : size = 2 * (size / 2) + 1) by lia.
  rewrite (c6_nkd size (size / 2) Hm Hsize). unfold rc_rank.
  pose proof (color_rank_is_sec size (size / 2) Hm Hsize) as [H1 H2].
  pose proof (c6_n_eq size (size / 2) Hm Hsize) as HN.
  replace (Z.to_nat (2 * Z.of_nat (c6_n size))) with (c6_n size + c6_n size)%nat by lia.
  replace (Z.to_nat (Z.of_nat (c6_n size) - 1)) with (c6_n size - 1)%nat by lia.
  replace (Z.to_nat (Z.of_nat (c6_n size) + 1)) with (c6_n size + 1)%nat by lia.
  split; assumption.
Qed.

(* ColorBounded.color_valid_statement for every odd size: validity (ColorValidAll) and the shapes *)
Theorem color_valid_all_full : color_valid_statement.
Proof.
  intros size Hs Ho. split; [now apply color_valid_all|].
  assert (Hm : 1 <= size / 2) by lia. assert (Hsize : size = 2 * (size / 2) + 1) by lia.
  rewrite (c6_nkd size (size / 2) Hm Hsize). unfold rc_shape.
  pose proof (color_stabilizers_length size (size / 2) Hm Hsize) as HL.
  pose proof (c6_stabs_rowlen size (size / 2) Hm Hsize) as HR.
  pose proof (c6_n_eq size (size / 2) Hm Hsize) as HN.
  split; [lia|]. split; [|rewrite c6_code_eq; cbn [lxs lzs length]; repeat split; try reflexivity; nia].
  intros r Hr. replace (Z.to_nat (2 * Z.of_nat (c6_n size))) with (c6_n size + c6_n size)%nat by lia.
  apply in_app_iff in Hr. destruct Hr as [Hr|Hr].
  - unfold rowlen in HR. rewrite Forall_forall in HR. now apply HR.
  - rewrite c6_code_eq in Hr. cbn [lxs lzs app] in Hr. destruct Hr as [<-|[<-|[]]]; apply c6_sop_length.
Qed.

(* ================================================================== *)
(** * Part D — weights of the logical operators, upper bound on the distance *)
(* ================================================================== *)
Section ColorWeights.
Variables size m : Z.
Hypothesis Hm : 1 <= m.
Hypothesis Hsize : size = 2 * m + 1.
Notation inb := (color_is_in_bounds size).
Notation CN := (c6_n size).
Notation STABS := (stabs (color_code size)).
Notation LX := (c6_lop size pX).
Notation LZ := (c6_lop size pZ).

Lemma c6_fl_inj i j : color_is_site i = true -> inb i = true -> color_is_site j = true -> inb j = true ->
  c6_fl i = c6_fl j -> i = j.
Proof.
  intros Si Bi Sj Bj E. apply (color_flatten_injective_all size); auto.
  pose proof (c6_flatten_range_sec size m Hm Hsize i Si Bi). pose proof (c6_flatten_range_sec size m Hm Hsize j Sj Bj).
  unfold c6_fl in E. lia.
Qed.
Lemma c6_fl_lt i : color_is_site i = true -> inb i = true -> (c6_fl i < CN)%nat.
Proof. intros Si Bi. pose proof (c6_flatten_range_sec size m Hm Hsize i Si Bi). unfold c6_fl. lia. Qed.

(* one letter laid on a duplicate-free list of lattice sites *)
Lemma c6_sop_weight op L : op = pX \/ op = pZ -> c6_all_sites L -> NoDup L -> (forall a, In a L -> inb a = true) ->
  bsf_wt (c6_sop size op L) = length L.
Proof.
  intros Hop HL Hnd Hin. unfold c6_sop, rc_gop, c6_keys.
  assert (EF : filter inb L = L).
  { clear Hnd HL. induction L as [|a L IH]; [reflexivity|]. cbn [filter]. rewrite (Hin a) by (cbn; auto). f_equal.
    apply IH. intros; apply Hin; cbn; auto. }
  rewrite EF. set (ps := map c6_fl L).
  assert (Hps : NoDup ps).
  { apply rc_NoDup_map_inj; auto. intros x y Hx Hy. apply c6_fl_inj; auto. }
  assert (Hlt : forall i, In i ps -> (i < length (zeros CN) /\ nth i (zeros CN) false = false)%nat).
  { intros i Hi. rewrite zeros_length, rc_nth_zeros. split; auto. apply in_map_iff in Hi.
    destruct Hi as (a & <- & Ha). apply c6_fl_lt; auto. }
  assert (Hc : count_true (rc_flips ps (zeros CN)) = length L).
  { rewrite rc_flips_count by auto. rewrite rc_count_zeros. unfold ps. now rewrite map_length. }
  assert (Hl : length (rc_flips ps (zeros CN)) = CN) by now rewrite rc_flips_length, zeros_length.
  unfold rc_apply_flips, rc_identity, rc_to_bsf. cbn [rc_xs rc_zs].
  destruct Hop as [-> | ->]; cbn [xbit zbit]; [now rewrite rc_wt_x_only|now rewrite rc_wt_z_only].
Qed.

Lemma c6_column0_props : NoDup (c6_column0 size) /\ (forall a, In a (c6_column0 size) -> inb a = true) /\
  Z.of_nat (length (c6_column0 size)) = size.
Proof.
  unfold c6_column0. rewrite (c6_bound_eq size m Hsize). split; [|split].
  - apply NoDup_filter, rc_NoDup_map_inj; [|apply rc_range_NoDup]. intros x y _ _ E. now injection E.
  - intros a Ha. apply filter_In in Ha. destruct Ha as [Ha _]. apply in_map_iff in Ha. destruct Ha as (r & <- & Hr).
    apply rc_range_In in Hr. rewrite (c6_inb_unfold size m Hsize). cbn [fst snd]. lia.
  - unfold rc_range. replace (Z.to_nat (3 * m + 1 - 0)) with (3 * Z.to_nat m + 1)%nat by lia. rewrite c6_col_len. lia.
Qed.
Theorem color_logical_weights_sec : Z.of_nat (bsf_wt LX) = size /\ Z.of_nat (bsf_wt LZ) = size.
Proof.
  destruct c6_column0_props as (H1 & H2 & H3). unfold c6_lop.
  rewrite !c6_sop_weight by (auto using c6_col_sites). auto.
Qed.

(* the X logical is a non-trivial logical operator of weight size: the true distance is at most d = size *)
Theorem color_distance_upper_sec : nontrivial CN STABS LX /\ Z.of_nat (bsf_wt LX) = size.
Proof.
  destruct (c6_logical_products size m Hm Hsize) as (A & B & C & D & E).
  split; [|apply color_logical_weights_sec]. split; [|split].
  - unfold c6_lop. rewrite c6_sop_length. lia.
  - intros s Hs. rewrite bsp_sym.
    + now apply E.
    + unfold c6_lop. rewrite c6_sop_length.
      pose proof (c6_stabs_rowlen size m Hm Hsize) as HR. unfold rowlen in HR. rewrite Forall_forall in HR.
      symmetry. now apply HR.
    + unfold c6_lop. rewrite c6_sop_length. apply c6_even_NN.
  - intros Hin. replace (2 * CN)%nat with (CN + CN)%nat in Hin by lia.
    rewrite (span_commutes (CN + CN) STABS LZ) in A; [discriminate| | |exact Hin].
    + apply (c6_stabs_rowlen size m Hm Hsize).
    + intros s Hs. now apply E.
Qed.
End ColorWeights.

(* ColorBounded.color_logical_weights_upto_21 for every odd size *)
Theorem color_logical_weights_all : forall size, 3 <= size -> size mod 2 = 1 -> c6_weights_b size = true.
Proof.
  intros size Hs Ho. assert (Hm : 1 <= size / 2) by lia. assert (Hsize : size = 2 * (size / 2) + 1) by lia.
  unfold c6_weights_b. rewrite (c6_nkd size (size / 2) Hm Hsize).
  unfold c6_logical_xs, c6_logical_zs. rewrite !c6_row_logical.
  destruct (color_logical_weights_sec size (size / 2) Hm Hsize) as [HX HZ].
  rewrite Z.eqb_refl, andb_true_r. apply andb_true_iff. split; apply Nat.eqb_eq; lia.
Qed.
Theorem color_distance_upper_all : forall size, 3 <= size -> size mod 2 = 1 ->
  let '(n, _, d) := color_n_k_d size in
  exists v, nontrivial (Z.to_nat n) (stabs (color_code size)) v /\ bsf_wt v = Z.to_nat d.
Proof.
  intros size Hs Ho. assert (Hm : 1 <= size / 2) by lia. assert (Hsize : size = 2 * (size / 2) + 1) by lia.
  rewrite (c6_nkd size (size / 2) Hm Hsize). rewrite Nat2Z.id.
  destruct (color_distance_upper_sec size (size / 2) Hm Hsize) as [H1 H2].
  exists (c6_lop size pX). split; [exact H1|lia].
Qed.

(* non-vacuity: the hypotheses are satisfiable and the objects are the computed ones *)
Example color_rank_all_ex :
  rank_is 38 (stabs (color_code 5)) 18 /\ c6_pivot (4, 1) = (3, 0) /\ c6_pivot (2, 0) = (1, 0) /\
  length (c6_plaquette_indices 7) = 18%nat /\ map c6_flatten (c6_site_indices 3) = [0; 1; 2; 3; 4; 5; 6].
Proof.
  split; [|vm_compute; auto].
  pose proof (color_rank_all 5 ltac:(lia) ltac:(reflexivity)) as [H _]. exact H.
Qed.
