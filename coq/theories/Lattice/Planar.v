(* Lattice/Planar.v — executable model of qecsim.models.planar.{PlanarCode, PlanarPauli}
   (and of PlanarMWPMDecoder.distance).  The integer kernels (n_k_d, is_plaquette, is_primal,
   bounds, is_in_bounds, translation, virtual_plaquette_index, _flatten_site_index) are NOT
   written here: they are the definitions of Generated/LatticeArith.v, regenerated from the
   Python source on every run; this file calls them wherever the Python calls the method.

   The first part (dense lattice Paulis, `flipn`, site-list machinery) is generic and is
   shared with Lattice/Toric.v. *)
From Coq Require Import ZArith List Bool Lia.
From QV Require Import Core.Bits Core.Pauli Core.Symp Core.Code Generated.LatticeArith.
Import ListNotations.
Open Scope Z_scope.

(* ------------------------------------------------------------------ *)
(** * Generic: dense Paulis as two bit lists (self._xs, self._zs)      *)
(* ------------------------------------------------------------------ *)
Record pauli := mkP { pxs : bsf; pzs : bsf }.
(* new_pauli(): identity on n qubits *)
Definition pzero (n : nat) : pauli := mkP (zeros n) (zeros n).
(* to_bsf: np.concatenate((xs, zs)) *)
Definition p_to_bsf (p : pauli) : bsf := pxs p ++ pzs p.
(* new_pauli(bsf): np.hsplit(bsf, 2) *)
Definition p_of_bsf (b : bsf) : pauli := let '(x, z) := halves b in mkP x z.

(* arr[k] ^= 1 *)
Fixpoint flipn (i : nat) (l : bsf) : bsf :=
  match l with
  | [] => []
  | x :: r => match i with O => negb x :: r | S j => x :: flipn j r end
  end.
(* if operator in ('X','Y'): xs[k] ^= 1 ; if operator in ('Z','Y'): zs[k] ^= 1 *)
Definition flip_op (op : pl) (k : nat) (p : pauli) : pauli :=
  mkP (if xbit op then flipn k (pxs p) else pxs p) (if zbit op then flipn k (pzs p) else pzs p).
(* operator(): x==1 and z==1 -> Y, x==1 -> X, z==1 -> Z, else I *)
Definition op_at (k : nat) (p : pauli) : pl := letter (nth k (pxs p) false) (nth k (pzs p) false).

(* np.ndindex((R, C)) : row-major *)
Definition ndindex2 (R C : Z) : list (Z * Z) :=
  flat_map (fun r => map (fun c => (Z.of_nat r, Z.of_nat c)) (seq 0 (Z.to_nat C))) (seq 0 (Z.to_nat R)).
(* range(0, stop, 2) *)
Definition range2 (stop : Z) : list Z := map (fun i => 2 * Z.of_nat i) (seq 0 (Z.to_nat ((stop + 1) / 2))).
(* range(stop) *)
Definition zrange (stop : Z) : list Z := map Z.of_nat (seq 0 (Z.to_nat stop)).

(* syndrome.nonzero() applied to the index array *)
Fixpoint select {A} (syn : bsf) (l : list A) : list A :=
  match syn, l with
  | b :: syn', a :: l' => if b then a :: select syn' l' else select syn' l'
  | _, _ => []
  end.

(* constructor arguments: a small AST of what a caller may pass as rows / columns *)
Inductive parg := AInt (z : Z) | ABool (b : bool) | AFloat | AStr | ANone.
Inductive cres := COk | CValueError | CTypeError.
(* operator.index : ints (and bool, a subclass of int) are accepted, everything else raises TypeError *)
Definition arg_index (a : parg) : option Z :=
  match a with AInt z => Some z | ABool b => Some (if b then 1 else 0) | _ => None end.
(* try: if index(rows) < min_rows or index(columns) < min_cols: raise ValueError
   except TypeError: raise TypeError          (the `or` short-circuits) *)
Definition size_ctor (min_rows min_cols : Z) (r c : parg) : cres :=
  match arg_index r with
  | None => CTypeError
  | Some rz => if rz <? min_rows then CValueError else
      match arg_index c with
      | None => CTypeError
      | Some cz => if cz <? min_cols then CValueError else COk
      end
  end.

Definition zeqb2 (a b : Z * Z) : bool := (fst a =? fst b) && (snd a =? snd b).

(* ------------------------------------------------------------------ *)
(** * PlanarCode / PlanarPauli                                         *)
(* ------------------------------------------------------------------ *)
Notation idx := (Z * Z)%type.

Section Planar.
Variables rows cols : Z.

Definition planar_n : nat := Z.to_nat (fst (fst (planar_n_k_d rows cols))).
Definition new_pauli : pauli := pzero planar_n.

(* PlanarPauli.site for one index (the is_site check that raises IndexError is in [site_api]) *)
Definition site (op : pl) (i : idx) (p : pauli) : pauli :=
  if planar_is_in_bounds rows cols i
  then flip_op op (Z.to_nat (planar_flatten rows cols i)) p
  else p.
(* site(operator, *indices): the loop over indices *)
Definition sites (op : pl) (L : list idx) (p : pauli) : pauli := fold_left (fun q i => site op i q) L p.
Definition site_api (op : pl) (i : idx) (p : pauli) : option pauli :=
  if planar_is_site i then Some (site op i p) else None.
(* PlanarPauli.operator *)
Definition operator (i : idx) (p : pauli) : option pl :=
  if planar_is_site i && planar_is_in_bounds rows cols i
  then Some (op_at (Z.to_nat (planar_flatten rows cols i)) p) else None.

(* PlanarPauli.plaquette: North, South, West, East *)
Definition plaq_sites (i : idx) : list idx :=
  let '(r, c) := i in [(r - 1, c); (r + 1, c); (r, c - 1); (r, c + 1)].
Definition plaq_op (i : idx) : pl := if planar_is_primal i then pZ else pX.
Definition plaquette_op (i : idx) (p : pauli) : pauli := sites (plaq_op i) (plaq_sites i) p.
Definition plaquette (i : idx) (p : pauli) : option pauli :=
  if negb (planar_is_plaquette i) then None else Some (plaquette_op i p).

(* the four while-loops of PlanarPauli.path: [walk k d cur] flips cur+d and moves to cur+2d, k times *)
Fixpoint walk (k : nat) (d cur : idx) : list idx :=
  match k with
  | O => []
  | S k' => (fst cur + fst d, snd cur + snd d) :: walk k' d (fst cur + 2 * fst d, snd cur + 2 * snd d)
  end.
Fixpoint walk_end (k : nat) (d cur : idx) : idx :=
  match k with
  | O => cur
  | S k' => walk_end k' d (fst cur + 2 * fst d, snd cur + 2 * snd d)
  end.
Definition path_sites (a : idx) (row_steps col_steps : Z) : list idx :=
  let kn := Z.to_nat (- row_steps) in      (* while row_steps < 0: heading north *)
  let c1 := walk_end kn (-1, 0) a in
  let ks := Z.to_nat row_steps in          (* while row_steps > 0: heading south *)
  let c2 := walk_end ks (1, 0) c1 in
  let kw := Z.to_nat (- col_steps) in      (* while col_steps < 0: heading west *)
  let c3 := walk_end kw (0, -1) c2 in
  let ke := Z.to_nat col_steps in          (* while col_steps > 0: heading east *)
  walk kn (-1, 0) a ++ walk ks (1, 0) c1 ++ walk kw (0, -1) c2 ++ walk ke (0, 1) c3.
Definition path_op (a : idx) : pl := if planar_is_primal a then pX else pZ.
Definition path (a b : idx) (p : pauli) : option pauli :=
  match planar_translation rows cols a b with
  | None => None   (* IndexError *)
  | Some (rs, cs) => Some (sites (path_op a) (path_sites a rs cs) p)
  end.

(* logical_x: X on (row, max_col) for row in range(0, max_row + 1, 2) *)
Definition logical_x_sites : list idx :=
  let '(max_row, max_col) := planar_bounds rows cols in map (fun r => (r, max_col)) (range2 (max_row + 1)).
Definition logical_z_sites : list idx :=
  let '(max_row, max_col) := planar_bounds rows cols in map (fun c => (max_row, c)) (range2 (max_col + 1)).
Definition logical_x (p : pauli) : pauli := sites pX logical_x_sites p.
Definition logical_z (p : pauli) : pauli := sites pZ logical_z_sites p.

(* _plaquette_indices: np.ndindex over (max_row+1, max_col+1); primal list then dual list *)
Definition plaquette_indices : list idx :=
  let '(max_row, max_col) := planar_bounds rows cols in
  let all := filter planar_is_plaquette (ndindex2 (max_row + 1) (max_col + 1)) in
  filter planar_is_primal all ++ filter (fun i => negb (planar_is_primal i)) all.

Definition stabilizers : list bsf := map (fun i => p_to_bsf (plaquette_op i new_pauli)) plaquette_indices.
Definition logical_xs : list bsf := [p_to_bsf (logical_x new_pauli)].
Definition logical_zs : list bsf := [p_to_bsf (logical_z new_pauli)].
Definition planar_code : code := mkCode stabilizers logical_xs logical_zs.

Definition syndrome_to_plaquette_indices (syn : bsf) : list idx := select syn plaquette_indices.

(* PlanarMWPMDecoder.distance *)
Definition distance (a b : idx) : option Z :=
  match planar_translation rows cols a b with
  | None => None
  | Some (rs, cs) => Some (Z.abs rs + Z.abs cs)
  end.

(* the site indices of the lattice, in np.ndindex order *)
Definition site_indices : list idx :=
  let '(max_row, max_col) := planar_bounds rows cols in
  filter planar_is_site (ndindex2 (max_row + 1) (max_col + 1)).

(* the boundary-virtual plaquettes: images of the real plaquettes under virtual_plaquette_index *)
Fixpoint dedup (l : list idx) : list idx :=
  match l with
  | [] => []
  | a :: r => if existsb (zeqb2 a) r then dedup r else a :: dedup r
  end.
Definition virtual_indices : list idx :=
  dedup (flat_map (fun i => match planar_virtual_plaquette_index rows cols i with Some v => [v] | None => [] end)
                  plaquette_indices).
End Planar.

(* PlanarCode.__init__ with MIN_SIZE = (2, 2) *)
Definition planar_ctor (r c : parg) : cres := size_ctor 2 2 r c.

(* ------------------------------------------------------------------ *)
(** * Basic facts used by every client                                 *)
(* ------------------------------------------------------------------ *)
Lemma flipn_length i l : length (flipn i l) = length l.
Proof. revert i. induction l as [|x l IH]; intros [|i]; cbn; auto. Qed.
Lemma flip_op_lengths op k p :
  length (pxs (flip_op op k p)) = length (pxs p) /\ length (pzs (flip_op op k p)) = length (pzs p).
Proof. unfold flip_op; cbn. destruct (xbit op), (zbit op); rewrite ?flipn_length; auto. Qed.
Lemma site_lengths rows cols op i p :
  length (pxs (site rows cols op i p)) = length (pxs p) /\ length (pzs (site rows cols op i p)) = length (pzs p).
Proof. unfold site. destruct (planar_is_in_bounds rows cols i); auto. apply flip_op_lengths. Qed.
Lemma sites_lengths rows cols op L : forall p,
  length (pxs (sites rows cols op L p)) = length (pxs p) /\ length (pzs (sites rows cols op L p)) = length (pzs p).
Proof.
  induction L as [|i L IH]; intros p; cbn; auto.
  destruct (IH (site rows cols op i p)) as [H1 H2], (site_lengths rows cols op i p) as [H3 H4].
  unfold sites in *. split; congruence.
Qed.
Lemma plaquette_some rows cols i p : planar_is_plaquette i = true ->
  plaquette rows cols i p = Some (plaquette_op rows cols i p).
Proof. intros H. unfold plaquette. now rewrite H. Qed.
