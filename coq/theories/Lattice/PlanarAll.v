(* Lattice/PlanarAll.v — all-sizes (P-forall) theorems about the planar model of Lattice/Planar.v,
   for every rows, cols >= 2, against the integer kernels of Generated/LatticeArith.v.

   Part A  generic dense/sparse transfer: an operator built by `sites` from the identity is
           the parity vector of its in-bounds sites; the symplectic product of two such
           operators is the parity of the number of coinciding in-bounds sites (under an
           injective flatten); weights.
   Part B  planar_flatten is a bijection from the in-bounds sites onto [0, n).
   Part C  counting lemmas; primal/dual plaquette commutation; logicals.
   Part D  validate (planar_code rows cols) = VOk for all sizes.
   Part E  paths: syndrome of path a b = indicator of the in-lattice endpoints, weight <= distance;
           virtual plaquettes; weights of the logicals. *)
From Coq Require Import ZArith List Bool Lia ZifyBool.
From QV Require Import Core.Bits Core.Pauli Core.Symp Core.Code Generated.LatticeArith Lattice.Planar.
Import ListNotations.
Open Scope Z_scope.
Ltac Zify.zify_post_hook ::= Z.to_euclidean_division_equations.

(* ================================================================== *)
(** * Part A — generic dense/sparse transfer                           *)
(* ================================================================== *)
Fixpoint xsumb {A} (f : A -> bool) (L : list A) : bool :=
  match L with [] => false | a :: r => xorb (f a) (xsumb f r) end.
Definition flips (ks : list nat) (v : bsf) : bsf := fold_left (fun u k => flipn k u) ks v.

Lemma xsumb_app {A} (f : A -> bool) L1 L2 : xsumb f (L1 ++ L2) = xorb (xsumb f L1) (xsumb f L2).
Proof. induction L1 as [|a L IH]; cbn; [now destruct (xsumb f L2)|]. rewrite IH. now rewrite xorb_assoc. Qed.
Lemma xsumb_ext {A} (f g : A -> bool) L : (forall a, In a L -> f a = g a) -> xsumb f L = xsumb g L.
Proof. induction L as [|a L IH]; intros H; cbn; auto. rewrite H by (cbn; auto). f_equal. apply IH. intros; apply H; cbn; auto. Qed.
Lemma xsumb_false {A} (L : list A) : xsumb (fun _ => false) L = false.
Proof. induction L as [|a L IH]; cbn [xsumb]; [reflexivity|]. now rewrite IH. Qed.
Lemma xsumb_odd {A} (f : A -> Z) L : xsumb (fun a => Z.odd (f a)) L = Z.odd (fold_right (fun a acc => f a + acc) 0 L).
Proof. induction L as [|a L IH]; cbn [xsumb fold_right]; [reflexivity|]. now rewrite IH, Z.odd_add. Qed.

Lemma nth_flipn k : forall u j, (k < length u)%nat -> nth j (flipn k u) false = xorb (j =? k)%nat (nth j u false).
Proof.
  induction k as [|k IH]; intros [|x u] j Hk; cbn in Hk; try lia.
  - destruct j; cbn; [now destruct x|now destruct (nth j u false)].
  - destruct j; cbn; [now destruct x|]. apply IH. lia.
Qed.
Lemma dot_flipn k : forall u v, length u = length v -> (k < length u)%nat ->
  dot (flipn k u) v = xorb (nth k v false) (dot u v).
Proof.
  induction k as [|k IH]; intros [|x u] [|y v] HL Hk; cbn in *; try lia.
  - now destruct x, y, (dot u v).
  - rewrite IH by lia. now destruct (x && y), (nth k v false), (dot u v).
Qed.
Lemma flips_length ks : forall u, length (flips ks u) = length u.
Proof. induction ks as [|k ks IH]; intros u; cbn; auto. unfold flips in IH. now rewrite IH, flipn_length. Qed.
Lemma nth_flips ks : forall u j, (forall k, In k ks -> (k < length u)%nat) ->
  nth j (flips ks u) false = xorb (xsumb (fun k => (j =? k)%nat) ks) (nth j u false).
Proof.
  induction ks as [|k ks IH]; intros u j H; cbn [flips fold_left xsumb]; [now destruct (nth j u false)|].
  change (fold_left (fun u k => flipn k u) ks (flipn k u)) with (flips ks (flipn k u)).
  rewrite IH by (intros k' Hk'; rewrite flipn_length; apply H; cbn; auto).
  rewrite nth_flipn by (apply H; cbn; auto).
  now destruct (j =? k)%nat, (xsumb (fun k0 => (j =? k0)%nat) ks), (nth j u false).
Qed.
Lemma dot_flips ks : forall u v, length u = length v -> (forall k, In k ks -> (k < length u)%nat) ->
  dot (flips ks u) v = xorb (xsumb (fun k => nth k v false) ks) (dot u v).
Proof.
  induction ks as [|k ks IH]; intros u v HL H; cbn [flips fold_left xsumb]; [now destruct (dot u v)|].
  change (fold_left (fun u k => flipn k u) ks (flipn k u)) with (flips ks (flipn k u)).
  rewrite IH by (rewrite ?flipn_length; auto; intros k' Hk'; apply H; cbn; auto).
  rewrite dot_flipn by (auto; apply H; cbn; auto).
  now destruct (nth k v false), (xsumb (fun k0 => nth k0 v false) ks), (dot u v).
Qed.
Lemma nth_zeros n j : nth j (zeros n) false = false.
Proof. unfold zeros. revert j. induction n; intros [|j]; cbn; auto. Qed.

(* weights *)
Lemma count_true_zeros n : count_true (zeros n) = 0%nat.
Proof. unfold zeros. induction n; cbn; auto. Qed.
Lemma count_true_flipn_le k : forall u, (count_true (flipn k u) <= S (count_true u))%nat.
Proof. induction k as [|k IH]; intros [|x u]; cbn; try lia; [destruct x; cbn; lia|]. specialize (IH u). lia. Qed.
Lemma count_true_flipn_new k : forall u, (k < length u)%nat -> nth k u false = false ->
  count_true (flipn k u) = S (count_true u).
Proof.
  induction k as [|k IH]; intros [|x u] Hk Hn; cbn in *; try lia.
  - subst x. cbn. lia.
  - rewrite IH by (auto; lia). lia.
Qed.
Lemma count_true_flips_le ks : forall u, (count_true (flips ks u) <= count_true u + length ks)%nat.
Proof.
  induction ks as [|k ks IH]; intros u; cbn [flips fold_left length]; [lia|].
  change (fold_left (fun u k => flipn k u) ks (flipn k u)) with (flips ks (flipn k u)).
  specialize (IH (flipn k u)). pose proof (count_true_flipn_le k u). lia.
Qed.
Lemma count_true_flips_nodup ks : forall u, NoDup ks -> (forall k, In k ks -> (k < length u)%nat /\ nth k u false = false) ->
  count_true (flips ks u) = (count_true u + length ks)%nat.
Proof.
  induction ks as [|k ks IH]; intros u Hnd H; cbn [flips fold_left length]; [lia|].
  change (fold_left (fun u k => flipn k u) ks (flipn k u)) with (flips ks (flipn k u)).
  inversion Hnd as [|? ? Hnotin Hnd']; subst.
  destruct (H k ltac:(cbn; auto)) as [Hk Hz].
  rewrite IH; auto.
  - rewrite count_true_flipn_new by auto. lia.
  - intros k' Hk'. destruct (H k' ltac:(cbn; auto)) as [Hk'l Hk'z]. rewrite flipn_length. split; auto.
    rewrite nth_flipn by auto. rewrite Hk'z. destruct (Nat.eqb_spec k' k) as [->|]; [contradiction|reflexivity].
Qed.
Lemma orv_zeros_r u : orv u (zeros (length u)) = u.
Proof. unfold zeros. induction u as [|x u IH]; cbn; auto. now rewrite IH, orb_false_r. Qed.
Lemma orv_zeros_l u : orv (zeros (length u)) u = u.
Proof. unfold zeros. induction u as [|x u IH]; cbn; auto. now rewrite IH. Qed.
Lemma filter_len_le {A} (f : A -> bool) l : (length (filter f l) <= length l)%nat.
Proof. induction l as [|a l IH]; cbn; [lia|]. destruct (f a); cbn; lia. Qed.
Lemma NoDup_map_inj_in {A B} (f : A -> B) l :
  (forall x y, In x l -> In y l -> f x = f y -> x = y) -> NoDup l -> NoDup (map f l).
Proof.
  induction l as [|a l IH]; intros Hinj Hnd; cbn; [constructor|].
  inversion Hnd as [|? ? Hnotin Hnd']; subst. constructor.
  - intros Hin. apply in_map_iff in Hin. destruct Hin as (x & Hfx & Hx).
    assert (x = a) by (apply Hinj; cbn; auto). subst. contradiction.
  - apply IH; auto. intros x y Hx Hy. apply Hinj; cbn; auto.
Qed.

Section Dense.
Context {I : Type}.
Variables (inb : I -> bool) (fl : I -> nat) (n : nat).
(* the flat index of every in-bounds element of the list is below n *)
Definition klt (L : list I) : Prop := forall i, In i L -> inb i = true -> (fl i < n)%nat.

Definition gsite (op : pl) (i : I) (p : pauli) : pauli := if inb i then flip_op op (fl i) p else p.
Definition gsites (op : pl) (L : list I) (p : pauli) : pauli := fold_left (fun q i => gsite op i q) L p.
Definition gop (op : pl) (L : list I) : bsf := p_to_bsf (gsites op L (pzero n)).
Definition keys (L : list I) : list nat := map fl (filter inb L).

Lemma gsites_xs op L : forall p, pxs (gsites op L p) = if xbit op then flips (keys L) (pxs p) else pxs p.
Proof.
  induction L as [|i L IH]; intros p; cbn [gsites fold_left]; [unfold keys; cbn; now destruct (xbit op)|].
  change (fold_left (fun q i => gsite op i q) L (gsite op i p)) with (gsites op L (gsite op i p)).
  rewrite IH. unfold gsite, keys. cbn [filter]. destruct (inb i); cbn [map]; [|reflexivity].
  unfold flip_op. cbn [pxs]. now destruct (xbit op).
Qed.
Lemma gsites_zs op L : forall p, pzs (gsites op L p) = if zbit op then flips (keys L) (pzs p) else pzs p.
Proof.
  induction L as [|i L IH]; intros p; cbn [gsites fold_left]; [unfold keys; cbn; now destruct (zbit op)|].
  change (fold_left (fun q i => gsite op i q) L (gsite op i p)) with (gsites op L (gsite op i p)).
  rewrite IH. unfold gsite, keys. cbn [filter]. destruct (inb i); cbn [map]; [|reflexivity].
  unfold flip_op. cbn [pzs]. now destruct (zbit op).
Qed.
Lemma keys_lt L k : klt L -> In k (keys L) -> (k < n)%nat.
Proof. unfold keys. intros HL H. apply in_map_iff in H. destruct H as (i & <- & Hi). apply filter_In in Hi. now apply HL. Qed.

Definition xpart (op : pl) (L : list I) : bsf := if xbit op then flips (keys L) (zeros n) else zeros n.
Definition zpart (op : pl) (L : list I) : bsf := if zbit op then flips (keys L) (zeros n) else zeros n.
Lemma gop_parts op L : gop op L = xpart op L ++ zpart op L.
Proof. unfold gop, p_to_bsf. rewrite gsites_xs, gsites_zs. reflexivity. Qed.
Lemma xpart_length op L : length (xpart op L) = n.
Proof. unfold xpart. destruct (xbit op); rewrite ?flips_length; apply zeros_length. Qed.
Lemma zpart_length op L : length (zpart op L) = n.
Proof. unfold zpart. destruct (zbit op); rewrite ?flips_length; apply zeros_length. Qed.
Lemma gop_length op L : length (gop op L) = (n + n)%nat.
Proof. rewrite gop_parts, app_length, xpart_length, zpart_length. reflexivity. Qed.
Lemma gop_even op L : Nat.even (length (gop op L)) = true.
Proof. rewrite gop_length. replace (n + n)%nat with (2 * n)%nat by lia. apply Nat.even_spec. now exists n. Qed.

(* overlap parity of two site lists, through the flat index *)
Definition ovk (A B : list I) : bool := xsumb (fun a => xsumb (fun b => (a =? b)%nat) (keys B)) (keys A).

Lemma dot_flips_flips A B : klt A -> klt B ->
  dot (flips (keys A) (zeros n)) (flips (keys B) (zeros n)) = ovk A B.
Proof.
  intros HA HB. rewrite dot_flips.
  - rewrite dot_zeros_l, xorb_false_r. unfold ovk. apply xsumb_ext. intros a Ha.
    rewrite nth_flips by (intros k Hk; rewrite zeros_length; now apply (keys_lt B _ HB)).
    now rewrite nth_zeros, xorb_false_r.
  - now rewrite flips_length.
  - intros k Hk. rewrite zeros_length. now apply (keys_lt A _ HA).
Qed.

Theorem bsp_gop opA A opB B : klt A -> klt B ->
  bsp (gop opA A) (gop opB B) = xorb (zbit opA && xbit opB && ovk A B) (xbit opA && zbit opB && ovk A B).
Proof.
  intros HA HB. unfold bsp, swap_halves. rewrite (gop_parts opA), halves_app by now rewrite xpart_length, zpart_length.
  rewrite gop_parts, dot_app by now rewrite zpart_length, xpart_length.
  unfold xpart, zpart.
  destruct (xbit opA), (zbit opA), (xbit opB), (zbit opB); cbn [andb];
    rewrite ?dot_zeros_l, ?dot_zeros_r, ?dot_flips_flips by auto; try reflexivity;
    now destruct (ovk A B).
Qed.

(* weight of an X-type or Z-type operator *)
Lemma bsf_wt_gop op L : op <> pI -> bsf_wt (gop op L) = count_true (flips (keys L) (zeros n)).
Proof.
  intros Hop. unfold bsf_wt. rewrite gop_parts, halves_app by now rewrite xpart_length, zpart_length.
  unfold xpart, zpart.
  assert (HL : length (flips (keys L) (zeros n)) = n) by now rewrite flips_length, zeros_length.
  destruct op; cbn [xbit zbit]; try congruence.
  - rewrite <- HL at 2. now rewrite orv_zeros_r.
  - f_equal. generalize (flips (keys L) (zeros n)). intros b. induction b as [|x b IH]; cbn; auto. now rewrite IH, orb_diag.
  - rewrite <- HL at 1. now rewrite orv_zeros_l.
Qed.
Lemma bsf_wt_gop_le op L : op <> pI -> (bsf_wt (gop op L) <= length L)%nat.
Proof.
  intros Hop. rewrite bsf_wt_gop by auto. pose proof (count_true_flips_le (keys L) (zeros n)) as H.
  rewrite count_true_zeros in H. unfold keys in *. rewrite map_length in H. pose proof (filter_len_le inb L). lia.
Qed.
Lemma bsf_wt_gop_nodup op L : klt L -> op <> pI -> NoDup (keys L) -> bsf_wt (gop op L) = length (keys L).
Proof.
  intros HL Hop Hnd. rewrite bsf_wt_gop by auto. rewrite count_true_flips_nodup; auto.
  - now rewrite count_true_zeros.
  - intros k Hk. rewrite zeros_length, nth_zeros. split; [now apply (keys_lt L _ HL)|reflexivity].
Qed.
End Dense.

(* ================================================================== *)
(** * Part B — planar_flatten is a bijection onto [0, n)               *)
(* ================================================================== *)
Lemma lin_range a b R C : 0 <= a < R -> 0 <= b < C -> 0 <= a * C + b < R * C.
Proof. intros Ha Hb. nia. Qed.
Lemma lin_inj a b a' b' C : 0 <= b < C -> 0 <= b' < C -> a * C + b = a' * C + b' -> a = a' /\ b = b'.
Proof.
  intros Hb Hb' H. assert (a = a') by nia. subst a'. split; [reflexivity|lia].
Qed.

Section PlanarAll.
Variables rows cols : Z.
Hypothesis Hr : 2 <= rows.
Hypothesis Hc : 2 <= cols.

Lemma inb_unfold i : planar_is_in_bounds rows cols i =
  (((0 <=? fst i) && (fst i <=? 2 * rows - 2)) && ((0 <=? snd i) && (snd i <=? 2 * cols - 2))).
Proof. destruct i; reflexivity. Qed.
Lemma plaq_unfold i : planar_is_plaquette i = ((fst i + snd i) mod 2 =? 1).
Proof. destruct i; reflexivity. Qed.
Lemma site_unfold i : planar_is_site i = negb ((fst i + snd i) mod 2 =? 1).
Proof. destruct i; reflexivity. Qed.
Lemma primal_unfold i : planar_is_primal i =
  ((((fst i + snd i) mod 2 =? 1) && (fst i mod 2 =? 1)) || (negb ((fst i + snd i) mod 2 =? 1) && (fst i mod 2 =? 0))).
Proof. destruct i; reflexivity. Qed.
Lemma flatten_unfold r c : planar_flatten rows cols (r, c) =
  (r / 2) * (cols - c mod 2) + c / 2 + (r mod 2 * rows) * cols.
Proof. reflexivity. Qed.
Lemma n_unfold : planar_n rows cols = Z.to_nat (rows * cols + (rows - 1) * (cols - 1)).
Proof. reflexivity. Qed.

Lemma flatten_even a b : planar_flatten rows cols (2 * a, 2 * b) = a * cols + b.
Proof.
  rewrite flatten_unfold. replace (2 * a / 2) with a by lia. replace ((2 * b) mod 2) with 0 by lia.
  replace (2 * b / 2) with b by lia. replace ((2 * a) mod 2) with 0 by lia. ring.
Qed.
Lemma flatten_odd a b : planar_flatten rows cols (2 * a + 1, 2 * b + 1) = a * (cols - 1) + b + rows * cols.
Proof.
  rewrite flatten_unfold. replace ((2 * a + 1) / 2) with a by lia. replace ((2 * b + 1) mod 2) with 1 by lia.
  replace ((2 * b + 1) / 2) with b by lia. replace ((2 * a + 1) mod 2) with 1 by lia. ring.
Qed.

Definition isite (i : idx) : Prop := planar_is_site i = true /\ planar_is_in_bounds rows cols i = true.

Lemma site_cases i : isite i ->
  (exists a b, i = (2 * a, 2 * b) /\ 0 <= a < rows /\ 0 <= b < cols) \/
  (exists a b, i = (2 * a + 1, 2 * b + 1) /\ 0 <= a < rows - 1 /\ 0 <= b < cols - 1).
Proof.
  destruct i as [r c]. intros [Hs Hi]. rewrite site_unfold in Hs. rewrite inb_unfold in Hi. cbn [fst snd] in *.
  assert (Hp : r mod 2 = 0 \/ r mod 2 = 1) by lia. destruct Hp as [Hp|Hp].
  - left. exists (r / 2), (c / 2). split; [f_equal; lia|lia].
  - right. exists (r / 2), (c / 2). split; [f_equal; lia|lia].
Qed.

Theorem planar_flatten_range i : isite i ->
  0 <= planar_flatten rows cols i < Z.of_nat (planar_n rows cols).
Proof.
  intros Hi. rewrite n_unfold, Z2Nat.id by nia.
  destruct (site_cases i Hi) as [(a & b & -> & Ha & Hb)|(a & b & -> & Ha & Hb)].
  - rewrite flatten_even. pose proof (lin_range a b rows cols Ha Hb). nia.
  - rewrite flatten_odd. pose proof (lin_range a b (rows - 1) (cols - 1) Ha Hb). nia.
Qed.

Theorem planar_flatten_injective i j : isite i -> isite j ->
  planar_flatten rows cols i = planar_flatten rows cols j -> i = j.
Proof.
  intros Hi Hj.
  destruct (site_cases i Hi) as [(a & b & -> & Ha & Hb)|(a & b & -> & Ha & Hb)];
  destruct (site_cases j Hj) as [(a' & b' & -> & Ha' & Hb')|(a' & b' & -> & Ha' & Hb')];
  rewrite ?flatten_even, ?flatten_odd; intros H.
  - destruct (lin_inj a b a' b' cols Hb Hb' H) as [-> ->]. reflexivity.
  - pose proof (lin_range a b rows cols Ha Hb). pose proof (lin_range a' b' (rows - 1) (cols - 1) Ha' Hb'). lia.
  - pose proof (lin_range a b (rows - 1) (cols - 1) Ha Hb). pose proof (lin_range a' b' rows cols Ha' Hb'). lia.
  - assert (H' : a * (cols - 1) + b = a' * (cols - 1) + b') by lia.
    destruct (lin_inj a b a' b' (cols - 1) Hb Hb' H') as [-> ->]. reflexivity.
Qed.

(* the inverse map *)
Definition unflatten (k : Z) : idx :=
  if k <? rows * cols then (2 * (k / cols), 2 * (k mod cols))
  else let k' := k - rows * cols in (2 * (k' / (cols - 1)) + 1, 2 * (k' mod (cols - 1)) + 1).

Theorem planar_flatten_surjective k : 0 <= k < Z.of_nat (planar_n rows cols) ->
  isite (unflatten k) /\ planar_flatten rows cols (unflatten k) = k.
Proof.
  rewrite n_unfold, Z2Nat.id by nia. intros Hk. unfold unflatten.
  destruct (k <? rows * cols) eqn:E.
  - apply Z.ltb_lt in E.
    assert (Hq : 0 <= k / cols < rows) by (split; [apply Z.div_pos; lia|apply Z.div_lt_upper_bound; nia]).
    assert (Hm : 0 <= k mod cols < cols) by (apply Z.mod_pos_bound; lia).
    split.
    + split; [rewrite site_unfold|rewrite inb_unfold]; cbn [fst snd]; lia.
    + rewrite flatten_even. rewrite (Z.div_mod k cols) at 3 by lia. ring.
  - apply Z.ltb_ge in E. set (k' := k - rows * cols).
    assert (Hk' : 0 <= k' < (rows - 1) * (cols - 1)) by (unfold k'; lia).
    assert (Hq : 0 <= k' / (cols - 1) < rows - 1) by (split; [apply Z.div_pos; lia|apply Z.div_lt_upper_bound; nia]).
    assert (Hm : 0 <= k' mod (cols - 1) < cols - 1) by (apply Z.mod_pos_bound; lia).
    split.
    + split; [rewrite site_unfold|rewrite inb_unfold]; cbn [fst snd]; lia.
    + rewrite flatten_odd. pose proof (Z.div_mod k' (cols - 1) ltac:(lia)) as HD. unfold k' in *. lia.
Qed.

(* ================================================================== *)
(** * Part C — sparse view: counting coinciding sites                  *)
(* ================================================================== *)
Notation inb := (planar_is_in_bounds rows cols).
Definition fl (i : idx) : nat := Z.to_nat (planar_flatten rows cols i).
Notation N := (planar_n rows cols).

Lemma fl_lt i : planar_is_site i = true -> inb i = true -> (fl i < N)%nat.
Proof. intros Hs Hi. pose proof (planar_flatten_range i (conj Hs Hi)). unfold fl. lia. Qed.
Lemma fl_inj i j : isite i -> isite j -> fl i = fl j -> i = j.
Proof.
  intros Hi Hj H. apply planar_flatten_injective; auto.
  pose proof (planar_flatten_range i Hi). pose proof (planar_flatten_range j Hj). unfold fl in H. lia.
Qed.

Lemma zeqb2_eq a b : zeqb2 a b = true <-> a = b.
Proof. destruct a, b; unfold zeqb2; cbn [fst snd]. split; [intros H; f_equal; lia|intros H; injection H; lia]. Qed.
Lemma zeqb2_refl a : zeqb2 a a = true.
Proof. now apply zeqb2_eq. Qed.

Definition cnt (s : idx) (B : list idx) : Z := fold_right (fun t acc => Z.b2z (zeqb2 s t) + acc) 0 B.
Definition pairs (A B : list idx) : Z := fold_right (fun a acc => cnt a B + acc) 0 A.

Lemma cnt_cons s t B : cnt s (t :: B) = Z.b2z (zeqb2 s t) + cnt s B.
Proof. reflexivity. Qed.
Lemma cnt_app s A B : cnt s (A ++ B) = cnt s A + cnt s B.
Proof. induction A as [|a A IH]; [reflexivity|]. rewrite <- app_comm_cons, !cnt_cons, IH. lia. Qed.
Lemma pairs_cons a A B : pairs (a :: A) B = cnt a B + pairs A B.
Proof. reflexivity. Qed.
Lemma pairs_app A1 A2 B : pairs (A1 ++ A2) B = pairs A1 B + pairs A2 B.
Proof. induction A1 as [|a A IH]; [reflexivity|]. rewrite <- app_comm_cons, !pairs_cons, IH. lia. Qed.

Lemma cnt_filter f s B : cnt s (filter f B) = Z.b2z (f s) * cnt s B.
Proof.
  induction B as [|t B IH]; [cbn; lia|]. cbn [filter]. rewrite cnt_cons.
  destruct (zeqb2 s t) eqn:E.
  - apply zeqb2_eq in E. subst t. destruct (f s) eqn:Hfs.
    + rewrite cnt_cons, IH, zeqb2_refl. change (Z.b2z true) with 1. lia.
    + rewrite IH. change (Z.b2z false) with 0. lia.
  - destruct (f t).
    + rewrite cnt_cons, IH, E. change (Z.b2z false) with 0. lia.
    + rewrite IH. change (Z.b2z false) with 0. lia.
Qed.
Lemma pairs_filter f A B : pairs (filter f A) B = fold_right (fun a acc => Z.b2z (f a) * cnt a B + acc) 0 A.
Proof.
  induction A as [|a A IH]; [reflexivity|]. cbn [filter fold_right]. destruct (f a); cbn [Z.b2z].
  - rewrite pairs_cons, IH. lia.
  - rewrite IH. lia.
Qed.

(* the planar model is the generic dense model for (inb, fl, N) *)
Lemma sites_gsites op L p : sites rows cols op L p = gsites inb fl op L p.
Proof. reflexivity. Qed.
Definition sop (op : pl) (L : list idx) : bsf := p_to_bsf (sites rows cols op L (new_pauli rows cols)).
Lemma sop_gop op L : sop op L = gop inb fl N op L.
Proof. reflexivity. Qed.

Definition all_sites (L : list idx) : Prop := forall a, In a L -> planar_is_site a = true.

Lemma xsumb_map {A B} (f : B -> bool) (g : A -> B) L : xsumb f (map g L) = xsumb (fun a => f (g a)) L.
Proof. induction L as [|a L IH]; cbn; auto. now rewrite IH. Qed.

Lemma ovk_pairs A B : all_sites A -> all_sites B ->
  ovk inb fl A B = Z.odd (pairs (filter inb A) (filter inb B)).
Proof.
  intros HA HB. unfold ovk, keys. rewrite xsumb_map.
  unfold pairs. rewrite <- xsumb_odd. apply xsumb_ext. intros a Ha. apply filter_In in Ha. destruct Ha as [Ha Hia].
  rewrite xsumb_map. unfold cnt. rewrite <- xsumb_odd. apply xsumb_ext. intros b Hb. apply filter_In in Hb.
  destruct Hb as [Hb Hib].
  destruct (zeqb2 a b) eqn:E.
  - apply zeqb2_eq in E. subst b. cbn. apply Nat.eqb_refl.
  - cbn. apply Nat.eqb_neq. intros Hf. apply fl_inj in Hf; [|split; auto..]. subst b. rewrite zeqb2_refl in E. discriminate.
Qed.

Lemma klt_sites L : all_sites L -> klt inb fl N L.
Proof. intros HL i Hi Hb. apply fl_lt; auto. Qed.

Lemma odd_of_mod2_0 z : z mod 2 = 0 -> Z.odd z = false.
Proof. intros H. rewrite Zmod_odd in H. destruct (Z.odd z); [discriminate|reflexivity]. Qed.
Lemma odd_of_mod2_1 z : z mod 2 = 1 -> Z.odd z = true.
Proof. intros H. rewrite Zmod_odd in H. destruct (Z.odd z); [reflexivity|discriminate]. Qed.

Definition adj (s q : idx) : bool := (Z.abs (fst s - fst q) + Z.abs (snd s - snd q) =? 1).
Lemma cnt_nbrs s q : cnt s (plaq_sites q) = Z.b2z (adj s q).
Proof. destruct s as [a b], q as [r c]. unfold plaq_sites, adj, cnt, zeqb2. cbn [fold_right fst snd]. lia. Qed.
Lemma cnt_plaq s q : cnt s (filter inb (plaq_sites q)) = Z.b2z (inb s) * Z.b2z (adj s q).
Proof. rewrite cnt_filter, cnt_nbrs. reflexivity. Qed.

(* primal plaquette indices: odd row, even column; dual: even row, odd column *)
Definition is_pp (p : idx) : Prop := fst p mod 2 = 1 /\ snd p mod 2 = 0.
Definition is_dp (q : idx) : Prop := fst q mod 2 = 0 /\ snd q mod 2 = 1.

Lemma plaq_overlap_even p q : is_pp p -> is_dp q -> inb p = true -> inb q = true ->
  Z.odd (pairs (filter inb (plaq_sites p)) (filter inb (plaq_sites q))) = false.
Proof.
  intros [Hp1 Hp2] [Hq1 Hq2] Hip Hiq. apply odd_of_mod2_0. rewrite pairs_filter.
  destruct p as [r c], q as [r' c'].
  change (plaq_sites (r, c)) with [(r - 1, c); (r + 1, c); (r, c - 1); (r, c + 1)]. cbn [fold_right]. rewrite !cnt_plaq.
  rewrite !inb_unfold in *. unfold adj. cbn [fst snd] in *.
  assert (Hd : (r' = r + 1 \/ r' = r - 1 \/ (r' <> r + 1 /\ r' <> r - 1))) by lia.
  assert (Hd2 : (c' = c + 1 \/ c' = c - 1 \/ (c' <> c + 1 /\ c' <> c - 1))) by lia.
  destruct Hd as [-> | [-> | Hd]]; destruct Hd2 as [-> | [-> | Hd2]]; lia.
Qed.
