(* Lattice/PlanarAll.v — all-sizes (P-forall) theorems about the planar model of Lattice/Planar.v,
   for every rows, cols >= 2, against the integer kernels of Generated/LatticeArith.v.

   Part A  generic dense/sparse transfer: an operator built by `sites` from the identity is
           the parity vector of its in-bounds sites; the symplectic product of two such
           operators is the parity of the number of coinciding in-bounds sites (under an
           injective flatten); weights.
   Part B  planar_flatten is a bijection from the in-bounds sites onto [0, n).
   Part C  counting lemmas; primal/dual plaquette commutation; logicals.
   Part D  validate (planar_code rows cols) = VOk for all sizes.
   Part E  paths: syndrome of path a b = indicator of the in-lattice endpoints, weight <= distance;
           virtual plaquettes; weights of the logicals. *)
From Coq Require Import ZArith List Bool Lia ZifyBool.
From QV Require Import Core.Bits Core.Pauli Core.Symp Core.Code Generated.LatticeArith Lattice.Planar.
Import ListNotations.
Open Scope Z_scope.
Ltac Zify.zify_post_hook ::= Z.to_euclidean_division_equations.

(* ================================================================== *)
(** * Part A — generic dense/sparse transfer                           *)
(* ================================================================== *)
Fixpoint xsumb {A} (f : A -> bool) (L : list A) : bool :=
  match L with [] => false | a :: r => xorb (f a) (xsumb f r) end.
Definition flips (ks : list nat) (v : bsf) : bsf := fold_left (fun u k => flipn k u) ks v.

Lemma xsumb_app {A} (f : A -> bool) L1 L2 : xsumb f (L1 ++ L2) = xorb (xsumb f L1) (xsumb f L2).
Proof. induction L1 as [|a L IH]; cbn; [now destruct (xsumb f L2)|]. rewrite IH. now rewrite xorb_assoc. Qed.
Lemma xsumb_ext {A} (f g : A -> bool) L : (forall a, In a L -> f a = g a) -> xsumb f L = xsumb g L.
Proof. induction L as [|a L IH]; intros H; cbn; auto. rewrite H by (cbn; auto). f_equal. apply IH. intros; apply H; cbn; auto. Qed.
Lemma xsumb_false {A} (L : list A) : xsumb (fun _ => false) L = false.
Proof. induction L as [|a L IH]; cbn [xsumb]; [reflexivity|]. now rewrite IH. Qed.
Lemma xsumb_odd {A} (f : A -> Z) L : xsumb (fun a => Z.odd (f a)) L = Z.odd (fold_right (fun a acc => f a + acc) 0 L).
Proof. induction L as [|a L IH]; cbn [xsumb fold_right]; [reflexivity|]. now rewrite IH, Z.odd_add. Qed.

Lemma nth_flipn k : forall u j, (k < length u)%nat -> nth j (flipn k u) false = xorb (j =? k)%nat (nth j u false).
Proof.
  induction k as [|k IH]; intros [|x u] j Hk; cbn in Hk; try lia.
  - destruct j; cbn; [now destruct x|now destruct (nth j u false)].
  - destruct j; cbn; [now destruct x|]. apply IH. lia.
Qed.
Lemma dot_flipn k : forall u v, length u = length v -> (k < length u)%nat ->
  dot (flipn k u) v = xorb (nth k v false) (dot u v).
Proof.
  induction k as [|k IH]; intros [|x u] [|y v] HL Hk; cbn in *; try lia.
  - now destruct x, y, (dot u v).
  - rewrite IH by lia. now destruct (x && y), (nth k v false), (dot u v).
Qed.
Lemma flips_length ks : forall u, length (flips ks u) = length u.
Proof. induction ks as [|k ks IH]; intros u; cbn; auto. unfold flips in IH. now rewrite IH, flipn_length. Qed.
Lemma nth_flips ks : forall u j, (forall k, In k ks -> (k < length u)%nat) ->
  nth j (flips ks u) false = xorb (xsumb (fun k => (j =? k)%nat) ks) (nth j u false).
Proof.
  induction ks as [|k ks IH]; intros u j H; cbn [flips fold_left xsumb]; [now destruct (nth j u false)|].
  change (fold_left (fun u k => flipn k u) ks (flipn k u)) with (flips ks (flipn k u)).
  rewrite IH by (intros k' Hk'; rewrite flipn_length; apply H; cbn; auto).
  rewrite nth_flipn by (apply H; cbn; auto).
  now destruct (j =? k)%nat, (xsumb (fun k0 => (j =? k0)%nat) ks), (nth j u false).
Qed.
Lemma dot_flips ks : forall u v, length u = length v -> (forall k, In k ks -> (k < length u)%nat) ->
  dot (flips ks u) v = xorb (xsumb (fun k => nth k v false) ks) (dot u v).
Proof.
  induction ks as [|k ks IH]; intros u v HL H; cbn [flips fold_left xsumb]; [now destruct (dot u v)|].
  change (fold_left (fun u k => flipn k u) ks (flipn k u)) with (flips ks (flipn k u)).
  rewrite IH by (rewrite ?flipn_length; auto; intros k' Hk'; apply H; cbn; auto).
  rewrite dot_flipn by (auto; apply H; cbn; auto).
  now destruct (nth k v false), (xsumb (fun k0 => nth k0 v false) ks), (dot u v).
Qed.
Lemma nth_zeros n j : nth j (zeros n) false = false.
Proof. unfold zeros. revert j. induction n; intros [|j]; cbn; auto. Qed.

(* weights *)
Lemma count_true_zeros n : count_true (zeros n) = 0%nat.
Proof. unfold zeros. induction n; cbn; auto. Qed.
Lemma count_true_flipn_le k : forall u, (count_true (flipn k u) <= S (count_true u))%nat.
Proof. induction k as [|k IH]; intros [|x u]; cbn; try lia; [destruct x; cbn; lia|]. specialize (IH u). lia. Qed.
Lemma count_true_flipn_new k : forall u, (k < length u)%nat -> nth k u false = false ->
  count_true (flipn k u) = S (count_true u).
Proof.
  induction k as [|k IH]; intros [|x u] Hk Hn; cbn in *; try lia.
  - subst x. cbn. lia.
  - rewrite IH by (auto; lia). lia.
Qed.
Lemma count_true_flips_le ks : forall u, (count_true (flips ks u) <= count_true u + length ks)%nat.
Proof.
  induction ks as [|k ks IH]; intros u; cbn [flips fold_left length]; [lia|].
  change (fold_left (fun u k => flipn k u) ks (flipn k u)) with (flips ks (flipn k u)).
  specialize (IH (flipn k u)). pose proof (count_true_flipn_le k u). lia.
Qed.
Lemma count_true_flips_nodup ks : forall u, NoDup ks -> (forall k, In k ks -> (k < length u)%nat /\ nth k u false = false) ->
  count_true (flips ks u) = (count_true u + length ks)%nat.
Proof.
  induction ks as [|k ks IH]; intros u Hnd H; cbn [flips fold_left length]; [lia|].
  change (fold_left (fun u k => flipn k u) ks (flipn k u)) with (flips ks (flipn k u)).
  inversion Hnd as [|? ? Hnotin Hnd']; subst.
  destruct (H k ltac:(cbn; auto)) as [Hk Hz].
  rewrite IH; auto.
  - rewrite count_true_flipn_new by auto. lia.
  - intros k' Hk'. destruct (H k' ltac:(cbn; auto)) as [Hk'l Hk'z]. rewrite flipn_length. split; auto.
    rewrite nth_flipn by auto. rewrite Hk'z. destruct (Nat.eqb_spec k' k) as [->|]; [contradiction|reflexivity].
Qed.
Lemma orv_zeros_r u : orv u (zeros (length u)) = u.
Proof. unfold zeros. induction u as [|x u IH]; cbn; auto. now rewrite IH, orb_false_r. Qed.
Lemma orv_zeros_l u : orv (zeros (length u)) u = u.
Proof. unfold zeros. induction u as [|x u IH]; cbn; auto. now rewrite IH. Qed.
Lemma filter_len_le {A} (f : A -> bool) l : (length (filter f l) <= length l)%nat.
Proof. induction l as [|a l IH]; cbn; [lia|]. destruct (f a); cbn; lia. Qed.
Lemma NoDup_map_inj_in {A B} (f : A -> B) l :
  (forall x y, In x l -> In y l -> f x = f y -> x = y) -> NoDup l -> NoDup (map f l).
Proof.
  induction l as [|a l IH]; intros Hinj Hnd; cbn; [constructor|].
  inversion Hnd as [|? ? Hnotin Hnd']; subst. constructor.
  - intros Hin. apply in_map_iff in Hin. destruct Hin as (x & Hfx & Hx).
    assert (x = a) by (apply Hinj; cbn; auto). subst. contradiction.
  - apply IH; auto. intros x y Hx Hy. apply Hinj; cbn; auto.
Qed.

Section Dense.
Context {I : Type}.
Variables (inb : I -> bool) (fl : I -> nat) (n : nat).
(* the flat index of every in-bounds element of the list is below n *)
Definition klt (L : list I) : Prop := forall i, In i L -> inb i = true -> (fl i < n)%nat.

Definition gsite (op : pl) (i : I) (p : pauli) : pauli := if inb i then flip_op op (fl i) p else p.
Definition gsites (op : pl) (L : list I) (p : pauli) : pauli := fold_left (fun q i => gsite op i q) L p.
Definition gop (op : pl) (L : list I) : bsf := p_to_bsf (gsites op L (pzero n)).
Definition keys (L : list I) : list nat := map fl (filter inb L).

Lemma gsites_xs op L : forall p, pxs (gsites op L p) = if xbit op then flips (keys L) (pxs p) else pxs p.
Proof.
  induction L as [|i L IH]; intros p; cbn [gsites fold_left]; [unfold keys; cbn; now destruct (xbit op)|].
  change (fold_left (fun q i => gsite op i q) L (gsite op i p)) with (gsites op L (gsite op i p)).
  rewrite IH. unfold gsite, keys. cbn [filter]. destruct (inb i); cbn [map]; [|reflexivity].
  unfold flip_op. cbn [pxs]. now destruct (xbit op).
Qed.
Lemma gsites_zs op L : forall p, pzs (gsites op L p) = if zbit op then flips (keys L) (pzs p) else pzs p.
Proof.
  induction L as [|i L IH]; intros p; cbn [gsites fold_left]; [unfold keys; cbn; now destruct (zbit op)|].
  change (fold_left (fun q i => gsite op i q) L (gsite op i p)) with (gsites op L (gsite op i p)).
  rewrite IH. unfold gsite, keys. cbn [filter]. destruct (inb i); cbn [map]; [|reflexivity].
  unfold flip_op. cbn [pzs]. now destruct (zbit op).
Qed.
Lemma keys_lt L k : klt L -> In k (keys L) -> (k < n)%nat.
Proof. unfold keys. intros HL H. apply in_map_iff in H. destruct H as (i & <- & Hi). apply filter_In in Hi. now apply HL. Qed.

Definition xpart (op : pl) (L : list I) : bsf := if xbit op then flips (keys L) (zeros n) else zeros n.
Definition zpart (op : pl) (L : list I) : bsf := if zbit op then flips (keys L) (zeros n) else zeros n.
Lemma gop_parts op L : gop op L = xpart op L ++ zpart op L.
Proof. unfold gop, p_to_bsf. rewrite gsites_xs, gsites_zs. reflexivity. Qed.
Lemma xpart_length op L : length (xpart op L) = n.
Proof. unfold xpart. destruct (xbit op); rewrite ?flips_length; apply zeros_length. Qed.
Lemma zpart_length op L : length (zpart op L) = n.
Proof. unfold zpart. destruct (zbit op); rewrite ?flips_length; apply zeros_length. Qed.
Lemma gop_length op L : length (gop op L) = (n + n)%nat.
Proof. rewrite gop_parts, app_length, xpart_length, zpart_length. reflexivity. Qed.
Lemma gop_even op L : Nat.even (length (gop op L)) = true.
Proof. rewrite gop_length. replace (n + n)%nat with (2 * n)%nat by lia. apply Nat.even_spec. now exists n. Qed.

(* overlap parity of two site lists, through the flat index *)
Definition ovk (A B : list I) : bool := xsumb (fun a => xsumb (fun b => (a =? b)%nat) (keys B)) (keys A).

Lemma dot_flips_flips A B : klt A -> klt B ->
  dot (flips (keys A) (zeros n)) (flips (keys B) (zeros n)) = ovk A B.
Proof.
  intros HA HB. rewrite dot_flips.
  - rewrite dot_zeros_l, xorb_false_r. unfold ovk. apply xsumb_ext. intros a Ha.
    rewrite nth_flips by (intros k Hk; rewrite zeros_length; now apply (keys_lt B _ HB)).
    now rewrite nth_zeros, xorb_false_r.
  - now rewrite flips_length.
  - intros k Hk. rewrite zeros_length. now apply (keys_lt A _ HA).
Qed.

Theorem bsp_gop opA A opB B : klt A -> klt B ->
  bsp (gop opA A) (gop opB B) = xorb (zbit opA && xbit opB && ovk A B) (xbit opA && zbit opB && ovk A B).
Proof.
  intros HA HB. unfold bsp, swap_halves. rewrite (gop_parts opA), halves_app by now rewrite xpart_length, zpart_length.
  rewrite gop_parts, dot_app by now rewrite zpart_length, xpart_length.
  unfold xpart, zpart.
  destruct (xbit opA), (zbit opA), (xbit opB), (zbit opB); cbn [andb];
    rewrite ?dot_zeros_l, ?dot_zeros_r, ?dot_flips_flips by auto; try reflexivity;
    now destruct (ovk A B).
Qed.

(* weight of an X-type or Z-type operator *)
Lemma bsf_wt_gop op L : op <> pI -> bsf_wt (gop op L) = count_true (flips (keys L) (zeros n)).
Proof.
  intros Hop. unfold bsf_wt. rewrite gop_parts, halves_app by now rewrite xpart_length, zpart_length.
  unfold xpart, zpart.
  assert (HL : length (flips (keys L) (zeros n)) = n) by now rewrite flips_length, zeros_length.
  destruct op; cbn [xbit zbit]; try congruence.
  - rewrite <- HL at 2. now rewrite orv_zeros_r.
  - f_equal. generalize (flips (keys L) (zeros n)). intros b. induction b as [|x b IH]; cbn; auto. now rewrite IH, orb_diag.
  - rewrite <- HL at 1. now rewrite orv_zeros_l.
Qed.
Lemma bsf_wt_gop_le op L : op <> pI -> (bsf_wt (gop op L) <= length L)%nat.
Proof.
  intros Hop. rewrite bsf_wt_gop by auto. pose proof (count_true_flips_le (keys L) (zeros n)) as H.
  rewrite count_true_zeros in H. unfold keys in *. rewrite map_length in H. pose proof (filter_len_le inb L). lia.
Qed.
Lemma bsf_wt_gop_nodup op L : klt L -> op <> pI -> NoDup (keys L) -> bsf_wt (gop op L) = length (keys L).
Proof.
  intros HL Hop Hnd. rewrite bsf_wt_gop by auto. rewrite count_true_flips_nodup; auto.
  - now rewrite count_true_zeros.
  - intros k Hk. rewrite zeros_length, nth_zeros. split; [now apply (keys_lt L _ HL)|reflexivity].
Qed.
End Dense.

(* ================================================================== *)
(** * Part B — planar_flatten is a bijection onto [0, n)               *)
(* ================================================================== *)
Lemma lin_range a b R C : 0 <= a < R -> 0 <= b < C -> 0 <= a * C + b < R * C.
Proof. intros Ha Hb. nia. Qed.
Lemma lin_inj a b a' b' C : 0 <= b < C -> 0 <= b' < C -> a * C + b = a' * C + b' -> a = a' /\ b = b'.
Proof.
  intros Hb Hb' H. assert (a = a') by nia. subst a'. split; [reflexivity|lia].
Qed.

Section PlanarAll.
Variables rows cols : Z.
Hypothesis Hr : 2 <= rows.
Hypothesis Hc : 2 <= cols.

Lemma inb_unfold i : planar_is_in_bounds rows cols i =
  (((0 <=? fst i) && (fst i <=? 2 * rows - 2)) && ((0 <=? snd i) && (snd i <=? 2 * cols - 2))).
Proof. destruct i; reflexivity. Qed.
Lemma plaq_unfold i : planar_is_plaquette i = ((fst i + snd i) mod 2 =? 1).
Proof. destruct i; reflexivity. Qed.
Lemma site_unfold i : planar_is_site i = negb ((fst i + snd i) mod 2 =? 1).
Proof. destruct i; reflexivity. Qed.
Lemma primal_unfold i : planar_is_primal i =
  ((((fst i + snd i) mod 2 =? 1) && (fst i mod 2 =? 1)) || (negb ((fst i + snd i) mod 2 =? 1) && (fst i mod 2 =? 0))).
Proof. destruct i; reflexivity. Qed.
Lemma flatten_unfold r c : planar_flatten rows cols (r, c) =
  (r / 2) * (cols - c mod 2) + c / 2 + (r mod 2 * rows) * cols.
Proof. reflexivity. Qed.
Lemma n_unfold : planar_n rows cols = Z.to_nat (rows * cols + (rows - 1) * (cols - 1)).
Proof. reflexivity. Qed.

Lemma flatten_even a b : planar_flatten rows cols (2 * a, 2 * b) = a * cols + b.
Proof.
  rewrite flatten_unfold. replace (2 * a / 2) with a by lia. replace ((2 * b) mod 2) with 0 by lia.
  replace (2 * b / 2) with b by lia. replace ((2 * a) mod 2) with 0 by lia. ring.
Qed.
Lemma flatten_odd a b : planar_flatten rows cols (2 * a + 1, 2 * b + 1) = a * (cols - 1) + b + rows * cols.
Proof.
  rewrite flatten_unfold. replace ((2 * a + 1) / 2) with a by lia. replace ((2 * b + 1) mod 2) with 1 by lia.
  replace ((2 * b + 1) / 2) with b by lia. replace ((2 * a + 1) mod 2) with 1 by lia. ring.
Qed.

Definition isite (i : idx) : Prop := planar_is_site i = true /\ planar_is_in_bounds rows cols i = true.

Lemma site_cases i : isite i ->
  (exists a b, i = (2 * a, 2 * b) /\ 0 <= a < rows /\ 0 <= b < cols) \/
  (exists a b, i = (2 * a + 1, 2 * b + 1) /\ 0 <= a < rows - 1 /\ 0 <= b < cols - 1).
Proof.
  destruct i as [r c]. intros [Hs Hi]. rewrite site_unfold in Hs. rewrite inb_unfold in Hi. cbn [fst snd] in *.
  assert (Hp : r mod 2 = 0 \/ r mod 2 = 1) by lia. destruct Hp as [Hp|Hp].
  - left. exists (r / 2), (c / 2). split; [f_equal; lia|lia].
  - right. exists (r / 2), (c / 2). split; [f_equal; lia|lia].
Qed.

Theorem planar_flatten_range i : isite i ->
  0 <= planar_flatten rows cols i < Z.of_nat (planar_n rows cols).
Proof.
  intros Hi. rewrite n_unfold, Z2Nat.id by nia.
  destruct (site_cases i Hi) as [(a & b & -> & Ha & Hb)|(a & b & -> & Ha & Hb)].
  - rewrite flatten_even. pose proof (lin_range a b rows cols Ha Hb). nia.
  - rewrite flatten_odd. pose proof (lin_range a b (rows - 1) (cols - 1) Ha Hb). nia.
Qed.

Theorem planar_flatten_injective i j : isite i -> isite j ->
  planar_flatten rows cols i = planar_flatten rows cols j -> i = j.
Proof.
  intros Hi Hj.
  destruct (site_cases i Hi) as [(a & b & -> & Ha & Hb)|(a & b & -> & Ha & Hb)];
  destruct (site_cases j Hj) as [(a' & b' & -> & Ha' & Hb')|(a' & b' & -> & Ha' & Hb')];
  rewrite ?flatten_even, ?flatten_odd; intros H.
  - destruct (lin_inj a b a' b' cols Hb Hb' H) as [-> ->]. reflexivity.
  - pose proof (lin_range a b rows cols Ha Hb). pose proof (lin_range a' b' (rows - 1) (cols - 1) Ha' Hb'). lia.
  - pose proof (lin_range a b (rows - 1) (cols - 1) Ha Hb). pose proof (lin_range a' b' rows cols Ha' Hb'). lia.
  - assert (H' : a * (cols - 1) + b = a' * (cols - 1) + b') by lia.
    destruct (lin_inj a b a' b' (cols - 1) Hb Hb' H') as [-> ->]. reflexivity.
Qed.

(* the inverse map *)
Definition unflatten (k : Z) : idx :=
  if k <? rows * cols then (2 * (k / cols), 2 * (k mod cols))
  else let k' := k - rows * cols in (2 * (k' / (cols - 1)) + 1, 2 * (k' mod (cols - 1)) + 1).

Theorem planar_flatten_surjective k : 0 <= k < Z.of_nat (planar_n rows cols) ->
  isite (unflatten k) /\ planar_flatten rows cols (unflatten k) = k.
Proof.
  rewrite n_unfold, Z2Nat.id by nia. intros Hk. unfold unflatten.
  destruct (k <? rows * cols) eqn:E.
  - apply Z.ltb_lt in E.
    assert (Hq : 0 <= k / cols < rows) by (split; [apply Z.div_pos; lia|apply Z.div_lt_upper_bound; nia]).
    assert (Hm : 0 <= k mod cols < cols) by (apply Z.mod_pos_bound; lia).
    split.
    + split; [rewrite site_unfold|rewrite inb_unfold]; cbn [fst snd]; lia.
    + rewrite flatten_even. rewrite (Z.div_mod k cols) at 3 by lia. ring.
  - apply Z.ltb_ge in E. set (k' := k - rows * cols).
    assert (Hk' : 0 <= k' < (rows - 1) * (cols - 1)) by (unfold k'; lia).
    assert (Hq : 0 <= k' / (cols - 1) < rows - 1) by (split; [apply Z.div_pos; lia|apply Z.div_lt_upper_bound; nia]).
    assert (Hm : 0 <= k' mod (cols - 1) < cols - 1) by (apply Z.mod_pos_bound; lia).
    split.
    + split; [rewrite site_unfold|rewrite inb_unfold]; cbn [fst snd]; lia.
    + rewrite flatten_odd. pose proof (Z.div_mod k' (cols - 1) ltac:(lia)) as HD. unfold k' in *. lia.
Qed.

(* ================================================================== *)
(** * Part C — sparse view: counting coinciding sites                  *)
(* ================================================================== *)
Notation inb := (planar_is_in_bounds rows cols).
Definition fl (i : idx) : nat := Z.to_nat (planar_flatten rows cols i).
Notation N := (planar_n rows cols).

Lemma fl_lt i : planar_is_site i = true -> inb i = true -> (fl i < N)%nat.
Proof. intros Hs Hi. pose proof (planar_flatten_range i (conj Hs Hi)). unfold fl. lia. Qed.
Lemma fl_inj i j : isite i -> isite j -> fl i = fl j -> i = j.
Proof.
  intros Hi Hj H. apply planar_flatten_injective; auto.
  pose proof (planar_flatten_range i Hi). pose proof (planar_flatten_range j Hj). unfold fl in H. lia.
Qed.

Lemma zeqb2_eq a b : zeqb2 a b = true <-> a = b.
Proof. destruct a, b; unfold zeqb2; cbn [fst snd]. split; [intros H; f_equal; lia|intros H; injection H; lia]. Qed.
Lemma zeqb2_refl a : zeqb2 a a = true.
Proof. now apply zeqb2_eq. Qed.

Definition cnt (s : idx) (B : list idx) : Z := fold_right (fun t acc => Z.b2z (zeqb2 s t) + acc) 0 B.
Definition pairs (A B : list idx) : Z := fold_right (fun a acc => cnt a B + acc) 0 A.

Lemma cnt_cons s t B : cnt s (t :: B) = Z.b2z (zeqb2 s t) + cnt s B.
Proof. reflexivity. Qed.
Lemma cnt_app s A B : cnt s (A ++ B) = cnt s A + cnt s B.
Proof. induction A as [|a A IH]; [reflexivity|]. rewrite <- app_comm_cons, !cnt_cons, IH. lia. Qed.
Lemma pairs_cons a A B : pairs (a :: A) B = cnt a B + pairs A B.
Proof. reflexivity. Qed.
Lemma pairs_app A1 A2 B : pairs (A1 ++ A2) B = pairs A1 B + pairs A2 B.
Proof. induction A1 as [|a A IH]; [reflexivity|]. rewrite <- app_comm_cons, !pairs_cons, IH. lia. Qed.

Lemma cnt_filter f s B : cnt s (filter f B) = Z.b2z (f s) * cnt s B.
Proof.
  induction B as [|t B IH]; [cbn; lia|]. cbn [filter]. rewrite cnt_cons.
  destruct (zeqb2 s t) eqn:E.
  - apply zeqb2_eq in E. subst t. destruct (f s) eqn:Hfs.
    + rewrite cnt_cons, IH, zeqb2_refl. change (Z.b2z true) with 1. lia.
    + rewrite IH. change (Z.b2z false) with 0. lia.
  - destruct (f t).
    + rewrite cnt_cons, IH, E. change (Z.b2z false) with 0. lia.
    + rewrite IH. change (Z.b2z false) with 0. lia.
Qed.
Lemma pairs_filter f A B : pairs (filter f A) B = fold_right (fun a acc => Z.b2z (f a) * cnt a B + acc) 0 A.
Proof.
  induction A as [|a A IH]; [reflexivity|]. cbn [filter fold_right]. destruct (f a); cbn [Z.b2z].
  - rewrite pairs_cons, IH. lia.
  - rewrite IH. lia.
Qed.

(* the planar model is the generic dense model for (inb, fl, N) *)
Lemma sites_gsites op L p : sites rows cols op L p = gsites inb fl op L p.
Proof. reflexivity. Qed.
Definition sop (op : pl) (L : list idx) : bsf := p_to_bsf (sites rows cols op L (new_pauli rows cols)).
Lemma sop_gop op L : sop op L = gop inb fl N op L.
Proof. reflexivity. Qed.

Definition all_sites (L : list idx) : Prop := forall a, In a L -> planar_is_site a = true.

Lemma xsumb_map {A B} (f : B -> bool) (g : A -> B) L : xsumb f (map g L) = xsumb (fun a => f (g a)) L.
Proof. induction L as [|a L IH]; cbn; auto. now rewrite IH. Qed.

Lemma ovk_pairs A B : all_sites A -> all_sites B ->
  ovk inb fl A B = Z.odd (pairs (filter inb A) (filter inb B)).
Proof.
  intros HA HB. unfold ovk, keys. rewrite xsumb_map.
  unfold pairs. rewrite <- xsumb_odd. apply xsumb_ext. intros a Ha. apply filter_In in Ha. destruct Ha as [Ha Hia].
  rewrite xsumb_map. unfold cnt. rewrite <- xsumb_odd. apply xsumb_ext. intros b Hb. apply filter_In in Hb.
  destruct Hb as [Hb Hib].
  destruct (zeqb2 a b) eqn:E.
  - apply zeqb2_eq in E. subst b. cbn. apply Nat.eqb_refl.
  - cbn. apply Nat.eqb_neq. intros Hf. apply fl_inj in Hf; [|split; auto..]. subst b. rewrite zeqb2_refl in E. discriminate.
Qed.

Lemma klt_sites L : all_sites L -> klt inb fl N L.
Proof. intros HL i Hi Hb. apply fl_lt; auto. Qed.

Lemma odd_of_mod2_0 z : z mod 2 = 0 -> Z.odd z = false.
Proof. intros H. rewrite Zmod_odd in H. destruct (Z.odd z); [discriminate|reflexivity]. Qed.
Lemma odd_of_mod2_1 z : z mod 2 = 1 -> Z.odd z = true.
Proof. intros H. rewrite Zmod_odd in H. destruct (Z.odd z); [reflexivity|discriminate]. Qed.

Lemma b2z_mul a b : Z.b2z a * Z.b2z b = Z.b2z (a && b).
Proof. now destruct a, b. Qed.

Definition adj (s q : idx) : bool := (Z.abs (fst s - fst q) + Z.abs (snd s - snd q) =? 1).
Lemma cnt_nbrs s q : cnt s (plaq_sites q) = Z.b2z (adj s q).
Proof. destruct s as [a b], q as [r c]. unfold plaq_sites, adj, cnt, zeqb2. cbn [fold_right fst snd]. lia. Qed.
Lemma cnt_plaq s q : cnt s (filter inb (plaq_sites q)) = Z.b2z (inb s) * Z.b2z (adj s q).
Proof. rewrite cnt_filter, cnt_nbrs. reflexivity. Qed.

(* primal plaquette indices: odd row, even column; dual: even row, odd column *)
Definition is_pp (p : idx) : Prop := fst p mod 2 = 1 /\ snd p mod 2 = 0.
Definition is_dp (q : idx) : Prop := fst q mod 2 = 0 /\ snd q mod 2 = 1.

Lemma plaq_overlap_even p q : is_pp p -> is_dp q -> inb p = true -> inb q = true ->
  Z.odd (pairs (filter inb (plaq_sites p)) (filter inb (plaq_sites q))) = false.
Proof.
  intros [Hp1 Hp2] [Hq1 Hq2] Hip Hiq. apply odd_of_mod2_0. rewrite pairs_filter.
  destruct p as [r c], q as [r' c'].
  change (plaq_sites (r, c)) with [(r - 1, c); (r + 1, c); (r, c - 1); (r, c + 1)]. cbn [fold_right]. rewrite !cnt_plaq.
  rewrite !b2z_mul, !andb_assoc, !andb_diag.
  rewrite !inb_unfold in *. unfold adj. cbn [fst snd] in *.
  assert (Hd : (r' = r + 1 \/ r' = r - 1 \/ (r' <> r + 1 /\ r' <> r - 1))) by lia.
  assert (Hd2 : (c' = c + 1 \/ c' = c - 1 \/ (c' <> c + 1 /\ c' <> c - 1))) by lia.
  destruct Hd as [-> | [-> | Hd]]; destruct Hd2 as [-> | [-> | Hd2]]; lia.
Qed.

(* ---- the logical operators' site lists ---- *)
Lemma lx_sites_eq : logical_x_sites rows cols = map (fun i => (2 * Z.of_nat i, 2 * cols - 2)) (seq 0 (Z.to_nat rows)).
Proof.
  unfold logical_x_sites, planar_bounds, range2. rewrite map_map.
  replace ((2 * rows - 2 + 1 + 1) / 2) with rows by lia. reflexivity.
Qed.
Lemma lz_sites_eq : logical_z_sites rows cols = map (fun i => (2 * rows - 2, 2 * Z.of_nat i)) (seq 0 (Z.to_nat cols)).
Proof.
  unfold logical_z_sites, planar_bounds, range2. rewrite map_map.
  replace ((2 * cols - 2 + 1 + 1) / 2) with cols by lia. reflexivity.
Qed.
Lemma cnt_col s C m : cnt s (map (fun i => (2 * Z.of_nat i, C)) (seq 0 m)) =
  Z.b2z ((snd s =? C) && (fst s mod 2 =? 0) && (0 <=? fst s) && (fst s <? 2 * Z.of_nat m)).
Proof.
  induction m as [|m IH]; [cbn; lia|]. rewrite seq_S, map_app, cnt_app, IH. cbn [map Nat.add]. rewrite cnt_cons.
  destruct s as [a b]. unfold zeqb2, cnt. cbn [fst snd fold_right]. lia.
Qed.
Lemma cnt_row s R m : cnt s (map (fun i => (R, 2 * Z.of_nat i)) (seq 0 m)) =
  Z.b2z ((fst s =? R) && (snd s mod 2 =? 0) && (0 <=? snd s) && (snd s <? 2 * Z.of_nat m)).
Proof.
  induction m as [|m IH]; [cbn; lia|]. rewrite seq_S, map_app, cnt_app, IH. cbn [map Nat.add]. rewrite cnt_cons.
  destruct s as [a b]. unfold zeqb2, cnt. cbn [fst snd fold_right]. lia.
Qed.
Lemma cnt_lx s : cnt s (logical_x_sites rows cols) =
  Z.b2z ((snd s =? 2 * cols - 2) && (fst s mod 2 =? 0) && (0 <=? fst s) && (fst s <? 2 * rows)).
Proof. rewrite lx_sites_eq, cnt_col, Z2Nat.id by lia. reflexivity. Qed.
Lemma cnt_lz s : cnt s (logical_z_sites rows cols) =
  Z.b2z ((fst s =? 2 * rows - 2) && (snd s mod 2 =? 0) && (0 <=? snd s) && (snd s <? 2 * cols)).
Proof. rewrite lz_sites_eq, cnt_row, Z2Nat.id by lia. reflexivity. Qed.

Lemma plaq_lx_even p : is_pp p -> inb p = true ->
  Z.odd (pairs (filter inb (plaq_sites p)) (filter inb (logical_x_sites rows cols))) = false.
Proof.
  intros [Hp1 Hp2] Hip. apply odd_of_mod2_0. rewrite pairs_filter. destruct p as [r c].
  change (plaq_sites (r, c)) with [(r - 1, c); (r + 1, c); (r, c - 1); (r, c + 1)]. cbn [fold_right].
  rewrite !cnt_filter, !cnt_lx, !b2z_mul, !andb_assoc, !andb_diag.
  rewrite !inb_unfold in *. cbn [fst snd] in *. lia.
Qed.
Lemma plaq_lz_even q : is_dp q -> inb q = true ->
  Z.odd (pairs (filter inb (plaq_sites q)) (filter inb (logical_z_sites rows cols))) = false.
Proof.
  intros [Hq1 Hq2] Hiq. apply odd_of_mod2_0. rewrite pairs_filter. destruct q as [r c].
  change (plaq_sites (r, c)) with [(r - 1, c); (r + 1, c); (r, c - 1); (r, c + 1)]. cbn [fold_right].
  rewrite !cnt_filter, !cnt_lz, !b2z_mul, !andb_assoc, !andb_diag.
  rewrite !inb_unfold in *. cbn [fst snd] in *. lia.
Qed.

Lemma pairs_zero A B : (forall a, In a A -> cnt a B = 0) -> pairs A B = 0.
Proof. induction A as [|a A IH]; intros H; [reflexivity|]. rewrite pairs_cons, H, IH by (cbn; auto; intros; apply H; cbn; auto). reflexivity. Qed.

Lemma lx_lz_odd : Z.odd (pairs (filter inb (logical_x_sites rows cols)) (filter inb (logical_z_sites rows cols))) = true.
Proof.
  rewrite lx_sites_eq. replace (Z.to_nat rows) with (S (Z.to_nat (rows - 1))) by lia.
  rewrite seq_S, map_app, filter_app, pairs_app. cbn [map Nat.add].
  rewrite pairs_zero.
  - replace (Z.of_nat (Z.to_nat (rows - 1))) with (rows - 1) by lia.
    assert (Hin : inb (2 * (rows - 1), 2 * cols - 2) = true) by (rewrite inb_unfold; cbn [fst snd]; lia).
    cbn [filter]. rewrite Hin, pairs_cons. cbn [pairs fold_right]. rewrite cnt_filter, cnt_lz, Hin. cbn [fst snd].
    apply odd_of_mod2_1. lia.
  - intros a Ha. apply filter_In in Ha. destruct Ha as [Ha _]. apply in_map_iff in Ha. destruct Ha as (i & <- & Hi).
    apply in_seq in Hi. rewrite cnt_filter, cnt_lz. cbn [fst snd]. lia.
Qed.

(* ================================================================== *)
(** * Part D — the code is valid for every size                        *)
(* ================================================================== *)
Lemma in_ndindex2 R C r c : In (r, c) (ndindex2 R C) <-> 0 <= r < R /\ 0 <= c < C.
Proof.
  unfold ndindex2. rewrite in_flat_map. split.
  - intros (x & Hx & H). apply in_map_iff in H. destruct H as (y & Heq & Hy). injection Heq as <- <-.
    apply in_seq in Hx, Hy. lia.
  - intros [H1 H2]. exists (Z.to_nat r). split; [apply in_seq; lia|]. apply in_map_iff. exists (Z.to_nat c).
    split; [f_equal; lia|apply in_seq; lia].
Qed.

Lemma in_plaquette_indices q : In q (plaquette_indices rows cols) <-> planar_is_plaquette q = true /\ inb q = true.
Proof.
  unfold plaquette_indices. change (planar_bounds rows cols) with (2 * rows - 2, 2 * cols - 2).
  rewrite in_app_iff, !filter_In. destruct q as [r c]. rewrite in_ndindex2, inb_unfold. cbn [fst snd].
  destruct (planar_is_primal (r, c)), (planar_is_plaquette (r, c)); cbn [negb]; intuition lia.
Qed.

Lemma pp_of_primal q : planar_is_plaquette q = true -> planar_is_primal q = true -> is_pp q.
Proof. rewrite plaq_unfold, primal_unfold. unfold is_pp. destruct q as [r c]. cbn [fst snd]. lia. Qed.
Lemma dp_of_dual q : planar_is_plaquette q = true -> planar_is_primal q = false -> is_dp q.
Proof. rewrite plaq_unfold, primal_unfold. unfold is_dp. destruct q as [r c]. cbn [fst snd]. lia. Qed.

Lemma plaq_sites_sites q : planar_is_plaquette q = true -> all_sites (plaq_sites q).
Proof.
  intros Hq a Ha. destruct q as [r c]. rewrite plaq_unfold in Hq. cbn [fst snd] in Hq.
  cbn in Ha. rewrite site_unfold.
  destruct Ha as [<-|[<-|[<-|[<-|[]]]]]; cbn [fst snd]; lia.
Qed.
Lemma lx_sites_sites : all_sites (logical_x_sites rows cols).
Proof.
  intros a Ha. rewrite lx_sites_eq in Ha. apply in_map_iff in Ha. destruct Ha as (i & <- & _).
  rewrite site_unfold. cbn [fst snd]. lia.
Qed.
Lemma lz_sites_sites : all_sites (logical_z_sites rows cols).
Proof.
  intros a Ha. rewrite lz_sites_eq in Ha. apply in_map_iff in Ha. destruct Ha as (i & <- & _).
  rewrite site_unfold. cbn [fst snd]. lia.
Qed.

Theorem bsp_sop opA A opB B : all_sites A -> all_sites B ->
  bsp (sop opA A) (sop opB B) =
  let P := Z.odd (pairs (filter inb A) (filter inb B)) in
  xorb (zbit opA && xbit opB && P) (xbit opA && zbit opB && P).
Proof.
  intros HA HB. change (sop opA A) with (gop inb fl N opA A). change (sop opB B) with (gop inb fl N opB B).
  rewrite bsp_gop by now apply klt_sites. now rewrite ovk_pairs.
Qed.
Lemma sop_length op L : length (sop op L) = (N + N)%nat.
Proof. rewrite sop_gop. apply gop_length. Qed.
Lemma bsp_sop_sym opA A opB B : bsp (sop opA A) (sop opB B) = bsp (sop opB B) (sop opA A).
Proof. apply bsp_sym; [now rewrite !sop_length|rewrite sop_gop; apply gop_even]. Qed.

Definition stab (q : idx) : bsf := sop (plaq_op q) (plaq_sites q).
Definition lxop : bsf := sop pX (logical_x_sites rows cols).
Definition lzop : bsf := sop pZ (logical_z_sites rows cols).
Lemma stabilizers_eq : stabilizers rows cols = map stab (plaquette_indices rows cols).
Proof. reflexivity. Qed.
Lemma code_eq : planar_code rows cols = mkCode (map stab (plaquette_indices rows cols)) [lxop] [lzop].
Proof. reflexivity. Qed.

Lemma stab_commute_pd p q : In p (plaquette_indices rows cols) -> In q (plaquette_indices rows cols) ->
  planar_is_primal p = true -> planar_is_primal q = false -> bsp (stab p) (stab q) = false.
Proof.
  intros Hp Hq Pp Pq. apply in_plaquette_indices in Hp, Hq. destruct Hp as [Hp1 Hp2], Hq as [Hq1 Hq2].
  unfold stab, plaq_op. rewrite Pp, Pq. rewrite bsp_sop by now apply plaq_sites_sites. cbv zeta. cbn [xbit zbit andb].
  rewrite plaq_overlap_even; auto using pp_of_primal, dp_of_dual.
Qed.

Theorem planar_stabilizers_commute p q :
  In p (plaquette_indices rows cols) -> In q (plaquette_indices rows cols) -> bsp (stab p) (stab q) = false.
Proof.
  intros Hp Hq. destruct (planar_is_primal p) eqn:Pp, (planar_is_primal q) eqn:Pq.
  - pose proof (proj1 (in_plaquette_indices p) Hp) as [Hp1 _]. pose proof (proj1 (in_plaquette_indices q) Hq) as [Hq1 _].
    unfold stab, plaq_op. rewrite Pp, Pq, bsp_sop by now apply plaq_sites_sites. reflexivity.
  - now apply stab_commute_pd.
  - unfold stab. rewrite bsp_sop_sym. now apply stab_commute_pd.
  - pose proof (proj1 (in_plaquette_indices p) Hp) as [Hp1 _]. pose proof (proj1 (in_plaquette_indices q) Hq) as [Hq1 _].
    unfold stab, plaq_op. rewrite Pp, Pq, bsp_sop by now apply plaq_sites_sites. reflexivity.
Qed.

Theorem planar_stabilizer_logical_x p : In p (plaquette_indices rows cols) -> bsp (stab p) lxop = false.
Proof.
  intros Hp. pose proof (proj1 (in_plaquette_indices p) Hp) as [Hp1 Hp2]. unfold stab, lxop, plaq_op.
  rewrite bsp_sop by (auto using plaq_sites_sites, lx_sites_sites). cbv zeta.
  destruct (planar_is_primal p) eqn:Pp; cbn [xbit zbit andb]; [|reflexivity].
  rewrite plaq_lx_even; auto using pp_of_primal.
Qed.
Theorem planar_stabilizer_logical_z p : In p (plaquette_indices rows cols) -> bsp (stab p) lzop = false.
Proof.
  intros Hp. pose proof (proj1 (in_plaquette_indices p) Hp) as [Hp1 Hp2]. unfold stab, lzop, plaq_op.
  rewrite bsp_sop by (auto using plaq_sites_sites, lz_sites_sites). cbv zeta.
  destruct (planar_is_primal p) eqn:Pp; cbn [xbit zbit andb]; [reflexivity|].
  rewrite plaq_lz_even; auto using dp_of_dual.
Qed.
Theorem planar_logicals_anticommute : bsp lxop lzop = true /\ bsp lzop lxop = true /\ bsp lxop lxop = false /\ bsp lzop lzop = false.
Proof.
  assert (H : bsp lxop lzop = true).
  { unfold lxop, lzop. rewrite bsp_sop by (auto using lx_sites_sites, lz_sites_sites). cbv zeta. cbn [xbit zbit andb].
    now rewrite lx_lz_odd. }
  split; [exact H|]. split; [unfold lxop, lzop in *; now rewrite bsp_sop_sym|].
  unfold lxop, lzop. rewrite !bsp_sop by (auto using lx_sites_sites, lz_sites_sites). cbv zeta. cbn [xbit zbit andb].
  split; reflexivity.
Qed.

Theorem planar_valid_all : validate (planar_code rows cols) = VOk.
Proof.
  apply validate_iff_canonical; [reflexivity|]. rewrite code_eq. cbn [stabs lxs lzs logicals]. split; [|split].
  - intros s s' Hs Hs'. apply in_map_iff in Hs, Hs'. destruct Hs as (p & <- & Hp), Hs' as (q & <- & Hq).
    now apply planar_stabilizers_commute.
  - intros s l Hs Hl. apply in_map_iff in Hs. destruct Hs as (p & <- & Hp).
    cbn in Hl. destruct Hl as [<-|[<-|[]]]; [now apply planar_stabilizer_logical_x|now apply planar_stabilizer_logical_z].
  - intros i j Hi Hj. cbn in Hi, Hj. assert (i = 0%nat) by lia. assert (j = 0%nat) by lia. subst. cbn [nth Nat.eqb].
    destruct planar_logicals_anticommute as (H1 & H2 & H3 & H4). auto.
Qed.

(* ================================================================== *)
(** * Part E — paths                                                   *)
(* ================================================================== *)
Definition wsum (L : list idx) (q : idx) : Z :=
  fold_right (fun a acc => Z.b2z (inb a) * cnt a (filter inb (plaq_sites q)) + acc) 0 L.
Lemma pairs_wsum L q : pairs (filter inb L) (filter inb (plaq_sites q)) = wsum L q.
Proof. apply pairs_filter. Qed.
Lemma wsum_app L1 L2 q : wsum (L1 ++ L2) q = wsum L1 q + wsum L2 q.
Proof. unfold wsum. induction L1 as [|a L IH]; cbn [app fold_right]; [lia|]. rewrite IH. lia. Qed.
Lemma wsum_cons a L q : wsum (a :: L) q = Z.b2z (inb a) * cnt a (filter inb (plaq_sites q)) + wsum L q.
Proof. reflexivity. Qed.

Definition dir (d : idx) : Prop := d = (-1, 0) \/ d = (1, 0) \/ d = (0, -1) \/ d = (0, 1).
(* plaquette-type index; two indices of the same lattice; the strip in which real and virtual plaquettes live *)
Definition ptype (x : idx) : Prop := (fst x + snd x) mod 2 = 1.
Definition same_type (x y : idx) : Prop := fst x mod 2 = fst y mod 2 /\ snd x mod 2 = snd y mod 2.
Definition instrip (x : idx) : Prop :=
  (fst x mod 2 = 1 -> 0 <= snd x <= 2 * cols - 2) /\ (fst x mod 2 = 0 -> 0 <= fst x <= 2 * rows - 2).

Lemma walk_end_eq k : forall d cur,
  walk_end k d cur = (fst cur + 2 * Z.of_nat k * fst d, snd cur + 2 * Z.of_nat k * snd d).
Proof.
  induction k as [|k IH]; intros d cur.
  - cbn [walk_end]. change (Z.of_nat 0) with 0. destruct cur as [x y]. cbn [fst snd]. f_equal; lia.
  - cbn [walk_end]. rewrite IH. cbn [fst snd]. f_equal; lia.
Qed.

Lemma step_sem r c dr dc q : dir (dr, dc) -> ptype (r, c) -> ptype q -> same_type q (r, c) -> inb q = true ->
  instrip (r, c) -> instrip (r + 2 * dr, c + 2 * dc) ->
  Z.b2z (inb (r + dr, c + dc)) * cnt (r + dr, c + dc) (filter inb (plaq_sites q)) =
  Z.b2z (zeqb2 q (r, c)) + Z.b2z (zeqb2 q (r + 2 * dr, c + 2 * dc)).
Proof.
  intros Hd Hpc Hq [Hs1 Hs2] Hi [Ha1 Ha2] [Hb1 Hb2]. rewrite cnt_plaq, !b2z_mul, andb_assoc, andb_diag.
  destruct q as [qr qc]. unfold ptype, adj, zeqb2 in *. rewrite !inb_unfold in *. cbn [fst snd] in *.
  destruct Hd as [Hd|[Hd|[Hd|Hd]]]; injection Hd as -> ->.
  - assert (Hcase : qc = c \/ qc <> c) by lia. destruct Hcase as [-> | Hne]; [|lia].
    assert (Hc2 : qr = r \/ qr = r - 2 \/ (qr <> r /\ qr <> r - 2)) by lia. destruct Hc2 as [-> | [-> | Hc2]]; lia.
  - assert (Hcase : qc = c \/ qc <> c) by lia. destruct Hcase as [-> | Hne]; [|lia].
    assert (Hc2 : qr = r \/ qr = r + 2 \/ (qr <> r /\ qr <> r + 2)) by lia. destruct Hc2 as [-> | [-> | Hc2]]; lia.
  - assert (Hcase : qr = r \/ qr <> r) by lia. destruct Hcase as [-> | Hne]; [|lia].
    assert (Hc2 : qc = c \/ qc = c - 2 \/ (qc <> c /\ qc <> c - 2)) by lia. destruct Hc2 as [-> | [-> | Hc2]]; lia.
  - assert (Hcase : qr = r \/ qr <> r) by lia. destruct Hcase as [-> | Hne]; [|lia].
    assert (Hc2 : qc = c \/ qc = c + 2 \/ (qc <> c /\ qc <> c + 2)) by lia. destruct Hc2 as [-> | [-> | Hc2]]; lia.
Qed.

Lemma walk_sem k : forall r c dr dc q, dir (dr, dc) -> ptype (r, c) -> ptype q -> same_type q (r, c) -> inb q = true ->
  instrip (r, c) -> instrip (walk_end k (dr, dc) (r, c)) ->
  (wsum (walk k (dr, dc) (r, c)) q) mod 2 =
  (Z.b2z (zeqb2 q (r, c)) + Z.b2z (zeqb2 q (walk_end k (dr, dc) (r, c)))) mod 2.
Proof.
  induction k as [|k IH]; intros r c dr dc q Hd Hpc Hq Hs Hi Ha Hb.
  - cbn [walk walk_end wsum fold_right]. destruct (zeqb2 q (r, c)); reflexivity.
  - cbn [walk walk_end fst snd]. rewrite wsum_cons.
    assert (Hmid : instrip (r + 2 * dr, c + 2 * dc)).
    { rewrite walk_end_eq in Hb. unfold instrip in *. cbn [fst snd] in *.
      destruct Hd as [Hd|[Hd|[Hd|Hd]]]; injection Hd as -> ->; lia. }
    rewrite (step_sem r c dr dc q Hd Hpc Hq Hs Hi Ha Hmid).
    assert (Hpc' : ptype (r + 2 * dr, c + 2 * dc)) by (unfold ptype in *; cbn [fst snd] in *; lia).
    assert (Hs' : same_type q (r + 2 * dr, c + 2 * dc)) by (unfold same_type in *; cbn [fst snd] in *; lia).
    specialize (IH (r + 2 * dr) (c + 2 * dc) dr dc q Hd Hpc' Hq Hs' Hi Hmid Hb).
    set (A := Z.b2z (zeqb2 q (r, c))) in *. set (B := Z.b2z (zeqb2 q (r + 2 * dr, c + 2 * dc))) in *.
    set (C := Z.b2z (zeqb2 q (walk_end k (dr, dc) (r + 2 * dr, c + 2 * dc)))) in *.
    set (W := wsum (walk k (dr, dc) (r + 2 * dr, c + 2 * dc)) q) in *. clearbody A B C W. lia.
Qed.

Lemma odd_xorb x A B : x mod 2 = (Z.b2z A + Z.b2z B) mod 2 -> Z.odd x = xorb A B.
Proof. intros H. rewrite Zmod_odd in H. destruct A, B, (Z.odd x); cbn in H; try reflexivity; discriminate. Qed.

(* what planar_translation returns on two same-type plaquette indices *)
Lemma translation_cases a b : ptype a -> ptype b -> same_type a b ->
  exists rs cs, planar_translation rows cols a b = Some (rs, cs) /\
    ((inb a = false /\ inb b = false /\ rs = 0 /\ cs = 0) \/
     ((inb a = true \/ inb b = true) /\ fst b = fst a + 2 * rs /\ snd b = snd a + 2 * cs)).
Proof.
  intros Ha Hb [Hs1 Hs2]. destruct a as [ar ac], b as [br bc]. unfold ptype in *. cbn [fst snd] in *.
  unfold planar_translation.
  assert (Hpa : planar_is_plaquette (ar, ac) = true) by (rewrite plaq_unfold; cbn [fst snd]; lia).
  assert (Hpb : planar_is_plaquette (br, bc) = true) by (rewrite plaq_unfold; cbn [fst snd]; lia).
  assert (Hpp : Bool.eqb (planar_is_primal (ar, ac)) (planar_is_primal (br, bc)) = true).
  { rewrite !primal_unfold. cbn [fst snd]. apply eqb_true_iff. lia. }
  rewrite Hpa, Hpb, Hpp. cbn [negb].
  destruct (planar_is_in_bounds rows cols (ar, ac)) eqn:Ea, (planar_is_in_bounds rows cols (br, bc)) eqn:Eb; cbn [negb andb].
  - exists ((br - ar) / 2), ((bc - ac) / 2). split; [reflexivity|]. right. cbn [fst snd]. lia.
  - exists ((br - ar) / 2), ((bc - ac) / 2). split; [reflexivity|]. right. cbn [fst snd]. lia.
  - exists ((br - ar) / 2), ((bc - ac) / 2). split; [reflexivity|]. right. cbn [fst snd]. lia.
  - exists 0, 0. split; [reflexivity|]. left. auto.
Qed.

Lemma path_sites_wsum a rs cs q : ptype a -> ptype q -> same_type q a -> inb q = true ->
  instrip a -> instrip (fst a + 2 * rs, snd a + 2 * cs) ->
  (wsum (path_sites a rs cs) q) mod 2 =
  (Z.b2z (zeqb2 q a) + Z.b2z (zeqb2 q (fst a + 2 * rs, snd a + 2 * cs))) mod 2.
Proof.
  intros Ha Hq Hs Hi Hsa Hsb. destruct a as [r c]. cbn [fst snd] in *. unfold path_sites.
  rewrite !wsum_app.
  set (kn := Z.to_nat (- rs)). set (ks := Z.to_nat rs). set (kw := Z.to_nat (- cs)). set (ke := Z.to_nat cs).
  set (c1 := walk_end kn (-1, 0) (r, c)). set (c2 := walk_end ks (1, 0) c1). set (c3 := walk_end kw (0, -1) c2).
  assert (E1 : c1 = (r - 2 * Z.of_nat kn, c)) by (unfold c1; rewrite walk_end_eq; cbn [fst snd]; f_equal; lia).
  assert (E2 : c2 = (r + 2 * rs, c)) by (unfold c2; rewrite walk_end_eq, E1; cbn [fst snd]; f_equal; lia).
  assert (E3 : c3 = (r + 2 * rs, c - 2 * Z.of_nat kw)) by (unfold c3; rewrite walk_end_eq, E2; cbn [fst snd]; f_equal; lia).
  assert (E4 : walk_end ke (0, 1) c3 = (r + 2 * rs, c + 2 * cs)) by (rewrite walk_end_eq, E3; cbn [fst snd]; f_equal; lia).
  assert (T1 : ptype c1 /\ same_type q c1 /\ instrip c1).
  { rewrite E1. unfold ptype, same_type, instrip in *. cbn [fst snd] in *. lia. }
  assert (T2 : ptype c2 /\ same_type q c2 /\ instrip c2).
  { rewrite E2. unfold ptype, same_type, instrip in *. cbn [fst snd] in *. lia. }
  assert (T3 : ptype c3 /\ same_type q c3 /\ instrip c3).
  { rewrite E3. unfold ptype, same_type, instrip in *. cbn [fst snd] in *. lia. }
  destruct T1 as (P1 & S1 & I1), T2 as (P2 & S2 & I2), T3 as (P3 & S3 & I3).
  pose proof (walk_sem kn r c (-1) 0 q ltac:(unfold dir; auto) Ha Hq Hs Hi Hsa I1) as W1. fold c1 in W1.
  destruct c1 as [r1 k1]. pose proof (walk_sem ks r1 k1 1 0 q ltac:(unfold dir; auto) P1 Hq S1 Hi I1 I2) as W2. fold c2 in W2.
  destruct c2 as [r2 k2]. pose proof (walk_sem kw r2 k2 0 (-1) q ltac:(unfold dir; auto) P2 Hq S2 Hi I2 I3) as W3. fold c3 in W3.
  destruct c3 as [r3 k3].
  assert (I4 : instrip (walk_end ke (0, 1) (r3, k3))) by (rewrite E4; exact Hsb).
  pose proof (walk_sem ke r3 k3 0 1 q ltac:(unfold dir; auto) P3 Hq S3 Hi I3 I4) as W4. rewrite E4 in W4.
  set (A0 := Z.b2z (zeqb2 q (r, c))) in *. set (A1 := Z.b2z (zeqb2 q (r1, k1))) in *.
  set (A2 := Z.b2z (zeqb2 q (r2, k2))) in *. set (A3 := Z.b2z (zeqb2 q (r3, k3))) in *.
  set (A4 := Z.b2z (zeqb2 q (r + 2 * rs, c + 2 * cs))) in *.
  set (X1 := wsum (walk kn (-1, 0) (r, c)) q) in *. set (X2 := wsum (walk ks (1, 0) (r1, k1)) q) in *.
  set (X3 := wsum (walk kw (0, -1) (r2, k2)) q) in *. set (X4 := wsum (walk ke (0, 1) (r3, k3)) q) in *.
  clearbody A0 A1 A2 A3 A4 X1 X2 X3 X4. lia.
Qed.

Lemma walk_sites k : forall d cur, dir d -> ptype cur -> all_sites (walk k d cur).
Proof.
  induction k as [|k IH]; intros d cur Hd Hp a Ha; [destruct Ha|]. cbn [walk] in Ha. destruct Ha as [<-|Ha].
  - rewrite site_unfold. unfold ptype in Hp. cbn [fst snd]. destruct Hd as [-> | [-> | [-> | ->]]]; cbn [fst snd]; lia.
  - apply (IH d _ Hd) in Ha; auto. unfold ptype in *. cbn [fst snd]. destruct Hd as [-> | [-> | [-> | ->]]]; cbn [fst snd]; lia.
Qed.
Lemma walk_end_ptype k d cur : dir d -> ptype cur -> ptype (walk_end k d cur).
Proof.
  intros Hd Hp. rewrite walk_end_eq. unfold ptype in *. cbn [fst snd]. destruct Hd as [-> | [-> | [-> | ->]]]; cbn [fst snd]; lia.
Qed.
Lemma all_sites_app A B : all_sites A -> all_sites B -> all_sites (A ++ B).
Proof. intros HA HB a Ha. apply in_app_iff in Ha. destruct Ha; auto. Qed.
Lemma path_sites_sites a rs cs : ptype a -> all_sites (path_sites a rs cs).
Proof.
  intros Ha. unfold path_sites.
  assert (D1 : dir (-1, 0)) by (unfold dir; auto). assert (D2 : dir (1, 0)) by (unfold dir; auto).
  assert (D3 : dir (0, -1)) by (unfold dir; auto). assert (D4 : dir (0, 1)) by (unfold dir; auto).
  repeat apply all_sites_app; apply walk_sites; auto using walk_end_ptype.
Qed.
Lemma walk_length k : forall d cur, length (walk k d cur) = k.
Proof. induction k as [|k IH]; intros d cur; cbn; auto. Qed.
Lemma path_sites_length a rs cs : Z.of_nat (length (path_sites a rs cs)) = Z.abs rs + Z.abs cs.
Proof. unfold path_sites. rewrite !app_length, !walk_length. lia. Qed.

Lemma ptype_plaquette a : ptype a <-> planar_is_plaquette a = true.
Proof. rewrite plaq_unfold. unfold ptype. lia. Qed.
Lemma primal_of_ptype a : ptype a -> planar_is_primal a = (fst a mod 2 =? 1).
Proof. intros Ha. rewrite primal_unfold. unfold ptype in Ha. lia. Qed.

Lemma zeqb2_inb_neq q a : inb q = true -> inb a = false -> zeqb2 q a = false.
Proof. intros Hq Ha. destruct (zeqb2 q a) eqn:E; [apply zeqb2_eq in E; congruence|reflexivity]. Qed.

Lemma path_overlap a b q rs cs : ptype a -> instrip a -> instrip b -> ptype q -> same_type q a -> inb q = true ->
  ((inb a = false /\ inb b = false /\ rs = 0 /\ cs = 0) \/
   ((inb a = true \/ inb b = true) /\ fst b = fst a + 2 * rs /\ snd b = snd a + 2 * cs)) ->
  Z.odd (wsum (path_sites a rs cs) q) = xorb (zeqb2 q a) (zeqb2 q b).
Proof.
  intros Ha Hsa Hsb Hq Hqa Hiq Hcase. destruct Hcase as [(Hia & Hib & -> & ->)|(Hor & H1 & H2)].
  - rewrite (zeqb2_inb_neq q a Hiq Hia), (zeqb2_inb_neq q b Hiq Hib). reflexivity.
  - assert (Eb : (fst a + 2 * rs, snd a + 2 * cs) = b) by (destruct b; cbn [fst snd] in *; f_equal; lia).
    apply odd_xorb. rewrite <- Eb. apply path_sites_wsum; auto. now rewrite Eb.
Qed.

(* C15, one syndrome bit: the path between two same-type plaquette indices of the strip (real or virtual, any
   distance outside the lattice along the matching boundary) anticommutes with the stabilizer of plaquette q
   exactly when q is one of its two ends (and never when the ends coincide) *)
Theorem planar_path_syndrome_bit a b q :
  ptype a -> ptype b -> same_type a b -> instrip a -> instrip b -> In q (plaquette_indices rows cols) ->
  exists p, path rows cols a b (new_pauli rows cols) = Some p /\
    bsp (p_to_bsf p) (stab q) = xorb (zeqb2 q a) (zeqb2 q b).
Proof.
  intros Ha Hb Hab Hsa Hsb Hq. apply in_plaquette_indices in Hq. destruct Hq as [Hq1 Hq2].
  destruct (translation_cases a b Ha Hb Hab) as (rs & cs & Ht & Hcase).
  unfold path. rewrite Ht. eexists. split; [reflexivity|].
  change (p_to_bsf (sites rows cols (path_op a) (path_sites a rs cs) (new_pauli rows cols)))
    with (sop (path_op a) (path_sites a rs cs)).
  unfold stab. rewrite bsp_sop by (auto using path_sites_sites, plaq_sites_sites). cbv zeta.
  pose proof (proj2 (ptype_plaquette q) Hq1) as Hpq.
  unfold path_op, plaq_op. rewrite (primal_of_ptype a Ha), (primal_of_ptype q Hpq). rewrite pairs_wsum.
  destruct (fst a mod 2 =? 1) eqn:Ea, (fst q mod 2 =? 1) eqn:Eq; cbn [xbit zbit andb]; rewrite ?xorb_false_l, ?xorb_false_r.
  - rewrite ?xorb_false_l, ?xorb_false_r. apply path_overlap; auto. unfold same_type, ptype in *. lia.
  - assert (E1 : zeqb2 q a = false) by (destruct a, q; unfold zeqb2; cbn [fst snd] in *; lia).
    assert (E2 : zeqb2 q b = false) by (destruct Hab; destruct a, b, q; unfold zeqb2; cbn [fst snd] in *; lia).
    now rewrite E1, E2.
  - assert (E1 : zeqb2 q a = false) by (destruct a, q; unfold zeqb2; cbn [fst snd] in *; lia).
    assert (E2 : zeqb2 q b = false) by (destruct Hab; destruct a, b, q; unfold zeqb2; cbn [fst snd] in *; lia).
    now rewrite E1, E2.
  - rewrite ?xorb_false_l, ?xorb_false_r. apply path_overlap; auto. unfold same_type, ptype in *. lia.
Qed.

(* C15, the whole syndrome *)
Theorem planar_path_syndrome_all a b :
  ptype a -> ptype b -> same_type a b -> instrip a -> instrip b ->
  exists p, path rows cols a b (new_pauli rows cols) = Some p /\
    syndrome_of (stabs (planar_code rows cols)) (p_to_bsf p) =
    map (fun q => xorb (zeqb2 q a) (zeqb2 q b)) (plaquette_indices rows cols).
Proof.
  intros Ha Hb Hab Hsa Hsb.
  destruct (translation_cases a b Ha Hb Hab) as (rs & cs & Ht & _).
  exists (sites rows cols (path_op a) (path_sites a rs cs) (new_pauli rows cols)). split; [unfold path; now rewrite Ht|].
  rewrite code_eq. cbn [stabs]. unfold syndrome_of. rewrite map_map. apply map_ext_in. intros q Hq.
  destruct (planar_path_syndrome_bit a b q Ha Hb Hab Hsa Hsb Hq) as (p & Hp & Hbsp).
  unfold path in Hp. rewrite Ht in Hp. injection Hp as <-. exact Hbsp.
Qed.

(* weight of a path never exceeds the decoder's distance (no hypothesis on the indices at all) *)
Lemma path_op_not_I a : path_op a <> pI.
Proof. unfold path_op. destruct (planar_is_primal a); discriminate. Qed.
Theorem planar_path_weight_le a b p d :
  path rows cols a b (new_pauli rows cols) = Some p -> distance rows cols a b = Some d ->
  Z.of_nat (bsf_wt (p_to_bsf p)) <= d.
Proof.
  unfold path, distance. destruct (planar_translation rows cols a b) as [[rs cs]|]; [|discriminate].
  intros Hp Hd. injection Hp as <-. injection Hd as <-.
  change (p_to_bsf (sites rows cols (path_op a) (path_sites a rs cs) (new_pauli rows cols)))
    with (gop inb fl N (path_op a) (path_sites a rs cs)).
  pose proof (bsf_wt_gop_le inb fl N (path_op a) (path_sites a rs cs) (path_op_not_I a)) as H.
  rewrite <- (path_sites_length a rs cs). lia.
Qed.

(* C15: the virtual plaquette of a real plaquette is just outside the nearer boundary of its own lattice
   (primal: north/south, ties to north; dual: west/east, ties to west); it is of the same type, lies in the
   strip and outside the lattice, so the path theorems above apply to it *)
Theorem planar_virtual_nearest q : In q (plaquette_indices rows cols) ->
  planar_virtual_plaquette_index rows cols q = Some
    (if planar_is_primal q
     then (if (fst q + 1) / 2 <=? (2 * rows - 1 - fst q) / 2 then (-1, snd q) else (2 * rows - 1, snd q))
     else (if (snd q + 1) / 2 <=? (2 * cols - 1 - snd q) / 2 then (fst q, -1) else (fst q, 2 * cols - 1))).
Proof.
  intros Hq. apply in_plaquette_indices in Hq. destruct Hq as [Hq1 Hq2]. destruct q as [r c].
  unfold planar_virtual_plaquette_index. rewrite Hq1. cbn [negb fst snd].
  pose proof (proj2 (ptype_plaquette (r, c)) Hq1) as Hp. rewrite (primal_of_ptype _ Hp).
  rewrite inb_unfold in Hq2. unfold ptype in Hp. cbn [fst snd] in *.
  destruct (r mod 2 =? 1) eqn:E.
  - replace (Z.abs (r - 1) <=? Z.abs (2 * rows - 3 - r)) with ((r + 1) / 2 <=? (2 * rows - 1 - r) / 2) by lia.
    destruct ((r + 1) / 2 <=? (2 * rows - 1 - r) / 2); f_equal; f_equal; lia.
  - replace (Z.abs (c - 1) <=? Z.abs (2 * cols - 3 - c)) with ((c + 1) / 2 <=? (2 * cols - 1 - c) / 2) by lia.
    destruct ((c + 1) / 2 <=? (2 * cols - 1 - c) / 2); f_equal; f_equal; lia.
Qed.
Theorem planar_virtual_props q : In q (plaquette_indices rows cols) ->
  exists v, planar_virtual_plaquette_index rows cols q = Some v /\
    ptype v /\ same_type v q /\ instrip v /\ inb v = false /\ ptype q /\ instrip q.
Proof.
  intros Hq. rewrite (planar_virtual_nearest q Hq). eexists. split; [reflexivity|].
  apply in_plaquette_indices in Hq. destruct Hq as [Hq1 Hq2].
  pose proof (proj2 (ptype_plaquette q) Hq1) as Hp. rewrite (primal_of_ptype _ Hp).
  destruct q as [r c]. rewrite inb_unfold in Hq2. unfold ptype, same_type, instrip in *. cbn [fst snd] in *.
  destruct (r mod 2 =? 1) eqn:E.
  - destruct ((r + 1) / 2 <=? (2 * rows - 1 - r) / 2); rewrite inb_unfold; cbn [fst snd]; lia.
  - destruct ((c + 1) / 2 <=? (2 * cols - 1 - c) / 2); rewrite inb_unfold; cbn [fst snd]; lia.
Qed.

(* ---- weights of the logical operators; C08 upper bound ---- *)
Lemma filter_all {A} (f : A -> bool) l : (forall a, In a l -> f a = true) -> filter f l = l.
Proof. induction l as [|a l IH]; intros H; cbn; auto. rewrite H by (cbn; auto). f_equal. apply IH. intros; apply H; cbn; auto. Qed.

Lemma sop_weight_nodup op L : op <> pI -> all_sites L -> (forall a, In a L -> inb a = true) -> NoDup L ->
  bsf_wt (sop op L) = length L.
Proof.
  intros Hop HL Hin Hnd. change (sop op L) with (gop inb fl N op L).
  rewrite bsf_wt_gop_nodup; auto using klt_sites.
  - unfold keys. now rewrite map_length, filter_all.
  - unfold keys. rewrite filter_all by auto. apply NoDup_map_inj_in; auto.
    intros x y Hx Hy. apply fl_inj; split; auto.
Qed.

Theorem planar_logical_x_weight : Z.of_nat (bsf_wt lxop) = rows.
Proof.
  unfold lxop. rewrite sop_weight_nodup; try discriminate; auto using lx_sites_sites.
  - rewrite lx_sites_eq, map_length, seq_length. lia.
  - intros a Ha. rewrite lx_sites_eq in Ha. apply in_map_iff in Ha. destruct Ha as (i & <- & Hi). apply in_seq in Hi.
    rewrite inb_unfold. cbn [fst snd]. lia.
  - rewrite lx_sites_eq. apply NoDup_map_inj_in; [|apply seq_NoDup]. intros x y _ _ H.
    apply (f_equal fst) in H. cbn [fst] in H. lia.
Qed.
Theorem planar_logical_z_weight : Z.of_nat (bsf_wt lzop) = cols.
Proof.
  unfold lzop. rewrite sop_weight_nodup; try discriminate; auto using lz_sites_sites.
  - rewrite lz_sites_eq, map_length, seq_length. lia.
  - intros a Ha. rewrite lz_sites_eq in Ha. apply in_map_iff in Ha. destruct Ha as (i & <- & Hi). apply in_seq in Hi.
    rewrite inb_unfold. cbn [fst snd]. lia.
  - rewrite lz_sites_eq. apply NoDup_map_inj_in; [|apply seq_NoDup]. intros x y _ _ H.
    apply (f_equal snd) in H. cbn [snd] in H. lia.
Qed.

(* a product of stabilizers commutes with every operator that commutes with all stabilizers, so a logical that
   anticommutes with the other logical is not a product of stabilizers *)
Lemma bsp_zeros_l m l : length l = m -> Nat.even m = true -> bsp (zeros m) l = false.
Proof.
  intros HL Hev. rewrite <- HL. rewrite <- (xorv_self l), bsp_linear_l by reflexivity.
  rewrite bsp_self_zero by now rewrite HL. reflexivity.
Qed.
Lemma bsp_xsum_zero m sub l : length l = m -> Nat.even m = true ->
  (forall s, In s sub -> length s = m /\ bsp s l = false) -> bsp (xsum m sub) l = false.
Proof.
  intros HL Hev. induction sub as [|s sub IH]; intros H.
  - now apply bsp_zeros_l.
  - rewrite xsum_cons. destruct (H s ltac:(cbn; auto)) as [Hs1 Hs2].
    assert (Hlen : length (xsum m sub) = m).
    { apply xsum_len. apply Forall_forall. intros x Hx. apply H. cbn; auto. }
    rewrite bsp_linear_l by congruence. rewrite Hs2, IH; [reflexivity|]. intros x Hx. apply H. cbn; auto.
Qed.
Lemma stab_length q : length (stab q) = (N + N)%nat.
Proof. apply sop_length. Qed.
Lemma even_NN : Nat.even (N + N) = true.
Proof. replace (N + N)%nat with (2 * N)%nat by lia. apply Nat.even_spec. now exists N. Qed.

Theorem planar_logical_x_nontrivial sub : (forall s, In s sub -> In s (stabs (planar_code rows cols))) ->
  xsum (N + N) sub <> lxop.
Proof.
  intros Hsub Heq. destruct planar_logicals_anticommute as (H1 & _).
  rewrite <- Heq in H1. rewrite bsp_xsum_zero in H1; [discriminate|apply sop_length|apply even_NN|].
  intros s Hs. apply Hsub in Hs. rewrite code_eq in Hs. cbn [stabs] in Hs. apply in_map_iff in Hs.
  destruct Hs as (q & <- & Hq). split; [apply stab_length|now apply planar_stabilizer_logical_z].
Qed.
Theorem planar_logical_z_nontrivial sub : (forall s, In s sub -> In s (stabs (planar_code rows cols))) ->
  xsum (N + N) sub <> lzop.
Proof.
  intros Hsub Heq. destruct planar_logicals_anticommute as (_ & H2 & _).
  rewrite <- Heq in H2. rewrite bsp_xsum_zero in H2; [discriminate|apply sop_length|apply even_NN|].
  intros s Hs. apply Hsub in Hs. rewrite code_eq in Hs. cbn [stabs] in Hs. apply in_map_iff in Hs.
  destruct Hs as (q & <- & Hq). split; [apply stab_length|now apply planar_stabilizer_logical_x].
Qed.

(* C08 upper bound, all sizes: the advertised d = min(rows, cols) is the weight of a supplied logical that commutes
   with every stabilizer and is not a product of stabilizers; neither supplied logical is lighter than d *)
Theorem planar_distance_upper :
  let '(n, k, d) := planar_n_k_d rows cols in
  d = Z.min rows cols /\ Z.of_nat (bsf_wt lxop) = rows /\ Z.of_nat (bsf_wt lzop) = cols /\
  (Z.of_nat (bsf_wt lxop) = d \/ Z.of_nat (bsf_wt lzop) = d) /\
  d <= Z.of_nat (bsf_wt lxop) /\ d <= Z.of_nat (bsf_wt lzop).
Proof.
  unfold planar_n_k_d. cbv beta iota zeta. rewrite planar_logical_x_weight, planar_logical_z_weight. lia.
Qed.

(* ---- weight of the path between two real plaquettes = distance ---- *)
Ltac pair_lia H :=
  let F1 := fresh "F" in let F2 := fresh "F" in
  pose proof (f_equal fst H) as F1; pose proof (f_equal snd H) as F2; cbn [fst snd] in F1, F2; lia.
Lemma in_walk k : forall d cur s, In s (walk k d cur) ->
  exists j, 0 <= j < Z.of_nat k /\ s = (fst cur + (2 * j + 1) * fst d, snd cur + (2 * j + 1) * snd d).
Proof.
  induction k as [|k IH]; intros d cur s Hs; [destruct Hs|]. cbn [walk] in Hs. destruct Hs as [<-|Hs].
  - exists 0. split; [lia|]. f_equal; ring.
  - apply IH in Hs. destruct Hs as (j & Hj & ->). exists (j + 1). split; [lia|]. cbn [fst snd]. f_equal; ring.
Qed.
Lemma NoDup_walk k : forall d cur, dir d -> NoDup (walk k d cur).
Proof.
  induction k as [|k IH]; intros d cur Hd; cbn [walk]; constructor; [|now apply IH].
  intros Hin. apply in_walk in Hin. destruct Hin as (j & Hj & Heq). cbn [fst snd] in Heq.
  destruct Hd as [-> | [-> | [-> | ->]]]; cbn [fst snd] in Heq; pair_lia Heq.
Qed.
Lemma NoDup_app_disj {A} (l1 l2 : list A) : NoDup l1 -> NoDup l2 -> (forall x, In x l1 -> In x l2 -> False) -> NoDup (l1 ++ l2).
Proof.
  induction l1 as [|a l1 IH]; intros H1 H2 Hd; cbn; auto. inversion H1 as [|? ? Hn H1']; subst. constructor.
  - intros Hin. apply in_app_iff in Hin. destruct Hin as [Hin|Hin]; [contradiction|]. apply (Hd a); cbn; auto.
  - apply IH; auto. intros x Hx1 Hx2. apply (Hd x); cbn; auto.
Qed.

Lemma path_sites_real a rs cs : ptype a -> inb a = true -> inb (fst a + 2 * rs, snd a + 2 * cs) = true ->
  NoDup (path_sites a rs cs) /\ forall s, In s (path_sites a rs cs) -> inb s = true.
Proof.
  intros Ha Hia Hib. destruct a as [r c]. unfold ptype in Ha. cbn [fst snd] in *. unfold path_sites.
  set (kn := Z.to_nat (- rs)). set (ks := Z.to_nat rs). set (kw := Z.to_nat (- cs)). set (ke := Z.to_nat cs).
  set (c1 := walk_end kn (-1, 0) (r, c)). set (c2 := walk_end ks (1, 0) c1). set (c3 := walk_end kw (0, -1) c2).
  assert (E1 : c1 = (r - 2 * Z.of_nat kn, c)) by (unfold c1; rewrite walk_end_eq; cbn [fst snd]; f_equal; lia).
  assert (E2 : c2 = (r + 2 * rs, c)) by (unfold c2; rewrite walk_end_eq, E1; cbn [fst snd]; f_equal; lia).
  assert (E3 : c3 = (r + 2 * rs, c - 2 * Z.of_nat kw)) by (unfold c3; rewrite walk_end_eq, E2; cbn [fst snd]; f_equal; lia).
  rewrite E1, E2, E3. rewrite !inb_unfold in *. cbn [fst snd] in *.
  assert (D1 : dir (-1, 0)) by (unfold dir; auto). assert (D2 : dir (1, 0)) by (unfold dir; auto).
  assert (D3 : dir (0, -1)) by (unfold dir; auto). assert (D4 : dir (0, 1)) by (unfold dir; auto).
  split.
  - repeat apply NoDup_app_disj; auto using NoDup_walk.
    + intros x H1 H2. apply in_walk in H1, H2. destruct H1 as (j1 & Hj1 & ->), H2 as (j2 & Hj2 & Heq).
      cbn [fst snd] in Heq. pair_lia Heq.
    + intros x H1 H2. apply in_app_iff in H2. destruct H2 as [H2|H2];
        apply in_walk in H1, H2; destruct H1 as (j1 & Hj1 & ->), H2 as (j2 & Hj2 & Heq);
        cbn [fst snd] in Heq; pair_lia Heq.
    + intros x H1 H2. apply in_app_iff in H2. destruct H2 as [H2|H2]; [|apply in_app_iff in H2; destruct H2 as [H2|H2]];
        apply in_walk in H1, H2; destruct H1 as (j1 & Hj1 & ->), H2 as (j2 & Hj2 & Heq);
        cbn [fst snd] in Heq; pair_lia Heq.
  - intros s Hs. rewrite inb_unfold.
    apply in_app_iff in Hs. destruct Hs as [Hs|Hs]; [|apply in_app_iff in Hs; destruct Hs as [Hs|Hs];
      [|apply in_app_iff in Hs; destruct Hs as [Hs|Hs]]];
      apply in_walk in Hs; destruct Hs as (j & Hj & ->); cbn [fst snd]; lia.
Qed.

Theorem planar_path_weight_real a b p d :
  In a (plaquette_indices rows cols) -> In b (plaquette_indices rows cols) -> planar_is_primal a = planar_is_primal b ->
  path rows cols a b (new_pauli rows cols) = Some p -> distance rows cols a b = Some d ->
  Z.of_nat (bsf_wt (p_to_bsf p)) = d.
Proof.
  intros Hain Hbin Hpr. apply in_plaquette_indices in Hain, Hbin. destruct Hain as [Ha1 Ha2], Hbin as [Hb1 Hb2].
  pose proof (proj2 (ptype_plaquette a) Ha1) as Ha. pose proof (proj2 (ptype_plaquette b) Hb1) as Hb.
  assert (Hab : same_type a b).
  { rewrite (primal_of_ptype a Ha), (primal_of_ptype b Hb) in Hpr. unfold same_type, ptype in *. lia. }
  destruct (translation_cases a b Ha Hb Hab) as (rs & cs & Ht & Hcase).
  unfold path, distance. rewrite Ht. intros Hp Hd. injection Hp as <-. injection Hd as <-.
  destruct Hcase as [(Hia & _)|(_ & H1 & H2)]; [congruence|].
  assert (Eb : (fst a + 2 * rs, snd a + 2 * cs) = b) by (destruct b; cbn [fst snd] in *; f_equal; lia).
  destruct (path_sites_real a rs cs Ha Ha2 ltac:(now rewrite Eb)) as [Hnd Hin].
  change (p_to_bsf (sites rows cols (path_op a) (path_sites a rs cs) (new_pauli rows cols)))
    with (sop (path_op a) (path_sites a rs cs)).
  rewrite sop_weight_nodup; auto using path_op_not_I, path_sites_sites. apply path_sites_length.
Qed.

(* C07: flatten is a bijection from the in-bounds sites onto [0, n), with inverse [unflatten] *)
Theorem planar_flatten_bijective_all :
  (forall i, isite i -> 0 <= planar_flatten rows cols i < Z.of_nat (planar_n rows cols)) /\
  (forall i j, isite i -> isite j -> planar_flatten rows cols i = planar_flatten rows cols j -> i = j) /\
  (forall k, 0 <= k < Z.of_nat (planar_n rows cols) -> isite (unflatten k) /\ planar_flatten rows cols (unflatten k) = k).
Proof.
  split; [exact planar_flatten_range|]. split; [exact planar_flatten_injective|exact planar_flatten_surjective].
Qed.
(* ... hence site access round-trips: the letter read at site i after site(op, i) on the identity is op, and I elsewhere *)
Theorem planar_site_operator_roundtrip op i j : isite i -> isite j ->
  operator rows cols j (site rows cols op i (new_pauli rows cols)) = Some (if zeqb2 i j then op else pI).
Proof.
  intros [Hi1 Hi2] [Hj1 Hj2]. unfold operator, site. rewrite Hj1, Hj2, Hi2. cbn [andb]. f_equal.
  unfold op_at, flip_op, new_pauli, pzero. cbn [pxs pzs].
  pose proof (fl_lt i Hi1 Hi2) as Li. unfold fl in Li.
  assert (Hn : forall b : bool, nth (Z.to_nat (planar_flatten rows cols j))
             (if b then flipn (Z.to_nat (planar_flatten rows cols i)) (zeros N) else zeros N) false = (b && zeqb2 i j)).
  { intros [|]; [|now rewrite nth_zeros]. rewrite nth_flipn by now rewrite zeros_length. rewrite nth_zeros, xorb_false_r.
    destruct (zeqb2 i j) eqn:E.
    - apply zeqb2_eq in E. subst j. apply Nat.eqb_refl.
    - apply Nat.eqb_neq. intros Hf. assert (j = i) by (apply fl_inj; [split; auto|split; auto|exact Hf]).
      subst j. rewrite zeqb2_refl in E. discriminate. }
  rewrite !Hn. destruct op, (zeqb2 i j); reflexivity.
Qed.
End PlanarAll.

(* ================================================================== *)
(** * Statements not proved for all sizes (visible, not claimed)        *)
(* ================================================================== *)
(* independence of the stabilizer generators: no non-empty selection of rows multiplies to the identity
   (established for sizes <= 16x16 by the harness' GF(2) rank computation on the implementation's matrices) *)
Definition planar_rank_statement : Prop :=
  forall rows cols, 2 <= rows -> 2 <= cols ->
  forall sel : bsf, length sel = length (stabs (planar_code rows cols)) ->
    xsum (planar_n rows cols + planar_n rows cols) (select sel (stabs (planar_code rows cols)))
      = zeros (planar_n rows cols + planar_n rows cols) ->
    forall b, In b sel -> b = false.
(* C08 lower bound: every operator that commutes with all stabilizers and is not a product of stabilizers has
   weight >= min(rows, cols)  (decided exhaustively for small sizes by harness/lat_planar.py check_c08) *)
Definition planar_distance_lower_statement : Prop :=
  forall rows cols, 2 <= rows -> 2 <= cols ->
  forall e : bsf, length e = (planar_n rows cols + planar_n rows cols)%nat ->
    (forall s, In s (stabs (planar_code rows cols)) -> bsp e s = false) ->
    (forall sel, xsum (planar_n rows cols + planar_n rows cols) (select sel (stabs (planar_code rows cols))) <> e) ->
    Z.min rows cols <= Z.of_nat (bsf_wt e).
(* the proved part of C08 for all sizes is [planar_distance_upper] together with
   [planar_logical_x_nontrivial] / [planar_logical_z_nontrivial]: d is attained by a supplied non-trivial logical *)
Definition planar_distance_partial := planar_distance_upper.

(* non-vacuity: the all-sizes theorems instantiated at a non-square size *)
Example planar_valid_all_3x5 : validate (planar_code 3 5) = VOk.
Proof. apply planar_valid_all; lia. Qed.
Example planar_path_syndrome_all_4x3 : exists p, path 4 3 (1, 0) (7, 2) (new_pauli 4 3) = Some p /\
  syndrome_of (stabs (planar_code 4 3)) (p_to_bsf p) =
  map (fun q => xorb (zeqb2 q (1, 0)) (zeqb2 q (7, 2))) (plaquette_indices 4 3).
Proof.
  apply planar_path_syndrome_all; try lia; unfold ptype, same_type, instrip; cbn [fst snd]; lia.
Qed.
