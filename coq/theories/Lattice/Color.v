(* Lattice/Color.v — model of Color666Code / Color666Pauli
   (src/qecsim/models/color/_color666code.py, _color666pauli.py).
   Integer kernels (n_k_d, bound, is_plaquette, is_site, is_in_bounds, virtual_plaquette_index) come from
   Generated/LatticeArith.v.  The one hand-modelled formula is Color666Pauli._flatten_site_index, which
   divides in floating point; see c6_flatten_q / c6_flatten below. *)
From Coq Require Import List Bool Arith ZArith QArith Qround Lia.
From QV Require Import Core.Bits Core.Pauli Core.Symp Core.Code Generated.LatticeArith Lattice.RotPlanar.
Import ListNotations.
Local Open Scope Z_scope.

(* _flatten_site_index:  int( (((2*r+1)**2)/3 + 1)//4  +  (2*c + (2 - r%3))//3 )
   `/` is true division and `//` on a float is the floor of the quotient.  Literal reading over the
   rationals (c6_flatten_q) and the equivalent integer form (c6_flatten): with m = (2r+1)^2,
   floor((m/3 + 1)/4) = floor((m+3)/12).
   Float exactness: m is an integer < 2^53 for r < 2^25, so float(m) is exact; m/3 is correctly rounded,
   (m mod 3) is 0 or 1 (m is a square); if 0 every operation is exact; if 1 then m = 1 (mod 24)... precisely
   m mod 24 is 1 or 9 (odd square), so (m/3+1) = 4q + 4/3 with q = (m+3) div 12 when m mod 3 = 1: the exact
   value sits 4/3 above and 8/3 below the nearest multiples of 4, far more than the two roundings
   (each <= 2^-53 relative, i.e. < 1 absolute while m/3 < 2^52) can move it.  The harness checks the
   implementation against c6_flatten on every site of every size <= 21 and on a sweep of large r. *)
Definition c6_flatten_q (idx : Z * Z) : Z :=
  let '(r, c) := idx in
  Qfloor ((inject_Z ((2 * r + 1) ^ 2) / inject_Z 3 + inject_Z 1) / inject_Z 4)%Q
  + (2 * c + (2 - r mod 3)) / 3.
Definition c6_flatten (idx : Z * Z) : Z :=
  let '(r, c) := idx in ((2 * r + 1) ^ 2 + 3) / 12 + (2 * c + (2 - r mod 3)) / 3.

Lemma c6_flatten_q_eq idx : c6_flatten_q idx = c6_flatten idx.
Proof.
  destruct idx as [r c]. unfold c6_flatten_q, c6_flatten. f_equal.
  set (m := (2 * r + 1) ^ 2).
  assert (E : ((inject_Z m / inject_Z 3 + inject_Z 1) / inject_Z 4 == (m + 3) # 12)%Q).
  { unfold Qeq, Qdiv, Qmult, Qplus, Qinv, inject_Z. cbn. ring. }
  rewrite (Qfloor_comp _ _ E). reflexivity.
Qed.

Section Color.
Variable size : Z.

Definition c6_n : nat := let '(n, _, _) := color_n_k_d size in Z.to_nat n.
Definition c6_identity : rc_pauli := rc_identity c6_n.

(* Color666Pauli.site: IndexError (None) for a non-site index; no effect out of bounds *)
Definition c6_site (op : pl) (idx : Z * Z) (p : rc_pauli) : option rc_pauli :=
  if negb (color_is_site idx) then None
  else if color_is_in_bounds size idx then Some (rc_flip op (Z.to_nat (c6_flatten idx)) p)
  else Some p.
Fixpoint c6_sites (op : pl) (idxs : list (Z * Z)) (p : rc_pauli) : option rc_pauli :=
  match idxs with
  | [] => Some p
  | i :: r => match c6_site op i p with None => None | Some q => c6_sites op r q end
  end.
(* Color666Pauli.operator: IndexError unless an in-bounds site *)
Definition c6_operator (idx : Z * Z) (p : rc_pauli) : option pl :=
  if color_is_site idx && color_is_in_bounds size idx
  then Some (rc_letter (Z.to_nat (c6_flatten idx)) p) else None.
(* Color666Pauli.plaquette(operator, index): IndexError for a non-plaquette index; six neighbours *)
Definition c6_neighbours (idx : Z * Z) : list (Z * Z) :=
  let '(r, c) := idx in [(r - 1, c - 1); (r - 1, c); (r, c - 1); (r, c + 1); (r + 1, c); (r + 1, c + 1)].
Definition c6_plaquette (op : pl) (idx : Z * Z) (p : rc_pauli) : option rc_pauli :=
  if negb (color_is_plaquette idx) then None else c6_sites op (c6_neighbours idx) p.
(* logical_x / logical_z: for row in range(bound+1): if is_site((row,0)): site(op, (row,0)) *)
Definition c6_column0 : list (Z * Z) :=
  filter color_is_site (map (fun r => (r, 0)) (rc_range 0 (color_bound size + 1))).
Definition c6_logical (op : pl) (p : rc_pauli) : option rc_pauli := c6_sites op c6_column0 p.

(* itertools.product(range(bound+1), repeat=2) filtered by is_in_bounds and is_plaquette / is_site *)
Definition c6_product : list (Z * Z) :=
  let rg := rc_range 0 (color_bound size + 1) in flat_map (fun r => map (fun c => (r, c)) rg) rg.
Definition c6_plaquette_indices : list (Z * Z) :=
  filter (fun i => color_is_in_bounds size i && color_is_plaquette i) c6_product.
Definition c6_site_indices : list (Z * Z) :=
  filter (fun i => color_is_in_bounds size i && color_is_site i) c6_product.

Definition c6_row (o : option rc_pauli) : bsf := match o with Some p => rc_to_bsf p | None => [] end.
(* stabilizers: X-type plaquettes for all indices, then Z-type plaquettes for all indices *)
Definition c6_stabilizers : list bsf :=
  map (fun i => c6_row (c6_plaquette pX i c6_identity)) c6_plaquette_indices ++
  map (fun i => c6_row (c6_plaquette pZ i c6_identity)) c6_plaquette_indices.
Definition c6_logical_xs : list bsf := [c6_row (c6_logical pX c6_identity)].
Definition c6_logical_zs : list bsf := [c6_row (c6_logical pZ c6_identity)].
(* syndrome_to_plaquette_indices: (X-stabilizer set, Z-stabilizer set) from the two halves *)
Definition c6_syndrome_to_plaquette_indices (syndrome : bsf) : list (Z * Z) * list (Z * Z) :=
  let '(sx, sz) := halves syndrome in (rc_select sx c6_plaquette_indices, rc_select sz c6_plaquette_indices).
End Color.

Definition color_code (size : Z) : code :=
  mkCode (c6_stabilizers size) (c6_logical_xs size) (c6_logical_zs size).

(* Color666Code.__init__: operator.index(size) < 3 -> ValueError; size % 2 == 0 -> ValueError *)
Definition c6_ctor (a : rc_arg) : rc_ctor_res :=
  match rc_index a with
  | None => RTypeError
  | Some s => if s <? 3 then RValueError else if s mod 2 =? 0 then RValueError else ROk
  end.
Theorem c6_ctor_ok_iff a : c6_ctor a = ROk <-> exists s, rc_index a = Some s /\ 3 <= s /\ s mod 2 = 1.
Proof.
  unfold c6_ctor. split.
  - destruct (rc_index a) as [s|]; [|discriminate]. destruct (Z.ltb_spec s 3); [discriminate|].
    destruct (Z.eqb_spec (s mod 2) 0); [discriminate|]. intros _. exists s. repeat split; auto.
    pose proof (Z.mod_pos_bound s 2). lia.
  - intros (s & -> & Hs & Hm). destruct (Z.ltb_spec s 3); [lia|]. rewrite Hm. reflexivity.
Qed.
Theorem c6_ctor_type_error_iff a : c6_ctor a = RTypeError <-> rc_index a = None.
Proof.
  unfold c6_ctor. destruct (rc_index a) as [s|]; [|tauto].
  destruct (s <? 3); [split; discriminate|]. destruct (s mod 2 =? 0); split; discriminate.
Qed.

(* the six neighbours of a plaquette index are site indices, so c6_plaquette never fails on one *)
Ltac Zify.zify_post_hook ::= Z.to_euclidean_division_equations.
Lemma c6_neighbours_sites idx : color_is_plaquette idx = true ->
  forallb color_is_site (c6_neighbours idx) = true.
Proof.
  destruct idx as [r c]. unfold color_is_site, color_is_plaquette, c6_neighbours. cbn [forallb].
  intros H. apply Z.eqb_eq in H.
  repeat (apply andb_true_iff; split); try reflexivity; apply negb_true_iff, Z.eqb_neq; lia.
Qed.
