(* Lattice/PlanarDistAll.v — C08 for the planar code, ALL sizes: the advertised d = min(rows, cols) is the true
   minimum distance ([planar_is_distance_all], in the sense of Core/Dist.is_distance), i.e. the lower bound
   [PlanarAll.planar_distance_lower_statement] is proved ([planar_distance_lower_all]).

   1. Translate argument.  For every operator e commuting with all stabilizers:
      if e anticommutes with logical Z then e has an X or Y on at least one site of EVERY one of the `rows`
      rows of horizontal edges (the row translates of logical Z are stabilizer-equivalent: their difference is a
      row of primal plaquettes; telescoping lemma), hence weight e >= rows; symmetrically, anticommuting with
      logical X gives weight e >= cols ([planar_anticommute_z_weight], [planar_anticommute_x_weight],
      [planar_distance_lower_partial]).
   2. Completeness of the logical pair ([planar_centralizer]): an operator commuting with all stabilizers and
      with both logicals IS a product of stabilizers, with explicit coefficients (prefix parities of its X
      components along rows / of its Z components along columns); verified site by site with the same
      telescoping lemma and the flatten bijection.
   3. Hence a non-trivial normalizer element anticommutes with a logical, and 1 applies.  The upper bound is
      PlanarAll.planar_distance_upper / planar_logical_*_nontrivial. *)
From Coq Require Import ZArith List Bool Lia ZifyBool.
From QV Require Import Core.Bits Core.Pauli Core.Symp Core.Code Core.Span Core.Rank Core.Dist Core.DistCSS
  Generated.LatticeArith Lattice.Planar Lattice.PlanarAll Lattice.PlanarRankAll.
Import ListNotations.
Open Scope Z_scope.
Ltac Zify.zify_post_hook ::= Z.to_euclidean_division_equations.

(* ------------------------------------------------------------------ *)
(** * Generic lemmas                                                   *)
(* ------------------------------------------------------------------ *)
Lemma xsumb_filter {A} (p f : A -> bool) L : xsumb f (filter p L) = xsumb (fun a => p a && f a) L.
Proof. induction L as [|a L IH]; cbn [filter xsumb]; auto. destruct (p a); cbn [xsumb andb]; rewrite IH, ?xorb_false_l; reflexivity. Qed.
Lemma xsumb_true_ex {A} (f : A -> bool) L : xsumb f L = true -> exists a, In a L /\ f a = true.
Proof.
  induction L as [|a L IH]; cbn [xsumb]; [discriminate|]. destruct (f a) eqn:E.
  - intros _. exists a. cbn; auto.
  - rewrite xorb_false_l. intros H. destruct (IH H) as (b & Hb & Hf). exists b. cbn; auto.
Qed.
Lemma xsumb_xorb {A} (f g : A -> bool) L : xsumb (fun a => xorb (f a) (g a)) L = xorb (xsumb f L) (xsumb g L).
Proof. induction L as [|a L IH]; cbn [xsumb]; auto. rewrite IH. now destruct (f a), (g a), (xsumb f L), (xsumb g L). Qed.
Lemma xsumb_seq_S (f : nat -> bool) m : xsumb f (seq 0 (S m)) = xorb (xsumb f (seq 0 m)) (f m).
Proof. rewrite seq_S, xsumb_app. cbn [xsumb Nat.add]. now rewrite xorb_false_r. Qed.

(* at least as many true bits as distinct true positions *)
Lemma count_true_flipn_clear k : forall u, nth k u false = true -> count_true u = S (count_true (flipn k u)).
Proof.
  induction k as [|k IH]; intros [|x u] H; cbn in *; try discriminate.
  - subst x. reflexivity.
  - rewrite (IH u H). lia.
Qed.
Lemma nth_true_lt k : forall u : bsf, nth k u false = true -> (k < length u)%nat.
Proof. induction k as [|k IH]; intros [|x u] H; cbn in *; try discriminate; [lia|]. specialize (IH u H). lia. Qed.
Lemma count_true_ge_positions ks : forall v, NoDup ks -> (forall k, In k ks -> nth k v false = true) ->
  (length ks <= count_true v)%nat.
Proof.
  induction ks as [|k ks IH]; intros v Hnd H; cbn [length]; [lia|].
  inversion Hnd as [|? ? Hn Hnd']; subst. pose proof (H k (or_introl eq_refl)) as Hk.
  rewrite (count_true_flipn_clear k v Hk). apply le_n_S. apply IH; auto.
  intros k' Hk'. rewrite nth_flipn by now apply nth_true_lt. rewrite (H k') by (cbn; auto).
  destruct (Nat.eqb_spec k' k) as [->|]; [contradiction|reflexivity].
Qed.

(* the four-term sums telescope along a line of plaquettes *)
Definition four (g : idx -> bool) (r c : Z) : bool :=
  xorb (xorb (g (r - 1, c)) (g (r + 1, c))) (xorb (g (r, c - 1)) (g (r, c + 1))).
Lemma telescope (g : idx -> bool) r m :
  xsumb (fun j => four g r (2 * Z.of_nat j)) (seq 0 m) =
  xorb (xorb (xsumb (fun j => g (r - 1, 2 * Z.of_nat j)) (seq 0 m)) (xsumb (fun j => g (r + 1, 2 * Z.of_nat j)) (seq 0 m)))
       (xorb (g (r, -1)) (g (r, 2 * Z.of_nat m - 1))).
Proof.
  induction m as [|m IH].
  - cbn [seq xsumb]. change (2 * Z.of_nat 0 - 1) with (-1). now destruct (g (r, -1)).
  - rewrite !xsumb_seq_S, IH. unfold four.
    replace (2 * Z.of_nat (S m) - 1) with (2 * Z.of_nat m + 1) by lia.
    destruct (xsumb (fun j => g (r - 1, 2 * Z.of_nat j)) (seq 0 m)), (xsumb (fun j => g (r + 1, 2 * Z.of_nat j)) (seq 0 m)),
      (g (r, -1)), (g (r, 2 * Z.of_nat m - 1)), (g (r - 1, 2 * Z.of_nat m)), (g (r + 1, 2 * Z.of_nat m)),
      (g (r, 2 * Z.of_nat m + 1)); reflexivity.
Qed.

Section PlanarDist.
Variables rows cols : Z.
Hypothesis Hr : 2 <= rows.
Hypothesis Hc : 2 <= cols.
Notation N := (planar_n rows cols).
Notation PI := (plaquette_indices rows cols).
Notation inb := (planar_is_in_bounds rows cols).
Notation fl := (PlanarAll.fl rows cols).
Notation STABS := (stabs (planar_code rows cols)).

(* X component and Z component of an operator at a lattice site (false outside the lattice) *)
Definition xat (e : bsf) (s : idx) : bool := inb s && nth (fl s) (firstn N e) false.
Definition zat (e : bsf) (s : idx) : bool := inb s && nth (fl s) (skipn N e) false.

Lemma halves_NN e : length e = (N + N)%nat -> halves e = (firstn N e, skipn N e).
Proof. intros H. apply halves_2n. lia. Qed.

(* the symplectic product with a Z-type (X-type) site-list operator reads the X (Z) components on its sites *)
Lemma bsp_e_sopZ e L : length e = (N + N)%nat -> all_sites L -> bsp e (sop rows cols pZ L) = xsumb (xat e) L.
Proof.
  intros He HL. unfold bsp, swap_halves. rewrite (halves_NN e He), sop_gop, gop_parts.
  assert (L1 : length (skipn N e) = N) by (rewrite skipn_length; lia).
  assert (L2 : length (firstn N e) = N) by (rewrite firstn_length; lia).
  unfold PlanarAll.xpart, PlanarAll.zpart. cbn [xbit zbit].
  rewrite dot_app by now rewrite zeros_length. rewrite dot_zeros_r, xorb_false_l.
  rewrite dot_comm, dot_flips.
  - rewrite dot_zeros_l, xorb_false_r. unfold keys. rewrite xsumb_map, xsumb_filter. reflexivity.
  - now rewrite zeros_length.
  - intros k Hk. rewrite zeros_length. eapply keys_lt; [|exact Hk]. now apply klt_sites.
Qed.
Lemma bsp_e_sopX e L : length e = (N + N)%nat -> all_sites L -> bsp e (sop rows cols pX L) = xsumb (zat e) L.
Proof.
  intros He HL. unfold bsp, swap_halves. rewrite (halves_NN e He), sop_gop, gop_parts.
  assert (L1 : length (skipn N e) = N) by (rewrite skipn_length; lia).
  assert (L2 : length (firstn N e) = N) by (rewrite firstn_length; lia).
  unfold PlanarAll.xpart, PlanarAll.zpart. cbn [xbit zbit].
  rewrite dot_app by now rewrite flips_length, zeros_length. rewrite dot_zeros_r, xorb_false_r.
  rewrite dot_comm, dot_flips.
  - rewrite dot_zeros_l, xorb_false_r. unfold keys. rewrite xsumb_map, xsumb_filter. reflexivity.
  - now rewrite zeros_length.
  - intros k Hk. rewrite zeros_length. eapply keys_lt; [|exact Hk]. now apply klt_sites.
Qed.

(* e commutes with every stabilizer generator *)
Definition normal (e : bsf) : Prop := forall q, In q PI -> bsp e (stab rows cols q) = false.
Lemma normal_normalizer e : normal e <-> normalizer STABS e.
Proof.
  unfold normal, normalizer. rewrite code_eq. cbn [stabs]. split.
  - intros H s Hs. apply in_map_iff in Hs. destruct Hs as (q & <- & Hq). auto.
  - intros H q Hq. apply H. now apply in_map.
Qed.

Lemma four_swap g r c : four (fun s => g (snd s, fst s)) c r = four g r c.
Proof. unfold four. cbn [fst snd]. apply xorb_comm. Qed.

Lemma stab_primal_four e r c : length e = (N + N)%nat -> r mod 2 = 1 -> c mod 2 = 0 ->
  bsp e (stab rows cols (r, c)) = four (xat e) r c.
Proof.
  intros He H1 H2. unfold stab, plaq_op. rewrite primal_unfold. cbn [fst snd].
  replace (((r + c) mod 2 =? 1) && (r mod 2 =? 1) || negb ((r + c) mod 2 =? 1) && (r mod 2 =? 0)) with true by lia.
  rewrite bsp_e_sopZ by (auto; apply plaq_sites_sites; rewrite plaq_unfold; cbn [fst snd]; lia).
  cbn [plaq_sites xsumb]. unfold four.
  now destruct (xat e (r - 1, c)), (xat e (r + 1, c)), (xat e (r, c - 1)), (xat e (r, c + 1)).
Qed.
Lemma stab_dual_four e r c : length e = (N + N)%nat -> r mod 2 = 0 -> c mod 2 = 1 ->
  bsp e (stab rows cols (r, c)) = four (zat e) r c.
Proof.
  intros He H1 H2. unfold stab, plaq_op. rewrite primal_unfold. cbn [fst snd].
  replace (((r + c) mod 2 =? 1) && (r mod 2 =? 1) || negb ((r + c) mod 2 =? 1) && (r mod 2 =? 0)) with false by lia.
  rewrite bsp_e_sopX by (auto; apply plaq_sites_sites; rewrite plaq_unfold; cbn [fst snd]; lia).
  cbn [plaq_sites xsumb]. unfold four.
  now destruct (zat e (r - 1, c)), (zat e (r + 1, c)), (zat e (r, c - 1)), (zat e (r, c + 1)).
Qed.

(* parity of the X components along a row of horizontal edges / of the Z components along a column *)
Definition rowpar (e : bsf) (r : Z) : bool := xsumb (fun j => xat e (r, 2 * Z.of_nat j)) (seq 0 (Z.to_nat cols)).
Definition colpar (e : bsf) (c : Z) : bool := xsumb (fun i => zat e (2 * Z.of_nat i, c)) (seq 0 (Z.to_nat rows)).

Lemma xat_out e s : inb s = false -> xat e s = false.
Proof. intros H. unfold xat. now rewrite H. Qed.
Lemma zat_out e s : inb s = false -> zat e s = false.
Proof. intros H. unfold zat. now rewrite H. Qed.

(* the row translates of logical Z are stabilizer-equivalent: their difference is the row of primal plaquettes between them *)
Lemma rowpar_step e r : length e = (N + N)%nat -> normal e -> r mod 2 = 1 -> 1 <= r <= 2 * rows - 3 ->
  rowpar e (r - 1) = rowpar e (r + 1).
Proof.
  intros He Hn H1 H2. pose proof (telescope (xat e) r (Z.to_nat cols)) as T.
  rewrite (xsumb_ext _ (fun _ => false)) in T.
  - rewrite xsumb_false in T. rewrite (xat_out e (r, -1)), (xat_out e (r, 2 * Z.of_nat (Z.to_nat cols) - 1)) in T
      by (rewrite inb_unfold; cbn [fst snd]; lia).
    unfold rowpar. now destruct (xsumb (fun j => xat e (r - 1, 2 * Z.of_nat j)) (seq 0 (Z.to_nat cols))),
      (xsumb (fun j => xat e (r + 1, 2 * Z.of_nat j)) (seq 0 (Z.to_nat cols))).
  - intros j Hj. apply in_seq in Hj. rewrite <- stab_primal_four by (auto; lia). apply Hn.
    apply in_plaquette_indices. rewrite plaq_unfold, inb_unfold. cbn [fst snd]. lia.
Qed.
Lemma colpar_step e c : length e = (N + N)%nat -> normal e -> c mod 2 = 1 -> 1 <= c <= 2 * cols - 3 ->
  colpar e (c - 1) = colpar e (c + 1).
Proof.
  intros He Hn H1 H2. pose proof (telescope (fun s => zat e (snd s, fst s)) c (Z.to_nat rows)) as T.
  cbn [fst snd] in T. rewrite (xsumb_ext _ (fun _ => false)) in T.
  - rewrite xsumb_false in T. rewrite (zat_out e (-1, c)), (zat_out e (2 * Z.of_nat (Z.to_nat rows) - 1, c)) in T
      by (rewrite inb_unfold; cbn [fst snd]; lia).
    unfold colpar. now destruct (xsumb (fun i => zat e (2 * Z.of_nat i, c - 1)) (seq 0 (Z.to_nat rows))),
      (xsumb (fun i => zat e (2 * Z.of_nat i, c + 1)) (seq 0 (Z.to_nat rows))).
  - intros i Hi. apply in_seq in Hi. rewrite four_swap. rewrite <- stab_dual_four by (auto; lia). apply Hn.
    apply in_plaquette_indices. rewrite plaq_unfold, inb_unfold. cbn [fst snd]. lia.
Qed.

Lemma rowpar_all e : length e = (N + N)%nat -> normal e -> forall k : nat, Z.of_nat k <= rows - 1 ->
  rowpar e (2 * (rows - 1 - Z.of_nat k)) = rowpar e (2 * rows - 2).
Proof.
  intros He Hn. induction k as [|k IH]; intros Hk.
  - f_equal. lia.
  - rewrite <- IH by lia. set (r := 2 * (rows - 1 - Z.of_nat k) - 1).
    replace (2 * (rows - 1 - Z.of_nat (S k))) with (r - 1) by (unfold r; lia).
    replace (2 * (rows - 1 - Z.of_nat k)) with (r + 1) by (unfold r; lia).
    apply rowpar_step; auto; unfold r; lia.
Qed.
Lemma colpar_all e : length e = (N + N)%nat -> normal e -> forall k : nat, Z.of_nat k <= cols - 1 ->
  colpar e (2 * (cols - 1 - Z.of_nat k)) = colpar e (2 * cols - 2).
Proof.
  intros He Hn. induction k as [|k IH]; intros Hk.
  - f_equal. lia.
  - rewrite <- IH by lia. set (c := 2 * (cols - 1 - Z.of_nat k) - 1).
    replace (2 * (cols - 1 - Z.of_nat (S k))) with (c - 1) by (unfold c; lia).
    replace (2 * (cols - 1 - Z.of_nat k)) with (c + 1) by (unfold c; lia).
    apply colpar_step; auto; unfold c; lia.
Qed.

Lemma bsp_lz_rowpar e : length e = (N + N)%nat -> bsp e (lzop rows cols) = rowpar e (2 * rows - 2).
Proof.
  intros He. unfold lzop. rewrite bsp_e_sopZ by (auto using lz_sites_sites). rewrite lz_sites_eq, xsumb_map. reflexivity.
Qed.
Lemma bsp_lx_colpar e : length e = (N + N)%nat -> bsp e (lxop rows cols) = colpar e (2 * cols - 2).
Proof.
  intros He. unfold lxop. rewrite bsp_e_sopX by (auto using lx_sites_sites). rewrite lx_sites_eq, xsumb_map. reflexivity.
Qed.

(* an operator anticommuting with logical Z has an X component in every row of horizontal edges *)
Lemma rows_hit e : length e = (N + N)%nat -> normal e -> bsp e (lzop rows cols) = true ->
  forall i, 0 <= i < rows -> exists j, 0 <= j < cols /\ xat e (2 * i, 2 * j) = true.
Proof.
  intros He Hn Hb i Hi. rewrite bsp_lz_rowpar in Hb by auto.
  pose proof (rowpar_all e He Hn (Z.to_nat (rows - 1 - i)) ltac:(lia)) as H.
  replace (2 * (rows - 1 - Z.of_nat (Z.to_nat (rows - 1 - i)))) with (2 * i) in H by lia. rewrite Hb in H.
  unfold rowpar in H. apply xsumb_true_ex in H. destruct H as (j & Hj & Hx). apply in_seq in Hj.
  exists (Z.of_nat j). split; [lia|exact Hx].
Qed.
Lemma cols_hit e : length e = (N + N)%nat -> normal e -> bsp e (lxop rows cols) = true ->
  forall j, 0 <= j < cols -> exists i, 0 <= i < rows /\ zat e (2 * i, 2 * j) = true.
Proof.
  intros He Hn Hb j Hj. rewrite bsp_lx_colpar in Hb by auto.
  pose proof (colpar_all e He Hn (Z.to_nat (cols - 1 - j)) ltac:(lia)) as H.
  replace (2 * (cols - 1 - Z.of_nat (Z.to_nat (cols - 1 - j)))) with (2 * j) in H by lia. rewrite Hb in H.
  unfold colpar in H. apply xsumb_true_ex in H. destruct H as (i & Hi & Hx). apply in_seq in Hi.
  exists (Z.of_nat i). split; [lia|exact Hx].
Qed.

(* m lines, each hit in a site whose line number is given by kappa: at least m true bits *)
Lemma sites_hit_count (v : bsf) (kappa : idx -> Z) : forall m : nat,
  (forall i, 0 <= i < Z.of_nat m -> exists s, isite rows cols s /\ nth (fl s) v false = true /\ kappa s = i) ->
  (m <= count_true v)%nat.
Proof.
  intros m H.
  assert (HL : exists L : list idx, length L = m /\ NoDup L /\
             forall s, In s L -> isite rows cols s /\ nth (fl s) v false = true /\ 0 <= kappa s < Z.of_nat m).
  { induction m as [|m IH].
    - exists []. split; [reflexivity|]. split; [constructor|]. intros s [].
    - destruct IH as (L & HLl & Hnd & HLs); [intros i Hi; apply H; lia|].
      destruct (H (Z.of_nat m) ltac:(lia)) as (s & Hs1 & Hs2 & Hs3).
      exists (s :: L). split; [cbn; lia|]. split.
      + constructor; auto. intros Hin. apply HLs in Hin. lia.
      + intros s' [<-|Hs']; [split; [exact Hs1|split; [exact Hs2|lia]]|].
        destruct (HLs s' Hs') as (A & B & C). split; [exact A|split; [exact B|lia]]. }
  destruct HL as (L & HLl & Hnd & HLs). rewrite <- HLl, <- (map_length fl L).
  apply count_true_ge_positions.
  - apply NoDup_map_inj_in; auto. intros x y Hx Hy. apply (fl_inj rows cols Hr Hc); [apply (HLs x Hx)|apply (HLs y Hy)].
  - intros k Hk. apply in_map_iff in Hk. destruct Hk as (s & <- & Hs). apply (HLs s Hs).
Qed.

(* C08, translate argument: a normalizer element anticommuting with logical Z (X) has weight >= rows (cols) *)
Theorem planar_anticommute_z_weight e : length e = (N + N)%nat -> normal e -> bsp e (lzop rows cols) = true ->
  rows <= Z.of_nat (bsf_wt e).
Proof.
  intros He Hn Hb.
  assert (HC : (Z.to_nat rows <= count_true (firstn N e))%nat).
  { apply (sites_hit_count _ (fun s => fst s / 2)). intros i Hi.
    destruct (rows_hit e He Hn Hb i ltac:(lia)) as (j & Hj & Hx). unfold xat in Hx. apply andb_true_iff in Hx.
    destruct Hx as [Hin Hbit]. exists (2 * i, 2 * j). split; [|split; [exact Hbit|cbn [fst]; lia]].
    split; [rewrite site_unfold; cbn [fst snd]; lia|exact Hin]. }
  destruct (parts_weight N e ltac:(lia)) as (_ & _ & W & _). lia.
Qed.
Theorem planar_anticommute_x_weight e : length e = (N + N)%nat -> normal e -> bsp e (lxop rows cols) = true ->
  cols <= Z.of_nat (bsf_wt e).
Proof.
  intros He Hn Hb.
  assert (HC : (Z.to_nat cols <= count_true (skipn N e))%nat).
  { apply (sites_hit_count _ (fun s => snd s / 2)). intros j Hj.
    destruct (cols_hit e He Hn Hb j ltac:(lia)) as (i & Hi & Hx). unfold zat in Hx. apply andb_true_iff in Hx.
    destruct Hx as [Hin Hbit]. exists (2 * i, 2 * j). split; [|split; [exact Hbit|cbn [snd]; lia]].
    split; [rewrite site_unfold; cbn [fst snd]; lia|exact Hin]. }
  destruct (parts_weight N e ltac:(lia)) as (_ & _ & _ & W). lia.
Qed.

(* the proved part of the lower bound: every normalizer element that anticommutes with a supplied logical *)
Theorem planar_distance_lower_partial e : length e = (N + N)%nat -> normalizer STABS e ->
  bsp e (lxop rows cols) = true \/ bsp e (lzop rows cols) = true -> Z.min rows cols <= Z.of_nat (bsf_wt e).
Proof.
  intros He Hn [Hb|Hb]; apply normal_normalizer in Hn.
  - pose proof (planar_anticommute_x_weight e He Hn Hb). lia.
  - pose proof (planar_anticommute_z_weight e He Hn Hb). lia.
Qed.

(* the supplied logicals are normalizer elements outside the span of the stabilizers *)
Lemma lxop_normalizer : normalizer STABS (lxop rows cols).
Proof.
  apply normal_normalizer. intros q Hq. unfold lxop, stab. rewrite bsp_sop_sym. now apply planar_stabilizer_logical_x.
Qed.
Lemma lzop_normalizer : normalizer STABS (lzop rows cols).
Proof.
  apply normal_normalizer. intros q Hq. unfold lzop, stab. rewrite bsp_sop_sym. now apply planar_stabilizer_logical_z.
Qed.
Lemma lxop_not_in_span : ~ in_spanP (N + N) STABS (lxop rows cols).
Proof.
  intros (cs & _ & Hl). rewrite lincomb_select in Hl.
  apply (planar_logical_x_nontrivial rows cols Hr Hc (select cs STABS)); auto. intros s Hs. eapply select_In; eauto.
Qed.
Lemma lzop_not_in_span : ~ in_spanP (N + N) STABS (lzop rows cols).
Proof.
  intros (cs & _ & Hl). rewrite lincomb_select in Hl.
  apply (planar_logical_z_nontrivial rows cols Hr Hc (select cs STABS)); auto. intros s Hs. eapply select_In; eauto.
Qed.

(* ------------------------------------------------------------------ *)
(** * Completeness: a normalizer element commuting with both logicals is a product of stabilizers.
      The coefficients are explicit: the dual plaquette (2i, 2j+1) is taken iff the X components of e on the
      horizontal edges (2i, 0), ..., (2i, 2j) have odd parity; the primal plaquette (2i+1, 2j) iff the Z
      components on (0, 2j), ..., (2i, 2j) have odd parity.  The verification is the telescoping lemma. *)
(* ------------------------------------------------------------------ *)
Definition reader_x (s : idx) : bsf := sop rows cols pZ [s].
Definition reader_z (s : idx) : bsf := sop rows cols pX [s].
Lemma single_site s : planar_is_site s = true -> all_sites [s].
Proof. intros H a [<-|[]]. exact H. Qed.
Lemma xat_reader e s : length e = (N + N)%nat -> planar_is_site s = true -> xat e s = bsp (reader_x s) e.
Proof.
  intros He Hs. unfold reader_x. rewrite bsp_sym by (rewrite ?sop_length; auto using even_NN).
  rewrite bsp_e_sopZ by auto using single_site. cbn [xsumb]. now rewrite xorb_false_r.
Qed.
Lemma zat_reader e s : length e = (N + N)%nat -> planar_is_site s = true -> zat e s = bsp (reader_z s) e.
Proof.
  intros He Hs. unfold reader_z. rewrite bsp_sym by (rewrite ?sop_length; auto using even_NN).
  rewrite bsp_e_sopX by auto using single_site. cbn [xsumb]. now rewrite xorb_false_r.
Qed.
Lemma reader_stab op s q : planar_is_site s = true -> planar_is_plaquette q = true ->
  bsp (sop rows cols op [s]) (stab rows cols q) =
  xorb (zbit op && xbit (plaq_op q) && (inb s && adj s q)) (xbit op && zbit (plaq_op q) && (inb s && adj s q)).
Proof.
  intros Hs Hq. unfold stab. rewrite (bsp_sop rows cols Hr Hc) by auto using single_site, plaq_sites_sites. cbv zeta.
  rewrite pairs_filter. cbn [fold_right]. rewrite cnt_plaq.
  assert (E : Z.odd (Z.b2z (inb s) * (Z.b2z (inb s) * Z.b2z (adj s q)) + 0) = inb s && adj s q)
    by (destruct (inb s), (adj s q); reflexivity).
  now rewrite E.
Qed.

Definition prod (g : idx -> bool) : bsf := xsum (N + N) (map (stab rows cols) (filter g PI)).
Lemma prod_rows g : Forall (fun r => length r = (N + N)%nat) (map (stab rows cols) (filter g PI)).
Proof. apply Forall_forall. intros r Hr'. apply in_map_iff in Hr'. destruct Hr' as (q & <- & _). apply stab_length. Qed.
Lemma prod_length g : length (prod g) = (N + N)%nat.
Proof. apply xsum_len, prod_rows. Qed.
Lemma prod_in_span g : in_spanP (N + N) STABS (prod g).
Proof.
  unfold prod. rewrite code_eq. cbn [stabs]. exists (map g PI). split; [now rewrite !map_length|].
  rewrite lincomb_select. f_equal. induction PI as [|q L IH]; cbn [map filter select]; auto.
  destruct (g q); cbn [map]; now rewrite IH.
Qed.

Lemma xat_prod g s : isite rows cols s ->
  xat (prod g) s = xsumb (fun q => g q && (xbit (plaq_op q) && adj s q)) PI.
Proof.
  intros [Hs Hi]. rewrite xat_reader by auto using prod_length. unfold prod, reader_x.
  rewrite bsp_xsum_r by (auto using even_NN, prod_rows, sop_length). rewrite xsumb_map, xsumb_filter.
  apply xsumb_ext. intros q Hq. apply in_plaquette_indices in Hq. destruct Hq as [Hq _].
  rewrite reader_stab by auto. rewrite Hi. cbn [xbit zbit andb]. now rewrite xorb_false_r.
Qed.
Lemma zat_prod g s : isite rows cols s ->
  zat (prod g) s = xsumb (fun q => g q && (zbit (plaq_op q) && adj s q)) PI.
Proof.
  intros [Hs Hi]. rewrite zat_reader by auto using prod_length. unfold prod, reader_z.
  rewrite bsp_xsum_r by (auto using even_NN, prod_rows, sop_length). rewrite xsumb_map, xsumb_filter.
  apply xsumb_ext. intros q Hq. apply in_plaquette_indices in Hq. destruct Hq as [Hq _].
  rewrite reader_stab by auto. rewrite Hi. cbn [xbit zbit andb]. now rewrite xorb_false_l.
Qed.

(* sums over the (duplicate-free) plaquette list that pick out one or two plaquettes *)
Definition memb (q : idx) : bool := planar_is_plaquette q && inb q.
Lemma xsumb_pick (g : idx -> bool) q1 : forall L, NoDup L ->
  xsumb (fun q => g q && zeqb2 q q1) L = existsb (zeqb2 q1) L && g q1.
Proof.
  induction L as [|a L IH]; intros Hnd; cbn [xsumb existsb]; [reflexivity|].
  inversion Hnd as [|? ? Hn Hnd']; subst. rewrite IH by auto.
  destruct (zeqb2 a q1) eqn:E.
  - apply zeqb2_eq in E. subst a. rewrite zeqb2_refl. cbn [orb andb].
    assert (Ex : existsb (zeqb2 q1) L = false).
    { destruct (existsb (zeqb2 q1) L) eqn:Ee; [|reflexivity]. apply existsb_exists in Ee. destruct Ee as (x & Hx & Hz).
      apply zeqb2_eq in Hz. subst. contradiction. }
    rewrite Ex. cbn [andb]. rewrite andb_true_r. apply xorb_false_r.
  - assert (E' : zeqb2 q1 a = false).
    { destruct (zeqb2 q1 a) eqn:Ee; [|reflexivity]. apply zeqb2_eq in Ee. subst. rewrite zeqb2_refl in E. discriminate. }
    rewrite E', andb_false_r. cbn [orb]. apply xorb_false_l.
Qed.
Lemma memb_existsb q : existsb (zeqb2 q) PI = memb q.
Proof.
  unfold memb. destruct (existsb (zeqb2 q) PI) eqn:E.
  - apply existsb_exists in E. destruct E as (x & Hx & Hz). apply zeqb2_eq in Hz. subst x.
    apply in_plaquette_indices in Hx. destruct Hx as [-> ->]. reflexivity.
  - destruct (planar_is_plaquette q && inb q) eqn:E2; [|reflexivity]. apply andb_true_iff in E2.
    assert (Hin : In q PI) by now apply in_plaquette_indices.
    assert (existsb (zeqb2 q) PI = true) by (apply existsb_exists; exists q; split; [exact Hin|apply zeqb2_refl]). congruence.
Qed.
Lemma xsumb_two (g F : idx -> bool) q1 q2 : q1 <> q2 ->
  (forall q, In q PI -> F q = zeqb2 q q1 || zeqb2 q q2) ->
  xsumb (fun q => g q && F q) PI = xorb (memb q1 && g q1) (memb q2 && g q2).
Proof.
  intros Hne HF. rewrite <- !memb_existsb, <- !(xsumb_pick g) by apply NoDup_plaquette_indices.
  rewrite <- xsumb_xorb. apply xsumb_ext. intros q Hq. rewrite (HF q Hq).
  destruct (zeqb2 q q1) eqn:E1, (zeqb2 q q2) eqn:E2; destruct (g q); try reflexivity.
  apply zeqb2_eq in E1, E2. congruence.
Qed.

(* the coefficients *)
Definition alpha (e : bsf) (q : idx) : bool :=
  xsumb (fun j => xat e (fst q, 2 * Z.of_nat j)) (seq 0 (Z.to_nat ((snd q + 1) / 2))).
Definition beta (e : bsf) (q : idx) : bool :=
  xsumb (fun i => zat e (2 * Z.of_nat i, snd q)) (seq 0 (Z.to_nat ((fst q + 1) / 2))).
Definition gamma (e : bsf) (q : idx) : bool := if planar_is_primal q then beta e q else alpha e q.

Lemma xbit_plaq_op q : In q PI -> xbit (plaq_op q) = (fst q mod 2 =? 0) /\ zbit (plaq_op q) = (fst q mod 2 =? 1).
Proof.
  intros Hq. apply in_plaquette_indices in Hq. destruct Hq as [Hq _]. apply ptype_plaquette in Hq.
  unfold plaq_op. rewrite (primal_of_ptype q Hq). destruct (fst q mod 2 =? 1) eqn:E; cbn [xbit zbit]; split; lia.
Qed.
Lemma gamma_dual e q : fst q mod 2 = 0 -> snd q mod 2 = 1 -> gamma e q = alpha e q.
Proof. intros H1 H2. unfold gamma. rewrite primal_unfold. replace (_ || _) with false by lia. reflexivity. Qed.
Lemma gamma_primal e q : fst q mod 2 = 1 -> snd q mod 2 = 0 -> gamma e q = beta e q.
Proof. intros H1 H2. unfold gamma. rewrite primal_unfold. replace (_ || _) with true by lia. reflexivity. Qed.

Section Central.
Variable e : bsf.
Hypothesis He : length e = (N + N)%nat.
Hypothesis Hn : normal e.
Hypothesis Hx : bsp e (lxop rows cols) = false.
Hypothesis Hz : bsp e (lzop rows cols) = false.

Lemma rowpar_zero i : 0 <= i < rows -> rowpar e (2 * i) = false.
Proof.
  intros Hi. pose proof (rowpar_all e He Hn (Z.to_nat (rows - 1 - i)) ltac:(lia)) as H.
  replace (2 * (rows - 1 - Z.of_nat (Z.to_nat (rows - 1 - i)))) with (2 * i) in H by lia.
  rewrite H, <- bsp_lz_rowpar by auto. exact Hz.
Qed.
Lemma colpar_zero j : 0 <= j < cols -> colpar e (2 * j) = false.
Proof.
  intros Hj. pose proof (colpar_all e He Hn (Z.to_nat (cols - 1 - j)) ltac:(lia)) as H.
  replace (2 * (cols - 1 - Z.of_nat (Z.to_nat (cols - 1 - j)))) with (2 * j) in H by lia.
  rewrite H, <- bsp_lx_colpar by auto. exact Hx.
Qed.

(* X components: horizontal edges *)
Lemma xat_prod_h i j : 0 <= i < rows -> 0 <= j < cols -> xat (prod (gamma e)) (2 * i, 2 * j) = xat e (2 * i, 2 * j).
Proof.
  intros Hi Hj.
  assert (Hs : isite rows cols (2 * i, 2 * j)) by (split; [rewrite site_unfold|rewrite inb_unfold]; cbn [fst snd]; lia).
  rewrite (xat_prod _ _ Hs).
  rewrite (xsumb_two (gamma e) _ (2 * i, 2 * j - 1) (2 * i, 2 * j + 1)).
  - rewrite !gamma_dual by (cbn [fst snd]; lia).
    assert (H1 : alpha e (2 * i, 2 * j + 1) = xorb (alpha e (2 * i, 2 * j - 1)) (xat e (2 * i, 2 * j))).
    { unfold alpha. cbn [fst snd]. replace (Z.to_nat ((2 * j + 1 + 1) / 2)) with (S (Z.to_nat j)) by lia.
      replace (Z.to_nat ((2 * j - 1 + 1) / 2)) with (Z.to_nat j) by lia.
      rewrite xsumb_seq_S. now replace (2 * Z.of_nat (Z.to_nat j)) with (2 * j) by lia. }
    assert (H2 : memb (2 * i, 2 * j - 1) = false -> alpha e (2 * i, 2 * j - 1) = false).
    { intros Hm. assert (j = 0) by (unfold memb in Hm; rewrite plaq_unfold, inb_unfold in Hm; cbn [fst snd] in Hm; lia).
      subst j. reflexivity. }
    assert (H3 : memb (2 * i, 2 * j + 1) = false -> alpha e (2 * i, 2 * j + 1) = false).
    { intros Hm. assert (j = cols - 1) by (unfold memb in Hm; rewrite plaq_unfold, inb_unfold in Hm; cbn [fst snd] in Hm; lia).
      subst j. rewrite <- (rowpar_zero i Hi). unfold alpha, rowpar. cbn [fst snd]. do 2 f_equal. lia. }
    destruct (memb (2 * i, 2 * j - 1)) eqn:M1, (memb (2 * i, 2 * j + 1)) eqn:M2; cbn [andb];
      try (specialize (H2 eq_refl)); try (specialize (H3 eq_refl)); rewrite H1 in *;
      destruct (alpha e (2 * i, 2 * j - 1)), (xat e (2 * i, 2 * j)); cbn in *; congruence.
  - intros H. apply (f_equal snd) in H. cbn in H. lia.
  - intros q Hq. destruct (xbit_plaq_op q Hq) as [-> _]. apply in_plaquette_indices in Hq. destruct Hq as [Hq1 Hq2].
    rewrite plaq_unfold in Hq1. destruct q as [qr qc]. unfold adj, zeqb2. cbn [fst snd] in *. lia.
Qed.

(* X components: vertical edges *)
Lemma xat_prod_v i j : 0 <= i < rows - 1 -> 0 <= j < cols - 1 ->
  xat (prod (gamma e)) (2 * i + 1, 2 * j + 1) = xat e (2 * i + 1, 2 * j + 1).
Proof.
  intros Hi Hj.
  assert (Hs : isite rows cols (2 * i + 1, 2 * j + 1)) by (split; [rewrite site_unfold|rewrite inb_unfold]; cbn [fst snd]; lia).
  rewrite (xat_prod _ _ Hs).
  rewrite (xsumb_two (gamma e) _ (2 * i, 2 * j + 1) (2 * i + 2, 2 * j + 1)).
  - rewrite !gamma_dual by (cbn [fst snd]; lia).
    assert (M1 : memb (2 * i, 2 * j + 1) = true) by (unfold memb; rewrite plaq_unfold, inb_unfold; cbn [fst snd]; lia).
    assert (M2 : memb (2 * i + 2, 2 * j + 1) = true) by (unfold memb; rewrite plaq_unfold, inb_unfold; cbn [fst snd]; lia).
    rewrite M1, M2. cbn [andb].
    pose proof (telescope (xat e) (2 * i + 1) (S (Z.to_nat j))) as T.
    rewrite (xsumb_ext _ (fun _ => false)) in T.
    + rewrite xsumb_false in T. rewrite (xat_out e (2 * i + 1, -1)) in T by (rewrite inb_unfold; cbn [fst snd]; lia).
      replace (2 * i + 1 - 1) with (2 * i) in T by lia. replace (2 * i + 1 + 1) with (2 * i + 2) in T by lia.
      replace (2 * Z.of_nat (S (Z.to_nat j)) - 1) with (2 * j + 1) in T by lia.
      unfold alpha. cbn [fst snd]. replace (Z.to_nat ((2 * j + 1 + 1) / 2)) with (S (Z.to_nat j)) by lia.
      destruct (xsumb (fun j0 => xat e (2 * i, 2 * Z.of_nat j0)) (seq 0 (S (Z.to_nat j)))),
        (xsumb (fun j0 => xat e (2 * i + 2, 2 * Z.of_nat j0)) (seq 0 (S (Z.to_nat j)))),
        (xat e (2 * i + 1, 2 * j + 1)); cbn in *; congruence.
    + intros j' Hj'. apply in_seq in Hj'. rewrite <- stab_primal_four by (auto; lia). apply Hn.
      apply in_plaquette_indices. rewrite plaq_unfold, inb_unfold. cbn [fst snd]. lia.
  - intros H. apply (f_equal fst) in H. cbn in H. lia.
  - intros q Hq. destruct (xbit_plaq_op q Hq) as [-> _]. apply in_plaquette_indices in Hq. destruct Hq as [Hq1 Hq2].
    rewrite plaq_unfold in Hq1. destruct q as [qr qc]. unfold adj, zeqb2. cbn [fst snd] in *. lia.
Qed.

(* Z components: horizontal edges *)
Lemma zat_prod_h i j : 0 <= i < rows -> 0 <= j < cols -> zat (prod (gamma e)) (2 * i, 2 * j) = zat e (2 * i, 2 * j).
Proof.
  intros Hi Hj.
  assert (Hs : isite rows cols (2 * i, 2 * j)) by (split; [rewrite site_unfold|rewrite inb_unfold]; cbn [fst snd]; lia).
  rewrite (zat_prod _ _ Hs).
  rewrite (xsumb_two (gamma e) _ (2 * i - 1, 2 * j) (2 * i + 1, 2 * j)).
  - rewrite !gamma_primal by (cbn [fst snd]; lia).
    assert (H1 : beta e (2 * i + 1, 2 * j) = xorb (beta e (2 * i - 1, 2 * j)) (zat e (2 * i, 2 * j))).
    { unfold beta. cbn [fst snd]. replace (Z.to_nat ((2 * i + 1 + 1) / 2)) with (S (Z.to_nat i)) by lia.
      replace (Z.to_nat ((2 * i - 1 + 1) / 2)) with (Z.to_nat i) by lia.
      rewrite xsumb_seq_S. now replace (2 * Z.of_nat (Z.to_nat i)) with (2 * i) by lia. }
    assert (H2 : memb (2 * i - 1, 2 * j) = false -> beta e (2 * i - 1, 2 * j) = false).
    { intros Hm. assert (i = 0) by (unfold memb in Hm; rewrite plaq_unfold, inb_unfold in Hm; cbn [fst snd] in Hm; lia).
      subst i. reflexivity. }
    assert (H3 : memb (2 * i + 1, 2 * j) = false -> beta e (2 * i + 1, 2 * j) = false).
    { intros Hm. assert (i = rows - 1) by (unfold memb in Hm; rewrite plaq_unfold, inb_unfold in Hm; cbn [fst snd] in Hm; lia).
      subst i. rewrite <- (colpar_zero j Hj). unfold beta, colpar. cbn [fst snd]. do 2 f_equal. lia. }
    destruct (memb (2 * i - 1, 2 * j)) eqn:M1, (memb (2 * i + 1, 2 * j)) eqn:M2; cbn [andb];
      try (specialize (H2 eq_refl)); try (specialize (H3 eq_refl)); rewrite H1 in *;
      destruct (beta e (2 * i - 1, 2 * j)), (zat e (2 * i, 2 * j)); cbn in *; congruence.
  - intros H. apply (f_equal fst) in H. cbn in H. lia.
  - intros q Hq. destruct (xbit_plaq_op q Hq) as [_ ->]. apply in_plaquette_indices in Hq. destruct Hq as [Hq1 Hq2].
    rewrite plaq_unfold in Hq1. destruct q as [qr qc]. unfold adj, zeqb2. cbn [fst snd] in *. lia.
Qed.

(* Z components: vertical edges *)
Lemma zat_prod_v i j : 0 <= i < rows - 1 -> 0 <= j < cols - 1 ->
  zat (prod (gamma e)) (2 * i + 1, 2 * j + 1) = zat e (2 * i + 1, 2 * j + 1).
Proof.
  intros Hi Hj.
  assert (Hs : isite rows cols (2 * i + 1, 2 * j + 1)) by (split; [rewrite site_unfold|rewrite inb_unfold]; cbn [fst snd]; lia).
  rewrite (zat_prod _ _ Hs).
  rewrite (xsumb_two (gamma e) _ (2 * i + 1, 2 * j) (2 * i + 1, 2 * j + 2)).
  - rewrite !gamma_primal by (cbn [fst snd]; lia).
    assert (M1 : memb (2 * i + 1, 2 * j) = true) by (unfold memb; rewrite plaq_unfold, inb_unfold; cbn [fst snd]; lia).
    assert (M2 : memb (2 * i + 1, 2 * j + 2) = true) by (unfold memb; rewrite plaq_unfold, inb_unfold; cbn [fst snd]; lia).
    rewrite M1, M2. cbn [andb].
    pose proof (telescope (fun s => zat e (snd s, fst s)) (2 * j + 1) (S (Z.to_nat i))) as T. cbn [fst snd] in T.
    rewrite (xsumb_ext _ (fun _ => false)) in T.
    + rewrite xsumb_false in T. rewrite (zat_out e (-1, 2 * j + 1)) in T by (rewrite inb_unfold; cbn [fst snd]; lia).
      replace (2 * j + 1 - 1) with (2 * j) in T by lia. replace (2 * j + 1 + 1) with (2 * j + 2) in T by lia.
      replace (2 * Z.of_nat (S (Z.to_nat i)) - 1) with (2 * i + 1) in T by lia.
      unfold beta. cbn [fst snd]. replace (Z.to_nat ((2 * i + 1 + 1) / 2)) with (S (Z.to_nat i)) by lia.
      destruct (xsumb (fun i0 => zat e (2 * Z.of_nat i0, 2 * j)) (seq 0 (S (Z.to_nat i)))),
        (xsumb (fun i0 => zat e (2 * Z.of_nat i0, 2 * j + 2)) (seq 0 (S (Z.to_nat i)))),
        (zat e (2 * i + 1, 2 * j + 1)); cbn in *; congruence.
    + intros i' Hi'. apply in_seq in Hi'. rewrite four_swap. rewrite <- stab_dual_four by (auto; lia). apply Hn.
      apply in_plaquette_indices. rewrite plaq_unfold, inb_unfold. cbn [fst snd]. lia.
  - intros H. apply (f_equal snd) in H. cbn in H. lia.
  - intros q Hq. destruct (xbit_plaq_op q Hq) as [_ ->]. apply in_plaquette_indices in Hq. destruct Hq as [Hq1 Hq2].
    rewrite plaq_unfold in Hq1. destruct q as [qr qc]. unfold adj, zeqb2. cbn [fst snd] in *. lia.
Qed.

Lemma prod_agrees s : isite rows cols s ->
  xat (prod (gamma e)) s = xat e s /\ zat (prod (gamma e)) s = zat e s.
Proof.
  intros Hs. destruct (site_cases rows cols s Hs) as [(a & b & -> & Ha & Hb)|(a & b & -> & Ha & Hb)].
  - split; [now apply xat_prod_h|now apply zat_prod_h].
  - split; [now apply xat_prod_v|now apply zat_prod_v].
Qed.
End Central.

(* two operators with the same X and Z components at every site are equal *)
Lemma ext_sites a b : length a = (N + N)%nat -> length b = (N + N)%nat ->
  (forall s, isite rows cols s -> xat a s = xat b s /\ zat a s = zat b s) -> a = b.
Proof.
  intros La Lb H. rewrite <- (firstn_skipn N a), <- (firstn_skipn N b).
  assert (Hk : forall k, (k < N)%nat -> nth k (firstn N a) false = nth k (firstn N b) false /\
                                      nth k (skipn N a) false = nth k (skipn N b) false).
  { intros k Hk. destruct (planar_flatten_surjective rows cols Hr Hc (Z.of_nat k) ltac:(lia)) as [Hs Hf].
    destruct (H _ Hs) as [Hxa Hza]. unfold xat, zat, PlanarAll.fl in Hxa, Hza. rewrite Hf in Hxa, Hza.
    destruct Hs as [_ Hi]. rewrite Hi in Hxa, Hza. cbn [andb] in Hxa, Hza. rewrite Nat2Z.id in Hxa, Hza. auto. }
  f_equal.
  - apply (nth_ext _ _ false false); [rewrite !firstn_length; lia|]. intros k Hk'. rewrite firstn_length in Hk'.
    apply Hk. lia.
  - apply (nth_ext _ _ false false); [rewrite !skipn_length; lia|]. intros k Hk'. rewrite skipn_length in Hk'.
    apply Hk. lia.
Qed.

(* C08, completeness of the logical pair, all sizes *)
Theorem planar_centralizer e : length e = (N + N)%nat -> normalizer STABS e ->
  bsp e (lxop rows cols) = false -> bsp e (lzop rows cols) = false -> in_spanP (N + N) STABS e.
Proof.
  intros He Hn Hx Hz. apply normal_normalizer in Hn.
  assert (E : prod (gamma e) = e).
  { apply ext_sites; auto using prod_length. intros s Hs. now apply prod_agrees. }
  rewrite <- E. apply prod_in_span.
Qed.
End PlanarDist.

(* ================================================================== *)
(** * From completeness to the distance                                 *)
(* ================================================================== *)
(* completeness of the logical pair as a closed statement (proved below: [planar_centralizer_all]) *)
Definition planar_centralizer_statement : Prop :=
  forall rows cols, 2 <= rows -> 2 <= cols -> forall e : bsf,
    length e = (planar_n rows cols + planar_n rows cols)%nat -> normalizer (stabs (planar_code rows cols)) e ->
    bsp e (lxop rows cols) = false -> bsp e (lzop rows cols) = false ->
    in_spanP (planar_n rows cols + planar_n rows cols) (stabs (planar_code rows cols)) e.

Theorem planar_distance_lower_from_centralizer : planar_centralizer_statement -> planar_distance_lower_statement.
Proof.
  intros HC rows cols Hr Hc e He Hn Hs.
  destruct (bsp e (lxop rows cols)) eqn:Ex; [apply (planar_distance_lower_partial rows cols Hr Hc e He Hn); auto|].
  destruct (bsp e (lzop rows cols)) eqn:Ez; [apply (planar_distance_lower_partial rows cols Hr Hc e He Hn); auto|].
  exfalso. destruct (HC rows cols Hr Hc e He Hn Ex Ez) as (cs & _ & Hl). rewrite lincomb_select in Hl. exact (Hs cs Hl).
Qed.

(* ... and then the advertised d = min(rows, cols) is the true minimum distance for every size, in the sense of Core/Dist.v *)
Theorem planar_is_distance_from_centralizer : planar_centralizer_statement ->
  forall rows cols, 2 <= rows -> 2 <= cols ->
  is_distance (planar_n rows cols) (stabs (planar_code rows cols)) (Z.to_nat (Z.min rows cols)).
Proof.
  intros HC rows cols Hr Hc. set (N := planar_n rows cols).
  assert (E2 : (2 * N = N + N)%nat) by lia.
  split.
  - destruct (Z.le_ge_cases rows cols) as [Hle|Hge].
    + exists (lxop rows cols). split.
      * split; [rewrite E2; apply sop_length|]. split; [now apply lxop_normalizer|]. rewrite E2. now apply lxop_not_in_span.
      * pose proof (planar_logical_x_weight rows cols Hr Hc). lia.
    + exists (lzop rows cols). split.
      * split; [rewrite E2; apply sop_length|]. split; [now apply lzop_normalizer|]. rewrite E2. now apply lzop_not_in_span.
      * pose proof (planar_logical_z_weight rows cols Hr Hc). lia.
  - intros v (Hl & Hn & Hs). rewrite E2 in Hl, Hs.
    assert (H : Z.min rows cols <= Z.of_nat (bsf_wt v)); [|lia].
    destruct (bsp v (lxop rows cols)) eqn:Ex; [apply (planar_distance_lower_partial rows cols Hr Hc v Hl Hn); auto|].
    destruct (bsp v (lzop rows cols)) eqn:Ez; [apply (planar_distance_lower_partial rows cols Hr Hc v Hl Hn); auto|].
    exfalso. apply Hs. now apply HC.
Qed.

(* unconditional, all sizes: d is attained, and nothing that anticommutes with a supplied logical is lighter *)
Theorem planar_distance_all_partial : forall rows cols, 2 <= rows -> 2 <= cols ->
  (exists v, nontrivial (planar_n rows cols) (stabs (planar_code rows cols)) v /\ Z.of_nat (bsf_wt v) = Z.min rows cols) /\
  (forall v, nontrivial (planar_n rows cols) (stabs (planar_code rows cols)) v ->
     bsp v (lxop rows cols) = true \/ bsp v (lzop rows cols) = true -> Z.min rows cols <= Z.of_nat (bsf_wt v)).
Proof.
  intros rows cols Hr Hc. set (N := planar_n rows cols). assert (E2 : (2 * N = N + N)%nat) by lia. split.
  - destruct (Z.le_ge_cases rows cols) as [Hle|Hge].
    + exists (lxop rows cols). split.
      * split; [rewrite E2; apply sop_length|]. split; [now apply lxop_normalizer|]. rewrite E2. now apply lxop_not_in_span.
      * pose proof (planar_logical_x_weight rows cols Hr Hc). lia.
    + exists (lzop rows cols). split.
      * split; [rewrite E2; apply sop_length|]. split; [now apply lzop_normalizer|]. rewrite E2. now apply lzop_not_in_span.
      * pose proof (planar_logical_z_weight rows cols Hr Hc). lia.
  - intros v (Hl & Hn & _) Hb. rewrite E2 in Hl. now apply (planar_distance_lower_partial rows cols Hr Hc v Hl Hn).
Qed.

(* ================================================================== *)
(** * Unconditional results for all sizes                               *)
(* ================================================================== *)
Theorem planar_centralizer_all : planar_centralizer_statement.
Proof. intros rows cols Hr Hc e. now apply planar_centralizer. Qed.

(* the statement left open in PlanarAll.v, now a theorem: every non-trivial normalizer element weighs >= min(rows, cols) *)
Theorem planar_distance_lower_all : planar_distance_lower_statement.
Proof. exact (planar_distance_lower_from_centralizer planar_centralizer_all). Qed.

(* C08 for the planar code, every size: the advertised d = min(rows, cols) is the true minimum distance *)
Theorem planar_is_distance_all : forall rows cols, 2 <= rows -> 2 <= cols ->
  is_distance (planar_n rows cols) (stabs (planar_code rows cols)) (Z.to_nat (Z.min rows cols)).
Proof. exact (planar_is_distance_from_centralizer planar_centralizer_all). Qed.
Theorem planar_is_distance_nkd : forall rows cols, 2 <= rows -> 2 <= cols ->
  let '(n, k, d) := planar_n_k_d rows cols in
  is_distance (Z.to_nat n) (stabs (planar_code rows cols)) (Z.to_nat d).
Proof. intros rows cols Hr Hc. unfold planar_n_k_d. cbv beta iota zeta. now apply planar_is_distance_all. Qed.

Example planar_is_distance_3x7 : is_distance (planar_n 3 7) (stabs (planar_code 3 7)) 3.
Proof. exact (planar_is_distance_all 3 7 ltac:(lia) ltac:(lia)). Qed.
